import AranyaV.Proofs.TypeSound
import AranyaV.Proofs.LowerStructs
namespace AranyaV.Lang
open AranyaV.Gen.Lang

/-- the source-level side conditions of the fragment: function bodies inside `fragSs`, and no
`never` in declared parameter / return / field types (there is no surface syntax for it) -/
structure FragProg (sp : SProgram) : Prop where
  bodies : ∀ fd ∈ sp.funs, fragSs fd.body = true
  rets : ∀ fd ∈ sp.funs, fd.ret.neverFree = true
  params : ∀ fd ∈ sp.funs, ∀ q ∈ fd.params, q.2.neverFree = true
  fields : ∀ s ∈ sp.structs, ∀ q ∈ s.2, q.2.neverFree = true

/-- contract of the foreign functions handed to the compiler: declared parameter types have no
`never`; on arguments fitting them a function does not report a conversion failure (`bad`), and
what it returns fits the declared return type -/
def FfiContract (mods : List (Nat × List FfiSig)) (ffi : Nat → Nat → List Val → FfiRes) : Prop :=
  ∀ mi pi m fns (sig : FfiSig), mods[mi]? = some (m, fns) → fns[pi]? = some sig →
    (∀ t ∈ sig.args, t.neverFree = true) ∧
    ∀ p : Program, ∀ vs, ArgsFit p vs sig.args → (match ffi mi pi vs with
      | .bad => False
      | .ret v => Fit p v sig.ret
      | .fail => True)

theorem fit_vtype_ty {p : Program} {v : Val} {t : Ty} (h : Fit p v v.vtype) (hf : v.vtype.fits t = true)
    (hn : t.neverFree = true) : v.fitsType t = true := fitsType_of_fits hf hn h.1

/-- `expression_value`: a constant is well typed at its own `vtype`; in particular a constant struct
conforms to its definition (the check added to `expression_value`) -/
theorem constValue_fits (p : Program) (enums : List (Nat × List Nat)) (structs : List (Nat × List (Nat × Ty)))
    (hpe : p.enums = enums)
    (hps : ∀ n q, structs.find? (·.1 == n) = some q → p.structDef n = some q.2)
    (hSnf : ∀ n d, p.structDef n = some d → ∀ q ∈ d, q.2.neverFree = true)
    (hSnd : ∀ n d, p.structDef n = some d → (d.map (·.1)).Nodup) :
    ∀ (fuel : Nat) (e : Expr) (v : Val), constValue enums structs fuel e = some v → Fit p v v.vtype
  | 0, _, _, h => by simp [constValue] at h
  | fuel + 1, e, v, h => by
    cases e <;> simp only [constValue] at h
    all_goals (try (cases h; done))
    all_goals (try (simp only [Option.some.injEq] at h; subst h; exact ⟨rfl, by simp [Val.wf]⟩))
    all_goals (try (simp only [Option.map_eq_some_iff] at h; obtain ⟨w, hw, rfl⟩ := h
                    have ih := constValue_fits p enums structs hpe hps hSnf hSnd fuel _ w hw
                    simp only [Val.vtype, constVtype] at ih ⊢
                    first | exact fit_some_mk ih | exact fit_ok_mk ih | exact fit_err_mk ih))
    · -- struct literal
      rename_i name fields srcs
      split at h
      · cases h
      split at h
      · cases h
      rename_i k d hfind
      split at h
      · cases h
      rename_i hchk
      simp only [Bool.or_eq_true, not_or, Bool.not_eq_true, Bool.not_eq_eq_eq_not, Bool.not_true, Bool.not_false] at hchk
      simp only [Option.map_eq_some_iff] at h
      obtain ⟨fsF, hfold, rfl⟩ := h
      have hpd : p.structDef name = some d := hps name (k, d) hfind
      have hnd := hSnd name d hpd
      have key : ∀ (fs : List (Nat × Expr)) (acc fsF : List (Nat × Val)),
          fs.foldl (fun acc (f : Nat × Expr) => match acc, constValue enums structs fuel f.2, d.find? (·.1 == f.1) with
            | Option.some fs, Option.some v, Option.some (_, ft) =>
              if (constVtype v).fits ft then Option.some (setField fs f.1 v) else Option.none
            | _, _, _ => Option.none) (some acc) = some fsF →
          FldInv p d acc → FldInv p d fsF ∧
            ∀ k, ((getField acc k).isSome = true ∨ k ∈ fs.map (·.1)) → (getField fsF k).isSome = true := by
        intro fs
        induction fs with
        | nil =>
          intro acc fsF h hinv
          simp only [List.foldl_nil, Option.some.injEq] at h; subst h
          exact ⟨hinv, by intro k hk; simpa using hk⟩
        | cons f fs ihf =>
          intro acc fsF h hinv
          simp only [List.foldl_cons] at h
          cases hv : constValue enums structs fuel f.2 with
          | none =>
            rw [hv] at h
            simp only at h
            have : ∀ (l : List (Nat × Expr)), l.foldl (fun acc (f : Nat × Expr) => match acc, constValue enums structs fuel f.2, d.find? (·.1 == f.1) with
                | Option.some fs, Option.some v, Option.some (_, ft) =>
                  if (constVtype v).fits ft then Option.some (setField fs f.1 v) else Option.none
                | _, _, _ => Option.none) none = none := by
              intro l; induction l with
              | nil => rfl
              | cons x xs ih => simpa using ih
            rw [this] at h; cases h
          | some w =>
            have hnone : ∀ (l : List (Nat × Expr)), l.foldl (fun acc (f : Nat × Expr) => match acc, constValue enums structs fuel f.2, d.find? (·.1 == f.1) with
                | Option.some fs, Option.some v, Option.some (_, ft) =>
                  if (constVtype v).fits ft then Option.some (setField fs f.1 v) else Option.none
                | _, _, _ => Option.none) none = none := by
              intro l; induction l with
              | nil => rfl
              | cons x xs ih => simpa using ih
            rw [hv] at h
            cases hdf : d.find? (·.1 == f.1) with
            | none => rw [hdf] at h; simp only at h; rw [hnone] at h; cases h
            | some q =>
              obtain ⟨k', ft⟩ := q
              rw [hdf] at h
              simp only at h
              by_cases hfit : (constVtype w).fits ft = true
              · simp only [hfit, if_true] at h
                have ihw := constValue_fits p enums structs hpe hps hSnf hSnd fuel _ w hv
                have hmem := List.mem_of_find?_eq_some hdf
                have hwft : w.fitsType ft = true := fit_vtype_ty ihw hfit (hSnf name d hpd _ hmem)
                obtain ⟨h1, h2⟩ := ihf _ fsF h (fldInv_set hinv ihw.2 (by intro q hq; rw [hdf] at hq; cases hq; exact hwft))
                refine ⟨h1, ?_⟩
                intro k2 hk2
                apply h2
                by_cases hkk : k2 = f.1
                · subst hkk; left; rw [getField_setField_same]; rfl
                · rcases hk2 with hk2 | hk2
                  · left; rw [getField_setField_other _ _ _ _ hkk]; exact hk2
                  · right
                    simp only [List.map_cons, List.mem_cons] at hk2
                    rcases hk2 with hk2 | hk2
                    · exact absurd hk2 hkk
                    · exact hk2
              · simp only [hfit, Bool.false_eq_true, if_false] at h; rw [hnone] at h; cases h
      obtain ⟨hinv, hpres⟩ := key fields [] fsF hfold ⟨by simp [wfFields], by intro k v h; simp [getField] at h⟩
      refine ⟨by simp [Val.vtype, constVtype, Val.fitsType], ?_⟩
      simp only [Val.wf]
      refine ⟨⟨d, hpd, ?_⟩, hinv.1⟩
      intro q hq
      have hall : (d.all fun f => fields.any fun x => x.fst == f.fst) = true := by
        cases hx : (d.all fun f => fields.any fun x => x.fst == f.fst)
        · exact absurd hx hchk.2
        · rfl
      have := List.all_eq_true.mp hall q hq
      obtain ⟨x, hx, hxq⟩ := List.any_eq_true.mp this
      have hsome := hpres q.1 (Or.inr (List.mem_map.mpr ⟨x, hx, beq_iff_eq.mp hxq⟩))
      obtain ⟨w, hw⟩ := Option.isSome_iff_exists.mp hsome
      exact ⟨w, hw, hinv.2 q.1 w hw q (findTy_of_nodup hnd hq)⟩
    · split at h
      · cases h
      · rename_i k vs hfind
        simp only [Option.map_eq_some_iff] at h; obtain ⟨i, hi, rfl⟩ := h
        have hlt : i < vs.length := (List.getElem?_eq_some_iff.mp (indexOf_spec hi)).1
        exact fit_enum_mk (q := (k, vs)) (by rw [hpe]; exact hfind) (Int.natCast_nonneg i) (Int.ofNat_lt.mpr hlt)

theorem lowerFun_funOk {cx : LCtx} {fd fd' : FunDef} (h : lowerFun cx fd = some fd')
    (hb : fragSs fd.body = true) (hr : fd.ret.neverFree = true) (hp : ∀ q ∈ fd.params, q.2.neverFree = true) :
    fd'.name = fd.name ∧ fd'.params = fd.params ∧ fd'.ret = fd.ret ∧ FunOk cx fd' := by
  simp only [lowerFun] at h
  repeat' (split at h)
  all_goals (try (cases h; done))
  simp only [Option.some.injEq] at h; subst h
  rename_i sc hsc _ body' sc1 hbody
  exact ⟨rfl, rfl, rfl, hr, hp, sc, fd.body, sc1, hsc, hbody, hb⟩

theorem lowerFun_name {cx : LCtx} {fd fd' : FunDef} (h : lowerFun cx fd = some fd') : fd'.name = fd.name := by
  simp only [lowerFun] at h
  repeat' (split at h)
  all_goals (try (cases h; done))
  simp only [Option.some.injEq] at h; subst h; rfl

theorem lowerFuns_find (cx : LCtx) : ∀ (funs : List FunDef) (acc out : List FunDef),
    funs.foldl (fun (acc : Option (List FunDef)) fd => acc.bind fun out =>
      (lowerFun cx fd).map (fun fd' => out ++ [fd'])) (some acc) = some out →
    ∃ l, out = acc ++ l ∧
      (∀ f fd', l.find? (·.name == f) = some fd' → ∃ fd, funs.find? (·.name == f) = some fd ∧ lowerFun cx fd = some fd') ∧
      (∀ f fd, funs.find? (·.name == f) = some fd → ∃ fd', l.find? (·.name == f) = some fd' ∧ lowerFun cx fd = some fd')
  | [], acc, out, h => by
    simp only [List.foldl_nil, Option.some.injEq] at h; subst h
    exact ⟨[], by simp, by simp, by simp⟩
  | fd :: rest, acc, out, h => by
    simp only [List.foldl_cons, Option.bind_some] at h
    cases hf : lowerFun cx fd with
    | none =>
      rw [hf] at h
      simp only [Option.map_none] at h
      rw [foldl_bind_none] at h; cases h
    | some fd0 =>
      rw [hf] at h; simp only [Option.map_some] at h
      obtain ⟨l, rfl, h1, h2⟩ := lowerFuns_find cx rest _ _ h
      have hname : fd0.name = fd.name := lowerFun_name hf
      refine ⟨fd0 :: l, by simp, ?_, ?_⟩
      · intro f fd' hfind
        simp only [List.find?_cons, hname] at hfind ⊢
        split at hfind
        · simp only [Option.some.injEq] at hfind; subst hfind; exact ⟨fd, rfl, hf⟩
        · exact h1 f fd' hfind
      · intro f fd1 hfind
        simp only [List.find?_cons, hname] at hfind ⊢
        split at hfind
        · simp only [Option.some.injEq] at hfind; subst hfind; exact ⟨fd0, rfl, hf⟩
        · exact h2 f fd1 hfind

theorem builtinSigs_find (f : Nat) : (builtinSigs.find? (·.1 == f)).isSome = isBuiltin f := by
  match f with
  | 0 | 1 | 2 | 3 => rfl
  | n + 4 =>
    simp [builtinSigs, builtinNames, List.range, List.range.loop, isBuiltin, builtinInstr]

theorem ctx_of_fold (cx : LCtx) (sp : SProgram) (p : Program)
    (hfuns : sp.funs.foldl (fun (acc : Option (List FunDef)) fd => acc.bind fun out =>
      (lowerFun cx fd).map (fun fd' => out ++ [fd'])) (some []) = some p.funs)
    (hG : GOk cx p)
    (hffi : ∀ mi pi m fns (sig : FfiSig), cx.ffiMods[mi]? = some (m, fns) → fns[pi]? = some sig →
      (∀ t ∈ sig.args, t.neverFree = true) ∧
      ∀ vs, ArgsFit p vs sig.args → (match p.ffi mi pi vs with
        | .bad => False
        | .ret v => Fit p v sig.ret
        | .fail => True))
    (hS : ∀ n d, cx.structDef n = some d → p.structDef n = some d)
    (hSnf : ∀ n d, p.structDef n = some d → ∀ q ∈ d, q.2.neverFree = true)
    (hSnd : ∀ n d, p.structDef n = some d → (d.map (·.1)).Nodup)
    (hsigs : cx.sigs = builtinSigs ++ sp.funs.map (fun fd => (fd.name, fd.params, fd.ret))) (hF : FragProg sp)
    (hE : cx.enums = p.enums) (hEnd : ∀ q ∈ p.enums, q.2.Nodup) :
    Ctx cx p ∧ ∀ f fd, p.funDef f = some fd → FunOk cx fd := by
  obtain ⟨l, hl, h1, h2⟩ := lowerFuns_find _ _ _ _ hfuns
  simp only [List.nil_append] at hl
  refine ⟨⟨hG, hffi, hS, hSnf, hSnd, ?_, ?_, hE, hEnd⟩, ?_⟩
  · intro f hb
    rw [hsigs, List.find?_append]
    have := builtinSigs_find f
    rw [hb] at this
    obtain ⟨q, hq⟩ := Option.isSome_iff_exists.mp this
    simp [hq]
  · intro f g params rt hb hsig
    rw [hsigs, List.find?_append] at hsig
    have := builtinSigs_find f
    rw [hb] at this
    have hnone : builtinSigs.find? (·.1 == f) = none := by
      cases hq : builtinSigs.find? (·.1 == f) with
      | none => rfl
      | some q => rw [hq] at this; cases this
    rw [hnone, Option.none_or, List.find?_map, Option.map_eq_some_iff] at hsig
    obtain ⟨fd, hfd, hq⟩ := hsig
    simp only [Prod.mk.injEq] at hq
    obtain ⟨rfl, rfl, rfl⟩ := hq
    have hfd' : sp.funs.find? (·.name == f) = some fd := by simpa [Function.comp_def] using hfd
    obtain ⟨fd', hfind, hlow⟩ := h2 f fd hfd'
    have hmem := List.mem_of_find?_eq_some hfd'
    obtain ⟨_, hp, hr, hok⟩ := lowerFun_funOk hlow (hF.bodies fd hmem) (hF.rets fd hmem) (hF.params fd hmem)
    exact ⟨fd', by rw [Program.funDef, hl]; exact hfind, hp, hr, hok⟩
  · intro f fd' hfd'
    rw [Program.funDef, hl] at hfd'
    obtain ⟨fd, hfd, hlow⟩ := h1 f fd' hfd'
    have hmem := List.mem_of_find?_eq_some hfd
    exact (lowerFun_funOk hlow (hF.bodies fd hmem) (hF.rets fd hmem) (hF.params fd hmem)).2.2.2

/-- the context `lowerProgram` lowers the function bodies in, and what it guarantees -/
theorem lowerProgram_ctx {mods ffi sp p} (h : lowerProgram mods ffi sp = some p) (hF : FragProg sp)
    (hffi : FfiContract mods ffi) :
    ∃ cx, Ctx cx p ∧ ∀ f fd, p.funDef f = some fd → FunOk cx fd := by
  have hnd := lowerProgram_structs h
  unfold lowerProgram at h
  simp only at h
  repeat' (split at h)
  all_goals (try (cases h; done))
  simp only [Option.some.injEq] at h; subst h
  rename_i henum _ _ order _ _ cx1 hdef _ globals hgl hdup _ funs hfuns
  have hinv : (cx1.ffiMods = mods ∧ cx1.enums = sp.enums) ∧ ∀ e ∈ cx1.structs, ∃ q, sp.structs.find? (·.1 == e.1) = some q ∧ q.2 = e.2 :=
    foldl_bind_inv (fun (cx : LCtx) n => match sp.structs.find? (·.1 == n) with
      | Option.none => Option.some cx
      | Option.some (_, fs) =>
        if findDup (fs.map (·.1)) || !(fs.all (fun f => typeDefined cx f.2)) then Option.none
        else Option.some { cx with structs := cx.structs ++ [(n, fs)] })
      (fun cx => (cx.ffiMods = mods ∧ cx.enums = sp.enums) ∧ ∀ e ∈ cx.structs, ∃ q, sp.structs.find? (·.1 == e.1) = some q ∧ q.2 = e.2)
      (by
        intro a b a' ha hstep
        split at hstep
        · simp only [Option.some.injEq] at hstep; subst hstep; exact ha
        · rename_i k fs hfind
          split at hstep
          · cases hstep
          · simp only [Option.some.injEq] at hstep; subst hstep
            refine ⟨ha.1, ?_⟩
            intro e he
            rcases List.mem_append.mp he with he | he
            · exact ha.2 e he
            · simp only [List.mem_singleton] at he; subst he
              exact ⟨_, hfind, rfl⟩)
      order _ cx1 ⟨⟨rfl, rfl⟩, by intro e he; cases he⟩ hdef
  have hfit : ∀ P : Program, P.enums = sp.enums → P.structs = sp.structs →
      (∀ n d, P.structDef n = some d → (d.map (·.1)).Nodup) → ∀ g ∈ globals, Fit P g.2 g.2.vtype := by
    intro P hP hPs hPnd
    have hps : ∀ n q, cx1.structs.find? (·.1 == n) = some q → P.structDef n = some q.2 := by
      intro n e he
      obtain ⟨q, hq, hq2⟩ := hinv.2 e (List.mem_of_find?_eq_some he)
      have he1 : e.1 = n := by have := List.find?_some he; simpa using this
      rw [he1] at hq
      simp only [Program.structDef, hPs, hq, Option.map_some, hq2]
    have hPnf : ∀ n d, P.structDef n = some d → ∀ q ∈ d, q.2.neverFree = true := by
      intro n d hd q hq
      simp only [Program.structDef, hPs, Option.map_eq_some_iff] at hd
      obtain ⟨s0, hs0, rfl⟩ := hd
      exact hF.fields s0 (List.mem_of_find?_eq_some hs0) q hq
    exact foldl_bind_inv_mem (fun (gs : List (Nat × Val)) (g : Nat × Expr) =>
        match constValue sp.enums cx1.structs 64 g.2 with
        | Option.none => Option.none
        | Option.some v => if gs.any (·.1 == g.1) then Option.none else Option.some (gs ++ [(g.1, v)]))
      (fun gs => ∀ g ∈ gs, Fit P g.2 g.2.vtype)
      sp.globals [] globals
      (by
        intro a b a' hb ha hstep
        split at hstep
        · cases hstep
        · rename_i v hv
          split at hstep
          · cases hstep
          · simp only [Option.some.injEq] at hstep; subst hstep
            intro g hg
            rcases List.mem_append.mp hg with hg | hg
            · exact ha g hg
            · simp only [List.mem_singleton] at hg; subst hg
              exact constValue_fits P _ _ hP hps hPnf hPnd _ _ _ hv)
      (by simp) hgl
  refine ⟨_, ctx_of_fold _ sp _ hfuns ⟨rfl, hfit _ rfl rfl hnd⟩ ?_ ?_ ?_ hnd rfl hF hinv.1.2 ?_⟩
  · intro mi pi m fns sig hm hs
    obtain ⟨h1, h2⟩ := hffi mi pi m fns sig (by rw [← hinv.1.1]; exact hm) hs
    exact ⟨h1, h2 _⟩
  · intro n d hd
    simp only [LCtx.structDef, Option.map_eq_some_iff] at hd
    obtain ⟨e, he, rfl⟩ := hd
    obtain ⟨q, hq, hq2⟩ := hinv.2 e (List.mem_of_find?_eq_some he)
    have he1 : e.1 = n := by have := List.find?_some he; simpa using this
    rw [he1] at hq
    simp only [Program.structDef, hq, Option.map_some, hq2]
  · intro n d hd q hq
    simp only [Program.structDef, Option.map_eq_some_iff] at hd
    obtain ⟨s0, hs0, rfl⟩ := hd
    exact hF.fields s0 (List.mem_of_find?_eq_some hs0) q hq
  · intro q hq
    simp only [Bool.or_eq_true, not_or, Bool.not_eq_true] at henum
    have := List.any_eq_false.mp henum.2 q hq
    exact findDup_nodup _ (by simpa using this)

/-- **typecheck_sound** on the fragment: a call of a declared function of an accepted program
with arguments fitting its parameter types is never stuck, never ends in a stray `return`, and a
value it returns fits the declared return type. -/
theorem typecheck_sound_frag {mods ffi sp p} (h : lowerProgram mods ffi sp = some p) (hF : FragProg sp)
    (hffi : FfiContract mods ffi)
    (n f : Nat) (fd : FunDef) (args : List Val) (hfd : p.funDef f = some fd)
    (hargs : ArgsFit p args (fd.params.map (·.2))) :
    ROk (FitV p fd.ret) (fun _ => False) (evalFn p n f args) := by
  obtain ⟨cx, hC, hok⟩ := lowerProgram_ctx h hF hffi
  exact (snd_all hC n).call f fd args [] hfd (hok f fd hfd) hargs

end AranyaV.Lang
