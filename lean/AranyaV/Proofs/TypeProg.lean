import AranyaV.Proofs.TypeSound
namespace AranyaV.Lang
open AranyaV.Gen.Lang

/-- the source-level side conditions of the fragment: no global `let`s, function bodies inside
`fragSs`, and no `never` in declared parameter / return types (there is no surface syntax for it) -/
structure FragProg (sp : SProgram) : Prop where
  noGlobals : sp.globals = []
  bodies : ∀ fd ∈ sp.funs, fragSs fd.body = true
  rets : ∀ fd ∈ sp.funs, fd.ret.neverFree = true
  params : ∀ fd ∈ sp.funs, ∀ q ∈ fd.params, q.2.neverFree = true

theorem lowerFun_funOk {cx : LCtx} {fd fd' : FunDef} (h : lowerFun cx fd = some fd')
    (hb : fragSs fd.body = true) (hr : fd.ret.neverFree = true) (hp : ∀ q ∈ fd.params, q.2.neverFree = true) :
    fd'.name = fd.name ∧ fd'.params = fd.params ∧ fd'.ret = fd.ret ∧ FunOk cx fd' := by
  simp only [lowerFun] at h
  repeat' (split at h)
  all_goals (try (cases h; done))
  simp only [Option.some.injEq] at h; subst h
  rename_i sc hsc _ body' sc1 hbody
  exact ⟨rfl, rfl, rfl, hr, hp, sc, fd.body, sc1, hsc, hbody, hb⟩

theorem lowerFun_name {cx : LCtx} {fd fd' : FunDef} (h : lowerFun cx fd = some fd') : fd'.name = fd.name := by
  simp only [lowerFun] at h
  repeat' (split at h)
  all_goals (try (cases h; done))
  simp only [Option.some.injEq] at h; subst h; rfl

theorem lowerFuns_find (cx : LCtx) : ∀ (funs : List FunDef) (acc out : List FunDef),
    funs.foldl (fun (acc : Option (List FunDef)) fd => acc.bind fun out =>
      (lowerFun cx fd).map (fun fd' => out ++ [fd'])) (some acc) = some out →
    ∃ l, out = acc ++ l ∧
      (∀ f fd', l.find? (·.name == f) = some fd' → ∃ fd, funs.find? (·.name == f) = some fd ∧ lowerFun cx fd = some fd') ∧
      (∀ f fd, funs.find? (·.name == f) = some fd → ∃ fd', l.find? (·.name == f) = some fd' ∧ lowerFun cx fd = some fd')
  | [], acc, out, h => by
    simp only [List.foldl_nil, Option.some.injEq] at h; subst h
    exact ⟨[], by simp, by simp, by simp⟩
  | fd :: rest, acc, out, h => by
    simp only [List.foldl_cons, Option.bind_some] at h
    cases hf : lowerFun cx fd with
    | none =>
      rw [hf] at h
      simp only [Option.map_none] at h
      rw [foldl_bind_none] at h; cases h
    | some fd0 =>
      rw [hf] at h; simp only [Option.map_some] at h
      obtain ⟨l, rfl, h1, h2⟩ := lowerFuns_find cx rest _ _ h
      have hname : fd0.name = fd.name := lowerFun_name hf
      refine ⟨fd0 :: l, by simp, ?_, ?_⟩
      · intro f fd' hfind
        simp only [List.find?_cons, hname] at hfind ⊢
        split at hfind
        · simp only [Option.some.injEq] at hfind; subst hfind; exact ⟨fd, rfl, hf⟩
        · exact h1 f fd' hfind
      · intro f fd1 hfind
        simp only [List.find?_cons, hname] at hfind ⊢
        split at hfind
        · simp only [Option.some.injEq] at hfind; subst hfind; exact ⟨fd0, rfl, hf⟩
        · exact h2 f fd1 hfind

theorem builtinSigs_find (f : Nat) : (builtinSigs.find? (·.1 == f)).isSome = isBuiltin f := by
  match f with
  | 0 | 1 | 2 | 3 => rfl
  | n + 4 =>
    simp [builtinSigs, builtinNames, List.range, List.range.loop, isBuiltin, builtinInstr]

theorem ctx_of_fold (cx : LCtx) (sp : SProgram) (p : Program)
    (hfuns : sp.funs.foldl (fun (acc : Option (List FunDef)) fd => acc.bind fun out =>
      (lowerFun cx fd).map (fun fd' => out ++ [fd'])) (some []) = some p.funs)
    (hg : cx.globals = []) (hpg : p.globals = [])
    (hsigs : cx.sigs = builtinSigs ++ sp.funs.map (fun fd => (fd.name, fd.params, fd.ret))) (hF : FragProg sp) :
    Ctx cx p ∧ ∀ f fd, p.funDef f = some fd → FunOk cx fd := by
  obtain ⟨l, hl, h1, h2⟩ := lowerFuns_find _ _ _ _ hfuns
  simp only [List.nil_append] at hl
  refine ⟨⟨hg, hpg, ?_, ?_⟩, ?_⟩
  · intro f hb
    rw [hsigs, List.find?_append]
    have := builtinSigs_find f
    rw [hb] at this
    obtain ⟨q, hq⟩ := Option.isSome_iff_exists.mp this
    simp [hq]
  · intro f g params rt hb hsig
    rw [hsigs, List.find?_append] at hsig
    have := builtinSigs_find f
    rw [hb] at this
    have hnone : builtinSigs.find? (·.1 == f) = none := by
      cases hq : builtinSigs.find? (·.1 == f) with
      | none => rfl
      | some q => rw [hq] at this; cases this
    rw [hnone, Option.none_or, List.find?_map, Option.map_eq_some_iff] at hsig
    obtain ⟨fd, hfd, hq⟩ := hsig
    simp only [Prod.mk.injEq] at hq
    obtain ⟨rfl, rfl, rfl⟩ := hq
    have hfd' : sp.funs.find? (·.name == f) = some fd := by simpa [Function.comp_def] using hfd
    obtain ⟨fd', hfind, hlow⟩ := h2 f fd hfd'
    have hmem := List.mem_of_find?_eq_some hfd'
    obtain ⟨_, hp, hr, hok⟩ := lowerFun_funOk hlow (hF.bodies fd hmem) (hF.rets fd hmem) (hF.params fd hmem)
    exact ⟨fd', by rw [Program.funDef, hl]; exact hfind, hp, hr, hok⟩
  · intro f fd' hfd'
    rw [Program.funDef, hl] at hfd'
    obtain ⟨fd, hfd, hlow⟩ := h1 f fd' hfd'
    have hmem := List.mem_of_find?_eq_some hfd
    exact (lowerFun_funOk hlow (hF.bodies fd hmem) (hF.rets fd hmem) (hF.params fd hmem)).2.2.2

/-- the context `lowerProgram` lowers the function bodies in, and what it guarantees -/
theorem lowerProgram_ctx {mods ffi sp p} (h : lowerProgram mods ffi sp = some p) (hF : FragProg sp) :
    ∃ cx, Ctx cx p ∧ ∀ f fd, p.funDef f = some fd → FunOk cx fd := by
  unfold lowerProgram at h
  simp only at h
  repeat' (split at h)
  all_goals (try (cases h; done))
  simp only [Option.some.injEq] at h; subst h
  rename_i _ _ _ cx1 _ _ globals hgl hdup _ funs hfuns
  rw [hF.noGlobals] at hgl
  simp only [List.foldl_nil, Option.some.injEq] at hgl; subst hgl
  exact ⟨_, ctx_of_fold _ sp _ hfuns rfl rfl rfl hF⟩

/-- **typecheck_sound** on the fragment: a call of a declared function of an accepted program
with arguments fitting its parameter types is never stuck, never ends in a stray `return`, and a
value it returns fits the declared return type. -/
theorem typecheck_sound_frag {mods ffi sp p} (h : lowerProgram mods ffi sp = some p) (hF : FragProg sp)
    (n f : Nat) (fd : FunDef) (args : List Val) (hfd : p.funDef f = some fd)
    (hargs : ArgsFit args (fd.params.map (·.2))) :
    ROk (FitV fd.ret) (fun _ => False) (evalFn p n f args) := by
  obtain ⟨cx, hC, hok⟩ := lowerProgram_ctx h hF
  exact (snd_all hC n).call f fd args [] hfd (hok f fd hfd) hargs

end AranyaV.Lang
