import AranyaV.Proofs.FactsSem
/-!
Linear perspectives: the replay invariant `facts.map = replay(commands.updates ++ current)`
(structural form), its preservation by every operation, and what `revert` rebuilds.
Used by C12 (mid-segment reconstruction) and C13 (revert is exact).
-/
namespace AranyaV.Facts

def cmdUpdates (cs : List Cmd) : List Update := cs.flatMap (·.updates)

/-- every update the perspective has seen, in order -/
def Persp.allUpdates (p : Persp) : List Update := cmdUpdates p.commands ++ p.current

/-- the replay invariant: the fact overlay is exactly the log applied to the cleared overlay -/
def Persp.Inv (p : Persp) : Prop :=
  p.facts.WF ∧ p.facts = p.facts.clear.applyUpdates p.allUpdates

theorem FP.applyUpdates_append (f : FP) (a b : List Update) :
    (f.applyUpdates a).applyUpdates b = f.applyUpdates (a ++ b) := by
  unfold FP.applyUpdates
  rw [List.foldl_append]

theorem FP.applyUpdates_nil (f : FP) : f.applyUpdates [] = f := rfl

theorem FP.insert_eq_applyUpdate (f : FP) (k : Key) (v : Val) :
    f.insert k v = f.applyUpdates [(k, some v)] := by
  show _ = f.applyUpdate (k, some v)
  rw [FP.applyUpdate_eq]

theorem FP.delete_eq_applyUpdate (f : FP) (k : Key) :
    f.delete k = f.applyUpdates [(k, none)] := by
  show _ = f.applyUpdate (k, none)
  rw [FP.applyUpdate_eq]

theorem FP.clear_applyUpdate (f : FP) (u : Update) : (f.applyUpdate u).clear = f.clear := by
  rw [FP.applyUpdate_eq]
  unfold FP.clear FP.insert FP.delete
  cases u.2 with
  | some v => simp
  | none => simp only; split <;> simp

theorem FP.clear_applyUpdates (f : FP) (us : List Update) : (f.applyUpdates us).clear = f.clear := by
  unfold FP.applyUpdates
  induction us generalizing f with
  | nil => rfl
  | cons u r ih => rw [List.foldl_cons, ih, FP.clear_applyUpdate]

theorem FP.clear_clear (f : FP) : f.clear.clear = f.clear := by unfold FP.clear; simp

theorem FP.WF_clear {f : FP} (h : f.WF) : f.clear.WF := FP.WF_withMap h Sorted.nil

theorem FP.abs_clear (f : FP) : f.clear.abs = f.priorAbs := by
  funext k
  unfold FP.clear FP.abs FP.priorAbs
  rw [FP.slot_withMap]
  rfl

theorem FP.priorAbs_eq_abs_of_map_nil {f : FP} (h : f.map = []) : f.abs = f.priorAbs := by
  funext k
  unfold FP.abs FP.priorAbs FP.slot
  rw [h]
  rfl

theorem foldl_applyUpdates (cs : List Cmd) (f : FP) :
    cs.foldl (fun f c => f.applyUpdates c.updates) f = f.applyUpdates (cmdUpdates cs) := by
  induction cs generalizing f with
  | nil => rfl
  | cons c r ih =>
    rw [List.foldl_cons, ih]
    unfold cmdUpdates
    rw [List.flatMap_cons, ← FP.applyUpdates_append]

theorem cmdUpdates_append (a b : List Cmd) : cmdUpdates (a ++ b) = cmdUpdates a ++ cmdUpdates b := by
  unfold cmdUpdates; rw [List.flatMap_append]

/-! ### the invariant is preserved -/

theorem Persp.Inv_fresh {f : FP} (hf : f.WF) (hm : f.map = []) : Persp.Inv { facts := f } := by
  refine ⟨hf, ?_⟩
  show f = f.clear.applyUpdates ([] ++ [])
  have : f.clear = f := by
    unfold FP.clear
    rw [← hm]
    exact FP.withMap_map f
  rw [this]
  rfl

theorem Persp.Inv_insert {p : Persp} (h : p.Inv) (k : Key) (v : Val) : (p.insert k v).Inv := by
  obtain ⟨h1, h2⟩ := h
  refine ⟨FP.WF_insert h1 k v, ?_⟩
  show p.facts.insert k v = (p.facts.insert k v).clear.applyUpdates (cmdUpdates p.commands ++ (p.current ++ [(k, some v)]))
  rw [FP.insert_eq_applyUpdate, FP.clear_applyUpdates, ← List.append_assoc, ← FP.applyUpdates_append]
  congr 1

theorem Persp.Inv_delete {p : Persp} (h : p.Inv) (k : Key) : (p.delete k).Inv := by
  obtain ⟨h1, h2⟩ := h
  refine ⟨FP.WF_delete h1 k, ?_⟩
  show p.facts.delete k = (p.facts.delete k).clear.applyUpdates (cmdUpdates p.commands ++ (p.current ++ [(k, none)]))
  rw [FP.delete_eq_applyUpdate, FP.clear_applyUpdates, ← List.append_assoc, ← FP.applyUpdates_append]
  congr 1

theorem Persp.allUpdates_addCommand (p : Persp) (id : Nat) :
    (p.addCommand id).1.allUpdates = p.allUpdates := by
  unfold Persp.addCommand Persp.allUpdates
  simp only
  rw [cmdUpdates_append]
  simp [cmdUpdates]

theorem Persp.Inv_addCommand {p : Persp} (h : p.Inv) (id : Nat) : (p.addCommand id).1.Inv := by
  obtain ⟨h1, h2⟩ := h
  refine ⟨h1, ?_⟩
  rw [Persp.allUpdates_addCommand]
  exact h2

/-- what the perspective means: the log replayed over what its prior means -/
theorem Persp.abs_eq_replay {p : Persp} (h : p.Inv) :
    p.facts.abs = replay p.facts.priorAbs p.allUpdates := by
  rw [h.2, FP.abs_applyUpdates, FP.abs_clear]
  congr 1
  rw [← h.2]

/-! ### revert -/

/-- `revert` to an index within range: the commands are truncated, nothing is pending, and the
overlay is the replay of the remaining commands' updates on the cleared overlay (for the early
return this is the invariant itself) -/
theorem Persp.revert_ok {p : Persp} {ck : Nat} (hck : ck ≤ p.commands.length) :
    ∃ q, p.revert ck = .ok q ∧ q.commands = p.commands.take ck ∧ q.current = [] ∧
      (p.Inv → q.facts = p.facts.clear.applyUpdates (cmdUpdates (p.commands.take ck))) := by
  unfold Persp.revert
  by_cases h1 : ck = p.commands.length ∧ p.current = []
  · rw [if_pos h1]
    refine ⟨p, rfl, ?_, h1.2, fun hi => ?_⟩
    · rw [h1.1, List.take_length]
    · have := hi.2
      unfold Persp.allUpdates at this
      rw [h1.2, List.append_nil] at this
      rw [h1.1, List.take_length]
      exact this
  · rw [if_neg h1, if_neg (by omega)]
    exact ⟨_, rfl, rfl, rfl, fun _ => foldl_applyUpdates _ _⟩

theorem Persp.revert_err {p : Persp} {ck : Nat} (hck : p.commands.length < ck) :
    p.revert ck = .error .badCheckpoint := by
  unfold Persp.revert
  rw [if_neg (by omega), if_pos hck]

instance (p : Persp) : Decidable p.Inv := by unfold Persp.Inv; infer_instance

end AranyaV.Facts
