import AranyaV.Model.LangLower
/-! generic lemmas about `foldl` with an `Option` accumulator threaded through `bind` -/
namespace AranyaV.Lang

theorem foldl_bind_none {α β : Type} (f : α → β → Option α) : ∀ (l : List β),
    l.foldl (fun acc q => acc.bind (fun s => f s q)) none = none
  | [] => rfl
  | _ :: l => by simp [List.foldl_cons, foldl_bind_none f l]

theorem foldl_bind_inv {α β : Type} (f : α → β → Option α) (I : α → Prop)
    (hstep : ∀ a b a', I a → f a b = some a' → I a') :
    ∀ (l : List β) (a r : α), I a → l.foldl (fun acc q => acc.bind (fun s => f s q)) (some a) = some r → I r
  | [], a, r, ha, h => by simp only [List.foldl_nil, Option.some.injEq] at h; subst h; exact ha
  | b :: l, a, r, ha, h => by
    simp only [List.foldl_cons, Option.bind_some] at h
    cases hf : f a b with
    | none => rw [hf, foldl_bind_none] at h; cases h
    | some a' => rw [hf] at h; exact foldl_bind_inv f I hstep l a' r (hstep a b a' ha hf) h

theorem foldl_bind_mono {α β : Type} (f : α → β → Option α) (P : α → α → Prop)
    (hrefl : ∀ a, P a a) (htrans : ∀ a b c, P a b → P b c → P a c)
    (hstep : ∀ a b a', f a b = some a' → P a a') :
    ∀ (l : List β) (a r : α), l.foldl (fun acc q => acc.bind (fun s => f s q)) (some a) = some r → P a r
  | [], a, r, h => by simp only [List.foldl_nil, Option.some.injEq] at h; subst h; exact hrefl a
  | b :: l, a, r, h => by
    simp only [List.foldl_cons, Option.bind_some] at h
    cases hf : f a b with
    | none => rw [hf, foldl_bind_none] at h; cases h
    | some a' => rw [hf] at h; exact htrans _ _ _ (hstep a b a' hf) (foldl_bind_mono f P hrefl htrans hstep l a' r h)

theorem foldl_bind_inv_mem {α β : Type} (f : α → β → Option α) (I : α → Prop) :
    ∀ (l : List β) (a r : α), (∀ a b a', b ∈ l → I a → f a b = some a' → I a') → I a →
      l.foldl (fun acc q => acc.bind (fun s => f s q)) (some a) = some r → I r
  | [], a, r, _, ha, h => by simp only [List.foldl_nil, Option.some.injEq] at h; subst h; exact ha
  | b :: l, a, r, hstep, ha, h => by
    simp only [List.foldl_cons, Option.bind_some] at h
    cases hf : f a b with
    | none => rw [hf, foldl_bind_none] at h; cases h
    | some a' =>
      rw [hf] at h
      exact foldl_bind_inv_mem f I l a' r (fun x y z hy => hstep x y z (List.mem_cons_of_mem _ hy))
        (hstep a b a' (List.mem_cons_self ..) ha hf) h

end AranyaV.Lang
