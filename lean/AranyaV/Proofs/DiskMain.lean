import AranyaV.Proofs.DiskRun
/-!
The induction over the list of storage calls (C15): at every prefix of the op stream and for
every fault choice the crash image satisfies `SafeAt`.
-/
namespace AranyaV.Disk
open AranyaV.Wire

variable {L : Layout} {ck : Checksum}

theorem step_free (L : Layout) (ck : Checksum) (w : Writer) (c : Call) :
    (w.step L ck c).1.root.free = ((w.root.free.toNat + 4 + (c.toRec w).bytes.length : Nat) : Int) := by
  cases c with
  | append b refs => simp only [Writer.step, appendAt_root, Call.toRec]
  | commit h refs fact => simp only [Writer.step, commit_root, commitRoot, Call.toRec]

theorem toRec_off (w : Writer) (c : Call) : (c.toRec w).off = w.root.free.toNat := by
  cases c <;> rfl

theorem recsOf_off_ge (L : Layout) (ck : Checksum) :
    ∀ (cs : List Call) (w : Writer), ∀ rec ∈ recsOf L ck w cs, w.root.free.toNat ≤ rec.off := by
  intro cs
  induction cs with
  | nil => intro w rec h; cases h
  | cons c cs ih =>
    intro w rec h
    simp only [recsOf, List.mem_cons] at h
    rcases h with rfl | h
    · rw [toRec_off]; exact Nat.le_refl _
    · have := ih _ rec h
      rw [step_free] at this
      simp only [Int.toNat_natCast] at this
      omega

theorem take_three {α : Type} (P : List α) (a b c : α) (n : Nat) (h : n < (P ++ [a, b, c]).length) :
    (n ≤ P.length ∧ (P ++ [a, b, c]).take n = P.take n) ∨
    (n = P.length + 1 ∧ (P ++ [a, b, c]).take n = P ++ [a]) ∨
    (n = P.length + 2 ∧ (P ++ [a, b, c]).take n = P ++ [a, b]) := by
  simp only [List.length_append, List.length_cons, List.length_nil] at h
  by_cases h1 : n ≤ P.length
  · left; exact ⟨h1, List.take_append_of_le_length h1⟩
  · right
    have hn : n = P.length + 1 ∨ n = P.length + 2 := by omega
    rcases hn with rfl | rfl
    · left; refine ⟨rfl, ?_⟩
      rw [List.take_append, List.take_of_length_le (Nat.le_succ _)]; simp
    · right; refine ⟨rfl, ?_⟩
      rw [List.take_append, List.take_of_length_le (by omega)]; simp

/-- the disk after the data phase of a commit (head set appended, data barrier done) -/
theorem commit_data_quiet (hL : L.OK) {w : Writer} {d : Disk} {done : Option Root} {D : Nat}
    {recs : List Rec} (h : WInv L ck w d done D recs) (heads : Bytes) (refs : List Nat) :
    Quiet L ck (d.execAll ((w.appendAt L heads).2.2 ++ [.fdatasync])) done w.nextRoot w.root.gen
      (w.root.free.toNat + 4 + heads.length) (w.root.free.toNat + 4 + heads.length)
      (recs ++ [⟨w.root.free.toNat, heads, refs⟩]) ∧
    (d.execAll ((w.appendAt L heads).2.2 ++ [.fdatasync])).pending = [] := by
  obtain ⟨D', q'⟩ := append_quiet hL h heads refs
  rw [execAll_append]
  exact ⟨q'.sync hL, rfl⟩

theorem commit_prefix_data (L : Layout) (w : Writer) (heads : Bytes) (hfs : L.freeStart ≤ w.root.free.toNat) :
    ∀ o ∈ (w.appendAt L heads).2.2 ++ [Op.fdatasync], DataOp L w.root.free.toNat o := by
  intro o ho
  rcases List.mem_append.mp ho with h | h
  · exact appendAt_dataOps L w heads hfs o h
  · simp only [List.mem_cons, List.not_mem_nil, or_false] at h
    subst h; trivial

theorem run_safe (hL : L.OK) :
    ∀ (calls : List Call) (w : Writer) (d : Disk) (done : Option Root) (D : Nat) (recs : List Rec),
      WInv L ck w d done D recs → ChecksumOK L ck w d calls → Bounded L ck w calls →
      ∀ (n : Nat) (χ : List (List Bool)),
        SafeAt L ck ((d.execAll ((trace L ck w calls).take n)).crash χ)
          (doneFrom L ck w done calls n) (progFrom L ck w calls n) (recs ++ recsOf L ck w calls) ∧
        ReopenOK L ck ((d.execAll ((trace L ck w calls).take n)).crash χ) := by
  intro calls
  induction calls with
  | nil =>
    intro w d done D recs h _ _ n χ
    simp only [trace, List.take_nil, Disk.execAll, doneFrom, progFrom, recsOf]
    exact h.q.safe hL none [] (fun _ h => by cases h) χ
  | cons c cs ih =>
    intro w d done D recs h hck hbd n χ
    have hfut : ∀ rec ∈ c.toRec w :: recsOf L ck (w.step L ck c).1 cs, w.root.free.toNat ≤ rec.off :=
      recsOf_off_ge L ck (c :: cs) w
    by_cases hn : n < (w.step L ck c).2.length
    · -- the crash is inside this call
      have htake : (trace L ck w (c :: cs)).take n = (w.step L ck c).2.take n := by
        simp only [trace]; exact List.take_append_of_le_length (Nat.le_of_lt hn)
      simp only [htake, doneFrom, progFrom, hn, if_true, recsOf]
      cases c with
      | append b refs =>
        obtain ⟨D', q'⟩ := append_mid hL h b n
        exact q'.safe hL _ _ hfut χ
      | commit heads refs fact =>
        simp only [Writer.step] at hn ⊢
        have hops := commit_ops L ck w heads fact
        have hn' := hn
        rw [hops] at hn'
        have hfut' : ∀ rec ∈ recsOf L ck (w.commit L ck heads fact).1 cs,
            w.root.free.toNat + 4 + heads.length ≤ rec.off := by
          intro rec hr
          have := recsOf_off_ge L ck cs _ rec hr
          rw [commit_root] at this
          simp only [commitRoot, Int.toNat_natCast] at this
          exact this
        rcases take_three _ _ _ _ n hn' with ⟨hle, ht⟩ | ⟨hle, ht⟩ | ⟨hle, ht⟩
        · have ht' : (w.commit L ck heads fact).2.take n =
              ((w.appendAt L heads).2.2 ++ [Op.fdatasync]).take n := by rw [hops]; exact ht
          rw [ht']
          obtain ⟨D', q'⟩ := Quiet.execAll_data hL _ d D h.q
            (fun o ho => commit_prefix_data L w heads h.fs o (List.mem_of_mem_take ho))
          exact q'.safe hL _ _ hfut χ
        · obtain ⟨q1, hp1⟩ := commit_data_quiet hL h heads refs
          have hT := hck.1
          simp only [commit_ops, commit_root] at hT
          rw [List.take_left' (by simp)] at hT
          have ht' := ht
          rw [← hops] at ht'
          have hlen : (w.commit L ck heads fact).2.length ≤ n + 2 := by
            rw [hops]; simp only [List.length_append, List.length_cons, List.length_nil] at hle ⊢; omega
          simp only [hlen, ↓reduceIte]
          rw [ht', execAll_append, commit_root]
          have := torn_safe hL q1 (new := commitRoot ck w heads fact) rfl rfl
            (by have := h.fs; omega) hT _
            (crash_pre _ hp1 _ _ χ) (recsOf L ck (w.commit L ck heads fact).1 cs) hfut'
          simpa [Disk.execAll, Disk.exec, Call.toRec] using this
        · obtain ⟨q1, hp1⟩ := commit_data_quiet hL h heads refs
          have hT := hck.1
          simp only [commit_ops, commit_root] at hT
          rw [List.take_left' (by simp)] at hT
          have ht' := ht
          rw [← hops] at ht'
          have hlen : (w.commit L ck heads fact).2.length ≤ n + 2 := by
            rw [hops]; simp only [List.length_append, List.length_cons, List.length_nil] at hle ⊢; omega
          simp only [hlen, ↓reduceIte]
          rw [ht', execAll_append, commit_root]
          have := torn_safe hL q1 (new := commitRoot ck w heads fact) rfl rfl
            (by have := h.fs; omega) hT _
            (crash_pre_body _ hp1 _ _ χ) (recsOf L ck (w.commit L ck heads fact).1 cs) hfut'
          simpa [Disk.execAll, Disk.exec, Call.toRec] using this
    · -- the call completed: continue with the invariant after it
      have hge : (w.step L ck c).2.length ≤ n := Nat.le_of_not_lt hn
      have htake : (trace L ck w (c :: cs)).take n =
          (w.step L ck c).2 ++ (trace L ck (w.step L ck c).1 cs).take (n - (w.step L ck c).2.length) := by
        simp only [trace]
        rw [List.take_append, List.take_of_length_le hge]
      have hinv : ∃ D', WInv L ck (w.step L ck c).1 (d.execAll (w.step L ck c).2)
          (c.doneAfter (w.step L ck c).1.root done) D' (recs ++ [c.toRec w]) := by
        cases c with
        | append b refs => exact append_inv hL h b refs
        | commit heads refs fact =>
          obtain ⟨q1, hp1⟩ := commit_data_quiet hL h heads refs
          have hb : (commitRoot ck w heads fact).Bounded := by
            have := hbd.1; simp only [commit_root] at this; exact this
          have q3 := commit_done hL q1 hp1 hb (commitRoot_valid ck w heads fact) rfl rfl
            (by have := h.fs; omega)
          refine ⟨w.root.free.toNat + 4 + heads.length, ⟨?_, ?_, ?_⟩⟩
          · have e1 : (commitRoot ck w heads fact).free.toNat = w.root.free.toNat + 4 + heads.length := by
              simp only [commitRoot, Int.toNat_natCast]
            have e2 : (commitRoot ck w heads fact).gen = w.root.gen + 1 := rfl
            simp only [Writer.step, Call.doneAfter, Call.toRec]
            rw [commit_next, commit_ops, execAll_append, commit_root, e1, e2]
            exact q3
          · simp only [Writer.step, commit_root, commitRoot]; omega
          · simp only [Writer.step, commit_root, commitRoot, Int.toNat_natCast]; have := h.fs; omega
      obtain ⟨D', hinv'⟩ := hinv
      have := ih _ _ _ D' _ hinv' hck.2 hbd.2 (n - (w.step L ck c).2.length) χ
      simp only [htake, execAll_append, doneFrom, progFrom, hn, if_false, recsOf]
      simpa [List.append_assoc] using this

end AranyaV.Disk
