import AranyaV.Proofs.TrxClient
/-!
# Proofs.TrxRoot — the committed graph starts with the init command and nothing else is parentless
-/
namespace AranyaV.Trx
open AranyaV.Spec AranyaV.Gen

/-- everything the transaction accepted has a parent -/
def ParOK (t : Trx) : Prop := ∀ x ∈ accepted t, x.cmd.parents ≠ []

theorem accepted_flushT (t : Trx) : accepted (flushT t) = accepted t := by
  unfold flushT accepted inflight
  cases hp : t.persp with
  | none => simp [hp]
  | some p =>
    simp only
    cases hl : p.cmds.getLast? with
    | none =>
      have : p.cmds = [] := by
        cases hc : p.cmds with
        | nil => rfl
        | cons a b => rw [hc] at hl; simp at hl
      simp [this]
    | some c => simp

theorem ParOK.flushT {t : Trx} (h : ParOK t) : ParOK (flushT t) := by
  unfold ParOK; rw [accepted_flushT]; exact h

theorem evalSingle_par {t : Trx} {ps : Persp} {f : Bool} {sink : List SinkEv} {c : Cmd}
    (hp : t.persp = some ps) (hc : c.parents ≠ []) (hf : f = true → ps.cmds = []) (h : ParOK t) :
    ParOK (evalSingle t ps f sink c).1 := by
  unfold evalSingle
  simp only
  split
  · intro x hx
    simp only [accepted, inflight, List.mem_append, List.mem_singleton] at hx
    rcases hx with hx | hx | hx
    · exact h x (by simp [accepted, hx])
    · exact h x (by simp [accepted, inflight, hp, hx])
    · subst hx; exact hc
  · split
    · rename_i hff
      intro x hx
      simp only [accepted, inflight, List.append_nil] at hx
      exact h x (by simp [accepted, hx])
    · exact h

theorem addSingle_par {st : Store} {t : Trx} {sink : List SinkEv} {c : Cmd} {p : Nat}
    (hc : c.parents ≠ []) (h : ParOK t) : ParOK (addSingle st t sink c p).1 := by
  unfold addSingle
  split
  · split
    · exact h
    · rename_i ps hps
      exact evalSingle_par hps hc (by intro e; cases e) h
  · split
    · exact h.flushT
    · simp only
      split
      · exact h.flushT
      · apply evalSingle_par rfl hc (fun _ => rfl)
        intro x hx
        simp only [accepted, inflight, List.append_nil] at hx
        exact h.flushT x (by simp [accepted, hx])

theorem addMerge_par {st : Store} {t : Trx} {sink : List SinkEv} {c : Cmd} {l r : Nat}
    (hc : c.parents ≠ []) (h : ParOK t) : ParOK (addMerge st t sink c l r).1 := by
  unfold addMerge
  split
  · exact h.flushT
  · simp only
    split
    · exact h.flushT
    · split
      · exact h.flushT
      · split
        · exact h.flushT
        · split
          · exact h.flushT
          · intro x hx
            simp only [accepted, inflight, List.mem_append, List.mem_singleton] at hx
            rcases hx with hx | hx
            · exact h.flushT x (by simp [accepted, hx])
            · subst hx; exact hc

theorem addLoop_par (gid : Nat) (st : Store) (batch : List In) :
    ∀ (t : Trx) (sink : List SinkEv) (n : Nat), ParOK t → ParOK (addLoop gid st t sink batch n).1 := by
  induction batch with
  | nil => intro t sink n h; exact h
  | cons i rest ih =>
    intro t sink n h
    unfold addLoop
    split
    · exact ih _ _ _ h
    · split
      · split
        · exact ih _ _ _ h
        · exact h
      · rename_i p hp
        have := addSingle_par (st := st) (sink := sink) (c := i.cmd) (p := p) (by rw [hp]; simp) h
        split
        · rename_i t' sink' heq; rw [heq] at this; exact ih _ _ _ this
        · rename_i t' sink' e heq; rw [heq] at this; exact this
      · rename_i l r hp
        have := addMerge_par (st := st) (sink := sink) (c := i.cmd) (l := l) (r := r) (by rw [hp]; simp) h
        split
        · rename_i t' sink' heq; rw [heq] at this; exact ih _ _ _ this
        · rename_i t' sink' e heq; rw [heq] at this; exact this
      · exact h

theorem ParOK.snapshot {st : Store} {t : Trx} (h : ParOK t) : ParOK (snapshot st t) := by
  unfold Trx.snapshot
  split
  · exact h
  · exact h

/-- the graph starts with a parentless command whose id is the graph id; every other command has a parent -/
def RootedG (gid : Nat) (g : List SCmd) : Prop :=
  ∃ c0 rest, g = c0 :: rest ∧ c0.cmd.id = gid ∧ c0.cmd.parents = [] ∧ ∀ d ∈ rest, d.cmd.parents ≠ []

theorem RootedG.append {gid : Nat} {g extra : List SCmd} (h : RootedG gid g)
    (he : ∀ d ∈ extra, d.cmd.parents ≠ []) : RootedG gid (g ++ extra) := by
  obtain ⟨c0, rest, rfl, h1, h2, h3⟩ := h
  refine ⟨c0, rest ++ extra, by simp, h1, h2, ?_⟩
  intro d hd
  rcases List.mem_append.mp hd with hd | hd
  · exact h3 d hd
  · exact he d hd

structure RootInv (cl : Client) : Prop where
  store : ∀ st, cl.store = some st → RootedG cl.gid st.graph
  trxs : ∀ s t, (s, t) ∈ cl.trxs → ParOK t

theorem step_gid (cl : Client) (op : Op) : (step cl op).1.gid = cl.gid := by
  cases op <;> simp only [step]
  all_goals (first | rfl | (split <;> first | rfl | (split <;> rfl)))

theorem ParOK.fresh : ParOK {} := by intro x hx; simp [accepted, inflight] at hx

theorem step_root {cl : Client} (hc : ClientInv cl) (h : RootInv cl) (op : Op) : RootInv (step cl op).1 := by
  refine ⟨?_, ?_⟩
  · -- the store
    intro st' hst'
    rw [step_gid]
    cases hs : cl.store with
    | some st =>
      obtain ⟨st'', extra, hs'', hg, _⟩ := step_graph_prefix hc op hs
      rw [hst'] at hs''; injection hs'' with hs''; subst hs''
      rw [hg]
      apply (h.store st hs).append
      -- what was appended
      cases op with
      | openT s => simp [step, hs] at hst'; subst hst'; simp at hg; subst hg; intro d hd; cases hd
      | dropT s => simp [step, hs] at hst'; subst hst'; simp at hg; subst hg; intro d hd; cases hd
      | add s b =>
        have : st' = st := by
          simp only [step] at hst'
          cases hgs : getSlot cl.trxs s with
          | none => rw [hgs] at hst'; simp only at hst'; rw [hs] at hst'; injection hst' with e; exact e.symm
          | some t => rw [hgs] at hst'; simp only [hs, addCommands] at hst'; injection hst' with e; exact e.symm
        subst this; simp at hg; subst hg; intro d hd; cases hd
      | flush s =>
        have : st' = st := by
          simp only [step] at hst'
          cases hgs : getSlot cl.trxs s with
          | none => rw [hgs] at hst'; simp only at hst'; rw [hs] at hst'; injection hst' with e; exact e.symm
          | some t => rw [hgs] at hst'; simp only [hs] at hst'; injection hst' with e; exact e.symm
        subst this; simp at hg; subst hg; intro d hd; cases hd
      | commit s =>
        simp only [step] at hst'
        cases hgs : getSlot cl.trxs s with
        | none =>
          rw [hgs] at hst'; simp only at hst'; rw [hs] at hst'; injection hst' with e; subst e
          simp at hg; subst hg; intro d hd; cases hd
        | some t =>
          rw [hgs] at hst'
          simp only [hs] at hst'
          have ht := hc.trxs s t (getSlot_mem hgs)
          rw [hs] at ht
          rcases commit_store cl.sink (hc.store st hs) ht with hcm | ⟨st2, hcm, _, _, _, hgr⟩
          · rw [hcm] at hst'; injection hst' with e; subst e
            simp at hg; subst hg; intro d hd; cases hd
          · rw [hcm] at hst'; injection hst' with e; subst e
            rw [hgr] at hg
            have := List.append_cancel_left hg
            subst this
            exact h.trxs s t (getSlot_mem hgs)
      | action ms pubs =>
        simp only [step, hs] at hst'
        rcases action_spec cl.sink ms pubs (hc.store st hs) with ⟨e, evs, hca, _⟩ | ⟨st2, merges, new, last, evs, hca, _, hgr, hm, _, _, _, _, _, _, _, hn⟩
        · rw [hca] at hst'; injection hst' with e; subst e
          simp at hg; subst hg; intro d hd; cases hd
        · rw [hca] at hst'; injection hst' with e; subst e
          rw [hgr, List.append_assoc] at hg
          have := List.append_cancel_left hg
          subst this
          intro d hd
          rcases List.mem_append.mp hd with hd | hd
          · intro e; have := hm d hd; rw [e] at this; simp at this
          · intro e; have := hn d hd; rw [e] at this; simp at this
      | newGraph pubs =>
        simp only [step, hs] at hst'
        rw [(newGraph_some cl.gid st cl.sink pubs).1] at hst'
        injection hst' with e; subst e
        simp at hg; subst hg; intro d hd; cases hd
    | none =>
      -- only a successful init creates the store
      cases op with
      | openT s => simp [step, hs] at hst'
      | dropT s => simp [step, hs] at hst'
      | flush s =>
        simp only [step] at hst'
        cases hgs : getSlot cl.trxs s with
        | none => rw [hgs] at hst'; simp only at hst'; rw [hs] at hst'; cases hst'
        | some t => rw [hgs] at hst'; simp only [hs] at hst'; cases hst'
      | commit s =>
        simp only [step] at hst'
        cases hgs : getSlot cl.trxs s with
        | none => rw [hgs] at hst'; simp only at hst'; rw [hs] at hst'; cases hst'
        | some t => rw [hgs] at hst'; simp [hs, commit] at hst'
      | action ms pubs => simp [step, hs, action] at hst'
      | newGraph pubs =>
        simp only [step, hs] at hst'
        rcases newGraph_spec cl.gid none cl.sink pubs with ⟨e, sink', hcn⟩ | ⟨_, st2, c0, rest, last, sink', hp, hid, hpar, hcn, hcm, _, _, _, _, _, htail⟩
        · rw [hcn] at hst'; cases hst'
        · rw [hcn] at hst'; injection hst' with e; subst e
          cases hgq : st2.graph with
          | nil => rw [hgq, hp] at hcm; cases hcm
          | cons x xs =>
            rw [hgq, hp] at hcm
            simp only [cmds_cons, List.cons.injEq] at hcm
            refine ⟨x, xs, rfl, by rw [hcm.1]; exact hid, by rw [hcm.1]; exact hpar, ?_⟩
            intro d hd
            rw [hgq] at htail
            obtain ⟨y, hy⟩ := htail d.cmd (by simp only [cmds, List.map_cons, List.tail_cons, List.mem_map]; exact ⟨d, hd, rfl⟩)
            rw [hy]; simp
      | add s b =>
        simp only [step] at hst'
        cases hgs : getSlot cl.trxs s with
        | none => rw [hgs] at hst'; simp only at hst'; rw [hs] at hst'; cases hst'
        | some t =>
          rw [hgs] at hst'
          simp only [hs, addCommands] at hst'
          cases b with
          | nil => simp at hst'
          | cons i rest =>
            simp only at hst'
            rcases hi : initCmd cl.gid i cl.sink with ⟨sink', r⟩
            rw [hi] at hst'
            cases r with
            | error e => simp at hst'
            | ok st0 =>
              simp only at hst'
              injection hst' with e; subst e
              obtain ⟨h1, h2, _, _, h5, _⟩ := (initCmd_spec cl.gid i cl.sink).1 st0 (by rw [hi])
              rw [h5]
              exact ⟨⟨i.cmd, _⟩, [], rfl, h1, h2, by intro d hd; cases hd⟩
  · -- the transactions
    intro s' t' hm
    cases op with
    | openT s =>
      rcases mem_setSlot hm with e | e
      · injection e with _ e; subst e; exact ParOK.fresh
      · exact h.trxs s' t' e
    | dropT s => exact h.trxs s' t' (mem_dropSlot hm)
    | add s b =>
      simp only [step] at hm
      cases hgs : getSlot cl.trxs s with
      | none => rw [hgs] at hm; exact h.trxs s' t' hm
      | some t =>
        rw [hgs] at hm
        simp only at hm
        rcases mem_setSlot hm with e | e
        · injection e with _ e; subst e
          have ht := h.trxs s t (getSlot_mem hgs)
          unfold addCommands
          cases cl.store with
          | some st => exact addLoop_par _ _ _ _ _ _ ht.snapshot
          | none =>
            simp only
            cases b with
            | nil => exact ht
            | cons i rest =>
              simp only
              rcases initCmd cl.gid i cl.sink with ⟨sink', r⟩
              cases r with
              | error e => exact ht
              | ok st0 => exact addLoop_par _ _ _ _ _ _ ht.snapshot
        · exact h.trxs s' t' e
    | flush s =>
      simp only [step] at hm
      cases hgs : getSlot cl.trxs s with
      | none => rw [hgs] at hm; exact h.trxs s' t' hm
      | some t =>
        rw [hgs] at hm
        simp only at hm
        cases hs : cl.store with
        | none => rw [hs] at hm; exact h.trxs s' t' hm
        | some st =>
          rw [hs] at hm
          simp only at hm
          rcases mem_setSlot hm with e | e
          · injection e with _ e; subst e; exact (h.trxs s t (getSlot_mem hgs)).flushT
          · exact h.trxs s' t' e
    | commit s =>
      simp only [step] at hm
      cases hgs : getSlot cl.trxs s with
      | none => rw [hgs] at hm; exact h.trxs s' t' hm
      | some t => rw [hgs] at hm; exact h.trxs s' t' (mem_dropSlot hm)
    | action ms pubs => exact h.trxs s' t' hm
    | newGraph pubs => exact h.trxs s' t' hm

theorem run_root {cl : Client} (hc : ClientInv cl) (h : RootInv cl) (ops : List Op) : RootInv (run cl ops) := by
  induction ops generalizing cl with
  | nil => exact h
  | cons o rest ih => exact ih (step_inv hc o) (step_root hc h o)

theorem RootInv.init (gid : Nat) : RootInv { gid := gid } :=
  ⟨(by intro st e; cases e), (by intro s t hm; cases hm)⟩

theorem run_gid (cl : Client) (ops : List Op) : (run cl ops).gid = cl.gid := by
  induction ops generalizing cl with
  | nil => rfl
  | cons o rest ih => rw [run, List.foldl_cons]; exact (ih _).trans (step_gid cl o)

/-- in a well-formed graph whose only parentless command is the first one, the first command is an
ancestor-or-self of every command -/
theorem root_reaches {g : Graph} (hw : WF g) : ∀ {c0 : Cmd} {rest : Graph}, g = c0 :: rest →
    (∀ d ∈ rest, d.parents ≠ []) → ∀ x ∈ ids g, Reach g c0.id x := by
  induction hw with
  | nil => intro c0 rest e; cases e
  | @snoc g c hw h1 h2 h3 h4 ih =>
    intro c0 rest e hr x hx
    cases g with
    | nil =>
      simp only [List.nil_append, List.cons.injEq] at e
      obtain ⟨rfl, rfl⟩ := e
      have : x = c.id := by simpa [ids] using hx
      subst this; exact Reach.refl _
    | cons a g' =>
      simp only [List.cons_append, List.cons.injEq] at e
      obtain ⟨rfl, rfl⟩ := e
      have ih' := ih (c0 := a) (rest := g') rfl (fun d hd => hr d (List.mem_append_left _ hd))
      rw [ids_append, List.mem_append] at hx
      rcases hx with hx | hx
      · exact Reach.mono (ih' x hx)
      · have : x = c.id := by simpa [ids] using hx
        subst this
        have hne := hr c (by simp)
        cases hp : c.parents with
        | nil => exact absurd hp hne
        | cons p ps =>
          have hpm : p ∈ c.parents := by rw [hp]; simp
          exact Reach.tail (Reach.mono (ih' p (h2 p hpm))) ⟨c, by simp, rfl, hpm⟩

end AranyaV.Trx
