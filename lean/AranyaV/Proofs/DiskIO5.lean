import AranyaV.Proofs.DiskIO4
/-!
`call_io`: every storage call, whatever fault the adversary injects, is a conforming annotated
stream; `run_io`: the run theorem for I/O errors anywhere.
-/
namespace AranyaV.Disk
open AranyaV.Wire

variable {L : Layout} {ck : Checksum}

/-- the root a call attempts to commit -/
def Call.attempt (ck : Checksum) (w : Writer) : Call → List Root
  | .append _ _ => []
  | .commit h _ fact => [commitRoot ck w h fact]

/-- hypotheses for one call made in state `(w, d)`: the attempted root fits the machine types and
the checksum hypothesis holds for its root write (against the medium after the data barrier) -/
def CallHyp (L : Layout) (ck : Checksum) (w : Writer) (d : Disk) : Call → Prop
  | .append _ _ => True
  | .commit heads _ fact => (commitRoot ck w heads fact).Bounded ∧
      TornOKp ck (d.execAll ((w.appendAt L heads).2.2 ++ [.fdatasync])).durable w.nextRoot
        (commitRoot ck w heads fact)

structure CallOut (L : Layout) (ck : Checksum) (w : Writer) (d : Disk) (g : G) (c : Call) (f : Fault)
    (al : List AOp) : Prop where
  erase : eraseAll al = (w.stepF L ck c f).2.1
  conf : Conf L ck g d al
  link : Link (w.stepF L ck c f).1 (gfin L g al)
  done : (gfin L g al).done = doneAfterF L ck w c f g.done
  nosc : ∀ m, (eraseAll (al.take m)).length < (eraseAll al).length → NoSC (al.take m)
  rootw : ∀ r off b, AOp.rootw r off b ∈ al → r ∈ c.attempt ck w
  recs : (gfin L g al).recs = g.recs ++ recsAfterF L ck w c f
  adv : ∀ r, AOp.advance r ∈ al → r = c.toRec w

theorem noSC_take {l : List AOp} (h : NoSC l) (m : Nat) : NoSC (l.take m) :=
  fun a ha => h a (List.mem_of_mem_take ha)

theorem link_free {w : Writer} {g : G} (hl : Link w g) : w.root.free.toNat = g.free := by
  simp [hl.free]

theorem recsAfterF_same (w : Writer) (c : Call) (f : Fault)
    (h : (w.stepF L ck c f).1.root.free = w.root.free) : recsAfterF L ck w c f = [] := by
  unfold recsAfterF; rw [if_pos h]

theorem recsAfterF_moved {w : Writer} {g : G} (hl : Link w g) (c : Call) (f : Fault) (n : Nat)
    (h : (w.stepF L ck c f).1.root.free = ((w.root.free.toNat + 4 + n : Nat) : Int)) :
    recsAfterF L ck w c f = [c.toRec w] := by
  unfold recsAfterF
  rw [if_neg]
  rw [h, hl.free]; simp only [Int.toNat_natCast]; omega

/-- a failing append (also the append part of a commit) -/
theorem out_fail_append (hL : L.OK) {w : Writer} {d : Disk} {g : G} (q : GQ L ck d g) (hl : Link w g)
    (b : Bytes) (f : Fault) :
    Conf L ck g d ((cutOps (w.appendAt L b).2.2 f).map dataA) := by
  refine conf_dataA _ g d ?_ (fun _ _ _ _ _ => trivial)
  have hfs : L.freeStart ≤ w.root.free.toNat := by rw [link_free hl]; exact q.fs
  have := cutOps_data (L := L) (free := w.root.free.toNat) _ f (appendAt_dataOps L w b hfs)
  rw [link_free hl] at this
  exact this

theorem call_io (hL : L.OK) {w : Writer} {d : Disk} {g : G} (q : GQ L ck d g) (hl : Link w g)
    (c : Call) (f : Fault) (hy : CallHyp L ck w d c) : ∃ al, CallOut L ck w d g c f al := by
  cases c with
  | append b refs =>
    by_cases hok : (w.appendAt L b).2.2.length ≤ f.idx
    · -- success
      have e : w.stepF L ck (.append b refs) f = ((w.appendAt L b).1, (w.appendAt L b).2.2, true) := by
        simp only [Writer.stepF, Writer.appendAtF, if_pos hok]
      obtain ⟨h1, h2, h3, h4⟩ := gfin_appA L w b refs g
      refine ⟨appA L w b refs, ?_, conf_appA hL q hl b refs, ?_, ?_, fun m _ => noSC_take (noSC_appA L w b refs) m, ?_, ?_,
        fun r hr => adv_appA L w b refs r hr⟩
      rotate_right 1
      · rw [h4, recsAfterF_moved hl _ f b.length (by rw [e]; simp only [appendAt_root])]; rfl
      · rw [e]; exact erase_appA L w b refs
      · rw [e]
        exact ⟨by rw [h1]; simp only [appendAt_next]; exact hl.next,
          by rw [h2]; simp only [appendAt_root]; exact hl.gen,
          by rw [h3]; simp only [appendAt_root]⟩
      · unfold doneAfterF; rw [e, gfin_done _ _ (noSC_appA L w b refs)]; rfl
      · intro r off x hx; exact absurd hx (noRootw_appA L w b refs r off x)
    · obtain ⟨e1, e2, e3, e4⟩ := appendAtF_fail (L := L) w b f hok
      obtain ⟨h1, h2, h3, h4⟩ := gfin_dataA L (cutOps (w.appendAt L b).2.2 f) g
      refine ⟨(cutOps (w.appendAt L b).2.2 f).map dataA, ?_, out_fail_append hL q hl b f, ?_, ?_,
        fun m _ => noSC_take (noSC_dataA _) m, ?_, ?_, fun r hr => absurd hr (noAdv_dataA _ r)⟩
      rotate_right 1
      · rw [h4, recsAfterF_same w _ f (by simp only [Writer.stepF, e3]), List.append_nil]
      · simp only [Writer.stepF, e1]; exact erase_dataA _
      · simp only [Writer.stepF]
        exact ⟨by rw [h1, e4]; exact hl.next, by rw [h2, e3]; exact hl.gen, by rw [h3, e3]; exact hl.free⟩
      · unfold doneAfterF
        simp only [Writer.stepF, e2, gfin_done _ _ (noSC_dataA _)]
        rfl
      · intro r off x hx; exact absurd hx (noRootw_dataA _ r off x)
  | commit heads refs fact =>
    obtain ⟨hb, htorn⟩ := hy
    rcases Nat.lt_trichotomy f.idx (w.appendAt L heads).2.2.length with hlt | heq | hgt
    · -- failure inside the head-set append
      obtain ⟨e1, e2, e3, e4⟩ := commitF_lt (L := L) (ck := ck) w heads fact f hlt
      obtain ⟨h1, h2, h3, h4⟩ := gfin_dataA L (cutOps (w.appendAt L heads).2.2 f) g
      refine ⟨(cutOps (w.appendAt L heads).2.2 f).map dataA, ?_, out_fail_append hL q hl heads f, ?_, ?_,
        fun m _ => noSC_take (noSC_dataA _) m, ?_, ?_, fun r hr => absurd hr (noAdv_dataA _ r)⟩
      rotate_right 1
      · rw [h4, recsAfterF_same w _ f (by simp only [Writer.stepF, e3]), List.append_nil]
      · simp only [Writer.stepF, e1]; exact erase_dataA _
      · simp only [Writer.stepF]
        exact ⟨by rw [h1, e4]; exact hl.next, by rw [h2, e3]; exact hl.gen, by rw [h3, e3]; exact hl.free⟩
      · unfold doneAfterF
        simp only [Writer.stepF, e2, gfin_done _ _ (noSC_dataA _)]
        rfl
      · intro r off x hx; exact absurd hx (noRootw_dataA _ r off x)
    · -- the data barrier fails: the head set is appended, nothing else
      obtain ⟨e1, e2, e3, e4, e5⟩ := commitF_eq (L := L) (ck := ck) w heads fact f heq
      obtain ⟨h1, h2, h3, h4⟩ := gfin_appA L w heads refs g
      have hns : NoSC (appA L w heads refs ++ [AOp.noop Op.failed]) := by
        intro a ha r he
        rcases List.mem_append.mp ha with h | h
        · exact noSC_appA L w heads refs a h r he
        · simp only [List.mem_singleton] at h; subst h; cases he
      refine ⟨appA L w heads refs ++ [.noop .failed], ?_, ?_, ?_, ?_, fun m _ => noSC_take hns m, ?_, ?_, ?_⟩
      rotate_right 2
      · simp only [gfin_append]
        show (gfin L g (appA L w heads refs)).recs = _
        rw [h4, recsAfterF_moved hl _ f heads.length (by simp only [Writer.stepF]; exact e4)]; rfl
      · intro r hr
        rcases List.mem_append.mp hr with h | h
        · exact adv_appA L w heads refs r h
        · simp only [List.mem_singleton] at h; cases h
      · simp only [Writer.stepF, e1, eraseAll_append, erase_appA]; rfl
      · rw [conf_append]; exact ⟨conf_appA hL q hl heads refs, Or.inl rfl, trivial⟩
      · simp only [Writer.stepF, gfin_append]
        exact ⟨by show _ = (gfin L g (appA L w heads refs)).next; rw [h1, e5]; exact hl.next,
          by show _ = (gfin L g (appA L w heads refs)).gen; rw [h2, e3]; exact hl.gen,
          by show _ = (((gfin L g (appA L w heads refs)).free : Nat) : Int); rw [h3, e4]⟩
      · unfold doneAfterF
        simp only [Writer.stepF, e2, gfin_done _ _ hns]
        rfl
      · intro r off x hx
        rcases List.mem_append.mp hx with h | h
        · exact absurd h (noRootw_appA L w heads refs r off x)
        · simp only [List.mem_singleton] at h; cases h
    · -- the root write was reached
      obtain ⟨e1, e2, e3, e4⟩ := commitF_gt (L := L) (ck := ck) w heads fact f hgt
      obtain ⟨h1, h2, h3, h4⟩ := gfin_appA L w heads refs g
      let a := commitRoot ck w heads fact
      let j := f.idx - ((w.appendAt L heads).2.2.length + 1)
      let X := appA L w heads refs ++ [AOp.sync false]
      have hX : eraseAll X = (w.appendAt L heads).2.2 ++ [Op.fdatasync] := by
        simp only [X, eraseAll_append, erase_appA]; rfl
      have hcX : Conf L ck g d X := by
        rw [conf_append]; exact ⟨conf_appA hL q hl heads refs, trivial, trivial⟩
      have hg2 : (gfin L g X).next = g.next ∧ (gfin L g X).gen = g.gen ∧
          (gfin L g X).free = w.root.free.toNat + 4 + heads.length ∧ (gfin L g X).pa = none ∧
          (gfin L g X).D = (gfin L g X).free ∧ (gfin L g X).done = g.done := by
        simp only [X, gfin_append]
        refine ⟨h1, h2, h3, rfl, rfl, ?_⟩
        show (gfin L g (appA L w heads refs)).done = g.done
        exact gfin_done _ _ (noSC_appA L w heads refs)
      obtain ⟨g1, g2, g3, g4, g5, g6⟩ := hg2
      have hnx : w.nextRoot = (gfin L g X).next := by rw [g1]; exact hl.next
      have hp2 : (d.execAll (eraseAll X)).pending = [] := by
        simp only [X, eraseAll_append, execAll_append]; rfl
      have hcR : Conf L ck (gfin L g X) (d.execAll (eraseAll X)) (rootPart a (gfin L g X).next j f.keep) := by
        refine conf_rootPart a j f.keep g4 ?_ ?_ ?_ g5 hp2 hb (commitRoot_valid ck w heads fact)
        · rw [hX, ← hnx]; exact htorn
        · show (commitRoot ck w heads fact).gen = _; rw [g2, ← hl.gen]; rfl
        · show (commitRoot ck w heads fact).free = _; rw [g3]; rfl
      obtain ⟨r1, r2, r3, r4, r5⟩ := gfin_rootPart L a (gfin L g X).next j f.keep (gfin L g X)
      have g7 : (gfin L g X).recs = g.recs ++ [⟨w.root.free.toNat, heads, refs⟩] := by
        simp only [X, gfin_append]; exact h4
      have hj3 : 3 ≤ j ↔ (w.appendAt L heads).2.2.length + 4 ≤ f.idx := by
        simp only [j]; omega
      refine ⟨X ++ rootPart a (gfin L g X).next j f.keep, ?_, ?_, ?_, ?_, ?_, ?_, ?_, ?_⟩
      rotate_right 2
      · simp only [gfin_append]
        rw [r5, g7, recsAfterF_moved hl _ f heads.length (by simp only [Writer.stepF, e3]; rfl)]; rfl
      · intro r hr
        rcases List.mem_append.mp hr with h | h
        · rcases List.mem_append.mp h with h' | h'
          · exact adv_appA L w heads refs r h'
          · simp only [List.mem_singleton] at h'; cases h'
        · exact absurd h (noAdv_rootPart _ _ _ _ r)
      · simp only [Writer.stepF, e1, eraseAll_append, hX, erase_rootPart, ← hnx]
        rfl
      · rw [conf_append]; exact ⟨hcX, hcR⟩
      · simp only [Writer.stepF, gfin_append]
        refine ⟨?_, ?_, ?_⟩
        · rw [r3, e4, g1, ← hl.next]
          by_cases h3 : 3 ≤ j
          · rw [if_pos h3, if_pos (hj3.mp h3)]
          · rw [if_neg h3, if_neg (fun h => h3 (hj3.mpr h))]
        · rw [r1, e3]
        · rw [r2, g3, e3]; rfl
      · unfold doneAfterF
        simp only [Writer.stepF, gfin_append, e2, e3]
        rw [r4, g6]
        by_cases h3 : 3 ≤ j
        · rw [if_pos h3, decide_eq_true (hj3.mp h3)]; rfl
        · rw [if_neg h3, decide_eq_false (fun h => h3 (hj3.mpr h))]; rfl
      · intro m hm
        by_cases hmX : m ≤ X.length
        · rw [List.take_append_of_le_length hmX]
          have hnsX : NoSC X := by
            intro y hy r he
            rcases List.mem_append.mp hy with h | h
            · exact noSC_appA L w heads refs y h r he
            · simp only [List.mem_singleton] at h; subst h; cases he
          exact noSC_take hnsX m
        · have hge : X.length ≤ m := by omega
          have ht : (X ++ rootPart a (gfin L g X).next j f.keep).take m =
              X ++ (rootPart a (gfin L g X).next j f.keep).take (m - X.length) := by
            rw [List.take_append, List.take_of_length_le hge]
          rw [ht] at hm ⊢
          simp only [eraseAll_append, List.length_append] at hm
          have := noSC_rootPart_take a (gfin L g X).next j f.keep (m - X.length) (by omega)
          intro y hy r he
          rcases List.mem_append.mp hy with h | h
          · rcases List.mem_append.mp h with h' | h'
            · exact noSC_appA L w heads refs y h' r he
            · simp only [List.mem_singleton] at h'; subst h'; cases he
          · exact this y h r he
      · intro r off x hx
        rcases List.mem_append.mp hx with h | h
        · rcases List.mem_append.mp h with h' | h'
          · exact absurd h' (noRootw_appA L w heads refs r off x)
          · simp only [List.mem_singleton] at h'; cases h'
        · rw [rootw_rootPart _ _ _ _ _ _ _ h]; exact List.mem_singleton.mpr rfl

end AranyaV.Disk
