import AranyaV.Model.Postcard
import AranyaV.Proofs.Wire
/-!
Generic theorems about the schema-directed postcard model: round trip (`dec_enc`), the decoder
returns a suffix of its input (`dec_prefix`), bounded vectors (`decElems_len`, `vec_bound`,
`vec_overflow_error`).
-/
namespace AranyaV.Postcard
open AranyaV.Wire

/-! ## varints of any width postcard uses -/

theorem varint_rt_gen (bits n : Nat) (hb : bits % 7 ≠ 0) (hn : n < 2 ^ bits) (rest : Bytes) :
    varintDec bits (varintEnc bits n ++ rest) = .ok (n, rest) := by
  have hmax : varintMax bits = bits / 7 + 1 := by unfold varintMax; omega
  have hsplit : 7 * (bits / 7) + bits % 7 = bits := Nat.div_add_mod bits 7
  have hr : bits % 7 ≤ 7 := by omega
  have := varintLoop_rt (bits % 7) hr rest (bits / 7) n (by rw [hsplit]; exact hn)
  unfold varintDec varintEnc maxOfLastByte
  rw [hmax]; exact this

theorem decVarU_enc (bits n : Nat) (hb : bits % 7 ≠ 0) (hn : n < 2 ^ bits) (rest : Bytes) :
    decVarU bits (varintEnc bits n ++ rest) = .ok (n, rest) := by
  unfold decVarU; rw [varint_rt_gen bits n hb hn]

theorem decVarU_prefix {bits : Nat} {bs : Bytes} {n : Nat} {rest : Bytes}
    (h : decVarU bits bs = .ok (n, rest)) : ∃ used, bs = used ++ rest := by
  unfold decVarU at h
  split at h
  · rename_i r heq
    simp only [Except.ok.injEq] at h
    subst h
    obtain ⟨u, hu, _⟩ := varintDec_prefix heq
    exact ⟨u, hu⟩
  · cases h

/-! ## well-formed values (what `enc` expects; what Rust values of the type always satisfy) -/

mutual
def wf : Schema → WVal → Bool
  | .varU bits, .nat n => decide (bits % 7 ≠ 0) && decide (n < 2 ^ bits)
  | .bool, .bool _ => true
  | .bytesN n, .bytes b => decide (b.length = n) && decide (n < 2 ^ 64)
  | .duration, .tuple [.nat s, .nat n] => decide (s < 2 ^ 64) && decide (n < nanosPerSec)
  | .vec cap s, .seq vs =>
    decide (vs.length ≤ cap) && decide (vs.length < 2 ^ 64) && vs.all (fun v => wf s v)
  | .tuple ss, .tuple vs => wfTuple ss vs
  | .enum vs, .variant i v => decide (i < 2 ^ 32) && wfVariant vs i v
  | _, _ => false
def wfTuple : List Schema → List WVal → Bool
  | [], [] => true
  | s :: ss, v :: vs => wf s v && wfTuple ss vs
  | _, _ => false
def wfVariant : List Schema → Nat → WVal → Bool
  | [], _, _ => false
  | s :: _, 0, v => wf s v
  | _ :: ss, i + 1, v => wfVariant ss i v
end

/-! ## sequences -/

theorem decElems_enc (f : Bytes → Res) (g : WVal → Bytes) (P : WVal → Bool)
    (hfg : ∀ v rest, P v = true → f (g v ++ rest) = .ok (v, rest)) :
    ∀ (vs : List WVal) (room : Nat) (rest : Bytes), vs.all P = true → vs.length ≤ room →
      decElems f vs.length room (encElems g vs ++ rest) = .ok (vs, rest) := by
  intro vs
  induction vs with
  | nil => intro room rest _ _; simp [decElems, encElems]
  | cons v vs ih =>
    intro room rest hall hlen
    simp only [List.all_cons, Bool.and_eq_true] at hall
    simp only [List.length_cons] at hlen ⊢
    cases room with
    | zero => omega
    | succ room =>
      simp only [decElems, encElems, List.append_assoc, hfg v _ hall.1]
      rw [ih room rest hall.2 (by omega)]

/-- a successful sequence decode yields exactly the announced number of elements, and that
number fits the capacity: never a truncation -/
theorem decElems_len (f : Bytes → Res) :
    ∀ (n room : Nat) (bs : Bytes) (vs : List WVal) (rest : Bytes),
      decElems f n room bs = .ok (vs, rest) → vs.length = n ∧ n ≤ room := by
  intro n
  induction n with
  | zero => intro room bs vs rest h; simp [decElems] at h; simp [← h.1]
  | succ n ih =>
    intro room bs vs rest h
    simp only [decElems] at h
    split at h
    · cases h
    · rename_i v r heq
      cases room with
      | zero => simp at h
      | succ room =>
        simp only at h
        split at h
        · rename_i vs' r' heq'
          simp only [Except.ok.injEq, Prod.mk.injEq] at h
          have := ih room _ _ _ heq'
          rw [← h.1]; simp; omega
        · cases h

theorem decElems_prefix (f : Bytes → Res)
    (hf : ∀ bs v rest, f bs = .ok (v, rest) → ∃ used, bs = used ++ rest) :
    ∀ (n room : Nat) (bs : Bytes) (vs : List WVal) (rest : Bytes),
      decElems f n room bs = .ok (vs, rest) → ∃ used, bs = used ++ rest := by
  intro n
  induction n with
  | zero => intro room bs vs rest h; simp [decElems] at h; exact ⟨[], by simp [h.2]⟩
  | succ n ih =>
    intro room bs vs rest h
    simp only [decElems] at h
    split at h
    · cases h
    · rename_i v r heq
      cases room with
      | zero => simp at h
      | succ room =>
        simp only at h
        split at h
        · rename_i vs' r' heq'
          simp only [Except.ok.injEq, Prod.mk.injEq] at h
          obtain ⟨u1, hu1⟩ := hf _ _ _ heq
          obtain ⟨u2, hu2⟩ := ih room _ _ _ heq'
          exact ⟨u1 ++ u2, by rw [hu1, hu2, h.2, List.append_assoc]⟩
        · cases h

/-! ## round trip -/

mutual
/-- **`dec_enc`**: decoding the encoding of a well-formed value, followed by anything, returns
the value and exactly what followed -/
theorem dec_enc : (s : Schema) → ∀ (v : WVal) (rest : Bytes), wf s v = true →
    dec s (enc s v ++ rest) = .ok (v, rest)
  | .varU bits, v, rest, h => by
    cases v <;> simp [wf] at h
    simp [dec, enc, decVarU_enc _ _ h.1 h.2]
  | .bool, v, rest, h => by
    cases v <;> simp [wf] at h
    rename_i b
    cases b <;> simp [dec, enc, boolEnc]
  | .bytesN n, v, rest, h => by
    cases v <;> simp [wf] at h
    rename_i b
    have hlen : b.length < 2 ^ 64 := by omega
    simp only [dec, enc, bytesEnc, List.append_assoc, decVarU_enc 64 _ (by decide) hlen,
      takeN_append]
    simp [h.1]
  | .duration, v, rest, h => by
    match v, h with
    | .tuple [.nat s, .nat n], h =>
      simp [wf] at h
      have hn32 : n < 2 ^ 32 := by unfold nanosPerSec at h; omega
      simp only [dec, enc, List.append_assoc, decVarU_enc 64 _ (by decide) h.1,
        decVarU_enc 32 _ (by decide) hn32]
      have hdiv : n / nanosPerSec = 0 := Nat.div_eq_of_lt h.2
      have hmod : n % nanosPerSec = n := Nat.mod_eq_of_lt h.2
      simp [hdiv, hmod, h.1]
  | .vec cap s, v, rest, h => by
    cases v <;> simp [wf] at h
    rename_i vs
    obtain ⟨⟨h1, h2⟩, h3⟩ := h
    have hE := decElems_enc (dec s) (enc s) (fun v => wf s v) (fun v rest hv => dec_enc s v rest hv)
      vs cap rest (by simpa using h3) h1
    simp only [dec, enc, List.append_assoc, decVarU_enc 64 _ (by decide) h2, hE]
  | .tuple ss, v, rest, h => by
    cases v <;> simp [wf] at h
    rename_i vs
    simp only [dec, enc]
    rw [decTuple_enc ss vs rest h]
  | .enum ss, v, rest, h => by
    cases v <;> simp [wf] at h
    rename_i i p
    simp only [dec, enc, List.append_assoc, decVarU_enc 32 _ (by decide) h.1,
      decVariant_enc ss i p rest h.2]
theorem decTuple_enc : (ss : List Schema) → ∀ (vs : List WVal) (rest : Bytes),
    wfTuple ss vs = true → decTuple ss (encTuple ss vs ++ rest) = .ok (vs, rest)
  | [], vs, rest, h => by
    cases vs <;> simp [wfTuple] at h
    simp [decTuple, encTuple]
  | s :: ss, vs, rest, h => by
    cases vs with
    | nil => simp [wfTuple] at h
    | cons v vs =>
      simp only [wfTuple, Bool.and_eq_true] at h
      simp only [decTuple, encTuple, List.append_assoc, dec_enc s v _ h.1,
        decTuple_enc ss vs rest h.2]
theorem decVariant_enc : (ss : List Schema) → ∀ (i : Nat) (v : WVal) (rest : Bytes),
    wfVariant ss i v = true → decVariant ss i (encVariant ss i v ++ rest) = .ok (v, rest)
  | [], i, v, rest, h => by simp [wfVariant] at h
  | s :: ss, 0, v, rest, h => by
    simp only [wfVariant] at h
    simp only [decVariant, encVariant]
    exact dec_enc s v rest h
  | s :: ss, i + 1, v, rest, h => by
    simp only [wfVariant] at h
    simp only [decVariant, encVariant]
    exact decVariant_enc ss i v rest h
end

/-! ## the decoder consumes a prefix -/

mutual
/-- **`dec_prefix`**: whatever `dec` returns as remainder is a suffix of its input -/
theorem dec_prefix : (s : Schema) → ∀ (bs : Bytes) (v : WVal) (rest : Bytes),
    dec s bs = .ok (v, rest) → ∃ used, bs = used ++ rest
  | .varU bits, bs, v, rest, h => by
    simp only [dec] at h
    split at h
    · rename_i n r heq
      simp only [Except.ok.injEq, Prod.mk.injEq] at h
      obtain ⟨u, hu⟩ := decVarU_prefix heq
      exact ⟨u, by rw [hu, h.2]⟩
    · cases h
  | .bool, bs, v, rest, h => by
    simp only [dec] at h
    split at h
    · cases h
    · rename_i b r
      split at h
      · simp only [Except.ok.injEq, Prod.mk.injEq] at h; exact ⟨[b], by rw [h.2]; rfl⟩
      · split at h
        · simp only [Except.ok.injEq, Prod.mk.injEq] at h; exact ⟨[b], by rw [h.2]; rfl⟩
        · cases h
  | .bytesN n, bs, v, rest, h => by
    simp only [dec] at h
    split at h
    · cases h
    · rename_i len r heq
      split at h
      · cases h
      · rename_i b r' heq'
        split at h
        · simp only [Except.ok.injEq, Prod.mk.injEq] at h
          obtain ⟨u, hu⟩ := decVarU_prefix heq
          obtain ⟨h2, _⟩ := takeN_prefix heq'
          exact ⟨u ++ b, by rw [hu, h2, h.2, List.append_assoc]⟩
        · cases h
  | .duration, bs, v, rest, h => by
    simp only [dec] at h
    split at h
    · cases h
    · rename_i secs r heq
      split at h
      · cases h
      · rename_i nanos r' heq'
        split at h
        · simp only [Except.ok.injEq, Prod.mk.injEq] at h
          obtain ⟨u, hu⟩ := decVarU_prefix heq
          obtain ⟨u', hu'⟩ := decVarU_prefix heq'
          exact ⟨u ++ u', by rw [hu, hu', h.2, List.append_assoc]⟩
        · cases h
  | .vec cap s, bs, v, rest, h => by
    simp only [dec] at h
    split at h
    · cases h
    · rename_i len r heq
      split at h
      · rename_i vs r' heq'
        simp only [Except.ok.injEq, Prod.mk.injEq] at h
        obtain ⟨u, hu⟩ := decVarU_prefix heq
        obtain ⟨u', hu'⟩ := decElems_prefix (dec s) (fun bs v rest hh => dec_prefix s bs v rest hh)
          _ _ _ _ _ heq'
        exact ⟨u ++ u', by rw [hu, hu', h.2, List.append_assoc]⟩
      · cases h
  | .tuple ss, bs, v, rest, h => by
    simp only [dec] at h
    split at h
    · rename_i vs r heq
      simp only [Except.ok.injEq, Prod.mk.injEq] at h
      obtain ⟨u, hu⟩ := decTuple_prefix ss _ _ _ heq
      exact ⟨u, by rw [hu, h.2]⟩
    · cases h
  | .enum ss, bs, v, rest, h => by
    simp only [dec] at h
    split at h
    · cases h
    · rename_i idx r heq
      split at h
      · rename_i p r' heq'
        simp only [Except.ok.injEq, Prod.mk.injEq] at h
        obtain ⟨u, hu⟩ := decVarU_prefix heq
        obtain ⟨u', hu'⟩ := decVariant_prefix ss _ _ _ _ heq'
        exact ⟨u ++ u', by rw [hu, hu', h.2, List.append_assoc]⟩
      · cases h
theorem decTuple_prefix : (ss : List Schema) → ∀ (bs : Bytes) (vs : List WVal) (rest : Bytes),
    decTuple ss bs = .ok (vs, rest) → ∃ used, bs = used ++ rest
  | [], bs, vs, rest, h => by
    simp [decTuple] at h; exact ⟨[], by simp [h.2]⟩
  | s :: ss, bs, vs, rest, h => by
    simp only [decTuple] at h
    split at h
    · cases h
    · rename_i v r heq
      split at h
      · rename_i vs' r' heq'
        simp only [Except.ok.injEq, Prod.mk.injEq] at h
        obtain ⟨u, hu⟩ := dec_prefix s _ _ _ heq
        obtain ⟨u', hu'⟩ := decTuple_prefix ss _ _ _ heq'
        exact ⟨u ++ u', by rw [hu, hu', h.2, List.append_assoc]⟩
      · cases h
theorem decVariant_prefix : (ss : List Schema) → ∀ (i : Nat) (bs : Bytes) (v : WVal) (rest : Bytes),
    decVariant ss i bs = .ok (v, rest) → ∃ used, bs = used ++ rest
  | [], i, bs, v, rest, h => by simp [decVariant] at h
  | s :: ss, 0, bs, v, rest, h => by
    simp only [decVariant] at h
    exact dec_prefix s bs v rest h
  | s :: ss, i + 1, bs, v, rest, h => by
    simp only [decVariant] at h
    exact decVariant_prefix ss i bs v rest h
end

/-! ## bounded vectors -/

/-- **`vec_bound`**: a decoded `heapless::Vec<_, cap>` has at most `cap` elements, and exactly
as many as its length prefix announced -/
theorem vec_bound (cap : Nat) (s : Schema) (bs : Bytes) (v : WVal) (rest : Bytes)
    (h : dec (.vec cap s) bs = .ok (v, rest)) :
    ∃ vs len r, v = .seq vs ∧ decVarU 64 bs = .ok (len, r) ∧ vs.length = len ∧ len ≤ cap := by
  simp only [dec] at h
  split at h
  · cases h
  · rename_i len r heq
    split at h
    · rename_i vs r' heq'
      simp only [Except.ok.injEq, Prod.mk.injEq] at h
      obtain ⟨h1, h2⟩ := decElems_len _ _ _ _ _ _ heq'
      exact ⟨vs, len, r, h.1.symm, heq, h1, h2⟩
    · cases h

/-- a vector whose announced length exceeds the capacity is an error — never a truncated
vector -/
theorem vec_overflow_error (cap : Nat) (s : Schema) (bs : Bytes) (len : Nat) (r : Bytes)
    (hlen : decVarU 64 bs = .ok (len, r)) (hover : cap < len) :
    ∃ e, dec (.vec cap s) bs = .error e := by
  cases hd : dec (.vec cap s) bs with
  | error e => exact ⟨e, rfl⟩
  | ok p =>
    obtain ⟨v, rest⟩ := p
    obtain ⟨vs, len', r', _, h2, _, h4⟩ := vec_bound cap s bs v rest hd
    rw [hlen] at h2
    simp only [Except.ok.injEq, Prod.mk.injEq] at h2
    omega

/-! ## decoded values have the shape of their schema -/

mutual
/-- the value has the shape of the schema (no range conditions) -/
def shaped : Schema → WVal → Bool
  | .varU _, .nat _ => true
  | .bool, .bool _ => true
  | .bytesN _, .bytes _ => true
  | .duration, .tuple [.nat _, .nat _] => true
  | .vec _ s, .seq vs => vs.all (fun v => shaped s v)
  | .tuple ss, .tuple vs => shapedTuple ss vs
  | .enum ss, .variant i v => shapedVariant ss i v
  | _, _ => false
def shapedTuple : List Schema → List WVal → Bool
  | [], [] => true
  | s :: ss, v :: vs => shaped s v && shapedTuple ss vs
  | _, _ => false
def shapedVariant : List Schema → Nat → WVal → Bool
  | [], _, _ => false
  | s :: _, 0, v => shaped s v
  | _ :: ss, i + 1, v => shapedVariant ss i v
end

theorem decElems_all (f : Bytes → Res) (P : WVal → Bool)
    (hf : ∀ bs v rest, f bs = .ok (v, rest) → P v = true) :
    ∀ (n room : Nat) (bs : Bytes) (vs : List WVal) (rest : Bytes),
      decElems f n room bs = .ok (vs, rest) → vs.all P = true := by
  intro n
  induction n with
  | zero => intro room bs vs rest h; simp [decElems] at h; simp [h.1]
  | succ n ih =>
    intro room bs vs rest h
    simp only [decElems] at h
    split at h
    · cases h
    · rename_i v r heq
      cases room with
      | zero => simp at h
      | succ room =>
        simp only at h
        split at h
        · rename_i vs' r' heq'
          simp only [Except.ok.injEq, Prod.mk.injEq] at h
          rw [← h.1]
          simp only [List.all_cons, Bool.and_eq_true]
          exact ⟨hf _ _ _ heq, ih room _ _ _ heq'⟩
        · cases h

mutual
/-- every decoded value has the shape of its schema -/
theorem dec_shaped : (s : Schema) → ∀ (bs : Bytes) (v : WVal) (rest : Bytes),
    dec s bs = .ok (v, rest) → shaped s v = true
  | .varU bits, bs, v, rest, h => by
    simp only [dec] at h
    split at h
    · simp only [Except.ok.injEq, Prod.mk.injEq] at h; rw [← h.1]; rfl
    · cases h
  | .bool, bs, v, rest, h => by
    simp only [dec] at h
    split at h
    · cases h
    · split at h
      · simp only [Except.ok.injEq, Prod.mk.injEq] at h; rw [← h.1]; rfl
      · split at h
        · simp only [Except.ok.injEq, Prod.mk.injEq] at h; rw [← h.1]; rfl
        · cases h
  | .bytesN n, bs, v, rest, h => by
    simp only [dec] at h
    split at h
    · cases h
    · split at h
      · cases h
      · split at h
        · simp only [Except.ok.injEq, Prod.mk.injEq] at h; rw [← h.1]; rfl
        · cases h
  | .duration, bs, v, rest, h => by
    simp only [dec] at h
    split at h
    · cases h
    · split at h
      · cases h
      · split at h
        · simp only [Except.ok.injEq, Prod.mk.injEq] at h; rw [← h.1]; rfl
        · cases h
  | .vec cap s, bs, v, rest, h => by
    simp only [dec] at h
    split at h
    · cases h
    · split at h
      · rename_i vs r' heq'
        simp only [Except.ok.injEq, Prod.mk.injEq] at h
        rw [← h.1]
        simp only [shaped]
        exact decElems_all (dec s) (fun v => shaped s v)
          (fun bs v rest hh => dec_shaped s bs v rest hh) _ _ _ _ _ heq'
      · cases h
  | .tuple ss, bs, v, rest, h => by
    simp only [dec] at h
    split at h
    · rename_i vs r heq
      simp only [Except.ok.injEq, Prod.mk.injEq] at h
      rw [← h.1]
      simp only [shaped]
      exact decTuple_shaped ss _ _ _ heq
    · cases h
  | .enum ss, bs, v, rest, h => by
    simp only [dec] at h
    split at h
    · cases h
    · split at h
      · rename_i p r' heq'
        simp only [Except.ok.injEq, Prod.mk.injEq] at h
        rw [← h.1]
        simp only [shaped]
        exact decVariant_shaped ss _ _ _ _ heq'
      · cases h
theorem decTuple_shaped : (ss : List Schema) → ∀ (bs : Bytes) (vs : List WVal) (rest : Bytes),
    decTuple ss bs = .ok (vs, rest) → shapedTuple ss vs = true
  | [], bs, vs, rest, h => by
    simp [decTuple] at h; rw [h.1]; rfl
  | s :: ss, bs, vs, rest, h => by
    simp only [decTuple] at h
    split at h
    · cases h
    · rename_i v r heq
      split at h
      · rename_i vs' r' heq'
        simp only [Except.ok.injEq, Prod.mk.injEq] at h
        rw [← h.1]
        simp only [shapedTuple, Bool.and_eq_true]
        exact ⟨dec_shaped s _ _ _ heq, decTuple_shaped ss _ _ _ heq'⟩
      · cases h
theorem decVariant_shaped : (ss : List Schema) → ∀ (i : Nat) (bs : Bytes) (v : WVal) (rest : Bytes),
    decVariant ss i bs = .ok (v, rest) → shapedVariant ss i v = true
  | [], i, bs, v, rest, h => by simp [decVariant] at h
  | s :: ss, 0, bs, v, rest, h => by
    simp only [decVariant] at h
    simp only [shapedVariant]
    exact dec_shaped s bs v rest h
  | s :: ss, i + 1, bs, v, rest, h => by
    simp only [decVariant] at h
    simp only [shapedVariant]
    exact decVariant_shaped ss i bs v rest h
end

theorem shaped_varU {b : Nat} {v : WVal} (h : shaped (.varU b) v = true) : ∃ n, v = .nat n := by
  cases v <;> simp [shaped] at h
  exact ⟨_, rfl⟩
theorem shaped_bool {v : WVal} (h : shaped .bool v = true) : ∃ b, v = .bool b := by
  cases v <;> simp [shaped] at h
  exact ⟨_, rfl⟩
theorem shaped_bytesN {n : Nat} {v : WVal} (h : shaped (.bytesN n) v = true) : ∃ b, v = .bytes b := by
  cases v <;> simp [shaped] at h
  exact ⟨_, rfl⟩
theorem shaped_vec {c : Nat} {s : Schema} {v : WVal} (h : shaped (.vec c s) v = true) :
    ∃ vs, v = .seq vs ∧ vs.all (fun x => shaped s x) = true := by
  cases v <;> simp only [shaped] at h <;> try cases h
  exact ⟨_, rfl, h⟩
theorem shaped_tuple {ss : List Schema} {v : WVal} (h : shaped (.tuple ss) v = true) :
    ∃ vs, v = .tuple vs ∧ shapedTuple ss vs = true := by
  cases v <;> simp only [shaped] at h <;> try cases h
  exact ⟨_, rfl, h⟩
theorem shaped_enum {ss : List Schema} {v : WVal} (h : shaped (.enum ss) v = true) :
    ∃ i p, v = .variant i p ∧ shapedVariant ss i p = true := by
  cases v <;> simp only [shaped] at h <;> try cases h
  exact ⟨_, _, rfl, h⟩

theorem shapedTuple_get : ∀ (ss : List Schema) (vs : List WVal), shapedTuple ss vs = true →
    ∀ (k : Nat) (s : Schema), ss[k]? = some s → ∃ v, vs[k]? = some v ∧ shaped s v = true := by
  intro ss
  induction ss with
  | nil => intro vs _ k s hk; simp at hk
  | cons s0 ss ih =>
    intro vs h k s hk
    cases vs with
    | nil => simp [shapedTuple] at h
    | cons v vs =>
      simp only [shapedTuple, Bool.and_eq_true] at h
      cases k with
      | zero => simp at hk; subst hk; exact ⟨v, by simp, h.1⟩
      | succ k => simp at hk; simpa using ih vs h.2 k s hk

end AranyaV.Postcard
