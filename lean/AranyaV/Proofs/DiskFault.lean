import AranyaV.Proofs.DiskHist
import AranyaV.Model.DiskFault
/-!
I/O errors (C15): runs in which storage calls fail with an injected `IoError`.

Proved here (`_partial`): faults anywhere **except inside the root write** (the two root
`pwrite`s and the final barrier of `commit`): failing `fallocate`, failing `fsync` of a
`fallocate`, failing or short `pwrite` of an item / head set, failing data barrier.  Such a call
leaves the disk in a `Quiet` state at every prefix of its op stream and the writer in a state
satisfying `WInv` with the same committed root, so crash safety is unaffected and a commit that
returned `Ok` is never lost.

Not proved (covered by the model, the driver and the sampled tie only): a failure of a root
`pwrite` or of the final barrier.  Then root bytes of the failed attempt stay pending across later
calls and may become durable at a later barrier, so the invariant has to allow a third kind of
slot content ("attempted root, newer than the committed one"); see notes/C15.md.
-/
namespace AranyaV.Disk
open AranyaV.Wire

variable {L : Layout} {ck : Checksum}

/-- the fault is not inside the root write of a commit -/
def Fault.Early (L : Layout) (ck : Checksum) (w : Writer) (c : Call) (f : Fault) : Prop :=
  match c with
  | .append _ _ => True
  | .commit heads _ fact =>
    (w.commit L ck heads fact).2.length ≤ f.idx ∨ f.idx ≤ (w.appendAt L heads).2.2.length

theorem cutOps_append_left (P R : List Op) (f : Fault) (h : f.idx < P.length) :
    cutOps (P ++ R) f = cutOps P f := by
  unfold cutOps
  rw [List.take_append_of_le_length (Nat.le_of_lt h), List.getElem?_append_left h]

theorem cutOps_data {free : Nat} (ops : List Op) (f : Fault) (h : ∀ o ∈ ops, DataOp L free o) :
    ∀ o ∈ cutOps ops f, DataOp L free o := by
  intro o ho
  unfold cutOps at ho
  rcases List.mem_append.mp ho with h1 | h1
  · exact h o (List.mem_of_mem_take h1)
  · cases hg : ops[f.idx]? with
    | none => rw [hg] at h1; cases h1
    | some x =>
      rw [hg] at h1
      have hx : x ∈ ops := List.mem_of_getElem? hg
      cases x with
      | write off b =>
        simp only [List.mem_cons, List.not_mem_nil, or_false] at h1
        rcases h1 with rfl | rfl
        · exact h (Op.write off b) hx
        · trivial
      | fdatasync => simp only [List.mem_cons, List.not_mem_nil, or_false] at h1; subst h1; trivial
      | fsync => simp only [List.mem_cons, List.not_mem_nil, or_false] at h1; subst h1; trivial
      | falloc a b => simp only [List.mem_cons, List.not_mem_nil, or_false] at h1; subst h1; trivial
      | failed => simp only [List.mem_cons, List.not_mem_nil, or_false] at h1; subst h1; trivial

/-- cutting exactly at the end of a list of complete ops, before a barrier: all of them, then the
failure marker -/
theorem cutOps_at_end (P : List Op) (R : List Op) (f : Fault) (h : f.idx = P.length) :
    cutOps (P ++ Op.fdatasync :: R) f = P ++ [Op.failed] := by
  unfold cutOps
  rw [h, List.take_left', List.getElem?_append_right (Nat.le_refl _)]
  · simp
  · rfl

/-- the post-state of a successful commit -/
theorem commit_inv (hL : L.OK) {w : Writer} {d : Disk} {done : Option Root} {D : Nat} {recs : List Rec}
    (h : WInv L ck w d done D recs) (heads : Bytes) (refs : List Nat) (fact : Nat)
    (hb : (commitRoot ck w heads fact).Bounded) :
    WInv L ck (w.commit L ck heads fact).1 (d.execAll (w.commit L ck heads fact).2)
      (some (commitRoot ck w heads fact)) (w.root.free.toNat + 4 + heads.length)
      (recs ++ [⟨w.root.free.toNat, heads, refs⟩]) := by
  obtain ⟨q1, hp1⟩ := commit_data_quiet hL h heads refs
  have q3 := commit_done hL q1 hp1 hb (commitRoot_valid ck w heads fact) rfl rfl
    (by have := h.fs; omega)
  refine ⟨?_, ?_, ?_⟩
  · have e1 : (commitRoot ck w heads fact).free.toNat = w.root.free.toNat + 4 + heads.length := by
      simp only [commitRoot, Int.toNat_natCast]
    have e2 : (commitRoot ck w heads fact).gen = w.root.gen + 1 := rfl
    rw [commit_next, commit_ops, execAll_append, commit_root, e1, e2]
    exact q3
  · simp only [commit_root, commitRoot]; omega
  · simp only [commit_root, commitRoot, Int.toNat_natCast]; have := h.fs; omega

/-- the committed root after a call with a fault choice -/
def doneAfterF (L : Layout) (ck : Checksum) (w : Writer) (c : Call) (f : Fault) (done : Option Root) :
    Option Root :=
  if (w.stepF L ck c f).2.2 then c.doneAfter (w.stepF L ck c f).1.root done else done

/-- the items a call with a fault choice appended completely -/
def recsAfterF (L : Layout) (ck : Checksum) (w : Writer) (c : Call) (f : Fault) : List Rec :=
  if (w.stepF L ck c f).1.root.free = w.root.free then [] else [c.toRec w]

theorem stepF_ok (w : Writer) (c : Call) (f : Fault) (h : (w.step L ck c).2.length ≤ f.idx) :
    w.stepF L ck c f = ((w.step L ck c).1, (w.step L ck c).2, true) := by
  cases c with
  | append b refs =>
    simp only [Writer.stepF, Writer.appendAtF, Writer.step] at h ⊢
    rw [if_pos h]
  | commit heads refs fact =>
    simp only [Writer.stepF, Writer.commitF, Writer.step] at h ⊢
    rw [if_pos h]

/-- a failing `append_at`: what was issued, and that neither the control record nor the slot
choice changed -/
theorem appendAtF_fail (w : Writer) (b : Bytes) (f : Fault) (h : ¬ (w.appendAt L b).2.2.length ≤ f.idx) :
    (w.appendAtF L b f).2.1 = cutOps (w.appendAt L b).2.2 f ∧ (w.appendAtF L b f).2.2 = false ∧
    (w.appendAtF L b f).1.root = w.root ∧ (w.appendAtF L b f).1.nextRoot = w.nextRoot := by
  unfold Writer.appendAtF
  simp only [if_neg h]
  split
  · exact ⟨rfl, rfl, rfl, rfl⟩
  · exact ⟨rfl, rfl, ensure_root L w _, ensure_next L w _⟩

theorem winv_congr {w w' : Writer} {d : Disk} {done : Option Root} {D : Nat} {recs : List Rec}
    (h : WInv L ck w d done D recs) (hr : w'.root = w.root) (hn : w'.nextRoot = w.nextRoot) :
    WInv L ck w' d done D recs := by
  refine ⟨?_, ?_, ?_⟩
  · rw [hr, hn]; exact h.q
  · rw [hr]; exact h.nonneg
  · rw [hr]; exact h.fs

/-- **one call with an early fault (or none) keeps the invariant**, with the committed root
unchanged unless the call is a commit that returned `Ok` -/
theorem stepF_inv_partial (hL : L.OK) {w : Writer} {d : Disk} {done : Option Root} {D : Nat}
    {recs : List Rec} (h : WInv L ck w d done D recs) (c : Call) (f : Fault)
    (he : f.Early L ck w c) (hbd : Bounded L ck w [c]) :
    ∃ D' recs', WInv L ck (w.stepF L ck c f).1 (d.execAll (w.stepF L ck c f).2.1)
      (doneAfterF L ck w c f done) D' recs' ∧ (∀ r ∈ recs, r ∈ recs') := by
  by_cases hok : (w.step L ck c).2.length ≤ f.idx
  · -- no failure
    have e := stepF_ok (L := L) (ck := ck) w c f hok
    unfold doneAfterF
    rw [e]
    simp only [if_true]
    cases c with
    | append b refs =>
      obtain ⟨D', hi⟩ := append_inv hL h b refs
      exact ⟨D', _, hi, fun r hr => List.mem_append_left _ hr⟩
    | commit heads refs fact =>
      have hb : (commitRoot ck w heads fact).Bounded := by
        have := hbd.1; simp only [commit_root] at this; exact this
      have := commit_inv hL h heads refs fact hb
      refine ⟨w.root.free.toNat + 4 + heads.length, recs ++ [⟨w.root.free.toNat, heads, refs⟩], ?_,
        fun r hr => List.mem_append_left _ hr⟩
      simp only [Writer.step, Call.doneAfter, commit_root]
      exact this
  · have hlt : f.idx < (w.step L ck c).2.length := Nat.lt_of_not_le hok
    cases c with
    | append b refs =>
      have hok' : ¬ (w.appendAt L b).2.2.length ≤ f.idx := hok
      obtain ⟨e1, e2, e3, e4⟩ := appendAtF_fail (L := L) w b f hok'
      have hops : ∀ o ∈ cutOps (w.appendAt L b).2.2 f, DataOp L w.root.free.toNat o :=
        cutOps_data _ f (appendAt_dataOps L w b h.fs)
      obtain ⟨D', q'⟩ := Quiet.execAll_data hL _ d D h.q hops
      unfold doneAfterF
      simp only [Writer.stepF, e1, e2]
      exact ⟨D', recs, winv_congr ⟨q', h.nonneg, h.fs⟩ e3 e4, fun r hr => hr⟩
    | commit heads refs fact =>
      simp only [Writer.step] at hlt hok
      have hidx : f.idx ≤ (w.appendAt L heads).2.2.length := by
        rcases he with he | he
        · exact absurd he hok
        · exact he
      unfold doneAfterF
      simp only [Writer.stepF, Writer.commitF, if_neg hok]
      by_cases hin : f.idx < (w.appendAt L heads).2.2.length
      · -- failure inside the head-set append
        have hcut : cutOps (w.commit L ck heads fact).2 f = cutOps (w.appendAt L heads).2.2 f := by
          rw [commit_ops, List.append_assoc, cutOps_append_left _ _ _ hin]
        have hops : ∀ o ∈ cutOps (w.appendAt L heads).2.2 f, DataOp L w.root.free.toNat o :=
          cutOps_data _ f (appendAt_dataOps L w heads h.fs)
        obtain ⟨D', q'⟩ := Quiet.execAll_data hL _ d D h.q hops
        obtain ⟨_, _, e3, e4⟩ := appendAtF_fail (L := L) w heads f (Nat.not_le_of_lt hin)
        simp only [if_pos hin, hcut]
        exact ⟨D', recs, winv_congr ⟨q', h.nonneg, h.fs⟩ e3 e4, fun r hr => hr⟩
      · -- failure of the data barrier: the head set was appended completely
        have heq : f.idx = (w.appendAt L heads).2.2.length := by omega
        have hcut : cutOps (w.commit L ck heads fact).2 f = (w.appendAt L heads).2.2 ++ [Op.failed] := by
          rw [commit_ops, List.append_assoc]
          exact cutOps_at_end _ _ f heq
        obtain ⟨D', q'⟩ := append_quiet hL h heads refs
        simp only [if_neg hin, if_pos heq, hcut, execAll_append, Disk.execAll, Disk.exec, if_false]
        refine ⟨D', recs ++ [⟨w.root.free.toNat, heads, refs⟩], ⟨?_, ?_, ?_⟩,
          fun r hr => List.mem_append_left _ hr⟩
        · simp only [appendAt_next, appendAt_root, Int.toNat_natCast]; exact q'
        · simp only [appendAt_root]; omega
        · simp only [appendAt_root, Int.toNat_natCast]; have := h.fs; omega

/-- **every crash point inside a call with an early fault is safe**: the committed root is what
`open` returns (a failing call never makes `open` fail or return anything else) -/
theorem stepF_safe_fail_partial (hL : L.OK) {w : Writer} {d : Disk} {done : Option Root} {D : Nat}
    {recs : List Rec} (h : WInv L ck w d done D recs) (c : Call) (f : Fault)
    (he : f.Early L ck w c) (hfail : f.idx < (w.step L ck c).2.length) (n : Nat) (χ : List (List Bool)) :
    SafeAt L ck ((d.execAll ((w.stepF L ck c f).2.1.take n)).crash χ) done none recs := by
  have hnle : ¬ (w.step L ck c).2.length ≤ f.idx := Nat.not_le_of_lt hfail
  have key : ∀ o ∈ (w.stepF L ck c f).2.1, DataOp L w.root.free.toNat o := by
    cases c with
    | append b refs =>
      have hok' : ¬ (w.appendAt L b).2.2.length ≤ f.idx := hnle
      obtain ⟨e1, _, _, _⟩ := appendAtF_fail (L := L) w b f hok'
      simp only [Writer.stepF, e1]
      exact cutOps_data (L := L) _ f (appendAt_dataOps L w b h.fs)
    | commit heads refs fact =>
      simp only [Writer.step] at hnle
      have hidx : f.idx ≤ (w.appendAt L heads).2.2.length := by
        rcases he with he | he
        · exact absurd he hnle
        · exact he
      have hcut : cutOps (w.commit L ck heads fact).2 f =
          cutOps ((w.appendAt L heads).2.2 ++ [Op.fdatasync]) f := by
        rw [commit_ops, cutOps_append_left _ _ _ (by simp only [List.length_append, List.length_cons, List.length_nil]; omega)]
      have hd := cutOps_data (L := L) _ f (commit_prefix_data L w heads h.fs)
      simp only [Writer.stepF, Writer.commitF, if_neg hnle]
      split
      · rw [hcut]; exact hd
      · split
        · rw [hcut]; exact hd
        · rw [hcut]; exact hd
  obtain ⟨D', q'⟩ := Quiet.execAll_data hL _ d D h.q
    (fun o ho => key o (List.mem_of_mem_take ho))
  have := (q'.safe hL none [] (fun _ h => by cases h) χ).1
  simpa using this

/-! ## runs with faults -/

/-- every fault of the run is outside the root writes -/
def EarlyRun (L : Layout) (ck : Checksum) : Writer → List (Call × Fault) → Prop
  | _, [] => True
  | w, (c, f) :: cs => f.Early L ck w c ∧ EarlyRun L ck (w.stepF L ck c f).1 cs

/-- `ChecksumOK` and `Bounded` for every call, at the state it is made in -/
def HypsF (L : Layout) (ck : Checksum) : Writer → Disk → List (Call × Fault) → Prop
  | _, _, [] => True
  | w, d, (c, f) :: cs => ChecksumOK L ck w d [c] ∧ Bounded L ck w [c] ∧
      HypsF L ck (w.stepF L ck c f).1 (d.execAll (w.stepF L ck c f).2.1) cs

/-- root of the last commit that returned `Ok` with all its I/O calls among the first `n` -/
def doneFromF (L : Layout) (ck : Checksum) (w : Writer) (done : Option Root) :
    List (Call × Fault) → Nat → Option Root
  | [], _ => done
  | (c, f) :: cs, n =>
    if n < (w.stepF L ck c f).2.1.length then done
    else doneFromF L ck (w.stepF L ck c f).1 (doneAfterF L ck w c f done) cs
      (n - (w.stepF L ck c f).2.1.length)

/-- root of the (non-failing) commit whose root write is in flight after `n` I/O calls -/
def progFromF (L : Layout) (ck : Checksum) (w : Writer) : List (Call × Fault) → Nat → Option Root
  | [], _ => none
  | (c, f) :: cs, n =>
    if n < (w.stepF L ck c f).2.1.length then
      (if (w.stepF L ck c f).2.2 then progFrom L ck w [c] n else none)
    else progFromF L ck (w.stepF L ck c f).1 cs (n - (w.stepF L ck c f).2.1.length)

/-- **recover_cases with injected I/O errors (partial: no fault inside a root write).**  For every
run with faults, crash point and fault choice `χ`: `open` fails only if no commit has returned
`Ok`; otherwise it returns the root of the last commit that returned `Ok`, or of the commit in
progress.  In particular a failed call never damages the committed state and a commit that
reported success is never lost. -/
theorem run_safeF_partial (hL : L.OK) :
    ∀ (cs : List (Call × Fault)) (w : Writer) (d : Disk) (done : Option Root) (D : Nat) (recs : List Rec),
      WInv L ck w d done D recs → EarlyRun L ck w cs → HypsF L ck w d cs →
      ∀ (n : Nat) (χ : List (List Bool)),
        match Writer.open L ck ((d.execAll ((traceF L ck w cs).take n)).crash χ) with
        | none => doneFromF L ck w done cs n = none
        | some w' => some w'.root = doneFromF L ck w done cs n ∨ some w'.root = progFromF L ck w cs n := by
  intro cs
  induction cs with
  | nil =>
    intro w d done D recs h _ _ n χ
    simp only [traceF, List.take_nil, Disk.execAll, doneFromF, progFromF]
    have := (h.q.safe hL none [] (fun _ h => by cases h) χ).1.1
    exact this
  | cons cf cs ih =>
    obtain ⟨c, f⟩ := cf
    intro w d done D recs h he hh n χ
    by_cases hn : n < (w.stepF L ck c f).2.1.length
    · have htake : (traceF L ck w ((c, f) :: cs)).take n = (w.stepF L ck c f).2.1.take n := by
        simp only [traceF]; exact List.take_append_of_le_length (Nat.le_of_lt hn)
      simp only [htake, doneFromF, progFromF, hn, if_true]
      by_cases hok : (w.step L ck c).2.length ≤ f.idx
      · have e := stepF_ok (L := L) (ck := ck) w c f hok
        rw [e] at hn ⊢
        simp only [if_true]
        have hs := (run_safe hL [c] w d done D recs h hh.1 hh.2.1 n χ).1.1
        have ht : (trace L ck w [c]).take n = (w.step L ck c).2.take n := by
          simp only [trace, List.append_nil]
        have hd : doneFrom L ck w done [c] n = done := by
          simp only [doneFrom]; rw [if_pos hn]
        rw [ht, hd] at hs
        exact hs
      · have hfail : f.idx < (w.step L ck c).2.length := Nat.lt_of_not_le hok
        have hs := (stepF_safe_fail_partial hL h c f he.1 hfail n χ).1
        have hb : (w.stepF L ck c f).2.2 = false := by
          cases c with
          | append b refs => exact (appendAtF_fail (L := L) w b f hok).2.1
          | commit heads refs fact =>
            simp only [Writer.step] at hok
            simp only [Writer.stepF, Writer.commitF, if_neg hok]
            split
            · rfl
            · split <;> rfl
        rw [hb]
        simp only [Bool.false_eq_true, if_false]
        cases ho : Writer.open L ck ((d.execAll ((w.stepF L ck c f).2.1.take n)).crash χ) with
        | none => rw [ho] at hs; exact hs
        | some w' =>
          rw [ho] at hs
          rcases hs with hs | hs
          · exact Or.inl hs
          · cases hs
    · have hge : (w.stepF L ck c f).2.1.length ≤ n := Nat.le_of_not_lt hn
      have htake : (traceF L ck w ((c, f) :: cs)).take n =
          (w.stepF L ck c f).2.1 ++
            (traceF L ck (w.stepF L ck c f).1 cs).take (n - (w.stepF L ck c f).2.1.length) := by
        simp only [traceF]
        rw [List.take_append, List.take_of_length_le hge]
      obtain ⟨D', recs', hinv, _⟩ := stepF_inv_partial hL h c f he.1 hh.2.1
      have := ih _ _ _ D' recs' hinv he.2 hh.2.2 (n - (w.stepF L ck c f).2.1.length) χ
      simp only [htake, execAll_append, doneFromF, progFromF, hn, if_false]
      exact this

end AranyaV.Disk
