import AranyaV.Proofs.DiskHist
import AranyaV.Model.DiskFault
/-!
I/O errors (C15): runs in which storage calls fail with an injected `IoError`.

Proved here (`_partial`): faults anywhere **except inside the root write** (the two root
`pwrite`s and the final barrier of `commit`): failing `fallocate`, failing `fsync` of a
`fallocate`, failing or short `pwrite` of an item / head set, failing data barrier.  Such a call
leaves the disk in a `Quiet` state at every prefix of its op stream and the writer in a state
satisfying `WInv` with the same committed root, so crash safety is unaffected and a commit that
returned `Ok` is never lost.

Not proved (covered by the model, the driver and the sampled tie only): a failure of a root
`pwrite` or of the final barrier.  Then root bytes of the failed attempt stay pending across later
calls and may become durable at a later barrier, so the invariant has to allow a third kind of
slot content ("attempted root, newer than the committed one"); see notes/C15.md.
-/
namespace AranyaV.Disk
open AranyaV.Wire

variable {L : Layout} {ck : Checksum}

/-- the fault is not inside the root write of a commit -/
def Fault.Early (L : Layout) (ck : Checksum) (w : Writer) (c : Call) (f : Fault) : Prop :=
  match c with
  | .append _ _ => True
  | .commit heads _ fact =>
    (w.commit L ck heads fact).2.length ≤ f.idx ∨ f.idx ≤ (w.appendAt L heads).2.2.length

theorem cutOps_append_left (P R : List Op) (f : Fault) (h : f.idx < P.length) :
    cutOps (P ++ R) f = cutOps P f := by
  unfold cutOps
  rw [List.take_append_of_le_length (Nat.le_of_lt h), List.getElem?_append_left h]

theorem cutOps_data {free : Nat} (ops : List Op) (f : Fault) (h : ∀ o ∈ ops, DataOp L free o) :
    ∀ o ∈ cutOps ops f, DataOp L free o := by
  intro o ho
  unfold cutOps at ho
  rcases List.mem_append.mp ho with h1 | h1
  · exact h o (List.mem_of_mem_take h1)
  · cases hg : ops[f.idx]? with
    | none => rw [hg] at h1; cases h1
    | some x =>
      rw [hg] at h1
      have hx : x ∈ ops := List.mem_of_getElem? hg
      cases x with
      | write off b =>
        simp only [List.mem_cons, List.not_mem_nil, or_false] at h1
        rcases h1 with rfl | rfl
        · exact h (Op.write off b) hx
        · trivial
      | fdatasync => simp only [List.mem_cons, List.not_mem_nil, or_false] at h1; subst h1; trivial
      | fsync => simp only [List.mem_cons, List.not_mem_nil, or_false] at h1; subst h1; trivial
      | falloc a b => simp only [List.mem_cons, List.not_mem_nil, or_false] at h1; subst h1; trivial
      | failed => simp only [List.mem_cons, List.not_mem_nil, or_false] at h1; subst h1; trivial

/-- cutting exactly at the end of a list of complete ops, before a barrier: all of them, then the
failure marker -/
theorem cutOps_at_end (P : List Op) (R : List Op) (f : Fault) (h : f.idx = P.length) :
    cutOps (P ++ Op.fdatasync :: R) f = P ++ [Op.failed] := by
  unfold cutOps
  rw [h, List.take_left', List.getElem?_append_right (Nat.le_refl _)]
  · simp
  · rfl

/-- the post-state of a successful commit -/
theorem commit_inv (hL : L.OK) {w : Writer} {d : Disk} {done : Option Root} {D : Nat} {recs : List Rec}
    (h : WInv L ck w d done D recs) (heads : Bytes) (refs : List Nat) (fact : Nat)
    (hb : (commitRoot ck w heads fact).Bounded) :
    WInv L ck (w.commit L ck heads fact).1 (d.execAll (w.commit L ck heads fact).2)
      (some (commitRoot ck w heads fact)) (w.root.free.toNat + 4 + heads.length)
      (recs ++ [⟨w.root.free.toNat, heads, refs⟩]) := by
  obtain ⟨q1, hp1⟩ := commit_data_quiet hL h heads refs
  have q3 := commit_done hL q1 hp1 hb (commitRoot_valid ck w heads fact) rfl rfl
    (by have := h.fs; omega)
  refine ⟨?_, ?_, ?_⟩
  · have e1 : (commitRoot ck w heads fact).free.toNat = w.root.free.toNat + 4 + heads.length := by
      simp only [commitRoot, Int.toNat_natCast]
    have e2 : (commitRoot ck w heads fact).gen = w.root.gen + 1 := rfl
    rw [commit_next, commit_ops, execAll_append, commit_root, e1, e2]
    exact q3
  · simp only [commit_root, commitRoot]; omega
  · simp only [commit_root, commitRoot, Int.toNat_natCast]; have := h.fs; omega

/-- the committed root after a call with a fault choice -/
def doneAfterF (L : Layout) (ck : Checksum) (w : Writer) (c : Call) (f : Fault) (done : Option Root) :
    Option Root :=
  if (w.stepF L ck c f).2.2 then c.doneAfter (w.stepF L ck c f).1.root done else done

/-- the items a call with a fault choice appended completely -/
def recsAfterF (L : Layout) (ck : Checksum) (w : Writer) (c : Call) (f : Fault) : List Rec :=
  if (w.stepF L ck c f).1.root.free = w.root.free then [] else [c.toRec w]

theorem stepF_ok (w : Writer) (c : Call) (f : Fault) (h : (w.step L ck c).2.length ≤ f.idx) :
    w.stepF L ck c f = ((w.step L ck c).1, (w.step L ck c).2, true) := by
  cases c with
  | append b refs =>
    simp only [Writer.stepF, Writer.appendAtF, Writer.step] at h ⊢
    rw [if_pos h]
  | commit heads refs fact =>
    simp only [Writer.stepF, Writer.commitF, Writer.step] at h ⊢
    rw [if_pos h]

/-- **one call with an early fault (or none) keeps the invariant**, with the committed root
unchanged unless the call is a commit that returned `Ok` -/
theorem stepF_inv_partial (hL : L.OK) {w : Writer} {d : Disk} {done : Option Root} {D : Nat}
    {recs : List Rec} (h : WInv L ck w d done D recs) (c : Call) (f : Fault)
    (he : f.Early L ck w c) (hbd : Bounded L ck w [c]) :
    ∃ D' recs', WInv L ck (w.stepF L ck c f).1 (d.execAll (w.stepF L ck c f).2.1)
      (doneAfterF L ck w c f done) D' recs' ∧ (∀ r ∈ recs, r ∈ recs') := by
  by_cases hok : (w.step L ck c).2.length ≤ f.idx
  · -- no failure
    have e := stepF_ok (L := L) (ck := ck) w c f hok
    unfold doneAfterF
    rw [e]
    simp only [if_true]
    cases c with
    | append b refs =>
      obtain ⟨D', hi⟩ := append_inv hL h b refs
      exact ⟨D', _, hi, fun r hr => List.mem_append_left _ hr⟩
    | commit heads refs fact =>
      have hb : (commitRoot ck w heads fact).Bounded := by
        have := hbd.1; simp only [commit_root] at this; exact this
      have := commit_inv hL h heads refs fact hb
      refine ⟨w.root.free.toNat + 4 + heads.length, recs ++ [⟨w.root.free.toNat, heads, refs⟩], ?_,
        fun r hr => List.mem_append_left _ hr⟩
      simp only [Writer.step, Call.doneAfter, commit_root]
      exact this
  · have hlt : f.idx < (w.step L ck c).2.length := Nat.lt_of_not_le hok
    cases c with
    | append b refs =>
      simp only [Writer.step] at hlt
      have hops : ∀ o ∈ cutOps (w.appendAt L b).2.2 f, DataOp L w.root.free.toNat o :=
        cutOps_data _ f (appendAt_dataOps L w b h.fs)
      obtain ⟨D', q'⟩ := Quiet.execAll_data hL _ d D h.q hops
      unfold doneAfterF
      simp only [Writer.stepF, Writer.appendAtF, if_neg hok, Writer.step]
      split
      · exact ⟨D', recs, ⟨by simpa using q', h.nonneg, h.fs⟩, fun r hr => hr⟩
      · refine ⟨D', recs, ⟨?_, ?_, ?_⟩, fun r hr => hr⟩
        · simp only [if_false, ensure_next, ensure_root]; simpa using q'
        · simp only [ensure_root]; exact h.nonneg
        · simp only [ensure_root]; exact h.fs
    | commit heads refs fact =>
      simp only [Writer.step] at hlt hok
      have hidx : f.idx ≤ (w.appendAt L heads).2.2.length := by
        rcases he with he | he
        · exact absurd he hok
        · exact he
      unfold doneAfterF
      simp only [Writer.stepF, Writer.commitF, if_neg hok]
      by_cases hin : f.idx < (w.appendAt L heads).2.2.length
      · -- failure inside the head-set append
        have hcut : cutOps (w.commit L ck heads fact).2 f = cutOps (w.appendAt L heads).2.2 f := by
          rw [commit_ops, List.append_assoc, cutOps_append_left _ _ _ hin]
        have hops : ∀ o ∈ cutOps (w.appendAt L heads).2.2 f, DataOp L w.root.free.toNat o :=
          cutOps_data _ f (appendAt_dataOps L w heads h.fs)
        obtain ⟨D', q'⟩ := Quiet.execAll_data hL _ d D h.q hops
        simp only [if_pos hin, hcut, Writer.appendAtF, if_neg (Nat.not_le_of_lt hin)]
        split
        · exact ⟨D', recs, ⟨by simpa using q', h.nonneg, h.fs⟩, fun r hr => hr⟩
        · refine ⟨D', recs, ⟨?_, ?_, ?_⟩, fun r hr => hr⟩
          · simp only [if_false, ensure_next, ensure_root]; simpa using q'
          · simp only [ensure_root]; exact h.nonneg
          · simp only [ensure_root]; exact h.fs
      · -- failure of the data barrier: the head set was appended completely
        have heq : f.idx = (w.appendAt L heads).2.2.length := by omega
        have hcut : cutOps (w.commit L ck heads fact).2 f = (w.appendAt L heads).2.2 ++ [Op.failed] := by
          rw [commit_ops, List.append_assoc]
          exact cutOps_at_end _ _ f heq
        obtain ⟨D', q'⟩ := append_quiet hL h heads refs
        simp only [if_neg hin, if_pos heq, hcut, execAll_append, Disk.execAll, Disk.exec, if_false]
        refine ⟨D', recs ++ [⟨w.root.free.toNat, heads, refs⟩], ⟨?_, ?_, ?_⟩,
          fun r hr => List.mem_append_left _ hr⟩
        · simp only [appendAt_next, appendAt_root, Int.toNat_natCast]; exact q'
        · simp only [appendAt_root]; omega
        · simp only [appendAt_root, Int.toNat_natCast]; have := h.fs; omega

/-- **every crash point inside a call with an early fault is safe**: the committed root is what
`open` returns (a failing call never makes `open` fail or return anything else) -/
theorem stepF_safe_fail_partial (hL : L.OK) {w : Writer} {d : Disk} {done : Option Root} {D : Nat}
    {recs : List Rec} (h : WInv L ck w d done D recs) (c : Call) (f : Fault)
    (he : f.Early L ck w c) (hfail : f.idx < (w.step L ck c).2.length) (n : Nat) (χ : List (List Bool)) :
    SafeAt L ck ((d.execAll ((w.stepF L ck c f).2.1.take n)).crash χ) done none recs := by
  have hnle : ¬ (w.step L ck c).2.length ≤ f.idx := Nat.not_le_of_lt hfail
  have key : ∀ o ∈ (w.stepF L ck c f).2.1, DataOp L w.root.free.toNat o := by
    cases c with
    | append b refs =>
      simp only [Writer.step] at hnle
      simp only [Writer.stepF, Writer.appendAtF, if_neg hnle]
      have := cutOps_data (L := L) _ f (appendAt_dataOps L w b h.fs)
      split <;> exact this
    | commit heads refs fact =>
      simp only [Writer.step] at hnle
      have hidx : f.idx ≤ (w.appendAt L heads).2.2.length := by
        rcases he with he | he
        · exact absurd he hnle
        · exact he
      have hcut : cutOps (w.commit L ck heads fact).2 f =
          cutOps ((w.appendAt L heads).2.2 ++ [Op.fdatasync]) f := by
        rw [commit_ops, cutOps_append_left _ _ _ (by simp only [List.length_append, List.length_cons, List.length_nil]; omega)]
      have hd := cutOps_data (L := L) _ f (commit_prefix_data L w heads h.fs)
      simp only [Writer.stepF, Writer.commitF, if_neg hnle]
      split
      · rw [hcut]; exact hd
      · split
        · rw [hcut]; exact hd
        · rw [hcut]; exact hd
  obtain ⟨D', q'⟩ := Quiet.execAll_data hL _ d D h.q
    (fun o ho => key o (List.mem_of_mem_take ho))
  have := (q'.safe hL none [] (fun _ h => by cases h) χ).1
  simpa using this

end AranyaV.Disk
