import AranyaV.Model.Conc.ShmMem
import AranyaV.Proofs.Conc.Count
/-!
Invariant of the in-memory AFC state model (`AranyaV.ShmMem`).
-/
namespace AranyaV.ShmMem

open AranyaV.Conc

/-- live context for channel `x` -/
def liveFor (x : Nat) (c : MCtx) : Bool := !c.dropped && c.id == x

def cids (l : List MChan) : List Nat := l.map (·.id)

structure Inv (s : State) : Prop where
  chanLt : ∀ c ∈ s.chans, c.id < s.nextId
  ctxLt : ∀ c ∈ s.ctxs, c.id < s.nextId
  nodup : (cids s.chans).Nodup
  unloaned : ∀ c ∈ s.chans, c.loaned = false → s.ctxs.countP (liveFor c.id) = 0
  one : ∀ x, s.ctxs.countP (liveFor x) ≤ 1
  klog : ∀ ch ∈ s.chans, ch.klog = List.range ch.seq
  run : ∀ c ∈ s.ctxs, c.log = List.range' c.start c.log.length
  sync : ∀ c ∈ s.ctxs, c.dropped = false → ∀ ch ∈ s.chans, ch.id = c.id → c.start + c.log.length = ch.seq

theorem inv_init : Inv init := by
  refine ⟨?_, ?_, ?_, ?_, ?_, ?_, ?_, ?_⟩ <;> simp [init, cids]

theorem mem_setLoaned {l : List MChan} {x : Nat} {b : Bool} {c : MChan} (h : c ∈ setLoaned l x b) :
    ∃ c0 ∈ l, c.id = c0.id ∧ c.seq = c0.seq ∧ c.klog = c0.klog ∧
      (c.loaned = false → (c0.loaned = false ∧ c0.id ≠ x) ∨ (b = false ∧ c0.id = x)) := by
  simp only [setLoaned, List.mem_map] at h
  obtain ⟨c0, hc0, rfl⟩ := h
  refine ⟨c0, hc0, ?_, ?_, ?_, ?_⟩
  · split <;> rfl
  · split <;> rfl
  · split <;> rfl
  · split
    · rename_i e; intro hb; exact Or.inr ⟨hb, e⟩
    · rename_i e; intro hb; exact Or.inl ⟨hb, e⟩

theorem cids_setLoaned (l : List MChan) (x : Nat) (b : Bool) : cids (setLoaned l x b) = cids l := by
  simp only [cids, setLoaned, List.map_map]
  congr 1; funext c; simp only [Function.comp]; split <;> rfl

theorem mem_bumpSeq {l : List MChan} {x : Nat} {c : MChan} (h : c ∈ bumpSeq l x) :
    ∃ c0 ∈ l, c.id = c0.id ∧ c.loaned = c0.loaned ∧
      ((c0.id = x ∧ c.seq = c0.seq + 1 ∧ c.klog = c0.klog ++ [c0.seq]) ∨
       (c0.id ≠ x ∧ c.seq = c0.seq ∧ c.klog = c0.klog)) := by
  simp only [bumpSeq, List.mem_map] at h
  obtain ⟨c0, hc0, rfl⟩ := h
  refine ⟨c0, hc0, ?_, ?_, ?_⟩
  · split <;> rfl
  · split <;> rfl
  · split
    · rename_i e; exact Or.inl ⟨e, rfl, rfl⟩
    · rename_i e; exact Or.inr ⟨e, rfl, rfl⟩

theorem cids_bumpSeq (l : List MChan) (x : Nat) : cids (bumpSeq l x) = cids l := by
  simp only [cids, bumpSeq, List.map_map]
  congr 1; funext c; simp only [Function.comp]; split <;> rfl

theorem meq_of_id_eq {l : List MChan} (hn : (cids l).Nodup) {c d : MChan} (hc : c ∈ l) (hd : d ∈ l)
    (h : c.id = d.id) : c = d := by
  obtain ⟨i, hi, rfl⟩ := List.getElem_of_mem hc
  obtain ⟨j, hj, rfl⟩ := List.getElem_of_mem hd
  have h1 : (cids l)[i]'(by simpa [cids] using hi) = (cids l)[j]'(by simpa [cids] using hj) := by
    simpa [cids] using h
  have := (List.getElem_inj hn).mp h1
  subst this; rfl

theorem countP_set_same {f : MCtx → Bool} {l : List MCtx} {k : Nat} {c c' : MCtx}
    (h : l[k]? = some c) (hf : f c' = f c) : (l.set k c').countP f = l.countP f := by
  have := countP_set f c' h
  rw [hf] at this; omega

theorem mem_filter_sub {p : MChan → Bool} {l : List MChan} {c : MChan} (h : c ∈ l.filter p) : c ∈ l :=
  (List.mem_filter.mp h).1

theorem filter_inv {s : State} (hI : Inv s) (p : MChan → Bool) : Inv { s with chans := s.chans.filter p } := by
  obtain ⟨h1, h2, hn, h3, h4, h6, h7, h8⟩ := hI
  refine ⟨fun c hc => h1 c (mem_filter_sub hc), h2, ?_, fun c hc => h3 c (mem_filter_sub hc), h4,
    fun c hc => h6 c (mem_filter_sub hc), h7, fun c hc hd ch hch => h8 c hc hd ch (mem_filter_sub hch)⟩
  exact hn.sublist ((List.filter_sublist (l := s.chans)).map _)

theorem step_inv {s : State} (hI : Inv s) (o : Op) : Inv (step s o).1 := by
  have hI0 := hI
  obtain ⟨h1, h2, hn, h3, h4, h6, h7, h8⟩ := hI
  cases o with
  | add d p =>
    simp only [step]
    refine ⟨?_, ?_, ?_, ?_, h4, ?_, h7, ?_⟩
    · intro c hc
      simp only [List.mem_append, List.mem_singleton] at hc
      rcases hc with hc | rfl
      · have := h1 c hc; simp only; omega
      · simp
    · intro c hc; have := h2 c hc; simp only; omega
    · simp only [cids, List.map_append, List.map_cons, List.map_nil]
      rw [List.nodup_append]
      refine ⟨hn, by simp, ?_⟩
      intro a ha b hb
      simp at hb; subst hb
      obtain ⟨c, hc, rfl⟩ := List.mem_map.mp ha
      have := h1 c hc; omega
    · intro c hc hl
      simp only [List.mem_append, List.mem_singleton] at hc
      rcases hc with hc | rfl
      · exact h3 c hc hl
      · rw [List.countP_eq_zero]
        intro c0 hc0
        have := h2 c0 hc0
        simp [liveFor]; intro _; omega
    · intro ch hch
      simp only [List.mem_append, List.mem_singleton] at hch
      rcases hch with hch | rfl
      · exact h6 ch hch
      · simp
    · intro c hc hd ch hch hid
      simp only [List.mem_append, List.mem_singleton] at hch
      rcases hch with hch | rfl
      · exact h8 c hc hd ch hch hid
      · have := h2 c hc; simp at hid; omega
  | remove x => exact filter_inv hI0 _
  | removeAll =>
    simp only [step]
    exact ⟨by simp, h2, by simp [cids], by simp, h4, by simp, h7, by simp⟩
  | removeIf p => exact filter_inv hI0 _
  | exists_ x => exact hI0
  | setup isSeal x =>
    simp only [step]
    split
    · exact hI0
    · rename_i c hc
      have hcm : c ∈ s.chans := List.mem_of_find?_eq_some hc
      have hcx : c.id = x := by simpa using List.find?_some hc
      split
      · exact hI0
      · split
        · exact hI0
        · rename_i hl
          have hl' : c.loaned = false := by simpa using hl
          have h0 : s.ctxs.countP (liveFor x) = 0 := hcx ▸ h3 c hcm hl'
          refine ⟨?_, ?_, ?_, ?_, ?_, ?_, ?_, ?_⟩
          · intro c' hc'
            obtain ⟨c0, hc0, hid, _⟩ := mem_setLoaned hc'
            rw [hid]; exact h1 c0 hc0
          · intro c' hc'
            simp only [List.mem_append, List.mem_singleton] at hc'
            rcases hc' with hc' | rfl
            · exact h2 c' hc'
            · simp only; rw [← hcx]; exact h1 c hcm
          · simp only; rw [cids_setLoaned]; exact hn
          · intro c' hc' hl2
            obtain ⟨c0, hc0, hid, _, _, hcase⟩ := mem_setLoaned hc'
            rcases hcase hl2 with ⟨hl0, hne⟩ | ⟨hb, _⟩
            · rw [hid, List.countP_append, h3 c0 hc0 hl0]
              simp [liveFor, Ne.symm hne]
            · cases hb
          · intro y
            rw [List.countP_append]
            by_cases hy : y = x
            · subst hy; rw [h0]; simp [liveFor]
            · have := h4 y
              simp [liveFor, Ne.symm hy]; exact this
          · intro ch hch
            obtain ⟨c0, hc0, _, hs, hk, _⟩ := mem_setLoaned hch
            rw [hs, hk]; exact h6 c0 hc0
          · intro c' hc'
            simp only [List.mem_append, List.mem_singleton] at hc'
            rcases hc' with hc' | rfl
            · exact h7 c' hc'
            · simp
          · intro c' hc' hd ch hch hid
            obtain ⟨c0, hc0, hid0, hs, _, _⟩ := mem_setLoaned hch
            simp only [List.mem_append, List.mem_singleton] at hc'
            rcases hc' with hc' | rfl
            · rw [hs]; exact h8 c' hc' hd c0 hc0 (hid0 ▸ hid)
            · simp only at hid ⊢
              have : c0 = c := meq_of_id_eq hn hc0 hcm (by rw [← hid0, hid, hcx])
              rw [hs, this]; simp
  | sealC k fail =>
    simp only [step]
    split
    · exact hI0
    · rename_i c hc
      have hcm : c ∈ s.ctxs := List.mem_of_getElem? hc
      split
      · exact hI0
      · rename_i hok
        have hd : c.dropped = false := by
          cases hdd : c.dropped
          · rfl
          · exact absurd (Or.inl hdd) hok
        split
        · exact hI0
        · rename_i ch hch
          have hchm : ch ∈ s.chans := List.mem_of_find?_eq_some hch
          have hchx : ch.id = c.id := by simpa using List.find?_some hch
          split
          · exact hI0
          · have hsync := h8 c hcm hd ch hchm hchx
            have hsame : ∀ y, (s.ctxs.set k { c with log := c.log ++ [ch.seq] }).countP (liveFor y) =
                s.ctxs.countP (liveFor y) := fun y => countP_set_same hc (by simp [liveFor])
            refine ⟨?_, ?_, ?_, ?_, ?_, ?_, ?_, ?_⟩
            · intro c' hc'
              obtain ⟨c0, hc0, hid, _⟩ := mem_bumpSeq hc'
              rw [hid]; exact h1 c0 hc0
            · intro c' hc'
              rcases List.mem_or_eq_of_mem_set hc' with h | rfl
              · exact h2 c' h
              · exact h2 c hcm
            · simp only; rw [cids_bumpSeq]; exact hn
            · intro c' hc' hl
              obtain ⟨c0, hc0, hid, hlo, _⟩ := mem_bumpSeq hc'
              simp only; rw [hsame, hid]; exact h3 c0 hc0 (hlo ▸ hl)
            · intro y; simp only; rw [hsame]; exact h4 y
            · intro ch' hch'
              obtain ⟨c0, hc0, _, _, hcase⟩ := mem_bumpSeq hch'
              rcases hcase with ⟨_, hs, hk⟩ | ⟨_, hs, hk⟩
              · rw [hs, hk, h6 c0 hc0, List.range_succ]
              · rw [hs, hk]; exact h6 c0 hc0
            · intro c' hc'
              rcases List.mem_or_eq_of_mem_set hc' with h | rfl
              · exact h7 c' h
              · simp only [List.length_append, List.length_singleton]
                rw [List.range'_concat, ← h7 c hcm]
                have : c.start + 1 * c.log.length = ch.seq := by omega
                rw [this]
            · intro c' hc' hd' ch' hch' hid
              obtain ⟨c0, hc0, hid0, _, hcase⟩ := mem_bumpSeq hch'
              obtain ⟨j, hj⟩ := List.mem_iff_getElem?.mp hc'
              by_cases hjk : j = k
              · subst hjk
                have hlt : j < s.ctxs.length := (List.getElem?_eq_some_iff.mp hc).1
                simp only [List.getElem?_set_self hlt, Option.some.injEq] at hj
                subst hj
                simp only [List.length_append, List.length_singleton] at hid ⊢
                rcases hcase with ⟨_, hs, _⟩ | ⟨hx, _, _⟩
                · rw [hs, ← h8 c hcm hd c0 hc0 (hid0 ▸ hid)]; omega
                · exact absurd (hid0 ▸ hid) hx
              · simp only [List.getElem?_set_ne (Ne.symm hjk)] at hj
                have hm : c' ∈ s.ctxs := List.mem_of_getElem? hj
                rcases hcase with ⟨hx, _, _⟩ | ⟨_, hs, _⟩
                · exfalso
                  have hidc : c'.id = c.id := by rw [← hid, hid0, hx]
                  exact hjk (unique_of_countP_le_one (liveFor c.id) (h4 c.id) hj hc
                    (by simp [liveFor, hd', hidc]) (by simp [liveFor, hd]))
                · rw [hs]; exact h8 c' hm hd' c0 hc0 (hid0 ▸ hid)
  | openC k fail =>
    simp only [step]
    split
    · exact hI0
    · split
      · exact hI0
      · split
        · exact hI0
        · split <;> exact hI0
  | dropC k =>
    simp only [step]
    split
    · exact hI0
    · rename_i c hc
      split
      · exact hI0
      · rename_i hd
        have hd' : c.dropped = false := by simpa using hd
        have hcm : c ∈ s.ctxs := List.mem_of_getElem? hc
        have hcnt : ∀ y, (s.ctxs.set k { c with dropped := true }).countP (liveFor y) + (if liveFor y c then 1 else 0) =
            s.ctxs.countP (liveFor y) := by
          intro y
          have := countP_set (liveFor y) { c with dropped := true } hc
          simp [liveFor] at this ⊢; omega
        refine ⟨?_, ?_, ?_, ?_, ?_, ?_, ?_, ?_⟩
        · intro c' hc'
          obtain ⟨c0, hc0, hid, _⟩ := mem_setLoaned hc'
          rw [hid]; exact h1 c0 hc0
        · intro c' hc'
          rcases List.mem_or_eq_of_mem_set hc' with h | rfl
          · exact h2 c' h
          · exact h2 c hcm
        · simp only; rw [cids_setLoaned]; exact hn
        · intro c' hc' hl2
          obtain ⟨c0, hc0, hid, _, _, hcase⟩ := mem_setLoaned hc'
          simp only
          rcases hcase hl2 with ⟨hl0, hne⟩ | ⟨_, heq⟩
          · have := hcnt c'.id
            rw [hid] at this ⊢
            have h0 := h3 c0 hc0 hl0
            omega
          · have := hcnt c'.id
            have hlive : liveFor c'.id c = true := by simp [liveFor, hd', hid, heq]
            rw [hlive] at this
            have := h4 c'.id
            simp only [if_true] at *
            omega
        · intro y
          have := hcnt y; have := h4 y
          simp only; split at * <;> omega
        · intro ch hch
          obtain ⟨c0, hc0, _, hs, hk, _⟩ := mem_setLoaned hch
          rw [hs, hk]; exact h6 c0 hc0
        · intro c' hc'
          rcases List.mem_or_eq_of_mem_set hc' with h | rfl
          · exact h7 c' h
          · exact h7 c hcm
        · intro c' hc' hdd ch hch hid
          obtain ⟨c0, hc0, hid0, hs, _, _⟩ := mem_setLoaned hch
          rcases List.mem_or_eq_of_mem_set hc' with h | rfl
          · rw [hs]; exact h8 c' h hdd c0 hc0 (hid0 ▸ hid)
          · cases hdd

theorem reachable_inv {s : State} (h : Reachable s) : Inv s := by
  induction h with
  | init => exact inv_init
  | step o _ ih => exact step_inv ih o

end AranyaV.ShmMem
