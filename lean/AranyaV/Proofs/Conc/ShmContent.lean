import AranyaV.Proofs.Conc.ShmIds
/-!
What the writer's programs do to the *contents* of a table: `swap_remove` is a removal of one
position up to order, ids stay pairwise distinct, and the table each operation produces is
the one it should produce.
-/
namespace AranyaV.Shm

theorem swapRemove_perm {l : List Chan} {i : Nat} : (swapRemove l i).Perm (l.eraseIdx i) := by
  rw [List.eraseIdx_eq_take_drop_succ]
  unfold swapRemove
  split
  · rename_i h
    have : l.drop (i + 1) = [] := List.getLast?_eq_none_iff.mp h
    rw [this]; simp
  · rename_i z hz
    obtain ⟨ys, hys⟩ := List.getLast?_eq_some_iff.mp hz
    refine List.Perm.append_left _ ?_
    rw [hys]
    simp only [List.dropLast_concat]
    exact (List.perm_append_singleton z _).symm

theorem swapRemove_nodup {l : List Chan} {i : Nat} (h : (ids l).Nodup) : (ids (swapRemove l i)).Nodup := by
  have hp : (ids (swapRemove l i)).Perm (ids (l.eraseIdx i)) := swapRemove_perm.map _
  rw [hp.nodup_iff]
  exact h.sublist ((List.eraseIdx_sublist l i).map _)

theorem mem_swapRemove_iff {l : List Chan} {i : Nat} {c : Chan} :
    c ∈ swapRemove l i ↔ c ∈ l.eraseIdx i := swapRemove_perm.mem_iff

/-- with distinct ids, swap-removing position `i` removes exactly the channel at `i` -/
theorem mem_swapRemove_of_nodup {l : List Chan} {i : Nat} (hn : (ids l).Nodup) (hi : i < l.length)
    {c : Chan} : c ∈ swapRemove l i ↔ c ∈ l ∧ c.id ≠ (l[i]).id := by
  rw [mem_swapRemove_iff, List.mem_eraseIdx_iff_getElem]
  constructor
  · rintro ⟨j, hj, hne, rfl⟩
    refine ⟨List.getElem_mem hj, ?_⟩
    intro heq
    have h1 : (ids l)[j]'(by simpa [ids] using hj) = (ids l)[i]'(by simpa [ids] using hi) := by
      simpa [ids] using heq
    exact hne ((List.getElem_inj hn).mp h1)
  · rintro ⟨hc, hne⟩
    obtain ⟨j, hj, rfl⟩ := List.getElem_of_mem hc
    exact ⟨j, hj, by intro e; subst e; exact hne rfl, rfl⟩

/-- positions below `i` are untouched by a swap-remove of position `i` -/
theorem swapRemove_getElem?_lt {l : List Chan} {i j : Nat} (h : j < i) :
    (swapRemove l i)[j]? = l[j]? := by
  unfold swapRemove
  split
  · simp [List.getElem?_take, h]
  · rename_i z hz
    have hne : l.drop (i + 1) ≠ [] := by
      intro h0; rw [h0] at hz; cases hz
    have : 0 < (l.drop (i + 1)).length := List.length_pos_iff.mpr hne
    simp only [List.length_drop] at this
    rw [List.getElem?_append_left (by simp [List.length_take]; omega)]
    simp [h]

theorem idxOf_spec (l : List Chan) (x k i : Nat) (h : idxOf l x k = some i) :
    ∃ hi : i - k < l.length, (l[i - k]).id = x ∧ k ≤ i := by
  induction l generalizing k with
  | nil => simp [idxOf] at h
  | cons c cs ih =>
    simp only [idxOf] at h
    split at h
    · rename_i hc
      injection h with h; subst h
      exact ⟨by simp, by simpa using hc, Nat.le_refl _⟩
    · obtain ⟨hi, hx, hk⟩ := ih (k + 1) h
      have : i - k = (i - (k + 1)) + 1 := by omega
      refine ⟨by simp only [List.length_cons]; omega, ?_, by omega⟩
      simp only [this, List.getElem_cons_succ]; exact hx

theorem idxOf_none (l : List Chan) (x k : Nat) (h : idxOf l x k = none) : x ∉ ids l := by
  induction l generalizing k with
  | nil => simp [ids]
  | cons c cs ih =>
    simp only [idxOf] at h
    split at h
    · cases h
    · rename_i hc
      simp only [ids, List.map_cons, List.mem_cons, not_or]
      exact ⟨fun e => hc e.symm, ih (k + 1) h⟩

/-! ### the final table of `remove_if` -/

theorem rifIdxs_spec (cap : Nat) (p : Chan → Bool) (fuel : Nat) (l : List Chan) (i g : Nat)
    (hf : l.length ≤ fuel + i) {l' : List Chan}
    (h : runProg cap ((rifIdxs p fuel l i).map .swapRm) ⟨g, l⟩ = some ⟨g, l'⟩)
    (hn : (ids l).Nodup) (hpre : ∀ j (hj : j < l.length), j < i → p l[j] = false) :
    (∀ c, c ∈ l' ↔ c ∈ l ∧ p c = false) ∧ (ids l').Nodup := by
  induction fuel generalizing l i with
  | zero =>
    simp [rifIdxs, runProg] at h; subst h
    refine ⟨fun c => ⟨fun hc => ⟨hc, ?_⟩, fun hc => hc.1⟩, hn⟩
    obtain ⟨j, hj, rfl⟩ := List.getElem_of_mem hc
    exact hpre j hj (by omega)
  | succ f ih =>
    simp only [rifIdxs] at h
    split at h
    · rename_i hnone
      simp [runProg] at h; subst h
      have hlen : l.length ≤ i := List.getElem?_eq_none_iff.mp hnone
      refine ⟨fun c => ⟨fun hc => ⟨hc, ?_⟩, fun hc => hc.1⟩, hn⟩
      obtain ⟨j, hj, rfl⟩ := List.getElem_of_mem hc
      exact hpre j hj (by omega)
    · rename_i c0 hc0
      obtain ⟨hi, hci⟩ := List.getElem?_eq_some_iff.mp hc0
      split at h
      · rename_i hp
        simp only [List.map_cons, runProg, applyM, hi, if_true] at h
        have hlen : (swapRemove l i).length + 1 = l.length := by
          have := (swapRemove_perm (l := l) (i := i)).length_eq
          rw [List.length_eraseIdx_of_lt hi] at this; omega
        have hrec := ih (swapRemove l i) i (by omega) h (swapRemove_nodup hn) (by
          intro j hj hji
          have hmem : (swapRemove l i)[j] ∈ swapRemove l i := List.getElem_mem hj
          -- positions below `i` are untouched by the swap-remove
          have hj' : j < l.length := by omega
          have h1 := swapRemove_getElem?_lt (l := l) hji
          rw [List.getElem?_eq_getElem hj, List.getElem?_eq_getElem hj'] at h1
          have : (swapRemove l i)[j] = l[j] := Option.some.inj h1
          rw [this]; exact hpre j (by omega) hji)
        refine ⟨fun c => ?_, hrec.2⟩
        rw [hrec.1 c, mem_swapRemove_of_nodup hn hi]
        constructor
        · rintro ⟨⟨hc, _⟩, hpc⟩; exact ⟨hc, hpc⟩
        · rintro ⟨hc, hpc⟩
          refine ⟨⟨hc, ?_⟩, hpc⟩
          intro heq
          -- same id, distinct ids ⇒ same channel, but p differs
          obtain ⟨j, hj, rfl⟩ := List.getElem_of_mem hc
          have h1 : (ids l)[j]'(by simpa [ids] using hj) = (ids l)[i]'(by simpa [ids] using hi) := by
            simpa [ids] using heq
          have := (List.getElem_inj hn).mp h1
          subst this
          rw [hci] at hpc; rw [hpc] at hp; cases hp
      · rename_i hp
        exact ih l (i + 1) (by omega) h hn (by
          intro j hj hji
          by_cases e : j = i
          · subst e; rw [hci]; simpa using hp
          · exact hpre j hj (by omega))

/-- `remove_if p` produces exactly the channels with `p = false` (any order), ids distinct -/
theorem rifProg_spec (cap : Nat) (p : Chan → Bool) (sd sd' : Side) (hn : (ids sd.chans).Nodup)
    (h : runProg cap (rifProg p sd.chans) sd = some sd') :
    (∀ c, c ∈ sd'.chans ↔ c ∈ sd.chans ∧ p c = false) ∧ (ids sd'.chans).Nodup := by
  unfold rifProg at h
  split at h
  · rename_i hnil
    simp [runProg] at h; subst h
    have hr : runProg cap ((rifIdxs p sd.chans.length sd.chans 0).map .swapRm) ⟨sd.gen, sd.chans⟩ =
        some ⟨sd.gen, sd.chans⟩ := by rw [hnil]; rfl
    exact rifIdxs_spec cap p _ _ 0 sd.gen (by omega) hr hn (by intro j _ hj; omega)
  · rename_i is hne
    simp only [runProg, applyM] at h
    obtain ⟨l', hl'⟩ := rifIdxs_run cap p sd.chans.length sd.chans 0 (sd.gen + 1)
    rw [hl'] at h; injection h with h; subst h
    exact rifIdxs_spec cap p _ _ 0 (sd.gen + 1) (by omega) hl' hn (by intro j _ hj; omega)

/-- what the table planned for an operation is, in terms of the table before -/
theorem plan_spec (cap : Nat) (op : WOp) (sd sd' : Side) (hn : (ids sd.chans).Nodup)
    (hfresh : ∀ c, op = .add c → c.id ∉ ids sd.chans)
    (h : runProg cap (plan cap op sd).1 sd = some sd') :
    (ids sd'.chans).Nodup ∧
    match op with
    | .add c => sd'.chans = sd.chans ∨ sd'.chans = sd.chans ++ [c]
    | .remove x => ∀ c, c ∈ sd'.chans ↔ c ∈ sd.chans ∧ c.id ≠ x
    | .removeAll => sd'.chans = []
    | .removeIf p => ∀ c, c ∈ sd'.chans ↔ c ∈ sd.chans ∧ p c = false
    | .exists_ _ => sd'.chans = sd.chans := by
  cases op with
  | add c =>
    simp only [plan] at h
    split at h
    · simp [runProg] at h; subst h; exact ⟨hn, Or.inl rfl⟩
    · rename_i hlt
      have : sd.chans.length < cap := by omega
      simp [runProg, applyM, this] at h; subst h
      refine ⟨?_, Or.inr rfl⟩
      simp only [ids, List.map_append, List.map_cons, List.map_nil]
      rw [List.nodup_append]
      refine ⟨hn, by simp, ?_⟩
      intro a ha b hb
      simp at hb; subst hb
      intro e; subst e; exact hfresh c rfl ha
  | remove x =>
    simp only [plan] at h
    split at h
    · rename_i hnone
      simp [runProg] at h; subst h
      refine ⟨hn, fun c => ⟨fun hc => ⟨hc, ?_⟩, fun hc => hc.1⟩⟩
      intro e; subst e
      exact idxOf_none _ _ _ hnone (List.mem_map_of_mem hc)
    · rename_i i hi
      obtain ⟨hlt, hx, _⟩ := idxOf_spec _ _ _ _ hi
      simp only [Nat.sub_zero] at hlt hx
      simp [runProg, applyM, hlt] at h; subst h
      refine ⟨swapRemove_nodup hn, fun c => ?_⟩
      rw [mem_swapRemove_of_nodup hn hlt, hx]
  | removeAll =>
    simp [plan, runProg, applyM] at h; subst h
    exact ⟨by simp [ids], rfl⟩
  | removeIf p =>
    simp only [plan] at h
    split at h
    · rename_i h0
      simp [runProg] at h; subst h
      have : sd.chans = [] := List.length_eq_zero_iff.mp h0
      refine ⟨hn, fun c => ?_⟩
      rw [this]; simp
    · have := rifProg_spec cap p sd sd' hn h
      exact ⟨this.2, this.1⟩
  | exists_ x =>
    simp [plan, runProg] at h; subst h; exact ⟨hn, rfl⟩

/-! ### lookups -/

theorem findLin_some {l : List Chan} {x op k : Nat} {ch : Chan} {idx : Nat}
    (h : findLin l x op k = some (ch, idx)) : ch ∈ l ∧ ch.id = x ∧ dirMatches ch.dir op = true := by
  induction l generalizing k with
  | nil => simp [findLin] at h
  | cons c cs ih =>
    simp only [findLin] at h
    split at h
    · rename_i hc
      injection h with h; injection h with h1 _; subst h1
      exact ⟨by simp, hc.1, hc.2⟩
    · obtain ⟨h1, h2⟩ := ih h
      exact ⟨List.mem_cons_of_mem _ h1, h2⟩

theorem findLin_none {l : List Chan} {x op k : Nat} (h : findLin l x op k = none) :
    ∀ c ∈ l, ¬ (c.id = x ∧ dirMatches c.dir op = true) := by
  induction l generalizing k with
  | nil => simp
  | cons c cs ih =>
    simp only [findLin] at h
    split at h
    · cases h
    · rename_i hc
      intro c' hc'
      rcases List.mem_cons.mp hc' with e | e
      · subst e; exact hc
      · exact ih h c' e

/-- `find` returns a channel of the list with the requested id and a matching direction -/
theorem find_some {l : List Chan} {x : Nat} {hint : Option Nat} {op : Nat} {ch : Chan} {idx : Nat}
    (h : find l x hint op = some (ch, idx)) : ch ∈ l ∧ ch.id = x ∧ dirMatches ch.dir op = true := by
  unfold find at h
  split at h
  · exact findLin_some h
  · split at h
    · split at h
      · rename_i hh c hc hm
        injection h with h; injection h with h1 _; subst h1
        exact ⟨List.mem_of_getElem? hc, hm.1, hm.2⟩
      · exact findLin_some h
    · exact findLin_some h

/-- `find` fails only if no channel of the list has the id and a matching direction -/
theorem find_none {l : List Chan} {x : Nat} {hint : Option Nat} {op : Nat}
    (h : find l x hint op = none) : ∀ c ∈ l, ¬ (c.id = x ∧ dirMatches c.dir op = true) := by
  unfold find at h
  split at h
  · exact findLin_none h
  · split at h
    · split at h
      · cases h
      · exact findLin_none h
    · exact findLin_none h

end AranyaV.Shm
