import AranyaV.Model.Conc.BiArc
import AranyaV.Proofs.Conc.Count
/-!
Inductive invariant of the `Lender`/`Loan`/`BiArc` transition system, stated with counting
functions over the thread list.
-/
namespace AranyaV.BiArc

open AranyaV.Conc

def hasLoan (t : Th) : Bool := t.loan
def atLdrop (t : Th) : Bool := t.pc == .ldrop
def atLfree (t : Th) : Bool := t.pc == .lfree
def pendFree (t : Th) : Bool := t.pc == .lfree || t.pc == .nfree
/-- in a `Loan` method without owning a `Loan` (never happens) -/
def loanOpNoLoan (t : Th) : Bool := (t.pc == .get || t.pc == .using || t.pc == .ndrop) && !t.loan

def State.count (s : State) (f : Th → Bool) : Nat := s.ths.countP f

/-- 1 while the `Lender`'s handle counts as live: until the `swap(UNSHARED)` of its drop -/
def State.lenderLive (s : State) : Nat :=
  match s.lender with
  | .alive => 1
  | .dropping => s.count atLdrop
  | .gone => 0

/-- number of live handles (`Lender` + `Loan`s) -/
def State.handles (s : State) : Nat := s.lenderLive + s.count hasLoan

structure Inv (s : State) : Prop where
  /-- the pcs of the `Lender`'s drop agree with the `Lender` status -/
  alive_pcs : s.lender = .alive → s.count atLdrop = 0 ∧ s.count atLfree = 0
  dropping_pcs : s.lender = .dropping → s.count atLdrop + s.count atLfree = 1
  gone_pcs : s.lender = .gone → s.count atLdrop = 0 ∧ s.count atLfree = 0
  /-- `lend`/`shared` only run on a live `Lender` (borrow discipline) -/
  lender_calls : 0 < s.count inLenderCall → s.lender = .alive
  loan_ops : s.count loanOpNoLoan = 0
  /-- the flag is SHARED exactly when both handles are live -/
  flag_true : s.flag = true → s.lenderLive = 1 ∧ s.count hasLoan = 1
  flag_false : s.flag = false → s.handles ≤ 1
  /-- free accounting -/
  live_unfreed : 1 ≤ s.handles → s.freed = 0 ∧ s.count pendFree = 0
  dead_freed : s.handles = 0 → s.freed + s.count pendFree = 1
  no_uaf : s.uaf = false

theorem inv_init (n : Nat) : Inv (init n) := by
  constructor <;>
    simp [init, State.count, State.handles, State.lenderLive, List.countP_replicate, hasLoan,
      atLdrop, atLfree, pendFree, loanOpNoLoan, inLenderCall]

theorem all_not_lenderCall_iff (s : State) :
    s.ths.all (fun x => !inLenderCall x) = true ↔ s.count inLenderCall = 0 := by
  simp [State.count, List.countP_eq_zero]

theorem countP_ge_of_get {α : Type} (f : α → Bool) {l : List α} {t : Nat} {p : α}
    (h : l[t]? = some p) : (if f p then 1 else 0) ≤ l.countP f := by
  cases hf : f p
  · simp
  · have := countP_pos_of_get f h hf; simpa using this

/-- the counting facts for replacing thread `t`'s record `th` by `th'` -/
structure Upd (l : List Th) (t : Nat) (th th' : Th) : Prop where
  e1 : (l.set t th').countP hasLoan + (if hasLoan th then 1 else 0)
        = l.countP hasLoan + (if hasLoan th' then 1 else 0)
  e2 : (l.set t th').countP atLdrop + (if atLdrop th then 1 else 0)
        = l.countP atLdrop + (if atLdrop th' then 1 else 0)
  e3 : (l.set t th').countP atLfree + (if atLfree th then 1 else 0)
        = l.countP atLfree + (if atLfree th' then 1 else 0)
  e4 : (l.set t th').countP pendFree + (if pendFree th then 1 else 0)
        = l.countP pendFree + (if pendFree th' then 1 else 0)
  e5 : (l.set t th').countP loanOpNoLoan + (if loanOpNoLoan th then 1 else 0)
        = l.countP loanOpNoLoan + (if loanOpNoLoan th' then 1 else 0)
  e6 : (l.set t th').countP inLenderCall + (if inLenderCall th then 1 else 0)
        = l.countP inLenderCall + (if inLenderCall th' then 1 else 0)
  p1 : (if hasLoan th then 1 else 0) ≤ l.countP hasLoan
  p2 : (if atLdrop th then 1 else 0) ≤ l.countP atLdrop
  p3 : (if atLfree th then 1 else 0) ≤ l.countP atLfree
  p4 : (if pendFree th then 1 else 0) ≤ l.countP pendFree
  p5 : (if loanOpNoLoan th then 1 else 0) ≤ l.countP loanOpNoLoan
  p6 : (if inLenderCall th then 1 else 0) ≤ l.countP inLenderCall

theorem upd {l : List Th} {t : Nat} {th : Th} (th' : Th) (h : l[t]? = some th) :
    Upd l t th th' :=
  ⟨countP_set _ _ h, countP_set _ _ h, countP_set _ _ h, countP_set _ _ h, countP_set _ _ h,
   countP_set _ _ h, countP_ge_of_get _ h, countP_ge_of_get _ h, countP_ge_of_get _ h,
   countP_ge_of_get _ h, countP_ge_of_get _ h, countP_ge_of_get _ h⟩

theorem inv_of_upd {s : State} {t : Nat} {th th' : Th} (hth : s.ths[t]? = some th)
    {flag' uaf' : Bool} {freed' : Nat} {lender' : LSt}
    (H : Upd s.ths t th th' → Inv ⟨flag', freed', uaf', lender', s.ths.set t th'⟩) :
    Inv ⟨flag', freed', uaf', lender', s.ths.set t th'⟩ := H (upd th' hth)

/-- One preservation case, after `s.flag` (`hf`), `s.lender` (`hl`) and the thread's loan bit
were made concrete and the new state was substituted into the goal.  (`countP_eq_zero` /
`countP_pos_iff` are switched off: they would turn the arithmetic facts into quantified
ones.) -/
macro "ba_case" hth:ident hI:ident hf:ident hl:ident : tactic => `(tactic| (
  refine inv_of_upd $hth (fun e => ?_)
  obtain ⟨e1, e2, e3, e4, e5, e6, p1, p2, p3, p4, p5, p6⟩ := e
  obtain ⟨i1, i2, i3, i4, i5, i6, i7, i8, i9, i10⟩ := $hI
  simp only [State.count, State.handles, State.lenderLive] at i1 i2 i3 i4 i5 i6 i7 i8 i9
  (simp [hasLoan, atLdrop, atLfree, pendFree, loanOpNoLoan, inLenderCall,
    -List.countP_eq_zero, -List.countP_pos_iff, -List.one_le_countP_iff] at e1 e2 e3 e4 e5 e6 p1 p2 p3 p4 p5 p6) <;>
  (simp [$hf:ident, $hl:ident, -List.countP_eq_zero, -List.countP_pos_iff, -List.one_le_countP_iff]
    at i1 i2 i3 i4 i6 i7 i8 i9) <;>
  constructor <;>
  simp [State.count, State.handles, State.lenderLive, State.touch, i10, $hf:ident, $hl:ident,
    -List.countP_eq_zero, -List.countP_pos_iff, -List.one_le_countP_iff] <;> (try omega)))

theorem inv_startLend_idle {s s' : State} {t : Nat} {loan : Bool} (hI : Inv s)
    (hth : s.ths[t]? = some ⟨.idle, loan⟩) (h : step s t .startLend = some s') : Inv s' := by
  unfold step at h
  simp only [hth] at h
  have hcall := all_not_lenderCall_iff s
  try simp at h
  cases hf : s.flag <;> cases hl : s.lender <;> cases loan <;>
    simp [hf, hl] at h <;> (first | subst h | (obtain ⟨h0, h⟩ := h; subst h)) <;> ba_case hth hI hf hl

theorem inv_startShared_idle {s s' : State} {t : Nat} {loan : Bool} (hI : Inv s)
    (hth : s.ths[t]? = some ⟨.idle, loan⟩) (h : step s t .startShared = some s') : Inv s' := by
  unfold step at h
  simp only [hth] at h
  have hcall := all_not_lenderCall_iff s
  try simp at h
  cases hf : s.flag <;> cases hl : s.lender <;> cases loan <;>
    simp [hf, hl] at h <;> (first | subst h | (obtain ⟨h0, h⟩ := h; subst h)) <;> ba_case hth hI hf hl

theorem inv_startLDrop_idle {s s' : State} {t : Nat} {loan : Bool} (hI : Inv s)
    (hth : s.ths[t]? = some ⟨.idle, loan⟩) (h : step s t .startLDrop = some s') : Inv s' := by
  unfold step at h
  simp only [hth] at h
  have hcall := all_not_lenderCall_iff s
  try simp at h
  cases hf : s.flag <;> cases hl : s.lender <;> cases loan <;>
    simp [hf, hl] at h <;> obtain ⟨h0, h⟩ := h <;> subst h <;>
    (have hc : List.countP inLenderCall s.ths = 0 := List.countP_eq_zero.mpr (by simpa using h0)) <;>
    ba_case hth hI hf hl

theorem inv_startGet_idle {s s' : State} {t : Nat} {loan : Bool} (hI : Inv s)
    (hth : s.ths[t]? = some ⟨.idle, loan⟩) (h : step s t .startGet = some s') : Inv s' := by
  unfold step at h
  simp only [hth] at h
  have hcall := all_not_lenderCall_iff s
  try simp at h
  cases hf : s.flag <;> cases hl : s.lender <;> cases loan <;>
    simp [hf, hl] at h <;> (first | subst h | (obtain ⟨h0, h⟩ := h; subst h)) <;> ba_case hth hI hf hl

theorem inv_startNDrop_idle {s s' : State} {t : Nat} {loan : Bool} (hI : Inv s)
    (hth : s.ths[t]? = some ⟨.idle, loan⟩) (h : step s t .startNDrop = some s') : Inv s' := by
  unfold step at h
  simp only [hth] at h
  have hcall := all_not_lenderCall_iff s
  try simp at h
  cases hf : s.flag <;> cases hl : s.lender <;> cases loan <;>
    simp [hf, hl] at h <;> (first | subst h | (obtain ⟨h0, h⟩ := h; subst h)) <;> ba_case hth hI hf hl

theorem inv_step_lend {s s' : State} {t : Nat} {loan : Bool} (hI : Inv s)
    (hth : s.ths[t]? = some ⟨.lend, loan⟩) (h : step s t .step = some s') : Inv s' := by
  unfold step at h
  simp only [hth] at h
  have hcall := all_not_lenderCall_iff s
  try simp at h
  cases hf : s.flag <;> cases hl : s.lender <;> cases loan <;>
    simp [hf, hl] at h <;> (first | subst h | (obtain ⟨h0, h⟩ := h; subst h)) <;> ba_case hth hI hf hl

theorem inv_step_shared {s s' : State} {t : Nat} {loan : Bool} (hI : Inv s)
    (hth : s.ths[t]? = some ⟨.shared, loan⟩) (h : step s t .step = some s') : Inv s' := by
  unfold step at h
  simp only [hth] at h
  have hcall := all_not_lenderCall_iff s
  try simp at h
  cases hf : s.flag <;> cases hl : s.lender <;> cases loan <;>
    simp [hf, hl] at h <;> (first | subst h | (obtain ⟨h0, h⟩ := h; subst h)) <;> ba_case hth hI hf hl

theorem inv_step_ldrop {s s' : State} {t : Nat} {loan : Bool} (hI : Inv s)
    (hth : s.ths[t]? = some ⟨.ldrop, loan⟩) (h : step s t .step = some s') : Inv s' := by
  unfold step at h
  simp only [hth] at h
  have hcall := all_not_lenderCall_iff s
  try simp at h
  cases hf : s.flag <;> cases hl : s.lender <;> cases loan <;>
    simp [hf, hl] at h <;> (first | subst h | (obtain ⟨h0, h⟩ := h; subst h)) <;> ba_case hth hI hf hl

theorem inv_step_lfree {s s' : State} {t : Nat} {loan : Bool} (hI : Inv s)
    (hth : s.ths[t]? = some ⟨.lfree, loan⟩) (h : step s t .step = some s') : Inv s' := by
  unfold step at h
  simp only [hth] at h
  have hcall := all_not_lenderCall_iff s
  try simp at h
  cases hf : s.flag <;> cases hl : s.lender <;> cases loan <;>
    simp [hf, hl] at h <;> (first | subst h | (obtain ⟨h0, h⟩ := h; subst h)) <;> ba_case hth hI hf hl

theorem inv_step_get {s s' : State} {t : Nat} {loan : Bool} (hI : Inv s)
    (hth : s.ths[t]? = some ⟨.get, loan⟩) (h : step s t .step = some s') : Inv s' := by
  unfold step at h
  simp only [hth] at h
  have hcall := all_not_lenderCall_iff s
  try simp at h
  cases hf : s.flag <;> cases hl : s.lender <;> cases loan <;>
    simp [hf, hl] at h <;> (first | subst h | (obtain ⟨h0, h⟩ := h; subst h)) <;> ba_case hth hI hf hl

theorem inv_step_using {s s' : State} {t : Nat} {loan : Bool} (hI : Inv s)
    (hth : s.ths[t]? = some ⟨.using, loan⟩) (h : step s t .step = some s') : Inv s' := by
  unfold step at h
  simp only [hth] at h
  have hcall := all_not_lenderCall_iff s
  try simp at h
  cases hf : s.flag <;> cases hl : s.lender <;> cases loan <;>
    simp [hf, hl] at h <;> (first | subst h | (obtain ⟨h0, h⟩ := h; subst h)) <;> ba_case hth hI hf hl

theorem inv_step_ndrop {s s' : State} {t : Nat} {loan : Bool} (hI : Inv s)
    (hth : s.ths[t]? = some ⟨.ndrop, loan⟩) (h : step s t .step = some s') : Inv s' := by
  unfold step at h
  simp only [hth] at h
  have hcall := all_not_lenderCall_iff s
  try simp at h
  cases hf : s.flag <;> cases hl : s.lender <;> cases loan <;>
    simp [hf, hl] at h <;> (first | subst h | (obtain ⟨h0, h⟩ := h; subst h)) <;> ba_case hth hI hf hl

theorem inv_step_nfree {s s' : State} {t : Nat} {loan : Bool} (hI : Inv s)
    (hth : s.ths[t]? = some ⟨.nfree, loan⟩) (h : step s t .step = some s') : Inv s' := by
  unfold step at h
  simp only [hth] at h
  have hcall := all_not_lenderCall_iff s
  try simp at h
  cases hf : s.flag <;> cases hl : s.lender <;> cases loan <;>
    simp [hf, hl] at h <;> (first | subst h | (obtain ⟨h0, h⟩ := h; subst h)) <;> ba_case hth hI hf hl

theorem inv_step {s s' : State} {t : Nat} {op : Op} (hI : Inv s) (h : step s t op = some s') :
    Inv s' := by
  cases hth : s.ths[t]? with
  | none => simp [step, hth] at h
  | some th =>
    obtain ⟨pc, loan⟩ := th
    cases op <;> cases pc
    case startLend.idle => exact inv_startLend_idle hI hth h
    case startShared.idle => exact inv_startShared_idle hI hth h
    case startLDrop.idle => exact inv_startLDrop_idle hI hth h
    case startGet.idle => exact inv_startGet_idle hI hth h
    case startNDrop.idle => exact inv_startNDrop_idle hI hth h
    case step.lend => exact inv_step_lend hI hth h
    case step.shared => exact inv_step_shared hI hth h
    case step.ldrop => exact inv_step_ldrop hI hth h
    case step.lfree => exact inv_step_lfree hI hth h
    case step.get => exact inv_step_get hI hth h
    case step.using => exact inv_step_using hI hth h
    case step.ndrop => exact inv_step_ndrop hI hth h
    case step.nfree => exact inv_step_nfree hI hth h
    all_goals (simp [step, hth] at h)

/-- states reachable from `init n` by any schedule of any client operations -/
inductive Reachable (n : Nat) : State → Prop where
  | init : Reachable n (init n)
  | step {s s' : State} (t : Nat) (op : Op) : Reachable n s → step s t op = some s' → Reachable n s'

theorem inv_of_reachable {n : Nat} {s : State} (h : Reachable n s) : Inv s := by
  induction h with
  | init => exact inv_init n
  | step t op _ hs ih => exact inv_step ih hs

theorem reachable_exec {n : Nat} {s s' : State} (h : Reachable n s) (acts : List (Nat × Op))
    (he : exec s acts = some s') : Reachable n s' := by
  induction acts generalizing s with
  | nil => simp [exec] at he; subst he; exact h
  | cons a as ih =>
    obtain ⟨t, op⟩ := a
    simp only [exec] at he
    cases hs : step s t op with
    | none => simp [hs] at he
    | some s1 =>
      simp only [hs] at he
      exact ih (Reachable.step t op h hs) he

end AranyaV.BiArc
