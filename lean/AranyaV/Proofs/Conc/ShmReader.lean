import AranyaV.Proofs.Conc.ShmContent
/-!
How a reader step changes the reader's contexts: every context after the step is unchanged,
or advanced by a cache-hit seal, or expired, or (re)built from a channel found in the list
the reader holds.  All context invariants (C40, C41) are corollaries.
-/
namespace AranyaV.Shm

/-- the pending cache update of `open` carries a channel of the held list with the context's id -/
def GloOk (side : Bool → Side) (r : Reader) : Prop :=
  match r.pc with
  | .glo k sd ch _ => ch ∈ (side sd).chans ∧ ∃ c, r.ctxs[k]? = some c ∧ ch.id = c.id
  | _ => True

inductive CtxStep (side : Bool → Side) (r : Reader) (k : Nat) (c' : Ctx) : Prop where
  | same : r.ctxs[k]? = some c' → CtxStep side r k c'
  | hit (c : Ctx) : r.ctxs[k]? = some c → c' = c.sealed → CtxStep side r k c'
  | expire (c : Ctx) : r.ctxs[k]? = some c → c' = { c with live := false } → CtxStep side r k c'
  | fresh (sd : Bool) (ch : Chan) (idx : Nat) (isSeal : Bool) :
      r.pc.holds = some sd → r.ctxs[k]? = none → ch ∈ (side sd).chans →
      c' = newCtx isSeal ch (side sd).gen idx → CtxStep side r k c'
  | miss (sd : Bool) (ch : Chan) (idx : Nat) (c : Ctx) :
      r.pc.holds = some sd → r.ctxs[k]? = some c → ch ∈ (side sd).chans → ch.id = c.id →
      c' = { c.sealed with ch := ch, gen := (side sd).gen, idx := idx } → CtxStep side r k c'
  | reopen (sd : Bool) (ch : Chan) (idx : Nat) (c : Ctx) :
      r.pc.holds = some sd → r.ctxs[k]? = some c → ch ∈ (side sd).chans → ch.id = c.id →
      c' = { c with ch := ch, gen := (side sd).gen, idx := idx } → CtxStep side r k c'

theorem getElem?_set_cases {α : Type} {l : List α} {k k' : Nat} {a a' : α}
    (h : (l.set k a)[k']? = some a') : (k' = k ∧ a' = a ∧ k < l.length) ∨ (k' ≠ k ∧ l[k']? = some a') := by
  by_cases e : k = k'
  · subst e
    by_cases hk : k < l.length
    · rw [List.getElem?_set_self hk] at h; injection h with h; exact Or.inl ⟨rfl, h.symm, hk⟩
    · have : (l.set k a)[k]? = none := List.getElem?_eq_none_iff.mpr (by simp; omega)
      rw [this] at h; cases h
  · rw [List.getElem?_set_ne e] at h; exact Or.inr ⟨fun x => e x.symm, h⟩

theorem singleton_getElem? {α : Type} {a b : α} {j : Nat} (h : [a][j]? = some b) : j = 0 ∧ b = a := by
  cases j with
  | zero => simp at h; exact ⟨rfl, h.symm⟩
  | succ j => simp at h

theorem rStepLocal_ctxs {ro : Bool} {side : Bool → Side} {free : Bool → Bool} {r r' : Reader}
    {eff : LockEff} {ret : Option Ret} (h : rStepLocal ro side free r = some (r', eff, ret))
    (hg : GloOk side r) : ∀ k c', r'.ctxs[k]? = some c' → CtxStep side r k c' := by
  unfold rStepLocal at h
  unfold GloOk at hg
  repeat' split at h
  all_goals first
    | contradiction
    | (simp only [Option.some.injEq, Prod.mk.injEq] at h
       obtain ⟨rfl, rfl, rfl⟩ := h
       intro k c' hk
       first
         | exact CtxStep.same hk
         | (rcases getElem?_set_cases hk with ⟨rfl, rfl, _⟩ | ⟨_, hk'⟩
            · exact CtxStep.hit _ ‹r.ctxs[_]? = some _› rfl
            · exact CtxStep.same hk')
         | (rcases getElem?_set_cases hk with ⟨rfl, rfl, _⟩ | ⟨_, hk'⟩
            · exact CtxStep.expire _ ‹r.ctxs[_]? = some _› rfl
            · exact CtxStep.same hk')
         | (rcases getElem?_set_cases hk with ⟨rfl, rfl, _⟩ | ⟨_, hk'⟩
            · have hf := find_some ‹find _ _ _ _ = some _›
              exact CtxStep.miss _ _ _ _ (by simp [*, RPc.holds]) ‹r.ctxs[_]? = some _› hf.1 hf.2.1 rfl
            · exact CtxStep.same hk')
         | (rcases getElem?_set_cases hk with ⟨rfl, rfl, _⟩ | ⟨_, hk'⟩
            · have hc1 : r.ctxs[_]? = some _ := ‹r.ctxs[_]? = some _›
              simp only [‹r.pc = _›] at hg
              obtain ⟨hm, c0, hc0, hid⟩ := hg
              rw [hc1] at hc0; injection hc0 with hc0; subst hc0
              exact CtxStep.reopen _ _ _ _ (by simp [*, RPc.holds]) hc1 hm hid rfl
            · exact CtxStep.same hk')
         | (have hf := find_some ‹find _ _ _ _ = some _›
            simp only at hk
            by_cases hlt : k < r.ctxs.length
            · rw [List.getElem?_append_left hlt] at hk; exact CtxStep.same hk
            · rw [List.getElem?_append_right (by omega)] at hk
              obtain ⟨_, hk1⟩ := singleton_getElem? hk
              exact CtxStep.fresh _ _ _ _ (by simp [*, RPc.holds])
                (List.getElem?_eq_none_iff.mpr (by omega)) hf.1 hk1))

/-! ## operations on a removed channel -/

/-- control states an operation about a dead id `x` can be in, and the results it may carry -/
def DeadPcOk (r : Reader) (x : Nat) : Prop :=
  match r.pc with
  | .idle => True
  | .ldR op => op.target r.ctxs = some x
  | .peek op _ => op.target r.ctxs = some x
  | .lk op _ => op.target r.ctxs = some x
  | .gl op _ => op.target r.ctxs = some x
  | .glo _ _ _ _ => False
  | .ul _ rt => rt = .notFound ∨ rt = .bool false

theorem any_id_false {l : List Chan} {x : Nat} (h : x ∉ ids l) :
    (l.any fun c => c.id == x) = false := by
  rw [List.any_eq_false]
  intro c hc
  simp only [beq_iff_eq]
  intro e; exact h (e ▸ List.mem_map_of_mem (f := Chan.id) hc)

theorem find_dead {l : List Chan} {x : Nat} {hint : Option Nat} {op : Nat} (h : x ∉ ids l) :
    find l x hint op = none := by
  cases hf : find l x hint op with
  | none => rfl
  | some p =>
    obtain ⟨ch, idx⟩ := p
    have := find_some hf
    exact absurd (this.2.1 ▸ List.mem_map_of_mem (f := Chan.id) this.1) h

theorem target_seal {ctxs : List Ctx} {k : Nat} {f : Bool} {x : Nat} {c : Ctx}
    (h : ROp.target ctxs (.seal k f) = some x) (hc : ctxs[k]? = some c) : c.id = x := by
  simp only [ROp.target, hc, Option.map_some] at h; exact Option.some.inj h

theorem target_open {ctxs : List Ctx} {k : Nat} {f : Bool} {x : Nat} {c : Ctx}
    (h : ROp.target ctxs (.open_ k f) = some x) (hc : ctxs[k]? = some c) : c.id = x := by
  simp only [ROp.target, hc, Option.map_some] at h; exact Option.some.inj h

theorem target_setup {ctxs : List Ctx} {b : Bool} {y x : Nat}
    (h : ROp.target ctxs (.setup b y) = some x) : y = x := by
  simp only [ROp.target] at h; exact Option.some.inj h

theorem target_ex {ctxs : List Ctx} {y x : Nat}
    (h : ROp.target ctxs (.exists_ y) = some x) : y = x := by
  simp only [ROp.target] at h; exact Option.some.inj h

/-- A step of an operation about an id `x` that is in no list the reader can look at, and
whose cached generations are all stale: the operation cannot succeed. -/
theorem rStepLocal_dead {ro : Bool} {side : Bool → Side} {free : Bool → Bool} {r r' : Reader}
    {eff : LockEff} {ret : Option Ret} {x : Nat}
    (h : rStepLocal ro side free r = some (r', eff, ret)) (hpc : DeadPcOk r x)
    (hside : ∀ sd, free sd = true ∨ r.pc.holds = some sd → x ∉ ids (side sd).chans)
    (hctx : ∀ (k : Nat) (c : Ctx), r.ctxs[k]? = some c → c.id = x → ∀ sd, c.gen < (side sd).gen) :
    DeadPcOk r' x ∧ (ret = none ∨ ret = some .notFound ∨ ret = some (.bool false)) := by
  unfold rStepLocal at h
  unfold DeadPcOk at hpc
  repeat' split at h
  all_goals first
    | contradiction
    | (simp only [Option.some.injEq, Prod.mk.injEq] at h
       obtain ⟨rfl, rfl, rfl⟩ := h
       simp only [‹r.pc = _›] at hpc
       all_goals first
         | exact ⟨by simpa [DeadPcOk] using hpc, Or.inl rfl⟩
         | (exfalso
            have hx := target_seal hpc ‹r.ctxs[_]? = some _›
            have hlt := hctx _ _ ‹r.ctxs[_]? = some _› hx
            exact absurd ‹_ = (side _).gen› (Nat.ne_of_lt (hlt _)))
         | (exfalso
            have hx := target_open hpc ‹r.ctxs[_]? = some _›
            have hlt := hctx _ _ ‹r.ctxs[_]? = some _› hx
            exact absurd ‹_ = (side _).gen› (Nat.ne_of_lt (hlt _)))
         | (exfalso
            have hf := ‹find _ _ _ _ = some _›
            have hx := target_seal hpc ‹r.ctxs[_]? = some _›
            rw [hx, find_dead (hside _ (by simp [*, RPc.holds]))] at hf
            cases hf)
         | (exfalso
            have hf := ‹find _ _ _ _ = some _›
            have hx := target_open hpc ‹r.ctxs[_]? = some _›
            rw [hx, find_dead (hside _ (by simp [*, RPc.holds]))] at hf
            cases hf)
         | (exfalso
            have hf := ‹find _ _ _ _ = some _›
            have hx := target_setup hpc
            rw [hx, find_dead (hside _ (by simp [*, RPc.holds]))] at hf
            cases hf)
         | (refine ⟨by simp [DeadPcOk], Or.inr ?_⟩
            rcases hpc with h | h <;> (subst h; simp))
         | (have hx := target_ex hpc
            subst hx
            have hfree := Bool.of_not_eq_false ‹¬free _ = false›
            have hn := any_id_false (hside _ (Or.inl hfree))
            exact ⟨by simp [DeadPcOk, hn], Or.inl rfl⟩))

/-- the pending cache update of `open` is well formed after every step -/
theorem rStepLocal_glo {ro : Bool} {side : Bool → Side} {free : Bool → Bool} {r r' : Reader}
    {eff : LockEff} {ret : Option Ret} (h : rStepLocal ro side free r = some (r', eff, ret)) :
    GloOk side r' := by
  unfold rStepLocal at h
  unfold GloOk
  repeat' split at h
  all_goals first
    | contradiction
    | (simp only [Option.some.injEq, Prod.mk.injEq] at h
       obtain ⟨rfl, rfl, rfl⟩ := h
       first
         | trivial
         | (have hf := find_some ‹find _ _ _ _ = some _›
            exact ⟨hf.1, _, ‹r.ctxs[_]? = some _›, hf.2.1⟩))

theorem rStepLocal_dead0 {ro : Bool} {side : Bool → Side} {free : Bool → Bool} {r r' : Reader}
    {eff : LockEff} {ret : Option Ret} (h : rStepLocal ro side free r = some (r', eff, ret)) :
    r'.dead0 = r.dead0 := by
  unfold rStepLocal at h
  repeat' split at h
  all_goals first
    | contradiction
    | (simp only [Option.some.injEq, Prod.mk.injEq] at h
       obtain ⟨rfl, rfl, rfl⟩ := h
       rfl)

theorem rBeginLocal_spec {dead : List Nat} {r r' : Reader} {op : ROp} {ret : Option Ret}
    (h : rBeginLocal dead r op = some (r', ret)) :
    r'.ctxs = r.ctxs ∧ r'.dead0 = deadAtBegin dead r.ctxs op ∧
    ((r'.pc = .ldR op ∧ ret = none) ∨ (r'.pc = .idle ∧ ret = some .keyExpired)) := by
  unfold rBeginLocal at h
  repeat' split at h
  all_goals first
    | contradiction
    | (simp only [Option.some.injEq, Prod.mk.injEq] at h
       obtain ⟨rfl, rfl⟩ := h
       simp [*])

end AranyaV.Shm
