import AranyaV.Proofs.Conc.ShmContent
/-!
How a reader step changes the reader's contexts: every context after the step is unchanged,
or advanced by a cache-hit seal, or expired, or (re)built from a channel found in the list
the reader holds.  All context invariants (C40, C41) are corollaries.
-/
namespace AranyaV.Shm

/-- the pending cache update of `open` carries a channel of the held list with the context's id -/
def GloOk (side : Bool → Side) (r : Reader) : Prop :=
  match r.pc with
  | .glo k sd ch _ => ch ∈ (side sd).chans ∧ ∃ c, r.ctxs[k]? = some c ∧ ch.id = c.id
  | _ => True

inductive CtxStep (side : Bool → Side) (r : Reader) (k : Nat) (c' : Ctx) : Prop where
  | same : r.ctxs[k]? = some c' → CtxStep side r k c'
  | hit (c : Ctx) : r.ctxs[k]? = some c → c' = c.sealed → CtxStep side r k c'
  | expire (c : Ctx) : r.ctxs[k]? = some c → c' = { c with live := false } → CtxStep side r k c'
  | fresh (sd : Bool) (ch : Chan) (idx : Nat) (isSeal : Bool) :
      r.pc.holds = some sd → r.ctxs[k]? = none → ch ∈ (side sd).chans →
      c' = newCtx isSeal ch (side sd).gen idx → CtxStep side r k c'
  | miss (sd : Bool) (ch : Chan) (idx : Nat) (c : Ctx) :
      r.pc.holds = some sd → r.ctxs[k]? = some c → ch ∈ (side sd).chans → ch.id = c.id →
      c' = { c.sealed with ch := ch, gen := (side sd).gen, idx := idx } → CtxStep side r k c'
  | reopen (sd : Bool) (ch : Chan) (idx : Nat) (c : Ctx) :
      r.pc.holds = some sd → r.ctxs[k]? = some c → ch ∈ (side sd).chans → ch.id = c.id →
      c' = { c with ch := ch, gen := (side sd).gen, idx := idx } → CtxStep side r k c'

theorem getElem?_set_cases {α : Type} {l : List α} {k k' : Nat} {a a' : α}
    (h : (l.set k a)[k']? = some a') : (k' = k ∧ a' = a ∧ k < l.length) ∨ (k' ≠ k ∧ l[k']? = some a') := by
  by_cases e : k = k'
  · subst e
    by_cases hk : k < l.length
    · rw [List.getElem?_set_self hk] at h; injection h with h; exact Or.inl ⟨rfl, h.symm, hk⟩
    · have : (l.set k a)[k]? = none := List.getElem?_eq_none_iff.mpr (by simp; omega)
      rw [this] at h; cases h
  · rw [List.getElem?_set_ne e] at h; exact Or.inr ⟨fun x => e x.symm, h⟩

theorem rStepLocal_ctxs {ro : Bool} {side : Bool → Side} {free : Bool → Bool} {r r' : Reader}
    {eff : LockEff} {ret : Option Ret} (h : rStepLocal ro side free r = some (r', eff, ret))
    (hg : GloOk side r) : ∀ k c', r'.ctxs[k]? = some c' → CtxStep side r k c' := by
  unfold rStepLocal at h
  unfold GloOk at hg
  repeat' split at h
  all_goals first
    | contradiction
    | (simp only [Option.some.injEq, Prod.mk.injEq] at h
       obtain ⟨rfl, rfl, rfl⟩ := h
       intro k c' hk
       first
         | exact CtxStep.same hk
         | skip)
  done

end AranyaV.Shm
