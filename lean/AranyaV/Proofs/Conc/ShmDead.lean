import AranyaV.Proofs.Conc.ShmReader
/-!
Invariants behind C40 / C41: ids are pairwise distinct in every produced table (`NInv`); every
context's cached channel is in the produced table of its cached generation (`RInv`); ids whose
removal has returned are in no list a reader can inspect, and every context about them has a
stale generation (`DInv`); an operation that started on a dead id can only fail (`UInv`).
-/
namespace AranyaV.Shm

/-! ## frame facts about writer steps -/

theorem applyM_gen_mono {cap : Nat} {m : MOp} {sd sd' : Side} (h : applyM cap m sd = some sd') :
    sd.gen ≤ sd'.gen := by
  cases m with
  | genInc => simp [applyM] at h; subst h; simp
  | pushAt i c =>
    simp only [applyM] at h
    split at h
    · injection h with h; subst h; simp
    · cases h
  | swapRm i =>
    simp only [applyM] at h
    split at h
    · injection h with h; subst h; simp
    · cases h
  | clear => simp [applyM] at h; subst h; simp

theorem histAfter_ext (cap : Nat) (hist : List (List Chan)) (prog : List MOp) (sd : Side) :
    ∃ ext, histAfter cap hist prog sd = hist ++ ext := by
  unfold histAfter
  split
  · exact ⟨[], by simp⟩
  · split
    · exact ⟨_, rfl⟩
    · exact ⟨[], by simp⟩

structure WFrame (s s' : State) : Prop where
  rs : s'.rs = s.rs
  side : ∀ x, s.w.holds ≠ some x → s'.side x = s.side x
  gen : ∀ x, (s.side x).gen ≤ (s'.side x).gen
  hist : ∃ ext, s'.hist = s.hist ++ ext
  dead : ∃ ext, s'.dead = s.dead ++ ext
  nextId : s.nextId ≤ s'.nextId

theorem wStep_frame {s s' : State} {ret : Option Ret} (h : wStep s = some (s', ret)) : WFrame s s' := by
  unfold wStep at h
  split at h
  · cases h
  · injection h with h; injection h with h _; subst h
    exact ⟨rfl, fun _ _ => rfl, fun _ => Nat.le_refl _, ⟨[], by simp⟩, ⟨[], by simp⟩, by simp⟩
  · injection h with h; injection h with h _; subst h
    exact ⟨rfl, fun _ _ => rfl, fun _ => Nat.le_refl _, ⟨[], by simp⟩, ⟨[], by simp⟩, by simp⟩
  · split at h
    · cases h
    · injection h with h; injection h with h _; subst h
      refine ⟨by simp [lock1], fun _ _ => by simp [lock1], fun _ => by simp [lock1], ?_, ⟨[], by simp [lock1]⟩, by simp [lock1]⟩
      simpa [lock1] using histAfter_ext _ _ _ _
  · rename_i w m rest nx r g0 hw
    injection h with h; injection h with h _; subst h
    unfold muStep
    split
    · rename_i sd' hsd
      refine ⟨by simp, ?_, ?_, ⟨[], by simp⟩, ⟨[], by simp⟩, by simp⟩
      · intro x hx
        have : x ≠ w := by intro e; subst e; exact hx (by simp [hw, WPc.holds])
        simp [side_setSide, this]
      · intro x
        simp only [side_setW, side_setSide]
        split
        · rename_i e; subst e; exact applyM_gen_mono hsd
        · exact Nat.le_refl _
    · exact ⟨by simp, fun _ _ => by simp, fun _ => by simp, ⟨[], by simp⟩, ⟨[], by simp⟩, by simp⟩
  · rename_i w nx r g0 hw
    injection h with h
    cases nx <;> (simp only [unlock1, Prod.mk.injEq] at h; obtain ⟨rfl, _⟩ := h
                  exact ⟨by simp, fun _ _ => by simp, fun _ => by simp, ⟨[], by simp⟩, ⟨[], by simp⟩, by simp⟩)
  · injection h with h; injection h with h _; subst h
    exact ⟨by simp [swapOff], fun _ _ => by simp [swapOff], fun _ => by simp [swapOff], ⟨[], by simp [swapOff]⟩,
      ⟨[], by simp [swapOff]⟩, by simp [swapOff]⟩
  · split at h
    · cases h
    · injection h with h; injection h with h _; subst h
      exact ⟨by simp [lock2], fun _ _ => by simp [lock2], fun _ => by simp [lock2], ⟨[], by simp [lock2]⟩,
        ⟨[], by simp [lock2]⟩, by simp [lock2]⟩
  · rename_i r m rest rt g0 hw
    injection h with h; injection h with h _; subst h
    unfold muStep
    split
    · rename_i sd' hsd
      refine ⟨by simp, ?_, ?_, ⟨[], by simp⟩, ⟨[], by simp⟩, by simp⟩
      · intro x hx
        have : x ≠ r := by intro e; subst e; exact hx (by simp [hw, WPc.holds])
        simp [side_setSide, this]
      · intro x
        simp only [side_setW, side_setSide]
        split
        · rename_i e; subst e; exact applyM_gen_mono hsd
        · exact Nat.le_refl _
    · exact ⟨by simp, fun _ _ => by simp, fun _ => by simp, ⟨[], by simp⟩, ⟨[], by simp⟩, by simp⟩
  · injection h with h; injection h with h _; subst h
    exact ⟨by simp, fun _ _ => by simp, fun _ => by simp, ⟨[], by simp⟩, ⟨[], by simp⟩, by simp⟩
  · injection h with h; injection h with h _; subst h
    exact ⟨by simp [storeOff], fun _ _ => by simp [storeOff], fun _ => by simp [storeOff], ⟨[], by simp [storeOff]⟩,
      ⟨_, by simp [storeOff]; rfl⟩, by simp [storeOff]⟩

/-- a writer step either leaves both lists alone or keeps holding what it held -/
theorem wStep_side_or_holds {s s' : State} {ret : Option Ret} (h : wStep s = some (s', ret)) :
    (∀ x, s'.side x = s.side x) ∨ s'.w.holds = s.w.holds := by
  unfold wStep at h
  split at h
  · cases h
  · injection h with h; injection h with h _; subst h; exact Or.inl fun _ => rfl
  · injection h with h; injection h with h _; subst h; exact Or.inl fun _ => rfl
  · split at h
    · cases h
    · injection h with h; injection h with h _; subst h; exact Or.inl fun _ => by simp [lock1]
  · rename_i w m rest nx r g0 hw
    injection h with h; injection h with h _; subst h
    unfold muStep; split
    · exact Or.inr (by simp [hw, WPc.holds])
    · exact Or.inl fun _ => by simp
  · rename_i w nx r g0 hw
    injection h with h
    cases nx <;> (simp only [unlock1, Prod.mk.injEq] at h; obtain ⟨rfl, _⟩ := h
                  exact Or.inl fun _ => by simp)
  · injection h with h; injection h with h _; subst h; exact Or.inl fun _ => by simp [swapOff]
  · split at h
    · cases h
    · injection h with h; injection h with h _; subst h; exact Or.inl fun _ => by simp [lock2]
  · rename_i r m rest rt g0 hw
    injection h with h; injection h with h _; subst h
    unfold muStep; split
    · exact Or.inr (by simp [hw, WPc.holds])
    · exact Or.inl fun _ => by simp
  · injection h with h; injection h with h _; subst h; exact Or.inl fun _ => by simp
  · injection h with h; injection h with h _; subst h; exact Or.inl fun _ => by simp [storeOff]

/-- a list the writer has just released is the newest produced table -/
theorem wStep_released_top {s s' : State} {ret : Option Ret} (hT : TInv s)
    (h : wStep s = some (s', ret)) {x : Bool} (h1 : s.w.holds = some x) (h2 : s'.w.holds ≠ some x) :
    s.side x = top s.hist := by
  obtain ⟨_, _, hq⟩ := hT
  cases hpc : s.w with
  | mu1 w todo nx r g0 =>
    rw [hpc] at hq h1
    simp only [WPc.holds, Option.some.injEq] at h1; subst h1
    cases todo with
    | nil =>
      cases nx with
      | none => exact hq.1 w
      | some p2 => simpa [runProg] using hq.2.2.1
    | cons m rest =>
      exfalso
      simp only [wStep, hpc] at h
      injection h with h; injection h with h _; subst h
      apply h2; unfold muStep; split <;> simp [WPc.holds]
  | mu2 r todo rt g0 =>
    rw [hpc] at hq h1
    simp only [WPc.holds, Option.some.injEq] at h1; subst h1
    cases todo with
    | nil => simpa [runProg] using hq.2.2.2.1
    | cons m rest =>
      exfalso
      simp only [wStep, hpc] at h
      injection h with h; injection h with h _; subst h
      apply h2; unfold muStep; split <;> simp [WPc.holds]
  | _ => rw [hpc] at h1; simp [WPc.holds] at h1

/-! ## distinct ids -/

def NInv (s : State) : Prop := ∀ l ∈ s.hist, (ids l).Nodup

theorem ninv_init (cap n : Nat) : NInv (init cap n) := by
  intro l hl; simp [init] at hl; subst hl; simp [ids]

theorem top_mem (hist : List (List Chan)) (hh : hist ≠ []) : (top hist).chans ∈ hist :=
  List.mem_of_getElem? (hist_top_get hist hh)

/-- the produced table of a planned operation, in terms of the newest table -/
theorem lock1_hist {s : State} {op : WOp} {w : Bool} (hT : TInv s) (hId : IdInv s) (hN : NInv s)
    (hw : s.w = .lk1 op w) {l : List Chan} (hl : l ∈ (lock1 s op w).hist) :
    l ∈ s.hist ∨ ∃ sd', runProg s.cap (plan s.cap op (top s.hist)).1 (top s.hist) = some sd' ∧
      l = sd'.chans ∧ (ids sd'.chans).Nodup := by
  obtain ⟨_, hh, hq⟩ := hT
  rw [hw] at hq
  have htop : s.side w = top s.hist := hq.1 w
  simp only [lock1, hist_setW, hist_setHist] at hl
  rcases histAfter_mem hl with hl | ⟨sd', hrun, rfl⟩
  · exact Or.inl hl
  · rw [htop] at hrun
    refine Or.inr ⟨sd', hrun, rfl, ?_⟩
    refine (plan_spec s.cap op _ sd' (hN _ (top_mem _ hh)) ?_ hrun).1
    intro c hc; subst hc
    intro hmem
    obtain ⟨c', hc', hid⟩ := List.mem_map.mp hmem
    have := (hId.2.1 c.id (by rw [hw]; rfl)).2 _ (top_mem _ hh) c' hc'
    omega

theorem wStep_ninv {s s' : State} {ret : Option Ret} (hT : TInv s) (hId : IdInv s) (hN : NInv s)
    (h : wStep s = some (s', ret)) : NInv s' := by
  by_cases hlk : ∃ op w, s.w = .lk1 op w
  · obtain ⟨op, w, hw⟩ := hlk
    simp only [wStep, hw] at h
    split at h
    · cases h
    · injection h with h; injection h with h _; subst h
      intro l hl
      rcases lock1_hist hT hId hN hw hl with hl | ⟨sd', _, rfl, hn⟩
      · exact hN l hl
      · exact hn
  · -- every other step leaves `hist` alone
    have hhist : s'.hist = s.hist := by
      unfold wStep at h
      split at h
      · cases h
      · injection h with h; injection h with h _; subst h; rfl
      · injection h with h; injection h with h _; subst h; rfl
      · rename_i op w hw; exact absurd ⟨op, w, hw⟩ hlk
      · injection h with h; injection h with h _; subst h; unfold muStep; split <;> simp
      · rename_i w nx r g0 hw
        injection h with h
        cases nx <;> (simp only [unlock1, Prod.mk.injEq] at h; obtain ⟨rfl, _⟩ := h; simp)
      · injection h with h; injection h with h _; subst h; simp [swapOff]
      · split at h
        · cases h
        · injection h with h; injection h with h _; subst h; simp [lock2]
      · injection h with h; injection h with h _; subst h; unfold muStep; split <;> simp
      · injection h with h; injection h with h _; subst h; simp
      · injection h with h; injection h with h _; subst h; simp [storeOff]
    intro l hl; rw [hhist] at hl; exact hN l hl

theorem ninv_of_tab {s s' : State} (h : s'.tab = s.tab) (hI : NInv s) : NInv s' := by
  have h5 : s'.hist = s.hist := congrArg Tab.hist h
  unfold NInv; rw [h5]; exact hI

theorem reachable_ninv {cap n : Nat} {s : State} (h : Reachable cap n s) : NInv s :=
  reachable_ind (ninv_init cap n)
    (fun s s' rq _ ih h => by
      unfold wBegin at h; split at h
      · injection h with h; subst h; exact ih
      · cases h)
    (fun _ _ _ hr ih h => wStep_ninv (reachable_tinv hr) (reachable_idinv hr) ih h)
    (fun _ _ _ _ _ _ ih h => ninv_of_tab (rBegin_tab h) ih)
    (fun _ _ _ _ _ ih h => ninv_of_tab (rStep_tab h) ih) h

end AranyaV.Shm
