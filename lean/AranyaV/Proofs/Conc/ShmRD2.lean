import AranyaV.Proofs.Conc.ShmRD
/-!
Reader actions preserve `RDInv`; `RDInv` along `Reachable`.
-/
namespace AranyaV.Shm

theorem applyLock_side (s : State) (i : Nat) (e : LockEff) : (applyLock s i e).side = s.side := by
  cases e <;> simp [applyLock]

theorem applyLock_hist (s : State) (i : Nat) (e : LockEff) : (applyLock s i e).hist = s.hist := by
  cases e <;> simp [applyLock]

theorem applyLock_dead (s : State) (i : Nat) (e : LockEff) : (applyLock s i e).dead = s.dead := by
  cases e <;> simp [applyLock]

theorem getElem?_set_of_some {α : Type} {l : List α} {i j : Nat} {a b a' : α} (hi : l[i]? = some b)
    (h : (l.set i a)[j]? = some a') : (j = i ∧ a' = a) ∨ (j ≠ i ∧ l[j]? = some a') := by
  rcases getElem?_set_cases h with ⟨h1, h2, _⟩ | h3
  · exact Or.inl ⟨h1, h2⟩
  · exact Or.inr h3

theorem rBegin_rdinv {s s' : State} {i : Nat} {op : ROp} {ret : Option Ret} (hI : RDInv s)
    (h : rBegin s i op = some (s', ret)) : RDInv s' := by
  unfold rBegin at h
  split at h
  · cases h
  · rename_i r hr
    split at h
    · cases h
    · rename_i r' rt hloc
      injection h with h; injection h with h _; subst h
      obtain ⟨hctxs, hd0, hpc⟩ := rBeginLocal_spec hloc
      have hidle : r.pc = .idle := by
        unfold rBeginLocal at hloc; split at hloc
        · assumption
        · cases hloc
      -- every reader of the new state is an old reader, or `r'`
      have hcase : ∀ (j : Nat) (q : Reader), (s.rs.set i r')[j]? = some q → (j = i ∧ q = r') ∨ s.rs[j]? = some q := by
        intro j q hq
        rcases getElem?_set_of_some hr hq with ⟨h1, h2⟩ | ⟨_, h3⟩
        · exact Or.inl ⟨h1, h2⟩
        · exact Or.inr h3
      refine ⟨?_, ?_, by simpa using hI.dhist, by simpa using hI.dtop, by simpa using hI.drest, ?_, ?_⟩
      · intro j q k c hq hc
        simp only [rs_setRs, hist_setRs] at hq ⊢
        rcases hcase j q hq with ⟨rfl, rfl⟩ | hq'
        · rw [hctxs] at hc; exact hI.ctx j r k c hr hc
        · exact hI.ctx j q k c hq' hc
      · intro j q hq
        simp only [rs_setRs, sideF_setRs] at hq ⊢
        rcases hcase j q hq with ⟨rfl, rfl⟩ | hq'
        · unfold GloOk; rcases hpc with ⟨h1, _⟩ | ⟨h1, _⟩ <;> simp [h1]
        · exact hI.glo j q hq'
      · intro x hx j q k c hq hc hid sd
        simp only [rs_setRs, dead_setRs, side_setRs] at hq hx ⊢
        rcases hcase j q hq with ⟨rfl, rfl⟩ | hq'
        · rw [hctxs] at hc; exact hI.dctx x hx j r k c hr hc hid sd
        · exact hI.dctx x hx j q k c hq' hc hid sd
      · intro j q hq hd
        simp only [rs_setRs, dead_setRs] at hq ⊢
        rcases hcase j q hq with ⟨rfl, rfl⟩ | hq'
        · rcases hpc with ⟨h1, _⟩ | ⟨h1, _⟩
          · right
            rw [hd0] at hd
            unfold deadAtBegin at hd
            split at hd
            · rename_i x hx
              refine ⟨x, by simpa using hd, ?_⟩
              simp only [DeadPcOk, h1, hctxs]; exact hx
            · cases hd
          · exact Or.inl h1
        · exact hI.dpc j q hq' hd

theorem rStep_rdinv {s s' : State} {i : Nat} {ret : Option Ret} (hT : TInv s) (hL : LInv s)
    (hI : RDInv s) (h : rStep s i = some (s', ret)) : RDInv s' := by
  unfold rStep at h
  split at h
  · cases h
  · rename_i r hr
    split at h
    · cases h
    · rename_i r' eff rt hloc
      injection h with h; injection h with h _; subst h
      have hglo := hI.glo i r hr
      have hcs := rStepLocal_ctxs hloc hglo
      have hglo' := rStepLocal_glo hloc
      have hd0 := rStepLocal_dead0 hloc
      -- the list the reader holds is at rest and is the produced table of its generation
      have hheld : ∀ sd, r.pc.holds = some sd → s.w.holds ≠ some sd := by
        intro sd hsd hw
        have h1 := hL.1 sd hw
        have h2 := hL.2 i r sd hr hsd
        rw [h1] at h2; injection h2 with h2; omega
      have hfree : ∀ sd, (s.holder sd).isNone = true → s.w.holds ≠ some sd := by
        intro sd hsd hw
        have h1 := hL.1 sd hw
        rw [h1] at hsd; cases hsd
      have hcase : ∀ (j : Nat) (q : Reader), (s.rs.set i r')[j]? = some q → (j = i ∧ q = r') ∨ (j ≠ i ∧ s.rs[j]? = some q) := by
        intro j q hq
        exact getElem?_set_of_some hr hq
      -- what a context of r' is
      have hctx' : ∀ (k : Nat) (c' : Ctx), r'.ctxs[k]? = some c' → CtxOk s.hist c' ∧ LogOk c' ∧
          (∀ x ∈ s.dead, c'.id = x → ∀ sd, c'.gen < (s.side sd).gen) := by
        intro k c' hc'
        have fresh_ok : ∀ sd (ch : Chan), r.pc.holds = some sd → ch ∈ (s.side sd).chans →
            (∃ l, s.hist[(s.side sd).gen]? = some l ∧ ch ∈ l) ∧ ∀ x ∈ s.dead, ch.id ≠ x := by
          intro sd ch hsd hch
          have hrest := (rest_hist_of_tinv hT (hheld sd hsd)).1
          refine ⟨⟨_, hrest, hch⟩, ?_⟩
          intro x hx e
          exact hI.drest x hx sd (hheld sd hsd) (e ▸ List.mem_map_of_mem (f := Chan.id) hch)
        cases hcs k c' hc' with
        | same h0 =>
          obtain ⟨h1, h2⟩ := hI.ctx i r k c' hr h0
          exact ⟨h1, h2, fun x hx e sd => hI.dctx x hx i r k c' hr h0 e sd⟩
        | hit c h0 e =>
          obtain ⟨h1, h2⟩ := hI.ctx i r k c hr h0
          subst e
          refine ⟨h1, ?_, fun x hx e sd => hI.dctx x hx i r k c hr h0 e sd⟩
          simp only [LogOk, Ctx.sealed] at h2 ⊢
          rw [h2, List.range_succ]
        | expire c h0 e =>
          obtain ⟨h1, h2⟩ := hI.ctx i r k c hr h0
          subst e
          exact ⟨h1, h2, fun x hx e sd => hI.dctx x hx i r k c hr h0 e sd⟩
        | fresh sd ch idx isSeal hsd h0 hch e =>
          obtain ⟨⟨l, hl, hm⟩, hnd⟩ := fresh_ok sd ch hsd hch
          subst e
          refine ⟨⟨l, hl, hm, rfl⟩, by simp [LogOk, newCtx], ?_⟩
          intro x hx e; exact absurd e (hnd x hx)
        | miss sd ch idx c hsd h0 hch hid e =>
          obtain ⟨⟨l, hl, hm⟩, hnd⟩ := fresh_ok sd ch hsd hch
          obtain ⟨_, h2⟩ := hI.ctx i r k c hr h0
          subst e
          refine ⟨⟨l, hl, hm, by simpa [Ctx.sealed] using hid⟩, ?_, ?_⟩
          · simp only [LogOk, Ctx.sealed] at h2 ⊢
            rw [h2, List.range_succ]
          · intro x hx e
            simp only [Ctx.sealed] at e
            exact absurd (hid.trans e) (hnd x hx)
        | reopen sd ch idx c hsd h0 hch hid e =>
          obtain ⟨⟨l, hl, hm⟩, hnd⟩ := fresh_ok sd ch hsd hch
          obtain ⟨_, h2⟩ := hI.ctx i r k c hr h0
          subst e
          refine ⟨⟨l, hl, hm, hid⟩, h2, ?_⟩
          intro x hx e
          exact absurd (hid.trans e) (hnd x hx)
      refine ⟨?_, ?_, ?_, ?_, ?_, ?_, ?_⟩
      · intro j q k c hq hc
        rw [applyLock_rs] at hq; rw [applyLock_hist]
        simp only [rs_setRs, hist_setRs] at hq ⊢
        rcases hcase j q hq with ⟨rfl, rfl⟩ | ⟨_, hq'⟩
        · have := hctx' k c hc; exact ⟨this.1, this.2.1⟩
        · exact hI.ctx j q k c hq' hc
      · intro j q hq
        rw [applyLock_rs] at hq; rw [applyLock_side]
        simp only [rs_setRs, sideF_setRs] at hq ⊢
        rcases hcase j q hq with ⟨rfl, rfl⟩ | ⟨_, hq'⟩
        · exact hglo'
        · exact hI.glo j q hq'
      · intro x hx; rw [applyLock_dead] at hx; rw [applyLock_hist]; simpa using hI.dhist x (by simpa using hx)
      · intro x hx; rw [applyLock_dead] at hx; rw [applyLock_hist]; simpa using hI.dtop x (by simpa using hx)
      · intro x hx sd hsd
        rw [applyLock_dead] at hx; rw [applyLock_w] at hsd; rw [applyLock_side]
        simpa using hI.drest x (by simpa using hx) sd (by simpa using hsd)
      · intro x hx j q k c hq hc hid sd
        rw [applyLock_dead] at hx; rw [applyLock_rs] at hq; rw [applyLock_side]
        simp only [rs_setRs, dead_setRs, sideF_setRs] at hq hx ⊢
        rcases hcase j q hq with ⟨rfl, rfl⟩ | ⟨_, hq'⟩
        · exact (hctx' k c hc).2.2 x hx hid sd
        · exact hI.dctx x hx j q k c hq' hc hid sd
      · intro j q hq hd
        rw [applyLock_rs] at hq; rw [applyLock_dead]
        simp only [rs_setRs, dead_setRs] at hq ⊢
        rcases hcase j q hq with ⟨rfl, rfl⟩ | ⟨_, hq'⟩
        · rw [hd0] at hd
          rcases hI.dpc j r hr hd with h0 | ⟨x, hx, hok⟩
          · exfalso; simp [rStepLocal, h0] at hloc
          · right
            refine ⟨x, hx, (rStepLocal_dead hloc hok ?_ ?_).1⟩
            · intro sd hsd
              rcases hsd with hsd | hsd
              · exact hI.drest x hx sd (hfree sd hsd)
              · exact hI.drest x hx sd (hheld sd hsd)
            · intro k c hc hid sd
              exact hI.dctx x hx j r k c hr hc hid sd
        · exact hI.dpc j q hq' hd

theorem reachable_rdinv {cap n : Nat} {s : State} (h : Reachable cap n s) : RDInv s :=
  reachable_ind (rdinv_init cap n) (fun _ _ _ _ ih h => wBegin_rdinv ih h)
    (fun _ _ _ hr ih h => wStep_rdinv (reachable_tinv hr) (reachable_linv hr) (reachable_idinv hr) ih h)
    (fun _ _ _ _ _ _ ih h => rBegin_rdinv ih h)
    (fun _ _ _ _ hr ih h => rStep_rdinv (reachable_tinv hr) (reachable_linv hr) ih h) h

end AranyaV.Shm
