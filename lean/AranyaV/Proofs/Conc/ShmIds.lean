import AranyaV.Proofs.Conc.ShmLock
/-!
Id / capacity invariant of `AranyaV.Shm`: every channel id that ever was in a table is below
`next_chan_id`; the id of an `add` in flight is above all of them; tables never exceed `cap`.
-/
namespace AranyaV.Shm

theorem swapRemove_mem {l : List Chan} {i : Nat} {c : Chan} (h : c ∈ swapRemove l i) : c ∈ l := by
  unfold swapRemove at h
  split at h
  · exact List.mem_of_mem_take h
  · rename_i z hz
    rw [List.mem_append, List.mem_cons] at h
    rcases h with h | h | h
    · exact List.mem_of_mem_take h
    · subst h; exact List.mem_of_mem_drop (List.mem_of_getLast? hz)
    · exact List.mem_of_mem_drop (List.dropLast_subset _ h)

theorem swapRemove_length (l : List Chan) (i : Nat) : (swapRemove l i).length ≤ l.length := by
  unfold swapRemove
  split
  · simp [List.length_take]; omega
  · rename_i z hz
    have hne : l.drop (i + 1) ≠ [] := by
      intro h0; rw [h0] at hz; cases hz
    have : 0 < (l.drop (i + 1)).length := List.length_pos_iff.mpr hne
    simp only [List.length_drop] at this
    simp [List.length_take, List.length_dropLast, List.length_drop]; omega

/-- channels a program can add -/
def pushes : List MOp → List Chan
  | [] => []
  | .pushAt _ c :: ms => c :: pushes ms
  | _ :: ms => pushes ms

theorem applyM_mem {cap : Nat} {m : MOp} {sd sd' : Side} (h : applyM cap m sd = some sd') {c : Chan}
    (hc : c ∈ sd'.chans) : c ∈ sd.chans ∨ c ∈ pushes [m] := by
  cases m with
  | genInc => simp [applyM] at h; subst h; exact Or.inl hc
  | pushAt idx c' =>
    simp only [applyM] at h
    split at h
    · injection h with h; subst h
      simp only [List.mem_append, List.mem_singleton] at hc
      rcases hc with hc | hc
      · exact Or.inl hc
      · subst hc; exact Or.inr (by simp [pushes])
    · cases h
  | swapRm idx =>
    simp only [applyM] at h
    split at h
    · injection h with h; subst h; exact Or.inl (swapRemove_mem hc)
    · cases h
  | clear => simp [applyM] at h; subst h; simp at hc

theorem applyM_len {cap : Nat} {m : MOp} {sd sd' : Side} (h : applyM cap m sd = some sd')
    (hl : sd.chans.length ≤ cap) : sd'.chans.length ≤ cap := by
  cases m with
  | genInc => simp [applyM] at h; subst h; exact hl
  | pushAt idx c' =>
    simp only [applyM] at h
    split at h
    · rename_i hh
      injection h with h; subst h
      simp only [List.length_append, List.length_singleton]; omega
    · cases h
  | swapRm idx =>
    simp only [applyM] at h
    split at h
    · injection h with h; subst h
      have := swapRemove_length sd.chans idx
      simp only; omega
    · cases h
  | clear => simp [applyM] at h; subst h; simp

theorem pushes_cons (m : MOp) (ms : List MOp) : pushes (m :: ms) = pushes [m] ++ pushes ms := by
  cases m <;> simp [pushes]

theorem runProg_mem {cap : Nat} {prog : List MOp} {sd sd' : Side} (h : runProg cap prog sd = some sd')
    {c : Chan} (hc : c ∈ sd'.chans) : c ∈ sd.chans ∨ c ∈ pushes prog := by
  induction prog generalizing sd with
  | nil => simp [runProg] at h; subst h; exact Or.inl hc
  | cons m ms ih =>
    obtain ⟨sd1, h1, h2⟩ := runProg_cons_some h
    rw [pushes_cons, List.mem_append]
    rcases ih h2 with h3 | h3
    · rcases applyM_mem h1 h3 with h4 | h4
      · exact Or.inl h4
      · exact Or.inr (Or.inl h4)
    · exact Or.inr (Or.inr h3)

theorem runProg_len {cap : Nat} {prog : List MOp} {sd sd' : Side} (h : runProg cap prog sd = some sd')
    (hl : sd.chans.length ≤ cap) : sd'.chans.length ≤ cap := by
  induction prog generalizing sd with
  | nil => simp [runProg] at h; subst h; exact hl
  | cons m ms ih =>
    obtain ⟨sd1, h1, h2⟩ := runProg_cons_some h
    exact ih h2 (applyM_len h1 hl)

theorem pushes_map_swapRm (is : List Nat) : pushes (is.map .swapRm) = [] := by
  induction is with
  | nil => rfl
  | cons i is ih => simp [pushes, ih]

/-- the only channel a planned program adds is the one of the `add` -/
theorem plan_pushes (cap : Nat) (op : WOp) (sd : Side) {c : Chan}
    (h : c ∈ pushes (plan cap op sd).1) : op = .add c := by
  cases op with
  | add c' =>
    simp only [plan] at h
    split at h
    · simp [pushes] at h
    · simp [pushes] at h; subst h; rfl
  | remove x =>
    simp only [plan] at h
    split at h <;> simp [pushes] at h
  | removeAll => simp [plan, pushes] at h
  | removeIf p =>
    simp only [plan] at h
    split at h
    · simp [pushes] at h
    · simp only [rifProg] at h
      split at h
      · simp [pushes] at h
      · simp [pushes, pushes_map_swapRm] at h
  | exists_ x => simp [plan, pushes] at h

theorem histAfter_mem {cap : Nat} {hist : List (List Chan)} {prog : List MOp} {sd : Side}
    {l : List Chan} (h : l ∈ histAfter cap hist prog sd) :
    l ∈ hist ∨ ∃ sd', runProg cap prog sd = some sd' ∧ l = sd'.chans := by
  unfold histAfter at h
  split at h
  · exact Or.inl h
  · split at h
    · rename_i sd' hs
      rw [List.mem_append, List.mem_singleton] at h
      rcases h with h | h
      · exact Or.inl h
      · exact Or.inr ⟨sd', hs, h⟩
    · exact Or.inl h

/-- id of an `add` whose channel is not in a table yet -/
def pendingId : WPc → Option Nat
  | .ldW (.add c) => some c.id
  | .lk1 (.add c) _ => some c.id
  | _ => none

def IdInv (s : State) : Prop :=
  (∀ l ∈ s.hist, ∀ c ∈ l, c.id < s.nextId) ∧
  (∀ x, pendingId s.w = some x → x < s.nextId ∧ ∀ l ∈ s.hist, ∀ c ∈ l, c.id < x) ∧
  (∀ l ∈ s.hist, l.length ≤ s.cap)

theorem idinv_init (cap n : Nat) : IdInv (init cap n) := by
  refine ⟨?_, ?_, ?_⟩ <;> simp [init, pendingId]

theorem idinv_of_tab {s s' : State} (h : s'.tab = s.tab) (hI : IdInv s) : IdInv s' := by
  have h1 : s'.nextId = s.nextId := congrArg Tab.nextId h
  have h3 : s'.cap = s.cap := congrArg Tab.cap h
  have h5 : s'.hist = s.hist := congrArg Tab.hist h
  have h6 : s'.w = s.w := congrArg Tab.w h
  unfold IdInv; rw [h1, h3, h5, h6]; exact hI

theorem wBegin_idinv {s s' : State} {rq : WReq} (hI : IdInv s) (h : wBegin s rq = some s') :
    IdInv s' := by
  unfold wBegin at h
  split at h
  · injection h with h; subst h
    obtain ⟨h1, _, h3⟩ := hI
    refine ⟨by simpa using h1, ?_, by simpa using h3⟩
    intro x hx
    cases rq <;> simp [WReq.begin, pendingId] at hx
  · cases h

theorem wStep_idinv {s s' : State} {ret : Option Ret} (hT : TInv s) (hI : IdInv s)
    (h : wStep s = some (s', ret)) : IdInv s' := by
  obtain ⟨h1, h2, h3⟩ := hI
  unfold wStep at h
  split at h
  · cases h
  · -- nid
    rename_i d p hw
    injection h with h; injection h with h _; subst h
    refine ⟨?_, ?_, by simpa using h3⟩
    · intro l hl c hc
      have := h1 l (by simpa using hl) c hc
      simp; omega
    · intro x hx
      simp [pendingId] at hx; subst hx
      exact ⟨by simp, fun l hl c hc => h1 l (by simpa using hl) c hc⟩
  · -- ldW
    rename_i op hw
    injection h with h; injection h with h _; subst h
    refine ⟨by simpa using h1, ?_, by simpa using h3⟩
    intro x hx
    have : pendingId s.w = some x := by
      rw [hw]; cases op <;> simp_all [pendingId]
    simpa using h2 x this
  · -- lk1
    rename_i op w hw
    split at h
    · cases h
    · injection h with h; injection h with h _; subst h
      obtain ⟨_, hh, hq⟩ := hT
      rw [hw] at hq
      have htop : s.side w = top s.hist := hq.1 w
      have hmemtop : (top s.hist).chans ∈ s.hist := by
        have := hist_top_get s.hist hh
        exact List.mem_of_getElem? this
      refine ⟨?_, ?_, ?_⟩
      · intro l hl c hc
        simp only [lock1, hist_setW, hist_setHist, nextId_setW, nextId_setHist, nextId_setHolder] at hl ⊢
        rcases histAfter_mem hl with hl | ⟨sd', hrun, rfl⟩
        · exact h1 l hl c hc
        · rcases runProg_mem hrun hc with hc | hc
          · rw [htop] at hc; exact h1 _ hmemtop c hc
          · have := plan_pushes _ _ _ hc
            subst this
            exact (h2 c.id (by rw [hw]; rfl)).1
      · intro x hx; simp [lock1, pendingId] at hx
      · intro l hl
        simp only [lock1, hist_setW, hist_setHist, cap_setW, cap_setHist, cap_setHolder] at hl ⊢
        rcases histAfter_mem hl with hl | ⟨sd', hrun, rfl⟩
        · exact h3 l hl
        · refine runProg_len hrun ?_
          rw [htop]; exact h3 _ hmemtop
  · rename_i w m rest nx r g0 hw
    injection h with h; injection h with h _; subst h
    unfold muStep
    split <;> exact ⟨by simpa using h1, by simp [pendingId], by simpa using h3⟩
  · rename_i w nx r g0 hw
    injection h with h
    cases nx <;> (simp only [unlock1, Prod.mk.injEq] at h; obtain ⟨rfl, _⟩ := h
                  exact ⟨by simpa using h1, by simp [pendingId], by simpa using h3⟩)
  · injection h with h; injection h with h _; subst h
    exact ⟨by simpa [swapOff] using h1, by simp [swapOff, pendingId], by simpa [swapOff] using h3⟩
  · split at h
    · cases h
    · injection h with h; injection h with h _; subst h
      exact ⟨by simpa [lock2] using h1, by simp [lock2, pendingId], by simpa [lock2] using h3⟩
  · injection h with h; injection h with h _; subst h
    unfold muStep
    split <;> exact ⟨by simpa using h1, by simp [pendingId], by simpa using h3⟩
  · injection h with h; injection h with h _; subst h
    exact ⟨by simpa using h1, by simp [pendingId], by simpa using h3⟩
  · injection h with h; injection h with h _; subst h
    exact ⟨by simpa [storeOff] using h1, by simp [storeOff, pendingId], by simpa [storeOff] using h3⟩

theorem reachable_idinv {cap n : Nat} {s : State} (h : Reachable cap n s) : IdInv s :=
  reachable_ind (idinv_init cap n) (fun _ _ _ _ ih h => wBegin_idinv ih h)
    (fun _ _ _ hr ih h => wStep_idinv (reachable_tinv hr) ih h)
    (fun _ _ _ _ _ _ ih h => idinv_of_tab (rBegin_tab h) ih)
    (fun _ _ _ _ _ ih h => idinv_of_tab (rStep_tab h) ih) h

/-- a list the writer does not hold holds the produced table that belongs to its generation -/
theorem rest_hist_of_tinv {s : State} (hT : TInv s) {x : Bool}
    (hx : s.w.holds ≠ some x) :
    s.hist[(s.side x).gen]? = some (s.side x).chans ∧ s.hist.length ≤ (s.side x).gen + 2 := by
  obtain ⟨_, hh, hq⟩ := hT
  have htop := hist_top_get s.hist hh
  have hlen : s.hist.length ≤ (top s.hist).gen + 2 := by simp only [top]; omega
  have other : ∀ {w : Bool}, w ≠ x → x = !w := by
    intro w hwx; cases w <;> cases x <;> simp_all
  cases hpc : s.w with
  | idle => rw [hpc] at hq; rw [hq.1 x]; exact ⟨htop, hlen⟩
  | nid d p => rw [hpc] at hq; rw [hq.1 x]; exact ⟨htop, hlen⟩
  | ldW op => rw [hpc] at hq; rw [hq.1 x]; exact ⟨htop, hlen⟩
  | lk1 op w => rw [hpc] at hq; rw [hq.1 x]; exact ⟨htop, hlen⟩
  | mu1 w todo nx r g0 =>
    rw [hpc] at hq hx
    cases nx with
    | none => rw [hq.1 x]; exact ⟨htop, hlen⟩
    | some p2 =>
      obtain ⟨_, _, _, pre, hpre, hget, _, hl⟩ := hq
      have : x = !w := other (by intro e; subst e; exact hx rfl)
      subst this; rw [hpre]; exact ⟨hget, hl⟩
  | sw w p2 r g0 =>
    rw [hpc] at hq
    obtain ⟨_, _, hw, pre, hpre, hget, _, hl⟩ := hq
    by_cases e : w = x
    · subst e; rw [hw]; exact ⟨htop, hlen⟩
    · have := other e; subst this; rw [hpre]; exact ⟨hget, hl⟩
  | lk2 r p2 rt g0 =>
    rw [hpc] at hq
    obtain ⟨_, _, hw, pre, hpre, hget, _, hl⟩ := hq
    by_cases e : r = x
    · subst e; rw [hpre]; exact ⟨hget, hl⟩
    · have := other e; subst this; rw [hw]; exact ⟨htop, hlen⟩
  | mu2 r todo rt g0 =>
    rw [hpc] at hq hx
    obtain ⟨_, _, hw, _, _⟩ := hq
    have : x = !r := other (by intro e; subst e; exact hx rfl)
    subst this; rw [hw]; exact ⟨htop, hlen⟩
  | st r rt g0 =>
    rw [hpc] at hq
    obtain ⟨_, _, hw, hr, _⟩ := hq
    by_cases e : r = x
    · subst e; rw [hr]; exact ⟨htop, hlen⟩
    · have := other e; subst this; rw [hw]; exact ⟨htop, hlen⟩


end AranyaV.Shm
