import AranyaV.Model.Conc.Mutex
import AranyaV.Proofs.Conc.Count
/-!
Inductive invariant of the futex-mutex transition system (`AranyaV.Mutex`), stated with
counting functions over the thread list so that every preservation obligation is linear
arithmetic after one rewriting step.
-/
namespace AranyaV.Mutex

open AranyaV.Conc

/-! ## the predicates -/

/-- the thread owns the mutex: from the acquiring operation up to (not including) the
`swap(UNLOCKED)` of `sys_unlock` -/
def owns : Pc → Bool
  | .hold | .unlock => true
  | _ => false

/-- an awake thread that is bound to re-establish `key = SLEEPING` (or to wake a sleeper)
before it can block or release: an unlocker that observed `SLEEPING`, a released sleeper, any
thread past the spin phase, a spinner whose `wait` is `SLEEPING` -/
def carrier : Pc → Bool
  | .wake | .woken | .swap | .fwait => true
  | .load _ w | .cas _ w => w == 2
  | _ => false

/-- states that never occur: the `bug!` outcome, a `wait` value other than LOCKED/SLEEPING -/
def bad : Pc → Bool
  | .bug => true
  | .load _ w | .cas _ w => !(w == 1 || w == 2)
  | _ => false

/-- in the lock path, not yet holding -/
def waiting : Pc → Bool
  | .fast | .load _ _ | .cas _ _ | .swap | .fwait | .asleep | .woken => true
  | _ => false

def State.count (s : State) (f : Pc → Bool) : Nat := s.pcs.countP f

structure Inv (s : State) : Prop where
  key_le : s.key ≤ 2
  owners0 : s.key = 0 → s.count owns = 0
  owners1 : s.key ≠ 0 → s.count owns = 1
  no_bad : s.count bad = 0
  sleeper : 0 < s.count isAsleep → s.key = 2 ∨ 0 < s.count carrier

theorem sleepers_false_iff (s : State) : s.sleepers = false ↔ s.count isAsleep = 0 := by
  simp [State.sleepers, State.count, List.countP_eq_zero]

theorem sleepers_true_iff (s : State) : s.sleepers = true ↔ 0 < s.count isAsleep := by
  have := sleepers_false_iff s
  cases h : s.sleepers <;> simp [h] at this ⊢ <;> omega

theorem inv_init (n : Nat) : Inv (init n) := by
  constructor <;> simp [init, State.count, List.countP_replicate, owns, bad, isAsleep]

@[simp] theorem owns_spinAt (i w : Nat) : owns (spinAt i w) = false := by
  unfold spinAt; split <;> rfl
@[simp] theorem isAsleep_spinAt (i w : Nat) : isAsleep (spinAt i w) = false := by
  unfold spinAt; split <;> rfl
@[simp] theorem carrier_spinAt_two (i : Nat) : carrier (spinAt i 2) = true := by
  unfold spinAt; split <;> rfl
theorem bad_spinAt {i w : Nat} (h : w = 1 ∨ w = 2) : bad (spinAt i w) = false := by
  unfold spinAt; split <;> rcases h with h | h <;> simp [bad, h]

/-- closes one preservation case: `e1..e4` are the four counting equations, already
specialised to the concrete old and new pc -/
macro "mx_close" : tactic => `(tactic| (
  try simp only [owns_spinAt, isAsleep_spinAt, carrier_spinAt_two] at *
  constructor <;> simp_all [State.count, owns, bad, isAsleep, carrier] <;> omega))

/-- `run t` preserves the invariant -/
theorem inv_run {s : State} {t k : Nat} {p p' : Pc} (hI : Inv s) (hp : s.pcs[t]? = some p)
    (hr : runPc s.key s.sleepers p = some (k, p')) : Inv ⟨k, s.pcs.set t p'⟩ := by
  obtain ⟨h1, h2, h2', h3, h4⟩ := hI
  have e1 := countP_set owns p' hp
  have e2 := countP_set bad p' hp
  have e3 := countP_set isAsleep p' hp
  have e4 := countP_set carrier p' hp
  simp only [State.count] at h2 h2' h3 h4
  have hb : bad p = false := by
    cases hbp : bad p
    · rfl
    · have := countP_pos_of_get bad hp hbp; omega
  cases p with
  | idle =>
    simp [runPc] at hr; obtain ⟨rfl, rfl⟩ := hr
    mx_close
  | fast =>
    by_cases hk : s.key = 0
    · simp [runPc, hk] at hr; obtain ⟨rfl, rfl⟩ := hr
      mx_close
    · simp [runPc, hk] at hr; obtain ⟨rfl, rfl⟩ := hr
      have hk12 : s.key = 1 ∨ s.key = 2 := by omega
      have hbs := bad_spinAt (i := 0) hk12
      rw [hbs] at e2
      rcases hk12 with h | h
      · cases hc : carrier (spinAt 0 1) <;> (rw [h] at e4; rw [hc] at e4; mx_close)
      · rw [h] at e4; mx_close
  | load i w =>
    have hw : w = 1 ∨ w = 2 := by
      simp [bad] at hb; omega
    by_cases hk : s.key = 0
    · simp [runPc, hk] at hr; obtain ⟨rfl, rfl⟩ := hr
      rcases hw with rfl | rfl <;> mx_close
    · simp [runPc, hk] at hr; obtain ⟨rfl, rfl⟩ := hr
      have hbs := bad_spinAt (i := i + 1) hw
      rw [hbs] at e2
      rcases hw with rfl | rfl
      · cases hc : carrier (spinAt (i + 1) 1) <;> (rw [hc] at e4; mx_close)
      · mx_close
  | cas i w =>
    have hw : w = 1 ∨ w = 2 := by
      simp [bad] at hb; omega
    by_cases hk : s.key = 0
    · simp [runPc, hk] at hr; obtain ⟨rfl, rfl⟩ := hr
      rcases hw with rfl | rfl <;> mx_close
    · simp [runPc, hk] at hr; obtain ⟨rfl, rfl⟩ := hr
      rcases hw with rfl | rfl <;> mx_close
  | swap =>
    by_cases hk : s.key = 0
    · simp [runPc, hk] at hr; obtain ⟨rfl, rfl⟩ := hr
      mx_close
    · simp [runPc, hk] at hr; obtain ⟨rfl, rfl⟩ := hr
      mx_close
  | fwait =>
    by_cases hk : s.key = 2
    · simp [runPc, hk] at hr; obtain ⟨rfl, rfl⟩ := hr
      mx_close
    · simp [runPc, hk] at hr; obtain ⟨rfl, rfl⟩ := hr
      have hbs := bad_spinAt (i := 0) (w := 2) (Or.inr rfl)
      rw [hbs] at e2
      mx_close
  | asleep => simp [runPc] at hr
  | woken =>
    simp [runPc] at hr; obtain ⟨rfl, rfl⟩ := hr
    have hbs := bad_spinAt (i := 0) (w := 2) (Or.inr rfl)
    rw [hbs] at e2
    mx_close
  | hold =>
    simp [runPc] at hr; obtain ⟨rfl, rfl⟩ := hr
    mx_close
  | unlock =>
    have hpos := countP_pos_of_get owns hp rfl
    have hk0 : s.key ≠ 0 := by
      intro h0; have := h2 h0; omega
    by_cases hk2 : s.key = 2
    · simp [runPc, hk2] at hr; obtain ⟨rfl, rfl⟩ := hr
      mx_close
    · have hk1 : s.key = 1 := by omega
      simp [runPc, hk1] at hr; obtain ⟨rfl, rfl⟩ := hr
      mx_close
  | wake =>
    cases hs : s.sleepers
    · simp [runPc, hs] at hr; obtain ⟨rfl, rfl⟩ := hr
      have := (sleepers_false_iff s).mp hs
      simp only [State.count] at this
      mx_close
    · simp [runPc, hs] at hr
  | bug => simp [runPc] at hr

/-! ## the other two kinds of action -/

theorem inv_wakeOne {s : State} {t w : Nat} (hI : Inv s) (ht : s.pcs[t]? = some .wake)
    (hw : s.pcs[w]? = some .asleep) : Inv ⟨s.key, (s.pcs.set t .idle).set w .woken⟩ := by
  have htw : t ≠ w := by
    intro h; subst h; rw [ht] at hw; cases hw
  have hw' : (s.pcs.set t .idle)[w]? = some .asleep := by
    rw [get_set_ne _ htw]; exact hw
  obtain ⟨h1, h2, h2', h3, h4⟩ := hI
  have a1 := countP_set owns .idle ht
  have a2 := countP_set bad .idle ht
  have a3 := countP_set isAsleep .idle ht
  have a4 := countP_set carrier .idle ht
  have b1 := countP_set owns .woken hw'
  have b2 := countP_set bad .woken hw'
  have b3 := countP_set isAsleep .woken hw'
  have b4 := countP_set carrier .woken hw'
  simp only [State.count] at h2 h2' h3 h4
  simp [owns, bad, isAsleep, carrier] at a1 a2 a3 a4 b1 b2 b3 b4
  constructor <;> simp only [State.count] <;> omega

theorem inv_spur {s : State} {w : Nat} (hI : Inv s) (hw : s.pcs[w]? = some .asleep) :
    Inv ⟨s.key, s.pcs.set w .woken⟩ := by
  obtain ⟨h1, h2, h2', h3, h4⟩ := hI
  have b1 := countP_set owns .woken hw
  have b2 := countP_set bad .woken hw
  have b3 := countP_set isAsleep .woken hw
  have b4 := countP_set carrier .woken hw
  simp only [State.count] at h2 h2' h3 h4
  simp [owns, bad, isAsleep, carrier] at b1 b2 b3 b4
  constructor <;> simp only [State.count] <;> omega

theorem step_run {s : State} {t k : Nat} {p p' : Pc} (hp : s.pcs[t]? = some p)
    (hr : runPc s.key s.sleepers p = some (k, p')) :
    step s (.run t) = some ⟨k, s.pcs.set t p'⟩ := by
  simp [step, hp, hr]

theorem step_wakeOne {s : State} {t w : Nat} (ht : s.pcs[t]? = some .wake)
    (hw : s.pcs[w]? = some .asleep) :
    step s (.wakeOne t w) = some ⟨s.key, (s.pcs.set t .idle).set w .woken⟩ := by
  simp [step, ht, hw]

/-- every action preserves the invariant -/
theorem inv_step {s s' : State} {a : Act} (hI : Inv s) (h : step s a = some s') : Inv s' := by
  cases a with
  | run t =>
    simp only [step] at h
    cases hp : s.pcs[t]? with
    | none => simp [hp] at h
    | some p =>
      simp only [hp] at h
      cases hr : runPc s.key s.sleepers p with
      | none => simp [hr] at h
      | some kp =>
        obtain ⟨k, p'⟩ := kp
        simp only [hr, Option.some.injEq] at h
        subst h
        exact inv_run hI hp hr
  | wakeOne t w =>
    simp only [step] at h
    by_cases hc : s.pcs[t]? = some .wake ∧ s.pcs[w]? = some .asleep
    · rw [if_pos hc] at h
      simp only [Option.some.injEq] at h
      subst h
      exact inv_wakeOne hI hc.1 hc.2
    · rw [if_neg hc] at h; cases h
  | spur w =>
    simp only [step] at h
    by_cases hc : s.pcs[w]? = some .asleep
    · rw [if_pos hc] at h
      simp only [Option.some.injEq] at h
      subst h
      exact inv_spur hI hc
    · rw [if_neg hc] at h; cases h

/-- states reachable from `init n` by any schedule (including spurious wake-ups) -/
inductive Reachable (n : Nat) : State → Prop where
  | init : Reachable n (init n)
  | step {s s' : State} (a : Act) : Reachable n s → step s a = some s' → Reachable n s'

theorem inv_of_reachable {n : Nat} {s : State} (h : Reachable n s) : Inv s := by
  induction h with
  | init => exact inv_init n
  | step a _ hs ih => exact inv_step ih hs

theorem reachable_exec {n : Nat} {s s' : State} (h : Reachable n s) (acts : List Act)
    (he : exec s acts = some s') : Reachable n s' := by
  induction acts generalizing s with
  | nil => simp [exec] at he; subst he; exact h
  | cons a as ih =>
    simp only [exec] at he
    cases hs : step s a with
    | none => simp [hs] at he
    | some s1 =>
      simp only [hs] at he
      exact ih (Reachable.step a h hs) he

/-! ## progress: continuations without spurious wake-ups -/

/-- `s'` is reachable from `s` by a schedule that contains no spurious wake-up -/
def Steps (s s' : State) : Prop :=
  ∃ acts : List Act, (∀ a ∈ acts, a.isSpur = false) ∧ exec s acts = some s'

theorem Steps.refl (s : State) : Steps s s := ⟨[], by simp, rfl⟩

theorem exec_append {s s1 s2 : State} {as bs : List Act} (h1 : exec s as = some s1)
    (h2 : exec s1 bs = some s2) : exec s (as ++ bs) = some s2 := by
  induction as generalizing s with
  | nil => simp [exec] at h1; subst h1; simpa using h2
  | cons a as ih =>
    simp only [exec, List.cons_append] at h1 ⊢
    cases hs : step s a with
    | none => simp [hs] at h1
    | some s' =>
      simp only [hs] at h1 ⊢
      exact ih h1

theorem Steps.trans {s s1 s2 : State} (h1 : Steps s s1) (h2 : Steps s1 s2) : Steps s s2 := by
  obtain ⟨as, ha, ea⟩ := h1
  obtain ⟨bs, hb, eb⟩ := h2
  refine ⟨as ++ bs, ?_, exec_append ea eb⟩
  intro a hmem
  rcases List.mem_append.mp hmem with h | h
  · exact ha a h
  · exact hb a h

theorem Steps.one {s s' : State} {a : Act} (hs : a.isSpur = false) (h : step s a = some s') :
    Steps s s' :=
  ⟨[a], by simpa using hs, by simp [exec, h]⟩

theorem Steps.run {s : State} {t k : Nat} {p p' : Pc} (hp : s.pcs[t]? = some p)
    (hr : runPc s.key s.sleepers p = some (k, p')) : Steps s ⟨k, s.pcs.set t p'⟩ :=
  Steps.one rfl (step_run hp hr)

theorem exec_inv {s s' : State} {acts : List Act} (he : exec s acts = some s') (hI : Inv s) :
    Inv s' := by
  induction acts generalizing s with
  | nil => simp [exec] at he; subst he; exact hI
  | cons a as ih =>
    simp only [exec] at he
    cases hs : step s a with
    | none => simp [hs] at he
    | some s1 =>
      simp only [hs] at he
      exact ih he (inv_step hI hs)

theorem Steps.inv {s s' : State} (h : Steps s s') (hI : Inv s) : Inv s' := by
  obtain ⟨acts, _, he⟩ := h
  exact exec_inv he hI

/-- awake in the lock path -/
def awakeWaiting (p : Pc) : Bool := waiting p && !isAsleep p

/-- the value a successful acquisition from this pc leaves in the futex word -/
def waitOf : Pc → Nat
  | .fast => 1
  | .load _ w | .cas _ w => w
  | _ => 2

/-- with the mutex free, a thread about to `cas`/`swap`/fast-`cas` acquires in one step -/
theorem acquire_direct {s : State} {t : Nat} {p : Pc} (hk : s.key = 0) (hp : s.pcs[t]? = some p)
    (hd : p = .fast ∨ p = .swap ∨ ∃ i w, p = .cas i w) :
    Steps s ⟨waitOf p, s.pcs.set t .hold⟩ := by
  rcases hd with rfl | rfl | ⟨i, w, rfl⟩
  · exact Steps.run hp (by simp [runPc, hk, waitOf])
  · exact Steps.run hp (by simp [runPc, hk, waitOf])
  · exact Steps.run hp (by simp [runPc, hk, waitOf])

theorem acquire_load {s : State} {t i w : Nat} (hk : s.key = 0)
    (hp : s.pcs[t]? = some (.load i w)) : Steps s ⟨w, s.pcs.set t .hold⟩ := by
  have h1 : Steps s ⟨s.key, s.pcs.set t (.cas i w)⟩ := Steps.run hp (by simp [runPc, hk])
  have hp1 := get_set_self (.cas i w) hp
  have h2 := acquire_direct (s := ⟨s.key, s.pcs.set t (.cas i w)⟩) (t := t) hk hp1
    (Or.inr (Or.inr ⟨i, w, rfl⟩))
  simp only [List.set_set, waitOf] at h2
  exact h1.trans h2

theorem acquire_spinAt {s : State} {t i : Nat} (hk : s.key = 0)
    (hp : s.pcs[t]? = some (spinAt i 2)) : Steps s ⟨2, s.pcs.set t .hold⟩ := by
  unfold spinAt at hp
  split at hp
  · exact acquire_load hk hp
  · exact acquire_direct hk hp (Or.inr (Or.inl rfl))

/-- with the mutex free, any awake waiter can acquire by running alone; the word is left at
its `wait` value and no other thread moves -/
theorem acquire_free {s : State} {t : Nat} {p : Pc} (hk : s.key = 0) (hp : s.pcs[t]? = some p)
    (hw : awakeWaiting p = true) : Steps s ⟨waitOf p, s.pcs.set t .hold⟩ := by
  cases p with
  | fast => exact acquire_direct hk hp (Or.inl rfl)
  | swap => exact acquire_direct hk hp (Or.inr (Or.inl rfl))
  | cas i w => exact acquire_direct hk hp (Or.inr (Or.inr ⟨i, w, rfl⟩))
  | load i w => exact acquire_load hk hp
  | fwait =>
    have h1 : Steps s ⟨s.key, s.pcs.set t (spinAt 0 2)⟩ := Steps.run hp (by simp [runPc, hk])
    have h2 := acquire_spinAt (s := ⟨s.key, s.pcs.set t (spinAt 0 2)⟩) (t := t) (i := 0) hk
      (get_set_self _ hp)
    simp only [List.set_set] at h2
    exact h1.trans h2
  | woken =>
    have h1 : Steps s ⟨s.key, s.pcs.set t (spinAt 0 2)⟩ := Steps.run hp (by simp [runPc])
    have h2 := acquire_spinAt (s := ⟨s.key, s.pcs.set t (spinAt 0 2)⟩) (t := t) (i := 0) hk
      (get_set_self _ hp)
    simp only [List.set_set] at h2
    exact h1.trans h2
  | idle | asleep | hold | unlock | wake | bug => simp [awakeWaiting, waiting, isAsleep] at hw

/-- the owner, parked before `swap(UNLOCKED)`, completes `sys_unlock`; a given waiter `t`
is still a waiter afterwards (possibly released from the futex) -/
theorem release_from_unlock {s : State} {o t : Nat} {q : Pc} (hI : Inv s)
    (ho : s.pcs[o]? = some .unlock) (ht : s.pcs[t]? = some q) (hq : waiting q = true) :
    ∃ s', Steps s s' ∧ s'.key = 0 ∧ ∃ q', s'.pcs[t]? = some q' ∧ waiting q' = true := by
  have hot : o ≠ t := by
    intro h; subst h; rw [ho] at ht; cases ht; simp [waiting] at hq
  have hpos := countP_pos_of_get owns ho rfl
  have hk0 : s.key ≠ 0 := by
    intro h0; have := hI.owners0 h0; simp only [State.count] at this; omega
  have hk2 := hI.key_le
  by_cases hk : s.key = 2
  · -- observed SLEEPING: a wake follows
    have h1 : Steps s ⟨0, s.pcs.set o .wake⟩ := Steps.run ho (by simp [runPc, hk])
    have ho1 : (s.pcs.set o .wake)[o]? = some .wake := get_set_self _ ho
    have ht1 : (s.pcs.set o .wake)[t]? = some q := by rw [get_set_ne _ hot]; exact ht
    by_cases hqa : q = .asleep
    · subst hqa
      have h2 : Steps ⟨0, s.pcs.set o .wake⟩ ⟨0, ((s.pcs.set o .wake).set o .idle).set t .woken⟩ :=
        Steps.one rfl (step_wakeOne (s := ⟨0, s.pcs.set o .wake⟩) ho1 ht1)
      refine ⟨_, h1.trans h2, rfl, .woken, ?_, rfl⟩
      have : ((s.pcs.set o .wake).set o .idle)[t]? = some .asleep := by
        rw [get_set_ne _ hot]; exact ht1
      exact get_set_self _ this
    · cases hs : (State.sleepers ⟨0, s.pcs.set o .wake⟩)
      · have h2 : Steps ⟨0, s.pcs.set o .wake⟩ ⟨0, (s.pcs.set o .wake).set o .idle⟩ :=
          Steps.run (s := ⟨0, s.pcs.set o .wake⟩) ho1 (by simp [runPc, hs])
        refine ⟨_, h1.trans h2, rfl, q, ?_, hq⟩
        rw [get_set_ne _ hot]; exact ht1
      · have hc := (sleepers_true_iff _).mp hs
        obtain ⟨w, pw, hw, hpw⟩ := exists_get_of_countP_pos isAsleep hc
        have hpw' : pw = .asleep := by cases pw <;> simp [isAsleep] at hpw ⊢
        subst hpw'
        have hwt : w ≠ t := by
          intro h; subst h; simp only [] at hw; rw [ht1] at hw; cases hw; exact hqa rfl
        have h2 : Steps ⟨0, s.pcs.set o .wake⟩ ⟨0, ((s.pcs.set o .wake).set o .idle).set w .woken⟩ :=
          Steps.one rfl (step_wakeOne (s := ⟨0, s.pcs.set o .wake⟩) ho1 hw)
        refine ⟨_, h1.trans h2, rfl, q, ?_, hq⟩
        rw [get_set_ne _ hwt, get_set_ne _ hot]; exact ht1
  · have hk1 : s.key = 1 := by omega
    have h1 : Steps s ⟨0, s.pcs.set o .idle⟩ := Steps.run ho (by simp [runPc, hk1])
    refine ⟨_, h1, rfl, q, ?_, hq⟩
    rw [get_set_ne _ hot]; exact ht

/-- if the mutex is held, the owner can release it -/
theorem release {s : State} {t : Nat} {q : Pc} (hI : Inv s) (hk : s.key ≠ 0)
    (ht : s.pcs[t]? = some q) (hq : waiting q = true) :
    ∃ s', Steps s s' ∧ s'.key = 0 ∧ ∃ q', s'.pcs[t]? = some q' ∧ waiting q' = true := by
  have hown := hI.owners1 hk
  simp only [State.count] at hown
  obtain ⟨o, po, ho, hpo⟩ := exists_get_of_countP_pos owns (l := s.pcs) (by omega)
  have hot : o ≠ t := by
    intro h; subst h; rw [ho] at ht; cases ht
    cases q <;> simp [waiting, owns] at hq hpo
  cases po with
  | hold =>
    have h1 : Steps s ⟨s.key, s.pcs.set o .unlock⟩ := Steps.run ho (by simp [runPc])
    have hI1 := h1.inv hI
    have ho1 : (s.pcs.set o .unlock)[o]? = some .unlock := get_set_self _ ho
    have ht1 : (s.pcs.set o .unlock)[t]? = some q := by rw [get_set_ne _ hot]; exact ht
    obtain ⟨s', h2, hk', hq'⟩ :=
      release_from_unlock (s := ⟨s.key, s.pcs.set o .unlock⟩) hI1 ho1 ht1 hq
    exact ⟨s', h1.trans h2, hk', hq'⟩
  | unlock => exact release_from_unlock hI ho ht hq
  | idle | fast | load _ _ | cas _ _ | swap | fwait | asleep | woken | wake | bug =>
    simp [owns] at hpo

/-- with the mutex free, a sleeper can be released from the futex without a spurious
wake-up: some carrier either is the pending wake or acquires and releases -/
theorem release_sleeper {s : State} {t : Nat} (hI : Inv s) (hk : s.key = 0)
    (ht : s.pcs[t]? = some .asleep) :
    ∃ s', Steps s s' ∧ s'.key = 0 ∧ s'.pcs[t]? = some .woken := by
  have hc := hI.sleeper (countP_pos_of_get isAsleep ht rfl)
  have hc : 0 < s.count carrier := by omega
  obtain ⟨v, pv, hv, hpv⟩ := exists_get_of_countP_pos carrier hc
  have hvt : v ≠ t := by
    intro h; subst h; rw [hv] at ht; cases ht; simp [carrier] at hpv
  by_cases hwk : pv = .wake
  · subst hwk
    refine ⟨_, Steps.one rfl (step_wakeOne hv ht), hk, ?_⟩
    have : (s.pcs.set v .idle)[t]? = some .asleep := by rw [get_set_ne _ hvt]; exact ht
    exact get_set_self _ this
  · -- the carrier acquires (leaving SLEEPING in the word), releases, and wakes `t`
    have haw : awakeWaiting pv = true ∧ waitOf pv = 2 := by
      cases pv <;> simp_all [carrier, awakeWaiting, waiting, isAsleep, waitOf]
    have h1 := acquire_free hk hv haw.1
    rw [haw.2] at h1
    have hv1 : (s.pcs.set v .hold)[v]? = some .hold := get_set_self _ hv
    have h2 : Steps ⟨2, s.pcs.set v .hold⟩ ⟨2, (s.pcs.set v .hold).set v .unlock⟩ :=
      Steps.run (s := ⟨2, s.pcs.set v .hold⟩) hv1 (by simp [runPc])
    have hv2 : ((s.pcs.set v .hold).set v .unlock)[v]? = some .unlock := get_set_self _ hv1
    have h3 : Steps ⟨2, (s.pcs.set v .hold).set v .unlock⟩
        ⟨0, ((s.pcs.set v .hold).set v .unlock).set v .wake⟩ :=
      Steps.run (s := ⟨2, (s.pcs.set v .hold).set v .unlock⟩) hv2 (by simp [runPc])
    have hv3 : (((s.pcs.set v .hold).set v .unlock).set v .wake)[v]? = some .wake :=
      get_set_self _ hv2
    have ht3 : (((s.pcs.set v .hold).set v .unlock).set v .wake)[t]? = some .asleep := by
      rw [get_set_ne _ hvt, get_set_ne _ hvt, get_set_ne _ hvt]; exact ht
    have h4 := Steps.one rfl
      (step_wakeOne (s := ⟨0, ((s.pcs.set v .hold).set v .unlock).set v .wake⟩) hv3 ht3)
    refine ⟨_, ((h1.trans h2).trans h3).trans h4, rfl, ?_⟩
    have : ((((s.pcs.set v .hold).set v .unlock).set v .wake).set v .idle)[t]? = some .asleep := by
      rw [get_set_ne _ hvt]; exact ht3
    exact get_set_self _ this

/-- from any state satisfying the invariant, any waiter can acquire the mutex along a
schedule without spurious wake-ups -/
theorem can_acquire_of_inv {s : State} {t : Nat} {p : Pc} (hI : Inv s)
    (hp : s.pcs[t]? = some p) (hw : waiting p = true) :
    ∃ s', Steps s s' ∧ s'.pcs[t]? = some .hold := by
  -- phase 1: get the mutex released
  have ph1 : ∃ s1, Steps s s1 ∧ s1.key = 0 ∧ ∃ q, s1.pcs[t]? = some q ∧ waiting q = true := by
    by_cases hk : s.key = 0
    · exact ⟨s, Steps.refl s, hk, p, hp, hw⟩
    · exact release hI hk hp hw
  obtain ⟨s1, h1, hk1, q, hq, hwq⟩ := ph1
  have hI1 := h1.inv hI
  -- phase 2: get `t` out of the futex
  have ph2 : ∃ s2, Steps s1 s2 ∧ s2.key = 0 ∧ ∃ r, s2.pcs[t]? = some r ∧ awakeWaiting r = true := by
    by_cases hqa : q = .asleep
    · subst hqa
      obtain ⟨s2, h2, hk2, ht2⟩ := release_sleeper hI1 hk1 hq
      exact ⟨s2, h2, hk2, .woken, ht2, rfl⟩
    · refine ⟨s1, Steps.refl s1, hk1, q, hq, ?_⟩
      cases q <;> simp_all [awakeWaiting, waiting, isAsleep]
  obtain ⟨s2, h2, hk2, r, hr, hwr⟩ := ph2
  -- phase 3: `t` runs alone
  have h3 := acquire_free hk2 hr hwr
  exact ⟨_, (h1.trans h2).trans h3, get_set_self _ hr⟩

end AranyaV.Mutex
