/-!
Counting lemmas over `List.set` / `List.getElem?`, shared by the concurrency models
(`Mutex`, `BiArc`, `Arc`): invariants are stated with `List.countP` over the thread list so
that every preservation obligation becomes linear arithmetic.
-/
namespace AranyaV.Conc

/-! ## counting over `List.set` -/

theorem countP_set {α : Type} (f : α → Bool) {l : List α} {t : Nat} {p : α} (p' : α)
    (h : l[t]? = some p) :
    (l.set t p').countP f + (if f p then 1 else 0) = l.countP f + (if f p' then 1 else 0) := by
  induction l generalizing t with
  | nil => simp at h
  | cons a l ih =>
    cases t with
    | zero =>
      simp at h
      subst h
      simp only [List.set_cons_zero, List.countP_cons]
      omega
    | succ t =>
      simp at h
      have := ih h
      simp only [List.set_cons_succ, List.countP_cons]
      omega

theorem countP_pos_of_get {α : Type} (f : α → Bool) {l : List α} {t : Nat} {p : α}
    (h : l[t]? = some p) (hf : f p = true) : 0 < l.countP f := by
  rw [List.countP_pos_iff]
  exact ⟨p, List.mem_of_getElem? h, hf⟩

theorem exists_get_of_countP_pos {α : Type} (f : α → Bool) {l : List α}
    (h : 0 < l.countP f) : ∃ (t : Nat) (p : α), l[t]? = some p ∧ f p = true := by
  rw [List.countP_pos_iff] at h
  obtain ⟨a, ha, hfa⟩ := h
  obtain ⟨t, ht⟩ := List.mem_iff_getElem?.mp ha
  exact ⟨t, a, ht, hfa⟩

/-- at most one element satisfies `f` ⇒ two indexes satisfying `f` are equal -/
theorem unique_of_countP_le_one {α : Type} (f : α → Bool) {l : List α}
    (h : l.countP f ≤ 1) {t u : Nat} {p q : α}
    (ht : l[t]? = some p) (hu : l[u]? = some q) (hp : f p = true) (hq : f q = true) : t = u := by
  induction l generalizing t u with
  | nil => simp at ht
  | cons a l ih =>
    simp only [List.countP_cons] at h
    cases t with
    | zero =>
      cases u with
      | zero => rfl
      | succ u =>
        simp at ht hu
        subst ht
        have := countP_pos_of_get f hu hq
        simp only [hp, if_true] at h
        omega
    | succ t =>
      cases u with
      | zero =>
        simp at ht hu
        subst hu
        have := countP_pos_of_get f ht hp
        simp only [hq, if_true] at h
        omega
      | succ u =>
        simp at ht hu
        have : l.countP f ≤ 1 := by omega
        rw [ih this ht hu]

theorem get_set_self {α : Type} {l : List α} {t : Nat} {p : α} (p' : α) (h : l[t]? = some p) :
    (l.set t p')[t]? = some p' := by
  have := (List.getElem?_eq_some_iff.mp h).1
  simp [List.getElem?_set, this]

theorem get_set_ne {α : Type} {l : List α} {t u : Nat} (p' : α) (h : t ≠ u) :
    (l.set t p')[u]? = l[u]? := by
  simp [List.getElem?_set, h]

end AranyaV.Conc
