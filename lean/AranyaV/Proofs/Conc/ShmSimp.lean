import AranyaV.Model.Conc.Shm
/-!
Frame (`simp`) lemmas for the field setters of `AranyaV.Shm.State`: which projection each
setter changes.  Mechanical; all by `rfl` / case split on the side.
-/
namespace AranyaV.Shm

@[simp] theorem a_setW (s : State) (pc : WPc) : (s.setW pc).a = s.a := rfl
@[simp] theorem b_setW (s : State) (pc : WPc) : (s.setW pc).b = s.b := rfl
@[simp] theorem ha_setW (s : State) (pc : WPc) : (s.setW pc).ha = s.ha := rfl
@[simp] theorem hb_setW (s : State) (pc : WPc) : (s.setW pc).hb = s.hb := rfl
@[simp] theorem readOff_setW (s : State) (pc : WPc) : (s.setW pc).readOff = s.readOff := rfl
@[simp] theorem writeOff_setW (s : State) (pc : WPc) : (s.setW pc).writeOff = s.writeOff := rfl
@[simp] theorem nextId_setW (s : State) (pc : WPc) : (s.setW pc).nextId = s.nextId := rfl
@[simp] theorem cap_setW (s : State) (pc : WPc) : (s.setW pc).cap = s.cap := rfl
@[simp] theorem corrupt_setW (s : State) (pc : WPc) : (s.setW pc).corrupt = s.corrupt := rfl
@[simp] theorem hist_setW (s : State) (pc : WPc) : (s.setW pc).hist = s.hist := rfl
@[simp] theorem dead_setW (s : State) (pc : WPc) : (s.setW pc).dead = s.dead := rfl
@[simp] theorem w_setW (s : State) (pc : WPc) : (s.setW pc).w = pc := rfl
@[simp] theorem rs_setW (s : State) (pc : WPc) : (s.setW pc).rs = s.rs := rfl
@[simp] theorem side_setW (s : State) (pc : WPc) (x : Bool) : (s.setW pc).side x = s.side x := rfl
@[simp] theorem holder_setW (s : State) (pc : WPc) (x : Bool) : (s.setW pc).holder x = s.holder x := rfl
@[simp] theorem a_setHist (s : State) (h : List (List Chan)) : (s.setHist h).a = s.a := rfl
@[simp] theorem b_setHist (s : State) (h : List (List Chan)) : (s.setHist h).b = s.b := rfl
@[simp] theorem ha_setHist (s : State) (h : List (List Chan)) : (s.setHist h).ha = s.ha := rfl
@[simp] theorem hb_setHist (s : State) (h : List (List Chan)) : (s.setHist h).hb = s.hb := rfl
@[simp] theorem readOff_setHist (s : State) (h : List (List Chan)) : (s.setHist h).readOff = s.readOff := rfl
@[simp] theorem writeOff_setHist (s : State) (h : List (List Chan)) : (s.setHist h).writeOff = s.writeOff := rfl
@[simp] theorem nextId_setHist (s : State) (h : List (List Chan)) : (s.setHist h).nextId = s.nextId := rfl
@[simp] theorem cap_setHist (s : State) (h : List (List Chan)) : (s.setHist h).cap = s.cap := rfl
@[simp] theorem corrupt_setHist (s : State) (h : List (List Chan)) : (s.setHist h).corrupt = s.corrupt := rfl
@[simp] theorem hist_setHist (s : State) (h : List (List Chan)) : (s.setHist h).hist = h := rfl
@[simp] theorem dead_setHist (s : State) (h : List (List Chan)) : (s.setHist h).dead = s.dead := rfl
@[simp] theorem w_setHist (s : State) (h : List (List Chan)) : (s.setHist h).w = s.w := rfl
@[simp] theorem rs_setHist (s : State) (h : List (List Chan)) : (s.setHist h).rs = s.rs := rfl
@[simp] theorem side_setHist (s : State) (h : List (List Chan)) (x : Bool) : (s.setHist h).side x = s.side x := rfl
@[simp] theorem holder_setHist (s : State) (h : List (List Chan)) (x : Bool) : (s.setHist h).holder x = s.holder x := rfl
@[simp] theorem a_setRO (s : State) (v : Bool) : (s.setRO v).a = s.a := rfl
@[simp] theorem b_setRO (s : State) (v : Bool) : (s.setRO v).b = s.b := rfl
@[simp] theorem ha_setRO (s : State) (v : Bool) : (s.setRO v).ha = s.ha := rfl
@[simp] theorem hb_setRO (s : State) (v : Bool) : (s.setRO v).hb = s.hb := rfl
@[simp] theorem readOff_setRO (s : State) (v : Bool) : (s.setRO v).readOff = v := rfl
@[simp] theorem writeOff_setRO (s : State) (v : Bool) : (s.setRO v).writeOff = s.writeOff := rfl
@[simp] theorem nextId_setRO (s : State) (v : Bool) : (s.setRO v).nextId = s.nextId := rfl
@[simp] theorem cap_setRO (s : State) (v : Bool) : (s.setRO v).cap = s.cap := rfl
@[simp] theorem corrupt_setRO (s : State) (v : Bool) : (s.setRO v).corrupt = s.corrupt := rfl
@[simp] theorem hist_setRO (s : State) (v : Bool) : (s.setRO v).hist = s.hist := rfl
@[simp] theorem dead_setRO (s : State) (v : Bool) : (s.setRO v).dead = s.dead := rfl
@[simp] theorem w_setRO (s : State) (v : Bool) : (s.setRO v).w = s.w := rfl
@[simp] theorem rs_setRO (s : State) (v : Bool) : (s.setRO v).rs = s.rs := rfl
@[simp] theorem side_setRO (s : State) (v : Bool) (x : Bool) : (s.setRO v).side x = s.side x := rfl
@[simp] theorem holder_setRO (s : State) (v : Bool) (x : Bool) : (s.setRO v).holder x = s.holder x := rfl
@[simp] theorem a_setWO (s : State) (v : Bool) : (s.setWO v).a = s.a := rfl
@[simp] theorem b_setWO (s : State) (v : Bool) : (s.setWO v).b = s.b := rfl
@[simp] theorem ha_setWO (s : State) (v : Bool) : (s.setWO v).ha = s.ha := rfl
@[simp] theorem hb_setWO (s : State) (v : Bool) : (s.setWO v).hb = s.hb := rfl
@[simp] theorem readOff_setWO (s : State) (v : Bool) : (s.setWO v).readOff = s.readOff := rfl
@[simp] theorem writeOff_setWO (s : State) (v : Bool) : (s.setWO v).writeOff = v := rfl
@[simp] theorem nextId_setWO (s : State) (v : Bool) : (s.setWO v).nextId = s.nextId := rfl
@[simp] theorem cap_setWO (s : State) (v : Bool) : (s.setWO v).cap = s.cap := rfl
@[simp] theorem corrupt_setWO (s : State) (v : Bool) : (s.setWO v).corrupt = s.corrupt := rfl
@[simp] theorem hist_setWO (s : State) (v : Bool) : (s.setWO v).hist = s.hist := rfl
@[simp] theorem dead_setWO (s : State) (v : Bool) : (s.setWO v).dead = s.dead := rfl
@[simp] theorem w_setWO (s : State) (v : Bool) : (s.setWO v).w = s.w := rfl
@[simp] theorem rs_setWO (s : State) (v : Bool) : (s.setWO v).rs = s.rs := rfl
@[simp] theorem side_setWO (s : State) (v : Bool) (x : Bool) : (s.setWO v).side x = s.side x := rfl
@[simp] theorem holder_setWO (s : State) (v : Bool) (x : Bool) : (s.setWO v).holder x = s.holder x := rfl
@[simp] theorem a_setNextId (s : State) (n : Nat) : (s.setNextId n).a = s.a := rfl
@[simp] theorem b_setNextId (s : State) (n : Nat) : (s.setNextId n).b = s.b := rfl
@[simp] theorem ha_setNextId (s : State) (n : Nat) : (s.setNextId n).ha = s.ha := rfl
@[simp] theorem hb_setNextId (s : State) (n : Nat) : (s.setNextId n).hb = s.hb := rfl
@[simp] theorem readOff_setNextId (s : State) (n : Nat) : (s.setNextId n).readOff = s.readOff := rfl
@[simp] theorem writeOff_setNextId (s : State) (n : Nat) : (s.setNextId n).writeOff = s.writeOff := rfl
@[simp] theorem nextId_setNextId (s : State) (n : Nat) : (s.setNextId n).nextId = n := rfl
@[simp] theorem cap_setNextId (s : State) (n : Nat) : (s.setNextId n).cap = s.cap := rfl
@[simp] theorem corrupt_setNextId (s : State) (n : Nat) : (s.setNextId n).corrupt = s.corrupt := rfl
@[simp] theorem hist_setNextId (s : State) (n : Nat) : (s.setNextId n).hist = s.hist := rfl
@[simp] theorem dead_setNextId (s : State) (n : Nat) : (s.setNextId n).dead = s.dead := rfl
@[simp] theorem w_setNextId (s : State) (n : Nat) : (s.setNextId n).w = s.w := rfl
@[simp] theorem rs_setNextId (s : State) (n : Nat) : (s.setNextId n).rs = s.rs := rfl
@[simp] theorem side_setNextId (s : State) (n : Nat) (x : Bool) : (s.setNextId n).side x = s.side x := rfl
@[simp] theorem holder_setNextId (s : State) (n : Nat) (x : Bool) : (s.setNextId n).holder x = s.holder x := rfl
@[simp] theorem a_setDead (s : State) (d : List Nat) : (s.setDead d).a = s.a := rfl
@[simp] theorem b_setDead (s : State) (d : List Nat) : (s.setDead d).b = s.b := rfl
@[simp] theorem ha_setDead (s : State) (d : List Nat) : (s.setDead d).ha = s.ha := rfl
@[simp] theorem hb_setDead (s : State) (d : List Nat) : (s.setDead d).hb = s.hb := rfl
@[simp] theorem readOff_setDead (s : State) (d : List Nat) : (s.setDead d).readOff = s.readOff := rfl
@[simp] theorem writeOff_setDead (s : State) (d : List Nat) : (s.setDead d).writeOff = s.writeOff := rfl
@[simp] theorem nextId_setDead (s : State) (d : List Nat) : (s.setDead d).nextId = s.nextId := rfl
@[simp] theorem cap_setDead (s : State) (d : List Nat) : (s.setDead d).cap = s.cap := rfl
@[simp] theorem corrupt_setDead (s : State) (d : List Nat) : (s.setDead d).corrupt = s.corrupt := rfl
@[simp] theorem hist_setDead (s : State) (d : List Nat) : (s.setDead d).hist = s.hist := rfl
@[simp] theorem dead_setDead (s : State) (d : List Nat) : (s.setDead d).dead = d := rfl
@[simp] theorem w_setDead (s : State) (d : List Nat) : (s.setDead d).w = s.w := rfl
@[simp] theorem rs_setDead (s : State) (d : List Nat) : (s.setDead d).rs = s.rs := rfl
@[simp] theorem side_setDead (s : State) (d : List Nat) (x : Bool) : (s.setDead d).side x = s.side x := rfl
@[simp] theorem holder_setDead (s : State) (d : List Nat) (x : Bool) : (s.setDead d).holder x = s.holder x := rfl
@[simp] theorem a_setRs (s : State) (l : List Reader) : (s.setRs l).a = s.a := rfl
@[simp] theorem b_setRs (s : State) (l : List Reader) : (s.setRs l).b = s.b := rfl
@[simp] theorem ha_setRs (s : State) (l : List Reader) : (s.setRs l).ha = s.ha := rfl
@[simp] theorem hb_setRs (s : State) (l : List Reader) : (s.setRs l).hb = s.hb := rfl
@[simp] theorem readOff_setRs (s : State) (l : List Reader) : (s.setRs l).readOff = s.readOff := rfl
@[simp] theorem writeOff_setRs (s : State) (l : List Reader) : (s.setRs l).writeOff = s.writeOff := rfl
@[simp] theorem nextId_setRs (s : State) (l : List Reader) : (s.setRs l).nextId = s.nextId := rfl
@[simp] theorem cap_setRs (s : State) (l : List Reader) : (s.setRs l).cap = s.cap := rfl
@[simp] theorem corrupt_setRs (s : State) (l : List Reader) : (s.setRs l).corrupt = s.corrupt := rfl
@[simp] theorem hist_setRs (s : State) (l : List Reader) : (s.setRs l).hist = s.hist := rfl
@[simp] theorem dead_setRs (s : State) (l : List Reader) : (s.setRs l).dead = s.dead := rfl
@[simp] theorem w_setRs (s : State) (l : List Reader) : (s.setRs l).w = s.w := rfl
@[simp] theorem rs_setRs (s : State) (l : List Reader) : (s.setRs l).rs = l := rfl
@[simp] theorem side_setRs (s : State) (l : List Reader) (x : Bool) : (s.setRs l).side x = s.side x := rfl
@[simp] theorem holder_setRs (s : State) (l : List Reader) (x : Bool) : (s.setRs l).holder x = s.holder x := rfl
@[simp] theorem a_setCorrupt (s : State) : s.setCorrupt.a = s.a := rfl
@[simp] theorem b_setCorrupt (s : State) : s.setCorrupt.b = s.b := rfl
@[simp] theorem ha_setCorrupt (s : State) : s.setCorrupt.ha = s.ha := rfl
@[simp] theorem hb_setCorrupt (s : State) : s.setCorrupt.hb = s.hb := rfl
@[simp] theorem readOff_setCorrupt (s : State) : s.setCorrupt.readOff = s.readOff := rfl
@[simp] theorem writeOff_setCorrupt (s : State) : s.setCorrupt.writeOff = s.writeOff := rfl
@[simp] theorem nextId_setCorrupt (s : State) : s.setCorrupt.nextId = s.nextId := rfl
@[simp] theorem cap_setCorrupt (s : State) : s.setCorrupt.cap = s.cap := rfl
@[simp] theorem corrupt_setCorrupt (s : State) : s.setCorrupt.corrupt = true := rfl
@[simp] theorem hist_setCorrupt (s : State) : s.setCorrupt.hist = s.hist := rfl
@[simp] theorem dead_setCorrupt (s : State) : s.setCorrupt.dead = s.dead := rfl
@[simp] theorem w_setCorrupt (s : State) : s.setCorrupt.w = s.w := rfl
@[simp] theorem rs_setCorrupt (s : State) : s.setCorrupt.rs = s.rs := rfl
@[simp] theorem side_setCorrupt (s : State) (x : Bool) : s.setCorrupt.side x = s.side x := rfl
@[simp] theorem holder_setCorrupt (s : State) (x : Bool) : s.setCorrupt.holder x = s.holder x := rfl
@[simp] theorem readOff_setHolder (s : State) (x : Bool) (h : Option Nat) : (s.setHolder x h).readOff = s.readOff := by cases x <;> rfl
@[simp] theorem readOff_setSide (s : State) (x : Bool) (sd : Side) : (s.setSide x sd).readOff = s.readOff := by cases x <;> rfl
@[simp] theorem writeOff_setHolder (s : State) (x : Bool) (h : Option Nat) : (s.setHolder x h).writeOff = s.writeOff := by cases x <;> rfl
@[simp] theorem writeOff_setSide (s : State) (x : Bool) (sd : Side) : (s.setSide x sd).writeOff = s.writeOff := by cases x <;> rfl
@[simp] theorem nextId_setHolder (s : State) (x : Bool) (h : Option Nat) : (s.setHolder x h).nextId = s.nextId := by cases x <;> rfl
@[simp] theorem nextId_setSide (s : State) (x : Bool) (sd : Side) : (s.setSide x sd).nextId = s.nextId := by cases x <;> rfl
@[simp] theorem cap_setHolder (s : State) (x : Bool) (h : Option Nat) : (s.setHolder x h).cap = s.cap := by cases x <;> rfl
@[simp] theorem cap_setSide (s : State) (x : Bool) (sd : Side) : (s.setSide x sd).cap = s.cap := by cases x <;> rfl
@[simp] theorem corrupt_setHolder (s : State) (x : Bool) (h : Option Nat) : (s.setHolder x h).corrupt = s.corrupt := by cases x <;> rfl
@[simp] theorem corrupt_setSide (s : State) (x : Bool) (sd : Side) : (s.setSide x sd).corrupt = s.corrupt := by cases x <;> rfl
@[simp] theorem hist_setHolder (s : State) (x : Bool) (h : Option Nat) : (s.setHolder x h).hist = s.hist := by cases x <;> rfl
@[simp] theorem hist_setSide (s : State) (x : Bool) (sd : Side) : (s.setSide x sd).hist = s.hist := by cases x <;> rfl
@[simp] theorem dead_setHolder (s : State) (x : Bool) (h : Option Nat) : (s.setHolder x h).dead = s.dead := by cases x <;> rfl
@[simp] theorem dead_setSide (s : State) (x : Bool) (sd : Side) : (s.setSide x sd).dead = s.dead := by cases x <;> rfl
@[simp] theorem w_setHolder (s : State) (x : Bool) (h : Option Nat) : (s.setHolder x h).w = s.w := by cases x <;> rfl
@[simp] theorem w_setSide (s : State) (x : Bool) (sd : Side) : (s.setSide x sd).w = s.w := by cases x <;> rfl
@[simp] theorem rs_setHolder (s : State) (x : Bool) (h : Option Nat) : (s.setHolder x h).rs = s.rs := by cases x <;> rfl
@[simp] theorem rs_setSide (s : State) (x : Bool) (sd : Side) : (s.setSide x sd).rs = s.rs := by cases x <;> rfl

@[simp] theorem side_setSide_same (s : State) (x : Bool) (sd : Side) :
    (s.setSide x sd).side x = sd := by
  cases x <;> simp [State.setSide, State.side]

@[simp] theorem side_setSide_other (s : State) (x : Bool) (sd : Side) :
    (s.setSide x sd).side (!x) = s.side (!x) := by
  cases x <;> simp [State.setSide, State.side]

theorem side_setSide (s : State) (x y : Bool) (sd : Side) :
    (s.setSide x sd).side y = if y = x then sd else s.side y := by
  cases x <;> cases y <;> simp [State.setSide, State.side]

@[simp] theorem side_setHolder (s : State) (x y : Bool) (h : Option Nat) :
    (s.setHolder x h).side y = s.side y := by
  cases x <;> cases y <;> simp [State.setHolder, State.side]

@[simp] theorem holder_setHolder_same (s : State) (x : Bool) (h : Option Nat) :
    (s.setHolder x h).holder x = h := by
  cases x <;> simp [State.setHolder, State.holder]

@[simp] theorem holder_setHolder_other (s : State) (x : Bool) (h : Option Nat) :
    (s.setHolder x h).holder (!x) = s.holder (!x) := by
  cases x <;> simp [State.setHolder, State.holder]

theorem holder_setHolder (s : State) (x y : Bool) (h : Option Nat) :
    (s.setHolder x h).holder y = if y = x then h else s.holder y := by
  cases x <;> cases y <;> simp [State.setHolder, State.holder]

@[simp] theorem holder_setSide (s : State) (x y : Bool) (sd : Side) :
    (s.setSide x sd).holder y = s.holder y := by
  cases x <;> cases y <;> simp [State.setSide, State.holder]

@[simp] theorem sideF_setW (s : State) (pc : WPc) : (s.setW pc).side = s.side := rfl
@[simp] theorem sideF_setHist (s : State) (h : List (List Chan)) : (s.setHist h).side = s.side := rfl
@[simp] theorem sideF_setRO (s : State) (v : Bool) : (s.setRO v).side = s.side := rfl
@[simp] theorem sideF_setWO (s : State) (v : Bool) : (s.setWO v).side = s.side := rfl
@[simp] theorem sideF_setNextId (s : State) (n : Nat) : (s.setNextId n).side = s.side := rfl
@[simp] theorem sideF_setDead (s : State) (d : List Nat) : (s.setDead d).side = s.side := rfl
@[simp] theorem sideF_setRs (s : State) (l : List Reader) : (s.setRs l).side = s.side := rfl
@[simp] theorem sideF_setCorrupt (s : State) : s.setCorrupt.side = s.side := rfl
@[simp] theorem sideF_setHolder (s : State) (x : Bool) (h : Option Nat) : (s.setHolder x h).side = s.side := by
  funext y; simp

end AranyaV.Shm
