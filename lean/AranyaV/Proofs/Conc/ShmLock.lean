import AranyaV.Proofs.Conc.Shm
/-!
Lock invariant and id invariant of `AranyaV.Shm`, and the invariants along `Reachable`.
-/
namespace AranyaV.Shm

/-- the list the writer holds the lock of -/
def WPc.holds : WPc → Option Bool
  | .mu1 w _ _ _ _ => some w
  | .mu2 r _ _ _ => some r
  | _ => none

/-- the list a reader holds the lock of -/
def RPc.holds : RPc → Option Bool
  | .gl _ s => some s
  | .glo _ s _ _ => some s
  | .ul s _ => some s
  | _ => none

/-- a thread whose control state holds a list is that list's recorded lock holder -/
def LInv (s : State) : Prop :=
  (∀ x, s.w.holds = some x → s.holder x = some 0) ∧
  (∀ i r x, s.rs[i]? = some r → r.pc.holds = some x → s.holder x = some (i + 1))

theorem linv_init (cap n : Nat) : LInv (init cap n) := by
  constructor
  · intro x h; simp [init, WPc.holds] at h
  · intro i r x hr h
    simp only [init, List.getElem?_replicate] at hr
    split at hr
    · injection hr with hr; subst hr; simp [RPc.holds] at h
    · cases hr

/-- how a reader step relates lock effect and control state -/
theorem rStepLocal_holds {ro : Bool} {side : Bool → Side} {free : Bool → Bool} {r r' : Reader}
    {eff : LockEff} {ret : Option Ret} (h : rStepLocal ro side free r = some (r', eff, ret)) :
    (eff = .none ∧ r'.pc.holds = r.pc.holds) ∨
    (∃ x, eff = .acq x ∧ free x = true ∧ r.pc.holds = none ∧ r'.pc.holds = some x) ∨
    (∃ x, eff = .rel x ∧ r.pc.holds = some x ∧ r'.pc.holds = none) := by
  unfold rStepLocal at h
  repeat' split at h
  all_goals first
    | contradiction
    | (simp only [Option.some.injEq, Prod.mk.injEq] at h
       obtain ⟨rfl, rfl, rfl⟩ := h
       simp [RPc.holds, *])

theorem rBeginLocal_holds {dead : List Nat} {r r' : Reader} {op : ROp} {ret : Option Ret}
    (h : rBeginLocal dead r op = some (r', ret)) : r.pc.holds = none ∧ r'.pc.holds = none := by
  unfold rBeginLocal at h
  repeat' split at h
  all_goals first
    | contradiction
    | (simp only [Option.some.injEq, Prod.mk.injEq] at h
       obtain ⟨rfl, rfl⟩ := h
       simp [RPc.holds, *])

/-- effect of a writer step on the locks -/
theorem wStep_eff {s s' : State} {ret : Option Ret} (h : wStep s = some (s', ret)) :
    s'.rs = s.rs ∧
    (((∀ y, s'.holder y = s.holder y) ∧ s'.w.holds = s.w.holds) ∨
     (∃ x, s.holder x = none ∧ (∀ y, s'.holder y = if y = x then some 0 else s.holder y) ∧
        s'.w.holds = some x) ∨
     (∃ x, s.w.holds = some x ∧ (∀ y, s'.holder y = if y = x then none else s.holder y) ∧
        s'.w.holds = none)) := by
  unfold wStep at h
  split at h
  · cases h
  · rename_i hw
    injection h with h; injection h with h _; subst h
    exact ⟨rfl, Or.inl ⟨fun _ => rfl, by simp [hw, WPc.holds]⟩⟩
  · rename_i hw
    injection h with h; injection h with h _; subst h
    exact ⟨rfl, Or.inl ⟨fun _ => rfl, by simp [hw, WPc.holds]⟩⟩
  · rename_i op w hw
    split at h
    · cases h
    · rename_i hfree
      injection h with h; injection h with h _; subst h
      refine ⟨by simp [lock1], Or.inr (Or.inl ⟨w, by simpa using hfree, ?_, by simp [lock1, WPc.holds]⟩)⟩
      intro y; simp [lock1, holder_setHolder]
  · rename_i w m rest nx r g0 hw
    injection h with h; injection h with h _; subst h
    unfold muStep
    split
    · exact ⟨by simp, Or.inl ⟨fun y => by simp, by simp [hw, WPc.holds]⟩⟩
    · exact ⟨by simp, Or.inl ⟨fun y => by simp, by simp [hw, WPc.holds]⟩⟩
  · rename_i w nx r g0 hw
    injection h with h
    cases nx with
    | none =>
      simp only [unlock1, Prod.mk.injEq] at h
      obtain ⟨rfl, _⟩ := h
      exact ⟨by simp, Or.inr (Or.inr ⟨w, by simp [hw, WPc.holds], fun y => by simp [holder_setHolder], by simp [WPc.holds]⟩)⟩
    | some p2 =>
      simp only [unlock1, Prod.mk.injEq] at h
      obtain ⟨rfl, _⟩ := h
      exact ⟨by simp, Or.inr (Or.inr ⟨w, by simp [hw, WPc.holds], fun y => by simp [holder_setHolder], by simp [WPc.holds]⟩)⟩
  · rename_i w p2 r g0 hw
    injection h with h; injection h with h _; subst h
    exact ⟨by simp [swapOff], Or.inl ⟨fun y => by simp [swapOff], by simp [swapOff, hw, WPc.holds]⟩⟩
  · rename_i r p2 rt g0 hw
    split at h
    · cases h
    · rename_i hfree
      injection h with h; injection h with h _; subst h
      refine ⟨by simp [lock2], Or.inr (Or.inl ⟨r, by simpa using hfree, ?_, by simp [lock2, WPc.holds]⟩)⟩
      intro y; simp [lock2, holder_setHolder]
  · rename_i r m rest rt g0 hw
    injection h with h; injection h with h _; subst h
    unfold muStep
    split
    · exact ⟨by simp, Or.inl ⟨fun y => by simp, by simp [hw, WPc.holds]⟩⟩
    · exact ⟨by simp, Or.inl ⟨fun y => by simp, by simp [hw, WPc.holds]⟩⟩
  · rename_i r rt g0 hw
    injection h with h; injection h with h _; subst h
    exact ⟨by simp, Or.inr (Or.inr ⟨r, by simp [hw, WPc.holds], fun y => by simp [holder_setHolder], by simp [WPc.holds]⟩)⟩
  · rename_i r rt g0 hw
    injection h with h; injection h with h _; subst h
    exact ⟨by simp [storeOff], Or.inl ⟨fun y => by simp [storeOff], by simp [storeOff, hw, WPc.holds]⟩⟩

theorem wStep_linv {s s' : State} {ret : Option Ret} (hI : LInv s) (h : wStep s = some (s', ret)) :
    LInv s' := by
  obtain ⟨hrs, heff⟩ := wStep_eff h
  obtain ⟨hW, hR⟩ := hI
  rcases heff with ⟨hh, hw⟩ | ⟨x, hfree, hh, hw⟩ | ⟨x, hold, hh, hw⟩
  · refine ⟨fun y hy => ?_, fun i r y hr hy => ?_⟩
    · rw [hh]; exact hW y (hw ▸ hy)
    · rw [hh]; rw [hrs] at hr; exact hR i r y hr hy
  · refine ⟨fun y hy => ?_, fun i r y hr hy => ?_⟩
    · rw [hw] at hy; injection hy with hy; subst hy; rw [hh]; simp
    · rw [hrs] at hr
      have := hR i r y hr hy
      rw [hh]; split
      · rename_i hyx; subst hyx; rw [hfree] at this; cases this
      · exact this
  · refine ⟨fun y hy => ?_, fun i r y hr hy => ?_⟩
    · rw [hw] at hy; cases hy
    · rw [hrs] at hr
      have := hR i r y hr hy
      rw [hh]; split
      · rename_i hyx; subst hyx; rw [hW y hold] at this; cases this
      · exact this

theorem wBegin_linv {s s' : State} {rq : WReq} (hI : LInv s) (h : wBegin s rq = some s') :
    LInv s' := by
  unfold wBegin at h
  split at h
  · injection h with h; subst h
    obtain ⟨hW, hR⟩ := hI
    refine ⟨fun y hy => ?_, fun i r y hr hy => hR i r y hr hy⟩
    cases rq <;> simp [WReq.begin, WPc.holds] at hy
  · cases h

theorem applyLock_holder (s : State) (i : Nat) (e : LockEff) (y : Bool) :
    (applyLock s i e).holder y =
      match e with
      | .none => s.holder y
      | .acq x => if y = x then some (i + 1) else s.holder y
      | .rel x => if y = x then none else s.holder y := by
  cases e <;> simp [applyLock, holder_setHolder]

theorem applyLock_rs (s : State) (i : Nat) (e : LockEff) : (applyLock s i e).rs = s.rs := by
  cases e <;> simp [applyLock]

theorem applyLock_w (s : State) (i : Nat) (e : LockEff) : (applyLock s i e).w = s.w := by
  cases e <;> simp [applyLock]

theorem rStep_linv {s s' : State} {i : Nat} {ret : Option Ret} (hI : LInv s)
    (h : rStep s i = some (s', ret)) : LInv s' := by
  unfold rStep at h
  split at h
  · cases h
  · rename_i r hr
    split at h
    · cases h
    · rename_i r' eff rt hloc
      injection h with h; injection h with h _; subst h
      obtain ⟨hW, hR⟩ := hI
      have hme := hR i r
      have key := rStepLocal_holds hloc
      refine ⟨fun y hy => ?_, fun j q y hq hy => ?_⟩
      · rw [applyLock_w] at hy
        have hw0 := hW y hy
        rw [applyLock_holder]
        rcases key with ⟨rfl, _⟩ | ⟨x, rfl, hfree, _, _⟩ | ⟨x, rfl, hold, _⟩
        · simpa using hw0
        · simp only [holder_setRs]
          split
          · rename_i hyx; subst hyx; simp [hw0] at hfree
          · exact hw0
        · simp only [holder_setRs]
          split
          · rename_i hyx; subst hyx
            have := hme y hr hold; rw [hw0] at this; cases this
          · exact hw0
      · rw [applyLock_rs] at hq
        simp only [rs_setRs] at hq
        rw [applyLock_holder]
        by_cases hji : j = i
        · subst hji
          have hlt : j < s.rs.length := (List.getElem?_eq_some_iff.mp hr).1
          rw [List.getElem?_set_self hlt] at hq
          injection hq with hq; subst hq
          rcases key with ⟨rfl, hsame⟩ | ⟨x, rfl, hfree, _, hnew⟩ | ⟨x, rfl, _, hnew⟩
          · simpa using hme y hr (hsame ▸ hy)
          · rw [hnew] at hy; injection hy with hy; subst hy; simp
          · rw [hnew] at hy; cases hy
        · rw [List.getElem?_set_ne (Ne.symm hji)] at hq
          have hj := hR j q y hq hy
          rcases key with ⟨rfl, _⟩ | ⟨x, rfl, hfree, _, _⟩ | ⟨x, rfl, hold, _⟩
          · simpa using hj
          · simp only [holder_setRs]
            split
            · rename_i hyx; subst hyx; simp [hj] at hfree
            · exact hj
          · simp only [holder_setRs]
            split
            · rename_i hyx; subst hyx
              have := hme y hr hold; rw [hj] at this
              injection this with this; omega
            · exact hj

theorem rBegin_linv {s s' : State} {i : Nat} {op : ROp} {ret : Option Ret} (hI : LInv s)
    (h : rBegin s i op = some (s', ret)) : LInv s' := by
  unfold rBegin at h
  split at h
  · cases h
  · rename_i r hr
    split at h
    · cases h
    · rename_i r' rt hloc
      injection h with h; injection h with h _; subst h
      obtain ⟨hW, hR⟩ := hI
      obtain ⟨_, hnew⟩ := rBeginLocal_holds hloc
      refine ⟨fun y hy => by simpa using hW y hy, fun j q y hq hy => ?_⟩
      simp only [rs_setRs] at hq
      by_cases hji : j = i
      · subst hji
        have hlt : j < s.rs.length := (List.getElem?_eq_some_iff.mp hr).1
        rw [List.getElem?_set_self hlt] at hq
        injection hq with hq; subst hq
        rw [hnew] at hy; cases hy
      · rw [List.getElem?_set_ne (Ne.symm hji)] at hq
        simpa using hR j q y hq hy

/-! ## invariants along `Reachable` -/

/-- induction over schedules, one obligation per kind of action -/
theorem reachable_ind {cap n : Nat} {P : State → Prop} (h0 : P (init cap n))
    (hwb : ∀ s s' rq, Reachable cap n s → P s → wBegin s rq = some s' → P s')
    (hws : ∀ s s' ret, Reachable cap n s → P s → wStep s = some (s', ret) → P s')
    (hrb : ∀ s s' i op ret, Reachable cap n s → P s → rBegin s i op = some (s', ret) → P s')
    (hrs : ∀ s s' i ret, Reachable cap n s → P s → rStep s i = some (s', ret) → P s')
    {s : State} (h : Reachable cap n s) : P s := by
  induction h with
  | init => exact h0
  | @step s1 s2 a ret hr hs ih =>
    cases a with
    | wBegin rq =>
      simp only [step, Option.map_eq_some_iff] at hs
      obtain ⟨s3, h1, h2⟩ := hs
      injection h2 with h2 _; subst h2
      exact hwb _ _ _ hr ih h1
    | wStep => exact hws _ _ _ hr ih hs
    | rBegin i op => exact hrb _ _ _ _ _ hr ih hs
    | rStep i => exact hrs _ _ _ _ hr ih hs

theorem reachable_tinv {cap n : Nat} {s : State} (h : Reachable cap n s) : TInv s :=
  reachable_ind (tinv_init cap n) (fun _ _ _ _ ih h => wBegin_tinv ih h)
    (fun _ _ _ _ ih h => wStep_tinv ih h) (fun _ _ _ _ _ _ ih h => tinv_of_tab (rBegin_tab h) ih)
    (fun _ _ _ _ _ ih h => tinv_of_tab (rStep_tab h) ih) h

theorem reachable_linv {cap n : Nat} {s : State} (h : Reachable cap n s) : LInv s :=
  reachable_ind (linv_init cap n) (fun _ _ _ _ ih h => wBegin_linv ih h)
    (fun _ _ _ _ ih h => wStep_linv ih h) (fun _ _ _ _ _ _ ih h => rBegin_linv ih h)
    (fun _ _ _ _ _ ih h => rStep_linv ih h) h

/-- run a schedule (used by the non-vacuity examples) -/
def run (s : State) : List Act → Option State
  | [] => some s
  | a :: as => match step s a with
    | some (s', _) => run s' as
    | none => none

theorem reachable_run {cap n : Nat} {s s' : State} (h : Reachable cap n s) {as : List Act}
    (hr : run s as = some s') : Reachable cap n s' := by
  induction as generalizing s with
  | nil => simp [run] at hr; subst hr; exact h
  | cons a as ih =>
    simp only [run] at hr
    split at hr
    · rename_i s1 r hs; exact ih (Reachable.step h hs) hr
    · cases hr


end AranyaV.Shm
