import AranyaV.Proofs.Conc.ShmDead
/-!
The reader / dead-id invariant `RDInv` of `AranyaV.Shm` and its preservation by every action.
-/
namespace AranyaV.Shm

/-- the cached channel is in the produced table of the cached generation -/
def CtxOk (hist : List (List Chan)) (c : Ctx) : Prop :=
  ∃ l, hist[c.gen]? = some l ∧ c.ch ∈ l ∧ c.ch.id = c.id

/-- successful seals of a context carried `0, 1, …, seq - 1` -/
def LogOk (c : Ctx) : Prop := c.log = List.range c.seq

structure RDInv (s : State) : Prop where
  ctx : ∀ (i : Nat) (r : Reader) (k : Nat) (c : Ctx), s.rs[i]? = some r → r.ctxs[k]? = some c →
    CtxOk s.hist c ∧ LogOk c
  glo : ∀ (i : Nat) (r : Reader), s.rs[i]? = some r → GloOk s.side r
  dhist : ∀ x ∈ s.dead, ∃ l ∈ s.hist, x ∈ ids l
  dtop : ∀ x ∈ s.dead, x ∉ ids (top s.hist).chans
  drest : ∀ x ∈ s.dead, ∀ sd, s.w.holds ≠ some sd → x ∉ ids (s.side sd).chans
  dctx : ∀ x ∈ s.dead, ∀ (i : Nat) (r : Reader) (k : Nat) (c : Ctx), s.rs[i]? = some r → r.ctxs[k]? = some c → c.id = x →
    ∀ sd, c.gen < (s.side sd).gen
  dpc : ∀ (i : Nat) (r : Reader), s.rs[i]? = some r → r.dead0 = true → r.pc = .idle ∨ ∃ x ∈ s.dead, DeadPcOk r x

theorem rdinv_init (cap n : Nat) : RDInv (init cap n) := by
  have hr : ∀ (i : Nat) (r : Reader), (init cap n).rs[i]? = some r → r = (⟨.idle, [], false⟩ : Reader) := by
    intro i r h
    simp only [init, List.getElem?_replicate] at h
    split at h
    · exact (Option.some.inj h).symm
    · cases h
  refine ⟨?_, ?_, ?_, ?_, ?_, ?_, ?_⟩
  · intro i r k c h hc; rw [hr i r h] at hc; simp at hc
  · intro i r h; rw [hr i r h]; simp [GloOk]
  · intro x hx; simp [init] at hx
  · intro x hx; simp [init] at hx
  · intro x hx; simp [init] at hx
  · intro x hx; simp [init] at hx
  · intro i r h hd; rw [hr i r h] at hd; cases hd

theorem CtxOk_ext {hist ext : List (List Chan)} {c : Ctx} (h : CtxOk hist c) : CtxOk (hist ++ ext) c := by
  obtain ⟨l, hl, h1, h2⟩ := h
  refine ⟨l, ?_, h1, h2⟩
  have : c.gen < hist.length := (List.getElem?_eq_some_iff.mp hl).1
  rw [List.getElem?_append_left this]; exact hl

/-! ### writer steps -/

theorem wBegin_rdinv {s s' : State} {rq : WReq} (hI : RDInv s) (h : wBegin s rq = some s') :
    RDInv s' := by
  unfold wBegin at h
  split at h
  · rename_i hw
    injection h with h; subst h
    have hholds : (s.setW rq.begin).w.holds = s.w.holds := by
      rw [hw]; cases rq <;> simp [WReq.begin, WPc.holds]
    exact ⟨hI.ctx, hI.glo, hI.dhist, hI.dtop, fun x hx sd hsd => hI.drest x hx sd (by rw [← hholds]; exact hsd),
      hI.dctx, hI.dpc⟩
  · cases h

theorem removedIds_mem {hist : List (List Chan)} {g0 : Nat} {cur : List Chan} {x : Nat}
    (h : x ∈ removedIds hist g0 cur) : x ∉ ids cur ∧ ∃ pre, hist[g0]? = some pre ∧ x ∈ ids pre := by
  unfold removedIds at h
  split at h
  · rename_i pre hpre
    simp only [List.mem_filter, Bool.not_eq_eq_eq_not, Bool.not_true, List.contains_eq_mem,
      decide_eq_false_iff_not] at h
    exact ⟨h.2, pre, hpre, h.1⟩
  · cases h

theorem wStep_rdinv {s s' : State} {ret : Option Ret} (hT : TInv s) (hL : LInv s) (hId : IdInv s)
    (hI : RDInv s) (h : wStep s = some (s', ret)) : RDInv s' := by
  have hF := wStep_frame h
  obtain ⟨ext, hext⟩ := hF.hist
  obtain ⟨dext, hdext⟩ := hF.dead
  have hT' := wStep_tinv hT h
  -- old dead ids stay out of the newest table
  have dtop_old : ∀ x ∈ s.dead, x ∉ ids (top s'.hist).chans := by
    intro x hx
    by_cases hlk : ∃ op w, s.w = .lk1 op w
    · obtain ⟨op, w, hw⟩ := hlk
      have hs' : s' = lock1 s op w := by
        simp only [wStep, hw] at h
        split at h
        · cases h
        · injection h with h; injection h with h _; exact h.symm
      obtain ⟨_, hh, hq⟩ := hT
      rw [hw] at hq
      have htop : s.side w = top s.hist := hq.1 w
      have hs'h : s'.hist = histAfter s.cap s.hist (plan s.cap op (s.side w)).1 (s.side w) := by
        rw [hs']; simp [lock1]
      rw [hs'h]
      unfold histAfter
      split
      · exact hI.dtop x hx
      · split
        · rename_i sd' hrun
          rw [top_append]
          intro hxl
          obtain ⟨c', hc', hid⟩ := List.mem_map.mp hxl
          rcases runProg_mem hrun hc' with hc2 | hc2
          · rw [htop] at hc2
            exact hI.dtop x hx (hid ▸ List.mem_map_of_mem (f := Chan.id) hc2)
          · have hop := plan_pushes _ _ _ hc2
            subst hop
            obtain ⟨l0, hl0, hx0⟩ := hI.dhist x hx
            obtain ⟨c0, hc0, hid0⟩ := List.mem_map.mp hx0
            have := (hId.2.1 c'.id (by rw [hw]; rfl)).2 l0 hl0 c0 hc0
            omega
        · exact hI.dtop x hx
    · have hhist : s'.hist = s.hist := by
        unfold wStep at h
        split at h
        · cases h
        · injection h with h; injection h with h _; subst h; rfl
        · injection h with h; injection h with h _; subst h; rfl
        · rename_i op w hw; exact absurd ⟨op, w, hw⟩ hlk
        · injection h with h; injection h with h _; subst h; unfold muStep; split <;> simp
        · rename_i w nx r g0 hw
          injection h with h
          cases nx <;> (simp only [unlock1, Prod.mk.injEq] at h; obtain ⟨rfl, _⟩ := h; simp)
        · injection h with h; injection h with h _; subst h; simp [swapOff]
        · split at h
          · cases h
          · injection h with h; injection h with h _; subst h; simp [lock2]
        · injection h with h; injection h with h _; subst h; unfold muStep; split <;> simp
        · injection h with h; injection h with h _; subst h; simp
        · injection h with h; injection h with h _; subst h; simp [storeOff]
      rw [hhist]; exact hI.dtop x hx
  -- lists at rest after the step, for old dead ids
  have drest_old : ∀ x ∈ s.dead, ∀ sd, s'.w.holds ≠ some sd → x ∉ ids (s'.side sd).chans := by
    intro x hx sd hsd
    by_cases hold : s.w.holds = some sd
    · -- just released: the list is the newest table, and the step left the lists alone
      have htop := wStep_released_top hT h hold hsd
      rcases wStep_side_or_holds h with hs | hs
      · rw [hs, htop]; exact hI.dtop x hx
      · rw [hs] at hsd; exact absurd hold hsd
    · rw [hF.side sd hold]; exact hI.drest x hx sd hold
  -- new dead ids (only the final `woff.store` creates them)
  have newdead : ∀ x ∈ dext, x ∉ s.dead →
      (∃ r rt g0, s.w = .st r rt g0 ∧ x ∉ ids (top s.hist).chans ∧ (∃ pre, s.hist[g0]? = some pre ∧ x ∈ ids pre) ∧
        s'.hist = s.hist ∧ (∀ sd, s'.side sd = top s.hist) ∧ s'.w = .idle) := by
    intro x hx hnot
    have hne : s'.dead ≠ s.dead := by
      intro e; rw [e] at hdext
      have := List.append_cancel_left (hdext.symm.trans (List.append_nil _).symm |>.symm)
      subst this; cases hx
    unfold wStep at h
    split at h
    · cases h
    · injection h with h; injection h with h _; subst h; exact absurd rfl hne
    · injection h with h; injection h with h _; subst h; exact absurd rfl hne
    · split at h
      · cases h
      · injection h with h; injection h with h _; subst h; exact absurd (by simp [lock1]) hne
    · injection h with h; injection h with h _; subst h
      exact absurd (by unfold muStep; split <;> simp) hne
    · rename_i w nx r g0 hw
      injection h with h
      cases nx <;> (simp only [unlock1, Prod.mk.injEq] at h; obtain ⟨rfl, _⟩ := h; exact absurd (by simp) hne)
    · injection h with h; injection h with h _; subst h; exact absurd (by simp [swapOff]) hne
    · split at h
      · cases h
      · injection h with h; injection h with h _; subst h; exact absurd (by simp [lock2]) hne
    · injection h with h; injection h with h _; subst h
      exact absurd (by unfold muStep; split <;> simp) hne
    · injection h with h; injection h with h _; subst h; exact absurd (by simp) hne
    · rename_i r rt g0 hw
      injection h with h; injection h with h _; subst h
      obtain ⟨_, _, hq⟩ := hT
      rw [hw] at hq
      obtain ⟨_, _, htop1, htop2, _⟩ := hq
      have hde : dext = removedIds s.hist g0 (s.side r).chans := by
        have : (storeOff s r g0).dead = s.dead ++ removedIds s.hist g0 (s.side r).chans := by simp [storeOff]
        rw [this] at hdext; exact (List.append_cancel_left hdext).symm
      rw [hde, htop2] at hx
      obtain ⟨h1, h2⟩ := removedIds_mem hx
      refine ⟨r, rt, g0, hw, h1, h2, by simp [storeOff], ?_, by simp [storeOff]⟩
      intro sd
      simp only [storeOff, side_setW, side_setDead, side_setWO]
      by_cases e : sd = r
      · subst e; exact htop2
      · have : sd = !r := by cases sd <;> cases r <;> simp_all
        subst this; exact htop1
  have hdead' : ∀ x, x ∈ s'.dead ↔ x ∈ s.dead ∨ x ∈ dext := by
    intro x; rw [hdext, List.mem_append]
  refine ⟨?_, ?_, ?_, ?_, ?_, ?_, ?_⟩
  · -- ctx
    intro i r k c hr hc
    rw [hF.rs] at hr
    obtain ⟨h1, h2⟩ := hI.ctx i r k c hr hc
    exact ⟨by rw [hext]; exact CtxOk_ext h1, h2⟩
  · -- glo
    intro i r hr
    rw [hF.rs] at hr
    have hg := hI.glo i r hr
    unfold GloOk at hg ⊢
    split
    · rename_i k sd ch idx hpc
      rw [hpc] at hg
      have hhold : s.holder sd = some (i + 1) := hL.2 i r sd hr (by simp [hpc, RPc.holds])
      have hnw : s.w.holds ≠ some sd := by
        intro hw; have := hL.1 sd hw; rw [this] at hhold; injection hhold with hh; omega
      rw [hF.side sd hnw]; exact hg
    · trivial
  · -- dhist
    intro x hx
    by_cases hold : x ∈ s.dead
    · obtain ⟨l, hl, hxl⟩ := hI.dhist x hold
      exact ⟨l, by rw [hext]; exact List.mem_append_left _ hl, hxl⟩
    · have hxn : x ∈ dext := ((hdead' x).mp hx).resolve_left hold
      obtain ⟨r, rt, g0, _, _, ⟨pre, hpre, hxp⟩, hh, _, _⟩ := newdead x hxn hold
      exact ⟨pre, by rw [hh]; exact List.mem_of_getElem? hpre, hxp⟩
  · -- dtop
    intro x hx
    by_cases hold : x ∈ s.dead
    · exact dtop_old x hold
    · have hxn : x ∈ dext := ((hdead' x).mp hx).resolve_left hold
      obtain ⟨r, rt, g0, _, hnt, _, hh, _, _⟩ := newdead x hxn hold
      rw [hh]; exact hnt
  · -- drest
    intro x hx sd hsd
    by_cases hold : x ∈ s.dead
    · exact drest_old x hold sd hsd
    · have hxn : x ∈ dext := ((hdead' x).mp hx).resolve_left hold
      obtain ⟨r, rt, g0, _, hnt, _, _, hsides, _⟩ := newdead x hxn hold
      rw [hsides]; exact hnt
  · -- dctx
    intro x hx i r k c hr hc hid sd
    rw [hF.rs] at hr
    by_cases hold : x ∈ s.dead
    · exact Nat.lt_of_lt_of_le (hI.dctx x hold i r k c hr hc hid sd) (hF.gen sd)
    · have hxn : x ∈ dext := ((hdead' x).mp hx).resolve_left hold
      obtain ⟨r0, rt, g0, _, hnt, _, _, hsides, _⟩ := newdead x hxn hold
      rw [hsides]
      obtain ⟨⟨l, hl, hmem, hcid⟩, _⟩ := hI.ctx i r k c hr hc
      have hlt : c.gen < s.hist.length := (List.getElem?_eq_some_iff.mp hl).1
      have hne : c.gen ≠ s.hist.length - 1 := by
        intro e
        have htg := hist_top_get s.hist hT.2.1
        simp only [top] at htg
        rw [e] at hl
        rw [hl] at htg
        have : l = (top s.hist).chans := by simpa [top] using htg
        apply hnt
        rw [← this, ← hid, ← hcid]
        exact List.mem_map_of_mem (f := Chan.id) hmem
      simp only [top]; omega
  · -- dpc
    intro i r hr hd
    rw [hF.rs] at hr
    rcases hI.dpc i r hr hd with h0 | ⟨x, hx, hok⟩
    · exact Or.inl h0
    · exact Or.inr ⟨x, (hdead' x).mpr (Or.inl hx), hok⟩

end AranyaV.Shm
