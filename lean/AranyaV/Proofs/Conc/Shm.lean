import AranyaV.Proofs.Conc.ShmSimp
/-!
Inductive invariants of the shared-memory channel-table transition system (`AranyaV.Shm`).

* `TInv` — the *table invariant*: for every control state of the writer, what the two lists,
  the offsets and the ghost history look like.  It only mentions the part of the state
  readers never write (`State.tab`), so reader steps preserve it by a frame argument.
* `LInv` — the *lock invariant*: a thread whose control state says it holds a list is
  recorded as the holder of that list's lock.
-/
namespace AranyaV.Shm

/-! ## projections and frame lemmas -/

/-- the part of the state that only the writer changes -/
structure Tab where
  a : Side
  b : Side
  ro : Bool
  wo : Bool
  nextId : Nat
  cap : Nat
  corrupt : Bool
  hist : List (List Chan)
  w : WPc

def State.tab (s : State) : Tab :=
  ⟨s.a, s.b, s.readOff, s.writeOff, s.nextId, s.cap, s.corrupt, s.hist, s.w⟩

def Tab.side (t : Tab) (x : Bool) : Side := if x then t.b else t.a

/-- the newest produced table with its generation -/
def Tab.top (t : Tab) : Side := ⟨t.hist.length - 1, t.hist.getLast?.getD []⟩

@[simp] theorem tab_setHolder (s : State) (x : Bool) (h : Option Nat) :
    (s.setHolder x h).tab = s.tab := by
  cases x <;> rfl

@[simp] theorem tab_setRs (s : State) (l : List Reader) : (s.setRs l).tab = s.tab := rfl

theorem applyLock_tab (s : State) (i : Nat) (e : LockEff) : (applyLock s i e).tab = s.tab := by
  cases e <;> simp [applyLock]

/-- reader steps do not touch the table part -/
theorem rStep_tab {s s' : State} {i : Nat} {ret : Option Ret} (h : rStep s i = some (s', ret)) :
    s'.tab = s.tab := by
  unfold rStep at h
  split at h
  · cases h
  · split at h
    · cases h
    · injection h with h; injection h with h1 _; subst h1
      rw [applyLock_tab]; rfl

theorem rBegin_tab {s s' : State} {i : Nat} {op : ROp} {ret : Option Ret}
    (h : rBegin s i op = some (s', ret)) : s'.tab = s.tab := by
  unfold rBegin at h
  split at h
  · cases h
  · split at h
    · cases h
    · injection h with h; injection h with h1 _; subst h1; rfl

/-! ## the table invariant -/

/-- the newest produced table with its generation -/
def top (hist : List (List Chan)) : Side := ⟨hist.length - 1, hist.getLast?.getD []⟩

/-- `pre` is the table of generation `g0` and the second-side program takes it to the top -/
def P2ok (cap : Nat) (hist : List (List Chan)) (p2 : Prog2) (g0 : Nat) (pre : List Chan) : Prop :=
  hist[g0]? = some pre ∧ runProg cap (p2.expand pre) ⟨g0, pre⟩ = some (top hist) ∧ hist.length ≤ g0 + 2

/-- what the lists and offsets look like at each control state of the writer -/
def TBody (side : Bool → Side) (ro wo : Bool) (cap : Nat) (hist : List (List Chan)) : WPc → Prop
  | .idle => (∀ x, side x = top hist) ∧ ro = !wo
  | .nid _ _ => (∀ x, side x = top hist) ∧ ro = !wo
  | .ldW _ => (∀ x, side x = top hist) ∧ ro = !wo
  | .lk1 _ w => (∀ x, side x = top hist) ∧ ro = !wo ∧ w = wo
  | .mu1 w todo none _ _ => (∀ x, side x = top hist) ∧ ro = !wo ∧ w = wo ∧ todo = []
  | .mu1 w todo (some p2) _ g0 =>
    w = wo ∧ ro = !w ∧ runProg cap todo (side w) = some (top hist) ∧
      ∃ pre, side (!w) = ⟨g0, pre⟩ ∧ P2ok cap hist p2 g0 pre
  | .sw w p2 _ g0 =>
    w = wo ∧ ro = !w ∧ side w = top hist ∧ ∃ pre, side (!w) = ⟨g0, pre⟩ ∧ P2ok cap hist p2 g0 pre
  | .lk2 r p2 _ g0 =>
    wo = !r ∧ ro = !r ∧ side (!r) = top hist ∧ ∃ pre, side r = ⟨g0, pre⟩ ∧ P2ok cap hist p2 g0 pre
  | .mu2 r todo _ g0 =>
    wo = !r ∧ ro = !r ∧ side (!r) = top hist ∧ runProg cap todo (side r) = some (top hist) ∧
      ∃ pre, hist[g0]? = some pre
  | .st r _ g0 =>
    wo = !r ∧ ro = !r ∧ side (!r) = top hist ∧ side r = top hist ∧ ∃ pre, hist[g0]? = some pre

def TInv (s : State) : Prop :=
  s.corrupt = false ∧ s.hist ≠ [] ∧ TBody s.side s.readOff s.writeOff s.cap s.hist s.w

theorem tinv_init (cap n : Nat) : TInv (init cap n) := by
  refine ⟨rfl, by simp [init], ?_⟩
  refine ⟨?_, rfl⟩
  intro x; cases x <;> simp [init, State.side, top]

theorem side_eq_of_tab {s s' : State} (h : s'.tab = s.tab) : s'.side = s.side := by
  have ha : s'.a = s.a := congrArg Tab.a h
  have hb : s'.b = s.b := congrArg Tab.b h
  funext x; cases x <;> simp [State.side, ha, hb]

theorem tinv_of_tab {s s' : State} (h : s'.tab = s.tab) (hI : TInv s) : TInv s' := by
  have hs := side_eq_of_tab h
  have h1 : s'.readOff = s.readOff := congrArg Tab.ro h
  have h2 : s'.writeOff = s.writeOff := congrArg Tab.wo h
  have h3 : s'.cap = s.cap := congrArg Tab.cap h
  have h4 : s'.corrupt = s.corrupt := congrArg Tab.corrupt h
  have h5 : s'.hist = s.hist := congrArg Tab.hist h
  have h6 : s'.w = s.w := congrArg Tab.w h
  unfold TInv; rw [hs, h1, h2, h3, h4, h5, h6]; exact hI

/-! ### programs run without `Corrupted` -/

theorem idxOf_lt (l : List Chan) (x k i : Nat) (h : idxOf l x k = some i) : k ≤ i ∧ i < k + l.length := by
  induction l generalizing k with
  | nil => simp [idxOf] at h
  | cons c cs ih =>
    simp only [idxOf] at h
    split at h
    · injection h with h; subst h; simp
    · have := ih (k + 1) h
      simp only [List.length_cons]; omega

theorem rifIdxs_run (cap : Nat) (p : Chan → Bool) (fuel : Nat) (l : List Chan) (i g : Nat) :
    ∃ l', runProg cap ((rifIdxs p fuel l i).map .swapRm) ⟨g, l⟩ = some ⟨g, l'⟩ := by
  induction fuel generalizing l i with
  | zero => exact ⟨l, by simp [rifIdxs, runProg]⟩
  | succ f ih =>
    simp only [rifIdxs]
    split
    · exact ⟨l, by simp [runProg]⟩
    · rename_i c hc
      split
      · have hi : i < l.length := by
          have := List.getElem?_eq_some_iff.mp hc; exact this.1
        obtain ⟨l', hl'⟩ := ih (swapRemove l i) i
        exact ⟨l', by simp [runProg, applyM, hi, hl']⟩
      · exact ih l (i + 1)

/-- a non-empty program of `plan` bumps the generation exactly once and does not fail; the
second-side program, run on the same contents, gives the same result -/
theorem plan_run (cap : Nat) (op : WOp) (sd : Side) {prog : List MOp} {p2 : Prog2} {ret : Ret}
    (h : plan cap op sd = (prog, some p2, ret)) :
    p2.expand sd.chans = prog ∧
    (prog = [] ∨ ∃ l', runProg cap prog sd = some ⟨sd.gen + 1, l'⟩) := by
  cases op with
  | add c =>
    simp only [plan] at h
    split at h
    · cases h
    · rename_i hlt
      injection h with h1 h2; injection h2 with h2 _
      injection h2 with h2; subst h1; subst h2
      refine ⟨rfl, Or.inr ⟨sd.chans ++ [c], ?_⟩⟩
      have : sd.chans.length < cap := by omega
      simp [runProg, applyM, this]
  | remove x =>
    simp only [plan] at h
    split at h
    · cases h
    · rename_i i hi
      injection h with h1 h2; injection h2 with h2 _
      injection h2 with h2; subst h1; subst h2
      have := idxOf_lt sd.chans x 0 i hi
      refine ⟨rfl, Or.inr ⟨swapRemove sd.chans i, ?_⟩⟩
      have hi' : i < sd.chans.length := by omega
      simp [runProg, applyM, hi']
  | removeAll =>
    simp only [plan] at h
    injection h with h1 h2; injection h2 with h2 _
    injection h2 with h2; subst h1; subst h2
    exact ⟨rfl, Or.inr ⟨[], by simp [runProg, applyM]⟩⟩
  | removeIf p =>
    simp only [plan] at h
    split at h
    · cases h
    · injection h with h1 h2; injection h2 with h2 _
      injection h2 with h2; subst h1; subst h2
      refine ⟨rfl, ?_⟩
      unfold rifProg
      split
      · exact Or.inl rfl
      · rename_i is hne
        obtain ⟨l', hl'⟩ := rifIdxs_run cap p sd.chans.length sd.chans 0 (sd.gen + 1)
        exact Or.inr ⟨l', by simp only [runProg, applyM]; exact hl'⟩
  | exists_ x => simp [plan] at h

theorem plan_none (cap : Nat) (op : WOp) (sd : Side) {prog : List MOp} {ret : Ret}
    (h : plan cap op sd = (prog, none, ret)) : prog = [] := by
  cases op with
  | add c =>
    simp only [plan] at h
    split at h
    · injection h with h1 _; exact h1.symm
    · cases h
  | remove x =>
    simp only [plan] at h
    split at h
    · injection h with h1 _; exact h1.symm
    · cases h
  | removeAll => simp [plan] at h
  | removeIf p =>
    simp only [plan] at h
    split at h
    · injection h with h1 _; exact h1.symm
    · cases h
  | exists_ x =>
    simp only [plan] at h
    injection h with h1 _; exact h1.symm

theorem top_append (hist : List (List Chan)) (l : List Chan) :
    top (hist ++ [l]) = ⟨hist.length, l⟩ := by
  simp [top]

theorem runProg_cons_some {cap : Nat} {m : MOp} {ms : List MOp} {sd r : Side}
    (h : runProg cap (m :: ms) sd = some r) : ∃ sd', applyM cap m sd = some sd' ∧ runProg cap ms sd' = some r := by
  simp only [runProg] at h
  split at h
  · rename_i sd' hs; exact ⟨sd', hs, h⟩
  · cases h

theorem hist_top_get (hist : List (List Chan)) (hh : hist ≠ []) :
    hist[(top hist).gen]? = some (top hist).chans := by
  simp only [top]
  rw [List.getLast?_eq_getElem?]
  cases h : hist[hist.length - 1]? with
  | none =>
    have := List.getElem?_eq_none_iff.mp h
    have : 0 < hist.length := List.length_pos_iff.mpr hh
    omega
  | some l => rfl

/-! ### the writer preserves the table invariant -/

theorem wBegin_tinv {s s' : State} {rq : WReq} (hI : TInv s) (h : wBegin s rq = some s') :
    TInv s' := by
  unfold wBegin at h
  split at h
  · rename_i hw
    injection h with h; subst h
    obtain ⟨hc, hh, hq⟩ := hI
    rw [hw] at hq
    refine ⟨hc, hh, ?_⟩
    cases rq <;> exact hq
  · cases h

theorem lock1_tinv {s : State} {op : WOp} {w : Bool} (hI : TInv s) (hw : s.w = .lk1 op w) :
    TInv (lock1 s op w) := by
  obtain ⟨hc, hh, hq⟩ := hI
  rw [hw] at hq
  obtain ⟨hside, hro, hwo⟩ := hq
  have htop : s.side w = top s.hist := hside w
  unfold lock1
  generalize hpl : plan s.cap op (s.side w) = pl
  obtain ⟨prog, nx, r⟩ := pl
  cases nx with
  | none =>
    have hp := plan_none _ _ _ hpl
    subst hp
    refine ⟨by simpa using hc, by simpa [histAfter] using hh, ?_⟩
    simp only [w_setW, sideF_setW, sideF_setHist, sideF_setHolder, readOff_setW, readOff_setHist,
      readOff_setHolder, writeOff_setW, writeOff_setHist, writeOff_setHolder, cap_setW, cap_setHist,
      cap_setHolder, hist_setW, hist_setHist, histAfter]
    exact ⟨hside, hro, hwo, rfl⟩
  | some p2 =>
    obtain ⟨hexp, hrun⟩ := plan_run _ _ _ hpl
    rcases hrun with hnil | ⟨l', hl'⟩
    · subst hnil
      refine ⟨by simpa using hc, by simpa [histAfter] using hh, ?_⟩
      simp only [w_setW, sideF_setW, sideF_setHist, sideF_setHolder, readOff_setW, readOff_setHist,
        readOff_setHolder, writeOff_setW, writeOff_setHist, writeOff_setHolder, cap_setW, cap_setHist,
        cap_setHolder, hist_setW, hist_setHist, histAfter]
      refine ⟨hwo, by rw [hro, hwo], ?_, (top s.hist).chans, ?_, ?_, ?_, ?_⟩
      · simp [runProg, htop]
      · rw [hside, htop]
      · rw [htop]; exact hist_top_get _ hh
      · rw [htop] at hexp; rw [hexp, htop]; simp [runProg]
      · rw [htop]; simp only [top]; omega
    · have hne : prog ≠ [] := by
        intro h0; subst h0
        simp only [runProg] at hl'
        have := congrArg Side.gen (Option.some.inj hl')
        simp at this
      have hha : histAfter s.cap s.hist prog (s.side w) = s.hist ++ [l'] := by
        unfold histAfter
        cases prog with
        | nil => exact absurd rfl hne
        | cons m ms => simp [hl']
      have hgen : (top s.hist).gen + 1 = s.hist.length := by
        have : 0 < s.hist.length := List.length_pos_iff.mpr hh
        simp only [top]; omega
      refine ⟨by simpa using hc, by simp [hha], ?_⟩
      simp only [w_setW, sideF_setW, sideF_setHist, sideF_setHolder, readOff_setW, readOff_setHist,
        readOff_setHolder, writeOff_setW, writeOff_setHist, writeOff_setHolder, cap_setW, cap_setHist,
        cap_setHolder, hist_setW, hist_setHist, hha]
      simp only [TBody, top_append]
      refine ⟨hwo, by rw [hro, hwo], ?_, (top s.hist).chans, ?_, ?_, ?_, ?_⟩
      · rw [hl', htop, hgen]
      · rw [hside, htop]
      · rw [htop, List.getElem?_append_left (by omega)]; exact hist_top_get _ hh
      · rw [htop] at hexp hl'; rw [hexp, htop]
        show runProg s.cap prog (top s.hist) = _
        rw [hl', hgen, top_append]
      · rw [htop]; simp only [List.length_append, List.length_singleton]; omega

theorem muStep1_tinv {s : State} {w : Bool} {m : MOp} {rest : List MOp} {nx : Option Prog2}
    {ret : Ret} {g0 : Nat} (hI : TInv s) (hw : s.w = .mu1 w (m :: rest) nx ret g0) :
    TInv (muStep s w m (.mu1 w rest nx ret g0) (.mu1 w [] none ret g0)) := by
  obtain ⟨hc, hh, hq⟩ := hI
  rw [hw] at hq
  cases nx with
  | none => obtain ⟨_, _, _, h⟩ := hq; cases h
  | some p2 =>
    obtain ⟨hwo, hro, hrun, pre, hpre, hp2⟩ := hq
    obtain ⟨sd', hsd, hrest⟩ := runProg_cons_some hrun
    unfold muStep; rw [hsd]
    refine ⟨by simpa using hc, by simpa using hh, ?_⟩
    simp only [w_setW, sideF_setW, readOff_setW, readOff_setSide, writeOff_setW, writeOff_setSide,
      cap_setW, cap_setSide, hist_setW, hist_setSide]
    exact ⟨hwo, hro, by simpa using hrest, pre, by simpa using hpre, hp2⟩

theorem unlock1_tinv {s : State} {w : Bool} {nx : Option Prog2} {ret : Ret} {g0 : Nat}
    (hI : TInv s) (hw : s.w = .mu1 w [] nx ret g0) : TInv (unlock1 s w nx ret g0).1 := by
  obtain ⟨hc, hh, hq⟩ := hI
  rw [hw] at hq
  cases nx with
  | none =>
    obtain ⟨hside, hro, _, _⟩ := hq
    refine ⟨by simpa [unlock1] using hc, by simpa [unlock1] using hh, ?_⟩
    simp only [unlock1, w_setW, sideF_setW, sideF_setHolder, readOff_setW, readOff_setHolder,
      writeOff_setW, writeOff_setHolder, cap_setW, cap_setHolder, hist_setW, hist_setHolder]
    exact ⟨hside, hro⟩
  | some p2 =>
    obtain ⟨hwo, hro, hrun, pre, hpre, hp2⟩ := hq
    refine ⟨by simpa [unlock1] using hc, by simpa [unlock1] using hh, ?_⟩
    simp only [unlock1, w_setW, sideF_setW, sideF_setHolder, readOff_setW, readOff_setHolder,
      writeOff_setW, writeOff_setHolder, cap_setW, cap_setHolder, hist_setW, hist_setHolder]
    refine ⟨hwo, hro, ?_, pre, hpre, hp2⟩
    simpa [runProg] using hrun

theorem swapOff_tinv {s : State} {w : Bool} {p2 : Prog2} {ret : Ret} {g0 : Nat}
    (hI : TInv s) (hw : s.w = .sw w p2 ret g0) : TInv (swapOff s w p2 ret g0) := by
  obtain ⟨hc, hh, hq⟩ := hI
  rw [hw] at hq
  obtain ⟨hwo, hro, htop, pre, hpre, hp2⟩ := hq
  refine ⟨by simpa [swapOff] using hc, by simpa [swapOff] using hh, ?_⟩
  simp only [swapOff, w_setW, sideF_setW, sideF_setRO, readOff_setW, readOff_setRO, writeOff_setW,
    writeOff_setRO, cap_setW, cap_setRO, hist_setW, hist_setRO]
  rw [hro]
  refine ⟨by rw [← hwo]; simp, by simp, by simpa using htop, pre, hpre, hp2⟩

theorem lock2_tinv {s : State} {r : Bool} {p2 : Prog2} {ret : Ret} {g0 : Nat}
    (hI : TInv s) (hw : s.w = .lk2 r p2 ret g0) : TInv (lock2 s r p2 ret g0) := by
  obtain ⟨hc, hh, hq⟩ := hI
  rw [hw] at hq
  obtain ⟨hwo, hro, htop, pre, hpre, hget, hrun, _⟩ := hq
  refine ⟨by simpa [lock2] using hc, by simpa [lock2] using hh, ?_⟩
  simp only [lock2, w_setW, sideF_setW, sideF_setHolder, readOff_setW, readOff_setHolder,
    writeOff_setW, writeOff_setHolder, cap_setW, cap_setHolder, hist_setW, hist_setHolder]
  refine ⟨hwo, hro, htop, ?_, pre, hget⟩
  rw [hpre]; exact hrun

theorem muStep2_tinv {s : State} {r : Bool} {m : MOp} {rest : List MOp} {ret : Ret} {g0 : Nat}
    (hI : TInv s) (hw : s.w = .mu2 r (m :: rest) ret g0) :
    TInv (muStep s r m (.mu2 r rest ret g0) (.mu2 r [] ret g0)) := by
  obtain ⟨hc, hh, hq⟩ := hI
  rw [hw] at hq
  obtain ⟨hwo, hro, htop, hrun, pre, hget⟩ := hq
  obtain ⟨sd', hsd, hrest⟩ := runProg_cons_some hrun
  unfold muStep; rw [hsd]
  refine ⟨by simpa using hc, by simpa using hh, ?_⟩
  simp only [w_setW, sideF_setW, readOff_setW, readOff_setSide, writeOff_setW, writeOff_setSide,
    cap_setW, cap_setSide, hist_setW, hist_setSide]
  exact ⟨hwo, hro, by simpa using htop, by simpa using hrest, pre, hget⟩

theorem unlock2_tinv {s : State} {r : Bool} {ret : Ret} {g0 : Nat}
    (hI : TInv s) (hw : s.w = .mu2 r [] ret g0) :
    TInv ((s.setHolder r none).setW (.st r ret g0)) := by
  obtain ⟨hc, hh, hq⟩ := hI
  rw [hw] at hq
  obtain ⟨hwo, hro, htop, hrun, pre, hget⟩ := hq
  refine ⟨by simpa using hc, by simpa using hh, ?_⟩
  simp only [w_setW, sideF_setW, sideF_setHolder, readOff_setW, readOff_setHolder,
    writeOff_setW, writeOff_setHolder, cap_setW, cap_setHolder, hist_setW, hist_setHolder]
  refine ⟨hwo, hro, htop, ?_, pre, hget⟩
  simpa [runProg] using hrun

theorem storeOff_tinv {s : State} {r : Bool} {ret : Ret} {g0 : Nat}
    (hI : TInv s) (hw : s.w = .st r ret g0) : TInv (storeOff s r g0) := by
  obtain ⟨hc, hh, hq⟩ := hI
  rw [hw] at hq
  obtain ⟨hwo, hro, htop, htop2, _⟩ := hq
  refine ⟨by simpa [storeOff] using hc, by simpa [storeOff] using hh, ?_⟩
  simp only [storeOff, w_setW, sideF_setW, sideF_setDead, sideF_setWO, readOff_setW, readOff_setDead,
    readOff_setWO, writeOff_setW, writeOff_setDead, writeOff_setWO, cap_setW, cap_setDead, cap_setWO,
    hist_setW, hist_setDead, hist_setWO]
  refine ⟨?_, hro⟩
  intro x
  by_cases hx : x = r
  · subst hx; exact htop2
  · have : x = !r := by cases x <;> cases r <;> simp_all
    subst this; exact htop

theorem wStep_tinv {s s' : State} {ret : Option Ret} (hI : TInv s)
    (h : wStep s = some (s', ret)) : TInv s' := by
  unfold wStep at h
  split at h
  · cases h
  · rename_i d p hw
    injection h with h; injection h with h _; subst h
    obtain ⟨hc, hh, hq⟩ := hI
    rw [hw] at hq
    exact ⟨hc, hh, hq⟩
  · rename_i op hw
    injection h with h; injection h with h _; subst h
    obtain ⟨hc, hh, hq⟩ := hI
    rw [hw] at hq
    exact ⟨hc, hh, hq.1, hq.2, rfl⟩
  · rename_i op w hw
    split at h
    · cases h
    · injection h with h; injection h with h _; subst h
      exact lock1_tinv hI hw
  · rename_i w m rest nx r g0 hw
    injection h with h; injection h with h _; subst h
    exact muStep1_tinv hI hw
  · rename_i w nx r g0 hw
    injection h with h
    have := unlock1_tinv (nx := nx) (ret := r) (g0 := g0) hI hw
    rw [h] at this; exact this
  · rename_i w p2 r g0 hw
    injection h with h; injection h with h _; subst h
    exact swapOff_tinv hI hw
  · rename_i r p2 rt g0 hw
    split at h
    · cases h
    · injection h with h; injection h with h _; subst h
      exact lock2_tinv hI hw
  · rename_i r m rest rt g0 hw
    injection h with h; injection h with h _; subst h
    exact muStep2_tinv hI hw
  · rename_i r rt g0 hw
    injection h with h; injection h with h _; subst h
    exact unlock2_tinv hI hw
  · rename_i r rt g0 hw
    injection h with h; injection h with h _; subst h
    exact storeOff_tinv hI hw

end AranyaV.Shm
