import AranyaV.Model.Conc.Arc
import AranyaV.Proofs.Conc.Count
/-!
Inductive invariant of the `ArcStr` transition system: the counter equals the number of live
handles; free accounting; no access after free.
-/
namespace AranyaV.Arc

open AranyaV.Conc

def atDrop (t : Th) : Bool := t.pc == .drop
def atFree (t : Th) : Bool := t.pc == .free
/-- in `clone` / reading without owning a handle (never happens) -/
def noHandleOp (t : Th) : Bool := (t.pc == .clone || t.pc == .read) && t.handles == 0

/-- total number of handles owned by the threads -/
def sumH (l : List Th) : Nat := (l.map Th.handles).sum

def State.count (s : State) (f : Th → Bool) : Nat := s.ths.countP f

/-- handles that keep the allocation alive: owned ones plus those in the middle of `drop`
(before the `fetch_sub`) -/
def State.live (s : State) : Nat := sumH s.ths + s.count atDrop

theorem sumH_set {l : List Th} {t : Nat} {th : Th} (th' : Th) (h : l[t]? = some th) :
    sumH (l.set t th') + th.handles = sumH l + th'.handles := by
  induction l generalizing t with
  | nil => simp at h
  | cons a l ih =>
    cases t with
    | zero =>
      simp at h; subst h
      simp [sumH]; omega
    | succ t =>
      simp at h
      have := ih h
      simp [sumH] at this ⊢; omega

theorem handles_le_sumH {l : List Th} {t : Nat} {th : Th} (h : l[t]? = some th) :
    th.handles ≤ sumH l := by
  induction l generalizing t with
  | nil => simp at h
  | cons a l ih =>
    cases t with
    | zero => simp at h; subst h; simp [sumH]
    | succ t =>
      simp at h
      have := ih h
      simp [sumH] at this ⊢; omega

theorem countP_ge_of_get {α : Type} (f : α → Bool) {l : List α} {t : Nat} {p : α}
    (h : l[t]? = some p) : (if f p then 1 else 0) ≤ l.countP f := by
  cases hf : f p
  · simp
  · have := countP_pos_of_get f h hf; simpa using this

structure Inv (s : State) : Prop where
  strong_eq : s.strong = s.live
  handle_ops : s.count noHandleOp = 0
  live_unfreed : 1 ≤ s.strong → s.freed = 0 ∧ s.count atFree = 0
  dead_freed : s.strong = 0 → s.freed + s.count atFree = 1
  no_uaf : s.uaf = false

theorem inv_init (n : Nat) : Inv (init n) := by
  constructor <;>
    simp [init, State.count, State.live, sumH, List.countP_replicate, atDrop, atFree, noHandleOp,
      List.countP_cons]

/-- the counting facts for replacing thread `t`'s record `th` by `th'` -/
structure Upd (l : List Th) (t : Nat) (th th' : Th) : Prop where
  e0 : sumH (l.set t th') + th.handles = sumH l + th'.handles
  e1 : (l.set t th').countP atDrop + (if atDrop th then 1 else 0)
        = l.countP atDrop + (if atDrop th' then 1 else 0)
  e2 : (l.set t th').countP atFree + (if atFree th then 1 else 0)
        = l.countP atFree + (if atFree th' then 1 else 0)
  e3 : (l.set t th').countP noHandleOp + (if noHandleOp th then 1 else 0)
        = l.countP noHandleOp + (if noHandleOp th' then 1 else 0)
  p0 : th.handles ≤ sumH l
  p1 : (if atDrop th then 1 else 0) ≤ l.countP atDrop
  p2 : (if atFree th then 1 else 0) ≤ l.countP atFree
  p3 : (if noHandleOp th then 1 else 0) ≤ l.countP noHandleOp

theorem upd {l : List Th} {t : Nat} {th : Th} (th' : Th) (h : l[t]? = some th) :
    Upd l t th th' :=
  ⟨sumH_set _ h, countP_set _ _ h, countP_set _ _ h, countP_set _ _ h, handles_le_sumH h,
   countP_ge_of_get _ h, countP_ge_of_get _ h, countP_ge_of_get _ h⟩

theorem inv_of_upd {s : State} {t : Nat} {th th' : Th} (hth : s.ths[t]? = some th)
    {strong' freed' : Nat} {uaf' : Bool}
    (H : Upd s.ths t th th' → Inv ⟨strong', freed', uaf', s.ths.set t th'⟩) :
    Inv ⟨strong', freed', uaf', s.ths.set t th'⟩ := H (upd th' hth)

/-- one preservation case; `hth` = the old record of the thread, with a concrete pc and a
handle count that is literally `0` or `_ + 1` where it matters -/
macro "arc_case" hth:ident hI:ident : tactic => `(tactic| (
  refine inv_of_upd $hth (fun e => ?_)
  obtain ⟨e0, e1, e2, e3, p0, p1, p2, p3⟩ := e
  obtain ⟨i1, i2, i3, i4, i5⟩ := $hI
  simp only [State.count, State.live] at i1 i2 i3 i4
  (simp [atDrop, atFree, noHandleOp, -List.countP_eq_zero, -List.countP_pos_iff,
    -List.one_le_countP_iff] at e0 e1 e2 e3 p0 p1 p2 p3) <;>
  constructor <;>
  simp [State.count, State.live, State.touch, i5, -List.countP_eq_zero, -List.countP_pos_iff,
    -List.one_le_countP_iff] <;> (try omega)))

theorem inv_startClone {s s' : State} {t h : Nat} (hI : Inv s)
    (hth : s.ths[t]? = some ⟨.idle, h⟩) (hs : step s t .startClone = some s') : Inv s' := by
  unfold step at hs
  simp only [hth] at hs
  cases h <;> simp at hs <;> subst hs <;> arc_case hth hI

theorem inv_startRead {s s' : State} {t h : Nat} (hI : Inv s)
    (hth : s.ths[t]? = some ⟨.idle, h⟩) (hs : step s t .startRead = some s') : Inv s' := by
  unfold step at hs
  simp only [hth] at hs
  cases h <;> simp at hs <;> subst hs <;> arc_case hth hI

theorem inv_startDrop {s s' : State} {t h : Nat} (hI : Inv s)
    (hth : s.ths[t]? = some ⟨.idle, h⟩) (hs : step s t .startDrop = some s') : Inv s' := by
  unfold step at hs
  simp only [hth] at hs
  cases h <;> simp at hs <;> subst hs <;> arc_case hth hI

theorem inv_step_clone {s s' : State} {t h : Nat} (hI : Inv s)
    (hth : s.ths[t]? = some ⟨.clone, h⟩) (hs : step s t .step = some s') : Inv s' := by
  unfold step at hs
  simp only [hth] at hs
  cases h <;> simp at hs <;> subst hs <;> arc_case hth hI

theorem inv_step_read {s s' : State} {t h : Nat} (hI : Inv s)
    (hth : s.ths[t]? = some ⟨.read, h⟩) (hs : step s t .step = some s') : Inv s' := by
  unfold step at hs
  simp only [hth] at hs
  cases h <;> simp at hs <;> subst hs <;> arc_case hth hI

theorem inv_step_drop {s s' : State} {t h : Nat} (hI : Inv s)
    (hth : s.ths[t]? = some ⟨.drop, h⟩) (hs : step s t .step = some s') : Inv s' := by
  unfold step at hs
  simp only [hth] at hs
  by_cases h1 : s.strong = 1 <;> simp [h1] at hs <;> subst hs <;> arc_case hth hI

theorem inv_step_free {s s' : State} {t h : Nat} (hI : Inv s)
    (hth : s.ths[t]? = some ⟨.free, h⟩) (hs : step s t .step = some s') : Inv s' := by
  unfold step at hs
  simp only [hth] at hs
  simp at hs
  subst hs
  arc_case hth hI

theorem inv_give {s s' : State} {t u h : Nat} (hI : Inv s)
    (hth : s.ths[t]? = some ⟨.idle, h⟩) (hs : step s t (.give u) = some s') : Inv s' := by
  unfold step at hs
  simp only [hth] at hs
  cases h with
  | zero => simp at hs
  | succ h =>
    simp at hs
    obtain ⟨htu, hs⟩ := hs
    cases hu : (s.ths.set t ⟨.idle, h⟩)[u]? with
    | none => simp [hu] at hs
    | some tu =>
      simp [hu] at hs
      subst hs
      obtain ⟨pcu, nu⟩ := tu
      obtain ⟨a0, a1, a2, a3, q0, q1, q2, q3⟩ := upd ⟨.idle, h⟩ hth
      obtain ⟨b0, b1, b2, b3, r0, r1, r2, r3⟩ := upd ⟨pcu, nu + 1⟩ hu
      obtain ⟨i1, i2, i3, i4, i5⟩ := hI
      simp only [State.count, State.live] at i1 i2 i3 i4
      cases pcu <;> cases nu <;>
        (simp [atDrop, atFree, noHandleOp, -List.countP_eq_zero, -List.countP_pos_iff,
          -List.one_le_countP_iff] at a0 a1 a2 a3 q0 q1 q2 q3 b0 b1 b2 b3 r0 r1 r2 r3) <;>
        constructor <;>
        simp [State.count, State.live, State.touch, i5, -List.countP_eq_zero,
          -List.countP_pos_iff, -List.one_le_countP_iff] <;> (try omega)

theorem inv_step {s s' : State} {t : Nat} {op : Op} (hI : Inv s) (h : step s t op = some s') :
    Inv s' := by
  cases hth : s.ths[t]? with
  | none => simp [step, hth] at h
  | some th =>
    obtain ⟨pc, n⟩ := th
    cases op <;> cases pc
    case startClone.idle => exact inv_startClone hI hth h
    case startRead.idle => exact inv_startRead hI hth h
    case startDrop.idle => exact inv_startDrop hI hth h
    case give.idle => exact inv_give hI hth h
    case step.clone => exact inv_step_clone hI hth h
    case step.read => exact inv_step_read hI hth h
    case step.drop => exact inv_step_drop hI hth h
    case step.free => exact inv_step_free hI hth h
    all_goals (simp [step, hth] at h)

/-- states reachable from `init n` by any schedule of any client operations -/
inductive Reachable (n : Nat) : State → Prop where
  | init : Reachable n (init n)
  | step {s s' : State} (t : Nat) (op : Op) : Reachable n s → step s t op = some s' → Reachable n s'

theorem inv_of_reachable {n : Nat} {s : State} (h : Reachable n s) : Inv s := by
  induction h with
  | init => exact inv_init n
  | step t op _ hs ih => exact inv_step ih hs

theorem reachable_exec {n : Nat} {s s' : State} (h : Reachable n s) (acts : List (Nat × Op))
    (he : exec s acts = some s') : Reachable n s' := by
  induction acts generalizing s with
  | nil => simp [exec] at he; subst he; exact h
  | cons a as ih =>
    obtain ⟨t, op⟩ := a
    simp only [exec] at he
    cases hs : step s t op with
    | none => simp [hs] at he
    | some s1 =>
      simp only [hs] at he
      exact ih (Reachable.step t op h hs) he

end AranyaV.Arc
