import AranyaV.Proofs.Disk
/-!
The crash invariant of the two-slot root protocol (C15).

`Quiet` describes a disk on which no root write is in flight: one slot holds the last committed
root (`done`), whatever the other slot holds is older, every pending write lies in the data
region at or beyond the durable frontier `D`, and every record appended so far is readable in
the live view (and on the medium if it ends below `D`).  `Quiet` is preserved by data writes,
barriers and `fallocate`; it determines what `open` returns on *every* crash image.  The two
states in the middle of a root write are handled by `torn_open` using the checksum hypothesis
`TornOK`.
-/
namespace AranyaV.Disk
open AranyaV.Wire

/-- side conditions on the layout constants (checked by `decide` for the generated values) -/
structure Layout.OK (L : Layout) : Prop where
  a_b : L.rootA + rootMax ≤ L.rootB
  b_free : L.rootB + rootMax ≤ L.freeStart
  chunk : 0 < L.chunk

theorem Layout.other_A (L : Layout) : L.other L.rootA = L.rootB := by simp [Layout.other]

theorem Layout.other_B {L : Layout} (h : L.OK) : L.other L.rootB = L.rootA := by
  unfold Layout.other
  rw [if_neg]
  have := h.a_b; unfold rootMax at this; omega

theorem Layout.other_other {L : Layout} (h : L.OK) {s : Nat} (hs : s = L.rootA ∨ s = L.rootB) :
    L.other (L.other s) = s := by
  rcases hs with rfl | rfl
  · rw [L.other_A, Layout.other_B h]
  · rw [Layout.other_B h, L.other_A]

theorem Layout.other_slot {L : Layout} (h : L.OK) {s : Nat} (hs : s = L.rootA ∨ s = L.rootB) :
    L.other s = L.rootA ∨ L.other s = L.rootB := by
  rcases hs with rfl | rfl
  · right; exact L.other_A
  · left; exact Layout.other_B h

/-- an appended item: offset, serialised bytes, and (ghost) the offsets it refers to -/
structure Rec where
  off : Nat
  bytes : Bytes
  refs : List Nat

def Rec.end_ (r : Rec) : Nat := r.off + 4 + r.bytes.length

/-- the image holds the record (length prefix and bytes) -/
def agreeRec (img : Img) (r : Rec) : Prop :=
  agree img r.off (be32Enc r.bytes.length) ∧ agree img (r.off + 4) r.bytes

theorem agreeRec_congr {img img' : Img} {r : Rec}
    (h : ∀ i, r.off ≤ i → i < r.end_ → img' i = img i) (ha : agreeRec img r) : agreeRec img' r := by
  refine ⟨agree_congr (fun i hi => h _ (by omega) ?_) ha.1, agree_congr (fun i hi => h _ (by omega) ?_) ha.2⟩
  · rw [be32Enc_length] at hi; unfold Rec.end_; omega
  · unfold Rec.end_; omega

/-- the slot's length prefix keeps the read inside the slot -/
def lenOK (img : Img) (s : Nat) : Prop := 4 + lenAt img s ≤ rootMax

theorem slot_congr (ck : Checksum) {img img' : Img} {s : Nat} (hlen : lenOK img s)
    (h : ∀ i, i < rootMax → img (s + i) = img' (s + i)) :
    loadValid ck img s = loadValid ck img' s ∧ lenOK img' s := by
  unfold lenOK at *
  refine ⟨loadValid_congr ck (fun i hi => h i (by omega)), ?_⟩
  rw [← lenAt_congr (fun i hi => h i (by unfold rootMax; omega))]
  exact hlen

/-- the writer `open` builds from a root found in the slot other than `next` -/
def mkW (r : Root) (next : Nat) : Writer :=
  { root := r, allocEnd := r.free.toNat, nextRoot := next, dataDirty := false }

/-- `open` when the slot `other next` holds `done` and `next` holds nothing newer -/
theorem open_of_slots {L : Layout} (hL : L.OK) (ck : Checksum) {img : Img} {next : Nat}
    {done : Option Root} (hn : next = L.rootA ∨ next = L.rootB)
    (hcur : loadValid ck img (L.other next) = done)
    (hst : ∀ r', loadValid ck img next = some r' → ∃ r, done = some r ∧ r'.gen < r.gen) :
    Writer.open L ck img = done.map (fun r => mkW r next) := by
  rcases hn with rfl | rfl
  · rw [L.other_A] at hcur
    unfold Writer.open
    simp only [hcur]
    cases hx : loadValid ck img L.rootA with
    | none => cases done <;> simp [mkW, Layout.other_B hL]
    | some a =>
      obtain ⟨r, hr, hlt⟩ := hst a hx
      subst hr
      simp [hlt, mkW, Layout.other_B hL]
  · rw [Layout.other_B hL] at hcur
    unfold Writer.open
    simp only [hcur]
    cases hx : loadValid ck img L.rootB with
    | none => cases done <;> simp [mkW, L.other_A]
    | some b =>
      obtain ⟨r, hr, hlt⟩ := hst b hx
      subst hr
      have : ¬ r.gen < b.gen := by omega
      simp [this, mkW, L.other_A]

/-- `open` in the middle of a root write: the slot being written holds the new root, something
older than `done`, or nothing valid.  Either `open` behaves as if the write had not started (and
the slot holds nothing at least as new as `done`), or it returns the new root (which then is
what the slot holds). -/
theorem open_torn {L : Layout} (hL : L.OK) (ck : Checksum) {img : Img} {next g : Nat}
    {done : Option Root} {new : Root} (hn : next = L.rootA ∨ next = L.rootB)
    (hcur : loadValid ck img (L.other next) = done)
    (hg : ∀ r, done = some r → r.gen = g) (hnew : new.gen = g + 1)
    (hst : ∀ r', loadValid ck img next = some r' → r' = new ∨ ∃ r, done = some r ∧ r'.gen < r.gen) :
    (Writer.open L ck img = done.map (fun r => mkW r next) ∧
      ∀ r', loadValid ck img next = some r' → ∃ r, done = some r ∧ r'.gen < r.gen) ∨
    (Writer.open L ck img = some (mkW new (L.other next)) ∧ loadValid ck img next = some new) := by
  rcases Option.eq_none_or_eq_some (loadValid ck img next) with hx | ⟨r', hx⟩
  · left
    have hv : ∀ r', loadValid ck img next = some r' → ∃ r, done = some r ∧ r'.gen < r.gen :=
      fun r' h => by rw [hx] at h; cases h
    exact ⟨open_of_slots hL ck hn hcur hv, hv⟩
  · rcases hst r' hx with rfl | hold
    · right
      -- the new root wins: view it as the committed one with `next` swapped
      have hn' := Layout.other_slot hL hn
      have h1 : loadValid ck img (L.other (L.other next)) = some r' := by
        rw [Layout.other_other hL hn]; exact hx
      have h2 : ∀ r'', loadValid ck img (L.other next) = some r'' →
          ∃ r, some r' = some r ∧ r''.gen < r.gen := by
        intro r'' h
        rw [hcur] at h
        exact ⟨r', rfl, by have := hg r'' h; omega⟩
      have := open_of_slots hL ck hn' h1 h2
      exact ⟨by simpa using this, hx⟩
    · left
      have hv : ∀ r'', loadValid ck img next = some r'' → ∃ r, done = some r ∧ r''.gen < r.gen :=
        fun r'' h => by rw [hx] at h; cases h; exact hold
      exact ⟨open_of_slots hL ck hn hcur hv, hv⟩

/-- a torn write of a (short) length prefix over a short length prefix leaves a short length
prefix: all three high bytes are zero in both, the low byte is one of the two -/
theorem lenOK_mix {old : Img} {s n : Nat} (hold : lenOK old s) (hn : n ≤ bodyMax)
    (m1 m2 : List Bool) (body : Bytes) :
    lenOK (applyMasked (applyMasked old ⟨s, be32Enc n⟩ m1) ⟨s + lenPrefixLen, body⟩ m2) s := by
  unfold lenOK lenAt rootMax at *
  unfold bodyMax at hn
  have hb : ∀ i, i < 4 → applyMasked (applyMasked old ⟨s, be32Enc n⟩ m1) ⟨s + lenPrefixLen, body⟩ m2 (s + i)
      = applyMasked old ⟨s, be32Enc n⟩ m1 (s + i) := by
    intro i hi
    apply applyMasked_not_covers
    unfold covers lenPrefixLen; simp only; omega
  have h0 := hb 0 (by omega); have h1 := hb 1 (by omega)
  have h2 := hb 2 (by omega); have h3 := hb 3 (by omega)
  simp only [Nat.add_zero] at h0
  rw [h0, h1, h2, h3]
  have e0 : (UInt8.ofNat (n / 16777216 % 256)).toNat = 0 := by
    rw [toNat_ofNat_lt (Nat.mod_lt _ (by decide))]; omega
  have e1 : (UInt8.ofNat (n / 65536 % 256)).toNat = 0 := by
    rw [toNat_ofNat_lt (Nat.mod_lt _ (by decide))]; omega
  have e2 : (UInt8.ofNat (n / 256 % 256)).toNat = 0 := by
    rw [toNat_ofNat_lt (Nat.mod_lt _ (by decide))]; omega
  have e3 : (UInt8.ofNat (n % 256)).toNat = n := by
    rw [toNat_ofNat_lt (Nat.mod_lt _ (by decide))]; omega
  have c0 := applyMasked_cases old ⟨s, be32Enc n⟩ m1 s
  have c1 := applyMasked_cases old ⟨s, be32Enc n⟩ m1 (s + 1)
  have c2 := applyMasked_cases old ⟨s, be32Enc n⟩ m1 (s + 2)
  have c3 := applyMasked_cases old ⟨s, be32Enc n⟩ m1 (s + 3)
  have t0 : (applyMasked old ⟨s, be32Enc n⟩ m1 s).toNat = (old s).toNat ∨
      (applyMasked old ⟨s, be32Enc n⟩ m1 s).toNat = 0 := by
    rcases c0 with h | ⟨_, h⟩
    · left; rw [h]
    · right; rw [h]; simp only [Nat.sub_self]; exact e0
  have t1 : (applyMasked old ⟨s, be32Enc n⟩ m1 (s + 1)).toNat = (old (s + 1)).toNat ∨
      (applyMasked old ⟨s, be32Enc n⟩ m1 (s + 1)).toNat = 0 := by
    rcases c1 with h | ⟨_, h⟩
    · left; rw [h]
    · right; rw [h]; simp only [Nat.add_sub_cancel_left]; exact e1
  have t2 : (applyMasked old ⟨s, be32Enc n⟩ m1 (s + 2)).toNat = (old (s + 2)).toNat ∨
      (applyMasked old ⟨s, be32Enc n⟩ m1 (s + 2)).toNat = 0 := by
    rcases c2 with h | ⟨_, h⟩
    · left; rw [h]
    · right; rw [h]; simp only [Nat.add_sub_cancel_left]; exact e2
  have t3 : (applyMasked old ⟨s, be32Enc n⟩ m1 (s + 3)).toNat = (old (s + 3)).toNat ∨
      (applyMasked old ⟨s, be32Enc n⟩ m1 (s + 3)).toNat = n := by
    rcases c3 with h | ⟨_, h⟩
    · left; rw [h]
    · right; rw [h]; simp only [Nat.add_sub_cancel_left]; exact e3
  clear c0 c1 c2 c3 e0 e1 e2 e3 h0 h1 h2 h3 hb
  generalize (applyMasked old ⟨s, be32Enc n⟩ m1 s).toNat = a0 at *
  generalize (applyMasked old ⟨s, be32Enc n⟩ m1 (s + 1)).toNat = a1 at *
  generalize (applyMasked old ⟨s, be32Enc n⟩ m1 (s + 2)).toNat = a2 at *
  generalize (applyMasked old ⟨s, be32Enc n⟩ m1 (s + 3)).toNat = a3 at *
  generalize (old s).toNat = b0 at *
  generalize (old (s + 1)).toNat = b1 at *
  generalize (old (s + 2)).toNat = b2 at *
  generalize (old (s + 3)).toNat = b3 at *
  have hb0 : b0 = 0 := by omega
  have hb1 : b1 = 0 := by omega
  have hb2 : b2 = 0 := by omega
  have hb3 : b3 ≤ 52 := by omega
  have ha0 : a0 = 0 := by omega
  have ha1 : a1 = 0 := by omega
  have ha2 : a2 = 0 := by omega
  have ha3 : a3 ≤ 52 := by omega
  subst ha0 ha1 ha2
  simp only [Nat.zero_mul, Nat.zero_add]
  exact Nat.add_le_add_left ha3 4

/-! ## the quiet invariant -/

structure Quiet (L : Layout) (ck : Checksum) (d : Disk) (done : Option Root) (next g D free : Nat)
    (recs : List Rec) : Prop where
  next_slot : next = L.rootA ∨ next = L.rootB
  lenA : lenOK d.durable L.rootA
  lenB : lenOK d.durable L.rootB
  cur : loadValid ck d.durable (L.other next) = done
  stale : ∀ r', loadValid ck d.durable next = some r' → ∃ r, done = some r ∧ r'.gen < r.gen
  gen : ∀ r, done = some r → r.gen = g
  pend : ∀ p ∈ d.pending, L.freeStart ≤ p.off ∧ D ≤ p.off
  D_le : D ≤ free
  doneFree : ∀ r, done = some r → r.free ≤ (D : Int)
  doneFs : ∀ r, done = some r → (L.freeStart : Int) ≤ r.free
  recs_ok : ∀ rec ∈ recs, L.freeStart ≤ rec.off ∧ rec.end_ ≤ free ∧ agreeRec d.view rec ∧
    (rec.end_ ≤ D → agreeRec d.durable rec)

section
variable {L : Layout} {ck : Checksum} {d : Disk} {done : Option Root} {next g D free : Nat}
  {recs : List Rec}

theorem Quiet.lenS (q : Quiet L ck d done next g D free recs) {s : Nat}
    (hs : s = L.rootA ∨ s = L.rootB) : lenOK d.durable s := by
  rcases hs with rfl | rfl
  · exact q.lenA
  · exact q.lenB

/-- below `FREE_START` a crash image of a quiet disk is the durable image -/
theorem Quiet.crash_low (q : Quiet L ck d done next g D free recs) (χ : List (List Bool))
    {i : Nat} (hi : i < L.freeStart ∨ i < D) : d.crash χ i = d.durable i := by
  unfold Disk.crash
  apply crashGo_untouched
  intro p hp hc
  have := q.pend p hp
  unfold covers at hc
  omega

theorem Quiet.view_low (q : Quiet L ck d done next g D free recs)
    {i : Nat} (hi : i < L.freeStart ∨ i < D) : d.view i = d.durable i := by
  unfold Disk.view
  apply applyAll_untouched
  intro p hp hc
  have := q.pend p hp
  unfold covers at hc
  omega

theorem slot_lt {L : Layout} (hL : L.OK) {s i : Nat} (hs : s = L.rootA ∨ s = L.rootB)
    (hi : i < rootMax) : s + i < L.freeStart := by
  have := hL.a_b; have := hL.b_free
  rcases hs with rfl | rfl <;> omega

/-- on a crash image of a quiet disk both slots load as on the medium -/
theorem Quiet.crash_slot (hL : L.OK) (q : Quiet L ck d done next g D free recs)
    (χ : List (List Bool)) {s : Nat} (hs : s = L.rootA ∨ s = L.rootB) :
    loadValid ck (d.crash χ) s = loadValid ck d.durable s ∧ lenOK (d.crash χ) s := by
  have := slot_congr ck (img' := d.crash χ) (q.lenS hs)
    (fun i hi => (q.crash_low χ (Or.inl (slot_lt hL hs hi))).symm)
  exact ⟨this.1.symm, this.2⟩

/-- what `open` returns on any crash image of a quiet disk -/
theorem Quiet.open_crash (hL : L.OK) (q : Quiet L ck d done next g D free recs)
    (χ : List (List Bool)) :
    Writer.open L ck (d.crash χ) = done.map (fun r => mkW r next) := by
  apply open_of_slots hL ck q.next_slot
  · rw [(q.crash_slot hL χ (Layout.other_slot hL q.next_slot)).1]; exact q.cur
  · intro r' h
    rw [(q.crash_slot hL χ q.next_slot).1] at h
    exact q.stale r' h

/-- every record below the durable frontier is intact in any crash image -/
theorem Quiet.intact (q : Quiet L ck d done next g D free recs) (χ : List (List Bool))
    {rec : Rec} (hr : rec ∈ recs) (hD : rec.end_ ≤ D) : agreeRec (d.crash χ) rec := by
  have := q.recs_ok rec hr
  exact agreeRec_congr (fun i _ hi => q.crash_low χ (Or.inr (by omega))) (this.2.2.2 hD)

/-- a data write at or beyond the write frontier -/
theorem Quiet.write (q : Quiet L ck d done next g D free recs) {off : Nat} (bs : Bytes)
    (h1 : free ≤ off) (h2 : L.freeStart ≤ off) :
    Quiet L ck (d.pwrite ⟨off, bs⟩) done next g D free recs := by
  refine { q with pend := ?_, recs_ok := ?_ }
  · intro p hp
    simp only [pending_pwrite, List.mem_append, List.mem_singleton] at hp
    rcases hp with hp | rfl
    · exact q.pend p hp
    · have := q.D_le; exact ⟨h2, by simp only; omega⟩
  · intro rec hr
    obtain ⟨a, b, c, e⟩ := q.recs_ok rec hr
    refine ⟨a, b, ?_, e⟩
    rw [view_pwrite]
    refine agreeRec_congr (fun i _ hi => applyFull_not_covers ?_) c
    unfold covers; simp only; omega

/-- a barrier: everything appended so far becomes durable -/
theorem Quiet.sync (hL : L.OK) (q : Quiet L ck d done next g D free recs) :
    Quiet L ck d.sync done next g free free recs := by
  have hA := slot_congr ck (img' := d.view) q.lenA
    (fun i hi => (q.view_low (Or.inl (slot_lt hL (Or.inl rfl) hi))).symm)
  have hB := slot_congr ck (img' := d.view) q.lenB
    (fun i hi => (q.view_low (Or.inl (slot_lt hL (Or.inr rfl) hi))).symm)
  have hS : ∀ s, s = L.rootA ∨ s = L.rootB → loadValid ck d.view s = loadValid ck d.durable s := by
    intro s hs
    rcases hs with rfl | rfl
    · exact hA.1.symm
    · exact hB.1.symm
  refine ⟨q.next_slot, hA.2, hB.2, ?_, ?_, q.gen, ?_, Nat.le_refl _, ?_, q.doneFs, ?_⟩
  · rw [durable_sync, hS _ (Layout.other_slot hL q.next_slot)]; exact q.cur
  · intro r' h
    rw [durable_sync, hS _ q.next_slot] at h
    exact q.stale r' h
  · intro p hp; simp at hp
  · intro r hr
    have := q.doneFree r hr; have := q.D_le; omega
  · intro rec hr
    obtain ⟨a, b, c, _⟩ := q.recs_ok rec hr
    exact ⟨a, b, by rw [view_sync]; exact c, fun _ => by rw [durable_sync]; exact c⟩

/-- the write frontier moves on and a fully written record joins the list -/
theorem Quiet.record (q : Quiet L ck d done next g D free recs) (hf : L.freeStart ≤ free)
    (bytes : Bytes) (refs : List Nat) :
    Quiet L ck ((d.pwrite ⟨free, be32Enc bytes.length⟩).pwrite ⟨free + 4, bytes⟩) done next g D
      (free + 4 + bytes.length) (recs ++ [⟨free, bytes, refs⟩]) := by
  have q2 := Quiet.write (off := free + 4) (q.write (be32Enc bytes.length) (Nat.le_refl _) hf) bytes
    (Nat.le_add_right _ _) (by omega)
  refine { q2 with D_le := ?_, recs_ok := ?_ }
  · have := q.D_le; omega
  · intro rec hr
    simp only [List.mem_append, List.mem_singleton] at hr
    rcases hr with hr | rfl
    · obtain ⟨a, b, c, e⟩ := q2.recs_ok rec hr
      exact ⟨a, by omega, c, e⟩
    · refine ⟨hf, Nat.le_refl _, ?_, ?_⟩
      · rw [view_pwrite, view_pwrite]
        refine ⟨?_, agree_applyFull _ _ _⟩
        refine agree_congr (fun i hi => applyFull_not_covers ?_) (agree_applyFull _ _ _)
        rw [be32Enc_length] at hi
        unfold covers; simp only; omega
      · intro h
        have := q.D_le
        simp only [Rec.end_] at h
        omega

end

end AranyaV.Disk
