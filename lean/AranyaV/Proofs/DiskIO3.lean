import AranyaV.Proofs.DiskIO2
/-!
Storage calls as annotated op streams (C15, I/O errors anywhere): for every call, fault choice and
outcome there is an annotated stream that erases to the model's op stream, conforms to the
protocol, and ends in a ghost state linked to the writer `stepF` returns.
-/
namespace AranyaV.Disk
open AranyaV.Wire

variable {L : Layout} {ck : Checksum}

/-- the ghost state mirrors the writer's in-memory control record -/
structure Link (w : Writer) (g : G) : Prop where
  next : w.nextRoot = g.next
  gen : w.root.gen = g.gen
  free : w.root.free = (g.free : Int)

/-! ## generic facts about ghost runs -/

def NoSC (l : List AOp) : Prop := ∀ a ∈ l, ∀ r, a ≠ .syncCommit r

theorem gfin_done : ∀ (l : List AOp) (g : G), NoSC l → (gfin L g l).done = g.done := by
  intro l
  induction l with
  | nil => intro g _; rfl
  | cons a as ih =>
    intro g h
    have h1 : (gnext L g a).done = g.done := by
      cases a with
      | syncCommit r => exact absurd rfl (h _ List.mem_cons_self r)
      | _ => rfl
    have := ih (gnext L g a) (fun x hx => h x (List.mem_cons_of_mem _ hx))
    simp only [gfin, List.foldl_cons] at this ⊢
    rw [this, h1]

theorem gfin_newer : ∀ (l : List AOp) (g : G) (r : Root), (gfin L g l).newer r →
    g.newer r ∨ ∃ off b, AOp.rootw r off b ∈ l := by
  intro l
  induction l with
  | nil => intro g r h; exact Or.inl h
  | cons a as ih =>
    intro g r h
    have h' : (gfin L (gnext L g a) as).newer r := by simpa [gfin] using h
    rcases ih _ r h' with h1 | ⟨off, b, hm⟩
    · cases a with
      | data _ _ => exact Or.inl h1
      | noop _ => exact Or.inl h1
      | advance _ => exact Or.inl h1
      | rootw a off b =>
        rcases h1 with h1 | h1
        · exact Or.inl (Or.inl h1)
        · simp only [gnext, Option.some.injEq] at h1
          subst h1
          exact Or.inr ⟨off, b, List.mem_cons_self⟩
      | sync fs =>
        rcases h1 with h1 | h1
        · simp only [gnext, List.mem_append] at h1
          rcases h1 with h1 | h1
          · left; right
            cases hp : g.pa with
            | none => rw [hp] at h1; cases h1
            | some x => rw [hp] at h1; simp at h1; rw [h1]
          · exact Or.inl (Or.inl h1)
        · cases h1
      | syncCommit x =>
        rcases h1 with h1 | h1 <;> cases h1
    · exact Or.inr ⟨off, b, List.mem_cons_of_mem _ hm⟩

theorem gnext_recs_sub (L : Layout) (g : G) (a : AOp) : ∀ r ∈ g.recs, r ∈ (gnext L g a).recs := by
  intro r hr
  cases a with
  | advance rec => exact List.mem_append_left _ hr
  | _ => exact hr

theorem gfin_recs_sub (L : Layout) : ∀ (l : List AOp) (g : G), ∀ r ∈ g.recs, r ∈ (gfin L g l).recs := by
  intro l
  induction l with
  | nil => intro g r hr; exact hr
  | cons a as ih =>
    intro g r hr
    have := ih (gnext L g a) r (gnext_recs_sub L g a r hr)
    simpa [gfin] using this

/-- an item whose `advance` is the only one in the stream is either recorded or still beyond the
write frontier -/
theorem gfin_rec_or (L : Layout) (rec : Rec) : ∀ (l : List AOp) (g : G),
    (∀ r, AOp.advance r ∈ l → r = rec) → (rec ∈ g.recs ∨ g.free ≤ rec.off) →
    rec ∈ (gfin L g l).recs ∨ (gfin L g l).free ≤ rec.off := by
  intro l
  induction l with
  | nil => intro g _ h; exact h
  | cons a as ih =>
    intro g hadv h
    have hrest : ∀ r, AOp.advance r ∈ as → r = rec := fun r hr => hadv r (List.mem_cons_of_mem _ hr)
    have step : rec ∈ (gnext L g a).recs ∨ (gnext L g a).free ≤ rec.off := by
      cases a with
      | advance r =>
        have := hadv r List.mem_cons_self
        subst this
        exact Or.inl (List.mem_append_right _ (List.mem_singleton.mpr rfl))
      | data _ _ => exact h
      | rootw _ _ _ => exact h
      | sync _ => exact h
      | noop _ => exact h
      | syncCommit _ => exact h
    have := ih (gnext L g a) hrest step
    simpa [gfin] using this

theorem conf_free_mono {L : Layout} {ck : Checksum} : ∀ (l : List AOp) (g : G) (d : Disk), Conf L ck g d l →
    g.free ≤ (gfin L g l).free := by
  intro l
  induction l with
  | nil => intro g d _; exact Nat.le_refl _
  | cons a as ih =>
    intro g d h
    have h1 : g.free ≤ (gnext L g a).free := by
      cases a with
      | advance rec =>
        have := h.1.1
        show g.free ≤ rec.end_
        unfold Rec.end_; omega
      | data _ _ => exact Nat.le_refl _
      | rootw _ _ _ => exact Nat.le_refl _
      | sync _ => exact Nat.le_refl _
      | noop _ => exact Nat.le_refl _
      | syncCommit _ => exact Nat.le_refl _
    have := ih _ _ h.2
    have e : gfin L g (a :: as) = gfin L (gnext L g a) as := by simp [gfin]
    rw [e]; omega

/-! ## streams of data ops (everything a failing append issues) -/

def dataA : Op → AOp
  | .write off b => .data off b
  | .fdatasync => .sync false
  | .fsync => .sync true
  | o => .noop o

theorem erase_dataA (ops : List Op) : eraseAll (ops.map dataA) = ops := by
  induction ops with
  | nil => rfl
  | cons o os ih =>
    have : eraseAll ((o :: os).map dataA) = (dataA o).erase ++ eraseAll (os.map dataA) := by
      simp [eraseAll]
    rw [this, ih]
    cases o <;> rfl

theorem gfin_dataA (L : Layout) : ∀ (ops : List Op) (g : G),
    (gfin L g (ops.map dataA)).next = g.next ∧ (gfin L g (ops.map dataA)).gen = g.gen ∧
    (gfin L g (ops.map dataA)).free = g.free ∧ (gfin L g (ops.map dataA)).recs = g.recs := by
  intro ops
  induction ops with
  | nil => intro g; exact ⟨rfl, rfl, rfl, rfl⟩
  | cons o os ih =>
    intro g
    have h := ih (gnext L g (dataA o))
    have e : gfin L g ((o :: os).map dataA) = gfin L (gnext L g (dataA o)) (os.map dataA) := by
      simp [gfin]
    rw [e]
    cases o <;> exact h

theorem conf_dataA : ∀ (ops : List Op) (g : G) (d : Disk),
    (∀ o ∈ ops, DataOp L g.free o) → (∀ o ∈ ops, ∀ a b, o ≠ .write a b → True) →
    Conf L ck g d (ops.map dataA) := by
  intro ops
  induction ops with
  | nil => intro g d _ _; trivial
  | cons o os ih =>
    intro g d h _
    have ho := h o List.mem_cons_self
    have hfree : (gnext L g (dataA o)).free = g.free := by cases o <;> rfl
    refine ⟨?_, ih _ _ (fun x hx => by rw [hfree]; exact h x (List.mem_cons_of_mem _ hx)) (fun _ _ _ _ _ => trivial)⟩
    cases o with
    | write off b => exact ho
    | fdatasync => trivial
    | fsync => trivial
    | falloc a b => exact Or.inr ⟨a, b, rfl⟩
    | failed => exact Or.inl rfl

theorem noSC_dataA (ops : List Op) : NoSC (ops.map dataA) := by
  intro a ha r he
  obtain ⟨o, _, rfl⟩ := List.mem_map.mp ha
  cases o <;> cases he

theorem noAdv_dataA (ops : List Op) (r : Rec) : AOp.advance r ∉ ops.map dataA := by
  intro ha
  obtain ⟨o, _, he⟩ := List.mem_map.mp ha
  cases o <;> cases he

theorem noRootw_dataA (ops : List Op) (r : Root) (off : Nat) (b : Bytes) :
    AOp.rootw r off b ∉ ops.map dataA := by
  intro ha
  obtain ⟨o, _, he⟩ := List.mem_map.mp ha
  cases o <;> cases he

/-! ## a complete `append_at` -/

def growA (L : Layout) (w : Writer) (e : Nat) : List AOp :=
  if e ≤ w.allocEnd then []
  else [.noop (.falloc 0 (w.allocEnd + (e - w.allocEnd + L.chunk - 1) / L.chunk * L.chunk)), .sync true]

def appA (L : Layout) (w : Writer) (b : Bytes) (refs : List Nat) : List AOp :=
  growA L w (w.root.free.toNat + 4 + b.length) ++
    [.data w.root.free.toNat (be32Enc b.length), .data (w.root.free.toNat + 4) b,
     .advance ⟨w.root.free.toNat, b, refs⟩]

theorem erase_growA (L : Layout) (w : Writer) (e : Nat) : eraseAll (growA L w e) = (w.ensureCapacity L e).2 := by
  unfold growA Writer.ensureCapacity
  split <;> rfl

theorem erase_appA (L : Layout) (w : Writer) (b : Bytes) (refs : List Nat) :
    eraseAll (appA L w b refs) = (w.appendAt L b).2.2 := by
  rw [appendAt_ops, appA, eraseAll_append, erase_growA]
  rfl

theorem gfin_growA (L : Layout) (w : Writer) (e : Nat) (g : G) :
    (gfin L g (growA L w e)).next = g.next ∧ (gfin L g (growA L w e)).gen = g.gen ∧
    (gfin L g (growA L w e)).free = g.free ∧ (gfin L g (growA L w e)).recs = g.recs := by
  unfold growA
  split <;> exact ⟨rfl, rfl, rfl, rfl⟩

theorem conf_growA (L : Layout) (ck : Checksum) (w : Writer) (e : Nat) (g : G) (d : Disk) :
    Conf L ck g d (growA L w e) := by
  unfold growA
  split
  · trivial
  · exact ⟨Or.inr ⟨_, _, rfl⟩, trivial, trivial⟩

theorem noSC_growA (L : Layout) (w : Writer) (e : Nat) : NoSC (growA L w e) := by
  unfold growA
  split
  · intro a ha; cases ha
  · intro a ha r he
    simp only [List.mem_cons, List.not_mem_nil, or_false] at ha
    rcases ha with rfl | rfl <;> cases he

theorem noRootw_growA (L : Layout) (w : Writer) (e : Nat) (r : Root) (off : Nat) (b : Bytes) :
    AOp.rootw r off b ∉ growA L w e := by
  unfold growA
  split
  · intro ha; cases ha
  · intro ha
    simp only [List.mem_cons, List.not_mem_nil, or_false] at ha
    rcases ha with h | h <;> cases h

/-- ghost state after a complete append -/
theorem gfin_appA (L : Layout) (w : Writer) (b : Bytes) (refs : List Nat) (g : G) :
    (gfin L g (appA L w b refs)).next = g.next ∧ (gfin L g (appA L w b refs)).gen = g.gen ∧
    (gfin L g (appA L w b refs)).free = w.root.free.toNat + 4 + b.length ∧
    (gfin L g (appA L w b refs)).recs = g.recs ++ [⟨w.root.free.toNat, b, refs⟩] := by
  unfold appA
  rw [gfin_append]
  obtain ⟨h1, h2, _, h4⟩ := gfin_growA L w (w.root.free.toNat + 4 + b.length) g
  refine ⟨h1, h2, ?_, ?_⟩
  · simp [gfin, gnext, Rec.end_]
  · simp only [gfin, List.foldl_cons, List.foldl_nil, gnext]
    rw [show List.foldl (gnext L) g (growA L w (w.root.free.toNat + 4 + b.length)) = gfin L g (growA L w (w.root.free.toNat + 4 + b.length)) from rfl, h4]

theorem conf_appA (hL : L.OK) {w : Writer} {d : Disk} {g : G} (q : GQ L ck d g) (hl : Link w g)
    (b : Bytes) (refs : List Nat) : Conf L ck g d (appA L w b refs) := by
  unfold appA
  rw [conf_append]
  refine ⟨conf_growA L ck w _ g d, ?_⟩
  obtain ⟨_, _, hf, _⟩ := gfin_growA L w (w.root.free.toNat + 4 + b.length) g
  have q1 := gq_conf hL _ d g q (conf_growA L ck w (w.root.free.toNat + 4 + b.length) g d)
  have hfree : w.root.free.toNat = g.free := by simp [hl.free]
  generalize gfin L g (growA L w (w.root.free.toNat + 4 + b.length)) = g1 at *
  generalize d.execAll (eraseAll (growA L w (w.root.free.toNat + 4 + b.length))) = d1 at *
  have hfs := q1.fs
  refine ⟨⟨by omega, by omega⟩, ⟨by show g1.free ≤ _; omega, by omega⟩, ⟨?_, ?_⟩, trivial⟩
  · show w.root.free.toNat = g1.free; omega
  · show agreeRec (((d1.pwrite ⟨w.root.free.toNat, be32Enc b.length⟩).pwrite ⟨w.root.free.toNat + 4, b⟩).view) _
    rw [view_pwrite, view_pwrite]
    refine ⟨?_, agree_applyFull _ _ _⟩
    refine agree_congr (fun i hi => applyFull_not_covers ?_) (agree_applyFull _ _ _)
    rw [be32Enc_length] at hi
    unfold covers; simp only; omega

theorem noSC_appA (L : Layout) (w : Writer) (b : Bytes) (refs : List Nat) : NoSC (appA L w b refs) := by
  intro a ha r he
  unfold appA at ha
  rcases List.mem_append.mp ha with h | h
  · exact noSC_growA L w _ a h r he
  · simp only [List.mem_cons, List.not_mem_nil, or_false] at h
    rcases h with rfl | rfl | rfl <;> cases he

theorem adv_appA (L : Layout) (w : Writer) (b : Bytes) (refs : List Nat) (r : Rec)
    (h : AOp.advance r ∈ appA L w b refs) : r = ⟨w.root.free.toNat, b, refs⟩ := by
  unfold appA at h
  rcases List.mem_append.mp h with h | h
  · unfold growA at h
    split at h
    · cases h
    · simp only [List.mem_cons, List.not_mem_nil, or_false] at h
      rcases h with h | h <;> cases h
  · simp only [List.mem_cons, List.not_mem_nil, or_false] at h
    rcases h with h | h | h
    · cases h
    · cases h
    · cases h; rfl

theorem noRootw_appA (L : Layout) (w : Writer) (b : Bytes) (refs : List Nat) (r : Root) (off : Nat)
    (x : Bytes) : AOp.rootw r off x ∉ appA L w b refs := by
  intro ha
  unfold appA at ha
  rcases List.mem_append.mp ha with h | h
  · exact noRootw_growA L w _ r off x h
  · simp only [List.mem_cons, List.not_mem_nil, or_false] at h
    rcases h with h | h | h <;> cases h

end AranyaV.Disk
