import AranyaV.Model.BraidMechLazy
/-!
# Proofs.BraidMechLazy — interleaving the BFS with the braid changes nothing

If the entries the BFS reveals when advanced to `t` are the entries of the completed BFS for every
command with `max_cut ≥ t` (`Hrev`; for the real BFS: `Props/C03b.bfs_level_reveals_initCounts`),
the lazy mechanism returns exactly what `implBraid` (completed BFS first) returns.
Invariant: at and above the current level the lazy map equals the eager (already partly consumed)
map; below the level the eager map is still the untouched completed map.
-/
namespace AranyaV.Braid
open AranyaV.Spec AranyaV.Gen

def inLevel (level : Option Nat) (m : Nat) : Prop :=
  match level with
  | none => False
  | some l => l ≤ m

/-- lazy `(counts, level)` against the eager map `cF`, `full` = the completed BFS map -/
structure LRel (full : Nat → Option Nat) (mcOf : Nat → Nat) (counts : Nat → Option Nat)
    (level : Option Nat) (cF : Nat → Option Nat) : Prop where
  above : ∀ q, inLevel level (mcOf q) → counts q = cF q
  below : ∀ q, ¬ inLevel level (mcOf q) → cF q = full q

theorem shouldContinue_local (c1 c2 : Nat → Option Nat) (p : Nat) (h : c1 p = c2 p) :
    (shouldContinue c1 p).1 = (shouldContinue c2 p).1 ∧
    (shouldContinue c1 p).2 p = (shouldContinue c2 p).2 p ∧
    (∀ q, q ≠ p → (shouldContinue c1 p).2 q = c1 q) ∧ (∀ q, q ≠ p → (shouldContinue c2 p).2 q = c2 q) := by
  unfold shouldContinue
  rw [h]
  cases hc : c2 p with
  | none => simp [hc, h]
  | some k =>
    by_cases hk : k > 1
    · simp only [hk, if_true]
      exact ⟨trivial, by simp, fun q hq => by simp [hq], fun q hq => by simp [hq]⟩
    · simp only [hk, if_false]
      exact ⟨trivial, by simp, fun q hq => by simp [hq], fun q hq => by simp [hq]⟩

theorem reveal_rel {full : Nat → Option Nat} {mcOf : Nat → Nat} {rev : Nat → Nat → Option Nat}
    (hrev : ∀ t q, t ≤ mcOf q → rev t q = full q)
    {counts cF : Nat → Option Nat} {level : Option Nat} (h : LRel full mcOf counts level cF) (t : Nat) :
    LRel full mcOf (reveal rev mcOf level counts t).1 (reveal rev mcOf level counts t).2 cF ∧
    inLevel (reveal rev mcOf level counts t).2 t := by
  unfold reveal
  cases level with
  | none =>
    simp only
    refine ⟨⟨?_, ?_⟩, Nat.le_refl _⟩
    · intro q hq
      have hq' : t ≤ mcOf q := hq
      simp only [hq', if_true]
      rw [hrev t q hq', h.below q (by simp [inLevel])]
    · intro q hq
      exact h.below q (by simp [inLevel])
  | some l =>
    simp only
    by_cases htl : t < l
    · simp only [htl, if_true]
      refine ⟨⟨?_, ?_⟩, Nat.le_refl _⟩
      · intro q hq
        have hq' : t ≤ mcOf q := hq
        by_cases hql : mcOf q < l
        · simp only [hq', hql, and_self, if_true]
          rw [hrev t q hq', h.below q (by simp only [inLevel]; omega)]
        · simp only [hql, and_false, if_false]
          exact h.above q (by simp only [inLevel]; omega)
      · intro q hq
        have hq' : ¬ t ≤ mcOf q := hq
        exact h.below q (by simp only [inLevel]; omega)
    · simp only [htl, if_false]
      exact ⟨h, by simp only [inLevel]; omega⟩

/-- one `should_continue`: same answer, relation kept -/
theorem shouldContinueLazy_rel {full : Nat → Option Nat} {mcOf : Nat → Nat} {rev : Nat → Nat → Option Nat}
    (hrev : ∀ t q, t ≤ mcOf q → rev t q = full q)
    {counts cF : Nat → Option Nat} {level : Option Nat} (h : LRel full mcOf counts level cF) (p : Nat) :
    (shouldContinueLazy rev mcOf level counts p).1 = (shouldContinue cF p).1 ∧
    LRel full mcOf (shouldContinueLazy rev mcOf level counts p).2.1
      (shouldContinueLazy rev mcOf level counts p).2.2 (shouldContinue cF p).2 := by
  obtain ⟨hr, hin⟩ := reveal_rel hrev h (mcOf p)
  unfold shouldContinueLazy
  simp only
  have hp := hr.above p hin
  obtain ⟨h1, h2, h3, h4⟩ := shouldContinue_local _ cF p hp
  refine ⟨h1, ⟨?_, ?_⟩⟩
  · intro q hq
    by_cases hqp : q = p
    · subst hqp; exact h2
    · rw [h3 q hqp, h4 q hqp]; exact hr.above q hq
  · intro q hq
    have hqp : q ≠ p := by intro e; subst e; exact hq hin
    rw [h4 q hqp]; exact hr.below q hq

theorem pushPriorsLazy_rel {g : Graph} {below : Nat → Bool} {sameSeg : Nat → Nat → Bool}
    {full : Nat → Option Nat} {mcOf : Nat → Nat} {rev : Nat → Nat → Option Nat}
    (hrev : ∀ t q, t ≤ mcOf q → rev t q = full q) :
    ∀ (ps heap : List Nat) (counts cF : Nat → Option Nat) (level : Option Nat),
      LRel full mcOf counts level cF →
      match pushPriors g below sameSeg ps heap cF,
            pushPriorsLazy g below sameSeg rev mcOf ps heap counts level with
      | .error e, .error e' => e = e'
      | .ok (h1, c1), .ok (h2, c2, l2) => h1 = h2 ∧ LRel full mcOf c2 l2 c1
      | _, _ => False := by
  intro ps
  induction ps with
  | nil => intro heap counts cF level h; simp only [pushPriors, pushPriorsLazy]; exact ⟨trivial, h⟩
  | cons p ps ih =>
    intro heap counts cF level h
    rw [pushPriors, pushPriorsLazy]
    by_cases hb : below p = true
    · simp only [hb, if_true]; exact ih heap counts cF level h
    · simp only [hb, Bool.false_eq_true, if_false]
      obtain ⟨h1, h2⟩ := shouldContinueLazy_rel hrev h p
      rw [h1]
      by_cases hc : (shouldContinue cF p).1 = true
      · simp only [hc, Bool.not_true, Bool.false_eq_true, if_false]
        by_cases hs : heap.any (fun o => sameSeg p o) = true
        · simp only [hs, if_true]; exact ih heap _ _ _ h2
        · simp only [hs, Bool.false_eq_true, if_false]
          cases hps : pushStrand g heap p with
          | error e => simp
          | ok heap' => simp only; exact ih heap' _ _ _ h2
      · have hc' : (shouldContinue cF p).1 = false := by simpa using hc
        simp only [hc', Bool.not_false, if_true]
        exact ih heap _ _ _ h2

theorem implLoopLazy_eq {g : Graph} {below : Nat → Bool} {sameSeg : Nat → Nat → Bool}
    {full : Nat → Option Nat} {mcOf : Nat → Nat} {rev : Nat → Nat → Option Nat}
    (hrev : ∀ t q, t ≤ mcOf q → rev t q = full q) :
    ∀ (n : Nat) (ls : LState) (ms : MState), ls.heap = ms.heap → ls.out = ms.out →
      LRel full mcOf ls.counts ls.level ms.counts →
      implLoopLazy g below sameSeg rev mcOf n ls = implLoop g below sameSeg n ms := by
  intro n
  induction n with
  | zero => intro ls ms _ _ _; rfl
  | succ n ih =>
    intro ls ms hh ho hr
    rw [implLoopLazy, implLoop, hh, ho]
    cases hm : minAvail g ms.heap with
    | none => rfl
    | some c =>
      simp only
      have := pushPriorsLazy_rel (g := g) (below := below) (sameSeg := sameSeg) hrev c.parents
        (ms.heap.erase c.id) ls.counts ms.counts ls.level hr
      revert this
      cases pushPriors g below sameSeg c.parents (ms.heap.erase c.id) ms.counts with
      | error e =>
        cases pushPriorsLazy g below sameSeg rev mcOf c.parents (ms.heap.erase c.id) ls.counts ls.level with
        | error e' => intro h; simp only at h; simp [h]
        | ok r => intro h; exact absurd h (by simp)
      | ok r1 =>
        obtain ⟨h1, c1⟩ := r1
        cases pushPriorsLazy g below sameSeg rev mcOf c.parents (ms.heap.erase c.id) ls.counts ls.level with
        | error e' => intro h; exact absurd h (by simp)
        | ok r2 =>
          obtain ⟨h2, c2, l2⟩ := r2
          intro h
          simp only at h
          obtain ⟨rfl, hrel⟩ := h
          simp only
          rcases h1 with _ | ⟨x, _ | ⟨y, zs⟩⟩
          · exact ih ⟨_, c2, l2, _⟩ ⟨_, c1, _⟩ rfl rfl hrel
          · rfl
          · exact ih ⟨_, c2, l2, _⟩ ⟨_, c1, _⟩ rfl rfl hrel

/-- **The interleaved BFS changes nothing**: the mechanism that starts with an empty convergence map
and advances the BFS inside `should_continue` returns what the mechanism started from the completed
BFS returns. -/
theorem implBraidLazy_eq {g : Graph} (heads : List Nat) (below : Nat → Bool) (sameSeg : Nat → Nat → Bool)
    (mcOf : Nat → Nat) (rev : Nat → Nat → Option Nat)
    (hrev : ∀ t q, t ≤ mcOf q → rev t q = initCounts g (ancSelfAll g heads) below q) :
    implBraidLazy g heads below sameSeg rev mcOf = implBraid g heads below sameSeg := by
  unfold implBraidLazy implBraid
  cases pushHeads g [] heads with
  | error e => rfl
  | ok heap =>
    exact implLoopLazy_eq hrev g.length _ _ rfl rfl
      ⟨fun q hq => absurd hq (by simp [inLevel]), fun q _ => rfl⟩

end AranyaV.Braid
