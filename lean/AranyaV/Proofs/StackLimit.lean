import AranyaV.Model.LangVM
/-!
The real machine's data stack is a `heapless::Vec<Value, STACK_SIZE>` (`STACK_SIZE = 100`,
`Gen.Lang.stackSize`): a push onto a full stack fails with `StackOverflow`.  `Model.LangVM.step`
has an unbounded stack.  `runL` is the bounded machine: the same `step`, followed by the check that
the stack still fits.  Every instruction of the fragment pops before it pushes, and — with one
exception — fails, if it fails, before its first push, so "step, then compare the new height with
the bound" is what the sequence of bounded pushes computes.  The exception is `MStructGet n`
(`substruct`): it pushes name/value pairs while it is still looking fields up, so where a field is
missing AND the pairs pushed before it already exceed the bound the real machine reports
`StackOverflow` and this model `InvalidStructMember`; accepted programs never reach a missing
field (C24), so the difference is not observable on them.

`runL_refines`: the bounded run either is the unbounded run or reports the overflow — the
bound introduces no other behaviour.  `runL_eq_of_bounded`: if the unbounded run stays within the
bound the two coincide.
-/
namespace AranyaV.Lang
open AranyaV.Gen.Lang

inductive RunResL where
  | res (r : RunRes)
  /-- `MachineErrorType::StackOverflow`, with the foreign-call log at that point -/
  | overflow (log : Log)

/-- the VM with a stack of at most `lim` values -/
def runL (m : Machine) (lim : Nat) : Nat → VM → RunResL
  | 0, _ => .res .oof
  | n + 1, s => match step m s with
    | .running s' => if s'.stack.length ≤ lim then runL m lim n s' else .overflow s'.log
    | .exited r s' => .res (.exited r s')
    | .error e l => .res (.error e l)

/-- the unbounded run from `s` never holds more than `lim` values (for `k` steps) -/
def Bounded (m : Machine) (lim : Nat) : Nat → VM → Prop
  | 0, _ => True
  | n + 1, s => match step m s with
    | .running s' => s'.stack.length ≤ lim ∧ Bounded m lim n s'
    | _ => True

theorem runL_refines (m : Machine) (lim : Nat) : ∀ (k : Nat) (s : VM),
    (∃ l, runL m lim k s = .overflow l) ∨ runL m lim k s = .res (run m k s)
  | 0, s => Or.inr rfl
  | k + 1, s => by
    simp only [runL, run]
    cases hs : step m s with
    | running s' =>
      simp only
      by_cases hb : s'.stack.length ≤ lim
      · simp only [hb, if_true]; exact runL_refines m lim k s'
      · simp only [hb, if_false]; exact Or.inl ⟨_, rfl⟩
    | exited r s' => exact Or.inr rfl
    | error e l => exact Or.inr rfl

theorem runL_eq_of_bounded (m : Machine) (lim : Nat) : ∀ (k : Nat) (s : VM), Bounded m lim k s →
    runL m lim k s = .res (run m k s)
  | 0, s, _ => rfl
  | k + 1, s, h => by
    simp only [runL, run]
    simp only [Bounded] at h
    cases hs : step m s with
    | running s' =>
      rw [hs] at h
      simp only [h.1, if_true]
      exact runL_eq_of_bounded m lim k s' h.2
    | exited r s' => rfl
    | error e l => rfl

/-- an overflow is reported exactly when the unbounded run leaves the bound -/
theorem runL_overflow_iff (m : Machine) (lim : Nat) : ∀ (k : Nat) (s : VM),
    (∃ l, runL m lim k s = .overflow l) ↔ ¬ Bounded m lim k s
  | 0, s => by simp [runL, Bounded]
  | k + 1, s => by
    simp only [runL, Bounded]
    cases hs : step m s with
    | running s' =>
      simp only
      by_cases hb : s'.stack.length ≤ lim
      · simp only [hb, if_true, true_and]; exact runL_overflow_iff m lim k s'
      · simp [hb]
    | exited r s' => simp
    | error e l => simp

end AranyaV.Lang
