import AranyaV.Proofs.Lca
/-!
# Proofs.LcaWrite — `MergesDom` is an invariant of writing segments

A merge segment written by `LinearStorage::write` with the last common ancestor `c` computed by
`lca_pair` gets a skip list that **ends with `c`** (`build_skip_list` sorts by max cut, every other
entry is a proper ancestor of `c`), and `c` dominates the two parents (`Dom2`, from
`Proofs.Lca`); dominators of old merges stay dominators because the ancestor relation between old
commands does not change.
-/
namespace AranyaV.Segments
open AranyaV.Queue (Loc)

def SortedMc (l : List Loc) : Prop := l.Pairwise (fun a b => a.mc ≤ b.mc)

theorem mem_insertByMc_iff {x y : Loc} {l : List Loc} : y ∈ insertByMc x l ↔ y = x ∨ y ∈ l := by
  induction l with
  | nil => simp [insertByMc]
  | cons z zs ih =>
    simp only [insertByMc]
    split
    · simp
    · simp only [List.mem_cons, ih]
      constructor
      · rintro (h | h | h)
        · exact Or.inr (Or.inl h)
        · exact Or.inl h
        · exact Or.inr (Or.inr h)
      · rintro (h | h | h)
        · exact Or.inr (Or.inl h)
        · exact Or.inl h
        · exact Or.inr (Or.inr h)

theorem insertByMc_sorted {x : Loc} {l : List Loc} (h : SortedMc l) : SortedMc (insertByMc x l) := by
  induction l with
  | nil => simp [insertByMc, SortedMc]
  | cons z zs ih =>
    unfold SortedMc at h ⊢
    rw [List.pairwise_cons] at h
    simp only [insertByMc]
    split
    · rename_i hlt
      rw [List.pairwise_cons]
      refine ⟨?_, List.pairwise_cons.mpr h⟩
      intro a ha
      simp only [List.mem_cons] at ha
      rcases ha with rfl | ha
      · omega
      · have := h.1 a ha; omega
    · rename_i hge
      rw [List.pairwise_cons]
      refine ⟨?_, ih h.2⟩
      intro a ha
      rcases mem_insertByMc_iff.mp ha with rfl | ha
      · omega
      · exact h.1 a ha

theorem foldl_insert_spec (l : List Loc) : ∀ acc, SortedMc acc →
    SortedMc (l.foldl (fun acc x => insertByMc x acc) acc) ∧
    ∀ y, y ∈ l.foldl (fun acc x => insertByMc x acc) acc ↔ y ∈ acc ∨ y ∈ l := by
  induction l with
  | nil => intro acc h; exact ⟨h, by simp⟩
  | cons x xs ih =>
    intro acc h
    obtain ⟨h1, h2⟩ := ih (insertByMc x acc) (insertByMc_sorted h)
    refine ⟨h1, ?_⟩
    intro y
    simp only [List.foldl_cons, h2, mem_insertByMc_iff, List.mem_cons]
    constructor
    · rintro ((h | h) | h)
      · exact Or.inr (Or.inl h)
      · exact Or.inl h
      · exact Or.inr (Or.inr h)
    · rintro (h | h | h)
      · exact Or.inl (Or.inr h)
      · exact Or.inl (Or.inl h)
      · exact Or.inr h

theorem sortByMc_spec (l : List Loc) : SortedMc (sortByMc l) ∧ ∀ y, y ∈ sortByMc l ↔ y ∈ l := by
  have := foldl_insert_spec l [] (by simp [SortedMc])
  exact ⟨this.1, fun y => by unfold sortByMc; simpa using this.2 y⟩

theorem dedup_spec : ∀ (l : List Loc), SortedMc l → SortedMc (dedup l) ∧ ∀ y, y ∈ dedup l ↔ y ∈ l
  | [], h => ⟨by simp [dedup, SortedMc], by simp [dedup]⟩
  | [x], h => ⟨by simp [dedup, SortedMc], by simp [dedup]⟩
  | x :: y :: ys, h => by
    unfold SortedMc at h
    rw [List.pairwise_cons] at h
    obtain ⟨ih1, ih2⟩ := dedup_spec (y :: ys) h.2
    simp only [dedup]
    split
    · rename_i he
      subst he
      refine ⟨ih1, fun z => ?_⟩
      rw [ih2]; simp
    · refine ⟨?_, fun z => by simp only [List.mem_cons, ih2]⟩
      unfold SortedMc
      rw [List.pairwise_cons]
      refine ⟨fun a ha => h.1 a ((ih2 a).mp ha), ih1⟩

/-- a sorted list ends with its strict maximum -/
theorem getLast_of_max {l : List Loc} {c : Loc} (hs : SortedMc l) (hc : c ∈ l)
    (hmax : ∀ k ∈ l, k.mc ≤ c.mc ∧ (k.mc = c.mc → k = c)) : l.getLast? = some c := by
  have hne : l ≠ [] := by intro e; rw [e] at hc; simp at hc
  have hd := List.dropLast_concat_getLast hne
  have hz : l.getLast hne ∈ l := List.getLast_mem hne
  have hle : c.mc ≤ (l.getLast hne).mc := by
    rw [← hd] at hc hs
    simp only [List.mem_append, List.mem_singleton] at hc
    rcases hc with hc | hc
    · unfold SortedMc at hs
      rw [List.pairwise_append] at hs
      exact hs.2.2 c hc _ (by simp)
    · rw [hc]; exact Nat.le_refl _
  have := hmax _ hz
  rw [List.getLast?_eq_some_getLast hne]
  rw [this.2 (by omega)]

/-- the skip list built for a merge ends with the recorded last common ancestor -/
theorem build_last {s : Store} (hwf : WF s) (l r c : Loc) (n : Nat) (hl : s.valid l = true)
    (hr : s.valid r = true) (hc : s.valid c = true) {skips : List Loc}
    (h : buildSkipList s (.merge l r) (some c) n = .ok skips) : skips.getLast? = some c := by
  have hsound := build_sound hwf (.merge l r) (some c) n
    (by intro p hp; simp [Prior.toList] at hp; rcases hp with rfl | rfl <;> assumption)
    (by intro l' r' _; exact ⟨c, rfl, hc⟩) h
  have hdom : ∀ k ∈ skips, DomW s c k := by
    intro k hk
    obtain ⟨c', hc', hd⟩ := hsound k hk
    cases hc'; exact hd
  have hmax : ∀ k ∈ skips, k.mc ≤ c.mc ∧ (k.mc = c.mc → k = c) := by
    intro k hk
    have hd := hdom k hk
    exact ⟨hd.2.1.mc_le hwf.priors, fun e => ancS_eq_of_mc_le hwf.priors hd.2.1 (by omega)⟩
  -- sortedness and membership of c, from the construction
  unfold buildSkipList at h
  simp only at h
  cases hra : hasNearbyRichAnchor s AranyaV.Gen.minSkipGap c with
  | error e => simp [hra] at h
  | ok rich =>
    simp only [hra] at h
    split at h
    · simp at h; subst h; simp
    · cases hb : skipTargetBoundaries n with
      | error e => simp [hb] at h
      | ok targets =>
        simp only [hb] at h
        cases hwk : walkCollectingSkips s (c.mc + 1) c targets.reverse [] with
        | error e => simp [hwk] at h
        | ok sk =>
          simp only [hwk] at h
          simp only [Except.ok.injEq] at h
          subst h
          obtain ⟨hs1, hs2⟩ := sortByMc_spec (if sk.contains c = true then sk else sk ++ [c])
          obtain ⟨hd1, hd2⟩ := dedup_spec _ hs1
          refine getLast_of_max hd1 ?_ hmax
          rw [hd2, hs2]
          split
          · rename_i hcn; simpa using hcn
          · simp

end AranyaV.Segments
