import AranyaV.Proofs.CompileStruct
/-!
C22: `match` — pattern tests (`Dup; <literal>; Eq; Branch` / `Dup; Is w; Branch`), arm selection,
arm bodies (`Block; Unwrap w; Def x | Pop; body; End; Jump end`).
-/
namespace AranyaV.Lang
open AranyaV.Gen.Lang
variable (S : Sim)

theorem wrapOfBinding_eq (e : Expr) : wrapOfBinding e = (bindingOf e).map (·.1) := rfl

theorem patValsSim_succ {n : Nat} (ihE : ExprSim S n) (ihPV : PatValsSim S n) : PatValsSim S (n + 1) := by
  intro vs v env log wp c arm armAddr junk base fr K hsup hcode hdefs harm
  cases vs with
  | nil =>
    simp only [matchVals, Outcome, compilePatVals, List.length_nil, Nat.add_zero, Bool.false_eq_true, if_false]
    exact Steps.refl _
  | cons pe rest =>
    simp only [supArgs, Bool.and_eq_true] at hsup
    simp only [matchVals]
    cases hb : bindingOf pe with
    | some wx =>
      obtain ⟨w, x⟩ := wx
      have hw : wrapOfBinding pe = some w := by simp [wrapOfBinding_eq, hb]
      simp only [compilePatVals, hw] at hcode hdefs ⊢
      simp only [codeAt_append, codeAt_cons, CodeAt.nil, and_true] at hcode
      simp only [res_br harm] at hcode
      simp only [res] at hcode
      obtain ⟨⟨hdup, his, hbr⟩, hcR⟩ := hcode
      have pre : Steps S.m (stAt (v :: junk) base env fr K wp log)
          ⟨.bool (isWrap w v) :: (v :: junk ++ base), env :: fr, base.length :: K, wp + 1 + 1, log⟩ :=
        (Steps.one (step_dup hdup)).trans (Steps.one (step_is his))
      dsimp only
      by_cases hiw : isWrap w v = true
      · simp only [hiw, if_true, Outcome]
        rw [hiw] at pre
        exact pre.trans (Steps.one (step_branch_true hbr))
      · have hiw' : isWrap w v = false := by simpa using hiw
        simp only [hiw', Bool.false_eq_true, if_false]
        rw [hiw'] at pre
        have pre2 := pre.trans (Steps.one (step_branch_false hbr))
        have hcR' : CodeAt S.labels S.m.prog (wp + 3) (compilePatVals S.m.p.structs (wp + 3) c arm rest).code := by
          simpa using hcR
        have ihr := ihPV rest v env log (wp + 3) c arm armAddr junk base fr K hsup.2 hcR' hdefs harm
        refine Outcome.of_steps pre2 (Outcome.cast ihr ?_)
        intro b l; congr 1
        cases b <;> simp only [Bool.false_eq_true, if_false, if_true, List.length_append, List.length_cons, List.length_nil]
        omega
    | none =>
      have hw : wrapOfBinding pe = none := by simp [wrapOfBinding_eq, hb]
      simp only [compilePatVals, hw, defsOk_append] at hcode hdefs ⊢
      have hcode' : CodeAt S.labels S.m.prog wp ([Instruction.Dup] ++ (compileExpr S.m.p.structs (wp + 1) c pe).code ++
          [Instruction.Eq, br arm] ++
          (compilePatVals S.m.p.structs (wp + 1 + (compileExpr S.m.p.structs (wp + 1) c pe).code.length + 2)
            (compileExpr S.m.p.structs (wp + 1) c pe).c arm rest).code) := by
        simpa [List.append_assoc] using hcode
      simp only [codeAt_append, codeAt_cons, CodeAt.nil, and_true] at hcode'
      simp only [res_br harm] at hcode'
      simp only [res] at hcode'
      normpc at hcode'
      obtain ⟨⟨⟨hdup, hcE⟩, heq, hbr⟩, hcR⟩ := hcode'
      have pre : Steps S.m (stAt (v :: junk) base env fr K wp log) (stAt (v :: v :: junk) base env fr K (wp + 1) log) :=
        Steps.one (step_dup hdup)
      have ihe := ihE pe env log (wp + 1) c (v :: v :: junk) base fr K hsup.1 hcE hdefs.1
      dsimp only
      cases hre : evalExpr S.m.p n env log pe with
      | val lit l =>
        rw [hre] at ihe; simp only [Outcome] at ihe
        have pre2 := pre.trans (ihe.trans (Steps.one (step_eq heq)))
        dsimp only
        by_cases hbeq : v.beq lit = true
        · simp only [hbeq, if_true, Outcome]
          rw [hbeq] at pre2
          exact pre2.trans (Steps.one (step_branch_true hbr))
        · have hbeq' : v.beq lit = false := by simpa using hbeq
          simp only [hbeq', Bool.false_eq_true, if_false]
          rw [hbeq'] at pre2
          have pre3 := pre2.trans (Steps.one (step_branch_false hbr))
          have hcR' : CodeAt S.labels S.m.prog (wp + 1 + (compileExpr S.m.p.structs (wp + 1) c pe).code.length + 2)
              (compilePatVals S.m.p.structs (wp + 1 + (compileExpr S.m.p.structs (wp + 1) c pe).code.length + 2)
                (compileExpr S.m.p.structs (wp + 1) c pe).c arm rest).code := by
            have e : wp + 1 + (compileExpr S.m.p.structs (wp + 1) c pe).code.length + 1 + 1 =
                wp + 1 + (compileExpr S.m.p.structs (wp + 1) c pe).code.length + 2 := by omega
            rw [← e]; exact hcR
          have ihr := ihPV rest v env l _ _ arm armAddr junk base fr K hsup.2 hcR' hdefs.2
          refine Outcome.of_steps (Steps.cast_pc pre3 (by omega)) (Outcome.cast ihr ?_)
          intro b l'; congr 1
          cases b <;> simp only [Bool.false_eq_true, if_false, if_true, List.length_append, List.length_cons, List.length_nil]
          omega
      | _ => first | (rw [hre] at ihe; exact Outcome.of_steps pre ihe) | trivial

theorem compileTestsE_eq (sd : Defs) : ∀ (arms : List (Pat × Expr)) (wp c : Nat),
    compileTestsE sd wp c arms = compileTestsP sd wp c (arms.map (·.1))
  | [], wp, c => by simp [compileTestsE, compileTestsP]
  | (.values vs, _) :: rest, wp, c => by
    simp only [compileTestsE, List.map_cons, compileTestsP, compileTestsE_eq sd rest]
  | (.default, _) :: rest, wp, c => by
    simp only [compileTestsE, List.map_cons, compileTestsP, compileTestsE_eq sd rest]

theorem compileTestsS_eq (sd : Defs) : ∀ (arms : List (Pat × List Stmt)) (wp c : Nat),
    compileTestsS sd wp c arms = compileTestsP sd wp c (arms.map (·.1))
  | [], wp, c => by simp [compileTestsS, compileTestsP]
  | (.values vs, _) :: rest, wp, c => by
    simp only [compileTestsS, List.map_cons, compileTestsP, compileTestsS_eq sd rest]
  | (.default, _) :: rest, wp, c => by
    simp only [compileTestsS, List.map_cons, compileTestsP, compileTestsS_eq sd rest]

theorem selectSim_succ {n : Nat} (ihPV : PatValsSim S n) (ihSel : SelectSim S n) : SelectSim S (n + 1) := by
  intro pats v env log wp c k0 addrOf junk base fr K hsup hcode hdefs hl
  cases pats with
  | nil => simp only [selectArm, Outcome]
  | cons pat rest =>
    simp only [supPats, Bool.and_eq_true] at hsup
    cases pat with
    | default =>
      simp only [selectArm, Outcome]
      have h0 := hl 0 (Label.anon c) (by simp [compileTestsP])
      simp only [compileTestsP, codeAt_cons] at hcode
      simp only [res_jmp h0] at hcode
      simpa using Steps.one (step_jump hcode.1)
    | values vs =>
      simp only [supPat] at hsup
      have h0 := hl 0 (Label.anon c) (by simp [compileTestsP])
      simp only [Nat.add_zero] at h0
      simp only [compileTestsP, codeAt_append, defsOk_append] at hcode hdefs
      have ihv := ihPV vs v env log wp (c + 1) (Label.anon c) (addrOf k0) junk base fr K hsup.1 hcode.1 hdefs.1 h0
      simp only [selectArm]
      cases hrv : matchVals S.m.p n env log v vs with
      | val b l =>
        rw [hrv] at ihv; simp only [Outcome] at ihv
        cases b with
        | true => simp only [Outcome]; simpa using ihv
        | false =>
          simp only [Bool.false_eq_true, if_false] at ihv
          dsimp only
          have ihr := ihSel rest v env l _ _ (k0 + 1) addrOf junk base fr K hsup.2 hcode.2 hdefs.2
            (by
              intro i l' hi
              have := hl (i + 1) l' (by simpa [compileTestsP] using hi)
              have e : k0 + (i + 1) = k0 + 1 + i := by omega
              rw [e] at this; exact this)
          exact Outcome.of_steps ihv ihr
      | _ => first | (rw [hrv] at ihv; exact ihv) | trivial

end AranyaV.Lang
