import AranyaV.Proofs.CompileStruct
/-!
C22: `match` — pattern tests (`Dup; <literal>; Eq; Branch` / `Dup; Is w; Branch`), arm selection,
arm bodies (`Block; Unwrap w; Def x | Pop; body; End; Jump end`).
-/
namespace AranyaV.Lang
open AranyaV.Gen.Lang
variable (S : Sim)

theorem wrapOfBinding_eq (e : Expr) : wrapOfBinding e = (bindingOf e).map (·.1) := rfl

theorem patValsSim_succ {n : Nat} (ihE : ExprSim S n) (ihPV : PatValsSim S n) : PatValsSim S (n + 1) := by
  intro vs v env log wp c arm armAddr junk base fr K hsup hcode hdefs harm
  cases vs with
  | nil =>
    simp only [matchVals, Outcome, compilePatVals, List.length_nil, Nat.add_zero, Bool.false_eq_true, if_false]
    exact Steps.refl _
  | cons pe rest =>
    simp only [supArgs, Bool.and_eq_true] at hsup
    simp only [matchVals]
    cases hb : bindingOf pe with
    | some wx =>
      obtain ⟨w, x⟩ := wx
      have hw : wrapOfBinding pe = some w := by simp [wrapOfBinding_eq, hb]
      simp only [compilePatVals, hw] at hcode hdefs ⊢
      simp only [codeAt_append, codeAt_cons, CodeAt.nil, and_true] at hcode
      simp only [res_br harm] at hcode
      simp only [res] at hcode
      obtain ⟨⟨hdup, his, hbr⟩, hcR⟩ := hcode
      have pre : Steps S.m (stAt (v :: junk) base env fr K wp log)
          ⟨.bool (isWrap w v) :: (v :: junk ++ base), env :: fr, base.length :: K, wp + 1 + 1, log⟩ :=
        (Steps.one (step_dup hdup)).trans (Steps.one (step_is his))
      by_cases hiw : isWrap w v = true
      · simp only [hiw, if_true, Outcome]
        rw [hiw] at pre
        exact pre.trans (Steps.one (step_branch_true hbr))
      · have hiw' : isWrap w v = false := by simpa using hiw
        simp only [hiw', Bool.false_eq_true, if_false]
        rw [hiw'] at pre
        have pre2 := pre.trans (Steps.one (step_branch_false hbr))
        have hcR' : CodeAt S.labels S.m.prog (wp + 3) (compilePatVals S.m.p.structs (wp + 3) c arm rest).code := by
          simpa using hcR
        have ihr := ihPV rest v env log (wp + 3) c arm armAddr junk base fr K hsup.2 hcR' hdefs harm
        refine Outcome.of_steps pre2 (Outcome.cast ihr ?_)
        intro b l; congr 1
        cases b <;> simp only [Bool.false_eq_true, if_false, if_true, List.length_append, List.length_cons, List.length_nil]
        omega
    | none =>
      have hw : wrapOfBinding pe = none := by simp [wrapOfBinding_eq, hb]
      simp only [compilePatVals, hw, defsOk_append] at hcode hdefs ⊢
      have hcode' : CodeAt S.labels S.m.prog wp ([Instruction.Dup] ++ (compileExpr S.m.p.structs (wp + 1) c pe).code ++
          [Instruction.Eq, br arm] ++
          (compilePatVals S.m.p.structs (wp + 1 + (compileExpr S.m.p.structs (wp + 1) c pe).code.length + 2)
            (compileExpr S.m.p.structs (wp + 1) c pe).c arm rest).code) := by
        simpa [List.append_assoc] using hcode
      simp only [codeAt_append, codeAt_cons, CodeAt.nil, and_true] at hcode'
      simp only [res_br harm] at hcode'
      simp only [res] at hcode'
      normpc at hcode'
      obtain ⟨⟨⟨hdup, hcE⟩, heq, hbr⟩, hcR⟩ := hcode'
      have pre : Steps S.m (stAt (v :: junk) base env fr K wp log) (stAt (v :: v :: junk) base env fr K (wp + 1) log) :=
        Steps.one (step_dup hdup)
      have ihe := ihE pe env log (wp + 1) c (v :: v :: junk) base fr K hsup.1 hcE hdefs.1
      cases hre : evalExpr S.m.p n env log pe with
      | val lit l =>
        rw [hre] at ihe; simp only [Outcome] at ihe
        have pre2 := pre.trans (ihe.trans (Steps.one (step_eq heq)))
        dsimp only
        by_cases hbeq : v.beq lit = true
        · simp only [hbeq, if_true, Outcome]
          rw [hbeq] at pre2
          exact pre2.trans (Steps.one (step_branch_true hbr))
        · have hbeq' : v.beq lit = false := by simpa using hbeq
          simp only [hbeq', Bool.false_eq_true, if_false]
          rw [hbeq'] at pre2
          have pre3 := pre2.trans (Steps.one (step_branch_false hbr))
          have hcR' : CodeAt S.labels S.m.prog (wp + 1 + (compileExpr S.m.p.structs (wp + 1) c pe).code.length + 2)
              (compilePatVals S.m.p.structs (wp + 1 + (compileExpr S.m.p.structs (wp + 1) c pe).code.length + 2)
                (compileExpr S.m.p.structs (wp + 1) c pe).c arm rest).code := by
            have e : wp + 1 + (compileExpr S.m.p.structs (wp + 1) c pe).code.length + 1 + 1 =
                wp + 1 + (compileExpr S.m.p.structs (wp + 1) c pe).code.length + 2 := by omega
            rw [← e]; exact hcR
          have ihr := ihPV rest v env l _ _ arm armAddr junk base fr K hsup.2 hcR' hdefs.2 harm
          refine Outcome.of_steps (Steps.cast_pc pre3 (by omega)) (Outcome.cast ihr ?_)
          intro b l'; congr 1
          cases b <;> simp only [Bool.false_eq_true, if_false, if_true, List.length_append, List.length_cons, List.length_nil]
          omega
      | _ => first | (rw [hre] at ihe; exact Outcome.of_steps pre ihe) | trivial

theorem compileTestsE_eq (sd : Defs) : ∀ (arms : List (Pat × Expr)) (wp c : Nat),
    compileTestsE sd wp c arms = compileTestsP sd wp c (arms.map (·.1))
  | [], wp, c => by simp [compileTestsE, compileTestsP]
  | (.values vs, _) :: rest, wp, c => by
    simp only [compileTestsE, List.map_cons, compileTestsP, compileTestsE_eq sd rest]
  | (.default, _) :: rest, wp, c => by
    simp only [compileTestsE, List.map_cons, compileTestsP, compileTestsE_eq sd rest]

theorem compileTestsS_eq (sd : Defs) : ∀ (arms : List (Pat × List Stmt)) (wp c : Nat),
    compileTestsS sd wp c arms = compileTestsP sd wp c (arms.map (·.1))
  | [], wp, c => by simp [compileTestsS, compileTestsP]
  | (.values vs, _) :: rest, wp, c => by
    simp only [compileTestsS, List.map_cons, compileTestsP, compileTestsS_eq sd rest]
  | (.default, _) :: rest, wp, c => by
    simp only [compileTestsS, List.map_cons, compileTestsP, compileTestsS_eq sd rest]

theorem selectSim_succ {n : Nat} (ihPV : PatValsSim S n) (ihSel : SelectSim S n) : SelectSim S (n + 1) := by
  intro pats v env log wp c k0 addrOf junk base fr K hsup hcode hdefs hl
  cases pats with
  | nil => simp only [selectArm, Outcome]
  | cons pat rest =>
    simp only [supPats, Bool.and_eq_true] at hsup
    cases pat with
    | default =>
      simp only [selectArm, Outcome]
      have h0 := hl 0 (Label.anon c) (by simp [compileTestsP])
      simp only [compileTestsP, codeAt_cons] at hcode
      simp only [res_jmp h0] at hcode
      simpa using Steps.one (step_jump hcode.1)
    | values vs =>
      simp only [supPat] at hsup
      have h0 := hl 0 (Label.anon c) (by simp [compileTestsP])
      simp only [Nat.add_zero] at h0
      simp only [compileTestsP, codeAt_append, defsOk_append] at hcode hdefs
      have ihv := ihPV vs v env log wp (c + 1) (Label.anon c) (addrOf k0) junk base fr K hsup.1 hcode.1 hdefs.1 h0
      simp only [selectArm]
      cases hrv : matchVals S.m.p n env log v vs with
      | val b l =>
        rw [hrv] at ihv; simp only [Outcome] at ihv
        cases b with
        | true => simp only [Outcome]; simpa using ihv
        | false =>
          simp only [Bool.false_eq_true, if_false] at ihv
          dsimp only
          have ihr := ihSel rest v env l _ _ (k0 + 1) addrOf junk base fr K hsup.2 hcode.2 hdefs.2
            (by
              intro i l' hi
              have := hl (i + 1) l' (by simpa [compileTestsP] using hi)
              have e : k0 + (i + 1) = k0 + 1 + i := by omega
              rw [e] at this; exact this)
          exact Outcome.of_steps ihv ihr
      | _ => first | (rw [hrv] at ihv; exact ihv) | trivial

/-- the instructions between `Block` and an arm's body -/
def armPre : Pat → List Instr
  | .values vs => (match firstBinding vs with
    | some (w, x) => [.Unwrap w, .Def x]
    | none => [.Pop])
  | .default => [.Pop]

theorem tests_labels_length (sd : Defs) : ∀ (pats : List Pat) (wp c : Nat),
    (compileTestsP sd wp c pats).2.length = pats.length
  | [], _, _ => by simp [compileTestsP]
  | .values vs :: rest, wp, c => by simp [compileTestsP, tests_labels_length sd rest]
  | .default :: rest, wp, c => by simp [compileTestsP, tests_labels_length sd rest]

theorem compileArmsE_cons (sd : Defs) (wp c : Nat) (end_ l : Label) (ls : List Label) (pat : Pat) (body : Expr)
    (rest : List (Pat × Expr)) :
    compileArmsE sd wp c end_ (l :: ls) ((pat, body) :: rest) =
      ⟨(.Block :: armPre pat ++ (compileExpr sd (wp + 1 + (armPre pat).length) c body).code ++ [.End, jmp end_]) ++
        (compileArmsE sd (wp + 1 + (armPre pat).length + (compileExpr sd (wp + 1 + (armPre pat).length) c body).code.length + 2)
          (compileExpr sd (wp + 1 + (armPre pat).length) c body).c end_ ls rest).code,
       (l, wp) :: (compileExpr sd (wp + 1 + (armPre pat).length) c body).defs ++
        (compileArmsE sd (wp + 1 + (armPre pat).length + (compileExpr sd (wp + 1 + (armPre pat).length) c body).code.length + 2)
          (compileExpr sd (wp + 1 + (armPre pat).length) c body).c end_ ls rest).defs,
       (compileArmsE sd (wp + 1 + (armPre pat).length + (compileExpr sd (wp + 1 + (armPre pat).length) c body).code.length + 2)
          (compileExpr sd (wp + 1 + (armPre pat).length) c body).c end_ ls rest).c⟩ := by
  cases pat with
  | default => simp [compileArmsE, armPre, List.append_assoc]
  | values vs =>
    cases hfb : firstBinding vs with
    | none => simp [compileArmsE, armPre, hfb, List.append_assoc]
    | some wx => obtain ⟨w, x⟩ := wx; simp [compileArmsE, armPre, hfb, List.append_assoc]

/-- where arm `k` of a match expression sits and what its label resolves to -/
theorem arm_layoutE : ∀ (arms : List (Pat × Expr)) (ls : List Label) (wp c : Nat) (end_ : Label) (k : Nat)
    (pat : Pat) (body : Expr) (lk : Label),
    arms[k]? = some (pat, body) → ls[k]? = some lk →
    CodeAt S.labels S.m.prog wp (compileArmsE S.m.p.structs wp c end_ ls arms).code →
    DefsOk S.labels (compileArmsE S.m.p.structs wp c end_ ls arms).defs →
    ∃ wpk ck, lookupLabel S.labels lk = some wpk ∧
      CodeAt S.labels S.m.prog wpk (.Block :: armPre pat ++
        (compileExpr S.m.p.structs (wpk + 1 + (armPre pat).length) ck body).code ++ [.End, jmp end_]) ∧
      DefsOk S.labels (compileExpr S.m.p.structs (wpk + 1 + (armPre pat).length) ck body).defs
  | [], _, _, _, _, k, _, _, _, h, _, _, _ => by simp at h
  | _ :: _, [], _, _, _, k, _, _, _, _, h, _, _ => by simp at h
  | (p0, b0) :: rest, l0 :: ls, wp, c, end_, k, pat, body, lk, ha, hl, hcode, hdefs => by
    rw [compileArmsE_cons] at hcode hdefs
    have hcode' := hcode
    have hdefs' := hdefs
    simp only at hcode' hdefs'
    rw [codeAt_append] at hcode'
    rw [List.cons_append, defsOk_cons, defsOk_append] at hdefs'
    cases k with
    | zero =>
      simp only [List.getElem?_cons_zero, Option.some.injEq] at ha hl
      cases ha; subst hl
      exact ⟨wp, c, hdefs'.1, hcode'.1, hdefs'.2.1⟩
    | succ k =>
      simp only [List.getElem?_cons_succ] at ha hl
      have hlen : wp + (Instruction.Block :: armPre p0 ++ (compileExpr S.m.p.structs (wp + 1 + (armPre p0).length) c b0).code ++
          [Instruction.End, jmp end_]).length = wp + 1 + (armPre p0).length +
            (compileExpr S.m.p.structs (wp + 1 + (armPre p0).length) c b0).code.length + 2 := by
        simp only [List.length_cons, List.length_append, List.length_nil]; omega
      rw [hlen] at hcode'
      exact arm_layoutE rest ls _ _ end_ k pat body lk ha hl hcode'.2 hdefs'.2.2

/-- `Block`, then the arm's binding (or `Pop`): the VM's scopes become what `bindArm` computes -/
theorem arm_prologue {m : Machine} {labels : List (Label × Nat)} (pat : Pat) (v : Val) (env env' : Env)
    (σ : List Val) (fr : List Env) (K : List Nat) (pc : Nat) (lg : Log)
    (hcode : CodeAt labels m.prog pc (.Block :: armPre pat))
    (hb : bindArm m.p ([] :: env) v pat = some env') :
    Steps m ⟨v :: σ, env :: fr, K, pc, lg⟩ ⟨σ, env' :: fr, K, pc + 1 + (armPre pat).length, lg⟩ := by
  rw [codeAt_cons] at hcode
  simp only [res] at hcode
  have pre : Steps m ⟨v :: σ, env :: fr, K, pc, lg⟩ ⟨v :: σ, ([] :: env) :: fr, K, pc + 1, lg⟩ :=
    Steps.one (step_block hcode.1)
  have hpop : ∀ (h : CodeAt labels m.prog (pc + 1) [Instruction.Pop]),
      Steps m ⟨v :: σ, ([] :: env) :: fr, K, pc + 1, lg⟩ ⟨σ, ([] :: env) :: fr, K, pc + 1 + 1, lg⟩ := by
    intro h
    simp only [codeAt_single, res] at h
    exact Steps.one (step_pop h)
  cases pat with
  | default =>
    simp only [bindArm, Option.some.injEq] at hb
    subst hb
    simp only [armPre, List.length_singleton] at hcode ⊢
    exact pre.trans (hpop hcode.2)
  | values vs =>
    simp only [bindArm] at hb
    simp only [armPre] at hcode ⊢
    cases hf : firstBinding vs with
    | none =>
      rw [hf] at hb hcode
      simp only [Option.some.injEq] at hb
      subst hb
      simp only [List.length_singleton]
      exact pre.trans (hpop hcode.2)
    | some wx =>
      obtain ⟨w, x⟩ := wx
      rw [hf] at hb hcode
      simp only at hb hcode ⊢
      cases hu : unwrap w v with
      | none => rw [hu] at hb; cases hb
      | some inner =>
        rw [hu] at hb
        simp only [codeAt_cons, CodeAt.nil, and_true, res] at hcode
        refine pre.trans ((Steps.one (step_unwrap hcode.2.1 hu)).trans ?_)
        simp only [List.length_cons, List.length_nil]
        exact Steps.one (step_def hcode.2.2 hb)

theorem supArmsE_pats : ∀ (arms : List (Pat × Expr)), supArmsE arms = true → supPats (arms.map (·.1)) = true
  | [], _ => rfl
  | (p, e) :: rest, h => by
    simp only [supArmsE, Bool.and_eq_true] at h
    simp only [List.map_cons, supPats, Bool.and_eq_true]
    exact ⟨h.1.1, supArmsE_pats rest h.2⟩

theorem supArmsE_get : ∀ (arms : List (Pat × Expr)) (k : Nat) (pat : Pat) (body : Expr),
    supArmsE arms = true → arms[k]? = some (pat, body) → supE body = true
  | [], _, _, _, _, h => by simp at h
  | (p, e) :: rest, 0, pat, body, hs, h => by
    simp only [supArmsE, Bool.and_eq_true] at hs
    simp only [List.getElem?_cons_zero, Option.some.injEq, Prod.mk.injEq] at h
    rw [← h.2]; exact hs.1.2
  | (p, e) :: rest, k + 1, pat, body, hs, h => by
    simp only [supArmsE, Bool.and_eq_true] at hs
    simp only [List.getElem?_cons_succ] at h
    exact supArmsE_get rest k pat body hs.2 h

theorem sim_match {n : Nat} (ihE : ExprSim S n) (ihSel : SelectSim S n) (scrut : Expr) (arms : List (Pat × Expr)) :
    ExprCase S (n + 1) (.mtch scrut arms) := by
  intro env log wp c junk base fr K hsup hcode hdefs
  simp only [supE, Bool.and_eq_true] at hsup
  simp only [compileExpr, compileTestsE_eq, defsOk_append, defsOk_cons, DefsOk.nil, and_true, codeAt_append] at hcode hdefs
  obtain ⟨⟨⟨hdS, hdT⟩, hdA⟩, hend⟩ := hdefs
  obtain ⟨⟨hcS, hcT⟩, hcA⟩ := hcode
  normpc at hcA
  have hpcEnd : wp + (compileExpr S.m.p.structs wp c (.mtch scrut arms)).code.length =
      wp + (compileExpr S.m.p.structs wp c scrut).code.length +
        (compileTestsP S.m.p.structs (wp + (compileExpr S.m.p.structs wp c scrut).code.length)
          ((compileExpr S.m.p.structs wp c scrut).c + 1) (arms.map (·.1))).1.code.length +
        (compileArmsE S.m.p.structs (wp + (compileExpr S.m.p.structs wp c scrut).code.length +
          (compileTestsP S.m.p.structs (wp + (compileExpr S.m.p.structs wp c scrut).code.length)
            ((compileExpr S.m.p.structs wp c scrut).c + 1) (arms.map (·.1))).1.code.length)
          (compileTestsP S.m.p.structs (wp + (compileExpr S.m.p.structs wp c scrut).code.length)
            ((compileExpr S.m.p.structs wp c scrut).c + 1) (arms.map (·.1))).1.c
          (Label.anon (compileExpr S.m.p.structs wp c scrut).c)
          (compileTestsP S.m.p.structs (wp + (compileExpr S.m.p.structs wp c scrut).code.length)
            ((compileExpr S.m.p.structs wp c scrut).c + 1) (arms.map (·.1))).2 arms).code.length := by
    simp only [compileExpr, compileTestsE_eq, List.length_append]; omega
  -- abbreviations
  generalize hSo : compileExpr S.m.p.structs wp c scrut = So at *
  generalize hTo : compileTestsP S.m.p.structs (wp + So.code.length) (So.c + 1) (arms.map (·.1)) = To at *
  -- addresses of the arms
  let addrOf : Nat → Nat := fun i => ((To.2[i]?).bind (lookupLabel S.labels)).getD 0
  have hlen : To.2.length = arms.length := by
    rw [← hTo, tests_labels_length]; simp
  have haddr : ∀ i l, To.2[i]? = some l → lookupLabel S.labels l = some (addrOf (0 + i)) := by
    intro i l hi
    have hi' : i < arms.length := by
      rw [← hlen]; exact (List.getElem?_eq_some_iff.mp hi).1
    obtain ⟨⟨pat, body⟩, harm⟩ : ∃ pb, arms[i]? = some pb := ⟨arms[i], List.getElem?_eq_getElem hi'⟩
    obtain ⟨wpk, ck, hlk, _, _⟩ := arm_layoutE S arms To.2 _ _ (Label.anon So.c) i pat body l harm hi hcA hdA
    simp only [addrOf, Nat.zero_add, hi, Option.bind_some, hlk, Option.getD_some]
  have ihs := ihE scrut env log wp c junk base fr K hsup.1 (by rw [hSo]; exact hcS) (by rw [hSo]; exact hdS)
  rw [hSo] at ihs
  simp only [evalExpr]
  cases hrs : evalExpr S.m.p n env log scrut with
  | val v l =>
    rw [hrs] at ihs; simp only [Outcome] at ihs
    dsimp only
    have ihsel := ihSel (arms.map (·.1)) v env l (wp + So.code.length) (So.c + 1) 0 addrOf junk base fr K
      (supArmsE_pats arms hsup.2) (by rw [hTo]; exact hcT) (by rw [hTo]; exact hdT) (by rw [hTo]; exact haddr)
    cases hrk : selectArm S.m.p n env l v (arms.map (·.1)) 0 with
    | val k l' =>
      rw [hrk] at ihsel; simp only [Outcome] at ihsel
      dsimp only
      cases harm : arms[k]? with
      | none => trivial
      | some pb =>
        obtain ⟨pat, body⟩ := pb
        dsimp only
        cases hb : bindArm S.m.p ([] :: env) v pat with
        | none => trivial
        | some env' =>
          dsimp only
          have hk : k < To.2.length := by
            rw [hlen]; exact (List.getElem?_eq_some_iff.mp harm).1
          have hlk : To.2[k]? = some To.2[k] := List.getElem?_eq_getElem hk
          obtain ⟨wpk, ck, hlook, hcArm, hdB⟩ := arm_layoutE S arms To.2 _ _ (Label.anon So.c) k pat body _ harm hlk hcA hdA
          have hak : addrOf k = wpk := by
            simp only [addrOf, hlk, Option.bind_some, hlook, Option.getD_some]
          rw [hak] at ihsel
          have hcArm' : CodeAt S.labels S.m.prog wpk ((Instruction.Block :: armPre pat) ++
              (compileExpr S.m.p.structs (wpk + 1 + (armPre pat).length) ck body).code ++ [Instruction.End, jmp (Label.anon So.c)]) := by
            simpa [List.append_assoc] using hcArm
          rw [codeAt_append, codeAt_append] at hcArm'
          obtain ⟨⟨hcPre, hcB⟩, hcTail⟩ := hcArm'
          simp only [codeAt_cons, CodeAt.nil, and_true, res_jmp hend] at hcTail
          simp only [res] at hcTail
          have e1 : wpk + (Instruction.Block :: armPre pat).length = wpk + 1 + (armPre pat).length := by
            simp only [List.length_cons]; omega
          rw [e1] at hcB
          have pro := arm_prologue (m := S.m) (labels := S.labels) pat v env env' (junk ++ base) fr (base.length :: K) wpk l' hcPre hb
          obtain ⟨b, rfl⟩ := bindArm_tail hb
          have ihb := ihE body (b :: env) l' _ ck junk base fr K (supArmsE_get arms k pat body hsup.2 harm) hcB hdB
          have pre := ihs.trans (ihsel.trans pro)
          cases hrb : evalExpr S.m.p n (b :: env) l' body with
          | val r l'' =>
            rw [hrb] at ihb; simp only [Outcome] at ihb ⊢
            refine pre.trans (ihb.trans ?_)
            have e2 : wpk + ((Instruction.Block :: armPre pat) ++
                (compileExpr S.m.p.structs (wpk + 1 + (armPre pat).length) ck body).code).length =
                wpk + 1 + (armPre pat).length + (compileExpr S.m.p.structs (wpk + 1 + (armPre pat).length) ck body).code.length := by
              simp only [List.length_cons, List.length_append]; omega
            rw [e2] at hcTail
            refine (Steps.one (step_end hcTail.1)).trans ?_
            exact Steps.cast_pc (Steps.one (step_jump hcTail.2)) hpcEnd.symm
          | _ => first | (rw [hrb] at ihb; exact Outcome.of_steps pre ihb) | trivial
    | _ => first | (rw [hrk] at ihsel; exact Outcome.of_steps ihs ihsel) | trivial
  | _ => first | (rw [hrs] at ihs; exact ihs) | trivial

/-! ### the statement form -/

theorem compileArmsS_cons (sd : Defs) (wp c : Nat) (end_ l : Label) (ls : List Label) (pat : Pat) (body : List Stmt)
    (rest : List (Pat × List Stmt)) :
    compileArmsS sd wp c end_ (l :: ls) ((pat, body) :: rest) =
      ⟨(.Block :: armPre pat ++ (compileStmts sd (wp + 1 + (armPre pat).length) c body).code ++ [.End, jmp end_]) ++
        (compileArmsS sd (wp + 1 + (armPre pat).length + (compileStmts sd (wp + 1 + (armPre pat).length) c body).code.length + 2)
          (compileStmts sd (wp + 1 + (armPre pat).length) c body).c end_ ls rest).code,
       (l, wp) :: (compileStmts sd (wp + 1 + (armPre pat).length) c body).defs ++
        (compileArmsS sd (wp + 1 + (armPre pat).length + (compileStmts sd (wp + 1 + (armPre pat).length) c body).code.length + 2)
          (compileStmts sd (wp + 1 + (armPre pat).length) c body).c end_ ls rest).defs,
       (compileArmsS sd (wp + 1 + (armPre pat).length + (compileStmts sd (wp + 1 + (armPre pat).length) c body).code.length + 2)
          (compileStmts sd (wp + 1 + (armPre pat).length) c body).c end_ ls rest).c⟩ := by
  cases pat with
  | default => simp [compileArmsS, armPre, List.append_assoc]
  | values vs =>
    cases hfb : firstBinding vs with
    | none => simp [compileArmsS, armPre, hfb, List.append_assoc]
    | some wx => obtain ⟨w, x⟩ := wx; simp [compileArmsS, armPre, hfb, List.append_assoc]

theorem arm_layoutS : ∀ (arms : List (Pat × List Stmt)) (ls : List Label) (wp c : Nat) (end_ : Label) (k : Nat)
    (pat : Pat) (body : List Stmt) (lk : Label),
    arms[k]? = some (pat, body) → ls[k]? = some lk →
    CodeAt S.labels S.m.prog wp (compileArmsS S.m.p.structs wp c end_ ls arms).code →
    DefsOk S.labels (compileArmsS S.m.p.structs wp c end_ ls arms).defs →
    ∃ wpk ck, lookupLabel S.labels lk = some wpk ∧
      CodeAt S.labels S.m.prog wpk (.Block :: armPre pat ++
        (compileStmts S.m.p.structs (wpk + 1 + (armPre pat).length) ck body).code ++ [.End, jmp end_]) ∧
      DefsOk S.labels (compileStmts S.m.p.structs (wpk + 1 + (armPre pat).length) ck body).defs
  | [], _, _, _, _, k, _, _, _, h, _, _, _ => by simp at h
  | _ :: _, [], _, _, _, k, _, _, _, _, h, _, _ => by simp at h
  | (p0, b0) :: rest, l0 :: ls, wp, c, end_, k, pat, body, lk, ha, hl, hcode, hdefs => by
    rw [compileArmsS_cons] at hcode hdefs
    have hcode' := hcode
    have hdefs' := hdefs
    simp only at hcode' hdefs'
    rw [codeAt_append] at hcode'
    rw [List.cons_append, defsOk_cons, defsOk_append] at hdefs'
    cases k with
    | zero =>
      simp only [List.getElem?_cons_zero, Option.some.injEq] at ha hl
      cases ha; subst hl
      exact ⟨wp, c, hdefs'.1, hcode'.1, hdefs'.2.1⟩
    | succ k =>
      simp only [List.getElem?_cons_succ] at ha hl
      have hlen : wp + (Instruction.Block :: armPre p0 ++ (compileStmts S.m.p.structs (wp + 1 + (armPre p0).length) c b0).code ++
          [Instruction.End, jmp end_]).length = wp + 1 + (armPre p0).length +
            (compileStmts S.m.p.structs (wp + 1 + (armPre p0).length) c b0).code.length + 2 := by
        simp only [List.length_cons, List.length_append, List.length_nil]; omega
      rw [hlen] at hcode'
      exact arm_layoutS rest ls _ _ end_ k pat body lk ha hl hcode'.2 hdefs'.2.2

theorem supArmsS_pats : ∀ (arms : List (Pat × List Stmt)), supArmsS arms = true → supPats (arms.map (·.1)) = true
  | [], _ => rfl
  | (p, e) :: rest, h => by
    simp only [supArmsS, Bool.and_eq_true] at h
    simp only [List.map_cons, supPats, Bool.and_eq_true]
    exact ⟨h.1.1, supArmsS_pats rest h.2⟩

theorem supArmsS_get : ∀ (arms : List (Pat × List Stmt)) (k : Nat) (pat : Pat) (body : List Stmt),
    supArmsS arms = true → arms[k]? = some (pat, body) → supSs body = true
  | [], _, _, _, _, h => by simp at h
  | (p, e) :: rest, 0, pat, body, hs, h => by
    simp only [supArmsS, Bool.and_eq_true] at hs
    simp only [List.getElem?_cons_zero, Option.some.injEq, Prod.mk.injEq] at h
    rw [← h.2]; exact hs.1.2
  | (p, e) :: rest, k + 1, pat, body, hs, h => by
    simp only [supArmsS, Bool.and_eq_true] at hs
    simp only [List.getElem?_cons_succ] at h
    exact supArmsS_get rest k pat body hs.2 h

theorem sim_matchS {n : Nat} (ihE : ExprSim S n) (ihSs : StmtsSim S n) (ihSel : SelectSim S n) (scrut : Expr)
    (arms : List (Pat × List Stmt)) : StmtCase S (n + 1) (.mtch scrut arms) := by
  intro env log wp c junk base fr K hsup hcode hdefs
  simp only [supS, Bool.and_eq_true] at hsup
  simp only [compileStmt, compileTestsS_eq, defsOk_append, defsOk_cons, DefsOk.nil, and_true, codeAt_append] at hcode hdefs
  obtain ⟨⟨⟨hdS, hdT⟩, hdA⟩, hend⟩ := hdefs
  obtain ⟨⟨hcS, hcT⟩, hcA⟩ := hcode
  normpc at hcA
  have hpcEnd : wp + (compileStmt S.m.p.structs wp c (.mtch scrut arms)).code.length =
      wp + (compileExpr S.m.p.structs wp c scrut).code.length +
        (compileTestsP S.m.p.structs (wp + (compileExpr S.m.p.structs wp c scrut).code.length)
          ((compileExpr S.m.p.structs wp c scrut).c + 1) (arms.map (·.1))).1.code.length +
        (compileArmsS S.m.p.structs (wp + (compileExpr S.m.p.structs wp c scrut).code.length +
          (compileTestsP S.m.p.structs (wp + (compileExpr S.m.p.structs wp c scrut).code.length)
            ((compileExpr S.m.p.structs wp c scrut).c + 1) (arms.map (·.1))).1.code.length)
          (compileTestsP S.m.p.structs (wp + (compileExpr S.m.p.structs wp c scrut).code.length)
            ((compileExpr S.m.p.structs wp c scrut).c + 1) (arms.map (·.1))).1.c
          (Label.anon (compileExpr S.m.p.structs wp c scrut).c)
          (compileTestsP S.m.p.structs (wp + (compileExpr S.m.p.structs wp c scrut).code.length)
            ((compileExpr S.m.p.structs wp c scrut).c + 1) (arms.map (·.1))).2 arms).code.length := by
    simp only [compileStmt, compileTestsS_eq, List.length_append]; omega
  generalize hSo : compileExpr S.m.p.structs wp c scrut = So at *
  generalize hTo : compileTestsP S.m.p.structs (wp + So.code.length) (So.c + 1) (arms.map (·.1)) = To at *
  let addrOf : Nat → Nat := fun i => ((To.2[i]?).bind (lookupLabel S.labels)).getD 0
  have hlen : To.2.length = arms.length := by
    rw [← hTo, tests_labels_length]; simp
  have haddr : ∀ i l, To.2[i]? = some l → lookupLabel S.labels l = some (addrOf (0 + i)) := by
    intro i l hi
    have hi' : i < arms.length := by
      rw [← hlen]; exact (List.getElem?_eq_some_iff.mp hi).1
    obtain ⟨⟨pat, body⟩, harm⟩ : ∃ pb, arms[i]? = some pb := ⟨arms[i], List.getElem?_eq_getElem hi'⟩
    obtain ⟨wpk, ck, hlk, _, _⟩ := arm_layoutS S arms To.2 _ _ (Label.anon So.c) i pat body l harm hi hcA hdA
    simp only [addrOf, Nat.zero_add, hi, Option.bind_some, hlk, Option.getD_some]
  have ihs := ihE scrut env log wp c junk base fr K hsup.1 (by rw [hSo]; exact hcS) (by rw [hSo]; exact hdS)
  rw [hSo] at ihs
  simp only [evalStmt]
  cases hrs : evalExpr S.m.p n env log scrut with
  | val v l =>
    rw [hrs] at ihs; simp only [Outcome] at ihs
    dsimp only
    have ihsel := ihSel (arms.map (·.1)) v env l (wp + So.code.length) (So.c + 1) 0 addrOf junk base fr K
      (supArmsS_pats arms hsup.2) (by rw [hTo]; exact hcT) (by rw [hTo]; exact hdT) (by rw [hTo]; exact haddr)
    cases hrk : selectArm S.m.p n env l v (arms.map (·.1)) 0 with
    | val k l' =>
      rw [hrk] at ihsel; simp only [Outcome] at ihsel
      dsimp only
      cases harm : arms[k]? with
      | none => trivial
      | some pb =>
        obtain ⟨pat, body⟩ := pb
        dsimp only
        cases hb : bindArm S.m.p ([] :: env) v pat with
        | none => trivial
        | some env' =>
          dsimp only
          have hk : k < To.2.length := by
            rw [hlen]; exact (List.getElem?_eq_some_iff.mp harm).1
          have hlk : To.2[k]? = some To.2[k] := List.getElem?_eq_getElem hk
          obtain ⟨wpk, ck, hlook, hcArm, hdB⟩ := arm_layoutS S arms To.2 _ _ (Label.anon So.c) k pat body _ harm hlk hcA hdA
          have hak : addrOf k = wpk := by
            simp only [addrOf, hlk, Option.bind_some, hlook, Option.getD_some]
          rw [hak] at ihsel
          have hcArm' : CodeAt S.labels S.m.prog wpk ((Instruction.Block :: armPre pat) ++
              (compileStmts S.m.p.structs (wpk + 1 + (armPre pat).length) ck body).code ++ [Instruction.End, jmp (Label.anon So.c)]) := by
            simpa [List.append_assoc] using hcArm
          rw [codeAt_append, codeAt_append] at hcArm'
          obtain ⟨⟨hcPre, hcB⟩, hcTail⟩ := hcArm'
          simp only [codeAt_cons, CodeAt.nil, and_true, res_jmp hend] at hcTail
          simp only [res] at hcTail
          have e1 : wpk + (Instruction.Block :: armPre pat).length = wpk + 1 + (armPre pat).length := by
            simp only [List.length_cons]; omega
          rw [e1] at hcB
          have pro := arm_prologue (m := S.m) (labels := S.labels) pat v env env' (junk ++ base) fr (base.length :: K) wpk l' hcPre hb
          have ihb := ihSs body env' l' _ ck junk base fr K (supArmsS_get arms k pat body hsup.2 harm) hcB hdB
          have pre := ihs.trans (ihsel.trans pro)
          cases hrb : evalStmts S.m.p n env' l' body with
          | val env'' l'' =>
            rw [hrb] at ihb; simp only [Outcome] at ihb
            cases env'' with
            | nil => trivial
            | cons b2 rest' =>
              simp only [Outcome]
              refine pre.trans (ihb.trans ?_)
              have e2 : wpk + ((Instruction.Block :: armPre pat) ++
                  (compileStmts S.m.p.structs (wpk + 1 + (armPre pat).length) ck body).code).length =
                  wpk + 1 + (armPre pat).length + (compileStmts S.m.p.structs (wpk + 1 + (armPre pat).length) ck body).code.length := by
                simp only [List.length_cons, List.length_append]; omega
              rw [e2] at hcTail
              refine (Steps.one (step_end hcTail.1)).trans ?_
              exact Steps.cast_pc (Steps.one (step_jump hcTail.2)) hpcEnd.symm
          | _ => first | (rw [hrb] at ihb; exact Outcome.of_steps pre ihb) | trivial
    | _ => first | (rw [hrk] at ihsel; exact Outcome.of_steps ihs ihsel) | trivial
  | _ => first | (rw [hrs] at ihs; exact ihs) | trivial

end AranyaV.Lang
