import AranyaV.Proofs.FoldBind
import AranyaV.Proofs.LowerCalls
namespace AranyaV.Lang
open AranyaV.Gen.Lang

theorem topoVisit_mono (all : List (Nat × List (Nat × Ty))) : ∀ (fuel : Nat) (path done : List Nat) (n : Nat) (r : List Nat),
    topoVisit all fuel path done n = some r → ∀ x ∈ done, x ∈ r
  | 0, _, _, _, _, h => by simp [topoVisit] at h
  | fuel + 1, path, done, n, r, h => by
    simp only [topoVisit] at h
    repeat' (split at h)
    all_goals (try (cases h; done))
    · simp only [Option.some.injEq] at h; subst h; exact fun x hx => hx
    · simp only [Option.some.injEq] at h; subst h; exact fun x hx => hx
    · simp only [Option.some.injEq] at h; subst h
      rename_i done' hfold
      have := foldl_bind_mono (fun dn d => topoVisit all fuel (n :: path) dn d) (fun a b => ∀ x ∈ a, x ∈ b)
        (fun a x hx => hx) (fun a b c h1 h2 x hx => h2 x (h1 x hx))
        (fun a b a' hv => topoVisit_mono all fuel (n :: path) a b a' hv) _ _ _ hfold
      intro x hx; exact List.mem_append.mpr (Or.inl (this x hx))

theorem topoVisit_mem (all : List (Nat × List (Nat × Ty))) (fuel : Nat) (path done : List Nat) (n : Nat) (r : List Nat)
    (h : topoVisit all fuel path done n = some r) (hn : (all.find? (·.1 == n)).isSome = true) : n ∈ r := by
  cases fuel with
  | zero => simp [topoVisit] at h
  | succ fuel =>
    simp only [topoVisit] at h
    repeat' (split at h)
    all_goals (try (cases h; done))
    · simp only [Option.some.injEq] at h; subst h
      rename_i hc; exact List.contains_iff_mem.mp hc
    · rename_i hnone; rw [hnone] at hn; cases hn
    · simp only [Option.some.injEq] at h; subst h; simp

theorem topoOrder_mem {all : List (Nat × List (Nat × Ty))} {order : List Nat} (h : topoOrder all = some order) :
    ∀ s ∈ all, s.1 ∈ order := by
  unfold topoOrder at h
  have key : ∀ (l : List (Nat × List (Nat × Ty))) (a r : List Nat), (∀ s ∈ l, s ∈ all) →
      l.foldl (fun acc s => acc.bind (fun dn => topoVisit all (all.length + 1) [] dn s.1)) (some a) = some r →
      (∀ x ∈ a, x ∈ r) ∧ ∀ s ∈ l, s.1 ∈ r := by
    intro l
    induction l with
    | nil => intro a r _ h; simp only [List.foldl_nil, Option.some.injEq] at h; subst h; exact ⟨fun x hx => hx, by simp⟩
    | cons s l ih =>
      intro a r hsub h
      simp only [List.foldl_cons, Option.bind_some] at h
      cases hv : topoVisit all (all.length + 1) [] a s.1 with
      | none => rw [hv, foldl_bind_none] at h; cases h
      | some a' =>
        rw [hv] at h
        obtain ⟨hm, hl⟩ := ih a' r (fun t ht => hsub t (List.mem_cons_of_mem _ ht)) h
        have hs : s.1 ∈ a' := topoVisit_mem all _ _ _ _ _ hv (by
          rw [List.find?_isSome]; exact ⟨s, hsub s (List.mem_cons_self ..), by simp⟩)
        refine ⟨fun x hx => hm x (topoVisit_mono all _ _ _ _ _ hv x hx), ?_⟩
        intro t ht
        rcases List.mem_cons.mp ht with rfl | ht
        · exact hm _ hs
        · exact hl t ht
  exact (key all [] order (fun s hs => hs) h).2

/-- the struct-definition pass: every struct reached by `order` has distinct field names -/
theorem defined_nodup (structs : List (Nat × List (Nat × Ty))) : ∀ (order : List Nat) (cx0 cx1 : LCtx),
    order.foldl (fun (acc : Option LCtx) n => acc.bind fun cx =>
      match structs.find? (·.1 == n) with
      | Option.none => Option.some cx
      | Option.some (_, fs) =>
        if findDup (fs.map (·.1)) || !(fs.all (fun f => typeDefined cx f.2)) then Option.none
        else Option.some { cx with structs := cx.structs ++ [(n, fs)] }) (Option.some cx0) = some cx1 →
    ∀ n ∈ order, ∀ q, structs.find? (·.1 == n) = some q → (q.2.map (·.1)).Nodup
  | [], _, _, _ => by simp
  | m :: order, cx0, cx1, h => by
    simp only [List.foldl_cons, Option.bind_some] at h
    intro n hn q hq
    cases hm : structs.find? (·.1 == m) with
    | none =>
      rw [hm] at h
      rcases List.mem_cons.mp hn with rfl | hn'
      · rw [hm] at hq; cases hq
      · exact defined_nodup structs order cx0 cx1 h n hn' q hq
    | some q0 =>
      obtain ⟨k0, fs0⟩ := q0
      rw [hm] at h
      simp only at h
      split at h
      · rw [foldl_bind_none (fun (cx : LCtx) n => match structs.find? (·.1 == n) with
          | Option.none => Option.some cx
          | Option.some (_, fs) =>
            if findDup (fs.map (·.1)) || !(fs.all (fun f => typeDefined cx f.2)) then Option.none
            else Option.some { cx with structs := cx.structs ++ [(n, fs)] })] at h
        cases h
      · rename_i hc
        rcases List.mem_cons.mp hn with rfl | hn'
        · rw [hm] at hq; cases hq
          simp only [Bool.or_eq_true, not_or, Bool.not_eq_true] at hc
          exact findDup_nodup _ hc.1
        · exact defined_nodup structs order _ cx1 h n hn' q hq

theorem lowerProgram_structs {mods ffi sp p} (h : lowerProgram mods ffi sp = some p) :
    ∀ n d, p.structDef n = some d → (d.map (·.1)).Nodup := by
  unfold lowerProgram at h
  simp only at h
  repeat' (split at h)
  all_goals (try (cases h; done))
  simp only [Option.some.injEq] at h; subst h
  rename_i _ _ _ order horder _ cx1 hdef _ _ _ _ _ _ _
  intro n d hd
  simp only [Program.structDef, Option.map_eq_some_iff] at hd
  obtain ⟨q, hq, rfl⟩ := hd
  have hmem : n ∈ order := by
    have := topoOrder_mem horder q (List.mem_of_find?_eq_some hq)
    have hq1 : q.1 = n := by have := List.find?_some hq; simpa using this
    rwa [hq1] at this
  exact defined_nodup sp.structs order _ cx1 hdef n hmem q hq

end AranyaV.Lang
