import AranyaV.Proofs.DiskIO6
/-!
Histories `create; (calls with I/O errors; crash χ; open)*` (C15): the generalised invariant holds
again on every image from which `open` succeeds, so `run_io` applies to every era.
-/
namespace AranyaV.Disk
open AranyaV.Wire

/-- one era with I/O errors -/
structure SegmentF where
  calls : List (Call × Fault)
  n : Nat
  χ : List (List Bool)

/-- state at the start of an era (as `HState`) -/
structure HStateF where
  w : Writer
  d : Disk
  done : Option Root
  recs : List Rec

def HStateF.init (L : Layout) : HStateF := ⟨(Writer.create L).1, Disk.empty, none, []⟩

section
variable (L : Layout) (ck : Checksum)

def HStateF.image (st : HStateF) (s : SegmentF) : Img :=
  (st.d.execAll ((traceF L ck st.w s.calls).take s.n)).crash s.χ

def HStateF.allRecs (st : HStateF) (s : SegmentF) : List Rec := st.recs ++ recsF L ck st.w s.calls

def HStateF.next (st : HStateF) (s : SegmentF) : Option HStateF :=
  match Writer.open L ck (st.image L ck s) with
  | none => none
  | some w' => some ⟨w', ⟨st.image L ck s, []⟩, some w'.root,
      (st.allRecs L ck s).filter (fun r => decide ((r.end_ : Int) ≤ w'.root.free))⟩

def histFromF (st : HStateF) : List SegmentF → Option HStateF
  | [] => some st
  | s :: ss =>
    match st.next L ck s with
    | none => none
    | some st' => histFromF st' ss

/-- `HypsIO` for every era, against the image it starts from -/
def HistHypsF (st : HStateF) : List SegmentF → Prop
  | [] => True
  | s :: ss => HypsIO L ck st.w st.d s.calls ∧
      match st.next L ck s with
      | none => True
      | some st' => HistHypsF st' ss

end

variable {L : Layout} {ck : Checksum}

/-- ghost state right after `create` -/
def G.init (L : Layout) : G :=
  { done := none, next := L.rootA, gen := 0, D := L.freeStart, free := L.freeStart, recs := [],
    atts := [], pa := none }

/-- ghost state right after a successful `open` -/
def G.reopened (w : Writer) (recs : List Rec) : G :=
  { done := some w.root, next := w.nextRoot, gen := w.root.gen, D := w.root.free.toNat,
    free := w.root.free.toNat, recs := recs, atts := [], pa := none }

/-- invariant of era starts: some ghost state without attempts, agreeing with the statement-level
state, satisfies `GQ` and is linked to the writer -/
def HInvF (L : Layout) (ck : Checksum) (st : HStateF) : Prop :=
  ∃ g, GQ L ck st.d g ∧ Link st.w g ∧ g.done = st.done ∧ g.recs = st.recs ∧ g.atts = [] ∧ g.pa = none

theorem reopen_invF (hL : L.OK) {st st' : HStateF} {s : SegmentF} (hi : HInvF L ck st)
    (hh : HypsIO L ck st.w st.d s.calls) (hn : st.next L ck s = some st') : HInvF L ck st' := by
  obtain ⟨g, q, hl, hd, hr, ha, hp⟩ := hi
  have hnew : ∀ r, g.newer r → r ∈ ([] : List Root) := by
    intro r h; rcases h with h | h
    · rw [ha] at h; cases h
    · rw [hp] at h; cases h
  have hrun := run_io hL s.calls _ _ _ [] q hl hnew hh s.n s.χ
  unfold HStateF.next at hn
  split at hn
  · cases hn
  · rename_i w' ho
    simp only [Option.some.injEq] at hn
    subst hn
    have ho' : Writer.open L ck ((st.d.execAll ((traceF L ck st.w s.calls).take s.n)).crash s.χ) = some w' := ho
    obtain ⟨_, hint, hre⟩ := hrun.2 w' ho'
    have hnn : 0 ≤ w'.root.free := by have := hre.fs; omega
    refine ⟨G.reopened w' ((st.allRecs L ck s).filter (fun r => decide ((r.end_ : Int) ≤ w'.root.free))),
      ?_, ⟨rfl, rfl, by simp only [G.reopened]; omega⟩, rfl, rfl, rfl, rfl⟩
    refine ⟨hre.slot, hre.lenA, hre.lenB, hre.cur, ?_, ?_, ?_, ?_, ?_, ?_, Nat.le_refl _, ?_, ?_⟩
    · intro r' hr'; exact Or.inl ⟨w'.root, rfl, hre.stale r' hr'⟩
    · intro a h; rcases h with h | h <;> cases h
    · intro r h; cases h; exact ⟨Nat.le_refl _, hre.fs, by simp only [G.reopened]; omega⟩
    · intro a h; cases h
    · intro p h; cases h
    · intro a h; cases h
    · have := hre.fs; simp only [G.reopened]; omega
    · intro rec hrec
      simp only [G.reopened, List.mem_filter, decide_eq_true_eq] at hrec
      obtain ⟨hmem, hle⟩ := hrec
      have hmem' : rec ∈ g.recs ++ recsF L ck st.w s.calls := by rw [hr]; exact hmem
      have hag := hint rec hmem' hle
      have hoff : L.freeStart ≤ rec.off := by
        rcases List.mem_append.mp hmem' with h | h
        · exact (q.recs_ok rec h).1
        · have := recsF_off_ge hL s.calls _ _ _ q hl hh rec h; have := q.fs; omega
      exact ⟨hoff, by simp only [G.reopened]; omega, hag, fun _ => hag⟩

theorem init_invF (hL : L.OK) : HInvF L ck (HStateF.init L) := by
  have hz : ∀ s, loadValid ck Disk.empty.durable s = none := by
    intro s; unfold loadValid; rw [loadRoot_zero (fun _ _ => rfl)]
  have hl : ∀ s, lenOK Disk.empty.durable s := by
    intro s; unfold lenOK lenAt Disk.empty rootMax; simp
  refine ⟨G.init L, ?_, ⟨rfl, rfl, rfl⟩, rfl, rfl, rfl, rfl⟩
  refine ⟨Or.inl rfl, hl _, hl _, hz _, ?_, ?_, ?_, ?_, ?_, ?_, Nat.le_refl _, Nat.le_refl _, ?_⟩
  · intro r' h; have := hz (G.init L).next; rw [show (HStateF.init L).d.durable = Disk.empty.durable from rfl] at h; rw [this] at h; cases h
  · intro a h; rcases h with h | h <;> cases h
  · intro r h; cases h
  · intro a h; cases h
  · intro p h; cases h
  · intro a h; cases h
  · intro rec h; cases h

theorem hist_invF (hL : L.OK) :
    ∀ (segs : List SegmentF) (st st' : HStateF), HInvF L ck st → HistHypsF L ck st segs →
      histFromF L ck st segs = some st' → HInvF L ck st' := by
  intro segs
  induction segs with
  | nil => intro st st' hi _ h; simp only [histFromF, Option.some.injEq] at h; subst h; exact hi
  | cons s ss ih =>
    intro st st' hi hh h
    simp only [histFromF] at h
    obtain ⟨h1, hrest⟩ := hh
    split at h
    · cases h
    · rename_i st1 hn
      rw [hn] at hrest
      exact ih st1 st' (reopen_invF hL hi h1 hn) hrest h

/-- the single-crash results for an era with I/O errors at the end of an arbitrary history -/
theorem hist_io (hL : L.OK) (segs : List SegmentF) (st : HStateF)
    (hh : HistHypsF L ck (HStateF.init L) segs) (h : histFromF L ck (HStateF.init L) segs = some st)
    (s : SegmentF) (hs : HypsIO L ck st.w st.d s.calls) :
    (Writer.open L ck (st.image L ck s) = none → doneFromF L ck st.w st.done s.calls s.n = none) ∧
    ∀ w', Writer.open L ck (st.image L ck s) = some w' →
      (some w'.root = doneFromF L ck st.w st.done s.calls s.n ∨
        (w'.root ∈ attemptsF L ck st.w s.calls ∧
          ∀ r, doneFromF L ck st.w st.done s.calls s.n = some r → r.gen < w'.root.gen)) ∧
      ∀ rec ∈ st.allRecs L ck s, (rec.end_ : Int) ≤ w'.root.free → agreeRec (st.image L ck s) rec := by
  obtain ⟨g, q, hl, hd, hr, ha, hp⟩ := hist_invF hL segs _ _ (init_invF hL) hh h
  have hnew : ∀ r, g.newer r → r ∈ ([] : List Root) := by
    intro r h; rcases h with h | h
    · rw [ha] at h; cases h
    · rw [hp] at h; cases h
  have hrun := run_io hL s.calls _ _ _ [] q hl hnew hs s.n s.χ
  rw [hd, hr] at hrun
  refine ⟨hrun.1, fun w' hw' => ?_⟩
  obtain ⟨h1, h2, _⟩ := hrun.2 w' hw'
  exact ⟨by simpa using h1, h2⟩

end AranyaV.Disk
