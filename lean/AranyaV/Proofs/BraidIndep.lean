import AranyaV.Proofs.BraidRef
/-!
# Proofs.BraidIndep — `refBraid` depends only on the command *set*

Two well-formed (parents-first) listings of the same commands give the same `refBraid`: the
algorithm consults the graph only through `find?`, through *membership* in `children` and through
*membership* in the region, none of which depends on the order of the listing.
-/
namespace AranyaV.Spec
open AranyaV.Gen

theorem minAvail_congr {g g' : Graph} (hf : ∀ i, g.find? i = g'.find? i) :
    ∀ A, minAvail g A = minAvail g' A := by
  intro A
  induction A with
  | nil => rfl
  | cons x xs ih => simp only [minAvail, hf, ih]

theorem isFinalize_congr {g g' : Graph} (hf : ∀ i, g.find? i = g'.find? i) :
    isFinalize g = isFinalize g' := by
  funext i; simp only [isFinalize, hf]

theorem isMergeId_congr {g g' : Graph} (hf : ∀ i, g.find? i = g'.find? i) :
    isMergeId g = isMergeId g' := by
  funext i; simp only [isMergeId, hf]

theorem addAvail_congr {g g' : Graph} (hf : ∀ i, g.find? i = g'.find? i) :
    ∀ xs A, addAvail g A xs = addAvail g' A xs := by
  intro xs
  induction xs with
  | nil => intro A; rfl
  | cons x xs ih => intro A; simp only [addAvail, isFinalize_congr hf, ih]

theorem ready_congr {g g' : Graph} {R R' : List Nat}
    (hc : ∀ p y, y ∈ children g p ↔ y ∈ children g' p) (hR : ∀ x, x ∈ R ↔ x ∈ R')
    (avail P ps : List Nat) :
    ps.filter (fun p => !avail.contains p && ((children g p).filter (R.contains ·)).all (P.contains ·)) =
    ps.filter (fun p => !avail.contains p && ((children g' p).filter (R'.contains ·)).all (P.contains ·)) := by
  congr 1
  funext p
  congr 1
  rw [Bool.eq_iff_iff]
  simp only [List.all_eq_true, List.mem_filter, List.contains_eq_mem, decide_eq_true_eq, hc, hR]

theorem braidLoop_congr {g g' : Graph} {R R' : List Nat} (hf : ∀ i, g.find? i = g'.find? i)
    (hc : ∀ p y, y ∈ children g p ↔ y ∈ children g' p) (hR : ∀ x, x ∈ R ↔ x ∈ R') :
    ∀ fuel s, braidLoop g R fuel s = braidLoop g' R' fuel s := by
  intro fuel
  induction fuel with
  | zero => intro s; rfl
  | succ n ih =>
    intro s
    rw [braidLoop, braidLoop, minAvail_congr hf]
    split
    · rfl
    · split
      · rfl
      · simp only [ready_congr hc hR, addAvail_congr hf, ih]

theorem find?_perm {g g' : Graph} (hw : WF g) (hw' : WF g') (hp : g.Perm g') (i : Nat) :
    g.find? i = g'.find? i := by
  cases h : g.find? i with
  | some c =>
    obtain ⟨hc, hi⟩ := (find?_eq_some hw).mp h
    exact ((find?_eq_some hw').mpr ⟨hp.mem_iff.mp hc, hi⟩).symm
  | none =>
    cases h' : g'.find? i with
    | none => rfl
    | some c =>
      obtain ⟨hc, hi⟩ := (find?_eq_some hw').mp h'
      rw [(find?_eq_some hw).mpr ⟨hp.mem_iff.mpr hc, hi⟩] at h
      cases h

theorem Par.perm {g g' : Graph} (hp : g.Perm g') {a b : Nat} (h : Par g a b) : Par g' a b := by
  obtain ⟨d, hd, h1, h2⟩ := h
  exact ⟨d, hp.mem_iff.mp hd, h1, h2⟩

theorem Reach.perm {g g' : Graph} (hp : g.Perm g') {a b : Nat} (h : Reach g a b) : Reach g' a b := by
  induction h with
  | refl => exact Reach.refl _
  | tail _ h2 ih => exact Reach.tail ih (h2.perm hp)

theorem mem_children_perm {g g' : Graph} (hp : g.Perm g') (p y : Nat) :
    y ∈ children g p ↔ y ∈ children g' p := by
  rw [mem_children, mem_children]
  exact ⟨fun h => h.perm hp, fun h => h.perm hp.symm⟩

theorem ancSelfAll_perm {g g' : Graph} (hw : WF g) (hw' : WF g') (hp : g.Perm g') (hs : List Nat) (x : Nat) :
    x ∈ ancSelfAll g hs ↔ x ∈ ancSelfAll g' hs := by
  rw [mem_ancSelfAll hw, mem_ancSelfAll hw']
  constructor
  · rintro ⟨b, hb, hr⟩; exact ⟨b, hb, hr.perm hp⟩
  · rintro ⟨b, hb, hr⟩; exact ⟨b, hb, hr.perm hp.symm⟩

theorem refBraid_perm_graph {g g' : Graph} (hw : WF g) (hw' : WF g') (hp : g.Perm g') (hs : List Nat) :
    refBraid g hs = refBraid g' hs := by
  have hf := find?_perm hw hw' hp
  unfold refBraid
  rw [addAvail_congr hf, hp.length_eq]
  cases addAvail g' [] hs with
  | error e => rfl
  | ok a =>
    exact braidLoop_congr hf (mem_children_perm hp) (ancSelfAll_perm hw hw' hp hs) _ _

end AranyaV.Spec
