import AranyaV.Proofs.LangVM
/-!
Simulation of `Spec.Lang.eval` by compiled code on `Model.LangVM` (C22): definitions of the
simulation statement and its glue lemmas.
-/
namespace AranyaV.Lang
open AranyaV.Gen.Lang

/-- How the VM, started in `s`, must behave for the evaluator's result `r`.
`post a l` is the state after a normal completion; `base`/`fr`/`K` describe the enclosing function
activation: an early `return v` ends just before the `Return` instruction with `v :: base` on
the stack, the saved stack pointer popped (`K`) and the caller's frames `fr` below. -/
def Outcome {α : Type} (m : Machine) (r : Res α) (base : List Val) (fr : List Env) (K : List Nat)
    (post : α → Log → VM) (s : VM) : Prop :=
  match r with
  | .val a l => Steps m s (post a l)
  | .ret v l => ∃ envJ pcR, Steps m s ⟨v :: base, envJ :: fr, K, pcR, l⟩ ∧ m.prog[pcR]? = some .Return
  | .exit r l => ∃ t, ExitsWith m s r t ∧ t.log = l
  | .ffiErr l => ErrorsWith m s .ffi l
  | .stuck => True
  | .oof => True

theorem Outcome.of_steps {α} {m : Machine} {r : Res α} {base fr K post s s1}
    (h : Steps m s s1) (h2 : Outcome m r base fr K post s1) : Outcome m r base fr K post s := by
  cases r with
  | val a l => exact h.trans h2
  | ret v l => obtain ⟨e, p, h3, h4⟩ := h2; exact ⟨e, p, h.trans h3, h4⟩
  | exit r l => obtain ⟨t, h3, h4⟩ := h2; exact ⟨t, h3.of_steps h, h4⟩
  | ffiErr l => exact ErrorsWith.of_steps h h2
  | stuck => trivial
  | oof => trivial

theorem Outcome.cast {α} {m : Machine} {r : Res α} {base fr K} {post post' : α → Log → VM} {s}
    (h : Outcome m r base fr K post s) (hp : ∀ a l, post a l = post' a l) : Outcome m r base fr K post' s := by
  cases r with
  | val a l => simp only [Outcome] at h ⊢; rw [← hp]; exact h
  | ret v l => exact h
  | exit r l => exact h
  | ffiErr l => exact h
  | stuck => trivial
  | oof => trivial

/-- non-value results do not depend on the continuation state -/
def Res.castNV {α β : Type} : Res α → Res β
  | .val _ _ => .stuck
  | .ret v l => .ret v l
  | .exit r l => .exit r l
  | .ffiErr l => .ffiErr l
  | .stuck => .stuck
  | .oof => .oof

theorem Outcome.castNV {α β} {m : Machine} {r : Res α} {base fr K} {post : α → Log → VM} {post' : β → Log → VM} {s}
    (h : Outcome m r base fr K post s) (hnv : ∀ a l, r ≠ .val a l) : Outcome m (r.castNV : Res β) base fr K post' s := by
  cases r with
  | val a l => exact absurd rfl (hnv a l)
  | ret v l => exact h
  | exit r l => exact h
  | ffiErr l => exact h
  | stuck => trivial
  | oof => trivial

structure Sim where
  m : Machine
  labels : List (Label × Nat)

/-- the code of every function of the program is placed at the address its label resolves to -/
def FunsOk (S : Sim) : Prop :=
  ∀ f fd, S.m.p.funDef f = some fd → ∃ wp c,
    lookupLabel S.labels (.fn f) = some wp ∧
    CodeAt S.labels S.m.prog wp (compileFun S.m.p.structs wp c fd).code ∧
    DefsOk S.labels (compileFun S.m.p.structs wp c fd).defs

/-- a foreign function only answers for the number of arguments it pops -/
def FfiOk (m : Machine) : Prop :=
  ∀ mi pi vs, (match m.p.ffi mi pi vs with | .bad => False | _ => True) → m.ffiArity mi pi = some vs.length

end AranyaV.Lang
