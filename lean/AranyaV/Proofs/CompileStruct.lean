import AranyaV.Proofs.CompileCall
/-!
C22: struct literals (`StructNew`, then per field: value, `StructSet`).
-/
namespace AranyaV.Lang
open AranyaV.Gen.Lang
variable (S : Sim)

theorem fieldsSim_succ {n : Nat} (ihE : ExprSim S n) (ihF : FieldsSim S n) : FieldsSim S (n + 1) := by
  intro fields d name fs env log wp c junk base fr K hsup hd hcode hdefs
  cases fields with
  | nil =>
    simp only [evalFields, Outcome, compileFields, List.length_nil, Nat.add_zero]
    exact Steps.refl _
  | cons fe rest =>
    obtain ⟨k, e⟩ := fe
    simp only [supFields, Bool.and_eq_true] at hsup
    simp only [compileFields, codeAt_append, codeAt_single, res, defsOk_append] at hcode hdefs
    normpc at hcode
    obtain ⟨⟨hcE, hset⟩, hcR⟩ := hcode
    have ihe := ihE e env log wp c (.struct name fs :: junk) base fr K hsup.1 hcE hdefs.1
    simp only [evalFields, compileFields]
    cases hre : evalExpr S.m.p n env log e with
    | val v l =>
      rw [hre] at ihe; simp only [Outcome] at ihe
      dsimp only
      by_cases hany : d.any (·.1 == k) = true
      · simp only [hany, if_true]
        have ihr := ihF rest d name (setField fs k v) env l _ _ junk base fr K hsup.2 hd hcR hdefs.2
        have pre := ihe.trans (Steps.one (step_structSet hset hd hany))
        cases hrr : evalFields S.m.p n env l d rest (.struct name (setField fs k v)) with
        | val acc l' =>
          rw [hrr] at ihr; simp only [Outcome] at ihr ⊢
          refine pre.trans ?_
          normpc
          exact ihr
        | _ => first | (rw [hrr] at ihr; exact Outcome.of_steps pre ihr) | trivial
      · simp only [hany, Outcome]; trivial
    | _ => first | (rw [hre] at ihe; exact ihe) | trivial

theorem sim_struct {n : Nat} (ihF : FieldsSim S n) (name : Nat) (fields : List (Nat × Expr)) (srcs : List Nat) :
    ExprCase S (n + 1) (.struct name fields srcs) := by
  intro env log wp c junk base fr K hsup hcode hdefs
  simp only [supE] at hsup
  simp only [compileExpr] at hcode hdefs
  have hcode' : CodeAt S.labels S.m.prog wp ([Instruction.StructNew name] ++ (compileFields S.m.p.structs (wp + 1) c fields).code) := by
    simpa using hcode
  simp only [codeAt_append, codeAt_single, res] at hcode'
  normpc at hcode'
  simp only [evalExpr]
  cases hd : S.m.p.structDef name with
  | none => trivial
  | some d =>
    dsimp only
    have ih := ihF fields d name [] env log (wp + 1) c junk base fr K hsup hd hcode'.2 hdefs
    have pre : Steps S.m (stAt junk base env fr K wp log) (stAt (.struct name [] :: junk) base env fr K (wp + 1) log) :=
      Steps.one (step_structNew hcode'.1)
    refine Outcome.of_steps pre (Outcome.cast ih ?_)
    intro _ _; congr 1
    simp only [compileExpr, List.length_cons]; omega

end AranyaV.Lang
