import AranyaV.Model.ConvMap
/-!
# Proofs.ConvMap — lookup/consume of the convergence map is unaffected by spilling

`content m` is the multiset of entries held anywhere (memory blocks and spilled blocks).  For a
well-formed map (`Ok`: keys unique, every entry inside the recorded range of its block)
`shouldContinue` (with the backwards disk scan) always terminates (structural recursion) and
behaves like the abstract map: absent key → `true`, content unchanged; count `> 1` → `false`,
count decremented; count `≤ 1` → `true`, entry removed — wherever the entry was stored and
whatever was evicted or reloaded on the way (`shouldContinue_spec`).
-/
namespace AranyaV.ConvMap

/-! ## lists -/

theorem getLast_dropLast_perm {α : Type} (l : List α) (h : l ≠ []) : (l.getLast h :: l.dropLast).Perm l := by
  have := List.dropLast_concat_getLast h
  conv => rhs; rw [← this]
  exact List.perm_append_comm (l₁ := [l.getLast h])

theorem swapRemove_perm {α : Type} (l : List α) (i : Nat) (h : i < l.length) :
    (l[i] :: swapRemove l i).Perm l := by
  have hl : l = l.take i ++ l[i] :: l.drop (i + 1) := by
    rw [List.getElem_cons_drop_succ_eq_drop, List.take_append_drop]
  unfold swapRemove
  cases hd : l.drop (i + 1) with
  | nil =>
    simp only
    conv => rhs; rw [hl, hd]
    exact List.perm_append_comm (l₁ := [l[i]])
  | cons x rest =>
    simp only
    conv => rhs; rw [hl, hd]
    refine (List.perm_middle.symm).trans ?_
    exact List.Perm.append_left _ (List.Perm.cons _ (getLast_dropLast_perm (x :: rest) (by simp)))

theorem swapRemove_take {α : Type} (l : List α) (i : Nat) (h : i < l.length) :
    (swapRemove l i).take i = l.take i := by
  have hlen : (l.take i).length = i := by simp; omega
  unfold swapRemove
  cases hd : l.drop (i + 1) with
  | nil => simp only; rw [List.take_of_length_le]; omega
  | cons x rest =>
    simp only
    rw [List.take_append_of_le_length (by omega), List.take_of_length_le (by omega)]

theorem mem_swapRemove {α : Type} {l : List α} {i : Nat} {x : α} (hx : x ∈ swapRemove l i) : x ∈ l := by
  by_cases h : i < l.length
  · exact (swapRemove_perm l i h).subset (List.mem_cons_of_mem _ hx)
  · have : l.drop (i + 1) = [] := by simp; omega
    unfold swapRemove at hx
    rw [this] at hx
    exact List.mem_of_mem_take hx

def contentL (bs : List Block) : List Entry := bs.flatMap (·.entries)
def content (m : CMap) : List Entry := contentL m.mem ++ contentL m.root

theorem contentL_cons (b : Block) (bs : List Block) : contentL (b :: bs) = b.entries ++ contentL bs := by
  simp [contentL]

theorem contentL_append (as bs : List Block) : contentL (as ++ bs) = contentL as ++ contentL bs := by
  simp [contentL]

theorem mem_contentL {bs : List Block} {e : Entry} : e ∈ contentL bs ↔ ∃ b ∈ bs, e ∈ b.entries := by
  simp [contentL]

/-- rearrangements of appended entry lists, by counting -/
macro "perm_count" : tactic =>
  `(tactic| (rw [List.perm_iff_count]; intro a; simp only [List.count_append, List.count_cons, List.count_nil]; omega))

/-- replacing block `i` by `x`: the old block's entries leave, `x`'s entries enter -/
theorem contentL_set (bs : List Block) (i : Nat) (x : Block) (h : i < bs.length) :
    (contentL (bs.set i x) ++ bs[i].entries).Perm (contentL bs ++ x.entries) := by
  induction bs generalizing i with
  | nil => simp at h
  | cons b bs ih =>
    cases i with
    | zero =>
      simp only [List.set_cons_zero, contentL_cons, List.getElem_cons_zero]
      perm_count
    | succ j =>
      simp only [List.set_cons_succ, contentL_cons, List.getElem_cons_succ, List.append_assoc]
      exact List.Perm.append_left _ (ih j (by simpa using h))

/-! ## well-formed maps and the abstract behaviour -/

structure Ok (m : CMap) : Prop where
  keys : ((content m).map (·.key)).Nodup
  rangeMem : ∀ b ∈ m.mem, ∀ e ∈ b.entries, b.lo ≤ e.mc ∧ e.mc ≤ b.hi
  rangeRoot : ∀ b ∈ m.root, ∀ e ∈ b.entries, b.lo ≤ e.mc ∧ e.mc ≤ b.hi
  memNe : m.mem ≠ []

/-- what `should_continue` must do, as a statement about the multiset of entries -/
def Behaves (c : List Entry) (key : Nat) (c' : List Entry) (r : Bool) : Prop :=
  ((∀ e ∈ c, e.key ≠ key) ∧ r = true ∧ c'.Perm c) ∨
  (∃ e l, e.key = key ∧ c.Perm (e :: l) ∧
    ((e.count > 1 ∧ r = false ∧ c'.Perm ({ e with count := e.count - 1 } :: l)) ∨
     (e.count ≤ 1 ∧ r = true ∧ c'.Perm l)))

theorem Behaves.of_perm {c c0 c' : List Entry} {key : Nat} {r : Bool} (h : Behaves c key c' r)
    (hp : c.Perm c0) : Behaves c0 key c' r := by
  rcases h with ⟨h1, h2, h3⟩ | ⟨e, l, h1, h2, h3⟩
  · exact Or.inl ⟨fun e he => h1 e (hp.symm.subset he), h2, h3.trans hp⟩
  · exact Or.inr ⟨e, l, h1, hp.symm.trans h2, h3⟩

def NotIn (bs : List Block) (key : Nat) : Prop := ∀ b ∈ bs, ∀ e ∈ b.entries, e.key ≠ key

/-! ## `Block.ofEntries` -/

theorem ofEntries_go (es : List Entry) (b : Block) (hb : ∀ e ∈ b.entries, b.lo ≤ e.mc ∧ e.mc ≤ b.hi) :
    (es.foldl Block.insert b).entries = b.entries ++ es ∧
    ∀ e ∈ (es.foldl Block.insert b).entries,
      (es.foldl Block.insert b).lo ≤ e.mc ∧ e.mc ≤ (es.foldl Block.insert b).hi := by
  induction es generalizing b with
  | nil => simpa using hb
  | cons x xs ih =>
    have hb' : ∀ e ∈ (b.insert x).entries, (b.insert x).lo ≤ e.mc ∧ e.mc ≤ (b.insert x).hi := by
      intro e he
      simp only [Block.insert, List.mem_append, List.mem_singleton] at he ⊢
      rcases he with he | rfl
      · have := hb e he
        exact ⟨Nat.le_trans (Nat.min_le_left _ _) this.1, Nat.le_trans this.2 (Nat.le_max_left _ _)⟩
      · exact ⟨Nat.min_le_right _ _, Nat.le_max_right _ _⟩
    obtain ⟨h1, h2⟩ := ih (b.insert x) hb'
    refine ⟨?_, h2⟩
    simp only [List.foldl_cons]
    rw [h1]; simp [Block.insert]

theorem ofEntries_spec (es : List Entry) :
    (Block.ofEntries es).entries = es ∧
    ∀ e ∈ (Block.ofEntries es).entries, (Block.ofEntries es).lo ≤ e.mc ∧ e.mc ≤ (Block.ofEntries es).hi := by
  have := ofEntries_go es Block.empty (by simp [Block.empty])
  simpa [Block.ofEntries, Block.empty] using this

/-! ## `lru` is a valid index -/

theorem lruGo_lt : ∀ (bs : List Block) (i best bl : Nat), best < i → lruGo bs i best bl < i + bs.length := by
  intro bs
  induction bs with
  | nil => intro i best bl h; simp [lruGo]; omega
  | cons b bs ih =>
    intro i best bl h
    simp only [lruGo, List.length_cons]
    split
    · have := ih (i + 1) i b.last (by omega); omega
    · have := ih (i + 1) best bl (by omega); omega

theorem lru_lt {mem : List Block} (h : mem ≠ []) : lru mem < mem.length := by
  cases mem with
  | nil => exact absurd rfl h
  | cons b bs =>
    simp only [lru, List.length_cons]
    have := lruGo_lt bs 1 0 b.last (by omega)
    omega

/-! ## `spill_lru` and `load_block_from_disk` keep the content -/

theorem set_ne_nil {α : Type} {l : List α} (h : l ≠ []) (i : Nat) (x : α) : l.set i x ≠ [] := by
  intro hnil
  have := congrArg List.length hnil
  simp at this
  exact h this

theorem spillLru_spec {cap : Nat} {m m2 : CMap} (hok : Ok m) (h : spillLru cap m = .ok m2) :
    Ok m2 ∧ (content m2).Perm (content m) ∧ m2.active < m2.mem.length ∧
    (∃ b, m2.mem[m2.active]? = some b ∧ b.entries = []) ∧ m2.counter = m.counter ∧
    (∃ extra, m2.root = m.root ++ extra ∧ ∀ b ∈ extra, b ∈ m.mem) ∧
    (∀ b ∈ m2.mem, b ∈ m.mem ∨ b.entries = []) := by
  unfold spillLru at h
  dsimp only at h
  have hi := lru_lt hok.memNe
  have hget : m.mem[lru m.mem]? = some (m.mem[lru m.mem]) := by simp [hi]
  rw [hget] at h
  simp only at h
  by_cases he : (m.mem[lru m.mem]).entries = []
  · simp only [he, if_true, Except.ok.injEq] at h
    subst h
    exact ⟨⟨hok.keys, hok.rangeMem, hok.rangeRoot, hok.memNe⟩, List.Perm.refl _, hi,
      ⟨_, hget, he⟩, rfl, ⟨[], by simp, by simp⟩, fun b hb => Or.inl hb⟩
  · simp only [he, if_false] at h
    by_cases hc : cap ≤ m.root.length
    · simp [hc] at h
    · simp only [hc, if_false, Except.ok.injEq] at h
      subst h
      have hperm : (content ⟨m.mem.set (lru m.mem) Block.empty, m.root ++ [m.mem[lru m.mem]], lru m.mem, m.counter⟩).Perm (content m) := by
        simp only [content, contentL_append]
        have h1 := contentL_set m.mem (lru m.mem) Block.empty hi
        have hE : Block.empty.entries = [] := rfl
        rw [hE, List.append_nil] at h1
        have h2 : contentL [m.mem[lru m.mem]] = (m.mem[lru m.mem]).entries := by simp [contentL]
        rw [h2]
        exact List.Perm.trans (l₂ := (contentL (m.mem.set (lru m.mem) Block.empty) ++ (m.mem[lru m.mem]).entries) ++ contentL m.root)
          (by perm_count) (List.Perm.append_right _ h1)
      refine ⟨⟨?_, ?_, ?_, ?_⟩, hperm, ?_, ?_, rfl, ⟨[m.mem[lru m.mem]], rfl, ?_⟩, ?_⟩
      · exact (List.Perm.map _ hperm).nodup_iff.mpr hok.keys
      · intro b hb e heb
        rcases List.mem_or_eq_of_mem_set hb with hb | rfl
        · exact hok.rangeMem b hb e heb
        · simp [Block.empty] at heb
      · intro b hb e heb
        simp only [List.mem_append, List.mem_singleton] at hb
        rcases hb with hb | rfl
        · exact hok.rangeRoot b hb e heb
        · exact hok.rangeMem _ (List.getElem_mem _) e heb
      · exact set_ne_nil hok.memNe _ _
      · simpa using hi
      · refine ⟨Block.empty, ?_, rfl⟩
        simp [hi]
      · intro b hb; simp at hb; subst hb; exact List.getElem_mem _
      · intro b hb
        rcases List.mem_or_eq_of_mem_set hb with hb | rfl
        · exact Or.inl hb
        · exact Or.inr rfl

theorem getElem?_some_iff' {α : Type} {l : List α} {i : Nat} {x : α} (h : l[i]? = some x) :
    ∃ hlt : i < l.length, l[i] = x := by
  have hlt : i < l.length := by
    cases hd : decide (i < l.length) with
    | true => simpa using hd
    | false =>
      have : ¬ i < l.length := by simpa using hd
      have : l[i]? = none := by simp; omega
      rw [this] at h; cases h
  refine ⟨hlt, ?_⟩
  have : l[i]? = some l[i] := by simp [hlt]
  rw [this] at h; exact Option.some.inj h

theorem loadBlock_spec {cap : Nat} {m m' : CMap} {ri bi : Nat} (hok : Ok m) (hri : ri < m.root.length)
    (h : loadBlock cap m ri = .ok (m', bi)) :
    Ok m' ∧ (content m').Perm (content m) ∧ m'.counter = m.counter ∧
    (∃ b, m'.mem[bi]? = some b ∧ b.entries = (m.root[ri]).entries) ∧
    (∀ b ∈ m'.mem, b ∈ m.mem ∨ b.entries = [] ∨ b.entries = (m.root[ri]).entries) ∧
    (∃ extra, m'.root = swapRemove m.root ri ++ extra ∧ ∀ b ∈ extra, b ∈ m.mem) := by
  unfold loadBlock at h
  have hget : m.root[ri]? = some (m.root[ri]) := by simp [hri]
  rw [hget] at h
  dsimp only at h
  obtain ⟨node, hnode⟩ : ∃ node, node = m.root[ri] := ⟨_, rfl⟩
  rw [← hnode] at h ⊢
  -- the map with the root entry removed
  have hperm0 : (node.entries ++ content ⟨m.mem, swapRemove m.root ri, m.active, m.counter⟩).Perm (content m) := by
    simp only [content]
    have h1 := swapRemove_perm m.root ri hri
    have h2 : (contentL (m.root[ri] :: swapRemove m.root ri)).Perm (contentL m.root) := by
      unfold contentL; exact List.Perm.flatMap_right _ h1
    rw [contentL_cons, ← hnode] at h2
    exact List.Perm.trans (l₂ := contentL m.mem ++ (node.entries ++ contentL (swapRemove m.root ri)))
      (by perm_count) (List.Perm.append_left _ h2)
  have hok1 : Ok ⟨m.mem, swapRemove m.root ri, m.active, m.counter⟩ := by
    refine ⟨?_, hok.rangeMem, fun b hb => hok.rangeRoot b (mem_swapRemove hb), hok.memNe⟩
    have := (List.Perm.map (·.key) hperm0).nodup_iff.mpr hok.keys
    rw [List.map_append, List.nodup_append] at this
    exact this.2.1
  have hs0 : spillLru cap { m with root := swapRemove m.root ri } = spillLru cap ⟨m.mem, swapRemove m.root ri, m.active, m.counter⟩ := rfl
  rw [hs0] at h
  cases hs : spillLru cap ⟨m.mem, swapRemove m.root ri, m.active, m.counter⟩ with
  | error e => rw [hs] at h; simp at h
  | ok m2 =>
    rw [hs] at h
    simp only [Except.ok.injEq, Prod.mk.injEq] at h
    obtain ⟨rfl, rfl⟩ := h
    obtain ⟨hok2, hperm2, hact, ⟨b0, hb0, hb0e⟩, hcnt, ⟨extra, hroot, hextra⟩, hmem2⟩ := spillLru_spec hok1 hs
    obtain ⟨_, hb0'⟩ := getElem?_some_iff' hb0
    obtain ⟨hoe, hor⟩ := ofEntries_spec node.entries
    obtain ⟨loaded, hloaded⟩ : ∃ loaded : Block, loaded = { (Block.ofEntries node.entries) with last := m.counter } := ⟨_, rfl⟩
    have hle : loaded.entries = node.entries := by rw [hloaded]; exact hoe
    rw [← hloaded]
    have hperm3 : (content ⟨m2.mem.set m2.active loaded, m2.root, m2.active, m2.counter⟩).Perm (node.entries ++ content m2) := by
      simp only [content]
      have h1 := contentL_set m2.mem m2.active loaded hact
      rw [hb0', hb0e, List.append_nil, hle] at h1
      exact List.Perm.trans (l₂ := (contentL m2.mem ++ node.entries) ++ contentL m2.root)
        (List.Perm.append_right _ h1) (by perm_count)
    have hpermAll := hperm3.trans ((List.Perm.append_left _ hperm2).trans hperm0)
    refine ⟨⟨?_, ?_, hok2.rangeRoot, ?_⟩, hpermAll, hcnt, ⟨loaded, by simp [hact], hle⟩, ?_,
      ⟨extra, hroot, hextra⟩⟩
    · exact (List.Perm.map _ hpermAll).nodup_iff.mpr hok.keys
    · intro b hb e heb
      rcases List.mem_or_eq_of_mem_set hb with hb | rfl
      · exact hok2.rangeMem b hb e heb
      · rw [hloaded] at heb ⊢; exact hor e heb
    · exact set_ne_nil hok2.memNe _ _
    · intro b hb
      rcases List.mem_or_eq_of_mem_set hb with hb | rfl
      · rcases hmem2 b hb with h | h
        · exact Or.inl h
        · exact Or.inr (Or.inl h)
      · exact Or.inr (Or.inr hle)

/-! ## `find` and `consume` -/

theorem findIn_some {es : List Entry} {key ei : Nat} (h : findIn es key = some ei) :
    ∃ hlt : ei < es.length, (es[ei]).key = key := by
  induction es generalizing ei with
  | nil => simp [findIn] at h
  | cons e es ih =>
    simp only [findIn] at h
    by_cases hk : (e.key == key) = true
    · simp only [hk, if_true, Option.some.injEq] at h
      subst h
      exact ⟨by simp, by simpa using hk⟩
    · have hk' : (e.key == key) = false := by simpa using hk
      simp only [hk', Bool.false_eq_true, if_false] at h
      cases hf : findIn es key with
      | none => rw [hf] at h; simp at h
      | some j =>
        rw [hf] at h
        simp only [Option.map_some, Option.some.injEq] at h
        subst h
        obtain ⟨hlt, hkey⟩ := ih hf
        exact ⟨by simp; omega, by simpa using hkey⟩

theorem findIn_none {es : List Entry} {key : Nat} (h : findIn es key = none) : ∀ e ∈ es, e.key ≠ key := by
  induction es with
  | nil => simp
  | cons e es ih =>
    simp only [findIn] at h
    by_cases hk : (e.key == key) = true
    · simp [hk] at h
    · have hk' : (e.key == key) = false := by simpa using hk
      simp only [hk', Bool.false_eq_true, if_false] at h
      have hf : findIn es key = none := by
        cases hf : findIn es key with
        | none => rfl
        | some j => rw [hf] at h; simp at h
      intro x hx
      simp only [List.mem_cons] at hx
      rcases hx with rfl | hx
      · simpa using hk
      · exact ih hf x hx

theorem findMemGo_some {bs : List Block} {i key bi ei : Nat} (h : findMemGo bs i key = some (bi, ei)) :
    ∃ j, bi = i + j ∧ ∃ hj : j < bs.length, findIn (bs[j]).entries key = some ei := by
  induction bs generalizing i with
  | nil => simp [findMemGo] at h
  | cons b bs ih =>
    simp only [findMemGo] at h
    cases hf : findIn b.entries key with
    | some e0 =>
      rw [hf] at h
      simp only [Option.some.injEq, Prod.mk.injEq] at h
      obtain ⟨rfl, rfl⟩ := h
      exact ⟨0, rfl, by simp, by simpa using hf⟩
    | none =>
      rw [hf] at h
      obtain ⟨j, hj, hlt, hfj⟩ := ih h
      exact ⟨j + 1, by omega, by simp; omega, by simpa using hfj⟩

theorem findMemGo_none {bs : List Block} {i key : Nat} (h : findMemGo bs i key = none) : NotIn bs key := by
  induction bs generalizing i with
  | nil => intro b hb; simp at hb
  | cons b bs ih =>
    simp only [findMemGo] at h
    cases hf : findIn b.entries key with
    | some e0 => rw [hf] at h; simp at h
    | none =>
      rw [hf] at h
      intro x hx
      simp only [List.mem_cons] at hx
      rcases hx with rfl | hx
      · exact findIn_none hf
      · exact ih h x hx

/-- entry-level analogue of `contentL_set` for `List.set` -/
theorem set_perm {α : Type} (l : List α) (i : Nat) (x : α) (h : i < l.length) :
    (l[i] :: l.set i x).Perm (x :: l) := by
  induction l generalizing i with
  | nil => simp at h
  | cons a l ih =>
    cases i with
    | zero => simp only [List.getElem_cons_zero, List.set_cons_zero]; exact List.Perm.swap _ _ _
    | succ j =>
      simp only [List.getElem_cons_succ, List.set_cons_succ]
      have := ih j (by simpa using h)
      exact (List.Perm.swap _ _ _).trans ((List.Perm.cons a this).trans (List.Perm.swap _ _ _))

/-- replacing block `bi` (= `b`) by `b'`, as a statement about the whole content -/
theorem content_set_mem {m : CMap} {bi : Nat} {b : Block} (hbi : bi < m.mem.length) (hb : m.mem[bi] = b)
    (b' : Block) :
    ∃ others, (content m).Perm (b.entries ++ others) ∧
      (content ⟨m.mem.set bi b', m.root, m.active, m.counter⟩).Perm (b'.entries ++ others) := by
  refine ⟨contentL (m.mem.set bi Block.empty) ++ contentL m.root, ?_, ?_⟩
  · have h0 := contentL_set m.mem bi Block.empty hbi
    have hE : Block.empty.entries = [] := rfl
    rw [hb, hE, List.append_nil] at h0
    simp only [content]
    exact List.Perm.trans (l₂ := (contentL (m.mem.set bi Block.empty) ++ b.entries) ++ contentL m.root)
      (List.Perm.append_right _ h0.symm) (by perm_count)
  · have h0 := contentL_set (m.mem.set bi b') bi Block.empty (by simpa using hbi)
    have hE : Block.empty.entries = [] := rfl
    have hset : (m.mem.set bi b').set bi Block.empty = m.mem.set bi Block.empty := by simp
    have hget : (m.mem.set bi b')[bi]'(by simpa using hbi) = b' := by simp
    rw [hset, hget, hE, List.append_nil] at h0
    simp only [content]
    exact List.Perm.trans (l₂ := (contentL (m.mem.set bi Block.empty) ++ b'.entries) ++ contentL m.root)
      (List.Perm.append_right _ h0.symm) (by perm_count)

theorem consume_spec {m : CMap} {bi ei key : Nat} {b : Block} {e : Entry} (hok : Ok m)
    (hgb : m.mem[bi]? = some b) (hge : b.entries[ei]? = some e) (hkey : e.key = key) :
    Ok (consume m bi ei).1 ∧ Behaves (content m) key (content (consume m bi ei).1) (consume m bi ei).2 := by
  obtain ⟨hbi, hb⟩ := getElem?_some_iff' hgb
  obtain ⟨hei, he⟩ := getElem?_some_iff' hge
  have hbmem : b ∈ m.mem := by rw [← hb]; exact List.getElem_mem _
  have hemem : e ∈ b.entries := by rw [← he]; exact List.getElem_mem _
  unfold consume
  rw [hgb]
  simp only
  rw [hge]
  simp only
  by_cases hc : e.count > 1
  · simp only [hc, if_true]
    obtain ⟨e', he'⟩ : ∃ e' : Entry, e' = { e with count := e.count - 1 } := ⟨_, rfl⟩
    obtain ⟨b', hb'⟩ : ∃ b' : Block, b' = { b with last := m.counter, entries := b.entries.set ei e' } := ⟨_, rfl⟩
    rw [← he', ← hb']
    have hb'e : b'.entries = b.entries.set ei e' := by rw [hb']
    obtain ⟨others, hc1, hc2⟩ := content_set_mem hbi hb b'
    obtain ⟨l0, hl0⟩ : ∃ l0, b.entries.Perm (e :: l0) := ⟨b.entries.erase e, List.perm_cons_erase hemem⟩
    have hb'l : b'.entries.Perm (e' :: l0) := by
      have h1 := set_perm b.entries ei e' hei
      rw [he, ← hb'e] at h1
      -- e :: b' ~ e' :: b ~ e' :: e :: l0
      have h2 := h1.trans (List.Perm.cons e' hl0)
      exact List.Perm.cons_inv (h2.trans (List.Perm.swap _ _ _))
    have hcm : (content m).Perm (e :: (l0 ++ others)) := hc1.trans (List.Perm.append_right _ hl0)
    have hcm' : (content ⟨m.mem.set bi b', m.root, m.active, m.counter⟩).Perm (e' :: (l0 ++ others)) :=
      hc2.trans (List.Perm.append_right _ hb'l)
    refine ⟨⟨?_, ?_, hok.rangeRoot, set_ne_nil hok.memNe _ _⟩,
      Or.inr ⟨e, _, hkey, hcm, Or.inl ⟨hc, rfl, by rw [← he']; exact hcm'⟩⟩⟩
    · have h1 := (List.Perm.map (·.key) hcm).nodup_iff.mp hok.keys
      refine (List.Perm.map (·.key) hcm').nodup_iff.mpr ?_
      rw [he']; simpa using h1
    · intro x hx y hy
      rcases List.mem_or_eq_of_mem_set hx with hx | rfl
      · exact hok.rangeMem x hx y hy
      · rw [hb'] at hy ⊢
        simp only at hy ⊢
        rcases List.mem_or_eq_of_mem_set hy with hy | rfl
        · exact hok.rangeMem b hbmem y hy
        · rw [he']; exact hok.rangeMem b hbmem e hemem
  · simp only [hc, if_false]
    obtain ⟨b', hb'⟩ : ∃ b' : Block, b' = { b with last := m.counter, entries := swapRemove b.entries ei } := ⟨_, rfl⟩
    rw [← hb']
    have hb'e : b'.entries = swapRemove b.entries ei := by rw [hb']
    obtain ⟨others, hc1, hc2⟩ := content_set_mem hbi hb b'
    have hp1 : (e :: b'.entries).Perm b.entries := by
      have := swapRemove_perm b.entries ei hei
      rw [he, ← hb'e] at this
      exact this
    have hcm : (content m).Perm (e :: (b'.entries ++ others)) := hc1.trans (List.Perm.append_right _ hp1.symm)
    refine ⟨⟨?_, ?_, hok.rangeRoot, set_ne_nil hok.memNe _ _⟩,
      Or.inr ⟨e, _, hkey, hcm, Or.inr ⟨by omega, rfl, hc2⟩⟩⟩
    · have h1 := (List.Perm.map (·.key) hcm).nodup_iff.mp hok.keys
      rw [List.map_cons, List.nodup_cons] at h1
      exact (List.Perm.map (·.key) hc2).nodup_iff.mpr h1.2
    · intro x hx y hy
      rcases List.mem_or_eq_of_mem_set hx with hx | rfl
      · exact hok.rangeMem x hx y hy
      · rw [hb'e] at hy
        rw [hb']
        exact hok.rangeMem b hbmem y (mem_swapRemove hy)

/-! ## the backwards scan -/

theorem scanRev_spec {cap key mc : Nat} : ∀ (i : Nat) (m m' : CMap) (r : Bool), Ok m → i ≤ m.root.length →
    (∀ e ∈ content m, e.key = key → e.mc = mc) → NotIn m.mem key →
    (∀ j, i ≤ j → ∀ hj : j < m.root.length, ∀ e ∈ (m.root[j]).entries, e.key ≠ key) →
    scanRev cap key mc i m = .ok (m', r) → Ok m' ∧ Behaves (content m) key (content m') r := by
  intro i
  induction i with
  | zero =>
    intro m m' r hok _ _ hmem hroot h
    simp only [scanRev, Except.ok.injEq, Prod.mk.injEq] at h
    obtain ⟨rfl, rfl⟩ := h
    refine ⟨hok, Or.inl ⟨?_, rfl, List.Perm.refl _⟩⟩
    intro e he
    simp only [content, List.mem_append, mem_contentL] at he
    rcases he with ⟨b, hb, heb⟩ | ⟨b, hb, heb⟩
    · exact hmem b hb e heb
    · obtain ⟨j, hj, rfl⟩ := List.getElem_of_mem hb
      exact hroot j (Nat.zero_le _) hj e heb
  | succ i ih =>
    intro m m' r hok hi hmc hmem hroot h
    have hlt : i < m.root.length := by omega
    have hget : m.root[i]? = some (m.root[i]) := by simp [hlt]
    rw [scanRev, hget] at h
    simp only at h
    by_cases hr : inRange (m.root[i]) mc = true
    · simp only [hr, if_true] at h
      cases hl : loadBlock cap m i with
      | error e => rw [hl] at h; simp at h
      | ok p =>
        obtain ⟨m1, bi⟩ := p
        rw [hl] at h
        simp only at h
        obtain ⟨hok1, hperm1, _, ⟨b1, hb1, hb1e⟩, hmem1, ⟨extra, hroot1, hextra⟩⟩ := loadBlock_spec hok hlt hl
        have hmc1 : ∀ e ∈ content m1, e.key = key → e.mc = mc :=
          fun e he => hmc e (hperm1.subset he)
        rw [hb1] at h
        simp only [Option.bind_some] at h
        cases hf : findIn b1.entries key with
        | some ei =>
          rw [hf] at h
          simp only [Except.ok.injEq] at h
          obtain ⟨heilt, heikey⟩ := findIn_some hf
          have hc := consume_spec (key := key) hok1 hb1 (by simp [heilt] : b1.entries[ei]? = some b1.entries[ei]) heikey
          rw [h] at hc
          exact ⟨hc.1, hc.2.of_perm hperm1⟩
        | none =>
          rw [hf] at h
          simp only at h
          have hnone := findIn_none hf
          -- memory is still free of the key
          have hmem1' : NotIn m1.mem key := by
            intro b hb e he
            rcases hmem1 b hb with h1 | h1 | h1
            · exact hmem b h1 e he
            · rw [h1] at he; simp at he
            · rw [h1, ← hb1e] at he; exact hnone e he
          -- everything at index ≥ i of the new root index is free of the key
          have hroot1' : ∀ j, i ≤ j → ∀ hj : j < m1.root.length, ∀ e ∈ (m1.root[j]).entries, e.key ≠ key := by
            intro j hij hj e he
            have hbm : m1.root[j] ∈ m1.root := List.getElem_mem _
            -- the block is not one of the first i blocks of the old index
            have hsrc : m1.root[j] ∈ extra ∨ ∃ k, i < k ∧ ∃ hk : k < m.root.length, m1.root[j] = m.root[k] := by
              have htake : (swapRemove m.root i).take i = m.root.take i := swapRemove_take m.root i hlt
              have hlen : i ≤ (swapRemove m.root i).length := by
                have := (swapRemove_perm m.root i hlt).length_eq
                simp at this; omega
              -- m1.root = take i ++ drop i (swapRemove) ++ extra
              have hdec : m1.root = m.root.take i ++ ((swapRemove m.root i).drop i ++ extra) := by
                rw [hroot1, ← htake, ← List.append_assoc, List.take_append_drop]
              have hjj : (m1.root[j]) = (m.root.take i ++ ((swapRemove m.root i).drop i ++ extra))[j]'(by rw [← hdec]; exact hj) := by
                simp only [hdec]
              have hlt1 : (m.root.take i).length = i := by simp; omega
              rw [List.getElem_append_right (by omega)] at hjj
              have hin : m1.root[j] ∈ (swapRemove m.root i).drop i ++ extra := by
                rw [hjj]; exact List.getElem_mem _
              rw [List.mem_append] at hin
              rcases hin with hin | hin
              · right
                -- an element of the tail of swapRemove is an element of old root beyond i
                have hsr : ∀ x ∈ (swapRemove m.root i).drop i, x ∈ m.root.drop (i + 1) := by
                  intro x hx
                  unfold swapRemove at hx
                  cases hd : m.root.drop (i + 1) with
                  | nil =>
                    rw [hd] at hx
                    simp only at hx
                    rw [List.drop_of_length_le (by omega)] at hx
                    simp at hx
                  | cons y rest =>
                    rw [hd] at hx
                    simp only at hx
                    rw [List.drop_append_of_le_length (by omega), List.drop_of_length_le (by omega)] at hx
                    simp only [List.nil_append] at hx
                    exact (getLast_dropLast_perm (y :: rest) (by simp)).subset hx
                have hx := hsr _ hin
                obtain ⟨k, hk, hkeq⟩ := List.getElem_of_mem hx
                simp only [List.length_drop] at hk
                refine ⟨i + 1 + k, by omega, by omega, ?_⟩
                rw [← hkeq]; simp
              · exact Or.inl hin
            rcases hsrc with hex | ⟨k, hik, hk, hkeq⟩
            · exact hmem _ (hextra _ hex) e he
            · rw [hkeq] at he
              exact hroot k (by omega) hk e he
          have hi1 : i ≤ m1.root.length := by
            have := (swapRemove_perm m.root i hlt).length_eq
            rw [hroot1]; simp at this ⊢; omega
          have := ih m1 m' r hok1 hi1 hmc1 hmem1' hroot1' h
          exact ⟨this.1, this.2.of_perm hperm1⟩
    · simp only [hr] at h
      -- out of range: the block cannot hold the key
      have hfree : ∀ e ∈ (m.root[i]).entries, e.key ≠ key := by
        intro e he hk
        have hin : e ∈ content m := by
          simp only [content, List.mem_append, mem_contentL]
          exact Or.inr ⟨_, List.getElem_mem _, he⟩
        have hmce := hmc e hin hk
        have := hok.rangeRoot _ (List.getElem_mem _) e he
        rw [hmce] at this
        apply hr
        simp [inRange, this.1, this.2]
      refine ih m m' r hok (by omega) hmc hmem ?_ h
      intro j hij hj e he
      by_cases hji : j = i
      · subst hji; exact hfree e he
      · exact hroot j (by omega) hj e he

/-- **Lookup/consume is unaffected by spilling.** -/
theorem shouldContinue_spec {cap key mc : Nat} {m m' : CMap} {r : Bool} (hok : Ok m)
    (hmc : ∀ e ∈ content m, e.key = key → e.mc = mc)
    (h : shouldContinue cap m key mc = .ok (m', r)) :
    Ok m' ∧ Behaves (content m) key (content m') r := by
  unfold shouldContinue at h
  dsimp only at h
  obtain ⟨m0, hm0⟩ : ∃ m0 : CMap, m0 = ⟨m.mem, m.root, m.active, m.counter + 1⟩ := ⟨_, rfl⟩
  have hok0 : Ok m0 := by rw [hm0]; exact ⟨hok.keys, hok.rangeMem, hok.rangeRoot, hok.memNe⟩
  have hc0 : content m0 = content m := by rw [hm0]; rfl
  rw [← hm0] at h
  have hmem0 : m0.mem = m.mem := by rw [hm0]
  have hroot0 : m0.root = m.root := by rw [hm0]
  rw [← hmem0, ← hroot0] at h
  rw [← hc0]
  cases hf : findMem m0.mem key with
  | some p =>
    obtain ⟨bi, ei⟩ := p
    rw [hf] at h
    simp only [Except.ok.injEq] at h
    obtain ⟨j, hbj, hj, hfj⟩ := findMemGo_some hf
    simp only [Nat.zero_add] at hbj
    subst hbj
    obtain ⟨heilt, heikey⟩ := findIn_some hfj
    have hc := consume_spec (key := key) hok0 (by simp [hj] : m0.mem[bi]? = some m0.mem[bi])
      (by simp [heilt] : (m0.mem[bi]).entries[ei]? = some (m0.mem[bi]).entries[ei]) heikey
    rw [h] at hc
    exact hc
  | none =>
    rw [hf] at h
    simp only at h
    exact scanRev_spec _ m0 m' r hok0 (Nat.le_refl _) (by rw [hc0]; exact hmc) (findMemGo_none hf)
      (fun j hij hj => absurd hj (by omega)) h

end AranyaV.ConvMap
