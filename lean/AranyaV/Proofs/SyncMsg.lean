import AranyaV.Model.SyncMsg
import AranyaV.Proofs.Postcard
/-!
Helper lemmas for C18: the slicing loop of `get_sync_commands` hands out a chain of adjacent
index ranges inside the bytes that followed the message.
-/
namespace AranyaV.SyncMsg
open AranyaV.Wire AranyaV.Postcard AranyaV.Gen.SyncWire

/-- the index ranges handed out for a list of commands, in the order the bytes are laid out:
per command the policy (if any), then the payload -/
def ranges : List CmdOut → List (Nat × Nat)
  | [] => []
  | c :: cs => (match c.policy with | some r => [r] | none => []) ++ [c.data] ++ ranges cs

/-- `rs` is a chain of adjacent ranges `[s,b₁) [b₁,b₂) …` that ends at or before `lim` -/
def Chained : Nat → List (Nat × Nat) → Nat → Prop
  | s, [], lim => s ≤ lim
  | s, (a, b) :: rs, lim => a = s ∧ a ≤ b ∧ Chained b rs lim

def polLen (c : CmdOut) : Nat := match c.policy with | some r => r.2 - r.1 | none => 0
def dataLen (c : CmdOut) : Nat := c.data.2 - c.data.1

theorem takeRange_ok {start len remLen : Nat} {r : Nat × Nat}
    (h : takeRange start len remLen = .ok r) :
    r = (start, start + len) ∧ start + len ≤ remLen ∧ start + len < usizeLimit := by
  unfold takeRange at h
  split at h
  · cases h
  · split at h
    · cases h
    · simp only [Except.ok.injEq] at h
      exact ⟨h.symm, by omega, by omega⟩

theorem takeRange_err {start len remLen : Nat} {e : SyncErr}
    (h : takeRange start len remLen = .error e) : e = .malformedResponse := by
  unfold takeRange at h
  split at h
  · simp at h; exact h.symm
  · split at h
    · simp at h; exact h.symm
    · cases h

theorem slicePolicy_ok {pl start remLen : Nat} {policy : Option (Nat × Nat)} {start1 : Nat}
    (h : slicePolicy pl start remLen = .ok (policy, start1)) :
    (pl = 0 ∧ policy = none ∧ start1 = start) ∨
    (pl ≠ 0 ∧ policy = some (start, start + pl) ∧ start1 = start + pl ∧ start + pl ≤ remLen) := by
  unfold slicePolicy at h
  split at h
  · rename_i h0
    simp only [Except.ok.injEq, Prod.mk.injEq] at h
    exact Or.inl ⟨h0, h.1.symm, h.2.symm⟩
  · rename_i h0
    split at h
    · cases h
    · rename_i r heq
      simp only [Except.ok.injEq, Prod.mk.injEq] at h
      obtain ⟨hr, hle, _⟩ := takeRange_ok heq
      subst hr
      exact Or.inr ⟨h0, h.1.symm, h.2.symm, hle⟩

/-- one step of the loop, when the whole loop succeeds -/
theorem sliceCmds_cons {m : Meta} {ms : List Meta} {remLen start count : Nat} {out : List CmdOut}
    (h : sliceCmds (m :: ms) remLen start count = .ok out) :
    ∃ (policy : Option (Nat × Nat)) (start1 : Nat) (out' : List CmdOut),
      slicePolicy m.policyLen start remLen = .ok (policy, start1) ∧
      start1 + m.len ≤ remLen ∧ count < COMMAND_RESPONSE_MAX ∧
      sliceCmds ms remLen (start1 + m.len) (count + 1) = .ok out' ∧
      out = { id := m.id, priority := m.priority, parent := m.parent, policy := policy,
              data := (start1, start1 + m.len) } :: out' ∧
      parentHasSuccessor m.parent = true := by
  rw [sliceCmds] at h
  split at h
  · cases h
  rename_i hpar
  have hpar' : parentHasSuccessor m.parent = true := by
    cases hb : parentHasSuccessor m.parent
    · exact absurd hb hpar
    · rfl
  split at h
  · cases h
  · rename_i policy start1 hpol
    split at h
    · cases h
    · rename_i data hdata
      obtain ⟨hd, hle, _⟩ := takeRange_ok hdata
      subst hd
      split at h
      · cases h
      · rename_i hc
        split at h
        · cases h
        · rename_i out' heq
          simp only [Except.ok.injEq] at h
          exact ⟨policy, start1, out', hpol, hle, by omega, heq, h.symm, hpar'⟩

/-- **the slices are in bounds**: the ranges form a chain of adjacent intervals starting at
`start` and ending at or before `remLen` -/
theorem sliceCmds_chained :
    ∀ (ms : List Meta) (remLen start count : Nat) (out : List CmdOut),
      sliceCmds ms remLen start count = .ok out → start ≤ remLen →
      Chained start (ranges out) remLen := by
  intro ms
  induction ms with
  | nil =>
    intro remLen start count out h hs
    simp only [sliceCmds, Except.ok.injEq] at h
    subst h
    simpa [ranges, Chained] using hs
  | cons m ms ih =>
    intro remLen start count out h hs
    obtain ⟨policy, start1, out', hpol, hle, _, hrec, hout, _⟩ := sliceCmds_cons h
    have hch := ih remLen (start1 + m.len) (count + 1) out' hrec hle
    subst hout
    rcases slicePolicy_ok hpol with ⟨_, hp, hs1⟩ | ⟨_, hp, hs1, hle1⟩
    · subst hp; subst hs1
      simp only [ranges, List.nil_append, List.cons_append, Chained]
      exact ⟨trivial, by omega, hch⟩
    · subst hp; subst hs1
      simp only [ranges, List.cons_append, List.nil_append, Chained]
      exact ⟨trivial, by omega, trivial, by omega, hch⟩

/-- the returned commands correspond one-to-one to the announced metadata, with the announced
lengths -/
theorem sliceCmds_lengths :
    ∀ (ms : List Meta) (remLen start count : Nat) (out : List CmdOut),
      sliceCmds ms remLen start count = .ok out →
      out.map polLen = ms.map (·.policyLen) ∧ out.map dataLen = ms.map (·.len) ∧
      out.map (·.id) = ms.map (·.id) := by
  intro ms
  induction ms with
  | nil =>
    intro remLen start count out h
    simp only [sliceCmds, Except.ok.injEq] at h
    subst h; simp
  | cons m ms ih =>
    intro remLen start count out h
    obtain ⟨policy, start1, out', hpol, _, _, hrec, hout, _⟩ := sliceCmds_cons h
    obtain ⟨h1, h2, h3⟩ := ih remLen _ _ out' hrec
    subst hout
    rcases slicePolicy_ok hpol with ⟨h0, hp, _⟩ | ⟨_, hp, _, _⟩
    · subst hp
      simp [polLen, dataLen, h0, h1, h2, h3]
    · subst hp
      simp [polLen, dataLen, h1, h2, h3]

/-- every command the loop returns has a parent whose max cut has a successor: the command's
own max cut (`CommandExt::max_cut`) is representable -/
theorem sliceCmds_parents :
    ∀ (ms : List Meta) (remLen start count : Nat) (out : List CmdOut),
      sliceCmds ms remLen start count = .ok out →
      ∀ c ∈ out, parentHasSuccessor c.parent = true := by
  intro ms
  induction ms with
  | nil =>
    intro remLen start count out h
    simp only [sliceCmds, Except.ok.injEq] at h
    subst h; simp
  | cons m ms ih =>
    intro remLen start count out h
    obtain ⟨policy, start1, out', _, _, _, hrec, hout, hpar⟩ := sliceCmds_cons h
    subst hout
    intro c hc
    rcases List.mem_cons.mp hc with e | e
    · subst e; exact hpar
    · exact ih _ _ _ out' hrec c e

/-- every range of a chain lies inside `[s, lim]` -/
theorem chained_within : ∀ (rs : List (Nat × Nat)) (s lim : Nat), Chained s rs lim →
    s ≤ lim ∧ ∀ r ∈ rs, s ≤ r.1 ∧ r.1 ≤ r.2 ∧ r.2 ≤ lim := by
  intro rs
  induction rs with
  | nil => intro s lim h; exact ⟨h, by simp⟩
  | cons r rs ih =>
    intro s lim h
    obtain ⟨a, b⟩ := r
    obtain ⟨h1, h2, h3⟩ := h
    obtain ⟨h4, h5⟩ := ih b lim h3
    subst h1
    refine ⟨by omega, ?_⟩
    intro r hr
    rcases List.mem_cons.mp hr with e | e
    · subst e; exact ⟨Nat.le_refl _, h2, h4⟩
    · obtain ⟨x, y, z⟩ := h5 r e
      exact ⟨by omega, y, z⟩

/-- the ranges of a chain are pairwise ordered and disjoint: an earlier one ends before a later
one starts -/
theorem chained_pairwise : ∀ (rs : List (Nat × Nat)) (s lim : Nat), Chained s rs lim →
    rs.Pairwise (fun r1 r2 => r1.2 ≤ r2.1) := by
  intro rs
  induction rs with
  | nil => intro _ _ _; exact List.Pairwise.nil
  | cons r rs ih =>
    intro s lim h
    obtain ⟨a, b⟩ := r
    obtain ⟨_, _, h3⟩ := h
    refine List.Pairwise.cons ?_ (ih b lim h3)
    intro r' hr'
    exact ((chained_within rs b lim h3).2 r' hr').1

/-- `interpIncoming` hands the bytes that followed the message to a push unchanged -/
theorem interp_push_data {v : WVal} {rem g : Bytes} {s : Nat} {m : ResponseMsg} {cd : Bytes}
    (h : interpIncoming v rem = some (.push g s m cd)) : cd = rem := by
  unfold interpIncoming at h
  repeat' split at h
  all_goals first
    | (cases h; rfl)
    | cases h

/-- unfolding of `get_sync_commands` on a `SyncResponse` -/
theorem getSync_response (r : Requester) (s idx : Nat) (ms : List Meta) (remLen : Nat) :
    r.getSyncCommands (.syncResponse s idx ms) remLen =
      if s ≠ r.session then (r, .error .sessionMismatch)
      else if ¬ (r.state = .start ∨ r.state = .waiting) then (r, .error .sessionState)
      else if idx ≠ r.next then ({ r with state := .resync }, .error .missingSyncResponse)
      else if ¬ (r.next + 1 < usizeLimit) then (r, .error .bug)
      else match sliceCmds ms remLen 0 0 with
        | .ok out => ({ r with next := r.next + 1, state := .waiting }, .ok (some out))
        | .error e => ({ r with next := r.next + 1, state := .waiting }, .error e) := by
  simp only [Requester.getSyncCommands, ResponseMsg.session]
  split
  · rfl
  · split
    · rfl
    · split
      · rfl
      · split
        · rfl
        · split
          · rename_i out heq; simp only [heq]
          · rename_i e heq; simp only [heq]

/-- on the other messages `get_sync_commands` never returns commands -/
theorem getSync_other_no_cmds (r r' : Requester) (msg : ResponseMsg) (remLen : Nat)
    (out : List CmdOut) (h : r.getSyncCommands msg remLen = (r', .ok (some out))) :
    ∃ s idx ms, msg = .syncResponse s idx ms := by
  cases msg with
  | syncResponse s idx ms => exact ⟨s, idx, ms, rfl⟩
  | syncEnd s k b =>
    simp only [Requester.getSyncCommands] at h
    repeat' split at h
    all_goals simp at h
  | offer s hd =>
    simp only [Requester.getSyncCommands] at h
    repeat' split at h
    all_goals simp at h
  | endSession s =>
    simp only [Requester.getSyncCommands] at h
    repeat' split at h
    all_goals simp at h

/-! ## decoded values are always interpretable (the `shape` outcome is unreachable) -/

/-- field `k` of a shaped tuple, with its schema -/
theorem fld_shaped {ss : List Schema} {fs : List WVal} (h : shapedTuple ss fs = true)
    (k : Nat) (s : Schema) (hk : ss[k]? = some s) : ∃ v, fld fs k = some v ∧ shaped s v = true :=
  shapedTuple_get ss fs h k s hk

theorem asNat_shaped {ss : List Schema} {fs : List WVal} (h : shapedTuple ss fs = true)
    (k b : Nat) (hk : ss[k]? = some (.varU b)) : ∃ n, asNat (fld fs k) = some n := by
  obtain ⟨v, hv, hs⟩ := fld_shaped h k _ hk
  obtain ⟨n, rfl⟩ := shaped_varU hs
  exact ⟨n, by rw [hv]; rfl⟩

theorem asBytes_shaped {ss : List Schema} {fs : List WVal} (h : shapedTuple ss fs = true)
    (k b : Nat) (hk : ss[k]? = some (.bytesN b)) : ∃ n, asBytes (fld fs k) = some n := by
  obtain ⟨v, hv, hs⟩ := fld_shaped h k _ hk
  obtain ⟨n, rfl⟩ := shaped_bytesN hs
  exact ⟨n, by rw [hv]; rfl⟩

theorem asBool_shaped {ss : List Schema} {fs : List WVal} (h : shapedTuple ss fs = true)
    (k : Nat) (hk : ss[k]? = some .bool) : ∃ n, asBool (fld fs k) = some n := by
  obtain ⟨v, hv, hs⟩ := fld_shaped h k _ hk
  obtain ⟨n, rfl⟩ := shaped_bool hs
  exact ⟨n, by rw [hv]; rfl⟩

theorem asSeq_shaped {ss : List Schema} {fs : List WVal} (h : shapedTuple ss fs = true)
    (k c : Nat) (s : Schema) (hk : ss[k]? = some (.vec c s)) :
    ∃ vs, asSeq (fld fs k) = some vs ∧ vs.all (fun x => shaped s x) = true := by
  obtain ⟨v, hv, hs⟩ := fld_shaped h k _ hk
  obtain ⟨vs, rfl, hall⟩ := shaped_vec hs
  exact ⟨vs, by rw [hv]; rfl, hall⟩

theorem interpMeta_some {v : WVal} (h : shaped commandMeta v = true) : ∃ m, interpMeta v = some m := by
  unfold commandMeta at h
  obtain ⟨fs, rfl, hs⟩ := shaped_tuple h
  obtain ⟨a, ha⟩ := asBytes_shaped hs CommandMeta_id idLen (by rfl)
  obtain ⟨b, hb, _⟩ := fld_shaped hs CommandMeta_priority _ (by rfl)
  obtain ⟨c, hc, _⟩ := fld_shaped hs CommandMeta_parent _ (by rfl)
  obtain ⟨d, hd⟩ := asNat_shaped hs CommandMeta_policy_length 32 (by rfl)
  obtain ⟨e, he⟩ := asNat_shaped hs CommandMeta_length 32 (by rfl)
  simp [interpMeta, ha, hb, hc, hd, he]

theorem interpMetas_some : ∀ (vs : List WVal), vs.all (fun x => shaped commandMeta x) = true →
    ∃ ms, interpMetas vs = some ms := by
  intro vs
  induction vs with
  | nil => intro _; exact ⟨[], rfl⟩
  | cons v vs ih =>
    intro h
    simp only [List.all_cons, Bool.and_eq_true] at h
    obtain ⟨m, hm⟩ := interpMeta_some h.1
    obtain ⟨ms, hms⟩ := ih h.2
    simp [interpMetas, hm, hms]

theorem interpResponse_some {v : WVal} (h : shaped syncResponseMessage v = true) :
    ∃ m, interpResponse v = some m := by
  unfold syncResponseMessage at h
  obtain ⟨i, p, rfl, hv⟩ := shaped_enum h
  match i, hv with
  | 0, hv =>
    simp only [shapedVariant] at hv
    obtain ⟨fs, rfl, hs⟩ := shaped_tuple hv
    obtain ⟨a, ha⟩ := asNat_shaped hs SyncResponseMessage_SyncResponse_session_id 128 (by rfl)
    obtain ⟨b, hb⟩ := asNat_shaped hs SyncResponseMessage_SyncResponse_response_index 64 (by rfl)
    obtain ⟨cs, hc, hall⟩ := asSeq_shaped hs SyncResponseMessage_SyncResponse_commands _ _ (by rfl)
    obtain ⟨ms, hms⟩ := interpMetas_some cs hall
    simp [interpResponse, SyncResponseMessage_SyncResponse, ha, hb, hc, hms]
  | 1, hv =>
    simp only [shapedVariant] at hv
    obtain ⟨fs, rfl, hs⟩ := shaped_tuple hv
    obtain ⟨a, ha⟩ := asNat_shaped hs SyncResponseMessage_SyncEnd_session_id 128 (by rfl)
    obtain ⟨b, hb⟩ := asNat_shaped hs SyncResponseMessage_SyncEnd_max_index 64 (by rfl)
    obtain ⟨c, hc⟩ := asBool_shaped hs SyncResponseMessage_SyncEnd_remaining (by rfl)
    simp [interpResponse, SyncResponseMessage_SyncResponse, SyncResponseMessage_SyncEnd, ha, hb, hc]
  | 2, hv =>
    simp only [shapedVariant] at hv
    obtain ⟨fs, rfl, hs⟩ := shaped_tuple hv
    obtain ⟨a, ha⟩ := asNat_shaped hs SyncResponseMessage_Offer_session_id 128 (by rfl)
    obtain ⟨b, hb⟩ := asBytes_shaped hs SyncResponseMessage_Offer_head idLen (by rfl)
    simp [interpResponse, SyncResponseMessage_SyncResponse, SyncResponseMessage_SyncEnd,
      SyncResponseMessage_Offer, ha, hb]
  | 3, hv =>
    simp only [shapedVariant] at hv
    obtain ⟨fs, rfl, hs⟩ := shaped_tuple hv
    obtain ⟨a, ha⟩ := asNat_shaped hs SyncResponseMessage_EndSession_session_id 128 (by rfl)
    simp [interpResponse, SyncResponseMessage_SyncResponse, SyncResponseMessage_SyncEnd,
      SyncResponseMessage_Offer, SyncResponseMessage_EndSession, ha]
  | n + 4, hv => simp [shapedVariant] at hv

theorem interpRequest_some {v : WVal} (h : shaped syncRequestMessage v = true) :
    ∃ m, interpRequest v = some m := by
  unfold syncRequestMessage at h
  obtain ⟨i, p, rfl, hv⟩ := shaped_enum h
  match i, hv with
  | 0, hv =>
    simp only [shapedVariant] at hv
    obtain ⟨fs, rfl, hs⟩ := shaped_tuple hv
    obtain ⟨a, ha⟩ := asNat_shaped hs SyncRequestMessage_SyncRequest_session_id 128 (by rfl)
    obtain ⟨g, hg⟩ := asBytes_shaped hs SyncRequestMessage_SyncRequest_graph_id idLen (by rfl)
    obtain ⟨b, hb⟩ := asNat_shaped hs SyncRequestMessage_SyncRequest_max_bytes 64 (by rfl)
    obtain ⟨cs, hc, _⟩ := asSeq_shaped hs SyncRequestMessage_SyncRequest_commands _ _ (by rfl)
    simp [interpRequest, SyncRequestMessage_SyncRequest, ha, hg, hb, hc]
  | 1, hv =>
    simp only [shapedVariant] at hv
    obtain ⟨fs, rfl, hs⟩ := shaped_tuple hv
    obtain ⟨a, ha⟩ := asNat_shaped hs SyncRequestMessage_RequestMissing_session_id 128 (by rfl)
    obtain ⟨cs, hc, _⟩ := asSeq_shaped hs SyncRequestMessage_RequestMissing_indexes _ _ (by rfl)
    simp [interpRequest, SyncRequestMessage_SyncRequest, SyncRequestMessage_RequestMissing, ha, hc]
  | 2, hv =>
    simp only [shapedVariant] at hv
    obtain ⟨fs, rfl, hs⟩ := shaped_tuple hv
    obtain ⟨a, ha⟩ := asNat_shaped hs SyncRequestMessage_SyncResume_session_id 128 (by rfl)
    obtain ⟨b, hb⟩ := asNat_shaped hs SyncRequestMessage_SyncResume_response_index 64 (by rfl)
    obtain ⟨c, hc⟩ := asNat_shaped hs SyncRequestMessage_SyncResume_max_bytes 64 (by rfl)
    simp [interpRequest, SyncRequestMessage_SyncRequest, SyncRequestMessage_RequestMissing,
      SyncRequestMessage_SyncResume, ha, hb, hc]
  | 3, hv =>
    simp only [shapedVariant] at hv
    obtain ⟨fs, rfl, hs⟩ := shaped_tuple hv
    obtain ⟨a, ha⟩ := asNat_shaped hs SyncRequestMessage_EndSession_session_id 128 (by rfl)
    simp [interpRequest, SyncRequestMessage_SyncRequest, SyncRequestMessage_RequestMissing,
      SyncRequestMessage_SyncResume, SyncRequestMessage_EndSession, ha]
  | n + 4, hv => simp [shapedVariant] at hv

theorem interpIncoming_some {v : WVal} (rem : Bytes) (h : shaped syncType v = true) :
    ∃ m, interpIncoming v rem = some m := by
  unfold syncType at h
  obtain ⟨i, p, rfl, hv⟩ := shaped_enum h
  match i, hv with
  | 0, hv =>
    simp only [shapedVariant] at hv
    obtain ⟨fs, rfl, hs⟩ := shaped_tuple hv
    obtain ⟨q, hq, hqs⟩ := fld_shaped hs SyncType_Poll_request _ (by rfl)
    obtain ⟨m, hm⟩ := interpRequest_some hqs
    simp [interpIncoming, SyncType_Hello, SyncType_Poll, hq, hm]
  | 1, hv =>
    simp only [shapedVariant] at hv
    obtain ⟨fs, rfl, hs⟩ := shaped_tuple hv
    obtain ⟨a, ha⟩ := asNat_shaped hs SyncType_Subscribe_remain_open 64 (by rfl)
    obtain ⟨b, hb⟩ := asNat_shaped hs SyncType_Subscribe_max_bytes 64 (by rfl)
    obtain ⟨cs, hc, _⟩ := asSeq_shaped hs SyncType_Subscribe_commands _ _ (by rfl)
    obtain ⟨g, hg⟩ := asBytes_shaped hs SyncType_Subscribe_graph_id idLen (by rfl)
    simp [interpIncoming, SyncType_Hello, SyncType_Poll, SyncType_Subscribe, ha, hb, hc, hg]
  | 2, hv =>
    simp only [shapedVariant] at hv
    obtain ⟨fs, rfl, hs⟩ := shaped_tuple hv
    obtain ⟨g, hg⟩ := asBytes_shaped hs SyncType_Unsubscribe_graph_id idLen (by rfl)
    simp [interpIncoming, SyncType_Hello, SyncType_Poll, SyncType_Subscribe, SyncType_Unsubscribe, hg]
  | 3, hv =>
    simp only [shapedVariant] at hv
    obtain ⟨fs, rfl, hs⟩ := shaped_tuple hv
    obtain ⟨q, hq, hqs⟩ := fld_shaped hs SyncType_Push_message _ (by rfl)
    obtain ⟨m, hm⟩ := interpResponse_some hqs
    obtain ⟨g, hg⟩ := asBytes_shaped hs SyncType_Push_graph_id idLen (by rfl)
    simp [interpIncoming, SyncType_Hello, SyncType_Poll, SyncType_Subscribe, SyncType_Unsubscribe,
      SyncType_Push, hq, hm, hg]
  | 4, hv => simp [interpIncoming, SyncType_Hello]
  | n + 5, hv => simp [shapedVariant] at hv

end AranyaV.SyncMsg
