import AranyaV.Proofs.StoreGraph
import AranyaV.Proofs.LcaWrite
import AranyaV.Proofs.SegmentsCheck
import AranyaV.Proofs.BraidRef
/-!
# Proofs.StoreGraphBuild — every store has a spec-level abstraction

`graphOf s attr`: the command locations of the store, listed by ascending max cut (so parents
come first), command id = position in that listing, parents = positions of the store parents,
priority/attributes from `attr`.  It is a well-formed `Spec.Graph` and (`abs_graphOf`) an
abstraction of the store in the sense of `Abs` — provided merge segments have two different
parents.
-/
namespace AranyaV.Segments
open AranyaV.Queue (Loc)
open AranyaV.Spec (Graph Cmd Reach Par)

/-! ## a duplicate-free, max-cut-sorted listing of the command locations -/

theorem nodup_map_of_inj_on {α β : Type} (f : α → β) : ∀ (l : List α), l.Nodup →
    (∀ a ∈ l, ∀ b ∈ l, f a = f b → a = b) → (l.map f).Nodup := by
  intro l
  induction l with
  | nil => intro _ _; simp
  | cons x xs ih =>
    intro hnd hinj
    rw [List.nodup_cons] at hnd
    rw [List.map_cons, List.nodup_cons]
    refine ⟨?_, ih hnd.2 (fun a ha b hb => hinj a (by simp [ha]) b (by simp [hb]))⟩
    intro hm
    rw [List.mem_map] at hm
    obtain ⟨y, hy, hxy⟩ := hm
    have := hinj y (by simp [hy]) x (by simp) hxy
    subst this
    exact hnd.1 hy

theorem nodup_eraseDups : ∀ (n : Nat) (l : List Loc), l.length ≤ n → l.eraseDups.Nodup := by
  intro n
  induction n with
  | zero =>
    intro l h
    have : l = [] := List.length_eq_zero_iff.mp (by omega)
    subst this; simp
  | succ n ih =>
    intro l h
    cases l with
    | nil => simp
    | cons a as =>
      rw [List.eraseDups_cons, List.nodup_cons]
      refine ⟨?_, ih _ ?_⟩
      · intro hm
        have := List.mem_eraseDups.mp hm
        simp at this
      · have := List.length_filter_le (fun b => !b == a) as
        simp at h; omega

theorem insertByMc_nodup {x : Loc} {l : List Loc} (hx : x ∉ l) (h : l.Nodup) : (insertByMc x l).Nodup := by
  induction l with
  | nil => simp [insertByMc]
  | cons y ys ih =>
    simp only [List.mem_cons, not_or] at hx
    rw [List.nodup_cons] at h
    simp only [insertByMc]
    split
    · rw [List.nodup_cons]
      exact ⟨by simp [hx.1, hx.2], List.nodup_cons.mpr h⟩
    · rw [List.nodup_cons]
      refine ⟨?_, ih hx.2 h.2⟩
      intro hm
      rcases mem_insertByMc_iff.mp hm with e | hm
      · exact hx.1 e.symm
      · exact h.1 hm

theorem sortByMc_nodup {l : List Loc} (h : l.Nodup) : (sortByMc l).Nodup := by
  have key : ∀ (l acc : List Loc), l.Nodup → acc.Nodup → (∀ x ∈ l, x ∉ acc) →
      (l.foldl (fun acc x => insertByMc x acc) acc).Nodup := by
    intro l
    induction l with
    | nil => intro acc _ ha _; exact ha
    | cons x xs ih =>
      intro acc hl ha hd
      rw [List.nodup_cons] at hl
      simp only [List.foldl_cons]
      apply ih _ hl.2 (insertByMc_nodup (hd x (by simp)) ha)
      intro y hy hm
      rcases mem_insertByMc_iff.mp hm with e | hm
      · subst e; exact hl.1 hy
      · exact hd y (by simp [hy]) hm
  exact key l [] h (by simp) (by simp)

/-- the command locations, sorted by max cut, without repetitions -/
def locList (s : Store) : List Loc := sortByMc ((s.allLocs.filter (fun l => s.valid l)).eraseDups)

theorem mem_locList {s : Store} {l : Loc} : l ∈ locList s ↔ s.valid l = true := by
  unfold locList
  rw [(sortByMc_spec _).2, List.mem_eraseDups, List.mem_filter]
  constructor
  · intro h; exact h.2
  · intro h; exact ⟨valid_mem_allLocs h, h⟩

theorem locList_nodup (s : Store) : (locList s).Nodup :=
  sortByMc_nodup (nodup_eraseDups _ _ (Nat.le_refl _))

theorem locList_sorted (s : Store) : SortedMc (locList s) := (sortByMc_spec _).1

/-- in a sorted duplicate-free list a smaller max cut means an earlier position -/
theorem idxOf_lt_of_mc_lt {L : List Loc} (hs : SortedMc L) {a b : Loc} (ha : a ∈ L) (hb : b ∈ L)
    (h : a.mc < b.mc) : L.idxOf a < L.idxOf b := by
  induction L with
  | nil => simp at ha
  | cons x xs ih =>
    unfold SortedMc at hs
    rw [List.pairwise_cons] at hs
    rw [List.idxOf_cons, List.idxOf_cons]
    simp only [List.mem_cons] at ha hb
    by_cases hxa : x = a
    · subst hxa
      have hxb : ¬ x = b := by intro e; subst e; omega
      have : (x == b) = false := by simpa using hxb
      simp [this]
    · have hxa' : (x == a) = false := by simpa using hxa
      have ha' : a ∈ xs := by
        rcases ha with e | h'
        · exact absurd e.symm hxa
        · exact h'
      by_cases hxb : x = b
      · subst hxb
        have := hs.1 a ha'
        omega
      · have hxb' : (x == b) = false := by simpa using hxb
        have hb' : b ∈ xs := by
          rcases hb with e | h'
          · exact absurd e.symm hxb
          · exact h'
        simp only [hxa', hxb', cond_false]
        have := ih hs.2 ha' hb'
        omega

/-! ## the graph -/

def locId (s : Store) (l : Loc) : Nat := (locList s).idxOf l
def idLoc (s : Store) (i : Nat) : Option Loc := (locList s)[i]?

def mkCmd (s : Store) (attr : Loc → AranyaV.Gen.Priority) (i : Nat) (l : Loc) : Cmd :=
  { id := i, parents := (s.parents l).map (locId s), prio := attr l, body := [] }

def graphOf (s : Store) (attr : Loc → AranyaV.Gen.Priority) : Graph :=
  (locList s).mapIdx (mkCmd s attr)

theorem idLoc_locId {s : Store} {l : Loc} (h : s.valid l = true) : idLoc s (locId s l) = some l := by
  unfold idLoc locId
  have hm := mem_locList.mpr h
  have hlt := List.idxOf_lt_length_of_mem hm
  rw [List.getElem?_eq_getElem hlt]
  simp

theorem locId_of_idLoc {s : Store} {i : Nat} {l : Loc} (h : idLoc s i = some l) :
    i = locId s l ∧ s.valid l = true := by
  unfold idLoc at h
  obtain ⟨hlt, he⟩ : ∃ hlt : i < (locList s).length, (locList s)[i] = l := by
    cases hd : decide (i < (locList s).length) with
    | true =>
      have hlt : i < (locList s).length := by simpa using hd
      rw [List.getElem?_eq_getElem hlt] at h
      exact ⟨hlt, Option.some.inj h⟩
    | false =>
      have : ¬ i < (locList s).length := by simpa using hd
      rw [List.getElem?_eq_none (by omega)] at h; cases h
  have hm : l ∈ locList s := by rw [← he]; exact List.getElem_mem _
  refine ⟨?_, mem_locList.mp hm⟩
  unfold locId
  rw [← he]
  exact ((locList_nodup s).idxOf_getElem i hlt).symm

/-! ## well-formedness of `mapIdx` graphs whose parents point backwards -/

theorem ids_mapIdx (L : List Loc) (f : Nat → Loc → Cmd) (hid : ∀ i l, (f i l).id = i) :
    Spec.ids (L.mapIdx f) = List.range L.length := by
  induction h : L.length generalizing L with
  | zero =>
    have : L = [] := List.length_eq_zero_iff.mp h
    subst this; rfl
  | succ n ih =>
    obtain ⟨init, last, rfl⟩ : ∃ init last, L = init ++ [last] := by
      rcases List.eq_nil_or_concat L with h0 | ⟨i, l, hl⟩
      · subst h0; simp at h
      · exact ⟨i, l, by simpa using hl⟩
    have hlen : init.length = n := by simp at h; omega
    rw [List.mapIdx_concat]
    simp only [Spec.ids, List.map_append, List.map_cons, List.map_nil, hid]
    have := ih init hlen
    simp only [Spec.ids] at this
    rw [this, hlen, List.range_succ]

theorem wf_mapIdx (L : List Loc) (f : Nat → Loc → Cmd) (hid : ∀ i l, (f i l).id = i)
    (hpar : ∀ i l, (f i l).parents = (f 0 l).parents)
    (hback : ∀ k (h : k < L.length), ∀ p ∈ (f k L[k]).parents, p < k)
    (hshape : ∀ k (h : k < L.length), (f k L[k]).parents.length ≤ 2 ∧ (f k L[k]).parents.Nodup) :
    Spec.WF (L.mapIdx f) := by
  induction h : L.length generalizing L with
  | zero =>
    have : L = [] := List.length_eq_zero_iff.mp h
    subst this; exact Spec.WF.nil
  | succ n ih =>
    obtain ⟨init, last, rfl⟩ : ∃ init last, L = init ++ [last] := by
      rcases List.eq_nil_or_concat L with h0 | ⟨i, l, hl⟩
      · subst h0; simp at h
      · exact ⟨i, l, by simpa using hl⟩
    have hlen : init.length = n := by simp at h; omega
    rw [List.mapIdx_concat]
    have hlast : (init ++ [last])[init.length]'(by simp) = last := by simp
    have hinit : ∀ k (hk : k < init.length), (init ++ [last])[k]'(by simp; omega) = init[k] := by
      intro k hk; rw [List.getElem_append_left hk]
    refine Spec.WF.snoc (ih init ?_ ?_ hlen) ?_ ?_ ?_ ?_
    · intro k hk p hp
      have := hback k (by simp; omega) p (by rw [hinit k hk]; exact hp)
      exact this
    · intro k hk
      have := hshape k (by simp; omega)
      rw [hinit k hk] at this; exact this
    · rw [ids_mapIdx init f hid, hid]; simp
    · intro p hp
      rw [ids_mapIdx init f hid]
      have := hback init.length (by simp) p (by rw [hlast]; exact hp)
      simpa using this
    · have := hshape init.length (by simp); rw [hlast] at this; exact this.1
    · have := hshape init.length (by simp); rw [hlast] at this; exact this.2

/-- merge segments have two different parents -/
def MergeDistinct (s : Store) : Prop := ∀ i g, s.seg? i = some g → ∀ l r, g.prior = .merge l r → l ≠ r

theorem parents_shape {s : Store} (hmd : MergeDistinct s) (l : Loc) :
    (s.parents l).length ≤ 2 ∧ (s.parents l).Nodup := by
  unfold Store.parents
  cases hg : s.seg? l.seg with
  | none => simp
  | some g =>
    simp only
    split
    · split
      · simp
      · cases hpr : g.prior with
        | none => simp [Prior.toList]
        | single p => simp [Prior.toList]
        | merge a b =>
          have := hmd _ g hg a b hpr
          simp [Prior.toList, this]
    · simp

theorem locId_inj {s : Store} {a b : Loc} (ha : s.valid a = true) (hb : s.valid b = true)
    (h : locId s a = locId s b) : a = b := by
  have h1 := idLoc_locId ha
  have h2 := idLoc_locId hb
  rw [h] at h1; rw [h1] at h2; exact Option.some.inj h2

theorem graphOf_wf {s : Store} (hp : PriorsOK s) (hmd : MergeDistinct s) (attr : Loc → AranyaV.Gen.Priority) :
    Spec.WF (graphOf s attr) := by
  unfold graphOf
  apply wf_mapIdx _ _ (fun _ _ => rfl) (fun _ _ => rfl)
  · intro k hk p hp'
    simp only [mkCmd, List.mem_map] at hp'
    obtain ⟨q, hq, rfl⟩ := hp'
    have hlv : s.valid (locList s)[k] = true := mem_locList.mp (List.getElem_mem _)
    obtain ⟨hqv, _, hlt⟩ := parent_valid hp hq
    have := idxOf_lt_of_mc_lt (locList_sorted s) (mem_locList.mpr hqv) (List.getElem_mem hk) hlt
    rw [(locList_nodup s).idxOf_getElem k hk] at this
    exact this
  · intro k hk
    have hlv : s.valid (locList s)[k] = true := mem_locList.mp (List.getElem_mem _)
    obtain ⟨h1, h2⟩ := parents_shape hmd (locList s)[k]
    simp only [mkCmd, List.length_map]
    refine ⟨h1, nodup_map_of_inj_on _ _ h2 ?_⟩
    intro a ha b hb hab
    exact locId_inj (parent_valid hp ha).1 (parent_valid hp hb).1 hab

/-! ## ancestry -/

/-- the parent edges of `graphOf` -/
theorem par_graphOf {s : Store} (attr : Loc → AranyaV.Gen.Priority) {i j : Nat} :
    Par (graphOf s attr) i j ↔ ∃ l, idLoc s j = some l ∧ ∃ p ∈ s.parents l, i = locId s p := by
  unfold Par graphOf
  constructor
  · rintro ⟨d, hd, hdj, hi⟩
    rw [List.mem_mapIdx] at hd
    obtain ⟨k, hk, rfl⟩ := hd
    simp only [mkCmd] at hdj hi
    subst hdj
    rw [List.mem_map] at hi
    obtain ⟨p, hp, rfl⟩ := hi
    exact ⟨(locList s)[k], by simp [idLoc, hk], p, hp, rfl⟩
  · rintro ⟨l, hl, p, hp, rfl⟩
    unfold idLoc at hl
    obtain ⟨hlt, he⟩ : ∃ hlt : j < (locList s).length, (locList s)[j] = l := by
      cases hd : decide (j < (locList s).length) with
      | true =>
        have hlt : j < (locList s).length := by simpa using hd
        rw [List.getElem?_eq_getElem hlt] at hl
        exact ⟨hlt, Option.some.inj hl⟩
      | false =>
        have : ¬ j < (locList s).length := by simpa using hd
        rw [List.getElem?_eq_none (by omega)] at hl; cases hl
    refine ⟨mkCmd s attr j l, ?_, rfl, ?_⟩
    · rw [List.mem_mapIdx]; exact ⟨j, hlt, by rw [he]⟩
    · simp only [mkCmd, List.mem_map]; exact ⟨p, hp, rfl⟩

theorem reach_of_ancS {s : Store} (hp : PriorsOK s) (attr : Loc → AranyaV.Gen.Priority) {a b : Loc}
    (h : AncS s a b) (hb : s.valid b = true) : Reach (graphOf s attr) (locId s a) (locId s b) := by
  induction h with
  | refl => exact Reach.refl _
  | @step m b _ hm ih =>
    have hmv := (parent_valid hp hm).1
    exact Reach.tail (ih hmv) ((par_graphOf attr).mpr ⟨b, idLoc_locId hb, m, hm, rfl⟩)

theorem ancS_of_reach {s : Store} (hp : PriorsOK s) (attr : Loc → AranyaV.Gen.Priority) {i j : Nat}
    (h : Reach (graphOf s attr) i j) : ∀ b, s.valid b = true → j = locId s b →
      ∃ a, s.valid a = true ∧ i = locId s a ∧ AncS s a b := by
  induction h with
  | refl => intro b hb hj; exact ⟨b, hb, hj, AncS.refl b⟩
  | tail _ hpar ih =>
    rename_i m j
    intro b hb hj
    obtain ⟨l, hl, p, hpm, rfl⟩ := (par_graphOf attr).mp hpar
    have hlb : l = b := by
      rw [hj, idLoc_locId hb] at hl
      exact (Option.some.inj hl).symm
    subst hlb
    obtain ⟨a, hav, hia, haa⟩ := ih p (parent_valid hp hpm).1 rfl
    exact ⟨a, hav, hia, AncS.step haa hpm⟩

/-- **every store has an abstraction** -/
theorem abs_graphOf {s : Store} (hp : PriorsOK s) (attr : Loc → AranyaV.Gen.Priority) :
    Abs s (graphOf s attr) (locId s) (idLoc s) where
  dec := fun l hl => idLoc_locId hl
  decv := fun i l h => locId_of_idLoc h
  reach := by
    intro a b ha hb
    constructor
    · intro hr
      obtain ⟨a', ha', hia, haa⟩ := ancS_of_reach hp attr hr b hb rfl
      rw [locId_inj ha ha' hia]; exact haa
    · intro h; exact reach_of_ancS hp attr h hb
  down := by
    intro i b hb hr
    obtain ⟨a, hav, hia, _⟩ := ancS_of_reach hp attr hr b hb rfl
    exact ⟨a, hav, hia⟩

/-- a store-level antichain of valid heads is a legal head set of the abstraction -/
theorem heads_graphOf {s : Store} (hp : PriorsOK s) (hmd : MergeDistinct s)
    (attr : Loc → AranyaV.Gen.Priority) {hs : List Loc}
    (hne : hs ≠ []) (hnd : hs.Nodup) (hv : ∀ h ∈ hs, s.valid h = true)
    (hanti : ∀ a ∈ hs, ∀ b ∈ hs, a ≠ b → ¬ AncS s a b) :
    Spec.Heads (graphOf s attr) (hs.map (locId s)) := by
  have hwf := graphOf_wf hp hmd attr
  refine ⟨by simpa using hne, ?_, ?_, ?_⟩
  · refine nodup_map_of_inj_on _ _ hnd ?_
    intro a ha b hb hab
    exact locId_inj (hv a ha) (hv b hb) hab
  · intro x hx
    rw [List.mem_map] at hx
    obtain ⟨h, hh, rfl⟩ := hx
    have hm := mem_locList.mpr (hv h hh)
    have hlt := List.idxOf_lt_length_of_mem hm
    rw [show graphOf s attr = (locList s).mapIdx (mkCmd s attr) from rfl,
      ids_mapIdx _ (mkCmd s attr) (fun _ _ => rfl)]
    simpa [locId] using hlt
  · intro a ha b hb
    rw [List.mem_map] at ha hb
    obtain ⟨a', ha', rfl⟩ := ha
    obtain ⟨b', hb', rfl⟩ := hb
    cases hanc : Spec.anc (graphOf s attr) (locId s a') (locId s b') with
    | false => rfl
    | true =>
      exfalso
      obtain ⟨hne', hr⟩ := (Spec.anc_iff hwf _ _).mp hanc
      have hab : a' ≠ b' := fun e => hne' (by rw [e])
      exact hanti a' ha' b' hb' hab
        (((abs_graphOf hp attr).reach a' b' (hv a' ha') (hv b' hb')).mp hr)

end AranyaV.Segments
