import AranyaV.Proofs.DiskIO5
/-!
`run_io`: crash safety of runs with I/O errors injected anywhere.
-/
namespace AranyaV.Disk
open AranyaV.Wire

variable {L : Layout} {ck : Checksum}

/-- `CallHyp` for every call of the run, at the state it is made in -/
def HypsIO (L : Layout) (ck : Checksum) : Writer → Disk → List (Call × Fault) → Prop
  | _, _, [] => True
  | w, d, (c, f) :: cs => CallHyp L ck w d c ∧
      HypsIO L ck (w.stepF L ck c f).1 (d.execAll (w.stepF L ck c f).2.1) cs

/-- the roots the commits of the run attempt to write (whether or not they report success) -/
def attemptsF (L : Layout) (ck : Checksum) : Writer → List (Call × Fault) → List Root
  | _, [] => []
  | w, (c, f) :: cs => c.attempt ck w ++ attemptsF L ck (w.stepF L ck c f).1 cs

/-- the items the calls of a run with faults appended completely -/
def recsF (L : Layout) (ck : Checksum) : Writer → List (Call × Fault) → List Rec
  | _, [] => []
  | w, (c, f) :: cs => recsAfterF L ck w c f ++ recsF L ck (w.stepF L ck c f).1 cs

theorem recsAfterF_mem (w : Writer) (c : Call) (f : Fault) (rec : Rec)
    (h : rec ∈ recsAfterF L ck w c f) : rec = c.toRec w := by
  unfold recsAfterF at h
  split at h
  · cases h
  · exact List.mem_singleton.mp h

theorem recsF_off_ge (hL : L.OK) :
    ∀ (cs : List (Call × Fault)) (w : Writer) (d : Disk) (g : G), GQ L ck d g → Link w g →
      HypsIO L ck w d cs → ∀ rec ∈ recsF L ck w cs, g.free ≤ rec.off := by
  intro cs
  induction cs with
  | nil => intro w d g _ _ _ rec h; cases h
  | cons cf cs ih =>
    obtain ⟨c, f⟩ := cf
    intro w d g q hl hh rec hrec
    obtain ⟨al, out⟩ := call_io hL q hl c f hh.1
    simp only [recsF, List.mem_append] at hrec
    rcases hrec with h | h
    · rw [recsAfterF_mem w c f rec h, toRec_off, link_free hl]; exact Nat.le_refl _
    · have q' := gq_conf hL _ d g q out.conf
      rw [out.erase] at q'
      have := ih _ _ _ q' out.link hh.2 rec h
      have := conf_free_mono al g d out.conf
      omega

/-- what a later era needs to know about the image it reopens (cf. `ReopenOK`) -/
structure ReopenG (L : Layout) (ck : Checksum) (img : Img) (w : Writer) : Prop where
  fs : (L.freeStart : Int) ≤ w.root.free
  slot : w.nextRoot = L.rootA ∨ w.nextRoot = L.rootB
  stale : ∀ r', loadValid ck img w.nextRoot = some r' → r'.gen < w.root.gen
  cur : loadValid ck img (L.other w.nextRoot) = some w.root
  lenA : lenOK img L.rootA
  lenB : lenOK img L.rootB

theorem GQ.reopenG (hL : L.OK) {d : Disk} {g : G} (q : GQ L ck d g) (χ : List (List Bool)) (w : Writer)
    (ho : Writer.open L ck (d.crash χ) = some w) : ReopenG L ck (d.crash χ) w := by
  obtain ⟨_, _, _, hfs, hsl, hst, hcur, hA, hB⟩ := (q.safe hL χ).2 w ho
  refine ⟨hfs, ?_, hst, hcur, hA, hB⟩
  rcases hsl with h | h <;> rw [h]
  · exact q.next_slot
  · exact Layout.other_slot hL q.next_slot

theorem run_io (hL : L.OK) :
    ∀ (cs : List (Call × Fault)) (w : Writer) (d : Disk) (g : G) (A : List Root),
      GQ L ck d g → Link w g → (∀ r, g.newer r → r ∈ A) → HypsIO L ck w d cs →
      ∀ (n : Nat) (χ : List (List Bool)),
        (Writer.open L ck ((d.execAll ((traceF L ck w cs).take n)).crash χ) = none →
          doneFromF L ck w g.done cs n = none) ∧
        ∀ w', Writer.open L ck ((d.execAll ((traceF L ck w cs).take n)).crash χ) = some w' →
          (some w'.root = doneFromF L ck w g.done cs n ∨
          (w'.root ∈ A ++ attemptsF L ck w cs ∧
            ∀ r, doneFromF L ck w g.done cs n = some r → r.gen < w'.root.gen)) ∧
          (∀ rec ∈ g.recs ++ recsF L ck w cs, (rec.end_ : Int) ≤ w'.root.free →
            agreeRec ((d.execAll ((traceF L ck w cs).take n)).crash χ) rec) ∧
          ReopenG L ck ((d.execAll ((traceF L ck w cs).take n)).crash χ) w' := by
  intro cs
  induction cs with
  | nil =>
    intro w d g A q _ hA _ n χ
    simp only [traceF, List.take_nil, Disk.execAll, doneFromF, attemptsF, recsF, List.append_nil]
    obtain ⟨h1, h2⟩ := q.safe hL χ
    refine ⟨h1, fun w' hw' => ⟨?_, (h2 w' hw').2.1, q.reopenG hL χ w' hw'⟩⟩
    rcases (h2 w' hw').1 with h | h
    · exact Or.inl h
    · exact Or.inr ⟨hA _ h, (q.newer_ok _ h).1⟩
  | cons cf cs ih =>
    obtain ⟨c, f⟩ := cf
    intro w d g A q hl hA hh n χ
    obtain ⟨al, out⟩ := call_io hL q hl c f hh.1
    by_cases hn : n < (w.stepF L ck c f).2.1.length
    · have htake : (traceF L ck w ((c, f) :: cs)).take n = (w.stepF L ck c f).2.1.take n := by
        simp only [traceF]; exact List.take_append_of_le_length (Nat.le_of_lt hn)
      obtain ⟨m, hm⟩ := erase_take al n
      rw [out.erase] at hm
      have q2 := gq_conf hL _ d g q (conf_take al m g d out.conf)
      rw [hm] at q2
      have hlen : (eraseAll (al.take m)).length < (eraseAll al).length := by
        rw [hm, out.erase, List.length_take]; omega
      have hns := out.nosc m hlen
      have hdone : (gfin L g (al.take m)).done = g.done := gfin_done _ _ hns
      simp only [htake, doneFromF, hn, if_true]
      obtain ⟨h1, h2⟩ := q2.safe hL χ
      refine ⟨fun h => by rw [← hdone]; exact h1 h, fun w' hw' => ⟨?_, ?_, q2.reopenG hL χ w' hw'⟩⟩
      rotate_left
      · -- items: recorded ones are intact, the others start at or beyond the recovered frontier
        obtain ⟨_, hint, hfree, _⟩ := h2 w' hw'
        have hsplit : al = al.take m ++ al.drop m := (List.take_append_drop m al).symm
        have hconf := out.conf
        rw [hsplit, conf_append] at hconf
        have hmono := conf_free_mono _ _ _ hconf.2
        rw [← gfin_append, ← hsplit] at hmono
        have q' := gq_conf hL _ d g q out.conf
        rw [out.erase] at q'
        intro rec hrec hle
        have hbeyond : (gfin L g (al.take m)).free ≤ rec.off → False := by
          intro hb
          have : rec.off < rec.end_ := by unfold Rec.end_; omega
          omega
        simp only [recsF, List.mem_append] at hrec
        rcases hrec with hr | hr | hr
        · exact hint rec (gfin_recs_sub L _ g rec hr) hle
        · have he := recsAfterF_mem w c f rec hr
          rcases gfin_rec_or L rec (al.take m) g
              (fun r hr' => by rw [he]; exact out.adv r (List.mem_of_mem_take hr'))
              (Or.inr (by rw [he, toRec_off, link_free hl]; exact Nat.le_refl _)) with h | h
          · exact hint rec h hle
          · exact absurd h (fun h => hbeyond h)
        · have := recsF_off_ge hL cs _ _ _ q' out.link hh.2 rec hr
          exact absurd (by omega : (gfin L g (al.take m)).free ≤ rec.off) (fun h => hbeyond h)
      rcases (h2 w' hw').1 with h | h
      · left; rw [← hdone]; exact h
      · right
        refine ⟨?_, fun r hr => (q2.newer_ok _ h).1 r (by rw [hdone]; exact hr)⟩
        rcases gfin_newer _ g _ h with h' | ⟨off, b, hmem⟩
        · exact List.mem_append_left _ (hA _ h')
        · refine List.mem_append_right _ ?_
          simp only [attemptsF]
          exact List.mem_append_left _ (out.rootw _ off b (List.mem_of_mem_take hmem))
    · have hge : (w.stepF L ck c f).2.1.length ≤ n := Nat.le_of_not_lt hn
      have htake : (traceF L ck w ((c, f) :: cs)).take n =
          (w.stepF L ck c f).2.1 ++
            (traceF L ck (w.stepF L ck c f).1 cs).take (n - (w.stepF L ck c f).2.1.length) := by
        simp only [traceF]
        rw [List.take_append, List.take_of_length_le hge]
      have q' := gq_conf hL _ d g q out.conf
      rw [out.erase] at q'
      have hA' : ∀ r, (gfin L g al).newer r → r ∈ A ++ c.attempt ck w := by
        intro r hr
        rcases gfin_newer _ g _ hr with h' | ⟨off, b, hmem⟩
        · exact List.mem_append_left _ (hA _ h')
        · exact List.mem_append_right _ (out.rootw _ off b hmem)
      have := ih _ _ _ (A ++ c.attempt ck w) q' out.link hA' hh.2 (n - (w.stepF L ck c f).2.1.length) χ
      simp only [htake, execAll_append, doneFromF, hn, if_false, attemptsF, recsF]
      rw [out.done, out.recs] at this
      simpa [List.append_assoc] using this

end AranyaV.Disk
