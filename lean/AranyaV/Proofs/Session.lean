import AranyaV.Model.Session
import AranyaV.Proofs.FactsPersp
/-!
Lemmas about the session model: the log / overlay invariant, revert, scripts, and the
two-way merge iterator.
-/
namespace AranyaV.Facts

/-! ### the overlay is the rebuilt log -/

/-- `current_facts` is what `revert` would rebuild from `fact_log` -/
def Session.Inv (s : Session) : Prop := s.cur = rebuild s.log

instance (s : Session) : Decidable s.Inv := by unfold Session.Inv; infer_instance

theorem rebuild_append (l : List Update) (u : Update) :
    rebuild (l ++ [u]) = (rebuild l).insert u.1 u.2 := by
  unfold rebuild
  rw [List.foldl_append]
  rfl

theorem sorted_rebuild (l : List Update) : Sorted (rebuild l) := by
  unfold rebuild
  have : ∀ (acc : FMap), Sorted acc → Sorted (l.foldl (fun m u => m.insert u.1 u.2) acc) := by
    induction l with
    | nil => exact fun _ h => h
    | cons u r ih => exact fun acc h => ih _ (sorted_insert h _ _)
  exact this [] Sorted.nil

theorem Session.Inv_sorted {s : Session} (h : s.Inv) : Sorted s.cur := by
  rw [h]; exact sorted_rebuild _

theorem Session.Inv_new (base : Chain) : Session.Inv { base := base } := rfl

theorem Session.Inv_insert {s : Session} (h : s.Inv) (k : Key) (v : Val) : (s.insert k v).Inv := by
  unfold Session.Inv Session.insert
  simp only
  rw [rebuild_append, ← h]

theorem Session.Inv_delete {s : Session} (h : s.Inv) (k : Key) : (s.delete k).Inv := by
  unfold Session.Inv Session.delete
  simp only
  rw [rebuild_append, ← h]

theorem Session.ext' {a b : Session} (h1 : a.base = b.base) (h2 : a.log = b.log) (h3 : a.cur = b.cur) :
    a = b := by
  cases a; cases b; simp_all

/-- `revert` within range: log truncated, overlay rebuilt (the early return relies on the
invariant) -/
theorem Session.revert_ok {s : Session} (hs : s.Inv) {ck : Nat} (hck : ck ≤ s.log.length) :
    s.revert ck = .ok { base := s.base, log := s.log.take ck, cur := rebuild (s.log.take ck) } := by
  unfold Session.revert
  by_cases h : ck = s.log.length
  · rw [if_pos h]
    congr 1
    refine Session.ext' rfl ?_ ?_
    · simp [h]
    · simp only [h, List.take_length]; exact hs
  · rw [if_neg h, if_neg (by omega)]

theorem Session.revert_err {s : Session} {ck : Nat} (hck : s.log.length < ck) :
    s.revert ck = .error .badCheckpoint := by
  unfold Session.revert
  rw [if_neg (by omega), if_pos hck]

/-! ### scripts -/

/-- the writes a script performs before it ends or fails -/
def scriptWrites : List SOp → List Update
  | [] => []
  | .ins k v :: r => (k, some v) :: scriptWrites r
  | .del k :: r => (k, none) :: scriptWrites r
  | .q _ :: r => scriptWrites r
  | .qp _ :: r => scriptWrites r
  | .fail :: _ => []

theorem Session.runScript_spec (s : Session) (hs : s.Inv) (ops : List SOp) :
    (s.runScript ops).1.base = s.base ∧ (s.runScript ops).1.log = s.log ++ scriptWrites ops ∧
      (s.runScript ops).1.Inv := by
  induction ops generalizing s with
  | nil => exact ⟨rfl, by simp [Session.runScript, scriptWrites], hs⟩
  | cons op r ih =>
    cases op with
    | ins k v =>
      obtain ⟨h1, h2, h3⟩ := ih (s.insert k v) (Session.Inv_insert hs k v)
      refine ⟨h1, ?_, h3⟩
      show ((s.insert k v).runScript r).1.log = _
      rw [h2]
      simp [Session.insert, scriptWrites]
    | del k =>
      obtain ⟨h1, h2, h3⟩ := ih (s.delete k) (Session.Inv_delete hs k)
      refine ⟨h1, ?_, h3⟩
      show ((s.delete k).runScript r).1.log = _
      rw [h2]
      simp [Session.delete, scriptWrites]
    | q k => exact ih s hs
    | qp p => exact ih s hs
    | fail => exact ⟨rfl, by simp [Session.runScript, scriptWrites], hs⟩

/-! ### the merge iterator without errors -/

/-- `mergeIter` on an error-free base -/
def mergeOk : List (Key × Val) → FMap → List (Key × Val)
  | ps, [] => ps
  | [], (k, s) :: cs => (match s with | some v => [(k, v)] | none => []) ++ mergeOk [] cs
  | (ko, vo) :: ps, (k, s) :: cs =>
    if k = ko then (match s with | some v => [(k, v)] | none => []) ++ mergeOk ps cs
    else if ko < k then (ko, vo) :: mergeOk ps ((k, s) :: cs)
    else (match s with | some v => [(k, v)] | none => []) ++ mergeOk ((ko, vo) :: ps) cs
termination_by ps cs => ps.length + cs.length

theorem emitSlot_map (k : Key) (s : Slot) :
    emitSlot k s = (match s with | some v => [(k, v)] | none => []).map Except.ok := by
  cases s <;> rfl

theorem mergeIter_ok (b : List (Key × Val)) (ov : FMap) :
    mergeIter (b.map .ok) ov = (mergeOk b ov).map .ok := by
  fun_induction mergeOk b ov <;> simp_all [mergeIter, emitSlot_map, List.map_append]
  intro h
  exact absurd h (List.not_lt.mpr (by assumption))

/-! ### what the merge computes -/

def AscK (l : List (Key × Val)) : Prop := l.Pairwise (fun a b => a.1 < b.1)

def emitL (k : Key) (s : Slot) : List (Key × Val) :=
  match s with
  | some v => [(k, v)]
  | none => []

theorem mem_emitL {k : Key} {s : Slot} {x : Key × Val} : x ∈ emitL k s ↔ x.1 = k ∧ s = some x.2 := by
  cases s with
  | none => simp [emitL]
  | some v =>
    simp only [emitL, List.mem_singleton, Option.some.injEq]
    constructor
    · rintro rfl; exact ⟨rfl, rfl⟩
    · rintro ⟨h1, h2⟩; exact Prod.ext h1 h2.symm

theorem mergeOk_nil_right (ps : List (Key × Val)) : mergeOk ps [] = ps := by
  cases ps <;> simp [mergeOk]
theorem mergeOk_nil_left (k : Key) (s : Slot) (cs : FMap) :
    mergeOk [] ((k, s) :: cs) = emitL k s ++ mergeOk [] cs := by
  rw [mergeOk.eq_def]; rfl
theorem mergeOk_eq (vo : Val) (ps : List (Key × Val)) (k : Key) (s : Slot) (cs : FMap) :
    mergeOk ((k, vo) :: ps) ((k, s) :: cs) = emitL k s ++ mergeOk ps cs := by
  rw [mergeOk.eq_def]; simp only [if_pos rfl]; rfl
theorem mergeOk_lt {ko k : Key} (vo : Val) (ps : List (Key × Val)) (s : Slot) (cs : FMap)
    (h1 : ¬ k = ko) (h2 : ko < k) :
    mergeOk ((ko, vo) :: ps) ((k, s) :: cs) = (ko, vo) :: mergeOk ps ((k, s) :: cs) := by
  rw [mergeOk.eq_def]; simp only [if_neg h1, if_pos h2]
theorem mergeOk_gt {ko k : Key} (vo : Val) (ps : List (Key × Val)) (s : Slot) (cs : FMap)
    (h1 : ¬ k = ko) (h2 : ¬ ko < k) :
    mergeOk ((ko, vo) :: ps) ((k, s) :: cs) = emitL k s ++ mergeOk ((ko, vo) :: ps) cs := by
  rw [mergeOk.eq_def]; simp only [if_neg h1, if_neg h2]; rfl

/-- every item of the merge comes from one of the inputs -/
theorem mem_mergeOk {b : List (Key × Val)} {ov : FMap} {x : Key × Val} (h : x ∈ mergeOk b ov) :
    x ∈ b ∨ (x.1, some x.2) ∈ ov := by
  induction b, ov using mergeOk.induct with
  | case1 ps => rw [mergeOk_nil_right] at h; exact Or.inl h
  | case2 k s cs ih =>
    rw [mergeOk_nil_left, List.mem_append, mem_emitL] at h
    rcases h with ⟨h1, h2⟩ | h
    · exact Or.inr (by rw [h1, ← h2]; exact List.mem_cons_self)
    · rcases ih h with h | h
      · exact Or.inl h
      · exact Or.inr (List.mem_cons_of_mem _ h)
  | case3 vo ps k s cs ih =>
    rw [mergeOk_eq, List.mem_append, mem_emitL] at h
    rcases h with ⟨h1, h2⟩ | h
    · exact Or.inr (by rw [h1, ← h2]; exact List.mem_cons_self)
    · rcases ih h with h | h
      · exact Or.inl (List.mem_cons_of_mem _ h)
      · exact Or.inr (List.mem_cons_of_mem _ h)
  | case4 ko vo ps k s cs h1 h2 ih =>
    rw [mergeOk_lt vo ps s cs h1 h2, List.mem_cons] at h
    rcases h with h | h
    · exact Or.inl (h ▸ List.mem_cons_self)
    · rcases ih h with h | h
      · exact Or.inl (List.mem_cons_of_mem _ h)
      · exact Or.inr h
  | case5 ko vo ps k s cs h1 h2 ih =>
    rw [mergeOk_gt vo ps s cs h1 h2, List.mem_append, mem_emitL] at h
    rcases h with ⟨h1, h2⟩ | h
    · exact Or.inr (by rw [h1, ← h2]; exact List.mem_cons_self)
    · rcases ih h with h | h
      · exact Or.inl h
      · exact Or.inr (List.mem_cons_of_mem _ h)

theorem asc_cons {x : Key × Val} {l : List (Key × Val)} :
    AscK (x :: l) ↔ (∀ y ∈ l, x.1 < y.1) ∧ AscK l := List.pairwise_cons

theorem asc_emitL_append {k : Key} {s : Slot} {l : List (Key × Val)} (hl : AscK l)
    (hlt : ∀ y ∈ l, k < y.1) : AscK (emitL k s ++ l) := by
  cases s with
  | none => exact hl
  | some v => exact asc_cons.mpr ⟨hlt, hl⟩

/-- the merge is strictly ascending when both inputs are -/
theorem asc_mergeOk {b : List (Key × Val)} {ov : FMap} (hb : AscK b) (ho : Sorted ov) :
    AscK (mergeOk b ov) := by
  induction b, ov using mergeOk.induct with
  | case1 ps => rw [mergeOk_nil_right]; exact hb
  | case2 k s cs ih =>
    obtain ⟨o1, o2⟩ := sorted_cons.mp ho
    rw [mergeOk_nil_left]
    refine asc_emitL_append (ih hb o2) (fun y hy => ?_)
    rcases mem_mergeOk hy with h | h
    · cases h
    · exact o1 _ h
  | case3 vo ps k s cs ih =>
    obtain ⟨o1, o2⟩ := sorted_cons.mp ho
    obtain ⟨b1, b2⟩ := asc_cons.mp hb
    rw [mergeOk_eq]
    refine asc_emitL_append (ih b2 o2) (fun y hy => ?_)
    rcases mem_mergeOk hy with h | h
    · exact b1 _ h
    · exact o1 _ h
  | case4 ko vo ps k s cs h1 h2 ih =>
    obtain ⟨o1, _⟩ := sorted_cons.mp ho
    obtain ⟨b1, b2⟩ := asc_cons.mp hb
    rw [mergeOk_lt vo ps s cs h1 h2]
    refine asc_cons.mpr ⟨fun y hy => ?_, ih b2 ho⟩
    rcases mem_mergeOk hy with h | h
    · exact b1 _ h
    · rcases List.mem_cons.mp h with h | h
      · have : y.1 = k := congrArg Prod.fst h
        rw [this]; exact h2
      · exact Key.lt_trans h2 (o1 _ h)
  | case5 ko vo ps k s cs h1 h2 ih =>
    obtain ⟨o1, o2⟩ := sorted_cons.mp ho
    obtain ⟨b1, _⟩ := asc_cons.mp hb
    have hk : k < ko := Key.lt_of_not_lt_of_ne h2 (Ne.symm h1)
    rw [mergeOk_gt vo ps s cs h1 h2]
    refine asc_emitL_append (ih hb o2) (fun y hy => ?_)
    rcases mem_mergeOk hy with h | h
    · rcases List.mem_cons.mp h with h | h
      · rw [h]; exact hk
      · exact Key.lt_trans hk (b1 _ h)
    · exact o1 _ h

theorem not_mem_of_lt_all {l : List (Key × Val)} {k : Key} (h : ∀ y ∈ l, k < y.1) (v : Val) :
    (k, v) ∉ l := fun hm => Key.lt_irrefl k (h _ hm)

/-- exactly the overlay's live entries, plus the base entries the overlay does not mention -/
theorem mem_mergeOk_iff {b : List (Key × Val)} {ov : FMap} (hb : AscK b) (ho : Sorted ov)
    (k' : Key) (v' : Val) :
    (k', v') ∈ mergeOk b ov ↔
      (ov.get k' = some (some v') ∨ (ov.get k' = none ∧ (k', v') ∈ b)) := by
  induction b, ov using mergeOk.induct with
  | case1 ps => rw [mergeOk_nil_right]; simp [FMap.get]
  | case2 k s cs ih =>
    obtain ⟨o1, o2⟩ := sorted_cons.mp ho
    have hnone : FMap.get cs k = none := get_none_of_lt_all o1
    rw [mergeOk_nil_left, List.mem_append, mem_emitL, ih hb o2, get_cons]
    by_cases hk : k' = k
    · subst hk
      simp [hnone]
    · simp [hk]
  | case3 vo ps k s cs ih =>
    obtain ⟨o1, o2⟩ := sorted_cons.mp ho
    obtain ⟨b1, b2⟩ := asc_cons.mp hb
    have hnone : FMap.get cs k = none := get_none_of_lt_all o1
    rw [mergeOk_eq, List.mem_append, mem_emitL, ih b2 o2, get_cons]
    by_cases hk : k' = k
    · subst hk
      have := not_mem_of_lt_all b1 v'
      simp [hnone, this]
    · simp [hk]
  | case4 ko vo ps k s cs h1 h2 ih =>
    obtain ⟨o1, _⟩ := sorted_cons.mp ho
    obtain ⟨b1, b2⟩ := asc_cons.mp hb
    have hnone : FMap.get ((k, s) :: cs) ko = none := by
      apply get_none_of_lt_all
      intro x hx
      rcases List.mem_cons.mp hx with rfl | hx
      · exact h2
      · exact Key.lt_trans h2 (o1 _ hx)
    rw [mergeOk_lt vo ps s cs h1 h2, List.mem_cons, ih b2 ho, List.mem_cons]
    constructor
    · rintro (h | h | ⟨h, h'⟩)
      · cases h
        exact Or.inr ⟨hnone, Or.inl rfl⟩
      · exact Or.inl h
      · exact Or.inr ⟨h, Or.inr h'⟩
    · rintro (h | ⟨h, h' | h'⟩)
      · exact Or.inr (Or.inl h)
      · exact Or.inl h'
      · exact Or.inr (Or.inr ⟨h, h'⟩)
  | case5 ko vo ps k s cs h1 h2 ih =>
    obtain ⟨o1, o2⟩ := sorted_cons.mp ho
    obtain ⟨b1, _⟩ := asc_cons.mp hb
    have hk : k < ko := Key.lt_of_not_lt_of_ne h2 (Ne.symm h1)
    have hnone : FMap.get cs k = none := get_none_of_lt_all o1
    have hnb : ∀ v, (k, v) ∉ (ko, vo) :: ps := fun v hm => by
      rcases List.mem_cons.mp hm with h | h
      · have hkk : k = ko := congrArg Prod.fst h
        exact h1 hkk
      · exact Key.lt_irrefl k (Key.lt_trans hk (b1 _ h))
    rw [mergeOk_gt vo ps s cs h1 h2, List.mem_append, mem_emitL, ih hb o2, get_cons]
    by_cases hkk : k' = k
    · subst hkk
      simp [hnone, hnb v']
    · simp [hkk]

/-! ### errors of the base iterator pass through, in place -/

def okItems (l : List Item) : List (Key × Val) :=
  l.filterMap fun | .ok x => some x | .error _ => none

def errCount (l : List Item) : Nat := (l.filter fun | .ok _ => false | .error _ => true).length

theorem okItems_emitSlot (k : Key) (s : Slot) : okItems (emitSlot k s) = emitL k s := by
  cases s <;> rfl
theorem errCount_emitSlot (k : Key) (s : Slot) : errCount (emitSlot k s) = 0 := by
  cases s <;> rfl
theorem okItems_append (a b : List Item) : okItems (a ++ b) = okItems a ++ okItems b := by
  unfold okItems; rw [List.filterMap_append]
theorem errCount_append (a b : List Item) : errCount (a ++ b) = errCount a + errCount b := by
  unfold errCount; rw [List.filter_append, List.length_append]
theorem okItems_ok (x : Key × Val) (l : List Item) : okItems (.ok x :: l) = x :: okItems l := rfl
theorem okItems_err (e : Unit) (l : List Item) : okItems (.error e :: l) = okItems l := rfl
theorem errCount_ok (x : Key × Val) (l : List Item) : errCount (.ok x :: l) = errCount l := rfl
theorem errCount_err (e : Unit) (l : List Item) : errCount (.error e :: l) = errCount l + 1 := rfl

/-- with errors in the base: the successful items are the merge of the base's successful
items, and every base error is yielded (none invented, none lost) -/
theorem mergeIter_errors (ps : List Item) (ov : FMap) :
    okItems (mergeIter ps ov) = mergeOk (okItems ps) ov ∧ errCount (mergeIter ps ov) = errCount ps := by
  induction ps, ov using mergeIter.induct with
  | case1 ps => rw [mergeIter.eq_def, mergeOk_nil_right]; cases ps <;> simp
  | case2 k s cs ih =>
    rw [mergeIter.eq_def]
    simp only
    rw [okItems_append, errCount_append, okItems_emitSlot, errCount_emitSlot, ih.1, ih.2]
    exact ⟨(mergeOk_nil_left k s cs).symm, by simp [errCount]⟩
  | case3 e ps c cs ih =>
    rw [mergeIter.eq_def]
    simp only
    rw [okItems_err, errCount_err, okItems_err, errCount_err, ih.1, ih.2]
    exact ⟨rfl, rfl⟩
  | case4 vo ps k s cs ih =>
    rw [mergeIter.eq_def]
    simp only [if_true]
    rw [okItems_append, errCount_append, okItems_emitSlot, errCount_emitSlot, ih.1, ih.2,
      okItems_ok, errCount_ok, mergeOk_eq]
    exact ⟨rfl, by omega⟩
  | case5 ko vo ps k s cs h1 h2 ih =>
    rw [mergeIter.eq_def]
    simp only [if_neg h1, if_pos h2]
    rw [okItems_ok, errCount_ok, ih.1, ih.2, okItems_ok, errCount_ok, mergeOk_lt vo _ s cs h1 h2]
    exact ⟨rfl, rfl⟩
  | case6 ko vo ps k s cs h1 h2 ih =>
    rw [mergeIter.eq_def]
    simp only [if_neg h1, if_neg h2]
    rw [okItems_append, errCount_append, okItems_emitSlot, errCount_emitSlot, ih.1, ih.2,
      okItems_ok, errCount_ok, mergeOk_gt vo _ s cs h1 h2]
    exact ⟨rfl, by omega⟩

end AranyaV.Facts
