import AranyaV.Proofs.Facts
/-!
The abstraction map of the fact-storage model and the lemmas behind the C12 theorems:
what a chain / perspective *means* as a flat map (`abs`), how each operation changes that
meaning, compaction, `write_facts_with_prior`, depth bookkeeping.
-/
namespace AranyaV.Facts

/-- the flat map: a key is bound to a value or absent -/
abbrev Flat := Key → Option Val

/-- a found slot (possibly a tombstone) or nothing, flattened to present / absent -/
def flat : Option Slot → Option Val
  | some s => s
  | none => none

/-- `S[k ↦ o]` -/
def update (S : Flat) (k : Key) (o : Option Val) : Flat := fun k' => if k' = k then o else S k'

/-- replay of an update log on a flat map -/
def replay (S : Flat) (us : List Update) : Flat := us.foldl (fun S u => update S u.1 u.2) S

/-- the newest slot of a chain that mentions the key -/
def Chain.slot : Chain → Key → Option Slot
  | [], _ => none
  | l :: r, k =>
    match l.facts.get k with
    | some s => some s
    | none => Chain.slot r k

/-- **abstraction map** of a fact index -/
def Chain.abs (c : Chain) : Flat := fun k => flat (c.slot k)

def FP.priorSlot : FP → Key → Option Slot
  | .overNone _, _ => none
  | .overIndex _ c, k => c.slot k
  | .overPersp m p, k =>
    match p.map.get k with
    | some s => some s
    | none => p.priorSlot k

def FP.slot (f : FP) (k : Key) : Option Slot :=
  match f.map.get k with
  | some s => some s
  | none => f.priorSlot k

/-- **abstraction map** of a fact perspective -/
def FP.abs (f : FP) : Flat := fun k => flat (f.slot k)

/-- what the perspective's prior alone means -/
def FP.priorAbs (f : FP) : Flat := fun k => flat (f.priorSlot k)

def Chain.WF (c : Chain) : Prop := ∀ l ∈ c, Sorted l.facts

def FP.WF : FP → Prop
  | .overNone m => Sorted m
  | .overIndex m c => Sorted m ∧ c.WF
  | .overPersp m p => Sorted m ∧ p.WF

/-- depth bookkeeping: each layer records the length of the chain from it on, within the limit -/
def DepthOK (D : Nat) : Chain → Prop
  | [] => True
  | l :: r => l.depth = r.length + 1 ∧ l.depth ≤ D ∧ DepthOK D r

def FP.DepthOK (D : Nat) : FP → Prop
  | .overNone _ => True
  | .overIndex _ c => Facts.DepthOK D c
  | .overPersp _ p => p.DepthOK D

/-! ### small structural facts -/

@[simp] theorem FP.map_withMap (f : FP) (m : FMap) : (f.withMap m).map = m := by cases f <;> rfl
@[simp] theorem FP.priorSlot_withMap (f : FP) (m : FMap) : (f.withMap m).priorSlot = f.priorSlot := by
  cases f <;> rfl
@[simp] theorem FP.priorIsNone_withMap (f : FP) (m : FMap) :
    (f.withMap m).priorIsNone = f.priorIsNone := by cases f <;> rfl
@[simp] theorem FP.withMap_withMap (f : FP) (m m' : FMap) : (f.withMap m).withMap m' = f.withMap m' := by
  cases f <;> rfl
@[simp] theorem FP.withMap_map (f : FP) : f.withMap f.map = f := by cases f <;> rfl

theorem FP.WF_map {f : FP} (h : f.WF) : Sorted f.map := by
  cases f with
  | overNone m => exact h
  | overIndex m c => exact h.1
  | overPersp m p => exact h.1

theorem FP.WF_withMap {f : FP} (h : f.WF) {m : FMap} (hm : Sorted m) : (f.withMap m).WF := by
  cases f with
  | overNone _ => exact hm
  | overIndex _ c => exact ⟨hm, h.2⟩
  | overPersp _ p => exact ⟨hm, h.2⟩

theorem FP.priorSlot_none_of_priorIsNone {f : FP} (h : f.priorIsNone = true) (k : Key) :
    f.priorSlot k = none := by
  cases f <;> simp_all [FP.priorIsNone, FP.priorSlot]

theorem FP.priorSlot_overPersp (m : FMap) (p : FP) (k : Key) :
    (FP.overPersp m p).priorSlot k = p.slot k := rfl

theorem match_some_id {α : Type} (o : Option α) :
    (match o with | some s => some s | none => none) = o := by cases o <;> rfl

theorem Chain.slot_cons (l : Layer) (r : Chain) (k : Key) :
    Chain.slot (l :: r) k = match l.facts.get k with | some s => some s | none => Chain.slot r k := rfl

theorem Chain.slot_nil (k : Key) : Chain.slot [] k = none := rfl

/-! ### queries compute the abstraction -/

theorem Chain.query_eq_abs (c : Chain) (k : Key) : c.query k = c.abs k := by
  induction c with
  | nil => rfl
  | cons l r ih =>
    unfold Chain.query Chain.abs Chain.slot
    cases l.facts.get k with
    | some s => rfl
    | none => exact ih

theorem FP.query_eq_abs (f : FP) (k : Key) : f.query k = f.abs k := by
  induction f with
  | overNone m =>
    unfold FP.query FP.abs FP.slot
    simp only [FP.map, FP.priorSlot]
    cases m.get k <;> rfl
  | overIndex m c =>
    unfold FP.query FP.abs FP.slot
    simp only [FP.map, FP.priorSlot]
    cases m.get k with
    | some s => rfl
    | none => exact Chain.query_eq_abs c k
  | overPersp m p ih =>
    unfold FP.query
    show _ = flat ((FP.overPersp m p).slot k)
    unfold FP.slot
    simp only [FP.map]
    cases m.get k with
    | some s => rfl
    | none => exact ih

/-! ### prefix scans -/

theorem Chain.get_prefixInner {c : Chain} (hc : c.WF) (p : Key) (acc : FMap) (k : Key) :
    (c.prefixInner p acc).get k =
      match acc.get k with
      | some x => some x
      | none => if p.isPrefixOf k then c.slot k else none := by
  induction c generalizing acc with
  | nil =>
    unfold Chain.prefixInner
    rw [Chain.slot_nil]
    cases acc.get k <;> simp
  | cons l r ih =>
    have hl : Sorted l.facts := hc l List.mem_cons_self
    have hr : Chain.WF r := fun x hx => hc x (List.mem_cons_of_mem _ hx)
    unfold Chain.prefixInner
    rw [ih hr, get_foldl_orInsert, get_findPrefixes hl, Chain.slot_cons]
    cases acc.get k with
    | some x => rfl
    | none =>
      by_cases hp : p.isPrefixOf k = true
      · simp only [hp, if_true]
      · simp [hp]

theorem Chain.sorted_prefixInner (c : Chain) (p : Key) {acc : FMap} (hs : Sorted acc) :
    Sorted (c.prefixInner p acc) := by
  induction c generalizing acc with
  | nil => exact hs
  | cons l r ih =>
    unfold Chain.prefixInner
    exact ih (sorted_foldl_orInsert _ hs)

theorem FP.get_prefixInner {f : FP} (hf : f.WF) (p k : Key) :
    (f.prefixInner p).get k = if p.isPrefixOf k then f.slot k else none := by
  induction f with
  | overNone m =>
    have hm : Sorted m := hf
    unfold FP.prefixInner FP.slot
    rw [get_foldl_insert (sorted_findPrefixes hm p), get_findPrefixes hm]
    simp only [FP.map, FP.priorSlot]
    by_cases hp : p.isPrefixOf k = true
    · simp only [hp, if_true]; cases m.get k <;> rfl
    · simp [hp, FMap.get]
  | overIndex m c =>
    obtain ⟨hm, hc⟩ := hf
    unfold FP.prefixInner FP.slot
    rw [get_foldl_insert (sorted_findPrefixes hm p), get_findPrefixes hm, Chain.get_prefixInner hc]
    simp only [FP.map, FP.priorSlot, FMap.get]
    by_cases hp : p.isPrefixOf k = true
    · simp only [hp, if_true]
      cases m.get k <;> rfl
    · simp [hp]
  | overPersp m q ih =>
    obtain ⟨hm, hq⟩ := hf
    unfold FP.prefixInner
    rw [get_foldl_insert (sorted_findPrefixes hm p), get_findPrefixes hm, ih hq]
    show _ = if p.isPrefixOf k then (FP.overPersp m q).slot k else none
    unfold FP.slot
    simp only [FP.map, FP.priorSlot_overPersp]
    by_cases hp : p.isPrefixOf k = true
    · simp only [hp, if_true]; rfl
    · simp [hp]

theorem FP.sorted_prefixInner {f : FP} (p : Key) : Sorted (f.prefixInner p) := by
  cases f with
  | overNone m => exact sorted_foldl_insert _ Sorted.nil
  | overIndex m c => exact sorted_foldl_insert _ (Chain.sorted_prefixInner c p Sorted.nil)
  | overPersp m q =>
    unfold FP.prefixInner
    exact sorted_foldl_insert _ (FP.sorted_prefixInner (f := q) p)

/-! ### updates -/

theorem FP.slot_withMap (f : FP) (m : FMap) (k : Key) :
    (f.withMap m).slot k = match m.get k with | some s => some s | none => f.priorSlot k := by
  unfold FP.slot
  simp

theorem FP.abs_insert (f : FP) (k : Key) (v : Val) : (f.insert k v).abs = update f.abs k (some v) := by
  funext k'
  unfold FP.insert FP.abs update
  rw [FP.slot_withMap, get_insert]
  by_cases h : k' = k
  · simp [h, flat]
  · simp only [h, if_false]; rfl

theorem FP.abs_delete (f : FP) (k : Key) : (f.delete k).abs = update f.abs k none := by
  funext k'
  unfold FP.delete FP.abs update
  by_cases hp : f.priorIsNone = true
  · rw [if_pos hp, FP.slot_withMap, get_remove, FP.priorSlot_none_of_priorIsNone hp]
    by_cases h : k' = k
    · simp [h, flat]
    · simp only [h, if_false]
      unfold FP.slot
      rw [FP.priorSlot_none_of_priorIsNone hp]
  · rw [if_neg hp, FP.slot_withMap, get_insert]
    by_cases h : k' = k
    · simp [h, flat]
    · simp only [h, if_false]; rfl

theorem FP.applyUpdate_eq (f : FP) (u : Update) :
    f.applyUpdate u = match u.2 with | some v => f.insert u.1 v | none => f.delete u.1 := by
  unfold FP.applyUpdate FP.insert FP.delete
  by_cases hp : f.priorIsNone = true
  · rw [if_pos hp]; cases u.2 <;> simp [hp]
  · rw [if_neg hp]; cases u.2 <;> simp [hp]

theorem FP.abs_applyUpdate (f : FP) (u : Update) : (f.applyUpdate u).abs = update f.abs u.1 u.2 := by
  rw [FP.applyUpdate_eq]
  cases h : u.2 with
  | some v => exact FP.abs_insert f u.1 v
  | none => exact FP.abs_delete f u.1

theorem FP.abs_applyUpdates (f : FP) (us : List Update) : (f.applyUpdates us).abs = replay f.abs us := by
  unfold FP.applyUpdates replay
  induction us generalizing f with
  | nil => rfl
  | cons u r ih => rw [List.foldl_cons, List.foldl_cons, ih, FP.abs_applyUpdate]

theorem FP.WF_insert {f : FP} (h : f.WF) (k : Key) (v : Val) : (f.insert k v).WF :=
  FP.WF_withMap h (sorted_insert (FP.WF_map h) _ _)

theorem FP.WF_delete {f : FP} (h : f.WF) (k : Key) : (f.delete k).WF := by
  unfold FP.delete
  split
  · exact FP.WF_withMap h (sorted_remove (FP.WF_map h) _)
  · exact FP.WF_withMap h (sorted_insert (FP.WF_map h) _ _)

theorem FP.WF_applyUpdate {f : FP} (h : f.WF) (u : Update) : (f.applyUpdate u).WF := by
  rw [FP.applyUpdate_eq]
  cases u.2 with
  | some v => exact FP.WF_insert h _ _
  | none => exact FP.WF_delete h _

theorem FP.WF_applyUpdates {f : FP} (h : f.WF) (us : List Update) : (f.applyUpdates us).WF := by
  unfold FP.applyUpdates
  induction us generalizing f with
  | nil => exact h
  | cons u r ih => exact ih (FP.WF_applyUpdate h u)

theorem FP.priorSlot_insert (f : FP) (k : Key) (v : Val) : (f.insert k v).priorSlot = f.priorSlot := by
  unfold FP.insert; simp
theorem FP.priorSlot_delete (f : FP) (k : Key) : (f.delete k).priorSlot = f.priorSlot := by
  unfold FP.delete; split <;> simp
theorem FP.priorSlot_applyUpdate (f : FP) (u : Update) : (f.applyUpdate u).priorSlot = f.priorSlot := by
  rw [FP.applyUpdate_eq]
  cases u.2 with
  | some v => exact FP.priorSlot_insert f _ _
  | none => exact FP.priorSlot_delete f _
theorem FP.priorSlot_applyUpdates (f : FP) (us : List Update) :
    (f.applyUpdates us).priorSlot = f.priorSlot := by
  unfold FP.applyUpdates
  induction us generalizing f with
  | nil => rfl
  | cons u r ih => rw [List.foldl_cons, ih, FP.priorSlot_applyUpdate]

/-! ### compaction -/

theorem get_compactMap (c : Chain) (acc : FMap) (k : Key) :
    (compactMap c acc).get k =
      match acc.get k with
      | some x => some x
      | none => c.slot k := by
  induction c generalizing acc with
  | nil => unfold compactMap; rw [Chain.slot_nil]; cases acc.get k <;> rfl
  | cons l r ih =>
    unfold compactMap mergeOlder
    rw [ih, get_foldl_orInsert, Chain.slot_cons]
    cases acc.get k with
    | some x => rfl
    | none => cases l.facts.get k <;> rfl

theorem sorted_compactMap (c : Chain) {acc : FMap} (hs : Sorted acc) : Sorted (compactMap c acc) := by
  induction c generalizing acc with
  | nil => exact hs
  | cons l r ih => exact ih (sorted_foldl_orInsert _ hs)

theorem get_filter_sorted {m : FMap} (hs : Sorted m) (f : Key × Slot → Bool) (k : Key) :
    FMap.get (m.filter f) k =
      match m.get k with
      | some s => if f (k, s) then some s else none
      | none => none := by
  cases h : m.get k with
  | some s =>
    simp only
    by_cases hf : f (k, s) = true
    · rw [if_pos hf]
      exact get_of_mem (sorted_filter hs f) (List.mem_filter.mpr ⟨mem_of_get h, hf⟩)
    · rw [if_neg hf]
      cases h' : FMap.get (m.filter f) k with
      | none => rfl
      | some s' =>
        have hm := List.mem_filter.mp (mem_of_get h')
        have := get_of_mem hs hm.1
        rw [h] at this
        cases this
        exact absurd hm.2 hf
  | none =>
    simp only
    cases h' : FMap.get (m.filter f) k with
    | none => rfl
    | some s' =>
      have hm := List.mem_filter.mp (mem_of_get h')
      have := get_of_mem hs hm.1
      rw [h] at this
      cases this

theorem appendIndex_ok {D : Nat} {prior : Chain} {map : FMap} {c : Chain}
    (h : appendIndex D prior map = .ok c) :
    c = ⟨map, headDepth prior + 1⟩ :: prior ∧ headDepth prior + 1 ≤ D := by
  unfold appendIndex at h
  simp only at h
  split at h
  · cases h
  · cases h
    exact ⟨rfl, by omega⟩

theorem appendIndex_of_le {D : Nat} {prior : Chain} (map : FMap) (h : headDepth prior + 1 ≤ D) :
    appendIndex D prior map = .ok (⟨map, headDepth prior + 1⟩ :: prior) := by
  unfold appendIndex
  simp only
  rw [if_neg (by omega)]

theorem compact_ok {D : Nat} {c c' : Chain} (h : compact D c = .ok c') :
    c' = [⟨dropTombs (compactMap c []), 1⟩] := by
  unfold compact at h
  exact (appendIndex_ok h).1

theorem headDepth_le_of_DepthOK {D : Nat} {c : Chain} (h : DepthOK D c) : headDepth c ≤ D := by
  cases c with
  | nil => exact Nat.zero_le _
  | cons l r => exact h.2.1

/-- compaction keeps the meaning, leaves a single layer without tombstones -/
theorem compact_abs {D : Nat} {c c' : Chain} (hc : c.WF) (h : compact D c = .ok c') :
    c'.abs = c.abs ∧ c'.WF ∧ (∀ k, c'.slot k ≠ some none) ∧ (1 ≤ D → DepthOK D c') := by
  have hs : Sorted (compactMap c []) := sorted_compactMap c Sorted.nil
  rw [compact_ok h]
  have hslot : ∀ k, Chain.slot [⟨dropTombs (compactMap c []), 1⟩] k =
      match c.slot k with
      | some (some v) => some (some v)
      | _ => none := by
    intro k
    rw [Chain.slot_cons, Chain.slot_nil]
    show (match FMap.get (List.filter (fun e => e.2.isSome) (compactMap c [])) k with
      | some s => some s | none => none) = _
    rw [get_filter_sorted hs, get_compactMap]
    simp only [FMap.get]
    cases c.slot k with
    | none => rfl
    | some s => cases s <;> rfl
  refine ⟨?_, ?_, ?_, ?_⟩
  · funext k
    unfold Chain.abs
    rw [hslot]
    cases c.slot k with
    | none => rfl
    | some s => cases s <;> rfl
  · intro l hl
    rw [List.mem_singleton] at hl
    subst hl
    exact sorted_filter hs _
  · intro k
    rw [hslot]
    cases c.slot k with
    | none => simp
    | some s => cases s <;> simp
  · intro hD
    exact ⟨rfl, hD, trivial⟩

/-! ### `write_facts_with_prior` -/

theorem Chain.abs_cons (l : Layer) (r : Chain) (k : Key) :
    Chain.abs (l :: r) k = match l.facts.get k with | some s => s | none => Chain.abs r k := by
  unfold Chain.abs
  rw [Chain.slot_cons]
  cases l.facts.get k <;> rfl

theorem Chain.WF_cons {l : Layer} {r : Chain} : Chain.WF (l :: r) ↔ Sorted l.facts ∧ Chain.WF r := by
  unfold Chain.WF
  simp

/-- the result of `finish`: a new layer holding `map` over a prior with the same meaning -/
theorem finish_ok {D : Nat} {prior : Chain} {map : FMap} {c : Chain} {pf : Option Chain}
    (h : finish D prior map = .ok (c, pf)) (hw : prior.WF) :
    ∃ p' : Chain, c = ⟨map, headDepth p' + 1⟩ :: p' ∧ headDepth p' + 1 ≤ D ∧ p'.abs = prior.abs ∧
      p'.WF ∧ (DepthOK D prior → DepthOK D p') ∧
      ((prior = [] ∧ p' = [] ∧ pf = none) ∨ (prior ≠ [] ∧ pf = some p')) := by
  cases prior with
  | nil =>
    unfold finish at h
    cases ha : appendIndex D [] map with
    | error e => rw [ha] at h; cases h
    | ok c0 =>
      rw [ha] at h
      cases h
      obtain ⟨h1, h2⟩ := appendIndex_ok ha
      exact ⟨[], h1, h2, rfl, hw, id, Or.inl ⟨rfl, rfl, rfl⟩⟩
  | cons l r =>
    unfold finish at h
    simp only at h
    by_cases hd : headDepth (l :: r) > D - 1
    · rw [if_pos hd] at h
      cases hc : compact D (l :: r) with
      | error e => rw [hc] at h; cases h
      | ok p' =>
        rw [hc] at h
        simp only at h
        cases ha : appendIndex D p' map with
        | error e => rw [ha] at h; cases h
        | ok c0 =>
          rw [ha] at h
          cases h
          obtain ⟨h1, h2⟩ := appendIndex_ok ha
          obtain ⟨c1, c2, _, c4⟩ := compact_abs hw hc
          refine ⟨p', h1, h2, c1, c2, fun _ => c4 ?_, Or.inr ⟨by simp, rfl⟩⟩
          have := compact_ok hc
          subst this
          simp [headDepth] at h2
          omega
    · rw [if_neg hd] at h
      simp only at h
      cases ha : appendIndex D (l :: r) map with
      | error e => rw [ha] at h; cases h
      | ok c0 =>
        rw [ha] at h
        cases h
        obtain ⟨h1, h2⟩ := appendIndex_ok ha
        exact ⟨l :: r, h1, h2, rfl, hw, id, Or.inr ⟨by simp, rfl⟩⟩

/-- with a limit of at least 2 and consistent depth bookkeeping `finish` cannot hit the
`fact index too deep` bug -/
theorem finish_total {D : Nat} (hD : 2 ≤ D) {prior : Chain} (hp : DepthOK D prior) (map : FMap) :
    ∃ r, finish D prior map = .ok r := by
  cases prior with
  | nil =>
    unfold finish
    rw [appendIndex_of_le map (by simp [headDepth]; omega)]
    exact ⟨_, rfl⟩
  | cons l r =>
    unfold finish
    simp only
    by_cases hd : headDepth (l :: r) > D - 1
    · rw [if_pos hd]
      unfold compact
      rw [appendIndex_of_le _ (by simp [headDepth]; omega)]
      simp only
      rw [appendIndex_of_le map (by simp [headDepth]; omega)]
      exact ⟨_, rfl⟩
    · rw [if_neg hd]
      simp only
      rw [appendIndex_of_le map (by omega)]
      exact ⟨_, rfl⟩

theorem isEmpty_eq_nil {m : FMap} (h : m.isEmpty = true) : m = [] := List.isEmpty_iff.mp h

theorem DepthOK_cons_of {D : Nat} {p' : Chain} {map : FMap} (h : DepthOK D p')
    (hle : headDepth p' + 1 ≤ D) : DepthOK D (⟨map, headDepth p' + 1⟩ :: p') := by
  refine ⟨?_, hle, h⟩
  cases p' with
  | nil => rfl
  | cons l r =>
    show l.depth + 1 = (l :: r).length + 1
    rw [h.1]
    rfl

/-- meaning of the recorded `prior_facts` offset (`None` = no prior) -/
def pfAbs : Option Chain → Flat
  | none => fun _ => none
  | some q => q.abs
def pfWF : Option Chain → Prop
  | none => True
  | some q => q.WF
def pfDepthOK (D : Nat) : Option Chain → Prop
  | none => True
  | some q => DepthOK D q

/-- meaning of the index and of the recorded `prior_facts` written for a perspective -/
theorem writeFP_ok {D : Nat} {f : FP} (hf : f.WF) {c : Chain} {pf : Option Chain}
    (h : writeFP D f = .ok (c, pf)) :
    c.WF ∧ c.abs = f.abs ∧ pfAbs pf = f.priorAbs ∧ pfWF pf ∧
      (f.DepthOK D → DepthOK D c ∧ pfDepthOK D pf) := by
  induction f generalizing c pf with
  | overNone m =>
    unfold writeFP at h
    obtain ⟨p', h1, h2, h3, h4, h5, h6⟩ := finish_ok h (fun _ hl => by cases hl)
    rcases h6 with ⟨_, hp', hpf⟩ | ⟨hne, _⟩
    · subst hp' hpf h1
      refine ⟨Chain.WF_cons.mpr ⟨hf, h4⟩, ?_, rfl, trivial, fun _ => ⟨DepthOK_cons_of trivial h2, trivial⟩⟩
      funext k
      rw [Chain.abs_cons]
      unfold FP.abs FP.slot
      simp only [FP.map, FP.priorSlot]
      cases m.get k <;> rfl
    · exact absurd rfl hne
  | overIndex m c0 =>
    obtain ⟨hm, hc0⟩ := hf
    unfold writeFP at h
    by_cases he : m.isEmpty = true
    · rw [if_pos he] at h
      cases h
      have := isEmpty_eq_nil he
      subst this
      refine ⟨hc0, ?_, rfl, hc0, fun hd => ⟨hd, hd⟩⟩
      funext k
      rfl
    · rw [if_neg he] at h
      obtain ⟨p', h1, h2, h3, h4, h5, h6⟩ := finish_ok h hc0
      subst h1
      have habs : Chain.abs (⟨m, headDepth p' + 1⟩ :: p') = (FP.overIndex m c0).abs := by
        funext k
        rw [Chain.abs_cons, h3]
        unfold FP.abs FP.slot
        simp only [FP.map, FP.priorSlot]
        cases m.get k <;> rfl
      rcases h6 with ⟨hc, hp', hpf⟩ | ⟨_, hpf⟩
      · subst hc hp' hpf
        exact ⟨Chain.WF_cons.mpr ⟨hm, h4⟩, habs, rfl, trivial,
          fun hd => ⟨DepthOK_cons_of (h5 hd) h2, trivial⟩⟩
      · subst hpf
        refine ⟨Chain.WF_cons.mpr ⟨hm, h4⟩, habs, ?_, h4, fun hd => ⟨DepthOK_cons_of (h5 hd) h2, h5 hd⟩⟩
        show p'.abs = _
        rw [h3]
        rfl
  | overPersp m q ih =>
    obtain ⟨hm, hq⟩ := hf
    unfold writeFP at h
    cases hw : writeFP D q with
    | error e => rw [hw] at h; cases h
    | ok r =>
      obtain ⟨pc, pf0⟩ := r
      rw [hw] at h
      simp only at h
      obtain ⟨i1, i2, _, _, i5⟩ := ih hq hw
      have hprior : pc.abs = (FP.overPersp m q).priorAbs := by
        rw [i2]; rfl
      by_cases he : m.isEmpty = true
      · rw [if_pos he] at h
        cases h
        have := isEmpty_eq_nil he
        subst this
        refine ⟨i1, ?_, hprior, i1, fun hd => ⟨(i5 hd).1, (i5 hd).1⟩⟩
        rw [i2]
        funext k
        rfl
      · rw [if_neg he] at h
        obtain ⟨p', h1, h2, h3, h4, h5, h6⟩ := finish_ok h i1
        subst h1
        have habs : Chain.abs (⟨m, headDepth p' + 1⟩ :: p') = (FP.overPersp m q).abs := by
          funext k
          rw [Chain.abs_cons, h3, i2]
          show _ = flat ((FP.overPersp m q).slot k)
          unfold FP.slot
          simp only [FP.map, FP.priorSlot_overPersp]
          cases m.get k <;> rfl
        rcases h6 with ⟨hc, hp', hpf⟩ | ⟨_, hpf⟩
        · subst hc hp' hpf
          refine ⟨Chain.WF_cons.mpr ⟨hm, h4⟩, habs, ?_, trivial,
            fun hd => ⟨DepthOK_cons_of (h5 (i5 hd).1) h2, trivial⟩⟩
          rw [← hprior]
          rfl
        · subst hpf
          refine ⟨Chain.WF_cons.mpr ⟨hm, h4⟩, habs, ?_, h4,
            fun hd => ⟨DepthOK_cons_of (h5 (i5 hd).1) h2, h5 (i5 hd).1⟩⟩
          show p'.abs = _
          rw [h3]
          exact hprior

theorem writeFP_total {D : Nat} (hD : 2 ≤ D) {f : FP} (hf : f.WF) (hd : f.DepthOK D) :
    ∃ r, writeFP D f = .ok r := by
  induction f with
  | overNone m => exact finish_total hD (prior := []) trivial m
  | overIndex m c =>
    unfold writeFP
    split
    · exact ⟨_, rfl⟩
    · exact finish_total hD hd m
  | overPersp m q ih =>
    obtain ⟨⟨pc, pf0⟩, hw⟩ := ih hf.2 hd
    unfold writeFP
    rw [hw]
    simp only
    split
    · exact ⟨_, rfl⟩
    · exact finish_total hD ((writeFP_ok hf.2 hw).2.2.2.2 hd).1 m

/-! ### decidability (for the concrete examples) -/

instance (m : FMap) : Decidable (Sorted m) := by unfold Sorted; infer_instance
instance (c : Chain) : Decidable c.WF := by unfold Chain.WF; infer_instance
instance decDepthOK (D : Nat) : (c : Chain) → Decidable (DepthOK D c)
  | [] => isTrue trivial
  | l :: r => have := decDepthOK D r; inferInstanceAs (Decidable (l.depth = r.length + 1 ∧ l.depth ≤ D ∧ DepthOK D r))
instance FP.decWF : (f : FP) → Decidable f.WF
  | .overNone m => inferInstanceAs (Decidable (Sorted m))
  | .overIndex m c => inferInstanceAs (Decidable (Sorted m ∧ c.WF))
  | .overPersp m p => have := FP.decWF p; inferInstanceAs (Decidable (Sorted m ∧ p.WF))
instance FP.decDepthOK (D : Nat) : (f : FP) → Decidable (f.DepthOK D)
  | .overNone _ => isTrue trivial
  | .overIndex _ c => inferInstanceAs (Decidable (Facts.DepthOK D c))
  | .overPersp _ p => have := FP.decDepthOK D p; inferInstanceAs (Decidable (p.DepthOK D))

end AranyaV.Facts
