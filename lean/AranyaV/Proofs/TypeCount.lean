import AranyaV.Proofs.TypeExh
/-!
C24 `typecheck_sound`: exhaustiveness by counting for nested literal shapes — `true`/`false`, enum
variants, `None`, `Some(l)`, `Ok(l)`, `Err(l)` — at scrutinee types built from `bool`, enums,
`option[..]`, `result[..]` (possibly with `never` holes left).  `count_sound`: pairwise distinct
literals of type `T` are at most `cardinality T` many, and if they are at least that many every
well-formed value of `T` equals one of them.
-/
namespace AranyaV.Lang
open AranyaV.Gen.Lang

/-- source literal `l` has type `T` (which may fill `never` holes of the literal's own type) and
is lowered to `l'` -/
def LitTy (cx : LCtx) : Ty → Expr → Expr → Prop
  | .bool, .bool b, l' => l' = .bool b
  | .enum e, .enumRef e' var _, l' =>
    e' = e ∧ ∃ q i, cx.enums.find? (·.1 == e) = some q ∧ indexOf? q.2 var = some i ∧ l' = .enumRef e var (Int.ofNat i)
  | .optional _, .none, l' => l' = .none
  | .optional T, .some l, l' => ∃ m, l' = .some m ∧ LitTy cx T l m
  | .result A _, .ok l, l' => ∃ m, l' = .ok m ∧ LitTy cx A l m
  | .result _ B, .err l, l' => ∃ m, l' = .err m ∧ LitTy cx B l m
  | _, _, _ => False

theorem litTy_unique {cx : LCtx} : ∀ (l : Expr) {T : Ty} {a b : Expr}, LitTy cx T l a → LitTy cx T l b → a = b
  | .bool _, T, a, b, ha, hb => by cases T <;> simp only [LitTy] at ha hb; rw [ha, hb]
  | .enumRef _ _ _, T, a, b, ha, hb => by
    cases T <;> simp only [LitTy] at ha hb
    obtain ⟨_, q, i, hq, hi, rfl⟩ := ha
    obtain ⟨_, q2, i2, hq2, hi2, rfl⟩ := hb
    rw [hq] at hq2; cases hq2; rw [hi] at hi2; cases hi2; rfl
  | .none, T, a, b, ha, hb => by cases T <;> simp only [LitTy] at ha hb; rw [ha, hb]
  | .some l, T, a, b, ha, hb => by
    cases T <;> simp only [LitTy] at ha hb
    obtain ⟨m, rfl, hm⟩ := ha; obtain ⟨m2, rfl, hm2⟩ := hb; rw [litTy_unique l hm hm2]
  | .ok l, T, a, b, ha, hb => by
    cases T <;> simp only [LitTy] at ha hb
    obtain ⟨m, rfl, hm⟩ := ha; obtain ⟨m2, rfl, hm2⟩ := hb; rw [litTy_unique l hm hm2]
  | .err l, T, a, b, ha, hb => by
    cases T <;> simp only [LitTy] at ha hb
    obtain ⟨m, rfl, hm⟩ := ha; obtain ⟨m2, rfl, hm2⟩ := hb; rw [litTy_unique l hm hm2]
  | .unit, T, _, _, ha, _ | .int _, T, _, _, ha, _ | .str _, T, _, _, ha, _ | .todo, T, _, _, ha, _
  | .var _, T, _, _, ha, _ | .struct _ _ _, T, _, _, ha, _ | .ite _ _ _, T, _, _, ha, _
  | .call _ _, T, _, _, ha, _ | .ffi _ _ _ _, T, _, _, ha, _ | .ret _, T, _, _, ha, _
  | .and _ _, T, _, _, ha, _ | .or _ _, T, _, _, ha, _ | .coalesce _ _, T, _, _, ha, _
  | .dot _ _, T, _, _, ha, _ | .eq _ _, T, _, _, ha, _ | .ne _ _, T, _, _, ha, _
  | .gt _ _, T, _, _, ha, _ | .lt _ _, T, _, _, ha, _ | .ge _ _, T, _, _, ha, _ | .le _ _, T, _, _, ha, _
  | .not _, T, _, _, ha, _ | .is _ _, T, _, _, ha, _ | .block _ _, T, _, _, ha, _
  | .substruct _ _, T, _, _, ha, _ | .cast _ _, T, _, _, ha, _ | .mtch _ _, T, _, _, ha, _ => by
    cases T <;> simp [LitTy] at ha

/-- `T` is `S` with (some) `never` holes filled in -/
def Ref : Ty → Ty → Prop
  | _, .never => True
  | .optional T, .optional S => Ref T S
  | .result A B, .result C D => Ref A C ∧ Ref B D
  | T, S => T = S

theorem ref_refl : ∀ (T : Ty), Ref T T := by
  intro T
  induction T with
  | optional t ih => simpa [Ref] using ih
  | result a b iha ihb => simp only [Ref]; exact ⟨iha, ihb⟩
  | _ => simp [Ref]

theorem ref_trans : ∀ {A B C : Ty}, Ref A B → Ref B C → Ref A C := by
  intro A
  induction A with
  | optional t ih =>
    intro B C h1 h2
    cases C <;> cases B <;> simp only [Ref] at h1 h2 ⊢ <;> try simp_all
    all_goals first | exact ih h1 h2 | skip
  | result a b iha ihb =>
    intro B C h1 h2
    cases C <;> cases B <;> simp only [Ref] at h1 h2 ⊢ <;> try simp_all
    all_goals first | exact ⟨iha h1.1 h2.1, ihb h1.2 h2.2⟩ | skip
  | _ =>
    intro B C h1 h2
    cases C <;> cases B <;> simp only [Ref] at h1 h2 ⊢ <;> simp_all

theorem unify_ref : ∀ {a b c : Ty}, unify a b = some c → Ref c a ∧ Ref c b := by
  intro a
  induction a with
  | optional t ih =>
    intro b c h
    cases b <;> simp [unify, Ty.matchesT] at h
    · obtain ⟨x, hx, rfl⟩ := h
      simp only [Ref]; exact ih hx
    · subst h; exact ⟨ref_refl _, by simp [Ref]⟩
  | result x y ihx ihy =>
    intro b c h
    cases b <;> simp [unify, Ty.matchesT] at h
    · subst h; exact ⟨ref_refl _, by simp [Ref]⟩
    · rename_i u v
      cases hx : unify x u <;> cases hy : unify y v <;> simp [hx, hy] at h
      subst h
      simp only [Ref]
      exact ⟨⟨(ihx hx).1, (ihy hy).1⟩, (ihx hx).2, (ihy hy).2⟩
  | never =>
    intro b c h
    cases b <;> simp [unify] at h <;> subst h <;> exact ⟨by simp [Ref], ref_refl _⟩
  | _ =>
    intro b c h
    cases b <;> simp [unify, Ty.matchesT] at h <;>
      first
        | (subst h; exact ⟨ref_refl _, by simp [Ref]⟩)
        | (obtain ⟨h1, h2⟩ := h; subst h1; subst h2; exact ⟨ref_refl _, ref_refl _⟩)
        | (subst h; exact ⟨ref_refl _, ref_refl _⟩)

theorem litTy_mono {cx : LCtx} : ∀ (l : Expr) {T S : Ty} {l' : Expr}, LitTy cx S l l' → Ref T S → LitTy cx T l l'
  | .bool _, T, S, l', h, hr => by
    cases S <;> simp only [LitTy] at h
    cases T <;> simp [Ref] at hr; exact h
  | .enumRef _ _ _, T, S, l', h, hr => by
    cases S <;> simp only [LitTy] at h
    cases T <;> simp [Ref] at hr; subst hr; exact h
  | .none, T, S, l', h, hr => by
    cases S <;> simp only [LitTy] at h
    cases T <;> simp [Ref] at hr <;> simpa [LitTy] using h
  | .some l, T, S, l', h, hr => by
    cases S <;> simp only [LitTy] at h
    cases T <;> simp only [Ref] at hr <;> try (cases hr; done)
    obtain ⟨m, rfl, hm⟩ := h
    simp only [LitTy]; exact ⟨m, rfl, litTy_mono l hm hr⟩
  | .ok l, T, S, l', h, hr => by
    cases S <;> simp only [LitTy] at h
    cases T <;> simp only [Ref] at hr <;> try (cases hr; done)
    obtain ⟨m, rfl, hm⟩ := h
    simp only [LitTy]; exact ⟨m, rfl, litTy_mono l hm hr.1⟩
  | .err l, T, S, l', h, hr => by
    cases S <;> simp only [LitTy] at h
    cases T <;> simp only [Ref] at hr <;> try (cases hr; done)
    obtain ⟨m, rfl, hm⟩ := h
    simp only [LitTy]; exact ⟨m, rfl, litTy_mono l hm hr.2⟩
  | .unit, T, S, _, ha, _ | .int _, T, S, _, ha, _ | .str _, T, S, _, ha, _ | .todo, T, S, _, ha, _
  | .var _, T, S, _, ha, _ | .struct _ _ _, T, S, _, ha, _ | .ite _ _ _, T, S, _, ha, _
  | .call _ _, T, S, _, ha, _ | .ffi _ _ _ _, T, S, _, ha, _ | .ret _, T, S, _, ha, _
  | .and _ _, T, S, _, ha, _ | .or _ _, T, S, _, ha, _ | .coalesce _ _, T, S, _, ha, _
  | .dot _ _, T, S, _, ha, _ | .eq _ _, T, S, _, ha, _ | .ne _ _, T, S, _, ha, _
  | .gt _ _, T, S, _, ha, _ | .lt _ _, T, S, _, ha, _ | .ge _ _, T, S, _, ha, _ | .le _ _, T, S, _, ha, _
  | .not _, T, S, _, ha, _ | .is _ _, T, S, _, ha, _ | .block _ _, T, S, _, ha, _
  | .substruct _ _, T, S, _, ha, _ | .cast _ _, T, S, _, ha, _ | .mtch _ _, T, S, _, ha, _ => by
    cases S <;> simp [LitTy] at ha

theorem shLit_literal : ∀ (v : Expr), shLit v = true → isLiteral v = true
  | .bool _, _ | .enumRef _ _ _, _ | .none, _ => rfl
  | .some e, h | .ok e, h | .err e, h => by simp only [shLit] at h; simp only [isLiteral]; exact shLit_literal e h
  | .unit, h | .int _, h | .str _, h | .todo, h | .var _, h | .struct _ _ _, h | .ite _ _ _, h
  | .call _ _, h | .ffi _ _ _ _, h | .ret _, h | .and _ _, h | .or _ _, h | .coalesce _ _, h
  | .dot _ _, h | .eq _ _, h | .ne _ _, h | .gt _ _, h | .lt _ _, h | .ge _ _, h | .le _ _, h
  | .not _, h | .is _ _, h | .block _ _, h | .substruct _ _, h | .cast _ _, h | .mtch _ _, h => by simp [shLit] at h

theorem lit_low_sh {cx : LCtx} {sc : Scopes} : ∀ (v : Expr) {v' : Expr} {vt : Ty}, shLit v = true →
    lowerExpr cx sc v = some (v', vt) → LitTy cx vt v v'
  | .bool b, v', vt, _, h => by
    simp only [lowerExpr, Option.some.injEq, Prod.mk.injEq] at h
    obtain ⟨rfl, rfl⟩ := h; simp [LitTy]
  | .none, v', vt, _, h => by
    simp only [lowerExpr, Option.some.injEq, Prod.mk.injEq] at h
    obtain ⟨rfl, rfl⟩ := h; simp [LitTy]
  | .enumRef e var x, v', vt, _, h => by
    simp only [lowerExpr] at h
    split at h
    · cases h
    · rename_i k vs hfind
      simp only [Option.map_eq_some_iff, Prod.mk.injEq] at h
      obtain ⟨i, hi, rfl, rfl⟩ := h
      simp only [LitTy]; exact ⟨trivial, _, i, hfind, hi, rfl⟩
  | .some l, v', vt, hf, h => by
    simp only [shLit] at hf
    simp only [lowerExpr] at h
    split at h
    · rename_i l' t hl
      simp only [Option.some.injEq, Prod.mk.injEq] at h
      obtain ⟨rfl, rfl⟩ := h
      simp only [LitTy]; exact ⟨l', rfl, lit_low_sh l hf hl⟩
    · cases h
  | .ok l, v', vt, hf, h => by
    simp only [shLit] at hf
    simp only [lowerExpr] at h
    split at h
    · rename_i l' t hl
      simp only [Option.some.injEq, Prod.mk.injEq] at h
      obtain ⟨rfl, rfl⟩ := h
      simp only [LitTy]; exact ⟨l', rfl, lit_low_sh l hf hl⟩
    · cases h
  | .err l, v', vt, hf, h => by
    simp only [shLit] at hf
    simp only [lowerExpr] at h
    split at h
    · rename_i l' t hl
      simp only [Option.some.injEq, Prod.mk.injEq] at h
      obtain ⟨rfl, rfl⟩ := h
      simp only [LitTy]; exact ⟨l', rfl, lit_low_sh l hf hl⟩
    · cases h
  | .unit, _, _, h, _ | .int _, _, _, h, _ | .str _, _, _, h, _ | .todo, _, _, h, _ | .var _, _, _, h, _
  | .struct _ _ _, _, _, h, _ | .ite _ _ _, _, _, h, _
  | .call _ _, _, _, h, _ | .ffi _ _ _ _, _, _, h, _ | .ret _, _, _, h, _ | .and _ _, _, _, h, _ | .or _ _, _, _, h, _
  | .coalesce _ _, _, _, h, _ | .dot _ _, _, _, h, _ | .eq _ _, _, _, h, _ | .ne _ _, _, _, h, _ | .gt _ _, _, _, h, _
  | .lt _ _, _, _, h, _ | .ge _ _, _, _, h, _ | .le _ _, _, _, h, _
  | .not _, _, _, h, _ | .is _ _, _, _, h, _ | .block _ _, _, _, h, _ | .substruct _ _, _, _, h, _ | .cast _ _, _, _, h, _
  | .mtch _ _, _, _, h, _ => by simp [shLit] at h

/-- the patterns of the arms and what they are lowered to, all typed at `T` -/
def AllLitTy (cx : LCtx) (T : Ty) : List Expr → List Expr → Prop
  | [], [] => True
  | v :: vs, v' :: vs' => LitTy cx T v v' ∧ AllLitTy cx T vs vs'
  | _, _ => False

theorem allLitTy_mono {cx : LCtx} {T S : Ty} (hr : Ref T S) : ∀ {a a' : List Expr}, AllLitTy cx S a a' → AllLitTy cx T a a'
  | [], [], _ => trivial
  | [], _ :: _, h => by simp [AllLitTy] at h
  | _ :: _, [], h => by simp [AllLitTy] at h
  | x :: a, _ :: a', h => by
    simp only [AllLitTy] at h ⊢
    exact ⟨litTy_mono x h.1 hr, allLitTy_mono hr h.2⟩

theorem allLitTy_append {cx : LCtx} {T : Ty} : ∀ {a a' b b' : List Expr}, AllLitTy cx T a a' → AllLitTy cx T b b' →
    AllLitTy cx T (a ++ b) (a' ++ b')
  | [], [], _, _, _, hb => by simpa using hb
  | [], _ :: _, _, _, ha, _ => by simp [AllLitTy] at ha
  | _ :: _, [], _, _, ha, _ => by simp [AllLitTy] at ha
  | _ :: a, _ :: a', _, _, ha, hb => by
    simp only [AllLitTy] at ha
    simp only [List.cons_append, AllLitTy]
    exact ⟨ha.1, allLitTy_append ha.2 hb⟩

theorem allLitTy_mem {cx : LCtx} {T : Ty} : ∀ {a a' : List Expr} {v : Expr}, AllLitTy cx T a a' → v ∈ a →
    ∃ v' ∈ a', LitTy cx T v v'
  | [], _, _, _, h => by cases h
  | _ :: _, [], _, ha, _ => by simp [AllLitTy] at ha
  | x :: a, x' :: a', v, ha, h => by
    simp only [AllLitTy] at ha
    rcases List.mem_cons.mp h with rfl | h'
    · exact ⟨x', List.mem_cons_self .., ha.1⟩
    · obtain ⟨v', hv', hl⟩ := allLitTy_mem ha.2 h'
      exact ⟨v', List.mem_cons_of_mem _ hv', hl⟩

theorem patVals_sh {cx : LCtx} {sc : Scopes} : ∀ (vs : List Expr) (st stF : Ty) (vs' : List Expr) (bs : List (Nat × Ty)),
    vs.all shLit = true → lowerPatValsE cx sc st vs = some (stF, vs', bs) → Ref stF st ∧ AllLitTy cx stF vs vs'
  | [], st, stF, vs', bs, _, h => by
    simp only [lowerPatValsE, Option.some.injEq, Prod.mk.injEq] at h
    obtain ⟨rfl, rfl, _⟩ := h; exact ⟨ref_refl _, trivial⟩
  | v :: vs, st, stF, vs', bs, hf, h => by
    simp only [List.all_cons, Bool.and_eq_true] at hf
    simp only [lowerPatValsE, shLit_literal v hf.1, if_true] at h
    split at h
    · cases h
    · rename_i v' vt hv
      split at h
      · cases h
      · rename_i st1 hu
        simp only [Option.map_eq_some_iff] at h
        obtain ⟨⟨s1, o1, b1⟩, hr, hq⟩ := h
        simp only [Prod.mk.injEq] at hq
        obtain ⟨rfl, rfl, rfl⟩ := hq
        obtain ⟨hr1, hall⟩ := patVals_sh vs _ _ _ _ hf.2 hr
        have hu' := unify_ref hu
        refine ⟨ref_trans hr1 hu'.1, ?_⟩
        simp only [AllLitTy]
        exact ⟨litTy_mono v (lit_low_sh v hf.1 hv) (ref_trans hr1 hu'.2), hall⟩

theorem patsLow_sh {cx : LCtx} {sc : Scopes} : ∀ {st stF : Ty} {pats pats' : List Pat}, PatsLow cx sc st pats pats' stF →
    pats.all shPat = true → Ref stF st ∧ AllLitTy cx stF (flattenPats pats) (flattenPats pats')
  | _, _, _, _, .nil _, _ => ⟨ref_refl _, trivial⟩
  | st, stF, _, _, .cons (pat := pat) hpat _ hrest, hf => by
    simp only [List.all_cons, Bool.and_eq_true] at hf
    cases pat with
    | default => simp [shPat] at hf
    | values vs =>
      simp only [shPat] at hf
      simp only [lowerPat, Option.map_eq_some_iff] at hpat
      obtain ⟨⟨s1, vs', b1⟩, hpv, hq⟩ := hpat
      simp only [Prod.mk.injEq] at hq
      obtain ⟨rfl, rfl, rfl⟩ := hq
      obtain ⟨hr1, hall1⟩ := patVals_sh vs st s1 vs' b1 hf.1 hpv
      obtain ⟨hr2, hall2⟩ := patsLow_sh hrest hf.2
      simp only [flattenPats]
      exact ⟨ref_trans hr2 hr1, allLitTy_append (allLitTy_mono hr2 hall1) hall2⟩

/-! ### splitting a list of literals by their outermost constructor -/

def unSome : Expr → Option Expr | .some e => some e | _ => none
def unOk : Expr → Option Expr | .ok e => some e | _ => none
def unErr : Expr → Option Expr | .err e => some e | _ => none

theorem distinct_unSome {l : List Expr} (h : Distinct l) : Distinct (l.filterMap unSome) := by
  refine List.Pairwise.filterMap unSome ?_ h
  intro a a' hr b hb b' hb'
  cases a <;> simp [unSome] at hb; cases a' <;> simp [unSome] at hb'
  subst hb; subst hb'; simpa [patEq] using hr
theorem distinct_unOk {l : List Expr} (h : Distinct l) : Distinct (l.filterMap unOk) := by
  refine List.Pairwise.filterMap unOk ?_ h
  intro a a' hr b hb b' hb'
  cases a <;> simp [unOk] at hb; cases a' <;> simp [unOk] at hb'
  subst hb; subst hb'; simpa [patEq] using hr
theorem distinct_unErr {l : List Expr} (h : Distinct l) : Distinct (l.filterMap unErr) := by
  refine List.Pairwise.filterMap unErr ?_ h
  intro a a' hr b hb b' hb'
  cases a <;> simp [unErr] at hb; cases a' <;> simp [unErr] at hb'
  subst hb; subst hb'; simpa [patEq] using hr

theorem mem_unSome {l : List Expr} {m : Expr} : m ∈ l.filterMap unSome ↔ Expr.some m ∈ l := by
  rw [List.mem_filterMap]
  constructor
  · rintro ⟨a, ha, h⟩; cases a <;> simp [unSome] at h; subst h; exact ha
  · intro h; exact ⟨_, h, rfl⟩
theorem mem_unOk {l : List Expr} {m : Expr} : m ∈ l.filterMap unOk ↔ Expr.ok m ∈ l := by
  rw [List.mem_filterMap]
  constructor
  · rintro ⟨a, ha, h⟩; cases a <;> simp [unOk] at h; subst h; exact ha
  · intro h; exact ⟨_, h, rfl⟩
theorem mem_unErr {l : List Expr} {m : Expr} : m ∈ l.filterMap unErr ↔ Expr.err m ∈ l := by
  rw [List.mem_filterMap]
  constructor
  · rintro ⟨a, ha, h⟩; cases a <;> simp [unErr] at h; subst h; exact ha
  · intro h; exact ⟨_, h, rfl⟩

theorem opt_split : ∀ (lits : List Expr), (∀ l ∈ lits, l = Expr.none ∨ ∃ m, l = Expr.some m) → Distinct lits →
    ∃ k, k ≤ 1 ∧ lits.length = k + (lits.filterMap unSome).length ∧ (k = 1 → Expr.none ∈ lits)
  | [], _, _ => ⟨0, by omega, rfl, by intro h; cases h⟩
  | l :: rest, hsh, hd => by
    simp only [Distinct, List.pairwise_cons] at hd
    obtain ⟨k, hk, hlen, hnone⟩ := opt_split rest (fun x hx => hsh x (List.mem_cons_of_mem _ hx)) hd.2
    rcases hsh l (List.mem_cons_self ..) with rfl | ⟨m, rfl⟩
    · have hk0 : k = 0 := by
        rcases Nat.lt_or_ge k 1 with h | h
        · omega
        · have := hd.1 .none (hnone (by omega))
          simp [patEq] at this
      subst hk0
      exact ⟨1, by omega, by simp [unSome, List.filterMap_cons]; omega, fun _ => List.mem_cons_self ..⟩
    · exact ⟨k, hk, by simp [unSome, List.filterMap_cons]; omega, fun h => List.mem_cons_of_mem _ (hnone h)⟩

theorem res_split : ∀ (lits : List Expr), (∀ l ∈ lits, (∃ m, l = Expr.ok m) ∨ ∃ m, l = Expr.err m) →
    lits.length = (lits.filterMap unOk).length + (lits.filterMap unErr).length
  | [], _ => rfl
  | l :: rest, hsh => by
    have ih := res_split rest (fun x hx => hsh x (List.mem_cons_of_mem _ hx))
    rcases hsh l (List.mem_cons_self ..) with ⟨m, rfl⟩ | ⟨m, rfl⟩ <;>
      simp [unOk, unErr, List.filterMap_cons] <;> omega

theorem bool_ub {lits : List Expr} (hsh : ∀ x ∈ lits, ∃ b, x = Expr.bool b) (hd : Distinct lits) : lits.length ≤ 2 := by
  match lits, hsh, hd with
  | [], _, _ => simp
  | [_], _, _ => simp
  | [_, _], _, _ => simp
  | a :: b :: c :: rest, hsh, hd =>
    exfalso
    obtain ⟨x, rfl⟩ := hsh a (by simp)
    obtain ⟨y, rfl⟩ := hsh b (by simp)
    obtain ⟨z, rfl⟩ := hsh c (by simp)
    simp only [Distinct, List.pairwise_cons] at hd
    have h1 := hd.1 (.bool y) (by simp)
    have h2 := hd.1 (.bool z) (by simp)
    have h3 := hd.2.1 (.bool z) (by simp)
    simp [patEq] at h1 h2 h3
    cases x <;> cases y <;> cases z <;> simp_all

theorem nodup_subset_length : ∀ {l m : List Nat}, l.Nodup → (∀ x ∈ l, x ∈ m) → l.length ≤ m.length
  | [], _, _, _ => by simp
  | a :: l, m, hnd, hsub => by
    have hnd' := List.nodup_cons.mp hnd
    have ham : a ∈ m := hsub a (List.mem_cons_self ..)
    have := nodup_subset_length (m := m.erase a) hnd'.2
      (fun x hx => (List.mem_erase_of_ne (by rintro rfl; exact hnd'.1 hx)).mpr (hsub x (List.mem_cons_of_mem _ hx)))
    rw [List.length_erase_of_mem ham] at this
    have hpos : 0 < m.length := List.length_pos_of_mem ham
    simp only [List.length_cons]; omega

theorem enum_ub {all : List Expr} {e : Nat} {vars : List Nat}
    (hsh : ∀ x ∈ all, ∃ var y, x = Expr.enumRef e var y ∧ var ∈ vars) (hd : Distinct all) : all.length ≤ vars.length := by
  have hnd : (all.map varOf).Nodup := by
    rw [List.nodup_iff_pairwise_ne, List.pairwise_map]
    refine List.Pairwise.imp_of_mem ?_ hd
    intro a b ha hb hab
    obtain ⟨va, ya, rfl, _⟩ := hsh a ha
    obtain ⟨vb, yb, rfl, _⟩ := hsh b hb
    simp [patEq] at hab
    simp only [varOf]
    exact fun h => hab h.symm
  have := nodup_subset_length hnd (by
    intro n hn
    obtain ⟨x, hx, rfl⟩ := List.mem_map.mp hn
    obtain ⟨va, ya, rfl, hm⟩ := hsh x hx
    exact hm)
  simpa using this

/-! ### the counting theorem -/

theorem card_fold_zero {cx : LCtx} {k : Nat} : ∀ (rest : List (Nat × Ty)) (init : Option Nat),
    rest.foldl (fun acc (f : Nat × Ty) => match cardinality cx k f.2 with
      | Option.none => Option.none
      | Option.some v => acc.map (v * ·)) init = some 0 →
    init = some 0 ∨ ∃ f ∈ rest, cardinality cx k f.2 = some 0
  | [], init, h => Or.inl h
  | f :: rest, init, h => by
    simp only [List.foldl_cons] at h
    rcases card_fold_zero rest _ h with h1 | ⟨g, hg, hz⟩
    · cases hc : cardinality cx k f.2 with
      | none => rw [hc] at h1; cases h1
      | some v =>
        rw [hc] at h1
        cases init with
        | none => cases h1
        | some a =>
          simp only [Option.map_some, Option.some.injEq] at h1
          rcases Nat.mul_eq_zero.mp h1 with h0 | h0
          · subst h0; exact Or.inr ⟨f, List.mem_cons_self .., hc⟩
          · subst h0; exact Or.inl rfl
    · exact Or.inr ⟨g, List.mem_cons_of_mem _ hg, hz⟩

theorem fit_result_cases' {p : Program} {v : Val} {a b : Ty} (h : Fit p v (.result a b)) :
    (∃ w, v = .ok w ∧ Fit p w a) ∨ (∃ w, v = .err w ∧ Fit p w b) := by
  obtain ⟨h1, h2⟩ := h
  cases v <;> simp [Val.fitsType] at h1
  · exact Or.inl ⟨_, rfl, h1, by simpa [Val.wf] using h2⟩
  · exact Or.inr ⟨_, rfl, h1, by simpa [Val.wf] using h2⟩

/-- what a set of covering literals gives for a value -/
def Hit (cx : LCtx) (T : Ty) (lits : List Expr) (v : Val) : Prop :=
  ∃ l ∈ lits, ∃ l' lit, LitTy cx T l l' ∧ litVal l' = some lit ∧ v.beq lit = true

theorem count_sound {cx : LCtx} {p : Program} (hE : cx.enums = p.enums) (hEnd : ∀ q ∈ p.enums, q.2.Nodup)
    (hS : ∀ n d, cx.structDef n = some d → p.structDef n = some d) :
    ∀ (k : Nat) (T : Ty) (c : Nat) (lits : List Expr), cardinality cx k T = some c → Distinct lits →
      (∀ l ∈ lits, ∃ l', LitTy cx T l l') →
      lits.length ≤ c ∧ (c ≤ lits.length → ∀ v, Fit p v T → Hit cx T lits v)
  | 0, _, _, _, h, _, _ => by simp [cardinality] at h
  | k + 1, T, c, lits, hc, hd, hty => by
    have hnil : (∀ l l', ¬ LitTy cx T l l') → lits = [] := by
      intro hno
      cases lits with
      | nil => rfl
      | cons l _ => obtain ⟨l', hl⟩ := hty l (List.mem_cons_self ..); exact absurd hl (hno l l')
    cases T with
    | string | bytes | id | int => simp [cardinality] at hc
    | unit =>
      simp only [cardinality, Option.some.injEq] at hc; subst hc
      have := hnil (by intro l l' h; cases l <;> simp [LitTy] at h)
      subst this; exact ⟨by simp, by intro h; simp at h⟩
    | never =>
      simp only [cardinality, Option.some.injEq] at hc; subst hc
      have := hnil (by intro l l' h; cases l <;> simp [LitTy] at h)
      subst this; exact ⟨by simp, fun _ v hv => (fit_never hv).elim⟩
    | struct sn =>
      have := hnil (by intro l l' h; cases l <;> simp [LitTy] at h)
      subst this
      refine ⟨by simp, ?_⟩
      intro hle v hv
      have hc0 : c = 0 := by simpa using hle
      subst hc0
      exfalso
      simp only [cardinality] at hc
      split at hc
      · cases hc
      · cases hc
      · rename_i n0 t0 rest hdef
        obtain ⟨h1, h2⟩ := hv
        cases v <;> simp [Val.fitsType] at h1
        subst h1
        simp only [Val.wf] at h2
        obtain ⟨⟨d', hd', hall⟩, hwf⟩ := h2
        rw [hS _ _ hdef] at hd'; cases hd'
        have hfield : ∀ f ∈ ((n0, t0) :: rest), cardinality cx k f.2 = some 0 → False := by
          intro f hf hz
          obtain ⟨w, hw, hwfit⟩ := hall f hf
          have hfit : Fit p w f.2 := ⟨hwfit, wfFields_get hwf hw⟩
          obtain ⟨l, hl, _⟩ := (count_sound hE hEnd hS k f.2 0 [] hz (by simp [Distinct]) (by simp)).2 (by simp) w hfit
          cases hl
        rcases card_fold_zero rest _ hc with h0 | ⟨f, hf, hz⟩
        · exact hfield (n0, t0) (List.mem_cons_self ..) h0
        · exact hfield f (List.mem_cons_of_mem _ hf) hz
    | bool =>
      simp only [cardinality, Option.some.injEq] at hc; subst hc
      have hsh : ∀ x ∈ lits, ∃ b, x = Expr.bool b := by
        intro x hx
        obtain ⟨x', h⟩ := hty x hx
        cases x <;> simp [LitTy] at h
        exact ⟨_, rfl⟩
      refine ⟨bool_ub hsh hd, ?_⟩
      intro hle v hv
      obtain ⟨b, rfl⟩ := fit_bool hv
      exact ⟨.bool b, bool_cover hsh hd hle b, .bool b, .bool b, by simp [LitTy], rfl, by simp [Val.beq]⟩
    | enum e =>
      simp only [cardinality, Option.map_eq_some_iff] at hc
      obtain ⟨q, hq, rfl⟩ := hc
      have hsh : ∀ x ∈ lits, ∃ var y, x = Expr.enumRef e var y ∧ var ∈ q.2 := by
        intro x hx
        obtain ⟨x', h⟩ := hty x hx
        cases x <;> simp only [LitTy] at h
        obtain ⟨rfl, q2, i, hq2, hi, _⟩ := h
        rw [hq] at hq2; cases hq2
        exact ⟨_, _, rfl, List.mem_of_getElem? (indexOf_spec hi)⟩
      refine ⟨enum_ub hsh hd, ?_⟩
      intro hle v hv
      obtain ⟨hv1, hv2⟩ := hv
      obtain ⟨iv, rfl⟩ : ∃ iv, v = .enum e iv := by
        cases v <;> simp [Val.fitsType] at hv1
        subst hv1; exact ⟨_, rfl⟩
      simp only [Val.wf] at hv2
      obtain ⟨q', hq', h0, h1⟩ := hv2
      rw [← hE, hq] at hq'; cases hq'
      have hnd := hEnd q (by rw [← hE]; exact List.mem_of_find?_eq_some hq)
      have hlt : iv.toNat < q.2.length := by omega
      obtain ⟨y, hmem⟩ := enum_cover hsh hd hle (q.2[iv.toNat]) (List.getElem_mem hlt)
      obtain ⟨x', hx'⟩ := hty _ hmem
      have hx'' := hx'
      simp only [LitTy] at hx''
      obtain ⟨_, q2, i, hq2, hi, rfl⟩ := hx''
      rw [hq] at hq2; cases hq2
      have hidx : i = iv.toNat := by
        have h1 := indexOf_spec hi
        have h2 : q.2[iv.toNat]? = some q.2[iv.toNat] := List.getElem?_eq_getElem hlt
        exact ((List.getElem?_inj hlt hnd).mp (h2.trans h1.symm)).symm
      refine ⟨_, hmem, _, .enum e (Int.ofNat i), hx', rfl, ?_⟩
      subst hidx
      simp only [Val.beq, beq_self_eq_true, Bool.true_and, beq_iff_eq]
      first | exact (Int.toNat_of_nonneg h0).symm | exact Int.toNat_of_nonneg h0
    | optional T' =>
      simp only [cardinality, Option.map_eq_some_iff] at hc
      obtain ⟨c', hc', rfl⟩ := hc
      have hsh : ∀ l ∈ lits, l = Expr.none ∨ ∃ m, l = Expr.some m := by
        intro x hx
        obtain ⟨x', h⟩ := hty x hx
        cases x <;> simp [LitTy] at h
        · exact Or.inl rfl
        · exact Or.inr ⟨_, rfl⟩
      obtain ⟨kn, hkn, hlen, hnone⟩ := opt_split lits hsh hd
      have htyi : ∀ m ∈ lits.filterMap unSome, ∃ m', LitTy cx T' m m' := by
        intro m hm
        obtain ⟨x', h⟩ := hty _ (mem_unSome.mp hm)
        simp only [LitTy] at h
        obtain ⟨m', _, hm'⟩ := h
        exact ⟨m', hm'⟩
      obtain ⟨hub, hlb⟩ := count_sound hE hEnd hS k T' c' _ hc' (distinct_unSome hd) htyi
      refine ⟨by omega, ?_⟩
      intro hle v hv
      rcases fit_optional hv with rfl | ⟨w, rfl, hw⟩
      · have : Expr.none ∈ lits := hnone (by omega)
        exact ⟨.none, this, .none, .none, by simp [LitTy], rfl, by simp [Val.beq]⟩
      · obtain ⟨m, hm, m', lit, hmt, hlv, hbq⟩ := hlb (by omega) w hw
        exact ⟨.some m, mem_unSome.mp hm, .some m', .some lit, by simp only [LitTy]; exact ⟨m', rfl, hmt⟩,
          by simp [litVal, hlv], by simpa [Val.beq] using hbq⟩
    | result A B =>
      simp only [cardinality] at hc
      split at hc
      rotate_left
      · cases hc
      rename_i ca cb hca hcb
      simp only [Option.some.injEq] at hc; subst hc
      have hsh : ∀ l ∈ lits, (∃ m, l = Expr.ok m) ∨ ∃ m, l = Expr.err m := by
        intro x hx
        obtain ⟨x', h⟩ := hty x hx
        cases x <;> simp [LitTy] at h
        · exact Or.inl ⟨_, rfl⟩
        · exact Or.inr ⟨_, rfl⟩
      have hlen := res_split lits hsh
      have htyo : ∀ m ∈ lits.filterMap unOk, ∃ m', LitTy cx A m m' := by
        intro m hm
        obtain ⟨x', h⟩ := hty _ (mem_unOk.mp hm)
        simp only [LitTy] at h
        obtain ⟨m', _, hm'⟩ := h
        exact ⟨m', hm'⟩
      have htye : ∀ m ∈ lits.filterMap unErr, ∃ m', LitTy cx B m m' := by
        intro m hm
        obtain ⟨x', h⟩ := hty _ (mem_unErr.mp hm)
        simp only [LitTy] at h
        obtain ⟨m', _, hm'⟩ := h
        exact ⟨m', hm'⟩
      obtain ⟨huba, hlba⟩ := count_sound hE hEnd hS k A ca _ hca (distinct_unOk hd) htyo
      obtain ⟨hubb, hlbb⟩ := count_sound hE hEnd hS k B cb _ hcb (distinct_unErr hd) htye
      refine ⟨by omega, ?_⟩
      intro hle v hv
      rcases fit_result_cases' hv with ⟨w, rfl, hw⟩ | ⟨w, rfl, hw⟩
      · obtain ⟨m, hm, m', lit, hmt, hlv, hbq⟩ := hlba (by omega) w hw
        exact ⟨.ok m, mem_unOk.mp hm, .ok m', .ok lit, by simp only [LitTy]; exact ⟨m', rfl, hmt⟩,
          by simp [litVal, hlv], by simpa [Val.beq] using hbq⟩
      · obtain ⟨m, hm, m', lit, hmt, hlv, hbq⟩ := hlbb (by omega) w hw
        exact ⟨.err m, mem_unErr.mp hm, .err m', .err lit, by simp only [LitTy]; exact ⟨m', rfl, hmt⟩,
          by simp [litVal, hlv], by simpa [Val.beq] using hbq⟩

end AranyaV.Lang
