import AranyaV.Props.C04b
import AranyaV.Proofs.TrxClient
/-!
# Proofs.TrxFacts — the stored fact states of the transaction model are the reference states

G2's invariant (`StoreInv`, `TrxInv`) is about the *shape* of the committed graph and of open
transactions.  This file adds the *contents*: every fact state the model stores next to a command
is `Spec.stateAt` of that command, every stored merge was accepted by its own braid, and the `facts`
field of the store is `Spec.factsOf` of the head set — after every history of the client LTS.

Everything is conditional on one property of the command set, `MergeAnti`: every merge command
joins two *incomparable* commands.  Neither the model nor `Transaction::add_merge` checks it (a peer
can deliver `merge(l, r)` with `l` an ancestor of `r`; honest clients only create merges by collapsing
an antichain of heads), so it cannot be derived from the LTS; it is only ever used for the commands
that end up in the graph under consideration (`CGood G := MergeAnti (cmds G) → …`), which makes the
conditional statement an inductive invariant.
-/
namespace AranyaV.Spec
open AranyaV.Gen

theorem Antichain.restrict {g ext : Graph} (hw : WF g) (hw' : WF (g ++ ext)) {hs : List Nat}
    (hsub : ∀ x ∈ hs, x ∈ ids g) (h : Antichain (g ++ ext) hs) : Antichain g hs := by
  intro a ha b hb
  cases hab : anc g a b with
  | false => rfl
  | true =>
    obtain ⟨hne, hr⟩ := (anc_iff hw a b).mp hab
    have := (anc_iff hw' a b).mpr ⟨hne, (reach_ext ext hw' (hsub b hb)).mpr hr⟩
    rw [h a ha b hb] at this; cases this

theorem MergeAnti.restrict {g ext : Graph} (hw : WF g) (hw' : WF (g ++ ext)) (h : MergeAnti (g ++ ext)) :
    MergeAnti g :=
  fun c hc l r e => (h c (List.mem_append_left _ hc) l r e).restrict hw hw'
    (fun _ hx => hw.parents_mem hc (e ▸ hx))

theorem lookup_of_stateAt {g : Graph} {p : Nat} {s : Facts} (h : stateAt g p = .ok s) :
    (tbl g g).lookup p = some (.ok s) := by
  rw [stateAt_eq_tbl] at h
  cases hl : (tbl g g).lookup p with
  | none => rw [hl] at h; cases h
  | some v => rw [hl] at h; simp only at h; rw [h]

/-- the state of a freshly appended command is computed from the table of the old graph -/
theorem stateAt_snoc {g : Graph} {c : Cmd} (hw : WF g) (hw' : WF (g ++ [c])) (ha : MergeAnti g) :
    stateAt (g ++ [c]) c.id = cStOf (g ++ [c]) (tbl g g) c := by
  have hfresh := hw'.snoc_inv.2.1
  rw [stateAt_eq_tbl, tbl_snoc, tbl_ext hw hw' ha g (fun _ h => h), List.lookup_append,
    tbl_lookup_none hfresh]
  simp [List.lookup]

theorem stateAt_snoc_single {g : Graph} {c : Cmd} {p : Nat} {s : Facts} (hw : WF g) (hw' : WF (g ++ [c]))
    (ha : MergeAnti g) (hc : c.parents = [p]) (hp : stateAt g p = .ok s) :
    stateAt (g ++ [c]) c.id = .ok (rule c s).1 := by
  rw [stateAt_snoc hw hw' ha]
  unfold cStOf
  simp only [hc, lookup_of_stateAt hp]

theorem stateAt_root {c : Cmd} (hc : c.parents = []) : stateAt [c] c.id = .ok (rule c {}).1 := by
  rw [stateAt_eq_tbl]
  simp [tbl, cStStep, cStOf, hc]

/-- the two parents of the last command of a graph whose merges are incomparable form a head set
of the graph before it -/
theorem heads_of_last {g : Graph} {c : Cmd} {l r : Nat} (hw : WF g) (hw' : WF (g ++ [c]))
    (ha' : MergeAnti (g ++ [c])) (hc : c.parents = [l, r]) : Heads g [l, r] := by
  have hsub : ∀ x ∈ [l, r], x ∈ ids g := fun x hx => hw'.snoc_inv.2.2 x (hc ▸ hx)
  have hnd : [l, r].Nodup := by
    have := hw'.parents_nodup (c := c) (by simp); rwa [hc] at this
  exact ⟨by simp, hnd, hsub, (ha' c (by simp) l r hc).restrict hw hw' hsub⟩

theorem mergeBraidOk_snoc {g : Graph} {c : Cmd} (hw : WF g) (hw' : WF (g ++ [c])) (ha' : MergeAnti (g ++ [c]))
    (hb : MergeBraidOk g) (hc : ∀ l r, c.parents = [l, r] → ∃ s o, refBraid g [l, r] = .ok (s, o)) :
    MergeBraidOk (g ++ [c]) := by
  have ha := ha'.restrict hw hw'
  intro d hd l r hdp
  rcases List.mem_append.mp hd with hd | hd
  · obtain ⟨s, o, h⟩ := hb d hd l r hdp
    exact ⟨s, o, by rw [refBraid_ext hw hw' (heads_of_merge hw ha hd hdp)]; exact h⟩
  · simp only [List.mem_singleton] at hd; subst hd
    obtain ⟨s, o, h⟩ := hc l r hdp
    exact ⟨s, o, by rw [refBraid_ext hw hw' (heads_of_last hw hw' ha' hdp)]; exact h⟩

end AranyaV.Spec

namespace AranyaV.Trx
open AranyaV.Spec AranyaV.Gen

/-- the stored per-command states of a listing are the reference states -/
def StoredOK (g : List SCmd) : Prop := ∀ c ∈ g, stateAt (cmds g) c.cmd.id = .ok c.st

theorem applyOrderFx_fst (g : Graph) (order : List Nat) (s : Facts) :
    (applyOrderFx g order s).1 = applyOrder g order s := by
  unfold applyOrderFx applyOrder
  suffices ∀ (acc : Facts × List (Nat × Nat)),
      (order.foldl (fun (acc : Facts × List (Nat × Nat)) i => match g.find? i with
        | some c => let r := rule c acc.1; (r.1, acc.2 ++ r.2.2.map (fun n => (i, n)))
        | none => acc) acc).1 =
      order.foldl (fun acc i => match g.find? i with
        | some c => (rule c acc).1
        | none => acc) acc.1 from this (s, [])
  induction order with
  | nil => intro acc; rfl
  | cons i rest ih =>
    intro acc
    simp only [List.foldl_cons]
    rw [ih]
    cases g.find? i <;> rfl

theorem stateOf_stored {g : List SCmd} (h : StoredOK g) {i : Nat} {s : Facts} (hs : stateOf g i = some s) :
    stateAt (cmds g) i = .ok s := by
  unfold stateOf at hs
  cases hf : g.find? (fun c => c.cmd.id == i) with
  | none => rw [hf] at hs; cases hs
  | some c =>
    rw [hf] at hs
    simp only [Option.map_some, Option.some.injEq] at hs
    have hm := List.mem_of_find?_eq_some hf
    have hi : c.cmd.id = i := by simpa using List.find?_some hf
    rw [← hi, ← hs]; exact h c hm

/-- `evaluate_braid` on stored reference states computes `factsOf` -/
theorem braidFacts_factsOf {G : List SCmd} {hs : List Nat} {s : Facts} {fx : List (Nat × Nat)}
    (hne : ∀ h, hs ≠ [h]) (hst : StoredOK G) (hb : braidFacts G hs = .ok (s, fx)) :
    factsOf (cmds G) hs = .ok s ∧ ∃ st o, refBraid (cmds G) hs = .ok (st, o) := by
  unfold braidFacts at hb
  unfold factsOf
  cases hr : refBraid (cmds G) hs with
  | error e => rw [hr] at hb; cases e <;> simp at hb
  | ok so =>
    obtain ⟨start, order⟩ := so
    rw [hr] at hb
    simp only at hb
    cases hs0 : stateOf G start with
    | none => rw [hs0] at hb; simp at hb
    | some s0 =>
      rw [hs0] at hb
      simp only [Except.ok.injEq] at hb
      refine ⟨?_, start, order, rfl⟩
      split
      · rename_i h; exact absurd rfl (hne h)
      · simp only [stateOf_stored hst hs0]
        rw [← applyOrderFx_fst, hb]

/-- one commit: if the stored states of the committed listing are the reference states, the `facts`
the commit stores is `factsOf` of the new head set -/
theorem commit_facts_eq_factsOf {st st' : Store} {t : Trx} {sink sink' : List SinkEv}
    (h : commit (some st) t sink = (some st', sink', .ok true)) (hok : StoredOK st'.graph) :
    factsOf (cmds st'.graph) st'.heads = .ok st'.facts := by
  unfold commit at h
  cases ho : t.offset with
  | none => simp [ho] at h
  | some o =>
    simp only [ho] at h
    by_cases h1 : o ≠ st.stamp
    · simp [h1] at h
    · simp only [h1, if_false] at h
      by_cases h2 : flushErr t = true
      · simp [h2] at h
      · simp only [h2, Bool.false_eq_true, if_false] at h
        by_cases h3 : (flushT t).heads.isEmpty = true
        · simp [h3] at h
        · simp only [h3, Bool.false_eq_true, if_false] at h
          split at h
          · rename_i hd hhs
            cases hs' : stateOf (st.graph ++ (flushT t).written) hd with
            | none => simp [hs'] at h
            | some s =>
              simp only [hs', Prod.mk.injEq, Option.some.injEq] at h
              obtain ⟨rfl, _, _⟩ := h
              simp only [hhs, factsOf]
              exact stateOf_stored hok hs'
          · rename_i hne
            cases hb : braidFacts (st.graph ++ (flushT t).written) (List.foldl hsPush [] (flushT t).heads) with
            | error e' => simp [hb] at h
            | ok r =>
              obtain ⟨s, fx⟩ := r
              simp only [hb, Prod.mk.injEq, Option.some.injEq] at h
              obtain ⟨rfl, _, _⟩ := h
              exact (braidFacts_factsOf (fun hd e => hne hd e) hok hb).1

/-! ## appending one stored command -/

theorem storedOK_snoc {G : List SCmd} {x : SCmd} (hw : WF (cmds G)) (hw' : WF (cmds G ++ [x.cmd]))
    (ha : MergeAnti (cmds G)) (hG : StoredOK G) (hx : stateAt (cmds G ++ [x.cmd]) x.cmd.id = .ok x.st) :
    StoredOK (G ++ [x]) := by
  intro c hc
  rw [cmds_append, cmds_cons, cmds_nil]
  rcases List.mem_append.mp hc with hc | hc
  · rw [stateAt_ext hw hw' ha (mem_ids.mpr ⟨c.cmd, List.mem_map_of_mem hc, rfl⟩)]
    exact hG c hc
  · simp only [List.mem_singleton] at hc; subst hc; exact hx

/-- conditional goodness of a listing of stored commands -/
def CGood (G : List SCmd) : Prop := MergeAnti (cmds G) → StoredOK G ∧ MergeBraidOk (cmds G)

theorem cgood_snoc_single {G : List SCmd} {c : Cmd} {p : Nat} {s : Facts}
    (hw' : WF (cmds (G ++ [⟨c, (rule c s).1⟩]))) (hc : c.parents = [p]) (hs : stateOf G p = some s)
    (h : CGood G) : CGood (G ++ [⟨c, (rule c s).1⟩]) := by
  intro ha'
  rw [cmds_append, cmds_cons, cmds_nil] at hw' ha'
  have hw := wf_prefix hw'
  have ha := ha'.restrict hw hw'
  obtain ⟨hst, hbo⟩ := h ha
  refine ⟨storedOK_snoc hw hw' ha hst (stateAt_snoc_single hw hw' ha hc (stateOf_stored hst hs)), ?_⟩
  rw [cmds_append, cmds_cons, cmds_nil]
  exact mergeBraidOk_snoc hw hw' ha' hbo (fun l r e => by rw [hc] at e; simp at e)

theorem cgood_snoc_merge {G : List SCmd} {c : Cmd} {l r : Nat} {s : Facts} {fx : List (Nat × Nat)}
    (hw' : WF (cmds (G ++ [⟨c, s⟩]))) (hc : c.parents = [l, r]) (hb : braidFacts G [l, r] = .ok (s, fx))
    (h : CGood G) : CGood (G ++ [⟨c, s⟩]) := by
  intro ha'
  rw [cmds_append, cmds_cons, cmds_nil] at hw' ha'
  have hw := wf_prefix hw'
  have ha := ha'.restrict hw hw'
  obtain ⟨hst, hbo⟩ := h ha
  have hh := heads_of_last hw hw' ha' hc
  obtain ⟨hf, st0, o, hr⟩ := braidFacts_factsOf (by intro h e; simp at e) hst hb
  refine ⟨storedOK_snoc hw hw' ha hst ?_, ?_⟩
  · show stateAt (cmds G ++ [c]) c.id = .ok s
    rw [collapse_facts_two hw ha hc hw'.snoc_inv.2.1 hh, hf]
  · rw [cmds_append, cmds_cons, cmds_nil]
    refine mergeBraidOk_snoc hw hw' ha' hbo (fun l' r' e => ?_)
    rw [hc] at e
    simp only [List.cons.injEq, and_true] at e
    obtain ⟨rfl, rfl⟩ := e
    exact ⟨st0, o, hr⟩

theorem cgood_root {c : Cmd} (hc : c.parents = []) : CGood [⟨c, (rule c {}).1⟩] := by
  intro _
  refine ⟨?_, ?_⟩
  · intro x hx
    simp only [List.mem_singleton] at hx; subst hx
    exact stateAt_root hc
  · intro d hd l r e
    simp only [cmds_cons, cmds_nil, List.mem_singleton] at hd
    subst hd; rw [hc] at e; cases e

/-! ## `refAdd` / `refBatch` (the reference delivery the `add_commands` loop refines) -/

theorem refAdd_cases (gid : Nat) (G : List SCmd) (i : In) :
    (refAdd gid G i).1 = G ∨
    (∃ p s, i.cmd.parents = [p] ∧ stateOf G p = some s ∧
      (refAdd gid G i).1 = G ++ [⟨i.cmd, (rule i.cmd s).1⟩]) ∨
    (∃ l r s fx, i.cmd.parents = [l, r] ∧ braidFacts G [l, r] = .ok (s, fx) ∧
      (refAdd gid G i).1 = G ++ [⟨i.cmd, s⟩]) := by
  unfold refAdd
  by_cases hd : hasId G i.cmd.id = true
  · left; simp [hd]
  · simp only [hd, Bool.false_eq_true, if_false]
    rcases hpar : i.cmd.parents with _ | ⟨p, _ | ⟨r, _ | ⟨x, xs⟩⟩⟩
    · left; simp only; split <;> rfl
    · simp only
      cases hs : stateOf G p with
      | none => left; rfl
      | some s =>
        simp only
        by_cases hr : (rule i.cmd s).2.1 = true
        · right; left; exact ⟨p, s, rfl, hs, by simp [hr]⟩
        · left; simp [hr]
    · simp only
      by_cases h1 : p ∉ ids (cmds G) ∨ r ∉ ids (cmds G)
      · left; simp [h1]
      · simp only [h1, if_false]
        by_cases h2 : p = r
        · left; simp [h2]
        · simp only [h2, if_false]
          cases hb : braidFacts G [p, r] with
          | error e => left; rfl
          | ok sf =>
            obtain ⟨s, fx⟩ := sf
            right; right; exact ⟨p, r, s, fx, rfl, hb, rfl⟩
    · left; rfl

theorem refAdd_good {gid : Nat} {G : List SCmd} {i : In} (hw' : WF (cmds (refAdd gid G i).1)) (h : CGood G) :
    CGood (refAdd gid G i).1 := by
  rcases refAdd_cases gid G i with e | ⟨p, s, hp, hs, e⟩ | ⟨l, r, s, fx, hp, hb, e⟩
  · rw [e]; exact h
  · rw [e] at hw' ⊢; exact cgood_snoc_single hw' hp hs h
  · rw [e] at hw' ⊢; exact cgood_snoc_merge hw' hp hb h

theorem refAdd_prefix (gid : Nat) (G : List SCmd) (i : In) : ∃ ext, (refAdd gid G i).1 = G ++ ext := by
  rcases refAdd_cases gid G i with e | ⟨p, s, _, _, e⟩ | ⟨l, r, s, fx, _, _, e⟩
  · exact ⟨[], by simp [e]⟩
  · exact ⟨_, e⟩
  · exact ⟨_, e⟩

theorem refBatch_prefix (gid : Nat) (batch : List In) :
    ∀ (G : List SCmd) (n : Nat), ∃ ext, (refBatch gid G batch n).1 = G ++ ext := by
  induction batch with
  | nil => intro G n; exact ⟨[], by simp [refBatch]⟩
  | cons i rest ih =>
    intro G n
    unfold refBatch
    obtain ⟨e1, he1⟩ := refAdd_prefix gid G i
    rcases hr : refAdd gid G i with ⟨g', _ | e⟩
    · simp only
      rw [hr] at he1
      simp only at he1
      obtain ⟨e2, he2⟩ := ih g' (n + (g'.length - G.length))
      exact ⟨e1 ++ e2, by rw [he2, he1, List.append_assoc]⟩
    · simp only
      rw [hr] at he1
      exact ⟨e1, he1⟩

theorem refBatch_good (gid : Nat) (batch : List In) :
    ∀ (G : List SCmd) (n : Nat), WF (cmds (refBatch gid G batch n).1) → CGood G →
      CGood (refBatch gid G batch n).1 := by
  induction batch with
  | nil => intro G n _ h; simpa [refBatch] using h
  | cons i rest ih =>
    intro G n hw h
    unfold refBatch at hw ⊢
    rcases hr : refAdd gid G i with ⟨g', _ | e⟩
    · rw [hr] at hw
      simp only at hw ⊢
      obtain ⟨e2, he2⟩ := refBatch_prefix gid rest g' (n + (g'.length - G.length))
      have hwg : WF (cmds g') := by
        rw [he2, cmds_append] at hw; exact wf_prefix hw
      have hg' : CGood g' := by
        have := refAdd_good (gid := gid) (G := G) (i := i) (by rw [hr]; exact hwg) h
        rwa [hr] at this
      exact ih g' _ hw hg'
    · rw [hr] at hw
      simp only at hw ⊢
      have := refAdd_good (gid := gid) (G := G) (i := i) (by rw [hr]; exact hw) h
      rwa [hr] at this

/-! ## actions: `collapse_heads` and the publish loop -/

theorem collapse_good : ∀ (fuel : Nat) (g : List SCmd) (q : List Nat) (ms : List Cmd) (g1 : List SCmd) (h : Nat),
    collapse g q ms fuel = .ok (g1, h) →
    (∃ ext, g1 = g ++ ext) ∧ (WF (cmds g1) → CGood g → CGood g1)
  | fuel, g, [], ms, g1, h, hc => by simp [collapse] at hc
  | fuel, g, [x], ms, g1, h, hc => by
    simp only [collapse, Except.ok.injEq, Prod.mk.injEq] at hc
    obtain ⟨rfl, rfl⟩ := hc
    exact ⟨⟨[], by simp⟩, fun _ h => h⟩
  | 0, g, _ :: _ :: _, ms, g1, h, hc => by simp [collapse] at hc
  | fuel + 1, g, l :: r :: q, [], g1, h, hc => by simp [collapse] at hc
  | fuel + 1, g, l :: r :: q, m :: ms', g1, h, hc => by
    simp only [collapse] at hc
    split at hc
    · cases hc
    · rename_i hcond
      simp only [not_or, Decidable.not_not] at hcond
      cases hb : braidFacts g [min l r, max l r] with
      | error e => rw [hb] at hc; cases hc
      | ok sf =>
        obtain ⟨s, fx⟩ := sf
        rw [hb] at hc
        simp only at hc
        obtain ⟨⟨ext, he⟩, ih⟩ := collapse_good fuel _ _ _ _ _ hc
        refine ⟨⟨[⟨m, s⟩] ++ ext, by rw [he]; simp⟩, fun hw hg => ?_⟩
        apply ih hw
        have hw1 : WF (cmds (g ++ [⟨m, s⟩])) := by
          rw [he, cmds_append] at hw; exact wf_prefix hw
        exact cgood_snoc_merge hw1 hcond.1 hb hg

theorem stateOf_snoc_fresh {l : List SCmd} {x : SCmd} (h : hasId l x.cmd.id = false) :
    stateOf (l ++ [x]) x.cmd.id = some x.st := by
  rw [stateOf_append, stateOf_none_iff.mpr (hasId_false_iff.mp h)]
  simp [stateOf_cons, stateOf]

theorem publish_good (g : List SCmd) : ∀ (pubs : List Cmd) (head : Nat) (s : Facts) (acc : List SCmd)
    (evs evs' : List SinkEv) (new : List SCmd) (s' : Facts),
    publish g pubs head s acc evs = (evs', .ok (new, s')) → stateOf (g ++ acc) head = some s →
    (∃ more, new = acc ++ more) ∧ (WF (cmds (g ++ new)) → CGood (g ++ acc) → CGood (g ++ new))
  | [], head, s, acc, evs, evs', new, s', hp, _ => by
    simp only [publish, Prod.mk.injEq, Except.ok.injEq] at hp
    obtain ⟨_, rfl, rfl⟩ := hp
    exact ⟨⟨[], by simp⟩, fun _ h => h⟩
  | c :: rest, head, s, acc, evs, evs', new, s', hp, hs => by
    simp only [publish] at hp
    split at hp
    · simp at hp
    · rename_i hcond
      simp only [not_or, Decidable.not_not, Bool.not_eq_true] at hcond
      split at hp
      · have hs' : stateOf (g ++ (acc ++ [⟨c, (rule c s).1⟩])) c.id = some (rule c s).1 := by
          rw [← List.append_assoc]
          exact stateOf_snoc_fresh (x := ⟨c, (rule c s).1⟩) hcond.2
        obtain ⟨⟨more, hm⟩, ih⟩ := publish_good g rest c.id (rule c s).1 _ _ _ _ _ hp hs'
        refine ⟨⟨[⟨c, (rule c s).1⟩] ++ more, by rw [hm]; simp⟩, fun hw hg => ?_⟩
        apply ih hw
        have hw1 : WF (cmds ((g ++ acc) ++ [⟨c, (rule c s).1⟩])) := by
          rw [hm] at hw
          have : g ++ (acc ++ [⟨c, (rule c s).1⟩] ++ more) = ((g ++ acc) ++ [⟨c, (rule c s).1⟩]) ++ more := by simp
          rw [this, cmds_append] at hw
          exact wf_prefix hw
        rw [← List.append_assoc]
        exact cgood_snoc_single hw1 hcond.1 hs hg
      · simp at hp

/-! ## the strengthened invariant -/

/-- contents of the committed store (conditional on the merges of its graph being incomparable) -/
def SGood (st : Store) : Prop :=
  MergeAnti (cmds st.graph) →
    StoredOK st.graph ∧ MergeBraidOk (cmds st.graph) ∧ factsOf (cmds st.graph) st.heads = .ok st.facts

theorem SGood.cgood {st : Store} (h : SGood st) : CGood st.graph := fun ha => ⟨(h ha).1, (h ha).2.1⟩

/-- contents of a transaction that holds the current stamp -/
def TGood (st : Store) (t : Trx) : Prop := t.offset = some st.stamp → CGood (view st t)

/-- **`StoreInv'`**: G2's invariant together with the contents -/
structure ClientInv' (cl : Client) : Prop where
  base : ClientInv cl
  store : ∀ st, cl.store = some st → SGood st
  trxs : ∀ s t, (s, t) ∈ cl.trxs → ∀ st, cl.store = some st → TGood st t

theorem ClientInv'.init (gid : Nat) : ClientInv' { gid := gid } :=
  ⟨ClientInv.init gid, (by intro st e; cases e), (by intro s t hm; cases hm)⟩

theorem sgood_single_head {st : Store} {x : SCmd} (hx : x ∈ st.graph) (hh : st.heads = [x.cmd.id])
    (hf : st.facts = x.st) (hg : CGood st.graph) : SGood st := by
  intro ha
  obtain ⟨h1, h2⟩ := hg ha
  refine ⟨h1, h2, ?_⟩
  rw [hh, hf]
  simp only [factsOf]
  exact h1 x hx

/-- `add_commands` on a transaction: the loop keeps the contents invariant -/
theorem addLoop_good {gid : Nat} {st : Store} (hs : StoreInv st) (hsg : SGood st) {t : Trx} (ht : TrxOK st t)
    (htg : TGood st t) (sink : List SinkEv) (batch : List In) (n : Nat) :
    TGood st (addLoop gid st (snapshot st t) sink batch n).1 := by
  intro hoff
  unfold TrxOK at ht
  cases ho : t.offset with
  | none =>
    rw [ho] at ht
    subst ht
    obtain ⟨hi, _, hv⟩ := snapshot_inv hs
    obtain ⟨hinv, _, hview, _⟩ := addLoop_refines gid batch sink n hi
    rw [hview]
    apply refBatch_good
    · rw [← hview]; exact hinv.wf
    · rw [hv]; exact hsg.cgood
  | some o =>
    rw [ho] at ht
    rw [snapshot_some ho] at hoff ⊢
    rw [addLoop_offset, ho] at hoff
    have ho' : o = st.stamp := Option.some.inj hoff
    obtain ⟨hinv, _, hview, _⟩ := addLoop_refines gid batch sink n (ht.2 ho')
    rw [hview]
    apply refBatch_good
    · rw [← hview]; exact hinv.wf
    · exact htg (by rw [ho, ho'])

theorem sgood_init {gid : Nat} {i : In} {sink : List SinkEv} {st0 : Store}
    (h : (initCmd gid i sink).2 = .ok st0) : SGood st0 := by
  obtain ⟨_, hp, _, _, rfl, _⟩ := (initCmd_spec gid i sink).1 st0 h
  exact sgood_single_head (x := ⟨i.cmd, (rule i.cmd {}).1⟩) (by simp) rfl rfl (cgood_root hp)

theorem tgood_stale {st st' : Store} {t : Trx} (h : TrxOK st t) (hs : st'.stamp = st.stamp + 1) : TGood st' t := by
  intro ho
  unfold TrxOK at h
  rw [ho] at h
  simp only at h
  omega

theorem action_good {st : Store} (hsg : SGood st) {sink sink' : List SinkEv} {ms pubs : List Cmd} {st' : Store}
    {r : Except Err Unit} (h : action (some st) sink ms pubs = (some st', sink', r))
    (hw : WF (cmds st'.graph)) : st' = st ∨ CGood st'.graph := by
  unfold action at h
  simp only at h
  cases hcol : collapse st.graph st.heads ms st.heads.length with
  | error e => rw [hcol] at h; simp only [Prod.mk.injEq, Option.some.injEq] at h; exact Or.inl h.1.symm
  | ok gh =>
    obtain ⟨g1, hd⟩ := gh
    rw [hcol] at h
    simp only at h
    cases hso : stateOf g1 hd with
    | none => rw [hso] at h; simp only [Prod.mk.injEq, Option.some.injEq] at h; exact Or.inl h.1.symm
    | some s =>
      rw [hso] at h
      simp only at h
      rcases hpub : publish g1 pubs hd s [] [] with ⟨evs, res⟩
      rw [hpub] at h
      cases res with
      | error e =>
        cases e <;> (simp only [Prod.mk.injEq, Option.some.injEq] at h; exact Or.inl h.1.symm)
      | ok ns =>
        obtain ⟨new, s'⟩ := ns
        simp only at h
        cases hl : new.getLast? with
        | none => rw [hl] at h; simp only [Prod.mk.injEq, Option.some.injEq] at h; exact Or.inl h.1.symm
        | some c =>
          rw [hl] at h
          simp only [Prod.mk.injEq, Option.some.injEq] at h
          obtain ⟨rfl, _, _⟩ := h
          right
          simp only at hw ⊢
          obtain ⟨⟨ext, he⟩, hc⟩ := collapse_good _ _ _ _ _ _ hcol
          obtain ⟨_, hp⟩ := publish_good g1 pubs hd s [] [] evs new s' hpub (by simpa using hso)
          apply hp hw
          simp only [List.append_nil]
          apply hc _ hsg.cgood
          rw [cmds_append] at hw; exact wf_prefix hw

theorem addCommands_good {gid : Nat} {store : Option Store} {t : Trx} (sink : List SinkEv) (batch : List In)
    (hst : ∀ st, store = some st → StoreInv st ∧ SGood st)
    (ht : match (generalizing := false) store with
      | none => t = {}
      | some st => TrxOK st t ∧ TGood st t) :
    ∀ st', (addCommands gid store t sink batch).1 = some st' →
      SGood st' ∧ TGood st' (addCommands gid store t sink batch).2.1 ∧ (store = some st' ∨ store = none) := by
  unfold addCommands
  cases store with
  | some st =>
    simp only at ht ⊢
    intro st' e
    injection e with e; subst e
    obtain ⟨hs, hsg⟩ := hst st rfl
    exact ⟨hsg, addLoop_good hs hsg ht.1 ht.2 _ _ _, Or.inl rfl⟩
  | none =>
    simp only at ht
    cases batch with
    | nil => intro st' e; simp at e
    | cons i rest =>
      simp only
      rcases hi : initCmd gid i sink with ⟨sink', r⟩
      cases r with
      | error e => intro st' e'; simp at e'
      | ok st0 =>
        simp only
        intro st' e
        injection e with e; subst e
        have h0 := ((initCmd_spec gid i sink).1 st0 (by rw [hi])).2.2.2.2.2
        have hg0 : SGood st0 := sgood_init (gid := gid) (i := i) (sink := sink) (by rw [hi])
        subst ht
        exact ⟨hg0, addLoop_good h0 hg0 (TrxOK.fresh st0) (by intro ho; cases ho) _ _ _, Or.inr trivial⟩

theorem commit_good {st : Store} {t : Trx} (sink : List SinkEv) (hs : StoreInv st) (ht : TrxOK st t)
    (htg : TGood st t) :
    (commit (some st) t sink).1 = some st ∨
    (∃ st', (commit (some st) t sink).1 = some st' ∧ SGood st' ∧ st'.stamp = st.stamp + 1) := by
  unfold TrxOK at ht
  cases ho : t.offset with
  | none => left; simp [commit, ho]
  | some o =>
    rw [ho] at ht
    simp only at ht
    by_cases he : o = st.stamp
    · subst he
      rcases commit_live sink hs (ht.2 rfl) ho with ⟨e, hc, _⟩ | ⟨st', sink', hc, hg, hst, _, _⟩
      · left; rw [hc]
      · right
        refine ⟨st', by rw [hc], ?_, hst⟩
        intro ha
        have hgv : st'.graph = view st t := by rw [hg, view_eq]
        obtain ⟨h1, h2⟩ := htg ho (by rw [← hgv]; exact ha)
        rw [← hgv] at h1 h2
        exact ⟨h1, h2, commit_facts_eq_factsOf hc h1⟩
    · left; simp [commit, ho, he]

theorem action_sgood {st : Store} (sink : List SinkEv) (ms pubs : List Cmd) (hs : StoreInv st) (hsg : SGood st) :
    (action (some st) sink ms pubs).1 = some st ∨
    (∃ st', (action (some st) sink ms pubs).1 = some st' ∧ SGood st' ∧ st'.stamp = st.stamp + 1) := by
  rcases action_spec sink ms pubs hs with ⟨e, evs, hc, _⟩ |
    ⟨st', merges, new, last, evs, hc, _, hg, _, _, hl, hh, hf, hstamp, hinv, _⟩
  · left; rw [hc]
  · right
    refine ⟨st', by rw [hc], ?_, hstamp⟩
    have hmem : last ∈ st'.graph := by
      rw [hg]; exact List.mem_append_right _ (List.mem_of_getLast? hl)
    rcases action_good hsg hc hinv.wf with e | hcg
    · rw [e] at hstamp; omega
    · exact sgood_single_head hmem hh hf hcg

/-- `new_graph`: the created store holds reference states -/
theorem newGraph_good {gid : Nat} {sink sink' : List SinkEv} {pubs : List Cmd} {st' : Store} {r : Except Err Unit}
    (h : newGraph gid none sink pubs = (some st', sink', r)) (hw : WF (cmds st'.graph)) : CGood st'.graph := by
  unfold newGraph at h
  cases pubs with
  | nil => simp at h
  | cons c0 rest =>
    simp only at h
    by_cases hcond : c0.parents ≠ [] ∨ c0.id ≠ gid
    · rw [if_pos hcond] at h; simp at h
    · rw [if_neg hcond] at h
      simp only [not_or, ne_eq, Decidable.not_not] at hcond
      by_cases hr : (rule c0 {}).2.1 = true
      · rw [if_pos hr] at h
        rcases hp : publish [] rest c0.id (rule c0 {}).1 [⟨c0, (rule c0 {}).1⟩] (consumes c0.id (rule c0 {}).2.2) with ⟨evs, res⟩
        rw [hp] at h
        cases res with
        | error e => cases e <;> simp at h
        | ok ns =>
          obtain ⟨new, s'⟩ := ns
          simp only at h
          cases hl : new.getLast? with
          | none => rw [hl] at h; simp at h
          | some l =>
            rw [hl] at h
            simp only [Prod.mk.injEq, Option.some.injEq] at h
            obtain ⟨rfl, _, _⟩ := h
            simp only at hw ⊢
            obtain ⟨_, hg⟩ := publish_good [] rest c0.id (rule c0 {}).1 [⟨c0, (rule c0 {}).1⟩] _ evs new s' hp
              (by simp [stateOf])
            have := hg (by simpa using hw) (by simpa using cgood_root hcond.1)
            simpa using this
      · rw [if_neg hr] at h; simp at h

theorem step_inv' {cl : Client} (h : ClientInv' cl) (op : Op) : ClientInv' (step cl op).1 := by
  have hb' := step_inv h.base op
  cases op with
  | openT s =>
    refine ⟨hb', h.store, ?_⟩
    intro s' t' hm st hst
    rcases mem_setSlot hm with e | e
    · injection e with _ e; subst e
      intro ho; cases ho
    · exact h.trxs s' t' e st hst
  | dropT s =>
    exact ⟨hb', h.store, fun s' t' hm => h.trxs s' t' (mem_dropSlot hm)⟩
  | add s batch =>
    simp only [step] at hb' ⊢
    cases hg : getSlot cl.trxs s with
    | none => exact h
    | some t =>
      rw [hg] at hb'
      simp only at hb' ⊢
      have hm := getSlot_mem hg
      have hgood := addCommands_good (gid := cl.gid) (store := cl.store) (t := t) cl.sink batch
        (fun st e => ⟨h.base.store st e, h.store st e⟩)
        (by
          have hb := h.base.trxs s t hm
          cases hst : cl.store with
          | none => rw [hst] at hb; exact hb
          | some st => rw [hst] at hb; exact ⟨hb, h.trxs s t hm st hst⟩)
      refine ⟨hb', fun st' e => (hgood st' e).1, ?_⟩
      intro s' t' hm' st' e
      obtain ⟨_, htg, hcase⟩ := hgood st' e
      rcases mem_setSlot hm' with e' | e'
      · injection e' with _ e'; subst e'; exact htg
      · rcases hcase with hc | hc
        · exact h.trxs s' t' e' st' hc
        · have := h.base.trxs s' t' e'
          rw [hc] at this
          simp only at this
          subst this
          intro ho; cases ho
  | flush s =>
    simp only [step] at hb' ⊢
    cases hg : getSlot cl.trxs s with
    | none => exact h
    | some t =>
      rw [hg] at hb'
      simp only at hb' ⊢
      cases hst : cl.store with
      | none => exact h
      | some st =>
        rw [hst] at hb'
        simp only at hb' ⊢
        refine ⟨hb', fun st' e => h.store st' (by rw [hst]; exact e), ?_⟩
        intro s' t' hm' st' e
        simp only at e
        injection e with e; subst e
        rcases mem_setSlot hm' with e' | e'
        · injection e' with _ e'; subst e'
          intro ho
          rw [flushT_offset] at ho
          have hm := getSlot_mem hg
          have hb := h.base.trxs s t hm
          rw [hst] at hb
          unfold TrxOK at hb
          rw [ho] at hb
          simp only at hb
          rw [(hb.2 trivial).view_flush.1]
          exact h.trxs s t hm st hst ho
        · exact h.trxs s' t' e' st hst
  | commit s =>
    simp only [step] at hb' ⊢
    cases hg : getSlot cl.trxs s with
    | none => exact h
    | some t =>
      rw [hg] at hb'
      simp only at hb' ⊢
      cases hst : cl.store with
      | none =>
        refine ⟨by rw [hst] at hb'; exact hb', by intro st e; simp [commit] at e, ?_⟩
        intro s' t' hm' st e
        simp [commit] at e
      | some st =>
        rw [hst] at hb'
        have hm := getSlot_mem hg
        have hs := h.base.store st hst
        have ht : TrxOK st t := by have := h.base.trxs s t hm; rw [hst] at this; exact this
        rcases commit_good cl.sink hs ht (h.trxs s t hm st hst) with hc | ⟨st', hc, hsg', hstamp⟩
        · refine ⟨hb', ?_, ?_⟩
          · intro st' e; simp only at e; rw [hc] at e; injection e with e; subst e; exact h.store _ hst
          · intro s' t' hm' st' e
            simp only at e; rw [hc] at e; injection e with e; subst e
            exact h.trxs s' t' (mem_dropSlot hm') _ hst
        · refine ⟨hb', ?_, ?_⟩
          · intro st'' e; simp only at e; rw [hc] at e; injection e with e; subst e; exact hsg'
          · intro s' t' hm' st'' e
            simp only at e; rw [hc] at e; injection e with e; subst e
            have := h.base.trxs s' t' (mem_dropSlot hm')
            rw [hst] at this
            exact tgood_stale this hstamp
  | action ms pubs =>
    simp only [step] at hb' ⊢
    cases hst : cl.store with
    | none =>
      refine ⟨by rw [hst] at hb'; exact hb', by intro st e; simp [action] at e, ?_⟩
      intro s' t' hm' st e
      simp [action] at e
    | some st =>
      rw [hst] at hb'
      have hs := h.base.store st hst
      rcases action_sgood cl.sink ms pubs hs (h.store st hst) with hc | ⟨st', hc, hsg', hstamp⟩
      · refine ⟨hb', ?_, ?_⟩
        · intro st' e; simp only at e; rw [hc] at e; injection e with e; subst e; exact h.store _ hst
        · intro s' t' hm' st' e
          simp only at e; rw [hc] at e; injection e with e; subst e
          exact h.trxs s' t' hm' _ hst
      · refine ⟨hb', ?_, ?_⟩
        · intro st'' e; simp only at e; rw [hc] at e; injection e with e; subst e; exact hsg'
        · intro s' t' hm' st'' e
          simp only at e; rw [hc] at e; injection e with e; subst e
          have := h.base.trxs s' t' hm'
          rw [hst] at this
          exact tgood_stale this hstamp
  | newGraph pubs =>
    simp only [step] at hb' ⊢
    rcases newGraph_spec cl.gid cl.store cl.sink pubs with ⟨e, sink', hc⟩ |
      ⟨hnone, st', _, _, last, sink', _, _, _, hc, _, hl, hh, _, hf, hinv, _⟩
    · rw [hc] at hb' ⊢
      exact ⟨hb', h.store, h.trxs⟩
    · rw [hc] at hb' ⊢
      refine ⟨hb', ?_, ?_⟩
      · intro st'' e'
        simp only at e'
        injection e' with e'; subst e'
        have hcg : CGood st'.graph := newGraph_good (by rw [← hnone]; exact hc) hinv.wf
        exact sgood_single_head (List.mem_of_getLast? hl) hh hf hcg
      · intro s' t' hm' st'' _
        have := h.base.trxs s' t' hm'
        rw [hnone] at this
        simp only at this
        subst this
        intro ho; cases ho

theorem run_inv' {cl : Client} (h : ClientInv' cl) (ops : List Op) : ClientInv' (run cl ops) := by
  induction ops generalizing cl with
  | nil => exact h
  | cons o rest ih => exact ih (step_inv' h o)

/-- **after any history**: if the merges of the committed graph join incomparable commands, every
stored state is the reference state of its command, every stored merge was accepted by its own braid,
and the stored `facts` is `factsOf` of the committed head set -/
theorem run_store_good (gid : Nat) (ops : List Op) {st : Store} (hst : (run { gid := gid } ops).store = some st)
    (ha : MergeAnti (cmds st.graph)) :
    StoredOK st.graph ∧ MergeBraidOk (cmds st.graph) ∧ factsOf (cmds st.graph) st.heads = .ok st.facts :=
  (run_inv' (ClientInv'.init gid) ops).store st hst ha

end AranyaV.Trx
