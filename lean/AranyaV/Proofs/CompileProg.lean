import AranyaV.Proofs.CompileExpr
import AranyaV.Proofs.SupAll
/-!
C22: from `compileProgram = some cp` to the layout hypotheses of the simulation (`FunsOk`):
labels are distinct (the compiler refuses duplicates), so every recorded label resolves to its
recorded address, and every function's code sits where its label points.
-/
namespace AranyaV.Lang
open AranyaV.Gen.Lang

theorem lookup_of_nodup : ∀ {labels : List (Label × Nat)} {q : Label × Nat},
    (labels.map (·.1)).Nodup → q ∈ labels → lookupLabel labels q.1 = some q.2
  | [], q, _, h => by cases h
  | x :: rest, q, hn, h => by
    simp only [List.map_cons, List.nodup_cons] at hn
    simp only [lookupLabel, List.find?_cons]
    rcases List.mem_cons.mp h with rfl | h'
    · simp
    · have hne : (x.1 == q.1) = false := by
        have : x.1 ≠ q.1 := fun e => hn.1 (e ▸ List.mem_map.mpr ⟨q, h', rfl⟩)
        simpa using this
      rw [hne]
      exact lookup_of_nodup hn.2 h'

theorem codeAt_of_split {labels : List (Label × Nat)} {pre code post : List Instr} :
    CodeAt labels ((pre ++ code ++ post).map (res labels)) pre.length code := by
  unfold CodeAt
  simp only [List.map_append, List.append_assoc]
  have : pre.length = (pre.map (res labels)).length := by simp
  rw [this, List.drop_left]
  exact ⟨_, rfl⟩

/-- where a function of the list ends up inside `compileFuns` -/
theorem funs_layout (sd : Defs) : ∀ (funs : List FunDef) (wp c : Nat) (fd : FunDef), fd ∈ funs →
    ∃ wp' c' pre post, (compileFuns sd wp c funs).code = pre ++ (compileFun sd wp' c' fd).code ++ post ∧
      wp' = wp + pre.length ∧ (∀ q ∈ (compileFun sd wp' c' fd).defs, q ∈ (compileFuns sd wp c funs).defs)
  | [], _, _, _, h => by cases h
  | g :: rest, wp, c, fd, h => by
    simp only [compileFuns]
    rcases List.mem_cons.mp h with rfl | h'
    · exact ⟨wp, c, [], (compileFuns sd (wp + (compileFun sd wp c fd).code.length) (compileFun sd wp c fd).c rest).code,
        by simp, by simp, fun q hq => List.mem_append.mpr (Or.inl hq)⟩
    · obtain ⟨wp', c', pre, post, hc, hw, hd⟩ := funs_layout sd rest _ _ fd h'
      refine ⟨wp', c', (compileFun sd wp c g).code ++ pre, post, ?_, ?_, ?_⟩
      · rw [hc]; simp [List.append_assoc]
      · rw [hw]; simp only [List.length_append]; omega
      · intro q hq; exact List.mem_append.mpr (Or.inr (hd q hq))

theorem funsOk_of_compile {sd : Defs} {funs : List FunDef} {cp : Compiled} (h : compileProgram sd funs = some cp)
    (p : Program) (hsd : p.structs = sd) (hfuns : p.funs = funs) (ar : Nat → Nat → Option Nat) :
    FunsOk ⟨⟨cp.prog, p, ar⟩, cp.labels⟩ := by
  unfold compileProgram at h
  simp only at h
  split at h
  · rename_i hnd
    cases hr : resolveTargets (compileUnresolved sd funs).defs (compileUnresolved sd funs).code with
    | none => rw [hr] at h; cases h
    | some prog =>
      rw [hr] at h
      cases h
      have hprog := resolveTargets_eq hr
      have hnd' : ((compileUnresolved sd funs).defs.map (·.1)).Nodup := by
        simpa [labelsDistinct] using hnd
      intro f fd hfd
      have hmem : fd ∈ funs := by
        rw [← hfuns]; exact List.mem_of_find?_eq_some hfd
      have hname : fd.name = f := by
        have := List.find?_some hfd
        simpa using this
      obtain ⟨wp', c', pre, post, hc, hw, hd⟩ := funs_layout sd funs 1 0 fd hmem
      refine ⟨wp', c', ?_, ?_, ?_⟩
      · have hq : (Label.fn fd.name, wp') ∈ (compileUnresolved sd funs).defs := by
          simp only [compileUnresolved]
          exact hd _ (by simp [compileFun])
        have := lookup_of_nodup hnd' hq
        simpa [hname] using this
      · simp only [hsd]
        rw [hprog]
        have hcode : (compileUnresolved sd funs).code = (Instruction.Exit ExitReason.Panic :: pre) ++ (compileFun sd wp' c' fd).code ++ post := by
          simp only [compileUnresolved, hc, List.cons_append, List.append_assoc]
        rw [hcode]
        have hlen : wp' = (Instruction.Exit ExitReason.Panic :: pre : List Instr).length := by
          rw [hw]; simp only [List.length_cons]; omega
        rw [hlen]
        exact codeAt_of_split
      · simp only [hsd]
        intro q hq
        exact lookup_of_nodup hnd' (by simp only [compileUnresolved]; exact hd q hq)
  · cases h

end AranyaV.Lang
