import AranyaV.Proofs.CompileProg
/-!
C23, whole-construct pc traces: the pc-recording execution relation `StepsVia`, the fuelled
trace function `runTrace` (a function of `step`, consistent with `run`), and the description of a
run of an `if / else if / else` chain (`ChainRun`) and of the dispatch phase of a `match`
(`ValsRun`, `TestsRun`) together with the lemmas that the VM executes exactly the described
trace and that its glue pcs stay out of every untaken region.
-/
namespace AranyaV.Lang
open AranyaV.Gen.Lang

/-- execution that records the pc of every executed instruction -/
inductive StepsVia (m : Machine) : VM → List Nat → VM → Prop where
  | refl (s : VM) : StepsVia m s [] s
  | next {s s' s'' : VM} {ps : List Nat} : step m s = .running s' → StepsVia m s' ps s'' → StepsVia m s (s.pc :: ps) s''

theorem StepsVia.steps {m : Machine} {s s' : VM} {ps} (h : StepsVia m s ps s') : Steps m s s' := by
  induction h with
  | refl => exact .refl _
  | next h _ ih => exact .next h ih

/-- the code range `[lo, lo + len)` -/
def InRange (lo len pc : Nat) : Prop := lo ≤ pc ∧ pc < lo + len

theorem StepsVia.trans {m : Machine} {a b c : VM} {p q : List Nat}
    (h1 : StepsVia m a p b) (h2 : StepsVia m b q c) : StepsVia m a (p ++ q) c := by
  induction h1 with
  | refl => exact h2
  | next h _ ih => exact .next h (ih h2)

theorem StepsVia.one {m : Machine} {a b : VM} (h : step m a = .running b) : StepsVia m a [a.pc] b :=
  .next h (.refl _)

/-- every run has a pc trace -/
theorem StepsVia.of_steps {m : Machine} {a b : VM} (h : Steps m a b) : ∃ ps, StepsVia m a ps b := by
  induction h with
  | refl => exact ⟨[], .refl _⟩
  | next h _ ih => obtain ⟨ps, hps⟩ := ih; exact ⟨_, .next h hps⟩

theorem StepsVia.cast {m : Machine} {a b b' : VM} {p p' : List Nat}
    (h : StepsVia m a p b) (hp : p = p') (hb : b = b') : StepsVia m a p' b' := hp ▸ hb ▸ h

/-! ## the trace as a function of `step` -/

/-- run at most `n` instructions, collecting the pc of every instruction that was executed and
left the machine running; the second component is the state reached -/
def runTrace (m : Machine) : Nat → VM → List Nat × VM
  | 0, s => ([], s)
  | n + 1, s => match step m s with
    | .running s' => ((s.pc :: (runTrace m n s').1), (runTrace m n s').2)
    | _ => ([], s)

/-- `runTrace` really is a `StepsVia` run -/
theorem runTrace_via (m : Machine) : ∀ n s, StepsVia m s (runTrace m n s).1 (runTrace m n s).2
  | 0, s => .refl _
  | n + 1, s => by
    simp only [runTrace]
    cases h : step m s with
    | running s' => exact .next h (runTrace_via m n s')
    | exited r t => exact .refl _
    | error e l => exact .refl _

/-- a `StepsVia` run with trace `ps` is what `runTrace` computes with fuel `|ps|`: the trace is
determined by `step` -/
theorem runTrace_of_via {m : Machine} {s s' : VM} {ps : List Nat} (h : StepsVia m s ps s') :
    runTrace m ps.length s = (ps, s') := by
  induction h with
  | refl => rfl
  | next hs _ ih => simp only [List.length_cons, runTrace, hs, ih]

/-- consistency with `run`: after the `|ps|` traced steps `run` continues from the state reached -/
theorem run_of_via {m : Machine} {s s' : VM} {ps : List Nat} (h : StepsVia m s ps s') :
    ∀ k, run m (ps.length + k) s = run m k s' := by
  induction h with
  | refl => intro k; simp
  | @next s0 s1 s2 ps0 hs _ ih =>
    intro k
    have : (s0.pc :: ps0).length + k = (ps0.length + k) + 1 := by simp only [List.length_cons]; omega
    rw [this, run, hs]
    exact ih k

/-- two traced runs of the same length from the same state are the same run -/
theorem StepsVia.det {m : Machine} {s s1 s2 : VM} {p q : List Nat}
    (h1 : StepsVia m s p s1) (h2 : StepsVia m s q s2) (hl : p.length = q.length) : p = q ∧ s1 = s2 := by
  have e1 := runTrace_of_via h1
  have e2 := runTrace_of_via h2
  rw [hl, e2] at e1
  exact ⟨(Prod.mk.inj e1).1.symm, (Prod.mk.inj e1).2.symm⟩

/-! ## small casts -/

/-- address arithmetic: normalise list lengths, then `omega` -/
macro "lens" : tactic =>
  `(tactic| ((try simp only [List.length_append, List.length_cons, List.length_nil, List.length_singleton]) <;> omega))

theorem prog_at_cast {m : Machine} {x y : Nat} {i : Instr} (h : m.prog[x]? = some i) (e : x = y) :
    m.prog[y]? = some i := e ▸ h

theorem codeAt_cast {labels prog} {x y : Nat} {code : List Instr} (h : CodeAt labels prog x code) (e : x = y) :
    CodeAt labels prog y code := e ▸ h

/-- one traced step from an explicit state -/
theorem via_cons {m : Machine} {σ sc K pc lg} {s' s'' : VM} {ps : List Nat}
    (h : step m ⟨σ, sc, K, pc, lg⟩ = .running s') (h2 : StepsVia m s' ps s'') :
    StepsVia m ⟨σ, sc, K, pc, lg⟩ (pc :: ps) s'' := .next h h2

theorem via_pc {m : Machine} {s : VM} {σ sc K pc pc' lg} {ps : List Nat}
    (h : StepsVia m s ps ⟨σ, sc, K, pc, lg⟩) (e : pc = pc') : StepsVia m s ps ⟨σ, sc, K, pc', lg⟩ := e ▸ h

theorem via_pc0 {m : Machine} {s : VM} {σ sc K pc pc' lg} {ps : List Nat}
    (h : StepsVia m ⟨σ, sc, K, pc, lg⟩ ps s) (e : pc = pc') : StepsVia m ⟨σ, sc, K, pc', lg⟩ ps s := e ▸ h

variable (S : Sim)

/-! ## the `if / else if / else` chain -/

/-- the compiled condition of the head branch `(cnd, ss)` of a chain compiled at `wp`, counter `c` -/
def brC (sd : Defs) (wp c : Nat) (cnd : Expr) : Out := compileExpr sd wp (c + 1) cnd
/-- the compiled body of the head branch -/
def brB (sd : Defs) (wp c : Nat) (cnd : Expr) (ss : List Stmt) : Out :=
  compileStmts sd (wp + (brC sd wp c cnd).code.length + 3) (brC sd wp c cnd).c ss
/-- where the next branch's test starts -/
def brNext (sd : Defs) (wp c : Nat) (cnd : Expr) (ss : List Stmt) : Nat :=
  wp + (brC sd wp c cnd).code.length + 3 + (brB sd wp c cnd ss).code.length + 2

theorem compileBranches_cons (sd : Defs) (wp c : Nat) (end_ : Label) (cnd : Expr) (ss : List Stmt)
    (rest : List (Expr × List Stmt)) :
    compileBranches sd wp c end_ ((cnd, ss) :: rest) =
      ⟨(brC sd wp c cnd).code ++ [.Not, br (Label.anon c), .Block] ++ (brB sd wp c cnd ss).code ++ [.End, jmp end_] ++
          (compileBranches sd (brNext sd wp c cnd ss) (brB sd wp c cnd ss).c end_ rest).code,
       (brC sd wp c cnd).defs ++ (brB sd wp c cnd ss).defs ++ [(Label.anon c, brNext sd wp c cnd ss)] ++
          (compileBranches sd (brNext sd wp c cnd ss) (brB sd wp c cnd ss).c end_ rest).defs,
       (compileBranches sd (brNext sd wp c cnd ss) (brB sd wp c cnd ss).c end_ rest).c⟩ := by
  simp only [compileBranches, brC, brB, brNext]

/-- the body regions `(lo, len)` of the branches of a chain: `Block ss End Jump` of each branch -/
def branchRegions (sd : Defs) : Nat → Nat → List (Expr × List Stmt) → List (Nat × Nat)
  | _, _, [] => []
  | wp, c, (cnd, ss) :: rest =>
    (wp + (brC sd wp c cnd).code.length + 2, (brB sd wp c cnd ss).code.length + 3) ::
      branchRegions sd (brNext sd wp c cnd ss) (brB sd wp c cnd ss).c rest

/-- **Description of a run of the chain** compiled at `wp` with counter `c`, started with stack
`σ`, scopes `env :: fr`, call stack `K`, log `lg`: the conditions of the first `k` branches have
runs (traces `psC`) that leave `false`; then either branch `k`'s condition leaves `true` and its
body has a run from behind `Block` to before `End` (`taken = true`), or the chain is exhausted
(`taken = false`, `k` = number of branches).  Outputs: the whole trace `ps`, the concatenated
traces of the sub-runs `sub` (conditions evaluated so far and the taken body), the glue pcs `gl`
(`Not`, `Branch`, `Block`, `End`, `Jump`) and the final state `t`. -/
inductive ChainRun (σ : List Val) (env : Env) (fr : List Env) (K : List Nat) (endAddr : Nat) :
    Nat → Nat → List (Expr × List Stmt) → Log → Bool → Nat → List Nat → List Nat → List Nat → VM → Prop where
  | nil (wp c : Nat) (lg : Log) :
      ChainRun σ env fr K endAddr wp c [] lg false 0 [] [] [] ⟨σ, env :: fr, K, wp, lg⟩
  | skip {wp c : Nat} {cnd : Expr} {ss : List Stmt} {rest : List (Expr × List Stmt)} {lg lg1 : Log}
      {psC : List Nat} {tk : Bool} {k : Nat} {ps sub gl : List Nat} {t : VM} :
      StepsVia S.m ⟨σ, env :: fr, K, wp, lg⟩ psC
        ⟨.bool false :: σ, env :: fr, K, wp + (brC S.m.p.structs wp c cnd).code.length, lg1⟩ →
      ChainRun σ env fr K endAddr (brNext S.m.p.structs wp c cnd ss) (brB S.m.p.structs wp c cnd ss).c rest lg1 tk k ps sub gl t →
      ChainRun σ env fr K endAddr wp c ((cnd, ss) :: rest) lg tk (k + 1)
        (psC ++ [wp + (brC S.m.p.structs wp c cnd).code.length, wp + (brC S.m.p.structs wp c cnd).code.length + 1] ++ ps)
        (psC ++ sub)
        ((wp + (brC S.m.p.structs wp c cnd).code.length) :: (wp + (brC S.m.p.structs wp c cnd).code.length + 1) :: gl) t
  | take {wp c : Nat} {cnd : Expr} {ss : List Stmt} {rest : List (Expr × List Stmt)} {lg lg1 lg2 : Log}
      {psC psB : List Nat} {σ' : List Val} {b : List (Nat × Val)} {env' : Env} {fr' : List Env} {K' : List Nat} :
      StepsVia S.m ⟨σ, env :: fr, K, wp, lg⟩ psC
        ⟨.bool true :: σ, env :: fr, K, wp + (brC S.m.p.structs wp c cnd).code.length, lg1⟩ →
      StepsVia S.m ⟨σ, ([] :: env) :: fr, K, wp + (brC S.m.p.structs wp c cnd).code.length + 3, lg1⟩ psB
        ⟨σ', (b :: env') :: fr', K',
          wp + (brC S.m.p.structs wp c cnd).code.length + 3 + (brB S.m.p.structs wp c cnd ss).code.length, lg2⟩ →
      ChainRun σ env fr K endAddr wp c ((cnd, ss) :: rest) lg true 0
        (psC ++ [wp + (brC S.m.p.structs wp c cnd).code.length, wp + (brC S.m.p.structs wp c cnd).code.length + 1,
            wp + (brC S.m.p.structs wp c cnd).code.length + 2] ++ psB ++
          [wp + (brC S.m.p.structs wp c cnd).code.length + 3 + (brB S.m.p.structs wp c cnd ss).code.length,
           wp + (brC S.m.p.structs wp c cnd).code.length + 3 + (brB S.m.p.structs wp c cnd ss).code.length + 1])
        (psC ++ psB)
        [wp + (brC S.m.p.structs wp c cnd).code.length, wp + (brC S.m.p.structs wp c cnd).code.length + 1,
          wp + (brC S.m.p.structs wp c cnd).code.length + 2,
          wp + (brC S.m.p.structs wp c cnd).code.length + 3 + (brB S.m.p.structs wp c cnd ss).code.length,
          wp + (brC S.m.p.structs wp c cnd).code.length + 3 + (brB S.m.p.structs wp c cnd ss).code.length + 1]
        ⟨σ', env' :: fr', K', endAddr, lg2⟩

/-- **the VM executes exactly the described trace** -/
theorem chain_via {σ : List Val} {env : Env} {fr : List Env} {K : List Nat} {endL : Label} {endAddr : Nat}
    (hend : lookupLabel S.labels endL = some endAddr)
    {wp c : Nat} {brs : List (Expr × List Stmt)} {lg : Log} {tk : Bool} {k : Nat} {ps sub gl : List Nat} {t : VM}
    (hR : ChainRun S σ env fr K endAddr wp c brs lg tk k ps sub gl t)
    (hcode : CodeAt S.labels S.m.prog wp (compileBranches S.m.p.structs wp c endL brs).code)
    (hdefs : DefsOk S.labels (compileBranches S.m.p.structs wp c endL brs).defs) :
    StepsVia S.m ⟨σ, env :: fr, K, wp, lg⟩ ps t := by
  induction hR with
  | nil wp c lg => exact .refl _
  | @skip wp c cnd ss rest lg lg1 psC tk k ps sub gl t hC _ ih =>
    rw [compileBranches_cons] at hcode hdefs
    simp only [defsOk_append, defsOk_cons, DefsOk.nil, and_true] at hdefs
    obtain ⟨⟨⟨_, _⟩, hnext⟩, hdR⟩ := hdefs
    simp only [codeAt_append, codeAt_cons, CodeAt.nil, and_true] at hcode
    simp only [res_br hnext] at hcode
    simp only [res] at hcode
    obtain ⟨⟨⟨⟨_, hnot, hbr, _⟩, _⟩, _⟩, hcR⟩ := hcode
    have hrest := ih (codeAt_cast hcR (by unfold brNext; lens)) hdR
    refine (hC.trans (via_cons (step_not hnot) (via_cons (step_branch_true (prog_at_cast hbr (by
      lens)))  hrest))).cast ?_ rfl
    simp only [List.append_assoc, List.cons_append, List.nil_append]
  | @take wp c cnd ss rest lg lg1 lg2 psC psB σ' b env' fr' K' hC hB =>
    rw [compileBranches_cons] at hcode
    simp only [codeAt_append, codeAt_cons, CodeAt.nil, and_true] at hcode
    simp only [res_jmp hend] at hcode
    simp only [res] at hcode
    obtain ⟨⟨⟨⟨_, hnot, hbr, hblk⟩, _⟩, hE, hJ⟩, _⟩ := hcode
    have h1 : StepsVia S.m ⟨.bool true :: σ, env :: fr, K, wp + (brC S.m.p.structs wp c cnd).code.length, lg1⟩
        [wp + (brC S.m.p.structs wp c cnd).code.length, wp + (brC S.m.p.structs wp c cnd).code.length + 1,
          wp + (brC S.m.p.structs wp c cnd).code.length + 2]
        ⟨σ, ([] :: env) :: fr, K, wp + (brC S.m.p.structs wp c cnd).code.length + 3, lg1⟩ :=
      via_cons (step_not hnot) (via_cons (step_branch_false (prog_at_cast hbr (by
        lens)))
        (via_cons (step_block (prog_at_cast hblk (by
          lens)))
          (via_pc (.refl _) (by omega))))
    have h2 : StepsVia S.m ⟨σ', (b :: env') :: fr', K',
          wp + (brC S.m.p.structs wp c cnd).code.length + 3 + (brB S.m.p.structs wp c cnd ss).code.length, lg2⟩
        [wp + (brC S.m.p.structs wp c cnd).code.length + 3 + (brB S.m.p.structs wp c cnd ss).code.length,
          wp + (brC S.m.p.structs wp c cnd).code.length + 3 + (brB S.m.p.structs wp c cnd ss).code.length + 1]
        ⟨σ', env' :: fr', K', endAddr, lg2⟩ :=
      via_cons (step_end (prog_at_cast hE (by
        lens)))
        (via_cons (step_jump (prog_at_cast hJ (by
          lens))) (.refl _))
    exact ((hC.trans h1).trans (hB.trans h2)).cast (by simp only [List.append_assoc]) rfl

theorem branchRegions_lb (sd : Defs) : ∀ (brs : List (Expr × List Stmt)) (wp c : Nat) (r : Nat × Nat),
    r ∈ branchRegions sd wp c brs → wp ≤ r.1
  | [], _, _, _, h => by simp [branchRegions] at h
  | (cnd, ss) :: rest, wp, c, r, h => by
    simp only [branchRegions, List.mem_cons] at h
    rcases h with rfl | h
    · simp only; omega
    · have := branchRegions_lb sd rest _ _ r h
      unfold brNext at this; omega

theorem branchRegions_ub (sd : Defs) (endL : Label) : ∀ (brs : List (Expr × List Stmt)) (wp c : Nat) (r : Nat × Nat),
    r ∈ branchRegions sd wp c brs → r.1 + r.2 ≤ wp + (compileBranches sd wp c endL brs).code.length
  | [], _, _, _, h => by simp [branchRegions] at h
  | (cnd, ss) :: rest, wp, c, r, h => by
    simp only [branchRegions, List.mem_cons] at h
    rw [compileBranches_cons]
    rcases h with rfl | h
    · lens
    · have := branchRegions_ub sd endL rest _ _ r h
      simp only [brNext] at this ⊢; lens

section chainGlue
variable {S}
variable {σ : List Val} {env : Env} {fr : List Env} {K : List Nat} {endAddr : Nat}
  {wp c : Nat} {brs : List (Expr × List Stmt)} {lg : Log} {tk : Bool} {k : Nat} {ps sub gl : List Nat} {t : VM}

/-- every pc of the trace is a pc of a sub-run or a glue pc -/
theorem chain_sub_or_glue (hR : ChainRun S σ env fr K endAddr wp c brs lg tk k ps sub gl t) :
    ∀ pc ∈ ps, pc ∈ sub ∨ pc ∈ gl := by
  induction hR with
  | nil => simp
  | skip _ _ ih =>
    intro pc hpc
    simp only [List.mem_append, List.mem_cons, List.not_mem_nil, or_false] at hpc ⊢
    rcases hpc with (h | h | h) | h
    · exact Or.inl (Or.inl h)
    · exact Or.inr (Or.inl h)
    · exact Or.inr (Or.inr (Or.inl h))
    · rcases ih pc h with h | h
      · exact Or.inl (Or.inr h)
      · exact Or.inr (Or.inr (Or.inr h))
  | take _ _ =>
    intro pc hpc
    simp only [List.mem_append, List.mem_cons, List.not_mem_nil, or_false] at hpc ⊢
    rcases hpc with ((h | h | h | h) | h) | h | h
    · exact Or.inl (Or.inl h)
    · exact Or.inr (Or.inl h)
    · exact Or.inr (Or.inr (Or.inl h))
    · exact Or.inr (Or.inr (Or.inr (Or.inl h)))
    · exact Or.inl (Or.inr h)
    · exact Or.inr (Or.inr (Or.inr (Or.inr (Or.inl h))))
    · exact Or.inr (Or.inr (Or.inr (Or.inr (Or.inr h))))

/-- the glue pcs lie inside the chain's own code -/
theorem chain_glue_bounds (endL : Label) (hR : ChainRun S σ env fr K endAddr wp c brs lg tk k ps sub gl t) :
    ∀ pc ∈ gl, wp ≤ pc ∧ pc < wp + (compileBranches S.m.p.structs wp c endL brs).code.length := by
  induction hR with
  | nil => simp
  | skip _ _ ih =>
    intro pc hpc
    rw [compileBranches_cons]
    simp only [List.mem_cons] at hpc
    rcases hpc with rfl | rfl | h
    · lens
    · lens
    · have := ih pc h
      simp only [brNext] at this ⊢; lens
  | take _ _ =>
    intro pc hpc
    rw [compileBranches_cons]
    simp only [List.mem_cons, List.not_mem_nil, or_false] at hpc
    rcases hpc with rfl | rfl | rfl | rfl | rfl <;> lens

/-- **no glue pc lies in the body region of a branch that is not the taken one** -/
theorem chain_glue_untaken (hR : ChainRun S σ env fr K endAddr wp c brs lg tk k ps sub gl t) :
    ∀ pc ∈ gl, ∀ (i : Nat) (r : Nat × Nat), (branchRegions S.m.p.structs wp c brs)[i]? = some r →
      (tk = true → i ≠ k) → ¬ InRange r.1 r.2 pc := by
  induction hR with
  | nil => simp
  | @skip wp c cnd ss rest lg lg1 psC tk k ps sub gl t hC hrest ih =>
    intro pc hpc i r hr hik
    have hb := chain_glue_bounds (Label.anon 0) hrest
    simp only [branchRegions] at hr
    cases i with
    | zero =>
      simp only [List.getElem?_cons_zero, Option.some.injEq] at hr
      subst hr
      simp only [InRange, List.mem_cons] at hpc ⊢
      rcases hpc with rfl | rfl | h
      · omega
      · omega
      · have := (hb pc h).1
        unfold brNext at this; omega
    | succ j =>
      simp only [List.getElem?_cons_succ] at hr
      simp only [List.mem_cons] at hpc
      rcases hpc with rfl | rfl | h
      · have := branchRegions_lb _ _ _ _ r (List.mem_of_getElem? hr)
        unfold brNext at this
        simp only [InRange]; omega
      · have := branchRegions_lb _ _ _ _ r (List.mem_of_getElem? hr)
        unfold brNext at this
        simp only [InRange]; omega
      · exact ih pc h j r hr (fun h => by have := hik h; omega)
  | @take wp c cnd ss rest lg lg1 lg2 psC psB σ' b env' fr' K' hC hB =>
    intro pc hpc i r hr hik
    simp only [branchRegions] at hr
    cases i with
    | zero => exact absurd rfl (hik rfl)
    | succ j =>
      simp only [List.getElem?_cons_succ] at hr
      have := branchRegions_lb _ _ _ _ r (List.mem_of_getElem? hr)
      unfold brNext at this
      simp only [List.mem_cons, List.not_mem_nil, or_false] at hpc
      simp only [InRange]
      rcases hpc with rfl | rfl | rfl | rfl | rfl <;> omega

theorem chain_final_taken (hR : ChainRun S σ env fr K endAddr wp c brs lg true k ps sub gl t) : t.pc = endAddr := by
  generalize htk : true = tk at hR
  induction hR with
  | nil => cases htk
  | skip _ _ ih => exact ih htk
  | take _ _ => rfl

theorem chain_final_none (endL : Label) (hR : ChainRun S σ env fr K endAddr wp c brs lg false k ps sub gl t) :
    t = ⟨σ, env :: fr, K, wp + (compileBranches S.m.p.structs wp c endL brs).code.length, t.log⟩ ∧ k = brs.length := by
  generalize htk : false = tk at hR
  induction hR with
  | nil => simp [compileBranches]
  | skip _ _ ih =>
    obtain ⟨h1, h2⟩ := ih htk
    rw [compileBranches_cons]
    refine ⟨?_, by simp [h2]⟩
    rw [h1]
    congr 1
    simp only [brNext]; lens
  | take _ _ => cases htk

end chainGlue

/-! ## `match`: the dispatch phase -/

/-- **Description of a run of the tests of one arm** (`compilePatVals` at `wp`, counter `c`,
branching to `arm`) with the scrutinee value `sv` on top of the stack: binding patterns test the
wrapper (`Dup; Is w; Branch`), literal patterns are evaluated by a sub-run (trace `psE`) and
compared (`Dup; <e>; Eq; Branch`).  `hit = true`: the tests before the first hit miss, the rest is
not run; `hit = false`: every test misses.  Outputs: trace, concatenated sub-run traces, glue pcs,
final log. -/
inductive ValsRun (sv : Val) (σ : List Val) (sc : List Env) (K : List Nat) (arm : Label) :
    Nat → Nat → List Expr → Log → Bool → List Nat → List Nat → List Nat → Log → Prop where
  | nil (wp c : Nat) (lg : Log) : ValsRun sv σ sc K arm wp c [] lg false [] [] [] lg
  | bindMiss {wp c : Nat} {v : Expr} {vs : List Expr} {w : WrapType} {lg : Log} {h : Bool} {ps sub gl : List Nat} {lg' : Log} :
      wrapOfBinding v = some w → isWrap w sv = false →
      ValsRun sv σ sc K arm (wp + 3) c vs lg h ps sub gl lg' →
      ValsRun sv σ sc K arm wp c (v :: vs) lg h (wp :: (wp + 1) :: (wp + 2) :: ps) sub (wp :: (wp + 1) :: (wp + 2) :: gl) lg'
  | bindHit {wp c : Nat} {v : Expr} {vs : List Expr} {w : WrapType} {lg : Log} :
      wrapOfBinding v = some w → isWrap w sv = true →
      ValsRun sv σ sc K arm wp c (v :: vs) lg true [wp, wp + 1, wp + 2] [] [wp, wp + 1, wp + 2] lg
  | litMiss {wp c : Nat} {v : Expr} {vs : List Expr} {x : Val} {lg lg1 : Log} {psE : List Nat} {h : Bool}
      {ps sub gl : List Nat} {lg' : Log} :
      wrapOfBinding v = none →
      StepsVia S.m ⟨sv :: sv :: σ, sc, K, wp + 1, lg⟩ psE
        ⟨x :: sv :: sv :: σ, sc, K, wp + 1 + (compileExpr S.m.p.structs (wp + 1) c v).code.length, lg1⟩ →
      sv.beq x = false →
      ValsRun sv σ sc K arm (wp + 1 + (compileExpr S.m.p.structs (wp + 1) c v).code.length + 2)
        (compileExpr S.m.p.structs (wp + 1) c v).c vs lg1 h ps sub gl lg' →
      ValsRun sv σ sc K arm wp c (v :: vs) lg h
        (wp :: psE ++ [wp + 1 + (compileExpr S.m.p.structs (wp + 1) c v).code.length,
          wp + 1 + (compileExpr S.m.p.structs (wp + 1) c v).code.length + 1] ++ ps)
        (psE ++ sub)
        (wp :: (wp + 1 + (compileExpr S.m.p.structs (wp + 1) c v).code.length) ::
          (wp + 1 + (compileExpr S.m.p.structs (wp + 1) c v).code.length + 1) :: gl) lg'
  | litHit {wp c : Nat} {v : Expr} {vs : List Expr} {x : Val} {lg lg1 : Log} {psE : List Nat} :
      wrapOfBinding v = none →
      StepsVia S.m ⟨sv :: sv :: σ, sc, K, wp + 1, lg⟩ psE
        ⟨x :: sv :: sv :: σ, sc, K, wp + 1 + (compileExpr S.m.p.structs (wp + 1) c v).code.length, lg1⟩ →
      sv.beq x = true →
      ValsRun sv σ sc K arm wp c (v :: vs) lg true
        (wp :: psE ++ [wp + 1 + (compileExpr S.m.p.structs (wp + 1) c v).code.length,
          wp + 1 + (compileExpr S.m.p.structs (wp + 1) c v).code.length + 1])
        psE
        [wp, wp + 1 + (compileExpr S.m.p.structs (wp + 1) c v).code.length,
          wp + 1 + (compileExpr S.m.p.structs (wp + 1) c v).code.length + 1] lg1

section vals
variable {S}
variable {sv : Val} {σ : List Val} {sc : List Env} {K : List Nat} {arm : Label}
  {wp c : Nat} {vs : List Expr} {lg : Log} {h : Bool} {ps sub gl : List Nat} {lg' : Log}

/-- the VM executes exactly the described trace: a hit ends at the arm's address `a`, a miss
behind the tests -/
theorem vals_via {a : Nat} (hR : ValsRun S sv σ sc K arm wp c vs lg h ps sub gl lg')
    (hcode : CodeAt S.labels S.m.prog wp (compilePatVals S.m.p.structs wp c arm vs).code)
    (harm : h = true → lookupLabel S.labels arm = some a) :
    StepsVia S.m ⟨sv :: σ, sc, K, wp, lg⟩ ps
      ⟨sv :: σ, sc, K, if h then a else wp + (compilePatVals S.m.p.structs wp c arm vs).code.length, lg'⟩ := by
  induction hR with
  | nil wp c lg => simpa [compilePatVals] using StepsVia.refl _
  | @bindMiss wp c v vs w lg h ps sub gl lg' hw hiw _ ih =>
    simp only [compilePatVals, hw, codeAt_append, codeAt_cons, CodeAt.nil, and_true] at hcode
    simp only [res, br] at hcode
    obtain ⟨⟨hdup, his, hbr⟩, hcR⟩ := hcode
    have hr := ih (codeAt_cast hcR (by lens)) harm
    refine via_cons (step_dup hdup) (via_cons (step_is his) ?_)
    rw [hiw]
    refine via_cons (step_branch_false hbr) (via_pc (via_pc0 hr (by omega)) ?_)
    simp only [compilePatVals, hw]
    cases h <;> simp only [Bool.false_eq_true, if_false, if_true] <;> lens
  | @bindHit wp c v vs w lg hw hiw =>
    simp only [compilePatVals, hw, codeAt_append, codeAt_cons, CodeAt.nil, and_true] at hcode
    simp only [res_br (harm rfl)] at hcode
    simp only [res] at hcode
    obtain ⟨⟨hdup, his, hbr⟩, _⟩ := hcode
    refine via_cons (step_dup hdup) (via_cons (step_is his) ?_)
    rw [hiw]
    exact via_cons (step_branch_true hbr) (.refl _)
  | @litMiss wp c v vs x lg lg1 psE h ps sub gl lg' hw hE hbeq _ ih =>
    simp only [compilePatVals, hw] at hcode
    have hcode' : CodeAt S.labels S.m.prog wp ([Instruction.Dup] ++ (compileExpr S.m.p.structs (wp + 1) c v).code ++
        [Instruction.Eq, br arm] ++
        (compilePatVals S.m.p.structs (wp + 1 + (compileExpr S.m.p.structs (wp + 1) c v).code.length + 2)
          (compileExpr S.m.p.structs (wp + 1) c v).c arm vs).code) := by
      simpa [List.append_assoc] using hcode
    simp only [codeAt_append, codeAt_cons, CodeAt.nil, and_true] at hcode'
    simp only [res, br] at hcode'
    obtain ⟨⟨⟨hdup, _⟩, heq, hbr⟩, hcR⟩ := hcode'
    have hr := ih (codeAt_cast hcR (by lens)) harm
    have h1 : StepsVia S.m ⟨x :: sv :: sv :: σ, sc, K, wp + 1 + (compileExpr S.m.p.structs (wp + 1) c v).code.length, lg1⟩
        [wp + 1 + (compileExpr S.m.p.structs (wp + 1) c v).code.length,
          wp + 1 + (compileExpr S.m.p.structs (wp + 1) c v).code.length + 1]
        ⟨sv :: σ, sc, K, wp + 1 + (compileExpr S.m.p.structs (wp + 1) c v).code.length + 2, lg1⟩ := by
      refine via_cons (step_eq (prog_at_cast heq (by lens))) ?_
      rw [hbeq]
      exact via_cons (step_branch_false (prog_at_cast hbr (by lens))) (via_pc (.refl _) (by omega))
    have h2 := (via_cons (step_dup hdup) (hE.trans (h1.trans hr)))
    refine (via_pc h2 ?_).cast (by simp only [List.append_assoc, List.cons_append]) rfl
    simp only [compilePatVals, hw]
    cases h <;> simp only [Bool.false_eq_true, if_false, if_true] <;> lens
  | @litHit wp c v vs x lg lg1 psE hw hE hbeq =>
    simp only [compilePatVals, hw] at hcode
    have hcode' : CodeAt S.labels S.m.prog wp ([Instruction.Dup] ++ (compileExpr S.m.p.structs (wp + 1) c v).code ++
        [Instruction.Eq, br arm] ++
        (compilePatVals S.m.p.structs (wp + 1 + (compileExpr S.m.p.structs (wp + 1) c v).code.length + 2)
          (compileExpr S.m.p.structs (wp + 1) c v).c arm vs).code) := by
      simpa [List.append_assoc] using hcode
    simp only [codeAt_append, codeAt_cons, CodeAt.nil, and_true] at hcode'
    simp only [res_br (harm rfl)] at hcode'
    simp only [res] at hcode'
    obtain ⟨⟨⟨hdup, _⟩, heq, hbr⟩, _⟩ := hcode'
    have h1 : StepsVia S.m ⟨x :: sv :: sv :: σ, sc, K, wp + 1 + (compileExpr S.m.p.structs (wp + 1) c v).code.length, lg1⟩
        [wp + 1 + (compileExpr S.m.p.structs (wp + 1) c v).code.length,
          wp + 1 + (compileExpr S.m.p.structs (wp + 1) c v).code.length + 1]
        ⟨sv :: σ, sc, K, a, lg1⟩ := by
      refine via_cons (step_eq (prog_at_cast heq (by lens))) ?_
      rw [hbeq]
      exact via_cons (step_branch_true (prog_at_cast hbr (by lens))) (.refl _)
    exact via_cons (step_dup hdup) (hE.trans h1)

theorem vals_sub_or_glue (hR : ValsRun S sv σ sc K arm wp c vs lg h ps sub gl lg') :
    ∀ pc ∈ ps, pc ∈ sub ∨ pc ∈ gl := by
  induction hR with
  | nil => simp
  | bindMiss _ _ _ ih =>
    intro pc hpc
    have := ih pc
    simp only [List.mem_cons] at hpc ⊢
    grind
  | bindHit _ _ => intro pc hpc; exact Or.inr hpc
  | litMiss _ _ _ _ ih =>
    intro pc hpc
    have := ih pc
    simp only [List.mem_append, List.mem_cons, List.not_mem_nil, or_false] at hpc ⊢
    grind
  | litHit _ _ _ =>
    intro pc hpc
    simp only [List.mem_append, List.mem_cons, List.not_mem_nil, or_false] at hpc ⊢
    grind

theorem vals_glue_bounds (hR : ValsRun S sv σ sc K arm wp c vs lg h ps sub gl lg') :
    ∀ pc ∈ gl, wp ≤ pc ∧ pc < wp + (compilePatVals S.m.p.structs wp c arm vs).code.length := by
  induction hR with
  | nil => simp
  | bindMiss hw _ _ ih =>
    intro pc hpc
    simp only [compilePatVals, hw]
    simp only [List.mem_cons] at hpc
    rcases hpc with rfl | rfl | rfl | h
    · lens
    · lens
    · lens
    · have := ih pc h; lens
  | bindHit hw _ =>
    intro pc hpc
    simp only [compilePatVals, hw]
    simp only [List.mem_cons, List.not_mem_nil, or_false] at hpc
    rcases hpc with rfl | rfl | rfl <;> lens
  | litMiss hw _ _ _ ih =>
    intro pc hpc
    simp only [compilePatVals, hw]
    simp only [List.mem_cons] at hpc
    rcases hpc with rfl | rfl | rfl | h
    · lens
    · lens
    · lens
    · have := ih pc h; lens
  | litHit hw _ _ =>
    intro pc hpc
    simp only [compilePatVals, hw]
    simp only [List.mem_cons, List.not_mem_nil, or_false] at hpc
    rcases hpc with rfl | rfl | rfl <;> lens

end vals

/-- **Description of the dispatch phase of a `match`** (`compileTestsP` at `wp`, counter `c`):
the arms before arm `k` are value arms all of whose tests miss; arm `k` is the default arm or has
a hit.  Outputs: the index `k` and label `lk` of the selected arm, trace, sub-run traces, glue pcs,
final log. -/
inductive TestsRun (sv : Val) (σ : List Val) (sc : List Env) (K : List Nat) :
    Nat → Nat → List Pat → Log → Nat → Label → List Nat → List Nat → List Nat → Log → Prop where
  | dflt (wp c : Nat) (rest : List Pat) (lg : Log) :
      TestsRun sv σ sc K wp c (.default :: rest) lg 0 (Label.anon c) [wp] [] [wp] lg
  | hit {wp c : Nat} {vs : List Expr} {rest : List Pat} {lg : Log} {ps sub gl : List Nat} {lg' : Log} :
      ValsRun S sv σ sc K (Label.anon c) wp (c + 1) vs lg true ps sub gl lg' →
      TestsRun sv σ sc K wp c (.values vs :: rest) lg 0 (Label.anon c) ps sub gl lg'
  | miss {wp c : Nat} {vs : List Expr} {rest : List Pat} {lg lg1 : Log} {ps sub gl : List Nat}
      {k : Nat} {lk : Label} {ps' sub' gl' : List Nat} {lg' : Log} :
      ValsRun S sv σ sc K (Label.anon c) wp (c + 1) vs lg false ps sub gl lg1 →
      TestsRun sv σ sc K (wp + (compilePatVals S.m.p.structs wp (c + 1) (Label.anon c) vs).code.length)
        (compilePatVals S.m.p.structs wp (c + 1) (Label.anon c) vs).c rest lg1 k lk ps' sub' gl' lg' →
      TestsRun sv σ sc K wp c (.values vs :: rest) lg (k + 1) lk (ps ++ ps') (sub ++ sub') (gl ++ gl') lg'

section tests
variable {S}
variable {sv : Val} {σ : List Val} {sc : List Env} {K : List Nat}
  {wp c : Nat} {pats : List Pat} {lg : Log} {k : Nat} {lk : Label} {ps sub gl : List Nat} {lg' : Log}

/-- the selected label is the `k`-th arm label the tests phase hands to the arms phase -/
theorem tests_label (hR : TestsRun S sv σ sc K wp c pats lg k lk ps sub gl lg') :
    (compileTestsP S.m.p.structs wp c pats).2[k]? = some lk := by
  induction hR with
  | dflt => simp [compileTestsP]
  | hit _ => simp [compileTestsP]
  | miss _ _ ih => simpa [compileTestsP] using ih

/-- the VM executes exactly the described dispatch trace and arrives at the selected arm's address -/
theorem tests_via {a : Nat} (hR : TestsRun S sv σ sc K wp c pats lg k lk ps sub gl lg')
    (hcode : CodeAt S.labels S.m.prog wp (compileTestsP S.m.p.structs wp c pats).1.code)
    (hlk : lookupLabel S.labels lk = some a) :
    StepsVia S.m ⟨sv :: σ, sc, K, wp, lg⟩ ps ⟨sv :: σ, sc, K, a, lg'⟩ := by
  induction hR with
  | dflt wp c rest lg =>
    simp only [compileTestsP, codeAt_cons] at hcode
    simp only [res_jmp hlk] at hcode
    exact via_cons (step_jump hcode.1) (.refl _)
  | hit hV =>
    simp only [compileTestsP, codeAt_append] at hcode
    simpa using vals_via hV hcode.1 (fun _ => hlk)
  | miss hV _ ih =>
    simp only [compileTestsP, codeAt_append] at hcode
    have h1 := vals_via (a := 0) hV hcode.1 (fun h => by cases h)
    simp only [Bool.false_eq_true, if_false] at h1
    exact h1.trans (ih hcode.2 hlk)

theorem tests_sub_or_glue (hR : TestsRun S sv σ sc K wp c pats lg k lk ps sub gl lg') :
    ∀ pc ∈ ps, pc ∈ sub ∨ pc ∈ gl := by
  induction hR with
  | dflt => intro pc hpc; exact Or.inr hpc
  | hit hV => exact vals_sub_or_glue hV
  | miss hV _ ih =>
    intro pc hpc
    have h1 := vals_sub_or_glue hV pc
    have h2 := ih pc
    simp only [List.mem_append] at hpc ⊢
    grind

/-- the dispatch glue pcs lie inside the tests' own code -/
theorem tests_glue_bounds (hR : TestsRun S sv σ sc K wp c pats lg k lk ps sub gl lg') :
    ∀ pc ∈ gl, wp ≤ pc ∧ pc < wp + (compileTestsP S.m.p.structs wp c pats).1.code.length := by
  induction hR with
  | dflt =>
    intro pc hpc
    simp only [List.mem_cons, List.not_mem_nil, or_false] at hpc
    subst hpc
    simp only [compileTestsP]; lens
  | hit hV =>
    intro pc hpc
    have := vals_glue_bounds hV pc hpc
    simp only [compileTestsP]; lens
  | miss hV _ ih =>
    intro pc hpc
    simp only [compileTestsP]
    rcases List.mem_append.mp hpc with h | h
    · have := vals_glue_bounds hV pc h; lens
    · have := ih pc h; lens

end tests

/-! ## `match`: the arms, generically in the body compiler -/

/-- phase 2 of a match with the body compiler `f` as a parameter (`compileArmsE` = `armsG
compileExpr`, `compileArmsS` = `armsG compileStmts`) -/
def armsG {β : Type} (f : Nat → Nat → β → Out) (wp c : Nat) (end_ : Label) : List Label → List (Pat × β) → Out
  | l :: ls, (pat, body) :: rest =>
    let B := f (wp + 1 + (armPre pat).length) c body
    let R := armsG f (wp + 1 + (armPre pat).length + B.code.length + 2) B.c end_ ls rest
    ⟨(.Block :: armPre pat ++ B.code ++ [.End, jmp end_]) ++ R.code, (l, wp) :: B.defs ++ R.defs, R.c⟩
  | _, _ => ⟨[], [], c⟩

theorem armsE_eq (sd : Defs) (end_ : Label) : ∀ (ls : List Label) (arms : List (Pat × Expr)) (wp c : Nat),
    compileArmsE sd wp c end_ ls arms = armsG (compileExpr sd) wp c end_ ls arms
  | [], arms, wp, c => by cases arms <;> simp [compileArmsE, armsG]
  | _ :: _, [], wp, c => by simp [compileArmsE, armsG]
  | l :: ls, (pat, body) :: rest, wp, c => by
    rw [compileArmsE_cons, armsG, armsE_eq sd end_ ls rest]

theorem armsS_eq (sd : Defs) (end_ : Label) : ∀ (ls : List Label) (arms : List (Pat × List Stmt)) (wp c : Nat),
    compileArmsS sd wp c end_ ls arms = armsG (compileStmts sd) wp c end_ ls arms
  | [], arms, wp, c => by cases arms <;> simp [compileArmsS, armsG]
  | _ :: _, [], wp, c => by simp [compileArmsS, armsG]
  | l :: ls, (pat, body) :: rest, wp, c => by
    rw [compileArmsS_cons, armsG, armsS_eq sd end_ ls rest]

/-- length of the block of an arm placed at `wpk` with counter `ck`:
`Block; armPre; body; End; Jump end` -/
def armLen {β : Type} (f : Nat → Nat → β → Out) (wpk ck : Nat) (pat : Pat) (body : β) : Nat :=
  1 + (armPre pat).length + (f (wpk + 1 + (armPre pat).length) ck body).code.length + 2

/-- start address and label counter of every arm's block -/
def armStarts {β : Type} (f : Nat → Nat → β → Out) : Nat → Nat → List (Pat × β) → List (Nat × Nat)
  | _, _, [] => []
  | wp, c, (pat, body) :: rest =>
    (wp, c) :: armStarts f (wp + armLen f wp c pat body) (f (wp + 1 + (armPre pat).length) c body).c rest

theorem armStarts_lb {β : Type} (f : Nat → Nat → β → Out) : ∀ (arms : List (Pat × β)) (wp c : Nat) (e : Nat × Nat),
    e ∈ armStarts f wp c arms → wp ≤ e.1
  | [], _, _, _, h => by simp [armStarts] at h
  | (pat, body) :: rest, wp, c, e, h => by
    simp only [armStarts, List.mem_cons] at h
    rcases h with rfl | h
    · exact Nat.le_refl _
    · have := armStarts_lb f rest _ _ e h; omega

/-- the arms' blocks are laid out one after the other: an earlier arm's block ends before a later one starts -/
theorem armStarts_lt {β : Type} (f : Nat → Nat → β → Out) : ∀ (arms : List (Pat × β)) (wp c i k : Nat)
    (wi ci wk ck : Nat) (pi : Pat) (bi : β), i < k →
    (armStarts f wp c arms)[i]? = some (wi, ci) → arms[i]? = some (pi, bi) →
    (armStarts f wp c arms)[k]? = some (wk, ck) → wi + armLen f wi ci pi bi ≤ wk
  | [], _, _, _, _, _, _, _, _, _, _, _, h, _, _ => by simp [armStarts] at h
  | (p0, b0) :: rest, wp, c, i, k, wi, ci, wk, ck, pi, bi, hik, hi, hai, hk => by
    simp only [armStarts] at hi hk
    cases k with
    | zero => omega
    | succ k' =>
      simp only [List.getElem?_cons_succ] at hk
      cases i with
      | zero =>
        simp only [List.getElem?_cons_zero, Option.some.injEq, Prod.mk.injEq] at hi hai
        obtain ⟨rfl, rfl⟩ := hi
        obtain ⟨rfl, rfl⟩ := hai
        exact armStarts_lb f rest _ _ _ (List.mem_of_getElem? hk)
      | succ i' =>
        simp only [List.getElem?_cons_succ] at hi hai
        exact armStarts_lt f rest _ _ i' k' wi ci wk ck pi bi (by omega) hi hai hk

/-- where arm `k` sits (`armStarts`), what its label resolves to, and its code -/
theorem arm_layoutG {β : Type} (f : Nat → Nat → β → Out) (end_ : Label) :
    ∀ (arms : List (Pat × β)) (ls : List Label) (wp c k : Nat) (pat : Pat) (body : β) (lk : Label) (wpk ck : Nat),
    arms[k]? = some (pat, body) → ls[k]? = some lk → (armStarts f wp c arms)[k]? = some (wpk, ck) →
    CodeAt S.labels S.m.prog wp (armsG f wp c end_ ls arms).code →
    DefsOk S.labels (armsG f wp c end_ ls arms).defs →
    lookupLabel S.labels lk = some wpk ∧
      CodeAt S.labels S.m.prog wpk (.Block :: armPre pat ++ (f (wpk + 1 + (armPre pat).length) ck body).code ++ [.End, jmp end_])
  | [], _, _, _, _, _, _, _, _, _, h, _, _, _, _ => by simp at h
  | _ :: _, [], _, _, _, _, _, _, _, _, _, h, _, _, _ => by simp at h
  | (p0, b0) :: rest, l0 :: ls, wp, c, k, pat, body, lk, wpk, ck, ha, hl, hs, hcode, hdefs => by
    simp only [armsG] at hcode hdefs
    rw [codeAt_append] at hcode
    rw [List.cons_append, defsOk_cons, defsOk_append] at hdefs
    simp only [armStarts] at hs
    cases k with
    | zero =>
      simp only [List.getElem?_cons_zero, Option.some.injEq, Prod.mk.injEq] at ha hl hs
      obtain ⟨rfl, rfl⟩ := ha
      obtain ⟨rfl, rfl⟩ := hs
      subst hl
      exact ⟨hdefs.1, hcode.1⟩
    | succ k =>
      simp only [List.getElem?_cons_succ] at ha hl hs
      have hlen : wp + (Instruction.Block :: armPre p0 ++ (f (wp + 1 + (armPre p0).length) c b0).code ++
          [Instruction.End, jmp end_]).length = wp + armLen f wp c p0 b0 := by
        unfold armLen; lens
      rw [hlen] at hcode
      have hc2 : CodeAt S.labels S.m.prog (wp + armLen f wp c p0 b0)
          (armsG f (wp + armLen f wp c p0 b0) (f (wp + 1 + (armPre p0).length) c b0).c end_ ls rest).code := by
        have e : wp + armLen f wp c p0 b0 = wp + 1 + (armPre p0).length + (f (wp + 1 + (armPre p0).length) c b0).code.length + 2 := by
          unfold armLen; omega
        rw [e]; rw [e] at hcode; exact hcode.2
      have hd2 : DefsOk S.labels
          (armsG f (wp + armLen f wp c p0 b0) (f (wp + 1 + (armPre p0).length) c b0).c end_ ls rest).defs := by
        have e : wp + armLen f wp c p0 b0 = wp + 1 + (armPre p0).length + (f (wp + 1 + (armPre p0).length) c b0).code.length + 2 := by
          unfold armLen; omega
        rw [e]; exact hdefs.2.2
      exact arm_layoutG f end_ rest ls _ _ k pat body lk wpk ck ha hl hs hc2 hd2

/-- `Block`, then the arm's binding (or `Pop`), with the pcs executed -/
theorem arm_prologue_via {m : Machine} {labels : List (Label × Nat)} (pat : Pat) (v : Val) (env env' : Env)
    (σ : List Val) (fr : List Env) (K : List Nat) (pc : Nat) (lg : Log)
    (hcode : CodeAt labels m.prog pc (.Block :: armPre pat))
    (hb : bindArm m.p ([] :: env) v pat = some env') :
    StepsVia m ⟨v :: σ, env :: fr, K, pc, lg⟩ (List.range' pc (1 + (armPre pat).length))
      ⟨σ, env' :: fr, K, pc + 1 + (armPre pat).length, lg⟩ := by
  rw [codeAt_cons] at hcode
  simp only [res] at hcode
  have hpop : ∀ (h : CodeAt labels m.prog (pc + 1) [Instruction.Pop]),
      StepsVia m ⟨v :: σ, env :: fr, K, pc, lg⟩ [pc, pc + 1] ⟨σ, ([] :: env) :: fr, K, pc + 1 + 1, lg⟩ := by
    intro h
    simp only [codeAt_single, res] at h
    exact via_cons (step_block hcode.1) (via_cons (step_pop h) (.refl _))
  cases pat with
  | default =>
    simp only [bindArm, Option.some.injEq] at hb
    subst hb
    simp only [armPre, List.length_singleton] at hcode ⊢
    exact hpop hcode.2
  | values vs =>
    simp only [bindArm] at hb
    simp only [armPre] at hcode ⊢
    cases hf : firstBinding vs with
    | none =>
      rw [hf] at hb hcode
      simp only [Option.some.injEq] at hb
      subst hb
      simp only [List.length_singleton]
      exact hpop hcode.2
    | some wx =>
      obtain ⟨w, x⟩ := wx
      rw [hf] at hb hcode
      simp only at hb hcode ⊢
      cases hu : unwrap w v with
      | none => rw [hu] at hb; cases hb
      | some inner =>
        rw [hu] at hb
        simp only [codeAt_cons, CodeAt.nil, and_true, res] at hcode
        exact via_cons (step_block hcode.1) (via_cons (step_unwrap hcode.2.1 hu) (via_cons (step_def hcode.2.2 hb) (.refl _)))

/-- **whole `match`, from the dispatch to the end, generically in the body compiler.**
The tests sit at `wpT`, the arms behind them; the scrutinee value `sv` is on the stack.  Given a
description of the dispatch (`TestsRun`: arm `k` selected), the arm's binding and a run of the
selected body, the VM executes exactly `psT ++ prologue ++ psB ++ [End, Jump]` and arrives at the
end label; every pc of this trace is a pc of a sub-run (literal patterns evaluated so far, the
taken body) or a glue pc inside the tests or inside arm `k`'s own block — hence outside the block of
every other arm. -/
theorem match_core {β : Type} (f : Nat → Nat → β → Out) (arms : List (Pat × β)) (end_ : Label) (endAddr : Nat)
    (wpT cT : Nat) (sv : Val) (σ : List Val) (env : Env) (fr : List Env) (K : List Nat) (lg1 lg2 lg3 : Log)
    (k : Nat) (lk : Label) (psT subT glT : List Nat) (pat : Pat) (body : β) (wpk ck : Nat) (env' : Env)
    (psB : List Nat) (σ' : List Val) (b : List (Nat × Val)) (env'' : Env) (fr' : List Env) (K' : List Nat)
    (hcT : CodeAt S.labels S.m.prog wpT (compileTestsP S.m.p.structs wpT cT (arms.map (·.1))).1.code)
    (hcA : CodeAt S.labels S.m.prog (wpT + (compileTestsP S.m.p.structs wpT cT (arms.map (·.1))).1.code.length)
      (armsG f (wpT + (compileTestsP S.m.p.structs wpT cT (arms.map (·.1))).1.code.length)
        (compileTestsP S.m.p.structs wpT cT (arms.map (·.1))).1.c end_
        (compileTestsP S.m.p.structs wpT cT (arms.map (·.1))).2 arms).code)
    (hdA : DefsOk S.labels
      (armsG f (wpT + (compileTestsP S.m.p.structs wpT cT (arms.map (·.1))).1.code.length)
        (compileTestsP S.m.p.structs wpT cT (arms.map (·.1))).1.c end_
        (compileTestsP S.m.p.structs wpT cT (arms.map (·.1))).2 arms).defs)
    (hend : lookupLabel S.labels end_ = some endAddr)
    (hT : TestsRun S sv σ (env :: fr) K wpT cT (arms.map (·.1)) lg1 k lk psT subT glT lg2)
    (hk : arms[k]? = some (pat, body))
    (hst : (armStarts f (wpT + (compileTestsP S.m.p.structs wpT cT (arms.map (·.1))).1.code.length)
      (compileTestsP S.m.p.structs wpT cT (arms.map (·.1))).1.c arms)[k]? = some (wpk, ck))
    (hb : bindArm S.m.p ([] :: env) sv pat = some env')
    (hB : StepsVia S.m ⟨σ, env' :: fr, K, wpk + 1 + (armPre pat).length, lg2⟩ psB
      ⟨σ', (b :: env'') :: fr', K',
        wpk + 1 + (armPre pat).length + (f (wpk + 1 + (armPre pat).length) ck body).code.length, lg3⟩) :
    StepsVia S.m ⟨sv :: σ, env :: fr, K, wpT, lg1⟩
      (psT ++ List.range' wpk (1 + (armPre pat).length) ++ psB ++
        [wpk + 1 + (armPre pat).length + (f (wpk + 1 + (armPre pat).length) ck body).code.length,
         wpk + 1 + (armPre pat).length + (f (wpk + 1 + (armPre pat).length) ck body).code.length + 1])
      ⟨σ', env'' :: fr', K', endAddr, lg3⟩ ∧
    ∀ pc ∈ (psT ++ List.range' wpk (1 + (armPre pat).length) ++ psB ++
        [wpk + 1 + (armPre pat).length + (f (wpk + 1 + (armPre pat).length) ck body).code.length,
         wpk + 1 + (armPre pat).length + (f (wpk + 1 + (armPre pat).length) ck body).code.length + 1]),
      pc ∈ subT ++ psB ∨
      ((InRange wpT (compileTestsP S.m.p.structs wpT cT (arms.map (·.1))).1.code.length pc ∨
          InRange wpk (armLen f wpk ck pat body) pc) ∧
        ∀ (i wi ci : Nat) (pi : Pat) (bi : β), i ≠ k →
          (armStarts f (wpT + (compileTestsP S.m.p.structs wpT cT (arms.map (·.1))).1.code.length)
            (compileTestsP S.m.p.structs wpT cT (arms.map (·.1))).1.c arms)[i]? = some (wi, ci) →
          arms[i]? = some (pi, bi) → ¬ InRange wi (armLen f wi ci pi bi) pc) := by
  have hlab := tests_label hT
  obtain ⟨hlk, hcArm⟩ := arm_layoutG S f end_ arms _ _ _ k pat body lk wpk ck hk hlab hst hcA hdA
  have hcArm' : CodeAt S.labels S.m.prog wpk ((Instruction.Block :: armPre pat) ++
      (f (wpk + 1 + (armPre pat).length) ck body).code ++ [Instruction.End, jmp end_]) := by
    simpa [List.append_assoc] using hcArm
  rw [codeAt_append, codeAt_append] at hcArm'
  obtain ⟨⟨hcPre, _⟩, hcTail⟩ := hcArm'
  simp only [codeAt_cons, CodeAt.nil, and_true, res_jmp hend] at hcTail
  simp only [res] at hcTail
  refine ⟨?_, ?_⟩
  · have h1 := tests_via hT hcT hlk
    have h2 := arm_prologue_via (m := S.m) (labels := S.labels) pat sv env env' σ fr K wpk lg2 hcPre hb
    have h3 : StepsVia S.m ⟨σ', (b :: env'') :: fr', K',
          wpk + 1 + (armPre pat).length + (f (wpk + 1 + (armPre pat).length) ck body).code.length, lg3⟩
        [wpk + 1 + (armPre pat).length + (f (wpk + 1 + (armPre pat).length) ck body).code.length,
         wpk + 1 + (armPre pat).length + (f (wpk + 1 + (armPre pat).length) ck body).code.length + 1]
        ⟨σ', env'' :: fr', K', endAddr, lg3⟩ :=
      via_cons (step_end (prog_at_cast hcTail.1 (by lens)))
        (via_cons (step_jump (prog_at_cast hcTail.2 (by lens))) (.refl _))
    exact (((h1.trans h2).trans hB).trans h3)
  · intro pc hpc
    simp only [List.mem_append, List.mem_range'_1, List.mem_cons, List.not_mem_nil, or_false] at hpc ⊢
    have hother : (wpk ≤ pc ∧ pc < wpk + armLen f wpk ck pat body) →
        ∀ (i wi ci : Nat) (pi : Pat) (bi : β), i ≠ k →
          (armStarts f (wpT + (compileTestsP S.m.p.structs wpT cT (arms.map (·.1))).1.code.length)
            (compileTestsP S.m.p.structs wpT cT (arms.map (·.1))).1.c arms)[i]? = some (wi, ci) →
          arms[i]? = some (pi, bi) → ¬ InRange wi (armLen f wi ci pi bi) pc := by
      intro hin i wi ci pi bi hik hsi hai
      simp only [InRange]
      rcases Nat.lt_or_gt_of_ne hik with hlt | hgt
      · have := armStarts_lt f arms _ _ i k wi ci wpk ck pi bi hlt hsi hai hst
        omega
      · have := armStarts_lt f arms _ _ k i wpk ck wi ci pat body hgt hst hk hsi
        omega
    have hblock : (wpk ≤ pc ∧ pc < wpk + armLen f wpk ck pat body) →
        (pc ∈ subT ∨ pc ∈ psB) ∨
        ((InRange wpT (compileTestsP S.m.p.structs wpT cT (arms.map (·.1))).1.code.length pc ∨
            InRange wpk (armLen f wpk ck pat body) pc) ∧
          ∀ (i wi ci : Nat) (pi : Pat) (bi : β), i ≠ k →
            (armStarts f (wpT + (compileTestsP S.m.p.structs wpT cT (arms.map (·.1))).1.code.length)
              (compileTestsP S.m.p.structs wpT cT (arms.map (·.1))).1.c arms)[i]? = some (wi, ci) →
            arms[i]? = some (pi, bi) → ¬ InRange wi (armLen f wi ci pi bi) pc) :=
      fun hin => Or.inr ⟨Or.inr hin, hother hin⟩
    rcases hpc with ((hp | hp) | hp) | hp
    · rcases tests_sub_or_glue hT pc hp with hs | hg
      · exact Or.inl (Or.inl hs)
      · have hbd := tests_glue_bounds hT pc hg
        refine Or.inr ⟨Or.inl hbd, ?_⟩
        intro i wi ci pi bi _ hsi _
        have := armStarts_lb f arms _ _ _ (List.mem_of_getElem? hsi)
        simp only [InRange]; simp only at this; omega
    · exact hblock (by unfold armLen; omega)
    · exact Or.inl (Or.inr hp)
    · exact hblock (by unfold armLen; rcases hp with rfl | rfl <;> omega)


/-! ## the run descriptions exist whenever the evaluator takes that branch / arm (C22 simulation) -/

theorem armStarts_length {β : Type} (f : Nat → Nat → β → Out) : ∀ (arms : List (Pat × β)) (wp c : Nat),
    (armStarts f wp c arms).length = arms.length
  | [], _, _ => rfl
  | (pat, body) :: rest, wp, c => by simp [armStarts, armStarts_length f rest]

/-- the labels defined by arm `k`'s body resolve -/
theorem arm_defsG {β : Type} (f : Nat → Nat → β → Out) (end_ : Label) :
    ∀ (arms : List (Pat × β)) (ls : List Label) (wp c k : Nat) (pat : Pat) (body : β) (wpk ck : Nat),
    arms[k]? = some (pat, body) → k < ls.length → (armStarts f wp c arms)[k]? = some (wpk, ck) →
    DefsOk S.labels (armsG f wp c end_ ls arms).defs →
    DefsOk S.labels (f (wpk + 1 + (armPre pat).length) ck body).defs
  | [], _, _, _, _, _, _, _, _, h, _, _, _ => by simp at h
  | _ :: _, [], _, _, _, _, _, _, _, _, h, _, _ => by simp at h
  | (p0, b0) :: rest, l0 :: ls, wp, c, k, pat, body, wpk, ck, ha, hl, hs, hdefs => by
    simp only [armsG] at hdefs
    rw [List.cons_append, defsOk_cons, defsOk_append] at hdefs
    simp only [armStarts] at hs
    cases k with
    | zero =>
      simp only [List.getElem?_cons_zero, Option.some.injEq, Prod.mk.injEq] at ha hs
      obtain ⟨rfl, rfl⟩ := ha
      obtain ⟨rfl, rfl⟩ := hs
      exact hdefs.2.1
    | succ k =>
      simp only [List.getElem?_cons_succ] at ha hs
      simp only [List.length_cons] at hl
      have e : wp + armLen f wp c p0 b0 = wp + 1 + (armPre p0).length + (f (wp + 1 + (armPre p0).length) c b0).code.length + 2 := by
        unfold armLen; omega
      rw [e] at hs
      exact arm_defsG f end_ rest ls _ _ k pat body wpk ck ha (by omega) hs hdefs.2.2

/-- which branch of a chain the evaluator takes: `some k` — the condition of branch `k` is the
first to evaluate to `true`; `none` — all conditions evaluate to `false`; with the log after the
last condition evaluated.  (`none` overall: some condition does not evaluate to a boolean.) -/
def chainSel (p : Program) (n : Nat) (env : Env) : Log → List (Expr × List Stmt) → Option (Option Nat × Log)
  | log, [] => some (none, log)
  | log, (c, _) :: rest => match evalExpr p n env log c with
    | .val (.bool true) l => some (some 0, l)
    | .val (.bool false) l => match chainSel p n env l rest with
      | some (k, l') => some (k.map (· + 1), l')
      | none => none
    | _ => none

/-- **branch `k` taken by the evaluator ⇒ the VM's run has the `ChainRun` description with `k`** -/
theorem chainRun_of_eval_taken (hP : ProgOk S) (n : Nat) (env : Env) (junk base : List Val) (fr : List Env) (K : List Nat)
    (endL : Label) (endAddr : Nat) :
    ∀ (brs : List (Expr × List Stmt)) (wp c : Nat) (log : Log) (k : Nat) (l1 : Log) (cnd : Expr) (ss : List Stmt)
      (b : List (Nat × Val)) (env' : Env) (l2 : Log),
    CodeAt S.labels S.m.prog wp (compileBranches S.m.p.structs wp c endL brs).code →
    DefsOk S.labels (compileBranches S.m.p.structs wp c endL brs).defs →
    chainSel S.m.p n env log brs = some (some k, l1) → brs[k]? = some (cnd, ss) →
    evalStmts S.m.p n ([] :: env) l1 ss = .val (b :: env') l2 →
    ∃ ps sub gl, ChainRun S (junk ++ base) env fr (base.length :: K) endAddr wp c brs log true k ps sub gl
      ⟨junk ++ base, env' :: fr, base.length :: K, endAddr, l2⟩
  | [], _, _, _, _, _, _, _, _, _, _, _, _, h, _, _ => by simp [chainSel] at h
  | (c0, ss0) :: rest, wp, c, log, k, l1, cnd, ss, b, env', l2, hcode, hdefs, hsel, hk, hev => by
    rw [compileBranches_cons] at hcode hdefs
    simp only [defsOk_append, defsOk_cons, DefsOk.nil, and_true] at hdefs
    obtain ⟨⟨⟨hdC, hdB⟩, _⟩, hdR⟩ := hdefs
    simp only [codeAt_append] at hcode
    obtain ⟨⟨⟨⟨hcC, _⟩, hcB⟩, _⟩, hcR⟩ := hcode
    have ihc := (sim_all S hP n).e c0 env log wp (c + 1) junk base fr K (supE_all c0) hcC hdC
    simp only [chainSel] at hsel
    cases hrc : evalExpr S.m.p n env log c0 with
    | val x l =>
      rw [hrc] at hsel ihc
      simp only [Outcome] at ihc
      cases x <;> try (simp at hsel; done)
      rename_i bv
      cases bv with
      | true =>
        simp only [Option.some.injEq, Prod.mk.injEq] at hsel
        obtain ⟨hk0, rfl⟩ := hsel
        cases hk0
        simp only [List.getElem?_cons_zero, Option.some.injEq, Prod.mk.injEq] at hk
        obtain ⟨rfl, rfl⟩ := hk
        have ihb := (sim_all S hP n).ss ss0 ([] :: env) l _ _ junk base fr K (supSs_all ss0)
          (codeAt_cast hcB (by lens)) hdB
        rw [hev] at ihb
        simp only [Outcome] at ihb
        obtain ⟨psC, hC⟩ := StepsVia.of_steps ihc
        obtain ⟨psB, hB⟩ := StepsVia.of_steps ihb
        exact ⟨_, _, _, ChainRun.take (S := S) (rest := rest) hC hB⟩
      | false =>
        dsimp only at hsel
        cases hrr : chainSel S.m.p n env l rest with
        | none => rw [hrr] at hsel; simp at hsel
        | some kl =>
          obtain ⟨k', l'⟩ := kl
          rw [hrr] at hsel
          simp only [Option.some.injEq, Prod.mk.injEq] at hsel
          obtain ⟨hk', rfl⟩ := hsel
          cases k' with
          | none => simp at hk'
          | some k'' =>
            simp only [Option.map_some, Option.some.injEq] at hk'
            subst hk'
            simp only [List.getElem?_cons_succ] at hk
            obtain ⟨ps, sub, gl, hR⟩ := chainRun_of_eval_taken hP n env junk base fr K endL endAddr rest _ _ l k'' l' cnd ss b env' l2
              (codeAt_cast hcR (by simp only [brNext]; lens)) hdR hrr hk hev
            obtain ⟨psC, hC⟩ := StepsVia.of_steps ihc
            exact ⟨_, _, _, ChainRun.skip (S := S) hC hR⟩
    | _ => rw [hrc] at hsel; simp at hsel

/-- **no branch taken by the evaluator ⇒ the VM's run has the `ChainRun` description with `taken = false`** -/
theorem chainRun_of_eval_none (hP : ProgOk S) (n : Nat) (env : Env) (junk base : List Val) (fr : List Env) (K : List Nat)
    (endL : Label) (endAddr : Nat) :
    ∀ (brs : List (Expr × List Stmt)) (wp c : Nat) (log l1 : Log),
    CodeAt S.labels S.m.prog wp (compileBranches S.m.p.structs wp c endL brs).code →
    DefsOk S.labels (compileBranches S.m.p.structs wp c endL brs).defs →
    chainSel S.m.p n env log brs = some (none, l1) →
    ∃ ps sub gl t, ChainRun S (junk ++ base) env fr (base.length :: K) endAddr wp c brs log false brs.length ps sub gl t ∧
      t.log = l1
  | [], wp, c, log, l1, _, _, h => by
    simp only [chainSel, Option.some.injEq, Prod.mk.injEq, true_and] at h
    subst h
    exact ⟨_, _, _, _, ChainRun.nil wp c log, rfl⟩
  | (c0, ss0) :: rest, wp, c, log, l1, hcode, hdefs, hsel => by
    rw [compileBranches_cons] at hcode hdefs
    simp only [defsOk_append, defsOk_cons, DefsOk.nil, and_true] at hdefs
    obtain ⟨⟨⟨hdC, _⟩, _⟩, hdR⟩ := hdefs
    simp only [codeAt_append] at hcode
    obtain ⟨⟨⟨⟨hcC, _⟩, _⟩, _⟩, hcR⟩ := hcode
    have ihc := (sim_all S hP n).e c0 env log wp (c + 1) junk base fr K (supE_all c0) hcC hdC
    simp only [chainSel] at hsel
    cases hrc : evalExpr S.m.p n env log c0 with
    | val x l =>
      rw [hrc] at hsel ihc
      simp only [Outcome] at ihc
      cases x <;> try (simp at hsel; done)
      rename_i bv
      cases bv with
      | true => simp at hsel
      | false =>
        dsimp only at hsel
        cases hrr : chainSel S.m.p n env l rest with
        | none => rw [hrr] at hsel; simp at hsel
        | some kl =>
          obtain ⟨k', l'⟩ := kl
          rw [hrr] at hsel
          simp only [Option.some.injEq, Prod.mk.injEq] at hsel
          obtain ⟨hk', rfl⟩ := hsel
          cases k' with
          | some k'' => simp at hk'
          | none =>
            obtain ⟨ps, sub, gl, t, hR, ht⟩ := chainRun_of_eval_none hP n env junk base fr K endL endAddr rest _ _ l l'
              (codeAt_cast hcR (by simp only [brNext]; lens)) hdR hrr
            obtain ⟨psC, hC⟩ := StepsVia.of_steps ihc
            exact ⟨_, _, _, _, ChainRun.skip (S := S) hC hR, ht⟩
    | _ => rw [hrc] at hsel; simp at hsel

/-! ### `match` -/

section matchSem
variable {S}

/-- `matchVals` answering `h` ⇒ the tests' run has the `ValsRun` description with `hit = h` -/
theorem valsRun_of_matchVals (hP : ProgOk S) (v : Val) (env : Env) (junk base : List Val) (fr : List Env) (K : List Nat)
    (arm : Label) :
    ∀ (vs : List Expr) (n wp c : Nat) (log : Log) (h : Bool) (l' : Log),
    CodeAt S.labels S.m.prog wp (compilePatVals S.m.p.structs wp c arm vs).code →
    DefsOk S.labels (compilePatVals S.m.p.structs wp c arm vs).defs →
    matchVals S.m.p n env log v vs = .val h l' →
    ∃ ps sub gl, ValsRun S v (junk ++ base) (env :: fr) (base.length :: K) arm wp c vs log h ps sub gl l'
  | _, 0, _, _, _, _, _, _, _, hm => by simp [matchVals] at hm
  | [], n + 1, wp, c, log, h, l', _, _, hm => by
    simp only [matchVals, Res.val.injEq] at hm
    obtain ⟨rfl, rfl⟩ := hm
    exact ⟨_, _, _, ValsRun.nil wp c log⟩
  | pe :: rest, n + 1, wp, c, log, h, l', hcode, hdefs, hm => by
    simp only [matchVals] at hm
    cases hb : bindingOf pe with
    | some wx =>
      obtain ⟨w, x⟩ := wx
      have hw : wrapOfBinding pe = some w := by simp [wrapOfBinding_eq, hb]
      rw [hb] at hm
      simp only [compilePatVals, hw, codeAt_append] at hcode hdefs
      by_cases hiw : isWrap w v = true
      · simp only [hiw, if_true, Res.val.injEq] at hm
        obtain ⟨rfl, rfl⟩ := hm
        exact ⟨_, _, _, ValsRun.bindHit (S := S) hw hiw⟩
      · have hiw' : isWrap w v = false := by simpa using hiw
        simp only [hiw', Bool.false_eq_true, if_false] at hm
        obtain ⟨ps, sub, gl, hR⟩ := valsRun_of_matchVals hP v env junk base fr K arm rest n (wp + 3) c log h l'
          (codeAt_cast hcode.2 (by lens)) hdefs hm
        exact ⟨_, _, _, ValsRun.bindMiss (S := S) hw hiw' hR⟩
    | none =>
      have hw : wrapOfBinding pe = none := by simp [wrapOfBinding_eq, hb]
      rw [hb] at hm
      simp only [compilePatVals, hw, defsOk_append] at hcode hdefs
      have hcode' : CodeAt S.labels S.m.prog wp ([Instruction.Dup] ++ (compileExpr S.m.p.structs (wp + 1) c pe).code ++
          [Instruction.Eq, br arm] ++
          (compilePatVals S.m.p.structs (wp + 1 + (compileExpr S.m.p.structs (wp + 1) c pe).code.length + 2)
            (compileExpr S.m.p.structs (wp + 1) c pe).c arm rest).code) := by
        simpa [List.append_assoc] using hcode
      simp only [codeAt_append] at hcode'
      obtain ⟨⟨⟨_, hcE⟩, _⟩, hcR⟩ := hcode'
      have ihe := (sim_all S hP n).e pe env log (wp + 1) c (v :: v :: junk) base fr K (supE_all pe)
        (codeAt_cast hcE (by lens)) hdefs.1
      cases hre : evalExpr S.m.p n env log pe with
      | val lit l =>
        rw [hre] at hm ihe
        simp only [Outcome] at ihe
        obtain ⟨psE, hE⟩ := StepsVia.of_steps ihe
        dsimp only at hm
        by_cases hbeq : v.beq lit = true
        · simp only [hbeq, if_true, Res.val.injEq] at hm
          obtain ⟨rfl, rfl⟩ := hm
          exact ⟨_, _, _, ValsRun.litHit (S := S) (vs := rest) hw hE hbeq⟩
        · have hbeq' : v.beq lit = false := by simpa using hbeq
          simp only [hbeq', Bool.false_eq_true, if_false] at hm
          obtain ⟨ps, sub, gl, hR⟩ := valsRun_of_matchVals hP v env junk base fr K arm rest n _ _ l h l'
            (codeAt_cast hcR (by lens)) hdefs.2 hm
          exact ⟨_, _, _, ValsRun.litMiss (S := S) hw hE hbeq' hR⟩
      | _ => rw [hre] at hm; simp at hm

/-- `selectArm` answering `k0 + j` ⇒ the dispatch has the `TestsRun` description selecting arm `j` -/
theorem testsRun_of_select (hP : ProgOk S) (v : Val) (env : Env) (junk base : List Val) (fr : List Env) (K : List Nat) :
    ∀ (pats : List Pat) (n wp c k0 : Nat) (log : Log) (k : Nat) (l' : Log),
    CodeAt S.labels S.m.prog wp (compileTestsP S.m.p.structs wp c pats).1.code →
    DefsOk S.labels (compileTestsP S.m.p.structs wp c pats).1.defs →
    selectArm S.m.p n env log v pats k0 = .val k l' →
    ∃ j lk ps sub gl, k = k0 + j ∧ TestsRun S v (junk ++ base) (env :: fr) (base.length :: K) wp c pats log j lk ps sub gl l'
  | _, 0, _, _, _, _, _, _, _, _, hs => by simp [selectArm] at hs
  | [], n + 1, _, _, _, _, _, _, _, _, hs => by simp [selectArm] at hs
  | .default :: rest, n + 1, wp, c, k0, log, k, l', _, _, hs => by
    simp only [selectArm, Res.val.injEq] at hs
    obtain ⟨rfl, rfl⟩ := hs
    exact ⟨0, _, _, _, _, rfl, TestsRun.dflt wp c rest log⟩
  | .values vs :: rest, n + 1, wp, c, k0, log, k, l', hcode, hdefs, hs => by
    simp only [selectArm] at hs
    simp only [compileTestsP, codeAt_append, defsOk_append] at hcode hdefs
    cases hrv : matchVals S.m.p n env log v vs with
    | val h l =>
      rw [hrv] at hs
      obtain ⟨ps, sub, gl, hV⟩ := valsRun_of_matchVals hP v env junk base fr K (Label.anon c) vs n wp (c + 1) log h l
        hcode.1 hdefs.1 hrv
      cases h with
      | true =>
        simp only [Res.val.injEq] at hs
        obtain ⟨rfl, rfl⟩ := hs
        exact ⟨0, _, _, _, _, rfl, TestsRun.hit (S := S) (rest := rest) hV⟩
      | false =>
        dsimp only at hs
        obtain ⟨j, lk, ps', sub', gl', hj, hT⟩ := testsRun_of_select hP v env junk base fr K rest n _ _ (k0 + 1) l k l'
          hcode.2 hdefs.2 hs
        exact ⟨j + 1, lk, _, _, _, by omega, TestsRun.miss (S := S) hV hT⟩
    | _ => rw [hrv] at hs; simp at hs

end matchSem


end AranyaV.Lang
