import AranyaV.Props.C21
/-! Lookup-form specifications of the traversal-queue operations used by
`find_needed_segments` (C16/C17), derived from the C21 theorems: what a queue records per segment
(`Queue.lookup`) after `pop_covered`, `drain_above`, `drain_all`; membership ↔ lookup. -/
namespace AranyaV.Queue

theorem find_of_mem_nodup {l : List Loc} (hn : (segs l).Nodup) {x : Loc} (hx : x ∈ l) :
    l.find? (sameSeg x.seg) = some x := by
  induction l with
  | nil => cases hx
  | cons y ys ih =>
    rw [segs_cons, List.nodup_cons] at hn
    rcases List.mem_cons.mp hx with rfl | hx'
    · simp [List.find?, sameSeg]
    · have hne : y.seg ≠ x.seg := by
        intro h; apply hn.1; rw [h]; exact List.mem_map.mpr ⟨x, hx', rfl⟩
      have : sameSeg x.seg y = false := by simp [sameSeg, hne]
      simp only [List.find?, this]
      exact ih hn.2 hx'

theorem onePerSeg_parts {q : Queue} (h : OnePerSeg q) :
    (segs q.unc).Nodup ∧ (segs q.cov).Nodup ∧ ∀ s, s ∈ segs q.unc → s ∉ segs q.cov := by
  unfold OnePerSeg Queue.all at h
  rw [segs_append, List.nodup_append] at h
  exact ⟨h.1, h.2.1, fun s h1 h2 => h.2.2 s h1 s h2 rfl⟩

theorem mem_unc_iff {q : Queue} (h : OnePerSeg q) {x : Loc} :
    x ∈ q.unc ↔ q.lookup x.seg = some (x.mc, false) := by
  obtain ⟨hu, _, _⟩ := onePerSeg_parts h
  constructor
  · intro hx
    simp [Queue.lookup, find_of_mem_nodup hu hx]
  · intro hl
    unfold Queue.lookup at hl
    cases hf : q.unc.find? (sameSeg x.seg) with
    | some e =>
      rw [hf] at hl
      simp only [Option.some.injEq, Prod.mk.injEq, and_true] at hl
      obtain ⟨hs, hm⟩ := find_some_seg hf
      have : e = x := by cases e; cases x; simp at hs hl; simp [hs, hl]
      rw [← this]; exact hm
    | none =>
      rw [hf] at hl
      cases hc : q.cov.find? (sameSeg x.seg) <;> simp [hc] at hl

theorem mem_cov_iff {q : Queue} (h : OnePerSeg q) {x : Loc} :
    x ∈ q.cov ↔ q.lookup x.seg = some (x.mc, true) := by
  obtain ⟨_, hc, hd⟩ := onePerSeg_parts h
  constructor
  · intro hx
    have hnu : q.unc.find? (sameSeg x.seg) = none := by
      rw [find_none_iff]
      intro hs
      exact hd _ hs (List.mem_map.mpr ⟨x, hx, rfl⟩)
    simp [Queue.lookup, hnu, find_of_mem_nodup hc hx]
  · intro hl
    unfold Queue.lookup at hl
    cases hf : q.unc.find? (sameSeg x.seg) with
    | some e => rw [hf] at hl; simp at hl
    | none =>
      rw [hf] at hl
      cases hcf : q.cov.find? (sameSeg x.seg) with
      | none => simp [hcf] at hl
      | some e =>
        rw [hcf] at hl
        simp only [Option.map_some, Option.some.injEq, Prod.mk.injEq, and_true] at hl
        obtain ⟨hs, hm⟩ := find_some_seg hcf
        have : e = x := by cases e; cases x; simp at hs hl; simp [hs, hl]
        rw [← this]; exact hm

theorem lookup_some_mem {q : Queue} {S m : Nat} {c : Bool} (h : q.lookup S = some (m, c)) :
    (⟨m, S⟩ : Loc) ∈ q.all := by
  unfold Queue.lookup at h
  unfold Queue.all
  cases hf : q.unc.find? (sameSeg S) with
  | some e =>
    rw [hf] at h
    simp only [Option.some.injEq, Prod.mk.injEq] at h
    obtain ⟨hs, hm⟩ := find_some_seg hf
    have : e = ⟨m, S⟩ := by cases e; simp at hs h; simp [hs, h.1]
    rw [← this]; exact List.mem_append_left _ hm
  | none =>
    rw [hf] at h
    cases hcf : q.cov.find? (sameSeg S) with
    | none => simp [hcf] at h
    | some e =>
      rw [hcf] at h
      simp only [Option.map_some, Option.some.injEq, Prod.mk.injEq] at h
      obtain ⟨hs, hm⟩ := find_some_seg hcf
      have : e = ⟨m, S⟩ := by cases e; simp at hs h; simp [hs, h.1]
      rw [← this]; exact List.mem_append_right _ hm

theorem mem_all_lookup {q : Queue} (h : OnePerSeg q) {x : Loc} (hx : x ∈ q.all) :
    ∃ c, q.lookup x.seg = some (x.mc, c) := by
  unfold Queue.all at hx
  rcases List.mem_append.mp hx with hx | hx
  · exact ⟨false, (mem_unc_iff h).mp hx⟩
  · exact ⟨true, (mem_cov_iff h).mp hx⟩

/-- erasing the (only) entry of a segment -/
theorem erase_eq_eraseFirst {l : List Loc} (hn : (segs l).Nodup) {m : Loc} (hm : m ∈ l) :
    l.erase m = eraseFirst (sameSeg m.seg) l := by
  induction l with
  | nil => cases hm
  | cons y ys ih =>
    rw [segs_cons, List.nodup_cons] at hn
    by_cases hy : y = m
    · subst hy; simp [eraseFirst, sameSeg]
    · have hm' : m ∈ ys := by
        rcases List.mem_cons.mp hm with h | h
        · exact absurd h.symm hy
        · exact h
      have hne : y.seg ≠ m.seg := by
        intro h; apply hn.1; rw [h]; exact List.mem_map.mpr ⟨m, hm', rfl⟩
      have h1 : sameSeg m.seg y = false := by simp [sameSeg, hne]
      have h2 : (y == m) = false := by simpa using hy
      simp only [List.erase_cons, h2, eraseFirst, h1, Bool.false_eq_true, if_false]
      rw [ih hn.2 hm']

/-- `pop_covered` in lookup form -/
theorem pop_lookup {q : Queue} (h : OnePerSeg q) :
    match q.popCovered with
    | (none, q') => q.all = [] ∧ q' = q
    | (some (m, c), q') =>
        q.lookup m.seg = some (m.mc, c) ∧ (∀ x ∈ q.all, x.ble m = true) ∧ OnePerSeg q' ∧
        q'.lookup m.seg = none ∧ ∀ t, t ≠ m.seg → q'.lookup t = q.lookup t := by
  have hp := pop_max q
  obtain ⟨hu, hc, hd⟩ := onePerSeg_parts h
  cases hpop : q.popCovered with
  | mk r q' =>
    rw [hpop] at hp
    cases r with
    | none => exact hp
    | some mc =>
      obtain ⟨m, c⟩ := mc
      obtain ⟨_, hmax, h1, h2⟩ := hp
      simp only
      cases c with
      | true =>
        obtain ⟨hm, e1, e2⟩ := h1 rfl
        have hnu : q.unc.find? (sameSeg m.seg) = none := by
          rw [find_none_iff]; intro hs
          exact hd _ hs (List.mem_map.mpr ⟨m, hm, rfl⟩)
        have hq' : q' = ⟨q.unc, eraseFirst (sameSeg m.seg) q.cov⟩ := by
          cases q'; simp at e1 e2; simp [e1, e2, erase_eq_eraseFirst hc hm]
        refine ⟨(mem_cov_iff h).mp hm, hmax, ?_, ?_, ?_⟩
        · rw [hq']
          unfold OnePerSeg Queue.all
          rw [segs_append, List.nodup_append]
          refine ⟨hu, nodup_segs_eraseFirst hc, ?_⟩
          intro a ha b hb hab
          rw [mem_segs_eraseFirst hc] at hb
          exact hd a ha (hab ▸ hb.1)
        · rw [hq']; simp [Queue.lookup, hnu, find_eraseFirst_same hc]
        · intro t ht
          rw [hq']; simp [Queue.lookup, find_eraseFirst_other ht]
      | false =>
        obtain ⟨hm, hmc, e1, e2⟩ := h2 rfl
        have hq' : q' = ⟨eraseFirst (sameSeg m.seg) q.unc, q.cov⟩ := by
          cases q'; simp at e1 e2; simp [e1, e2, erase_eq_eraseFirst hu hm]
        have hnc : q.cov.find? (sameSeg m.seg) = none := by
          rw [find_none_iff]
          exact hd _ (List.mem_map.mpr ⟨m, hm, rfl⟩)
        refine ⟨(mem_unc_iff h).mp hm, hmax, ?_, ?_, ?_⟩
        · rw [hq']
          unfold OnePerSeg Queue.all
          rw [segs_append, List.nodup_append]
          refine ⟨nodup_segs_eraseFirst hu, hc, ?_⟩
          intro a ha b hb hab
          rw [mem_segs_eraseFirst hu] at ha
          exact hd a ha.1 (hab ▸ hb)
        · rw [hq']; simp [Queue.lookup, hnc, find_eraseFirst_same hu]
        · intro t ht
          rw [hq']; simp [Queue.lookup, find_eraseFirst_other ht]

theorem find_filter_nodup {l : List Loc} (hn : (segs l).Nodup) (p : Loc → Bool) (t : Nat) :
    (l.filter p).find? (sameSeg t) = (l.find? (sameSeg t)).filter p := by
  induction l with
  | nil => simp
  | cons y ys ih =>
    rw [segs_cons, List.nodup_cons] at hn
    by_cases hy : sameSeg t y = true
    · have hyt : y.seg = t := by simpa [sameSeg] using hy
      have hnone : ys.find? (sameSeg t) = none := by
        rw [find_none_iff]; rw [← hyt]; exact hn.1
      by_cases hp : p y = true
      · simp [List.filter, hp, List.find?, hy, Option.filter]
      · have hp' : p y = false := by simpa using hp
        simp only [List.filter, hp', List.find?, hy, Option.filter]
        rw [ih hn.2, hnone]; simp [Option.filter]
    · have hy' : sameSeg t y = false := by simpa using hy
      by_cases hp : p y = true
      · simp only [List.filter, hp, List.find?, hy']
        exact ih hn.2
      · have hp' : p y = false := by simpa using hp
        simp only [List.filter, hp', List.find?, hy']
        exact ih hn.2

theorem nodup_segs_filter {l : List Loc} (hn : (segs l).Nodup) (p : Loc → Bool) :
    (segs (l.filter p)).Nodup := by
  unfold segs at *
  exact List.Nodup.sublist (List.Sublist.map _ List.filter_sublist) hn

/-- `drain_above` in lookup form: the emitted entries are the uncovered ones above the threshold;
what stays are the entries at or below it, flags unchanged -/
theorem drain_lookup {q : Queue} (h : OnePerSeg q) (thr : Nat) :
    (∀ x, x ∈ (q.drainAbove thr).1 ↔ q.lookup x.seg = some (x.mc, false) ∧ thr < x.mc) ∧
    OnePerSeg (q.drainAbove thr).2 ∧
    ∀ t, (q.drainAbove thr).2.lookup t = (q.lookup t).filter (fun e => e.1 ≤ thr) := by
  obtain ⟨hu, hc, hd⟩ := onePerSeg_parts h
  obtain ⟨e1, e2, e3⟩ := drain_above_spec q thr
  refine ⟨?_, ?_, ?_⟩
  · intro x
    rw [(drain_above_mem q thr x).1, mem_unc_iff h]
  · unfold OnePerSeg Queue.all
    rw [e2, e3, segs_append, List.nodup_append]
    refine ⟨nodup_segs_filter hu _, nodup_segs_filter hc _, ?_⟩
    intro a ha b hb hab
    have ha' : a ∈ segs q.unc := by
      unfold segs at *
      obtain ⟨x, hx, rfl⟩ := List.mem_map.mp ha
      exact List.mem_map.mpr ⟨x, (List.mem_filter.mp hx).1, rfl⟩
    have hb' : b ∈ segs q.cov := by
      unfold segs at *
      obtain ⟨x, hx, rfl⟩ := List.mem_map.mp hb
      exact List.mem_map.mpr ⟨x, (List.mem_filter.mp hx).1, rfl⟩
    exact hd a ha' (hab ▸ hb')
  · intro t
    unfold Queue.lookup
    rw [e2, e3, find_filter_nodup hu, find_filter_nodup hc]
    cases hfu : q.unc.find? (sameSeg t) with
    | some e =>
      by_cases hle : e.mc ≤ thr
      · simp [Option.filter, hle]
      · -- dropped from the uncovered region; not in the covered region either
        have hnc : q.cov.find? (sameSeg t) = none := by
          rw [find_none_iff]
          obtain ⟨hs, hm⟩ := find_some_seg hfu
          exact hd _ (List.mem_map.mpr ⟨e, hm, hs⟩)
        simp [Option.filter, hle, hnc]
    | none =>
      cases hfc : q.cov.find? (sameSeg t) with
      | none => simp [Option.filter]
      | some e =>
        by_cases hle : e.mc ≤ thr <;> simp [Option.filter, hle]

/-- `drain_all`: exactly the uncovered entries are emitted -/
theorem drainAll_lookup {q : Queue} (h : OnePerSeg q) :
    ∀ x, x ∈ q.drainAll.1 ↔ q.lookup x.seg = some (x.mc, false) := by
  intro x
  rw [(drain_all_spec q).1, mem_unc_iff h]

theorem allCovered_lookup {q : Queue} (h : OnePerSeg q) (ha : q.allCovered = true) :
    ∀ S m, q.lookup S ≠ some (m, false) := by
  intro S m hl
  have : (⟨m, S⟩ : Loc) ∈ q.unc := (mem_unc_iff h).mpr hl
  simp [Queue.allCovered] at ha
  rw [ha] at this; cases this

theorem empty_lookup {q : Queue} (ha : q.all = []) : ∀ S, q.lookup S = none := by
  intro S
  unfold Queue.all at ha
  have h1 : q.unc = [] := (List.append_eq_nil_iff.mp ha).1
  have h2 : q.cov = [] := (List.append_eq_nil_iff.mp ha).2
  simp [Queue.lookup, h1, h2]

theorem new_lookup (S : Nat) : Queue.new.lookup S = none := by
  simp [Queue.lookup, Queue.new]

theorem new_onePerSeg : OnePerSeg Queue.new := by
  simp [OnePerSeg, Queue.new, Queue.all, segs]

end AranyaV.Queue
