import AranyaV.Proofs.Trx
/-!
# Proofs.TrxClient — commit, init, actions and the client LTS keep the invariants
-/
namespace AranyaV.Trx
open AranyaV.Spec AranyaV.Gen

/-- what must hold of an open transaction relative to the committed store: a transaction that has
not read the heads is pristine; one that has read them holds a stamp that is not from the future,
and if its stamp is the current one it satisfies `TrxInv` -/
def TrxOK (st : Store) (t : Trx) : Prop :=
  match t.offset with
  | none => t = {}
  | some o => o ≤ st.stamp ∧ (o = st.stamp → TrxInv st t)

structure ClientInv (cl : Client) : Prop where
  store : ∀ st, cl.store = some st → StoreInv st
  trxs : ∀ s t, (s, t) ∈ cl.trxs →
    match cl.store with
    | none => t = {}
    | some st => TrxOK st t

theorem TrxOK.fresh (st : Store) : TrxOK st {} := by simp [TrxOK]

/-! ## init -/

theorem isTip_single (c : Cmd) (hc : c.parents = []) (i : Nat) : IsTip [c] i ↔ i = c.id := by
  simp [IsTip, ids, hc]

/-- `Transaction::init` creates storage iff the first command has the graph's id, no parent, a
policy, and its rule accepts; the new store holds exactly that command -/
theorem initCmd_spec (gid : Nat) (i : In) (sink : List SinkEv) :
    (∀ st, (initCmd gid i sink).2 = .ok st →
      i.cmd.id = gid ∧ i.cmd.parents = [] ∧ i.pol = true ∧ (rule i.cmd {}).2.1 = true ∧
      st = { graph := [⟨i.cmd, (rule i.cmd {}).1⟩], heads := [i.cmd.id], stamp := 0, facts := (rule i.cmd {}).1 } ∧
      StoreInv st) ∧
    (i.cmd.id = gid → i.cmd.parents = [] → i.pol = true → (rule i.cmd {}).2.1 = true →
      ∃ st, (initCmd gid i sink).2 = .ok st) ∧
    (∀ e, (initCmd gid i sink).2 = .error e → e = .initError ∨ (e = .rejected ∧ i.cmd.id = gid ∧ i.cmd.parents = [] ∧ i.pol = true)) := by
  unfold initCmd
  by_cases h1 : i.cmd.id = gid
  · by_cases h2 : i.cmd.parents = []
    · by_cases h3 : i.pol = true
      · by_cases h4 : (rule i.cmd {}).2.1 = true
        · simp only [h1, h2, h3, h4, ne_eq, not_true_eq_false, if_false, Bool.not_true, Bool.false_eq_true,
            if_true]
          refine ⟨?_, ?_, ?_⟩
          · intro st hst
            injection hst with hst
            subst hst
            refine ⟨trivial, trivial, trivial, trivial, by simp [h1], ?_⟩
            refine ⟨?_, ?_, by simp, by simp⟩
            · have := WF.snoc (c := i.cmd) WF.nil (by simp [ids]) (by simp [h2]) (by simp [h2]) (by simp [h2])
              simpa using this
            · intro j
              simp only [cmds_cons, cmds_nil, List.mem_singleton]
              rw [isTip_single _ h2, h1]
          · intros; exact ⟨_, rfl⟩
          · intro e he; cases he
        · simp [h1, h2, h3, h4]
      · simp [h1, h2, h3]
    · simp [h1, h2]
  · simp [h1]

/-! ## add_commands -/

theorem addLoop_ok {gid : Nat} {st : Store} (hs : StoreInv st) {t : Trx} (ht : TrxOK st t)
    (sink : List SinkEv) (batch : List In) (n : Nat) :
    TrxOK st (addLoop gid st (snapshot st t) sink batch n).1 := by
  unfold TrxOK at ht ⊢
  cases ho : t.offset with
  | none =>
    rw [ho] at ht
    subst ht
    obtain ⟨hi, hoff, _⟩ := snapshot_inv hs
    have := addLoop_refines gid batch sink n hi
    rw [this.2.1, hoff]
    exact ⟨Nat.le_refl _, fun _ => this.1⟩
  | some o =>
    rw [ho] at ht
    rw [snapshot_some ho, addLoop_offset, ho]
    exact ⟨ht.1, fun e => (addLoop_refines gid batch sink n (ht.2 e)).1⟩

/-- `add_commands` keeps the store invariant and the transaction's; it creates the store only
through a successful `init` and never changes an existing one -/
theorem addCommands_inv {gid : Nat} {store : Option Store} {t : Trx} (sink : List SinkEv) (batch : List In)
    (hst : ∀ st, store = some st → StoreInv st)
    (ht : match (generalizing := false) store with | none => t = {} | some st => TrxOK st t) :
    (match (addCommands gid store t sink batch).1 with
     | none => store = none ∧ (addCommands gid store t sink batch).2.1 = t
     | some st' => StoreInv st' ∧ TrxOK st' (addCommands gid store t sink batch).2.1 ∧
        (store = some st' ∨ store = none)) := by
  unfold addCommands
  cases store with
  | some st =>
    simp only
    exact ⟨hst st rfl, addLoop_ok (hst st rfl) ht _ _ _, by simp⟩
  | none =>
    simp only at ht
    cases batch with
    | nil => exact ⟨by simp, by simp⟩
    | cons i rest =>
      simp only
      rcases hi : initCmd gid i sink with ⟨sink', r⟩
      cases r with
      | error e => exact ⟨by simp, by simp⟩
      | ok st0 =>
        simp only
        have h0 := ((initCmd_spec gid i sink).1 st0 (by rw [hi])).2.2.2.2.2
        subst ht
        exact ⟨h0, addLoop_ok h0 (TrxOK.fresh st0) _ _ _, by simp⟩

/-! ## commit -/

theorem last_isTip {g : Graph} (h : WF g) (hne : g ≠ []) : ∃ i, IsTip g i := by
  rcases List.eq_nil_or_concat g with rfl | ⟨g', c, rfl⟩
  · exact absurd rfl hne
  · rw [List.concat_eq_append] at h ⊢
    exact ⟨c.id, (isTip_snoc h c.id).mpr (Or.inl rfl)⟩

/-- outcome of `commit` for a transaction holding the current stamp: the new store is the old graph
plus the accepted commands, its head set is the frontier, the stamp moves on — or the braid of
the new heads fails and nothing changes.  Never `EmptyPerspective`, never `Ok(false)`. -/
theorem commit_live {st : Store} {t : Trx} (sink : List SinkEv) (hs : StoreInv st) (hi : TrxInv st t)
    (ho : t.offset = some st.stamp) :
    (∃ e, commit (some st) t sink = (some st, sink, .error e) ∧ (e = .parallelFinalize ∨ e = .bug)) ∨
    (∃ st' sink', commit (some st) t sink = (some st', sink', .ok true) ∧
      st'.graph = st.graph ++ accepted t ∧ st'.stamp = st.stamp + 1 ∧ StoreInv st' ∧
      st'.heads = frontier (cmds st'.graph)) := by
  obtain ⟨h1, hp1, hph1, hpb1, hw1, ho1⟩ := flushT_inv hi
  have hfe := hi.persp.flushErr
  have hheads : (flushT t).heads.foldl hsPush [] = (flushT t).heads := by
    simpa using foldl_hsPush_sorted [] (flushT t).heads (by simpa using h1.sorted)
  have hg : st.graph ++ (flushT t).written = st.graph ++ accepted t := by
    rw [hw1]; rfl
  have hwf : WF (cmds (st.graph ++ (flushT t).written)) := by
    have := h1.wf
    simpa [inflight, hp1] using this
  have htips : ∀ i, i ∈ (flushT t).heads ↔ IsTip (cmds (st.graph ++ (flushT t).written)) i := by
    intro i
    rw [← h1.heads i, hpb1]; simp
  have hne : (flushT t).heads.isEmpty = false := by
    obtain ⟨i, hi'⟩ := last_isTip hwf (by
      intro e
      unfold cmds at e
      exact hs.nonempty (List.append_eq_nil_iff.mp (List.map_eq_nil_iff.mp e)).1)
    cases hh : (flushT t).heads with
    | nil => have := (htips i).mpr hi'; rw [hh] at this; simp at this
    | cons a b => rfl
  have hinv' : ∀ f : Facts, StoreInv { graph := st.graph ++ (flushT t).written, heads := (flushT t).heads, stamp := st.stamp + 1, facts := f } := by
    intro f
    refine ⟨hwf, htips, h1.sorted, ?_⟩
    simp only
    intro e
    exact hs.nonempty (List.append_eq_nil_iff.mp e).1
  have hfr : (flushT t).heads = frontier (cmds (st.graph ++ (flushT t).written)) := eq_frontier h1.sorted htips
  unfold commit
  simp only [ho, ne_eq, not_true_eq_false, if_false, hfe, Bool.false_eq_true, hne, hheads]
  split
  · rename_i h hh
    cases hso : stateOf (st.graph ++ (flushT t).written) h with
    | none =>
      exfalso
      have : h ∈ ids (cmds (st.graph ++ (flushT t).written)) := ((htips h).mp (by rw [hh]; simp)).1
      exact (stateOf_none_iff.mp hso) this
    | some s =>
      right
      simp only
      refine ⟨_, _, rfl, hg, rfl, ?_, ?_⟩
      · exact hinv' s
      · exact hfr
  · cases hb : braidFacts (st.graph ++ (flushT t).written) (flushT t).heads with
    | error e =>
      left
      simp only
      refine ⟨e, rfl, ?_⟩
      unfold braidFacts at hb
      split at hb
      · injection hb with hb; exact Or.inl hb.symm
      · injection hb with hb; exact Or.inr hb.symm
      · split at hb
        · injection hb with hb; exact Or.inr hb.symm
        · cases hb
    | ok sf =>
      right
      obtain ⟨s, fx⟩ := sf
      simp only
      exact ⟨_, _, rfl, hg, rfl, hinv' s, hfr⟩

/-! ## actions -/

/-- `collapse_heads`: if the queue is exactly the set of tips, the fold ends with a single tip `h`;
only merge commands were appended, and every tip of the start graph reaches `h` -/
theorem collapse_spec : ∀ (fuel : Nat) (g : List SCmd) (q : List Nat) (ms : List Cmd) (g1 : List SCmd) (h : Nat),
    WF (cmds g) → (∀ i, i ∈ q ↔ IsTip (cmds g) i) → q.Nodup →
    collapse g q ms fuel = .ok (g1, h) →
    WF (cmds g1) ∧ (∀ i, IsTip (cmds g1) i ↔ i = h) ∧
    (∃ extra, g1 = g ++ extra ∧ ∀ x ∈ extra, x.cmd.parents.length = 2) ∧
    (∀ x ∈ q, Reach (cmds g1) x h)
  | fuel, g, [], ms, g1, h, _, _, _, hc => by simp [collapse] at hc
  | fuel, g, [x], ms, g1, h, hw, hq, _, hc => by
    simp only [collapse, Except.ok.injEq, Prod.mk.injEq] at hc
    obtain ⟨rfl, rfl⟩ := hc
    refine ⟨hw, ?_, ⟨[], by simp, by simp⟩, ?_⟩
    · intro i; rw [← hq]; simp
    · intro y hy; simp only [List.mem_singleton] at hy; subst hy; exact Reach.refl _
  | 0, g, _ :: _ :: _, ms, g1, h, _, _, _, hc => by simp [collapse] at hc
  | fuel + 1, g, l :: r :: q, ms, g1, h, hw, hq, hn, hc => by
    unfold collapse at hc
    cases ms with
    | nil => simp at hc
    | cons m ms' =>
      simp only at hc
      by_cases hcond : m.parents ≠ [min l r, max l r] ∨ l = r ∨ hasId g m.id = true
      · rw [if_pos hcond] at hc; cases hc
      · rw [if_neg hcond] at hc
        simp only [not_or, ne_eq, Decidable.not_not, Bool.not_eq_true] at hcond
        obtain ⟨hpar, hlr, hid⟩ := hcond
        cases hb : braidFacts g [min l r, max l r] with
        | error e => rw [hb] at hc; cases hc
        | ok sf =>
          rw [hb] at hc
          simp only at hc
          have hpm : ∀ x, x ∈ m.parents ↔ x = l ∨ x = r := by
            intro x; rw [hpar]; simp only [List.mem_cons, List.not_mem_nil, or_false]; omega
          have hlq : l ∈ ids (cmds g) := ((hq l).mp (by simp)).1
          have hrq : r ∈ ids (cmds g) := ((hq r).mp (by simp)).1
          have hw' : WF (cmds (g ++ [⟨m, sf.1⟩])) := by
            simp only [cmds_append, cmds_cons, cmds_nil]
            refine WF.snoc hw (hasId_false_iff.mp hid) ?_ (by simp [hpar]) ?_
            · intro x hx
              rcases (hpm x).mp hx with rfl | rfl
              · exact hlq
              · exact hrq
            · rw [hpar]; simp; omega
          have hnd := List.nodup_cons.mp hn
          have hnd2 := List.nodup_cons.mp hnd.2
          have hq' : ∀ i, i ∈ q ++ [m.id] ↔ IsTip (cmds (g ++ [⟨m, sf.1⟩])) i := by
            intro i
            simp only [cmds_append, cmds_cons, cmds_nil] at hw' ⊢
            rw [isTip_snoc hw', ← hq i, hpm]
            simp only [List.mem_append, List.mem_cons, List.not_mem_nil, or_false]
            constructor
            · rintro (hi | hi)
              · refine Or.inr ⟨Or.inr (Or.inr hi), ?_⟩
                rintro (rfl | rfl)
                · exact hnd.1 (List.mem_cons_of_mem _ hi)
                · exact hnd2.1 hi
              · exact Or.inl hi
            · rintro (hi | ⟨hi | hi | hi, hno⟩)
              · exact Or.inr hi
              · exact absurd (Or.inl hi) hno
              · exact absurd (Or.inr hi) hno
              · exact Or.inl hi
          have hn' : (q ++ [m.id]).Nodup := by
            rw [List.nodup_append]
            refine ⟨hnd2.2, by simp, ?_⟩
            intro a ha b hb
            simp only [List.mem_singleton] at hb
            subst hb
            intro e
            have : a ∈ ids (cmds g) := ((hq a).mp (by simp [ha])).1
            rw [e] at this
            exact (hasId_false_iff.mp hid) this
          obtain ⟨r1, r2, ⟨extra, rfl, hex⟩, r4⟩ := collapse_spec fuel _ _ ms' g1 h hw' hq' hn' hc
          refine ⟨r1, r2, ⟨[⟨m, sf.1⟩] ++ extra, by simp, ?_⟩, ?_⟩
          · intro x hx
            simp only [List.cons_append, List.nil_append, List.mem_cons] at hx
            rcases hx with rfl | hx
            · simp [hpar]
            · exact hex x hx
          · intro x hx
            have hm : Reach (cmds (g ++ [⟨m, sf.1⟩] ++ extra)) m.id h := r4 m.id (by simp)
            have hpar' : ∀ y, (y = l ∨ y = r) → Par (cmds (g ++ [⟨m, sf.1⟩] ++ extra)) y m.id := by
              intro y hy
              refine ⟨m, by simp [cmds], rfl, (hpm y).mpr hy⟩
            simp only [List.mem_cons] at hx
            rcases hx with rfl | rfl | hx
            · exact Reach.head (hpar' _ (Or.inl rfl)) hm
            · exact Reach.head (hpar' _ (Or.inr rfl)) hm
            · exact r4 x (by simp [hx])

/-- the publish loop: on success the new commands are exactly the published ones, chained on the
head, each stored with the facts its rule produced -/
theorem publish_spec (g : List SCmd) (b : List Nat) : ∀ (pubs : List Cmd) (head : Nat) (s : Facts)
    (acc : List SCmd) (evs evs' : List SinkEv) (new : List SCmd) (s' : Facts),
    WF (cmds (g ++ acc)) → head ∈ ids (cmds (g ++ acc)) → Chain b (cmds acc) →
    (match (cmds acc).getLast? with | none => b = [head] | some l => l.id = head) →
    (∀ l, acc.getLast? = some l → l.st = s) →
    publish g pubs head s acc evs = (evs', .ok (new, s')) →
    WF (cmds (g ++ new)) ∧ Chain b (cmds new) ∧ cmds new = cmds acc ++ pubs ∧ (∃ more, new = acc ++ more) ∧
    (∀ l, (cmds new).getLast? = some l → Reach (cmds (g ++ new)) head l.id) ∧
    (∀ l, new.getLast? = some l → l.st = s')
  | [], head, s, acc, evs, evs', new, s', hw, hh, hc, hd, hs, hp => by
    simp only [publish, Prod.mk.injEq, Except.ok.injEq] at hp
    obtain ⟨_, rfl, rfl⟩ := hp
    refine ⟨hw, hc, by simp, ⟨[], by simp⟩, ?_, hs⟩
    intro l hl
    rw [hl] at hd
    simp only at hd
    rw [hd]; exact Reach.refl _
  | c :: rest, head, s, acc, evs, evs', new, s', hw, hh, hc, hd, hs, hp => by
    unfold publish at hp
    by_cases hcond : c.parents ≠ [head] ∨ hasId (g ++ acc) c.id = true
    · rw [if_pos hcond] at hp; simp at hp
    · rw [if_neg hcond] at hp
      simp only [not_or, ne_eq, Decidable.not_not, Bool.not_eq_true] at hcond
      obtain ⟨hpar, hid⟩ := hcond
      simp only at hp
      by_cases hr : (rule c s).2.1 = true
      · rw [if_pos hr] at hp
        have hw' : WF (cmds (g ++ (acc ++ [⟨c, (rule c s).1⟩]))) := by
          have : cmds (g ++ (acc ++ [⟨c, (rule c s).1⟩])) = cmds (g ++ acc) ++ [c] := by simp
          rw [this]
          refine WF.snoc hw (hasId_false_iff.mp hid) ?_ (by simp [hpar]) (by simp [hpar])
          intro q hq; rw [hpar] at hq; simp only [List.mem_singleton] at hq; subst hq; exact hh
        have hc' : Chain b (cmds (acc ++ [⟨c, (rule c s).1⟩])) := by
          simp only [cmds_append, cmds_cons, cmds_nil]
          apply chain_snoc' hc
          rw [hpar]
          cases hgl : (cmds acc).getLast? with
          | none => rw [hgl] at hd; simp only at hd ⊢; exact hd.symm
          | some l => rw [hgl] at hd; simp only at hd ⊢; rw [hd]
        have hh' : c.id ∈ ids (cmds (g ++ (acc ++ [⟨c, (rule c s).1⟩]))) := by simp [ids, cmds]
        have := publish_spec g b rest c.id (rule c s).1 (acc ++ [⟨c, (rule c s).1⟩]) _ evs' new s' hw' hh' hc'
          (by simp) (by simp) hp
        obtain ⟨r1, r2, r3, ⟨more, rfl⟩, r5, r6⟩ := this
        refine ⟨r1, r2, by simpa using r3, ⟨[⟨c, (rule c s).1⟩] ++ more, by simp⟩, ?_, r6⟩
        intro l hl
        have hpar' : Par (cmds (g ++ (acc ++ [⟨c, (rule c s).1⟩] ++ more))) head c.id :=
          ⟨c, by simp [cmds], rfl, by simp [hpar]⟩
        exact Reach.head hpar' (r5 l hl)
      · rw [if_neg hr] at hp; simp at hp

theorem publish_err (g : List SCmd) : ∀ (pubs : List Cmd) (head : Nat) (s : Facts)
    (acc : List SCmd) (evs evs' : List SinkEv) (e : Err),
    publish g pubs head s acc evs = (evs', .error e) → e = .malformed ∨ e = .rejected
  | [], _, _, _, _, _, _, hp => by simp [publish] at hp
  | c :: rest, head, s, acc, evs, evs', e, hp => by
    unfold publish at hp
    split at hp
    · simp only [Prod.mk.injEq, Except.error.injEq] at hp; exact Or.inl hp.2.symm
    · simp only at hp
      split at hp
      · exact publish_err g rest _ _ _ _ _ _ hp
      · simp only [Prod.mk.injEq, Except.error.injEq] at hp; exact Or.inr hp.2.symm

/-- sink events that contain no `commit` -/
def NoCommit (evs : List SinkEv) : Prop := SinkEv.commit ∉ evs

theorem publish_noCommit (g : List SCmd) : ∀ (pubs : List Cmd) (head : Nat) (s : Facts)
    (acc : List SCmd) (evs : List SinkEv), NoCommit evs → NoCommit (publish g pubs head s acc evs).1
  | [], _, _, _, _, h => by simpa [publish] using h
  | c :: rest, head, s, acc, evs, h => by
    unfold publish
    have h' : NoCommit (evs ++ consumes c.id (rule c s).2.2) := by
      simp only [NoCommit, List.mem_append, not_or, consumes, List.mem_map]
      exact ⟨h, by rintro ⟨_, _, e⟩; cases e⟩
    split
    · exact h
    · simp only
      split
      · exact publish_noCommit g rest _ _ _ _ h'
      · exact h'

theorem chain_parents {b : List Nat} {cs : Graph} (h : Chain b cs) :
    ∀ c ∈ cs, c.parents = b ∨ ∃ y, c.parents = [y] := by
  induction cs generalizing b with
  | nil => intro c hc; cases hc
  | cons x xs ih =>
    intro c hc
    rcases List.mem_cons.mp hc with rfl | hc
    · exact Or.inl h.1
    · rcases ih h.2 c hc with e | e
      · exact Or.inr ⟨x.id, e⟩
      · exact Or.inr e

theorem reach_append {g : Graph} {a b : Nat} (h : Reach g a b) : ∀ (l : Graph), Reach (g ++ l) a b
  | [] => by simpa using h
  | c :: l => by
    have := reach_append (Reach.mono (c := c) h) l
    simpa using this

/-- `ClientState::action`: either it fails, the store is untouched and the sink saw no commit; or it
succeeds, the store gains the collapse merges and exactly the published commands, the single new
head is the last published command, every old head reaches it, the stamp moves on, and the sink
window is committed -/
theorem action_spec {st : Store} (sink : List SinkEv) (ms pubs : List Cmd) (hs : StoreInv st) :
    (∃ e evs, action (some st) sink ms pubs = (some st, sink ++ evs, .error e) ∧ NoCommit evs) ∨
    (∃ st' merges new last evs, action (some st) sink ms pubs =
        (some st', sink ++ [SinkEv.begin] ++ evs ++ [SinkEv.commit], .ok ()) ∧ NoCommit evs ∧
      st'.graph = st.graph ++ merges ++ new ∧ (∀ x ∈ merges, x.cmd.parents.length = 2) ∧ cmds new = pubs ∧
      new.getLast? = some last ∧ st'.heads = [last.cmd.id] ∧ st'.facts = last.st ∧
      st'.stamp = st.stamp + 1 ∧ StoreInv st' ∧
      (∀ x ∈ st.heads, Reach (cmds st'.graph) x last.cmd.id) ∧
      (∀ x ∈ new, x.cmd.parents.length = 1)) := by
  unfold action
  simp only
  cases hcol : collapse st.graph st.heads ms st.heads.length with
  | error e => left; exact ⟨e, [], by simp, by simp [NoCommit]⟩
  | ok gh =>
    obtain ⟨g1, h⟩ := gh
    obtain ⟨hw1, htip1, ⟨merges, rfl, hmerges⟩, hreach⟩ :=
      collapse_spec _ _ _ _ _ _ hs.wf hs.heads (sorted_nodup hs.sorted) hcol
    simp only
    have hh : h ∈ ids (cmds (st.graph ++ merges)) := ((htip1 h).mpr rfl).1
    cases hso : stateOf (st.graph ++ merges) h with
    | none => exact absurd hh (stateOf_none_iff.mp hso)
    | some s =>
      simp only
      rcases hp : publish (st.graph ++ merges) pubs h s [] [] with ⟨evs, r⟩
      have hnc : NoCommit evs := by
        have := publish_noCommit (st.graph ++ merges) pubs h s [] [] (by simp [NoCommit])
        rw [hp] at this; exact this
      cases r with
      | error e =>
        left
        rcases publish_err _ _ _ _ _ _ _ _ hp with rfl | rfl
        · exact ⟨.malformed, [], by simp, by simp [NoCommit]⟩
        · refine ⟨.rejected, [SinkEv.begin] ++ evs ++ [SinkEv.rollback], by simp [List.append_assoc], ?_⟩
          simp only [NoCommit, List.mem_append, List.mem_singleton, not_or] at hnc ⊢
          exact ⟨⟨(by intro e; cases e), hnc⟩, (by intro e; cases e)⟩
      | ok ns =>
        obtain ⟨new, s'⟩ := ns
        simp only
        obtain ⟨r1, r2, r3, _, r5, r6⟩ := publish_spec (st.graph ++ merges) [h] pubs h s [] [] evs new s'
          (by simpa using hw1) (by simpa using hh) (by simp [Chain]) (by simp) (by simp) hp
        cases hl : new.getLast? with
        | none =>
          left
          refine ⟨.emptyPerspective, [SinkEv.begin] ++ evs, by simp [List.append_assoc], ?_⟩
          simp only [NoCommit, List.mem_append, List.mem_singleton, not_or] at hnc ⊢
          exact ⟨(by intro e; cases e), hnc⟩
        | some last =>
          right
          simp only
          refine ⟨_, merges, new, last, evs, rfl, hnc, rfl, hmerges, by simpa using r3, hl, rfl, ?_, rfl, ?_, ?_, ?_⟩
          rotate_left 3
          · intro x hx
            have := chain_parents r2 x.cmd (by simp only [cmds, List.mem_map]; exact ⟨x, hx, rfl⟩)
            rcases this with e | ⟨y, e⟩ <;> simp [e]
          · exact (r6 last hl).symm
          · refine ⟨r1, ?_, by simp, ?_⟩
            · intro i
              simp only [List.mem_singleton]
              have hw' : WF (cmds (st.graph ++ merges) ++ cmds new) := by simpa using r1
              have := isTip_chain hw' r2 (getLast?_cmds hl) i
              rw [show cmds (st.graph ++ merges ++ new) = cmds (st.graph ++ merges) ++ cmds new by simp, this, htip1]
              simp
            · simp only
              intro e
              exact hs.nonempty (List.append_eq_nil_iff.mp (List.append_eq_nil_iff.mp e).1).1
          · intro x hx
            have h1 := reach_append (hreach x hx) (cmds new)
            have h2 := r5 last.cmd (getLast?_cmds hl)
            simp only [cmds_append] at h1 h2 ⊢
            exact h1.trans h2

/-! ## new_graph -/

theorem chain_tail_parents {b : List Nat} {c : Cmd} {cs : Graph} (h : Chain b (c :: cs)) :
    ∀ x ∈ cs, ∃ y, x.parents = [y] := by
  intro x hx
  rcases chain_parents h.2 x hx with e | e
  · exact ⟨c.id, e⟩
  · exact e

/-- `new_graph`: either it fails and the store is exactly what it was, or there was no store and the
new one holds exactly the published commands — the first is the parentless command whose id is the
graph id, every other one has exactly one parent — with the last published command as single head -/
theorem newGraph_spec (gid : Nat) (store : Option Store) (sink : List SinkEv) (pubs : List Cmd) :
    (∃ e sink', newGraph gid store sink pubs = (store, sink', .error e)) ∨
    (store = none ∧ ∃ st' c0 rest last sink', pubs = c0 :: rest ∧ c0.id = gid ∧ c0.parents = [] ∧
      newGraph gid store sink pubs = (some st', sink', .ok ()) ∧ cmds st'.graph = pubs ∧
      st'.graph.getLast? = some last ∧ st'.heads = [last.cmd.id] ∧ st'.stamp = 0 ∧ st'.facts = last.st ∧
      StoreInv st' ∧ (∀ x ∈ (cmds st'.graph).tail, ∃ y, x.parents = [y])) := by
  unfold newGraph
  cases pubs with
  | nil => exact Or.inl ⟨_, _, rfl⟩
  | cons c0 rest =>
    simp only
    by_cases hcond : c0.parents ≠ [] ∨ c0.id ≠ gid
    · rw [if_pos hcond]; exact Or.inl ⟨_, _, rfl⟩
    · rw [if_neg hcond]
      simp only [not_or, ne_eq, Decidable.not_not] at hcond
      obtain ⟨hpar, hid⟩ := hcond
      by_cases hr : (rule c0 {}).2.1 = true
      · rw [if_pos hr]
        rcases hp : publish [] rest c0.id (rule c0 {}).1 [⟨c0, (rule c0 {}).1⟩] (consumes c0.id (rule c0 {}).2.2) with ⟨evs, r⟩
        cases r with
        | error e =>
          rcases publish_err _ _ _ _ _ _ _ _ hp with rfl | rfl
          · exact Or.inl ⟨_, _, rfl⟩
          · exact Or.inl ⟨_, _, rfl⟩
        | ok ns =>
          obtain ⟨new, s'⟩ := ns
          simp only
          cases store with
          | some st => exact Or.inl ⟨_, _, rfl⟩
          | none =>
            simp only
            cases hl : new.getLast? with
            | none => exact Or.inl ⟨_, _, rfl⟩
            | some last =>
              right
              have hw0 : WF (cmds ([] ++ [(⟨c0, (rule c0 {}).1⟩ : SCmd)])) := by
                have := WF.snoc (c := c0) WF.nil (by simp [ids]) (by simp [hpar]) (by simp [hpar]) (by simp [hpar])
                simpa using this
              obtain ⟨r1, r2, r3, ⟨more, rfl⟩, _, r6⟩ := publish_spec [] [] rest c0.id (rule c0 {}).1
                [⟨c0, (rule c0 {}).1⟩] _ evs new s' hw0 (by simp [ids, cmds]) (by simp [Chain, hpar]) (by simp) (by simp) hp
              refine ⟨(by first | rfl | trivial), _, c0, rest, last, _, (by first | rfl | trivial), hid, hpar, (by first | rfl | trivial), by simpa using r3, hl, (by first | rfl | trivial), (by first | rfl | trivial), (r6 last hl).symm, ?_, ?_⟩
              · refine ⟨by simpa using r1, ?_, by simp, by simp⟩
                intro i
                simp only [List.mem_singleton]
                have hw' : WF (([] : Graph) ++ cmds ([⟨c0, (rule c0 {}).1⟩] ++ more)) := by simpa using r1
                have := isTip_chain hw' r2 (getLast?_cmds hl) i
                simp only [List.nil_append] at this
                rw [this]
                simp [IsTip, ids]
              · intro x hx
                have hc : Chain [] (c0 :: cmds more) := by simpa using r2
                exact chain_tail_parents hc x (by simpa using hx)
      · rw [if_neg hr]; exact Or.inl ⟨_, _, rfl⟩

theorem newGraph_some (gid : Nat) (st : Store) (sink : List SinkEv) (pubs : List Cmd) :
    (newGraph gid (some st) sink pubs).1 = some st ∧ ∃ e, (newGraph gid (some st) sink pubs).2.2 = .error e := by
  rcases newGraph_spec gid (some st) sink pubs with ⟨e, sink', h⟩ | ⟨h, _⟩
  · rw [h]; exact ⟨rfl, e, rfl⟩
  · cases h

/-! ## the client LTS -/

theorem mem_dropSlot {l : List (Nat × Trx)} {s : Nat} {x : Nat × Trx} (h : x ∈ dropSlot l s) : x ∈ l :=
  (List.mem_filter.mp h).1

theorem mem_setSlot {l : List (Nat × Trx)} {s : Nat} {t : Trx} {x : Nat × Trx} (h : x ∈ setSlot l s t) :
    x = (s, t) ∨ x ∈ l := by
  rcases List.mem_cons.mp h with e | e
  · exact Or.inl e
  · exact Or.inr (mem_dropSlot e)

theorem getSlot_mem {l : List (Nat × Trx)} {s : Nat} {t : Trx} (h : getSlot l s = some t) : (s, t) ∈ l := by
  simp only [getSlot, Option.map_eq_some_iff] at h
  obtain ⟨x, hx, rfl⟩ := h
  have h1 := List.mem_of_find?_eq_some hx
  have h2 := List.find?_some hx
  have : x.1 = s := by simpa using h2
  rw [← this]; exact h1

theorem TrxOK.bump {st st' : Store} {t : Trx} (h : TrxOK st t) (hs : st'.stamp = st.stamp + 1) : TrxOK st' t := by
  unfold TrxOK at h ⊢
  split
  · rename_i ho; rw [ho] at h; exact h
  · rename_i o ho
    rw [ho] at h
    simp only at h
    exact ⟨by omega, fun e => by omega⟩

/-- `commit` either leaves the store as it is or (only for a transaction holding the current
stamp) replaces it by a store that satisfies the invariant and carries the next stamp -/
theorem commit_store {st : Store} {t : Trx} (sink : List SinkEv) (hs : StoreInv st) (ht : TrxOK st t) :
    (commit (some st) t sink).1 = some st ∨
    (∃ st', (commit (some st) t sink).1 = some st' ∧ StoreInv st' ∧ st'.stamp = st.stamp + 1 ∧
      t.offset = some st.stamp ∧ st'.graph = st.graph ++ accepted t) := by
  unfold TrxOK at ht
  cases ho : t.offset with
  | none => left; simp [commit, ho]
  | some o =>
    rw [ho] at ht
    simp only at ht
    by_cases he : o = st.stamp
    · subst he
      rcases commit_live sink hs (ht.2 rfl) ho with ⟨e, hc, _⟩ | ⟨st', sink', hc, hg, hst, hinv, _⟩
      · left; rw [hc]
      · right; exact ⟨st', by rw [hc], hinv, hst, rfl, hg⟩
    · left; simp [commit, ho, he]

theorem step_inv {cl : Client} (h : ClientInv cl) (op : Op) : ClientInv (step cl op).1 := by
  cases op with
  | openT s =>
    refine ⟨h.store, ?_⟩
    intro s' t' hm
    rcases mem_setSlot hm with e | e
    · injection e with _ e; subst e
      simp only [step]
      cases cl.store with
      | none => simp
      | some st => exact TrxOK.fresh st
    · exact h.trxs s' t' e
  | dropT s =>
    exact ⟨h.store, fun s' t' hm => h.trxs s' t' (mem_dropSlot hm)⟩
  | add s batch =>
    simp only [step]
    cases hg : getSlot cl.trxs s with
    | none => exact h
    | some t =>
      simp only
      have hm := getSlot_mem hg
      have hinv := addCommands_inv (gid := cl.gid) cl.sink batch h.store (h.trxs s t hm)
      cases hr : (addCommands cl.gid cl.store t cl.sink batch).1 with
      | none =>
        rw [hr] at hinv
        simp only at hinv
        refine ⟨(by intro st e; cases e), ?_⟩
        intro s' t' hm'
        simp only
        have hnone := hinv.1
        rcases mem_setSlot hm' with e | e
        · injection e with _ e; subst e
          rw [hinv.2]
          have := h.trxs s t hm
          rw [hnone] at this; exact this
        · have := h.trxs s' t' e
          rw [hnone] at this; exact this
      | some st' =>
        rw [hr] at hinv
        simp only at hinv
        obtain ⟨hs', ht', hcase⟩ := hinv
        refine ⟨by intro st e; injection e with e; subst e; exact hs', ?_⟩
        intro s' t' hm'
        simp only
        rcases mem_setSlot hm' with e | e
        · injection e with _ e; subst e; exact ht'
        · have := h.trxs s' t' e
          rcases hcase with hc | hc
          · rw [hc] at this; exact this
          · rw [hc] at this; simp only at this; subst this; exact TrxOK.fresh st'
  | flush s =>
    simp only [step]
    cases hg : getSlot cl.trxs s with
    | none => exact h
    | some t =>
      simp only
      cases hst : cl.store with
      | none => exact h
      | some st =>
        simp only
        refine ⟨by intro st' e; exact h.store st' (by rw [hst]; exact e), ?_⟩
        intro s' t' hm'
        simp only [hst]
        rcases mem_setSlot hm' with e | e
        · injection e with _ e; subst e
          have := h.trxs s t (getSlot_mem hg)
          rw [hst] at this
          simp only [TrxOK] at this ⊢
          rw [flushT_offset]
          cases ho : t.offset with
          | none => rw [ho] at this; simp only at this ⊢; subst this; rfl
          | some o =>
            rw [ho] at this
            simp only at this ⊢
            exact ⟨this.1, fun e => (flushT_inv (this.2 e)).1⟩
        · have := h.trxs s' t' e
          rw [hst] at this; exact this
  | commit s =>
    simp only [step]
    cases hg : getSlot cl.trxs s with
    | none => exact h
    | some t =>
      simp only
      cases hst : cl.store with
      | none =>
        refine ⟨by intro st e; simp [commit] at e, ?_⟩
        intro s' t' hm'
        have := h.trxs s' t' (mem_dropSlot hm')
        rw [hst] at this
        simpa [commit] using this
      | some st =>
        have hs := h.store st hst
        have ht := h.trxs s t (getSlot_mem hg)
        rw [hst] at ht
        rcases commit_store cl.sink hs ht with hc | ⟨st', hc, hinv, hstamp, _, _⟩
        · refine ⟨by intro st' e; simp only at e; rw [hc] at e; injection e with e; subst e; exact hs, ?_⟩
          intro s' t' hm'
          simp only
          rw [hc]
          have := h.trxs s' t' (mem_dropSlot hm')
          rw [hst] at this; exact this
        · refine ⟨by intro st'' e; simp only at e; rw [hc] at e; injection e with e; subst e; exact hinv, ?_⟩
          intro s' t' hm'
          simp only
          rw [hc]
          have := h.trxs s' t' (mem_dropSlot hm')
          rw [hst] at this
          exact this.bump hstamp
  | action ms pubs =>
    simp only [step]
    cases hst : cl.store with
    | none =>
      refine ⟨by intro st e; simp [action] at e, ?_⟩
      intro s' t' hm'
      have := h.trxs s' t' hm'
      rw [hst] at this
      simpa [action] using this
    | some st =>
      have hs := h.store st hst
      rcases action_spec cl.sink ms pubs hs with ⟨e, evs, hc, _⟩ | ⟨st', merges, new, last, evs, hc, _, _, _, _, _, _, _, hstamp, hinv, _⟩
      · refine ⟨by intro st' e'; simp only at e'; rw [hc] at e'; injection e' with e'; subst e'; exact hs, ?_⟩
        intro s' t' hm'
        simp only
        rw [hc]
        have := h.trxs s' t' hm'
        rw [hst] at this; exact this
      · refine ⟨by intro st'' e'; simp only at e'; rw [hc] at e'; injection e' with e'; subst e'; exact hinv, ?_⟩
        intro s' t' hm'
        simp only
        rw [hc]
        have := h.trxs s' t' hm'
        rw [hst] at this
        exact this.bump hstamp
  | newGraph pubs =>
    simp only [step]
    rcases newGraph_spec cl.gid cl.store cl.sink pubs with ⟨e, sink', hc⟩ | ⟨hnone, st', _, _, _, sink', _, _, _, hc, _, _, _, _, _, hinv, _⟩
    · rw [hc]; exact ⟨h.store, h.trxs⟩
    · rw [hc]
      refine ⟨by intro st'' e'; simp only at e'; injection e' with e'; subst e'; exact hinv, ?_⟩
      intro s' t' hm'
      have := h.trxs s' t' hm'
      rw [hnone] at this
      simp only at this ⊢
      subst this
      exact TrxOK.fresh st'

theorem run_inv {cl : Client} (h : ClientInv cl) (ops : List Op) : ClientInv (run cl ops) := by
  induction ops generalizing cl with
  | nil => exact h
  | cons o rest ih => exact ih (step_inv h o)

theorem ClientInv.init (gid : Nat) : ClientInv { gid := gid } :=
  ⟨(by intro st e; cases e), (by intro s t hm; cases hm)⟩

/-! ## tips of a transaction, growth of the committed graph, coverage by the heads -/

/-- the transaction's tips: the written tips plus the head of the in-flight perspective -/
def tipsOf (t : Trx) : List Nat :=
  t.heads ++ (match t.persp, t.phead with
    | some _, some h => [h]
    | _, _ => [])

theorem tipsOf_iff {st : Store} {t : Trx} (h : TrxInv st t) (i : Nat) :
    i ∈ tipsOf t ↔ IsTip (cmds (view st t)) i := by
  obtain ⟨h1, hp1, _, hpb1, hw1, _⟩ := flushT_inv h
  have hv := h.view_flush.1
  have e1 : IsTip (cmds (view st t)) i ↔ i ∈ (flushT t).heads := by
    rw [← hv]
    have := h1.heads i
    rw [hpb1] at this
    simp only [List.not_mem_nil, or_false] at this
    rw [this]
    simp [view, inflight, hp1]
  rw [e1]
  have hp := h.persp
  unfold PerspOK at hp
  unfold tipsOf flushT
  cases hpe : t.persp with
  | none => rw [hpe] at hp; simp [hp.1]
  | some p =>
    rw [hpe] at hp
    obtain ⟨last, hl, hph, _⟩ := hp
    simp only [hl, hph, List.mem_append, List.mem_singleton, mem_hsPush]
    exact Or.comm

/-- every step only appends to the committed graph -/
theorem step_graph_prefix {cl : Client} (h : ClientInv cl) (op : Op) {st : Store} (hst : cl.store = some st) :
    ∃ st' extra, (step cl op).1.store = some st' ∧ st'.graph = st.graph ++ extra ∧
      (st' = st ∨ st'.stamp = st.stamp + 1) := by
  have hs := h.store st hst
  cases op with
  | openT s => exact ⟨st, [], hst, by simp, Or.inl rfl⟩
  | dropT s => exact ⟨st, [], hst, by simp, Or.inl rfl⟩
  | add s batch =>
    simp only [step]
    cases hg : getSlot cl.trxs s with
    | none => exact ⟨st, [], hst, by simp, Or.inl rfl⟩
    | some t => exact ⟨st, [], by simp [addCommands, hst], by simp, Or.inl rfl⟩
  | flush s =>
    simp only [step]
    cases hg : getSlot cl.trxs s with
    | none => exact ⟨st, [], hst, by simp, Or.inl rfl⟩
    | some t => simp only [hst]; exact ⟨st, [], rfl, by simp, Or.inl rfl⟩
  | commit s =>
    simp only [step]
    cases hg : getSlot cl.trxs s with
    | none => exact ⟨st, [], hst, by simp, Or.inl rfl⟩
    | some t =>
      have ht := h.trxs s t (getSlot_mem hg)
      rw [hst] at ht
      simp only [hst]
      rcases commit_store cl.sink hs ht with hc | ⟨st', hc, _, hstamp, _, hgr⟩
      · exact ⟨st, [], hc, by simp, Or.inl rfl⟩
      · exact ⟨st', accepted t, hc, hgr, Or.inr hstamp⟩
  | action ms pubs =>
    simp only [step, hst]
    rcases action_spec cl.sink ms pubs hs with ⟨e, evs, hc, _⟩ | ⟨st', merges, new, last, evs, hc, _, hgr, _, _, _, _, _, hstamp, _, _⟩
    · exact ⟨st, [], by rw [hc], by simp, Or.inl rfl⟩
    · exact ⟨st', merges ++ new, by rw [hc], by rw [hgr, List.append_assoc], Or.inr hstamp⟩
  | newGraph pubs =>
    simp only [step, hst]
    exact ⟨st, [], (newGraph_some cl.gid st cl.sink pubs).1, by simp, Or.inl rfl⟩

theorem run_graph_prefix {cl : Client} (h : ClientInv cl) (ops : List Op) {st : Store} (hst : cl.store = some st) :
    ∃ st' extra, (run cl ops).store = some st' ∧ st'.graph = st.graph ++ extra ∧ st.stamp ≤ st'.stamp ∧
      (st'.stamp = st.stamp → st' = st) := by
  induction ops generalizing cl st with
  | nil => exact ⟨st, [], hst, by simp, Nat.le_refl _, fun _ => rfl⟩
  | cons o rest ih =>
    obtain ⟨st1, e1, hs1, hg1, hc1⟩ := step_graph_prefix h o hst
    obtain ⟨st2, e2, hs2, hg2, hle, heq⟩ := ih (step_inv h o) hs1
    refine ⟨st2, e1 ++ e2, hs2, by rw [hg2, hg1, List.append_assoc], ?_, ?_⟩
    · rcases hc1 with rfl | hc1 <;> omega
    · intro e
      rcases hc1 with rfl | hc1
      · exact heq e
      · omega

/-- every command of a well-formed graph reaches a tip: nothing committed is unreachable from the heads -/
theorem reach_tip {g : Graph} (h : WF g) : ∀ x ∈ ids g, ∃ t, IsTip g t ∧ Reach g x t := by
  induction h with
  | nil => intro x hx; simp [ids] at hx
  | @snoc g c hw h1 h2 h3 h4 ih =>
    have hwf : WF (g ++ [c]) := WF.snoc hw h1 h2 h3 h4
    intro x hx
    rw [ids_append, List.mem_append] at hx
    rcases hx with hx | hx
    · obtain ⟨t, ht, hr⟩ := ih x hx
      by_cases hp : t ∈ c.parents
      · refine ⟨c.id, (isTip_snoc hwf _).mpr (Or.inl rfl), ?_⟩
        exact Reach.tail (Reach.mono hr) ⟨c, by simp, rfl, hp⟩
      · exact ⟨t, (isTip_snoc hwf _).mpr (Or.inr ⟨ht, hp⟩), Reach.mono hr⟩
    · have : x = c.id := by simpa [ids] using hx
      subst this
      exact ⟨c.id, (isTip_snoc hwf _).mpr (Or.inl rfl), Reach.refl _⟩

end AranyaV.Trx
