import AranyaV.Proofs.DiskReach
/-!
Histories with any number of crashes (C15): `create; (calls; crash χ; open)*`.

A history is a list of `Segment`s; a segment runs a list of calls from the current writer on the
current disk, crashes after `n` I/O calls with fault choice `χ`, and reopens the crash image.
The recovered image becomes the medium of the next segment **as it is**: stale bytes beyond the
recovered `free_offset` (appends of an abandoned commit) and a stale or torn record in the other
root slot included.  `reopen_inv` shows that the writer invariant `WInv` holds again after every
successful `open`, so the single-crash results apply to every segment.
-/
namespace AranyaV.Disk
open AranyaV.Wire

/-- what `open` decides: the slot it takes the root from holds that root and the other slot holds
nothing newer; the other slot is scheduled for the next root write -/
theorem open_spec {L : Layout} {ck : Checksum} (hL : L.OK) (img : Img) (w : Writer)
    (ho : Writer.open L ck img = some w) :
    ∃ chosen, (chosen = L.rootA ∨ chosen = L.rootB) ∧ w.nextRoot = L.other chosen ∧
      loadValid ck img chosen = some w.root ∧
      ∀ r', loadValid ck img (L.other chosen) = some r' → r'.gen ≤ w.root.gen := by
  unfold Writer.open at ho
  cases ha : loadValid ck img L.rootA with
  | none =>
    cases hb : loadValid ck img L.rootB with
    | none => simp [ha, hb] at ho
    | some b =>
      simp only [ha, hb, Option.some.injEq] at ho
      subst ho
      exact ⟨L.rootB, Or.inr rfl, rfl, hb, fun r' h => by rw [Layout.other_B hL, ha] at h; cases h⟩
  | some a =>
    cases hb : loadValid ck img L.rootB with
    | none =>
      simp only [ha, hb, Option.some.injEq] at ho
      subst ho
      exact ⟨L.rootA, Or.inl rfl, rfl, ha, fun r' h => by rw [L.other_A, hb] at h; cases h⟩
    | some b =>
      simp only [ha, hb] at ho
      by_cases hlt : a.gen < b.gen
      · simp only [hlt, if_true, Option.some.injEq] at ho
        subst ho
        refine ⟨L.rootB, Or.inr rfl, rfl, hb, fun r' h => ?_⟩
        rw [Layout.other_B hL, ha] at h; cases h; exact Nat.le_of_lt hlt
      · simp only [hlt, if_false, Option.some.injEq] at ho
        subst ho
        refine ⟨L.rootA, Or.inl rfl, rfl, ha, fun r' h => ?_⟩
        rw [L.other_A, hb] at h; cases h; exact Nat.le_of_not_lt hlt

/-! ## histories -/

/-- one era: calls, then a crash after `n` I/O calls with fault choice `χ`, then `open` -/
structure Segment where
  calls : List Call
  n : Nat
  χ : List (List Bool)

/-- the state at the start of an era: the writer, the medium, the root `open` recovered (`none`
only before the first crash) and the items of earlier eras that survived every reopen so far -/
structure HState where
  w : Writer
  d : Disk
  done : Option Root
  recs : List Rec

/-- right after `create` (its `fallocate` + `fsync` have returned) -/
def HState.init (L : Layout) : HState := ⟨(Writer.create L).1, Disk.empty, none, []⟩

section
variable (L : Layout) (ck : Checksum)

/-- the medium after the crash that ends segment `s` -/
def HState.image (st : HState) (s : Segment) : Img :=
  (st.d.execAll ((trace L ck st.w s.calls).take s.n)).crash s.χ

/-- survivors of earlier eras and everything appended in this one -/
def HState.allRecs (st : HState) (s : Segment) : List Rec := st.recs ++ recsOf L ck st.w s.calls

/-- reopen the crash image: `none` if `open` fails; otherwise the next era starts with the opened
writer on the crash image itself (nothing pending), and the items below the recovered frontier -/
def HState.next (st : HState) (s : Segment) : Option HState :=
  match Writer.open L ck (st.image L ck s) with
  | none => none
  | some w' => some ⟨w', ⟨st.image L ck s, []⟩, some w'.root,
      (st.allRecs L ck s).filter (fun r => decide ((r.end_ : Int) ≤ w'.root.free))⟩

/-- the state after a whole history (every reopen succeeded) -/
def histFrom (st : HState) : List Segment → Option HState
  | [] => some st
  | s :: ss =>
    match st.next L ck s with
    | none => none
    | some st' => histFrom st' ss

/-- `ChecksumOK` and `Bounded` for every era of the history, each stated against the medium that
era starts from (so torn leftovers of earlier crashes are part of the "old slot content") -/
def HistHyps (st : HState) : List Segment → Prop
  | [] => True
  | s :: ss => ChecksumOK L ck st.w st.d s.calls ∧ Bounded L ck st.w s.calls ∧
      match st.next L ck s with
      | none => True
      | some st' => HistHyps st' ss

/-- caller discipline for every era: after a reopen only offsets of surviving items are known -/
def HistWF (st : HState) : List Segment → Prop
  | [] => True
  | s :: ss => WF L ck st.w (st.recs.map (·.off)) s.calls ∧
      match st.next L ck s with
      | none => True
      | some st' => HistWF st' ss

end

variable {L : Layout} {ck : Checksum}

/-- the invariant of era starts -/
def HInv (L : Layout) (ck : Checksum) (st : HState) : Prop := ∃ D, WInv L ck st.w st.d st.done D st.recs

theorem view_nil (img : Img) : (Disk.mk img []).view = img := rfl

/-- **every image from which `open` succeeds is a good starting point**: if the crash image of a
segment (started from a state satisfying the invariant) opens, the opened writer on that image
satisfies the writer invariant again, with the recovered root as the committed one and the items
below the recovered frontier as the records -/
theorem reopen_inv (hL : L.OK) {st st' : HState} {s : Segment} (hi : HInv L ck st)
    (hck : ChecksumOK L ck st.w st.d s.calls) (hbd : Bounded L ck st.w s.calls)
    (hn : st.next L ck s = some st') : HInv L ck st' := by
  obtain ⟨D, hw⟩ := hi
  obtain ⟨hsafe, hre⟩ := run_safe hL s.calls _ _ _ _ _ hw hck hbd s.n s.χ
  unfold HState.next at hn
  split at hn
  · cases hn
  · rename_i w' ho
    simp only [Option.some.injEq] at hn
    subst hn
    have ho' : Writer.open L ck (st.image L ck s) = some w' := ho
    obtain ⟨chosen, hc, hnext, hload, _⟩ := open_spec hL _ _ ho'
    have hfs := hre.fs w' ho'
    have hnn : 0 ≤ w'.root.free := by omega
    refine ⟨w'.root.free.toNat, ⟨?_, hnn, by dsimp only; omega⟩⟩
    refine ⟨?_, hre.lenA, hre.lenB, ?_, ?_, ?_, ?_, Nat.le_refl _, ?_, ?_, ?_⟩
    · rw [hnext]; exact Layout.other_slot hL hc
    · show loadValid ck (st.image L ck s) (L.other w'.nextRoot) = some w'.root
      rw [hnext, Layout.other_other hL hc]; exact hload
    · intro r' hr'
      exact ⟨w'.root, rfl, hre.stale w' ho' r' hr'⟩
    · intro r hr; cases hr; rfl
    · intro p hp; cases hp
    · intro r hr; cases hr; omega
    · intro r hr; cases hr; exact hfs
    · intro rec hrec
      simp only [List.mem_filter, decide_eq_true_eq] at hrec
      obtain ⟨hmem, hle⟩ := hrec
      have hag := hsafe.2 w' ho' rec hmem hle
      have hoff : L.freeStart ≤ rec.off := by
        rcases List.mem_append.mp hmem with h | h
        · exact (hw.q.recs_ok rec h).1
        · have := recsOf_off_ge L ck s.calls st.w rec h; have := hw.fs; omega
      exact ⟨hoff, by dsimp only; omega, hag, fun _ => hag⟩

theorem hist_inv (hL : L.OK) :
    ∀ (segs : List Segment) (st st' : HState), HInv L ck st → HistHyps L ck st segs →
      histFrom L ck st segs = some st' → HInv L ck st' := by
  intro segs
  induction segs with
  | nil => intro st st' hi _ h; simp only [histFrom, Option.some.injEq] at h; subst h; exact hi
  | cons s ss ih =>
    intro st st' hi hh h
    simp only [histFrom] at h
    obtain ⟨hck, hbd, hrest⟩ := hh
    split at h
    · cases h
    · rename_i st1 hn
      rw [hn] at hrest
      exact ih st1 st' (reopen_inv hL hi hck hbd hn) hrest h

/-- the single-crash result at the end of an arbitrary history -/
theorem hist_safe (hL : L.OK) (segs : List Segment) (st : HState)
    (hi : HInv L ck (HState.init L)) (hh : HistHyps L ck (HState.init L) segs)
    (h : histFrom L ck (HState.init L) segs = some st) (s : Segment)
    (hck : ChecksumOK L ck st.w st.d s.calls) (hbd : Bounded L ck st.w s.calls) :
    SafeAt L ck (st.image L ck s) (doneFrom L ck st.w st.done s.calls s.n)
      (progFrom L ck st.w s.calls s.n) (st.allRecs L ck s) ∧ ReopenOK L ck (st.image L ck s) := by
  obtain ⟨D, hw⟩ := hist_inv hL segs _ _ hi hh h
  exact run_safe hL s.calls _ _ _ _ _ hw hck hbd s.n s.χ

/-- after a successful reopen there is a committed root -/
theorem next_done {st st' : HState} {s : Segment} (h : st.next L ck s = some st') :
    st'.done = some st'.w.root := by
  unfold HState.next at h
  split at h
  · cases h
  · simp only [Option.some.injEq] at h; subst h; rfl

theorem hist_done :
    ∀ (segs : List Segment) (st st' : HState), histFrom L ck st segs = some st' →
      (segs ≠ [] ∨ st.done.isSome) → st'.done.isSome := by
  intro segs
  induction segs with
  | nil =>
    intro st st' h hne
    simp only [histFrom, Option.some.injEq] at h; subst h
    rcases hne with h | h
    · exact absurd rfl h
    · exact h
  | cons s ss ih =>
    intro st st' h _
    simp only [histFrom] at h
    split at h
    · cases h
    · rename_i st1 hn
      exact ih st1 st' h (Or.inr (by rw [next_done hn]; rfl))

theorem doneFrom_isSome (L : Layout) (ck : Checksum) :
    ∀ (calls : List Call) (w : Writer) (done : Option Root) (n : Nat), done.isSome →
      (doneFrom L ck w done calls n).isSome := by
  intro calls
  induction calls with
  | nil => intro w done n h; exact h
  | cons c cs ih =>
    intro w done n h
    simp only [doneFrom]
    split
    · exact h
    · apply ih
      cases c with
      | append b refs => exact h
      | commit hd refs fact => rfl

/-! ## reachability across eras -/

/-- the reachability invariant of era starts: surviving items only refer to surviving items, all
of them end below the write frontier, and the recovered root's head set and fact cache are
surviving items -/
structure RInv (st : HState) : Prop where
  refs : RefsBelow st.recs
  ends : ∀ rec ∈ st.recs, (rec.end_ : Int) ≤ st.w.root.free
  nonneg : 0 ≤ st.w.root.free
  root : ∀ r, st.done = some r →
    r.free = st.w.root.free ∧ (∀ o, r.heads = some o → Below st.recs r.free o) ∧
      (∀ o, r.fact = some o → Below st.recs r.free o)

theorem Below.filter {recs : List Rec} {F F' : Int} {o : Nat} (h : Below recs F o) (hF : F ≤ F') :
    Below (recs.filter (fun r => decide ((r.end_ : Int) ≤ F'))) F o := by
  obtain ⟨rec, hm, ho, he⟩ := h
  exact ⟨rec, List.mem_filter.mpr ⟨hm, by simp only [decide_eq_true_eq]; omega⟩, ho, he⟩

/-- what the single-crash analysis gives for one era started from a state with `RInv` -/
theorem era_reach {st : HState} {s : Segment} (hr : RInv st)
    (hwf : WF L ck st.w (st.recs.map (·.off)) s.calls) :
    RefsBelow (st.allRecs L ck s) ∧
    ∀ r, (st.done = some r ∨ r ∈ commitRoots L ck st.w s.calls) →
      (∀ o, r.heads = some o → Below (st.allRecs L ck s) r.free o) ∧
      (∀ o, r.fact = some o → Below (st.allRecs L ck s) r.free o) := by
  have hk : ∀ o ∈ st.recs.map (·.off), Below st.recs st.w.root.free o := by
    intro o ho
    obtain ⟨rec, hm, rfl⟩ := List.mem_map.mp ho
    exact ⟨rec, hm, rfl, hr.ends rec hm⟩
  have hinv := reach_inv L ck s.calls st.w _ st.recs hr.nonneg hwf hk hr.refs
  refine ⟨hinv.1, ?_⟩
  intro r hr'
  rcases hr' with h | h
  · obtain ⟨_, hh, hf⟩ := hr.root r h
    have hsub : ∀ rec ∈ st.recs, rec ∈ st.allRecs L ck s := fun rec h => List.mem_append_left _ h
    exact ⟨fun o ho => (hh o ho).mono hsub (Int.le_refl _), fun o ho => (hf o ho).mono hsub (Int.le_refl _)⟩
  · exact hinv.2 r h

theorem reopen_rinv (hL : L.OK) {st st' : HState} {s : Segment} (hi : HInv L ck st) (hr : RInv st)
    (hck : ChecksumOK L ck st.w st.d s.calls) (hbd : Bounded L ck st.w s.calls)
    (hwf : WF L ck st.w (st.recs.map (·.off)) s.calls)
    (hn : st.next L ck s = some st') : RInv st' := by
  obtain ⟨D, hw⟩ := hi
  obtain ⟨hsafe, hre⟩ := run_safe hL s.calls _ _ _ _ _ hw hck hbd s.n s.χ
  obtain ⟨hrefs, hroots⟩ := era_reach (L := L) (ck := ck) (s := s) hr hwf
  unfold HState.next at hn
  split at hn
  · cases hn
  · rename_i w' ho
    simp only [Option.some.injEq] at hn
    subst hn
    have ho' : Writer.open L ck (st.image L ck s) = some w' := ho
    have hfs := hre.fs w' ho'
    -- the recovered root is the base root or a commit root of this era
    have hmem : st.done = some w'.root ∨ w'.root ∈ commitRoots L ck st.w s.calls := by
      have h1 := hsafe.1
      have ho'' : Writer.open L ck ((st.d.execAll ((trace L ck st.w s.calls).take s.n)).crash s.χ) = some w' := ho
      rw [ho''] at h1
      rcases h1 with h' | h'
      · rcases doneFrom_mem L ck s.calls _ _ _ _ h'.symm with h'' | h''
        · exact Or.inl h''
        · exact Or.inr h''
      · exact Or.inr (progFrom_mem L ck s.calls _ _ _ h'.symm)
    obtain ⟨hh, hf⟩ := hroots w'.root hmem
    refine ⟨?_, ?_, by dsimp only; omega, ?_⟩
    · intro rec hrec o' ho'
      simp only [List.mem_filter, decide_eq_true_eq] at hrec
      have hb := hrefs rec hrec.1 o' ho'
      have : ((rec.off : Nat) : Int) ≤ w'.root.free := by
        have : rec.off < rec.end_ := by unfold Rec.end_; omega
        omega
      exact hb.filter this
    · intro rec hrec
      simp only [List.mem_filter, decide_eq_true_eq] at hrec
      exact hrec.2
    · intro r hr'
      cases hr'
      exact ⟨rfl, fun o ho => (hh o ho).filter (Int.le_refl _), fun o ho => (hf o ho).filter (Int.le_refl _)⟩

theorem init_rinv (L : Layout) : RInv (HState.init L) := by
  refine ⟨?_, ?_, ?_, ?_⟩
  · intro rec h; cases h
  · intro rec h; cases h
  · simp [HState.init, Writer.create, Root.new]
  · intro r h; cases h

theorem hist_rinv (hL : L.OK) :
    ∀ (segs : List Segment) (st st' : HState), HInv L ck st → RInv st → HistHyps L ck st segs →
      HistWF L ck st segs → histFrom L ck st segs = some st' → RInv st' := by
  intro segs
  induction segs with
  | nil => intro st st' _ hr _ _ h; simp only [histFrom, Option.some.injEq] at h; subst h; exact hr
  | cons s ss ih =>
    intro st st' hi hr hh hwf h
    simp only [histFrom] at h
    obtain ⟨hck, hbd, hrest⟩ := hh
    obtain ⟨hwf1, hwfrest⟩ := hwf
    split at h
    · cases h
    · rename_i st1 hn
      rw [hn] at hrest hwfrest
      exact ih st1 st' (reopen_inv hL hi hck hbd hn) (reopen_rinv hL hi hr hck hbd hwf1 hn) hrest hwfrest h

end AranyaV.Disk
