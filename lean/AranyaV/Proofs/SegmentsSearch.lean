import AranyaV.Proofs.Segments
/-! The search loop of C11 (`search_queued` / `is_ancestor`): queue facts for the way the searches
use `TraversalQueue` (only `push` and `pop`, nothing covered), the termination measure, and the
loop specification `searchLoop_spec`. -/
namespace AranyaV.Segments
open AranyaV.Queue

/-! ### the queue as the searches use it -/

/-- nothing covered, at most one entry per segment -/
structure QOK (q : Queue) : Prop where
  cov : q.cov = []
  one : OnePerSeg q

theorem qok_new : QOK Queue.new :=
  ⟨rfl, by simp [OnePerSeg, Queue.new, Queue.all, segs]⟩

theorem mem_updFirst {p : Loc → Bool} {f : Loc → Loc} {l : List Loc} {x : Loc}
    (h : x ∈ updFirst p f l) : x ∈ l ∨ ∃ y ∈ l, p y = true ∧ x = f y := by
  induction l with
  | nil => simp [updFirst] at h
  | cons y ys ih =>
    simp only [updFirst] at h
    split at h
    · rename_i hp
      rcases List.mem_cons.mp h with rfl | h'
      · exact Or.inr ⟨y, by simp, hp, rfl⟩
      · exact Or.inl (List.mem_cons_of_mem _ h')
    · rcases List.mem_cons.mp h with rfl | h'
      · exact Or.inl (by simp)
      · rcases ih h' with h1 | ⟨z, hz, hpz, rfl⟩
        · exact Or.inl (List.mem_cons_of_mem _ h1)
        · exact Or.inr ⟨z, List.mem_cons_of_mem _ hz, hpz, rfl⟩

theorem updFirst_cover {p : Loc → Bool} {f : Loc → Loc} {l : List Loc} {e : Loc} (h : e ∈ l) :
    e ∈ updFirst p f l ∨ (l.find? p = some e ∧ f e ∈ updFirst p f l) := by
  induction l with
  | nil => simp at h
  | cons y ys ih =>
    simp only [updFirst]
    by_cases hp : p y = true
    · simp only [hp, if_true]
      rcases List.mem_cons.mp h with rfl | h'
      · exact Or.inr ⟨by simp [List.find?_cons, hp], by simp⟩
      · exact Or.inl (List.mem_cons_of_mem _ h')
    · simp only [hp, if_false]
      rcases List.mem_cons.mp h with rfl | h'
      · exact Or.inl (by simp)
      · rcases ih h' with h1 | ⟨h1, h2⟩
        · exact Or.inl (List.mem_cons_of_mem _ h1)
        · exact Or.inr ⟨by simp [List.find?_cons, hp, h1], List.mem_cons_of_mem _ h2⟩

theorem updFirst_has {p : Loc → Bool} {f : Loc → Loc} {l : List Loc} {e : Loc}
    (h : l.find? p = some e) : f e ∈ updFirst p f l := by
  induction l with
  | nil => simp at h
  | cons y ys ih =>
    simp only [updFirst]
    by_cases hp : p y = true
    · simp [List.find?_cons, hp] at h; subst h; simp [hp]
    · simp [List.find?_cons, hp] at h; simp [hp, ih h]

/-- what `push` does to a queue with nothing covered -/
theorem push_eq {q : Queue} (hc : q.cov = []) (l : Loc) :
    q.push l =
      match q.unc.find? (sameSeg l.seg) with
      | some e =>
        if l.mc > e.mc then
          { q with unc := updFirst (sameSeg l.seg) (fun x => ⟨l.mc, x.seg⟩) q.unc }
        else q
      | none => { q with unc := q.unc ++ [l] } := by
  unfold Queue.push Queue.pushCovered
  cases h : q.unc.find? (sameSeg l.seg) with
  | some e =>
    simp only [Bool.false_eq_true, if_false]
    by_cases h1 : l.mc > e.mc
    · simp [h1]
    · by_cases h2 : (l.mc == e.mc) = true <;> simp [h1, h2]
  | none => simp [hc]

theorem push_cov {q : Queue} (hc : q.cov = []) (l : Loc) : (q.push l).cov = [] := by
  rw [push_eq hc]
  cases q.unc.find? (sameSeg l.seg) with
  | some e => by_cases h1 : l.mc > e.mc <;> simp [h1, hc]
  | none => simp [hc]

theorem push_mem {q : Queue} (hc : q.cov = []) {l x : Loc} (h : x ∈ (q.push l).unc) :
    x ∈ q.unc ∨ x = l := by
  rw [push_eq hc] at h
  cases hf : q.unc.find? (sameSeg l.seg) with
  | some e =>
    rw [hf] at h
    by_cases h1 : l.mc > e.mc
    · simp only [h1, if_true] at h
      rcases mem_updFirst h with h' | ⟨y, _, hp, rfl⟩
      · exact Or.inl h'
      · right
        simp [sameSeg] at hp
        cases l; simp at hp ⊢; exact hp
    · simp only [h1, if_false] at h; exact Or.inl h
  | none =>
    rw [hf] at h
    simp at h
    exact h

/-- everything that was in the queue, and the pushed location, is represented afterwards by an
entry of the same segment with at least its max cut -/
theorem push_cover {q : Queue} (hc : q.cov = []) (l : Loc) {e : Loc} (h : e ∈ q.unc ∨ e = l) :
    ∃ e' ∈ (q.push l).unc, e'.seg = e.seg ∧ e.mc ≤ e'.mc := by
  rw [push_eq hc]
  cases hf : q.unc.find? (sameSeg l.seg) with
  | some e0 =>
    obtain ⟨hs0, hm0⟩ := find_some_seg hf
    by_cases h1 : l.mc > e0.mc
    · simp only [h1, if_true]
      rcases h with h | rfl
      · rcases updFirst_cover (p := sameSeg l.seg) (f := fun x => (⟨l.mc, x.seg⟩ : Loc)) h with h' | ⟨hp, h'⟩
        · exact ⟨e, h', rfl, Nat.le_refl _⟩
        · rw [hf] at hp
          cases hp
          exact ⟨_, h', rfl, by simp; omega⟩
      · exact ⟨_, updFirst_has (f := fun x => (⟨e.mc, x.seg⟩ : Loc)) hf, by simp [hs0], by simp⟩
    · simp only [h1, if_false]
      rcases h with h | rfl
      · exact ⟨e, h, rfl, Nat.le_refl _⟩
      · exact ⟨e0, hm0, hs0, by omega⟩
  | none =>
    simp only
    rcases h with h | rfl
    · exact ⟨e, by simp [h], rfl, Nat.le_refl _⟩
    · exact ⟨e, by simp, rfl, Nat.le_refl _⟩

theorem qok_push {q : Queue} (h : QOK q) (l : Loc) : QOK (q.push l) :=
  ⟨push_cov h.cov l, (push_rules q l false h.one).1⟩

/-- `pop` on a search queue: a maximum of the entries, removed -/
theorem pop_spec {q : Queue} (h : QOK q) :
    match q.pop with
    | (none, _) => q.unc = []
    | (some m, q') =>
      m ∈ q.unc ∧ (∀ x ∈ q.unc, x.ble m = true) ∧ QOK q' ∧
      (∀ x, x ∈ q'.unc ↔ (x ∈ q.unc ∧ x ≠ m)) := by
  have hp := pop_max q
  have hone' := apply_onePerSeg q .popCovered h.one rfl
  simp only [Queue.apply] at hone'
  rw [pop_eq_popCovered]
  revert hp hone'
  cases hpc : q.popCovered with
  | mk r q' =>
    cases r with
    | none =>
      simp only [Option.map_none]
      intro ⟨h1, _⟩ _
      simpa [Queue.all, h.cov] using h1
    | some mc =>
      obtain ⟨m, c⟩ := mc
      simp only [Option.map_some]
      intro ⟨_, hmax, h1, h2⟩ hone'
      cases c with
      | true => have := (h1 rfl).1; simp [h.cov] at this
      | false =>
        obtain ⟨hm, _, e1, e2⟩ := h2 rfl
        have hnd : q.unc.Nodup := by
          have := h.one
          unfold OnePerSeg Queue.all at this
          rw [h.cov, List.append_nil] at this
          exact List.Pairwise.of_map _ (fun a b h hab => h (hab ▸ rfl)) this
        refine ⟨hm, ?_, ⟨by rw [e2, h.cov], hone'⟩, ?_⟩
        · intro x hx; exact hmax x (by simp [Queue.all, hx])
        · intro x; rw [e1, hnd.mem_erase_iff]; exact And.comm

theorem pushPriors_nil (q : Queue) (tmc : Nat) : pushPriors q [] tmc = q := rfl

theorem pushPriors_cons (q : Queue) (p : Loc) (ps : List Loc) (tmc : Nat) :
    pushPriors q (p :: ps) tmc = pushPriors (if tmc ≤ p.mc then q.push p else q) ps tmc := rfl

theorem pushPriors_spec (ps : List Loc) (tmc : Nat) : ∀ {q : Queue}, QOK q →
    QOK (pushPriors q ps tmc) ∧
    (∀ e ∈ (pushPriors q ps tmc).unc, e ∈ q.unc ∨ (e ∈ ps ∧ tmc ≤ e.mc)) ∧
    (∀ e, (e ∈ q.unc ∨ (e ∈ ps ∧ tmc ≤ e.mc)) →
      ∃ e' ∈ (pushPriors q ps tmc).unc, e'.seg = e.seg ∧ e.mc ≤ e'.mc) := by
  induction ps with
  | nil =>
    intro q hq
    refine ⟨hq, fun e he => Or.inl he, ?_⟩
    intro e he
    rcases he with he | ⟨he, _⟩
    · exact ⟨e, he, rfl, Nat.le_refl _⟩
    · simp at he
  | cons p ps ih =>
    intro q hq
    rw [pushPriors_cons]
    by_cases hp : tmc ≤ p.mc
    · simp only [hp, if_true]
      obtain ⟨a, b, c⟩ := ih (qok_push hq p)
      refine ⟨a, ?_, ?_⟩
      · intro e he
        rcases b e he with h1 | ⟨h1, h2⟩
        · rcases push_mem hq.cov h1 with h3 | rfl
          · exact Or.inl h3
          · exact Or.inr ⟨by simp, hp⟩
        · exact Or.inr ⟨List.mem_cons_of_mem _ h1, h2⟩
      · intro e he
        have key : ∀ e0, e0 ∈ (q.push p).unc → e0.seg = e.seg → e.mc ≤ e0.mc →
            ∃ e' ∈ (pushPriors (q.push p) ps tmc).unc, e'.seg = e.seg ∧ e.mc ≤ e'.mc := by
          intro e0 h0 hs hm
          obtain ⟨e', h1, h2, h3⟩ := c e0 (Or.inl h0)
          exact ⟨e', h1, h2.trans hs, by omega⟩
        rcases he with he | ⟨he, hm⟩
        · obtain ⟨e0, h0, hs, hm⟩ := push_cover hq.cov p (Or.inl he)
          exact key e0 h0 hs hm
        · rcases List.mem_cons.mp he with rfl | he'
          · obtain ⟨e0, h0, hs, hm⟩ := push_cover hq.cov e (Or.inr rfl)
            exact key e0 h0 hs hm
          · exact c e (Or.inr ⟨he', hm⟩)
    · simp only [hp, if_false]
      obtain ⟨a, b, c⟩ := ih hq
      refine ⟨a, ?_, ?_⟩
      · intro e he
        rcases b e he with h1 | ⟨h1, h2⟩
        · exact Or.inl h1
        · exact Or.inr ⟨List.mem_cons_of_mem _ h1, h2⟩
      · intro e he
        rcases he with he | ⟨he, hm⟩
        · exact c e (Or.inl he)
        · rcases List.mem_cons.mp he with rfl | he'
          · exact absurd hm hp
          · exact c e (Or.inr ⟨he', hm⟩)

/-! ### the termination measure -/

/-- number of store locations at or below some queue entry -/
def cnt (s : Store) (q : Queue) : Nat :=
  s.allLocs.countP (fun x => q.unc.any (fun e => x.ble e))

theorem countP_lt_of {L : List Loc} {P1 P2 : Loc → Bool} {m : Loc}
    (himp : ∀ x, P2 x = true → P1 x = true) (hm : m ∈ L) (h1 : P1 m = true) (h2 : P2 m = false) :
    L.countP P2 < L.countP P1 := by
  induction L with
  | nil => simp at hm
  | cons y ys ih =>
    have hle : ys.countP P2 ≤ ys.countP P1 := List.countP_mono_left (fun x _ => himp x)
    rcases List.mem_cons.mp hm with rfl | hm'
    · simp only [List.countP_cons, h1, h2, if_true]
      simp; omega
    · have := ih hm'
      simp only [List.countP_cons]
      by_cases hy : P2 y = true
      · simp [hy, himp y hy]; omega
      · simp [hy]; split <;> omega

theorem cnt_lt {s : Store} {q q2 : Queue} {m : Loc} (hm : m ∈ s.allLocs) (hmq : m ∈ q.unc)
    (hB : ∀ e ∈ q2.unc, e.ble m = true ∧ e ≠ m) : cnt s q2 < cnt s q := by
  unfold cnt
  apply countP_lt_of (m := m) _ hm
  · simp only [List.any_eq_true]
    exact ⟨m, hmq, Loc.ble_refl m⟩
  · rw [Bool.eq_false_iff]
    simp only [ne_eq, List.any_eq_true, not_exists, not_and]
    intro e he hme
    exact (hB e he).2 (Loc.ble_antisymm (hB e he).1 hme)
  · intro x hx
    simp only [List.any_eq_true] at hx ⊢
    obtain ⟨e, he, hxe⟩ := hx
    exact ⟨m, hmq, Loc.ble_trans hxe (hB e he).1⟩

theorem mem_allLocs {s : Store} {l : Loc} (h : s.valid l = true) : l ∈ s.allLocs := by
  obtain ⟨g, hg, h1, h2⟩ := valid_iff.mp h
  unfold Store.allLocs
  rw [List.mem_flatMap]
  refine ⟨g, seg?_mem hg, ?_⟩
  unfold Seg.locs
  rw [List.mem_map]
  refine ⟨l.mc - g.first, by simp; omega, ?_⟩
  have := seg?_idx hg
  cases l; simp at *; omega

theorem cnt_lt_fuel (s : Store) (q : Queue) : cnt s q < s.fuel := by
  unfold cnt Store.fuel
  have := List.countP_le_length (p := fun x => q.unc.any (fun e => x.ble e)) (l := s.allLocs)
  omega

theorem lt_ble {a b : Loc} (h : a.mc < b.mc) : a.ble b = true ∧ a ≠ b := by
  constructor
  · simp [Loc.ble]; omega
  · rintro rfl; omega

/-! ### the loop -/

/-- what the per-segment test of a search must satisfy with respect to a target set `T` -/
structure Target (s : Store) (tmc : Nat) (hit : Seg → Option Loc) (T : Loc → Prop) : Prop where
  mc : ∀ x, T x → x.mc = tmc ∧ s.valid x = true
  hit_some : ∀ i g y, s.seg? i = some g → hit g = some y → T y ∧ y.seg = i
  hit_none : ∀ i g, s.seg? i = some g → hit g = none → ∀ x, T x → x.seg ≠ i

/-- On a well-formed store the loop terminates with an answer (no error, fuel never runs out);
a reported location is a target that is an ancestor-or-self of an entry of the queue; `none` is
reported only if no target is an ancestor-or-self of any entry. -/
theorem searchLoop_spec {s : Store} (hwf : WF s) {tmc : Nat} {hit : Seg → Option Loc}
    {T : Loc → Prop} (ht : Target s tmc hit T) :
    ∀ n q, QOK q → (∀ e ∈ q.unc, s.valid e = true ∧ tmc ≤ e.mc) → cnt s q < n →
      ∃ r, searchLoop s tmc hit n q = .ok r ∧
        (∀ y, r = some y → T y ∧ ∃ e ∈ q.unc, AncS s y e) ∧
        (r = none → ∀ x, T x → ∀ e ∈ q.unc, ¬ AncS s x e) := by
  intro n
  induction n with
  | zero => intro q _ _ h; omega
  | succ n ih =>
    intro q hq hv hn
    have hpop := pop_spec hq
    unfold searchLoop
    revert hpop
    cases hp : q.pop with
    | mk r q' =>
      cases r with
      | none =>
        simp only
        intro hnil
        exact ⟨none, rfl, by simp, by intro _ x _ e he; simp [hnil] at he⟩
      | some loc =>
        simp only
        intro ⟨hloc, hmax, hq', hmem⟩
        obtain ⟨hlv, hlt⟩ := hv loc hloc
        obtain ⟨g, hg, hg1, hg2⟩ := valid_iff.mp hlv
        have hgi := seg?_idx hg
        rw [hg]
        simp only
        cases hh : hit g with
        | some y =>
          simp only
          obtain ⟨hTy, hys⟩ := ht.hit_some _ g y hg hh
          obtain ⟨hymc, hyv⟩ := ht.mc y hTy
          refine ⟨some y, rfl, ?_, by simp⟩
          intro y' hy'; cases hy'
          exact ⟨hTy, loc, hloc, chain_loc hyv hlv hys (by omega)⟩
        | none =>
          simp only
          have hnone := ht.hit_none _ g hg hh
          have hflv : s.valid g.firstLoc = true :=
            valid_of_seg (l := g.firstLoc) (by simpa [Seg.firstLoc, hgi] using hg)
              (by simp [Seg.firstLoc]) (by simp [Seg.firstLoc]; omega)
          have hfl : AncS s g.firstLoc loc :=
            chain_loc hflv hlv (by simp [Seg.firstLoc, hgi]) (by simpa [Seg.firstLoc] using hg1)
          have hpar : s.parents g.firstLoc = g.prior.toList :=
            parents_first (l := g.firstLoc) (by simpa [Seg.firstLoc, hgi] using hg) rfl (by omega)
          -- the common continuation for "push these candidates"
          have cont : ∀ ps : List Loc,
              (∀ p ∈ ps, tmc ≤ p.mc → s.valid p = true ∧ Anc s p g.firstLoc) →
              (∀ x, T x → Anc s x g.firstLoc → ∃ p ∈ ps, tmc ≤ p.mc ∧ AncS s x p) →
              ∃ r, searchLoop s tmc hit n (pushPriors q' ps tmc) = .ok r ∧
                (∀ y, r = some y → T y ∧ ∃ e ∈ q.unc, AncS s y e) ∧
                (r = none → ∀ x, T x → ∀ e ∈ q.unc, ¬ AncS s x e) := by
            intro ps hi hii
            obtain ⟨hq2, hin, hcov⟩ := pushPriors_spec ps tmc hq'
            have hv2 : ∀ e ∈ (pushPriors q' ps tmc).unc, s.valid e = true ∧ tmc ≤ e.mc := by
              intro e he
              rcases hin e he with h1 | ⟨h1, h2⟩
              · exact hv e ((hmem e).mp h1).1
              · exact ⟨(hi e h1 h2).1, h2⟩
            have hbelow : ∀ e ∈ (pushPriors q' ps tmc).unc, e.ble loc = true ∧ e ≠ loc := by
              intro e he
              rcases hin e he with h1 | ⟨h1, h2⟩
              · exact ⟨hmax e ((hmem e).mp h1).1, ((hmem e).mp h1).2⟩
              · have := (hi e h1 h2).2.mc_lt hwf.priors
                simp only [Seg.firstLoc] at this
                exact lt_ble (by omega)
            have hcnt : cnt s (pushPriors q' ps tmc) < n := by
              have := cnt_lt (s := s) (mem_allLocs hlv) hloc hbelow
              omega
            obtain ⟨r, hr, hr1, hr2⟩ := ih _ hq2 hv2 hcnt
            refine ⟨r, hr, ?_, ?_⟩
            · intro y hy
              obtain ⟨hTy, e, he, hye⟩ := hr1 y hy
              refine ⟨hTy, ?_⟩
              rcases hin e he with h1 | ⟨h1, h2⟩
              · exact ⟨e, ((hmem e).mp h1).1, hye⟩
              · exact ⟨loc, hloc, hye.trans ((hi e h1 h2).2.ancS.trans hfl)⟩
            · intro hrn x hTx e he hxe
              obtain ⟨hxmc, hxv⟩ := ht.mc x hTx
              -- some queue entry of the next state still reaches x
              have : ∃ e2, (e2 ∈ q'.unc ∨ (e2 ∈ ps ∧ tmc ≤ e2.mc)) ∧ s.valid e2 = true ∧ AncS s x e2 := by
                by_cases hel : e = loc
                · subst hel
                  rcases descent hxe g hg hg1 with ⟨hs, _, _⟩ | ⟨p, hpm, hxp⟩
                  · exact absurd hs (hnone x hTx)
                  · have hanc : Anc s x g.firstLoc := ⟨p, by rw [hpar]; exact hpm, hxp⟩
                    obtain ⟨p', hp', hp'm, hxp'⟩ := hii x hTx hanc
                    exact ⟨p', Or.inr ⟨hp', hp'm⟩, (hi p' hp' hp'm).1, hxp'⟩
                · exact ⟨e, Or.inl ((hmem e).mpr ⟨he, hel⟩), (hv e he).1, hxe⟩
              obtain ⟨e2, he2, he2v, hxe2⟩ := this
              obtain ⟨e', he', hs', hm'⟩ := hcov e2 he2
              exact hr2 hrn x hTx e' he' (hxe2.trans (chain_loc he2v (hv2 e' he').1 hs'.symm hm'))
          cases hsk : g.skips.find? (fun k => decide (tmc ≤ k.mc)) with
          | some k =>
            simp only
            have hkm : tmc ≤ k.mc := by simpa using List.find?_some hsk
            have hks : SkipOK s g k := hwf.skips _ g hg k (List.mem_of_find?_eq_some hsk)
            have : q'.push k = pushPriors q' [k] tmc := by simp [pushPriors, hkm]
            rw [this]
            apply cont [k]
            · intro p hp _; simp at hp; subst hp; exact ⟨hks.1, hks.2.1⟩
            · intro x hTx hanc
              exact ⟨k, by simp, hkm, hks.2.2 x hanc (by rw [(ht.mc x hTx).1]; exact hkm)⟩
          | none =>
            simp only
            apply cont g.prior.toList
            · intro p hp _
              exact ⟨(hwf.priors _ g hg p hp).1, p, by rw [hpar]; exact hp, AncS.refl p⟩
            · intro x hTx ⟨m, hm, hxm⟩
              rw [hpar] at hm
              exact ⟨m, hm, by rw [← (ht.mc x hTx).1]; exact hxm.mc_le hwf.priors, hxm⟩

end AranyaV.Segments
