import AranyaV.Model.QueueIdx
import AranyaV.Proofs.Queue
/-! Mechanism lemmas for the index-level traversal queue (`Model/QueueIdx.lean`): what the swaps
across the partition boundary do to the two regions `U = entries[..part]`, `C = entries[part..]`. -/
namespace AranyaV.Queue

theorem lswap_getElem? {l l' : List Loc} {i j : Nat} (h : lswap l i j = .ok l') (k : Nat) :
    l'[k]? = if k = j then l[i]? else if k = i then l[j]? else l[k]? := by
  unfold lswap at h
  split at h
  · cases h; grind
  · cases h

theorem lswap_length {l l' : List Loc} {i j : Nat} (h : lswap l i j = .ok l') :
    l'.length = l.length := by
  unfold lswap at h
  split at h
  · cases h; grind
  · cases h

theorem lswap_perm {l l' : List Loc} {i j : Nat} (h : lswap l i j = .ok l') : l'.Perm l := by
  unfold lswap at h
  split at h
  · cases h
    rw [List.perm_iff_count]
    intro x
    grind
  · cases h

theorem lswap_ok {l : List Loc} {i j : Nat} (hi : i < l.length) (hj : j < l.length) :
    ∃ l', lswap l i j = .ok l' := by
  simp [lswap, hi, hj]

theorem swapRemove_spec {l : List Loc} {i : Nat} {x : Loc} (hx : l[i]? = some x) :
    ∃ r, swapRemove l i = .ok (x, r) ∧ lswap l i (l.length - 1) = .ok (r ++ [x]) ∧
      r.length = l.length - 1 := by
  have hi : i < l.length := by grind
  have hl : l.getLast? = some (l[l.length - 1]'(by omega)) := by
    rw [List.getLast?_eq_getElem?]; grind
  refine ⟨(l.set i (l[l.length - 1]'(by omega))).dropLast, ?_, ?_, ?_⟩
  · simp [swapRemove, hx, hl]
  · have : l[l.length - 1]? = some (l[l.length - 1]'(by omega)) := by grind
    simp only [lswap, hx, this]
    congr 1
    apply List.ext_getElem?
    intro k
    grind
  · grind

theorem perm_take_of_drop_eq {l l' : List Loc} {k : Nat} (h : l'.Perm l)
    (hd : l'.drop k = l.drop k) : (l'.take k).Perm (l.take k) := by
  rw [← List.take_append_drop k l', ← List.take_append_drop k l, hd] at h
  exact (List.perm_append_right_iff _).mp h

theorem perm_drop_of_take_eq {l l' : List Loc} {k : Nat} (h : l'.Perm l)
    (hd : l'.take k = l.take k) : (l'.drop k).Perm (l.drop k) := by
  rw [← List.take_append_drop k l', ← List.take_append_drop k l, hd] at h
  exact (List.perm_append_left_iff _).mp h


/-! ### the partition view -/

def IQ.Inv (q : IQ) : Prop := q.part ≤ q.entries.length
def IQ.U (q : IQ) : List Loc := q.entries.take q.part
def IQ.C (q : IQ) : List Loc := q.entries.drop q.part

theorem checkedSub_ok {a b : Nat} (h : b ≤ a) : checkedSub a b = .ok (a - b) := by simp [checkedSub, h]
theorem checkedAdd_ok {m a b : Nat} (h : a + b ≤ m) : checkedAdd m a b = .ok (a + b) := by
  simp [checkedAdd, h]

theorem moveToCovered_spec {q : IQ} {i : Nat} {x : Loc} (hinv : q.Inv) (hi : i < q.part)
    (hx : q.entries[i]? = some x) :
    ∃ q', q.moveToCovered i = .ok q' ∧ q'.part = q.part - 1 ∧
      q'.entries.length = q.entries.length ∧ (q'.U ++ [x]).Perm q.U ∧ q'.C = x :: q.C ∧
      ∀ k, k < i → q'.entries[k]? = q.entries[k]? := by
  unfold IQ.Inv at hinv
  obtain ⟨es, hes⟩ := lswap_ok (l := q.entries) (i := i) (j := q.part - 1) (by omega) (by omega)
  have hg := lswap_getElem? hes
  have hlen := lswap_length hes
  have hp := lswap_perm hes
  refine ⟨⟨es, q.part - 1⟩, ?_, rfl, hlen, ?_, ?_, ?_⟩
  · simp [IQ.moveToCovered, checkedSub_ok (show 1 ≤ q.part by omega), hes]
  · have hd : es.drop q.part = q.entries.drop q.part := by
      apply List.ext_getElem?; intro k; grind
    have ht := perm_take_of_drop_eq hp hd
    have : es.take q.part = es.take (q.part - 1) ++ [x] := by
      have : q.part = (q.part - 1) + 1 := by omega
      rw [this, List.take_add_one]; grind
    simp only [IQ.U]; rw [← this]; exact ht
  · simp only [IQ.C]
    have hd : es.drop q.part = q.entries.drop q.part := by
      apply List.ext_getElem?; intro k; grind
    rw [← hd]
    apply List.ext_getElem?; intro k; grind
  · intro k hk; grind

theorem moveToUncovered_spec {q : IQ} {i : Nat} {x : Loc} (hinv : q.Inv) (hi : q.part ≤ i)
    (hx : q.entries[i]? = some x) (hb : q.entries.length ≤ usizeMax) :
    ∃ q', q.moveToUncovered i = .ok q' ∧ q'.part = q.part + 1 ∧
      q'.entries.length = q.entries.length ∧ q'.U = q.U ++ [x] ∧ (x :: q'.C).Perm q.C ∧
      ∀ k, k < q.part → q'.entries[k]? = q.entries[k]? := by
  unfold IQ.Inv at hinv
  have hi2 : i < q.entries.length := by grind
  obtain ⟨es, hes⟩ := lswap_ok (l := q.entries) (i := i) (j := q.part) (by omega) (by omega)
  have hg := lswap_getElem? hes
  have hlen := lswap_length hes
  have hp := lswap_perm hes
  refine ⟨⟨es, q.part + 1⟩, ?_, rfl, hlen, ?_, ?_, ?_⟩
  · simp [IQ.moveToUncovered, checkedAdd_ok (show q.part + 1 ≤ usizeMax by omega), hes]
  · simp only [IQ.U]
    apply List.ext_getElem?; intro k; grind
  · have ht : es.take q.part = q.entries.take q.part := by
      apply List.ext_getElem?; intro k; grind
    have hd := perm_drop_of_take_eq hp ht
    have : es.drop q.part = x :: es.drop (q.part + 1) := by
      apply List.ext_getElem?; intro k; grind
    simp only [IQ.C]; rw [← this]; exact hd
  · intro k hk; grind

theorem covRemove_spec {q : IQ} {i : Nat} {x : Loc} (hinv : q.Inv) (hi : q.part ≤ i)
    (hx : q.entries[i]? = some x) :
    ∃ es, swapRemove q.entries i = .ok (x, es) ∧ es.length = q.entries.length - 1 ∧
      IQ.Inv ⟨es, q.part⟩ ∧ IQ.U ⟨es, q.part⟩ = q.U ∧ (x :: IQ.C ⟨es, q.part⟩).Perm q.C ∧
      ∀ k, k < i → es[k]? = q.entries[k]? := by
  unfold IQ.Inv at hinv
  have hi2 : i < q.entries.length := by grind
  obtain ⟨es, hes, hsw, hlen⟩ := swapRemove_spec hx
  have hg := lswap_getElem? hsw
  have hp := lswap_perm hsw
  have hk : ∀ k, k < q.entries.length - 1 → es[k]? = (es ++ [x])[k]? := by
    intro k hk; rw [List.getElem?_append_left (by omega)]
  refine ⟨es, hes, hlen, ?_, ?_, ?_, ?_⟩
  · simp only [IQ.Inv]; omega
  · simp only [IQ.U]
    apply List.ext_getElem?; intro k
    by_cases hkp : k < q.part
    · simp only [List.getElem?_take, hkp, if_true]
      rw [hk k (by omega), hg]; grind
    · simp [List.getElem?_take, hkp]
  · have ht : (es ++ [x]).take q.part = q.entries.take q.part := by
      apply List.ext_getElem?; intro k
      by_cases hkp : k < q.part
      · simp only [List.getElem?_take, hkp, if_true]
        rw [hg]; grind
      · simp [List.getElem?_take, hkp]
    have hd := perm_drop_of_take_eq hp ht
    rw [List.drop_append_of_le_length (by omega)] at hd
    simp only [IQ.C]
    exact (List.perm_append_singleton x _).symm.trans hd
  · intro k hk'
    rw [hk k (by omega), hg]; grind

theorem removeUncovered_spec {q : IQ} {i : Nat} {x : Loc} (hinv : q.Inv) (hi : i < q.part)
    (hx : q.entries[i]? = some x) :
    ∃ q', q.removeUncovered i = .ok (x, q') ∧ q'.part = q.part - 1 ∧
      q'.entries.length = q.entries.length - 1 ∧ q'.Inv ∧ (q'.U ++ [x]).Perm q.U ∧
      q'.C.Perm q.C ∧ ∀ k, k < i → q'.entries[k]? = q.entries[k]? := by
  obtain ⟨q1, h1, hp1, hl1, hu1, hc1, hpre1⟩ := moveToCovered_spec hinv hi hx
  have hinv1 : q1.Inv := by unfold IQ.Inv at *; omega
  have hx1 : q1.entries[q1.part]? = some x := by
    have : q1.C[0]? = some x := by rw [hc1]; rfl
    simpa [IQ.C] using this
  obtain ⟨es, h2, hl2, hinv2, hu2, hc2, hpre2⟩ := covRemove_spec hinv1 (Nat.le_refl _) hx1
  refine ⟨⟨es, q1.part⟩, ?_, hp1, by simp only; omega, hinv2, ?_, ?_, ?_⟩
  · simp [IQ.removeUncovered, h1, h2]
  · rw [hu2]; exact hu1
  · rw [hc1] at hc2; exact hc2.cons_inv
  · intro k hk
    rw [hpre2 k (by omega), hpre1 k hk]

/-! ### `position` versus `find?` / `eraseFirst` / `updFirst` -/

theorem findIdx?_none_find {p : Loc → Bool} {l : List Loc} (h : l.findIdx? p = none) :
    l.find? p = none := by
  induction l with
  | nil => rfl
  | cons y ys ih =>
    rw [List.findIdx?_cons] at h
    by_cases hy : p y = true
    · simp [hy] at h
    · simp only [hy, Bool.false_eq_true, if_false, Option.map_eq_none_iff] at h
      simp [hy, ih h]

theorem findIdx?_some_spec {p : Loc → Bool} (f : Loc → Loc) {l : List Loc} {i : Nat}
    (h : l.findIdx? p = some i) :
    ∃ e, l[i]? = some e ∧ l.find? p = some e ∧ updFirst p f l = l.set i (f e) := by
  induction l generalizing i with
  | nil => simp at h
  | cons y ys ih =>
    rw [List.findIdx?_cons] at h
    by_cases hy : p y = true
    · simp [hy] at h; subst h
      exact ⟨y, rfl, by simp [hy], by simp [updFirst, hy]⟩
    · simp [hy] at h
      obtain ⟨j, hj, rfl⟩ := h
      obtain ⟨e, h1, h2, h3⟩ := ih hj
      exact ⟨e, by simpa using h1, by simp [hy, h2], by simp [updFirst, hy, h3]⟩

theorem eraseFirst_perm {p : Loc → Bool} {l : List Loc} {e : Loc} (h : l.find? p = some e) :
    l.Perm (e :: eraseFirst p l) := by
  induction l with
  | nil => simp at h
  | cons y ys ih =>
    by_cases hy : p y = true
    · simp [hy] at h; subst h
      simp [eraseFirst, hy]
    · simp [hy] at h
      simp only [eraseFirst, hy]
      exact ((ih h).cons y).trans (List.Perm.swap ..)

theorem updFirst_perm {p : Loc → Bool} (f : Loc → Loc) {l : List Loc} {e : Loc}
    (h : l.find? p = some e) : (updFirst p f l).Perm (f e :: eraseFirst p l) := by
  induction l with
  | nil => simp at h
  | cons y ys ih =>
    by_cases hy : p y = true
    · simp [hy] at h; subst h
      simp [eraseFirst, updFirst, hy]
    · simp [hy] at h
      simp only [eraseFirst, updFirst, hy]
      exact ((ih h).cons y).trans (List.Perm.swap ..)

/-! ### abstraction to the two-list model -/

def IQ.abs (q : IQ) : Queue := ⟨q.U, q.C⟩

/-- same two multisets -/
def Queue.Equiv (a b : Queue) : Prop := a.unc.Perm b.unc ∧ a.cov.Perm b.cov

theorem Queue.Equiv.refl (a : Queue) : a.Equiv a := ⟨.refl _, .refl _⟩
theorem Queue.Equiv.trans {a b c : Queue} (h1 : a.Equiv b) (h2 : b.Equiv c) : a.Equiv c :=
  ⟨h1.1.trans h2.1, h1.2.trans h2.2⟩
theorem Queue.Equiv.symm {a b : Queue} (h1 : a.Equiv b) : b.Equiv a := ⟨h1.1.symm, h1.2.symm⟩

theorem IQ.entries_eq (q : IQ) : q.entries = q.U ++ q.C := (List.take_append_drop _ _).symm

theorem IQ.U_length {q : IQ} (h : q.Inv) : q.U.length = q.part := by
  simp only [IQ.U, List.length_take]; unfold IQ.Inv at h; omega

theorem IQ.getElem?_lt {q : IQ} {i : Nat} (hi : i < q.part) : q.entries[i]? = q.U[i]? := by
  simp [IQ.U, hi]

theorem IQ.getElem?_ge {q : IQ} (k : Nat) : q.entries[k + q.part]? = q.C[k]? := by
  simp [IQ.C, Nat.add_comm]

theorem IQ.set_lt {q : IQ} {i : Nat} (hi : i < q.part) (a : Loc) :
    IQ.U ⟨q.entries.set i a, q.part⟩ = q.U.set i a ∧ IQ.C ⟨q.entries.set i a, q.part⟩ = q.C := by
  simp [IQ.U, IQ.C, List.take_set, List.drop_set, hi]

theorem IQ.set_ge {q : IQ} (k : Nat) (a : Loc) :
    IQ.U ⟨q.entries.set (k + q.part) a, q.part⟩ = q.U ∧
    IQ.C ⟨q.entries.set (k + q.part) a, q.part⟩ = q.C.set k a := by
  constructor
  · simp only [IQ.U, List.take_set]
    apply List.set_eq_of_length_le
    simp only [List.length_take]; omega
  · simp only [IQ.C, List.drop_set]
    rw [if_neg (by omega)]; simp

theorem findIdx?_lt {p : Loc → Bool} {l : List Loc} {i : Nat} (h : l.findIdx? p = some i) :
    i < l.length := by
  obtain ⟨e, h1, _⟩ := findIdx?_some_spec id h
  grind

theorem fixFlag_ft (q : IQ) (i : Nat) : q.fixFlag i false true = q.moveToCovered i := rfl
theorem fixFlag_tf (q : IQ) (i : Nat) : q.fixFlag i true false = q.moveToUncovered i := rfl
theorem fixFlag_same (q : IQ) (i : Nat) (b : Bool) : q.fixFlag i b b = .ok q := by cases b <;> rfl

theorem IQ.append_view {q : IQ} (h : q.Inv) (a : Loc) :
    IQ.U ⟨q.entries ++ [a], q.part⟩ = q.U ∧ IQ.C ⟨q.entries ++ [a], q.part⟩ = q.C ++ [a] := by
  unfold IQ.Inv at h
  simp [IQ.U, IQ.C, List.take_append_of_le_length h, List.drop_append_of_le_length h]

/-- moving entry `i` across the boundary to the covered side -/
theorem toCov_equiv {q : IQ} {i : Nat} {x : Loc} {R : List Loc} (hinv : q.Inv) (hi : i < q.part)
    (hx : q.entries[i]? = some x) (hR : q.U.Perm (x :: R)) :
    ∃ q', q.moveToCovered i = .ok q' ∧ q'.Inv ∧ q'.entries.length = q.entries.length ∧
      q'.abs.Equiv ⟨R, q.C ++ [x]⟩ := by
  obtain ⟨q', h, hp, hl, hu, hc, _⟩ := moveToCovered_spec hinv hi hx
  refine ⟨q', h, ?_, hl, ?_, ?_⟩
  · unfold IQ.Inv at *; omega
  · exact (((List.perm_append_singleton x _).symm.trans hu).trans hR).cons_inv
  · simp only [IQ.abs]; rw [hc]; exact (List.perm_append_singleton _ _).symm

/-- moving entry `i` across the boundary to the uncovered side -/
theorem toUnc_equiv {q : IQ} {i : Nat} {x : Loc} {R : List Loc} (hinv : q.Inv) (hi : q.part ≤ i)
    (hx : q.entries[i]? = some x) (hb : q.entries.length ≤ usizeMax) (hR : q.C.Perm (x :: R)) :
    ∃ q', q.moveToUncovered i = .ok q' ∧ q'.Inv ∧ q'.entries.length = q.entries.length ∧
      q'.abs.Equiv ⟨q.U ++ [x], R⟩ := by
  obtain ⟨q', h, hp, hl, hu, hc, _⟩ := moveToUncovered_spec hinv hi hx hb
  have : i < q.entries.length := by grind
  refine ⟨q', h, ?_, hl, ?_, ?_⟩
  · unfold IQ.Inv at *; omega
  · simp only [IQ.abs]; rw [hu]
  · exact (hc.trans hR).cons_inv

theorem pushCovered_abs {q : IQ} (hinv : q.Inv) (hb : q.entries.length < usizeMax)
    (loc : Loc) (c : Bool) :
    ∃ q', q.pushCovered loc c = .ok q' ∧ q'.Inv ∧ q'.entries.length ≤ q.entries.length + 1 ∧
      q'.abs.Equiv (q.abs.pushCovered loc c) := by
  have hUl := IQ.U_length hinv
  have hfi : q.entries.findIdx? (sameSeg loc.seg) = (q.U.findIdx? (sameSeg loc.seg)).or
      ((q.C.findIdx? (sameSeg loc.seg)).map (· + q.part)) := by
    conv => lhs; rw [q.entries_eq]
    rw [List.findIdx?_append, hUl]
  have hlen : q.part ≤ q.entries.length := hinv
  cases hU : q.U.findIdx? (sameSeg loc.seg) with
  | some i =>
    have hi : i < q.part := hUl ▸ findIdx?_lt hU
    obtain ⟨e, he1, he2, he3⟩ := findIdx?_some_spec (fun x => ⟨loc.mc, x.seg⟩) hU
    have hei : q.entries[i]? = some e := (IQ.getElem?_lt hi).trans he1
    have hfE : q.entries.findIdx? (sameSeg loc.seg) = some i := by rw [hfi, hU]; rfl
    have hwas : decide (q.part ≤ i) = false := by simp; omega
    simp only [IQ.pushCovered, Queue.pushCovered, hfE, hei, hwas, IQ.abs, he2]
    by_cases hgt : loc.mc > e.mc
    · simp only [hgt, if_true]
      cases c with
      | false => 
        simp only [fixFlag_same, Bool.false_eq_true, if_false]
        refine ⟨_, rfl, ?_, ?_, ?_⟩
        · simp only [IQ.Inv, List.length_set]; exact hinv
        · simp
        · have := IQ.set_lt hi (⟨loc.mc, e.seg⟩ : Loc)
          simp only [this.1, this.2, he3]
          exact Queue.Equiv.refl _
      | true =>
        simp only [fixFlag_ft, if_true]
        have hs := IQ.set_lt hi (⟨loc.mc, e.seg⟩ : Loc)
        have hinv1 : IQ.Inv ⟨q.entries.set i ⟨loc.mc, e.seg⟩, q.part⟩ := by
          simp only [IQ.Inv, List.length_set]; exact hinv
        obtain ⟨q', h1, h2, h3, h4⟩ := toCov_equiv (q := ⟨q.entries.set i ⟨loc.mc, e.seg⟩, q.part⟩)
          (i := i) (x := ⟨loc.mc, e.seg⟩) (R := eraseFirst (sameSeg loc.seg) q.U) hinv1 hi
          (by simp only [List.getElem?_set_self (show i < q.entries.length by omega)])
          (by rw [hs.1, ← he3]; exact updFirst_perm _ he2)
        refine ⟨q', h1, h2, by rw [h3]; simp, ?_⟩
        rw [hs.2] at h4; exact h4
    · simp only [hgt, if_false]
      by_cases heq : loc.mc = e.mc
      · simp only [heq, beq_self_eq_true, if_true, Bool.false_or]
        cases c with
        | false =>
          simp only [fixFlag_same, Bool.false_eq_true, if_false]
          exact ⟨q, rfl, hinv, by omega, Queue.Equiv.refl _⟩
        | true =>
          simp only [fixFlag_ft, if_true]
          obtain ⟨q', h1, h2, h3, h4⟩ := toCov_equiv hinv hi hei (eraseFirst_perm he2)
          exact ⟨q', h1, h2, by omega, h4⟩
      · have : (loc.mc == e.mc) = false := by simpa using heq
        simp only [this, Bool.false_eq_true, if_false]
        exact ⟨q, rfl, hinv, by omega, Queue.Equiv.refl _⟩
  | none =>
    have hUn := findIdx?_none_find hU
    cases hC : q.C.findIdx? (sameSeg loc.seg) with
    | some k =>
      obtain ⟨e, he1, he2, he3⟩ := findIdx?_some_spec (fun x => ⟨loc.mc, x.seg⟩) hC
      have hei : q.entries[k + q.part]? = some e := (IQ.getElem?_ge k).trans he1
      have hfE : q.entries.findIdx? (sameSeg loc.seg) = some (k + q.part) := by
        rw [hfi, hU, hC]; rfl
      have hwas : decide (q.part ≤ k + q.part) = true := by simp
      have hkl : k + q.part < q.entries.length := by grind
      simp only [IQ.pushCovered, Queue.pushCovered, hfE, hei, hwas, IQ.abs, hUn, he2]
      by_cases hgt : loc.mc > e.mc
      · simp only [hgt, if_true]
        have hs := IQ.set_ge (q := q) k (⟨loc.mc, e.seg⟩ : Loc)
        have hinv1 : IQ.Inv ⟨q.entries.set (k + q.part) ⟨loc.mc, e.seg⟩, q.part⟩ := by
          simp only [IQ.Inv, List.length_set]; exact hinv
        cases c with
        | true =>
          simp only [fixFlag_same, if_true]
          refine ⟨_, rfl, hinv1, by simp, ?_⟩
          simp only [hs.1, hs.2, he3]
          exact Queue.Equiv.refl _
        | false =>
          simp only [fixFlag_tf, Bool.false_eq_true, if_false]
          obtain ⟨q', h1, h2, h3, h4⟩ := toUnc_equiv
            (q := ⟨q.entries.set (k + q.part) ⟨loc.mc, e.seg⟩, q.part⟩)
            (i := k + q.part) (x := ⟨loc.mc, e.seg⟩) (R := eraseFirst (sameSeg loc.seg) q.C) hinv1
            (by simp) (by simp only [List.getElem?_set_self hkl])
            (by simp only [List.length_set]; omega)
            (by rw [hs.2, ← he3]; exact updFirst_perm _ he2)
          refine ⟨q', h1, h2, by rw [h3]; simp, ?_⟩
          rw [hs.1] at h4; exact h4
      · simp only [hgt, if_false]
        refine ⟨q, ?_, hinv, by omega, Queue.Equiv.refl _⟩
        by_cases heq : loc.mc = e.mc
        · simp [heq, fixFlag_same]
        · have : (loc.mc == e.mc) = false := by simpa using heq
          simp [this]
    | none =>
      have hCn := findIdx?_none_find hC
      have hfE : q.entries.findIdx? (sameSeg loc.seg) = none := by rw [hfi, hU, hC]; rfl
      simp only [IQ.pushCovered, Queue.pushCovered, hfE, IQ.abs, hUn, hCn]
      have hv := IQ.append_view hinv loc
      have hinv1 : IQ.Inv ⟨q.entries ++ [loc], q.part⟩ := by
        simp only [IQ.Inv, List.length_append, List.length_singleton]; omega
      cases c with
      | true =>
        simp only [if_true]
        refine ⟨_, rfl, hinv1, by simp, ?_⟩
        simp only [hv.1, hv.2]; exact Queue.Equiv.refl _
      | false =>
        simp only [Bool.false_eq_true, if_false, IQ.swapInLast, List.length_append,
          List.length_singleton, checkedSub_ok (show 1 ≤ q.entries.length + 1 by omega),
          Nat.add_sub_cancel]
        obtain ⟨q', h1, h2, h3, h4⟩ := toUnc_equiv (q := ⟨q.entries ++ [loc], q.part⟩)
          (i := q.entries.length) (x := loc) (R := q.C) hinv1 hlen (by simp)
          (by simp only [List.length_append, List.length_singleton]; omega)
          (by rw [hv.2]; exact List.perm_append_singleton _ _)
        refine ⟨q', h1, h2, by rw [h3]; simp, ?_⟩
        rw [hv.1] at h4; exact h4

theorem pushDuplicate_abs {q : IQ} (hinv : q.Inv) (hb : q.entries.length < usizeMax) (loc : Loc) :
    ∃ q', q.pushDuplicate loc = .ok q' ∧ q'.Inv ∧ q'.entries.length = q.entries.length + 1 ∧
      q'.abs.Equiv (q.abs.pushDuplicate loc) := by
  have hlen : q.part ≤ q.entries.length := hinv
  have hv := IQ.append_view hinv loc
  have hinv1 : IQ.Inv ⟨q.entries ++ [loc], q.part⟩ := by
    simp only [IQ.Inv, List.length_append, List.length_singleton]; omega
  simp only [IQ.pushDuplicate, Queue.pushDuplicate, IQ.swapInLast, List.length_append,
    List.length_singleton, checkedSub_ok (show 1 ≤ q.entries.length + 1 by omega),
    Nat.add_sub_cancel, IQ.abs]
  obtain ⟨q', h1, h2, h3, h4⟩ := toUnc_equiv (q := ⟨q.entries ++ [loc], q.part⟩)
    (i := q.entries.length) (x := loc) (R := q.C) hinv1 hlen (by simp)
    (by simp only [List.length_append, List.length_singleton]; omega)
    (by rw [hv.2]; exact List.perm_append_singleton _ _)
  refine ⟨q', h1, h2, by rw [h3]; simp, ?_⟩
  rw [hv.1] at h4; exact h4

theorem coverUpTo_abs {q : IQ} (hinv : q.Inv) (s cmc lmc : Nat) (hl : lmc ≤ u64Max) :
    ∃ q', q.coverUpTo s cmc lmc = .ok q' ∧ q'.Inv ∧ q'.entries.length = q.entries.length ∧
      q'.abs.Equiv (q.abs.coverUpTo s cmc lmc) := by
  have hUl := IQ.U_length hinv
  have hfi : q.entries.findIdx? (sameSeg s) = (q.U.findIdx? (sameSeg s)).or
      ((q.C.findIdx? (sameSeg s)).map (· + q.part)) := by
    conv => lhs; rw [q.entries_eq]
    rw [List.findIdx?_append, hUl]
  cases hU : q.U.findIdx? (sameSeg s) with
  | some i =>
    have hi : i < q.part := hUl ▸ findIdx?_lt hU
    obtain ⟨e, he1, he2, he3⟩ := findIdx?_some_spec (fun x => ⟨cmc + 1, x.seg⟩) hU
    have hei : q.entries[i]? = some e := (IQ.getElem?_lt hi).trans he1
    have hfE : q.entries.findIdx? (sameSeg s) = some i := by rw [hfi, hU]; rfl
    have hwas : ¬ q.part ≤ i := by omega
    simp only [IQ.coverUpTo, Queue.coverUpTo, hfE, hei, hwas, IQ.abs, he2, if_false]
    by_cases h1 : cmc ≥ lmc
    · simp only [h1, if_true]
      obtain ⟨q', h1, h2, h3, h4⟩ := toCov_equiv hinv hi hei (eraseFirst_perm he2)
      exact ⟨q', h1, h2, h3, h4⟩
    · simp only [h1, if_false]
      by_cases h2 : cmc ≥ e.mc
      · simp only [h2, if_true, checkedAdd_ok (show cmc + 1 ≤ u64Max by omega)]
        refine ⟨_, rfl, ?_, by simp, ?_⟩
        · simp only [IQ.Inv, List.length_set]; exact hinv
        · have := IQ.set_lt hi (⟨cmc + 1, e.seg⟩ : Loc)
          simp only [this.1, this.2, he3]
          exact Queue.Equiv.refl _
      · simp only [h2, if_false]
        exact ⟨q, rfl, hinv, rfl, Queue.Equiv.refl _⟩
  | none =>
    have hUn := findIdx?_none_find hU
    cases hC : q.C.findIdx? (sameSeg s) with
    | some k =>
      have hfE : q.entries.findIdx? (sameSeg s) = some (k + q.part) := by
        rw [hfi, hU, hC]; rfl
      simp only [IQ.coverUpTo, Queue.coverUpTo, hfE, IQ.abs, hUn,
        show q.part ≤ k + q.part by omega, if_true]
      exact ⟨q, rfl, hinv, rfl, Queue.Equiv.refl _⟩
    | none =>
      have hfE : q.entries.findIdx? (sameSeg s) = none := by rw [hfi, hU, hC]; rfl
      simp only [IQ.coverUpTo, Queue.coverUpTo, hfE, IQ.abs, hUn]
      exact ⟨q, rfl, hinv, rfl, Queue.Equiv.refl _⟩

theorem emitPrefix_eq {es : List Loc} {n : Nat} (h : n ≤ es.length) :
    emitPrefix es n = .ok (es.take n) := by
  induction n with
  | zero => simp [emitPrefix]
  | succ n ih =>
    have hx : es[n]? = some (es[n]'(by omega)) := by grind
    simp only [emitPrefix, ih (by omega), hx, List.take_add_one, Option.toList]

theorem drainAll_abs {q : IQ} (hinv : q.Inv) :
    q.drainAll = .ok (q.abs.drainAll.1, IQ.new) ∧ IQ.new.abs = q.abs.drainAll.2 := by
  simp only [IQ.drainAll, emitPrefix_eq hinv, Queue.drainAll, IQ.abs, IQ.U]
  exact ⟨rfl, rfl⟩

theorem allCovered_abs {q : IQ} (hinv : q.Inv) : q.allCovered = q.abs.allCovered := by
  have := IQ.U_length hinv
  simp only [IQ.allCovered, Queue.allCovered, IQ.abs]
  cases h : q.U with
  | nil => rw [h] at this; simp at this; simp [← this]
  | cons a l => rw [h] at this; simp at this; simp [← this]

theorem isEmpty_abs (q : IQ) : q.isEmpty = q.abs.isEmpty := by
  simp only [IQ.isEmpty, Queue.isEmpty, Queue.all, IQ.abs, ← q.entries_eq]

/-! ### `max_by_key`: index of the last maximum -/

theorem maxIdxGo_spec (xs : List Loc) (k bi : Nat) (b : Loc) :
    (∀ x ∈ b :: xs, x.ble (maxIdxGo xs k (bi, b)).2 = true) ∧
    (maxIdxGo xs k (bi, b) = (bi, b) ∨
      (k ≤ (maxIdxGo xs k (bi, b)).1 ∧
        xs[(maxIdxGo xs k (bi, b)).1 - k]? = some (maxIdxGo xs k (bi, b)).2)) ∧
    (∀ j, xs[j]? = some (maxIdxGo xs k (bi, b)).2 → k + j ≤ (maxIdxGo xs k (bi, b)).1) := by
  induction xs generalizing k bi b with
  | nil => simp [maxIdxGo, Loc.ble_refl]
  | cons x xs ih =>
    simp only [maxIdxGo]
    by_cases hbx : b.ble x = true
    · rw [if_pos hbx]
      obtain ⟨ha, hb, hc⟩ := ih (k + 1) k x
      generalize maxIdxGo xs (k + 1) (k, x) = r at ha hb hc
      refine ⟨?_, ?_, ?_⟩
      · intro y hy
        rcases List.mem_cons.mp hy with rfl | hy
        · exact Loc.ble_trans hbx (ha x (List.mem_cons_self ..))
        · exact ha y hy
      · right
        rcases hb with hb | ⟨hb1, hb2⟩
        · subst hb; simp
        · refine ⟨by omega, ?_⟩
          have : r.1 - k = (r.1 - (k + 1)) + 1 := by omega
          rw [this]; simpa using hb2
      · intro j hj
        cases j with
        | zero =>
          rcases hb with hb | ⟨hb1, _⟩
          · subst hb; simp
          · omega
        | succ j => have := hc j (by simpa using hj); omega
    · rw [if_neg hbx]
      obtain ⟨ha, hb, hc⟩ := ih (k + 1) bi b
      generalize maxIdxGo xs (k + 1) (bi, b) = r at ha hb hc
      have hxb : x.ble b = true := (Loc.ble_total x b).resolve_right hbx
      refine ⟨?_, ?_, ?_⟩
      · intro y hy
        rcases List.mem_cons.mp hy with rfl | hy
        · exact ha y (List.mem_cons_self ..)
        · rcases List.mem_cons.mp hy with rfl | hy
          · exact Loc.ble_trans hxb (ha b (List.mem_cons_self ..))
          · exact ha y (List.mem_cons_of_mem _ hy)
      · rcases hb with hb | ⟨hb1, hb2⟩
        · left; exact hb
        · right
          refine ⟨by omega, ?_⟩
          have : r.1 - k = (r.1 - (k + 1)) + 1 := by omega
          rw [this]; simpa using hb2
      · intro j hj
        cases j with
        | zero =>
          rcases hb with hb | ⟨hb1, _⟩
          · subst hb
            simp at hj; subst hj
            exact absurd (Loc.ble_refl _) hbx
          · omega
        | succ j => have := hc j (by simpa using hj); omega

theorem maxIdx_none {l : List Loc} : maxIdx l = none ↔ l = [] := by
  cases l <;> simp [maxIdx]

theorem maxIdx_spec {l : List Loc} {i : Nat} {m : Loc} (h : maxIdx l = some (i, m)) :
    l[i]? = some m ∧ (∀ x ∈ l, x.ble m = true) ∧ (∀ j, l[j]? = some m → j ≤ i) := by
  cases l with
  | nil => simp [maxIdx] at h
  | cons x xs =>
    simp only [maxIdx, Option.some.injEq] at h
    obtain ⟨ha, hb, hc⟩ := maxIdxGo_spec xs 1 0 x
    rw [h] at ha hb hc
    simp only at ha hb hc
    refine ⟨?_, ha, ?_⟩
    · rcases hb with hb | ⟨hb1, hb2⟩
      · cases hb; rfl
      · have : i = (i - 1) + 1 := by omega
        rw [this]; simpa using hb2
    · intro j hj
      cases j with
      | zero => omega
      | succ j => have := hc j (by simpa using hj); omega

theorem maxIdx_maxLoc {l : List Loc} {i : Nat} {m : Loc} (h : maxIdx l = some (i, m)) :
    maxLoc l = some m := by
  obtain ⟨h1, h2, _⟩ := maxIdx_spec h
  have hm : m ∈ l := List.mem_of_getElem? h1
  cases h' : maxLoc l with
  | none => rw [maxLoc_none.mp h'] at hm; simp at hm
  | some m' =>
    have := Loc.ble_antisymm (h2 m' (maxLoc_mem h')) (maxLoc_ge h' m hm)
    rw [this]

theorem IQ.abs_all (q : IQ) : q.abs.all = q.entries := by
  simp only [Queue.all, IQ.abs, ← q.entries_eq]

theorem peek_abs (q : IQ) : q.peek = q.abs.peek := by
  simp only [IQ.peek, Queue.peek, IQ.abs_all]
  cases h : maxIdx q.entries with
  | none => rw [maxIdx_none.mp h]; rfl
  | some im => obtain ⟨i, m⟩ := im; rw [maxIdx_maxLoc h]; rfl

theorem popCovered_abs {q : IQ} (hinv : q.Inv) :
    ∃ q', q.popCovered = .ok (q.abs.popCovered.1, q') ∧ q'.Inv ∧
      q'.entries.length ≤ q.entries.length ∧ q'.abs.Equiv q.abs.popCovered.2 := by
  simp only [IQ.popCovered, Queue.popCovered, IQ.abs_all]
  cases h : maxIdx q.entries with
  | none =>
    have : maxLoc q.entries = none := by rw [maxIdx_none.mp h]; rfl
    simp only [this]
    exact ⟨q, rfl, hinv, Nat.le_refl _, Queue.Equiv.refl _⟩
  | some im =>
    obtain ⟨i, m⟩ := im
    obtain ⟨h1, h2, h3⟩ := maxIdx_spec h
    simp only [maxIdx_maxLoc h]
    by_cases hi : i < q.part
    · simp only [hi, if_true]
      obtain ⟨q', e1, e2, e3, e4, e5, e6, _⟩ := removeUncovered_spec hinv hi h1
      have hnc : q.abs.cov.contains m = false := by
        simp only [IQ.abs, List.contains_eq_mem, decide_eq_false_iff_not]
        intro hm
        obtain ⟨k, hk⟩ := List.getElem?_of_mem hm
        have := h3 (k + q.part) ((IQ.getElem?_ge k).trans hk)
        omega
      simp only [e1, hnc, Bool.false_eq_true, if_false]
      refine ⟨q', rfl, e4, by omega, ?_, e6⟩
      have : q.U.Perm (m :: q'.U) := e5.symm.trans (List.perm_append_singleton _ _)
      have := this.erase m
      simp only [List.erase_cons_head] at this
      exact this.symm
    · simp only [hi, if_false]
      obtain ⟨es, e1, e2, e3, e4, e5, _⟩ := covRemove_spec hinv (Nat.le_of_not_lt hi) h1
      have hc : q.abs.cov.contains m = true := by
        simp only [IQ.abs, List.contains_eq_mem, decide_eq_true_eq]
        exact e5.subset (List.mem_cons_self ..)
      simp only [e1, hc, if_true]
      refine ⟨⟨es, q.part⟩, rfl, e3, by simp only; omega, ?_, ?_⟩
      · simp only [IQ.abs, e4]; exact List.Perm.refl _
      · have := e5.symm.erase m
        simp only [List.erase_cons_head] at this
        exact this.symm

theorem pop_abs {q : IQ} (hinv : q.Inv) :
    ∃ q', q.pop = .ok (q.abs.pop.1, q') ∧ q'.Inv ∧
      q'.entries.length ≤ q.entries.length ∧ q'.abs.Equiv q.abs.pop.2 := by
  obtain ⟨q', h1, h2, h3, h4⟩ := popCovered_abs hinv
  exact ⟨q', by simp only [IQ.pop, h1]; rfl, h2, h3, h4⟩

/-! ### the backward loop of `pop_duplicates` -/

/-- the first `k` entries filtered by `p`, the rest untouched -/
def fpre (p : Loc → Bool) (k : Nat) (l : List Loc) : List Loc := (l.take k).filter p ++ l.drop k

theorem fpre_zero (p : Loc → Bool) (l : List Loc) : fpre p 0 l = l := by simp [fpre]

theorem fpre_ge {p : Loc → Bool} {k : Nat} {l : List Loc} (h : l.length ≤ k) :
    fpre p k l = l.filter p := by
  simp [fpre, List.take_of_length_le h, List.drop_of_length_le h]

theorem fpre_succ_none {p : Loc → Bool} {k : Nat} {l : List Loc} (h : l[k]? = none) :
    fpre p (k + 1) l = fpre p k l := by
  have : l.length ≤ k := by simpa using h
  rw [fpre_ge this, fpre_ge (by omega)]

theorem fpre_succ_keep {p : Loc → Bool} {k : Nat} {l : List Loc} {x : Loc} (h : l[k]? = some x)
    (hp : p x = true) : fpre p (k + 1) l = fpre p k l := by
  have hk : k < l.length := by grind
  have hx : l[k] = x := by grind
  simp only [fpre, List.take_add_one, h, Option.toList, List.filter_append, List.filter_cons, hp,
    if_true, List.filter_nil, List.append_assoc, List.drop_eq_getElem_cons hk, hx]
  rfl

theorem fpre_succ_drop {p : Loc → Bool} {k : Nat} {l : List Loc} {x : Loc} (h : l[k]? = some x)
    (hp : p x = false) : fpre p (k + 1) l = (l.take k).filter p ++ l.drop (k + 1) := by
  simp [fpre, List.take_add_one, h, hp]

theorem drop_removed {l1 l : List Loc} {x : Loc} {k : Nat} (hperm : (l1 ++ [x]).Perm l)
    (ht : l1.take k = l.take k) (hx : l[k]? = some x) : (l1.drop k).Perm (l.drop (k + 1)) := by
  have hk : k < l.length := by grind
  have hxe : l[k] = x := by grind
  rw [← List.take_append_drop k l1, ← List.take_append_drop k l, ht,
    List.drop_eq_getElem_cons hk, hxe, List.append_assoc] at hperm
  have := (List.perm_append_left_iff _).mp hperm
  exact ((List.perm_append_singleton x _).symm.trans this).cons_inv

theorem take_eq_of_prefix {l1 l : List Loc} {j : Nat} (h : ∀ k, k < j → l1[k]? = l[k]?) :
    l1.take j = l.take j := by
  apply List.ext_getElem?; intro k
  by_cases hk : k < j
  · simp [hk, h k hk]
  · simp [List.getElem?_take, hk]

theorem fpre_removed {p : Loc → Bool} {l1 l : List Loc} {x : Loc} {k : Nat}
    (hperm : (l1 ++ [x]).Perm l) (ht : l1.take k = l.take k) (hx : l[k]? = some x)
    (hp : p x = false) : (fpre p k l1).Perm (fpre p (k + 1) l) := by
  rw [fpre_succ_drop hx hp, fpre, ht]
  exact (List.perm_append_left_iff _).mpr (drop_removed hperm ht hx)

theorem IQ.C_length (q : IQ) : q.C.length = q.entries.length - q.part := by simp [IQ.C]

theorem popDupLoop_spec (loc : Loc) : ∀ (j : Nat) (q : IQ) (cnt : Nat), q.Inv →
    j ≤ q.entries.length → cnt + j ≤ usizeMax →
    ∃ q', IQ.popDupLoop loc j q cnt = .ok (q', cnt + (q.entries.take j).count loc) ∧ q'.Inv ∧
      q'.entries.length ≤ q.entries.length ∧
      q'.U.Perm (fpre (· != loc) j q.U) ∧ q'.C.Perm (fpre (· != loc) (j - q.part) q.C) := by
  intro j
  induction j with
  | zero =>
    intro q cnt hinv _ _
    exact ⟨q, by simp [IQ.popDupLoop], hinv, Nat.le_refl _, by simp [fpre_zero], by simp [fpre_zero]⟩
  | succ j ih =>
    intro q cnt hinv hj hc
    have hUl := IQ.U_length hinv
    have hpart : q.part ≤ q.entries.length := hinv
    have hx : q.entries[j]? = some (q.entries[j]'(by omega)) := by grind
    generalize q.entries[j]'(by omega) = x at hx
    have hcount : (q.entries.take (j + 1)).count loc
        = (q.entries.take j).count loc + if x == loc then 1 else 0 := by
      simp [List.take_add_one, hx, List.count_append, List.count_cons]
    simp only [IQ.popDupLoop, hx]
    by_cases hxl : (x == loc) = true
    · have hxe : x = loc := by simpa using hxl
      have hpx : (x != loc) = false := by simp [hxe]
      simp only [hxl, if_true, checkedAdd_ok (show cnt + 1 ≤ usizeMax by omega)]
      rw [hcount]; simp only [hxl, if_true]
      by_cases hjp : j < q.part
      · simp only [hjp, if_true]
        obtain ⟨q1, e1, e2, e3, e4, e5, e6, e7⟩ := removeUncovered_spec hinv hjp hx
        simp only [e1]
        obtain ⟨q', f1, f2, f3, f4, f5⟩ := ih q1 (cnt + 1) e4 (by omega) (by omega)
        have htE : q1.entries.take j = q.entries.take j := take_eq_of_prefix e7
        have htU : q1.U.take j = q.U.take j := by
          simp only [IQ.U, List.take_take, e2, show min j (q.part - 1) = j by omega,
            show min j q.part = j by omega, htE]
        refine ⟨q', ?_, f2, by omega, ?_, ?_⟩
        · rw [f1, htE]; congr 2; omega
        · exact f4.trans (fpre_removed e5 htU ((IQ.getElem?_lt hjp).symm.trans hx) hpx)
        · rw [show j - q1.part = 0 by omega, fpre_zero] at f5
          rw [show j + 1 - q.part = 0 by omega, fpre_zero]
          exact f5.trans e6
      · simp only [hjp, if_false]
        obtain ⟨es, e1, e2, e3, e4, e5, e7⟩ := covRemove_spec hinv (Nat.le_of_not_lt hjp) hx
        simp only [e1]
        obtain ⟨q', f1, f2, f3, f4, f5⟩ := ih ⟨es, q.part⟩ (cnt + 1) e3 (by simp only; omega)
          (by omega)
        have htE : es.take j = q.entries.take j := take_eq_of_prefix e7
        have hxC : q.C[j - q.part]? = some x := by
          rw [← IQ.getElem?_ge, show j - q.part + q.part = j by omega]; exact hx
        have htC : (IQ.C ⟨es, q.part⟩).take (j - q.part) = q.C.take (j - q.part) := by
          apply take_eq_of_prefix
          intro k hk
          simp only [IQ.C, List.getElem?_drop]
          exact e7 _ (by omega)
        refine ⟨q', ?_, f2, by simp only at f3; omega, ?_, ?_⟩
        · rw [f1]; simp only [htE]; congr 2; omega
        · rw [e4] at f4
          rw [fpre_succ_none (by simp [hUl]; omega)]
          exact f4
        · simp only at f5
          rw [show j + 1 - q.part = (j - q.part) + 1 by omega]
          exact f5.trans (fpre_removed ((List.perm_append_singleton _ _).trans e5) htC hxC hpx)
    · have hpx : (x != loc) = true := by simpa using hxl
      simp only [hxl, Bool.false_eq_true, if_false]
      obtain ⟨q', f1, f2, f3, f4, f5⟩ := ih q cnt hinv (by omega) (by omega)
      refine ⟨q', ?_, f2, f3, ?_, ?_⟩
      · rw [f1, hcount]; simp [hxl]
      · by_cases hjp : j < q.part
        · rw [fpre_succ_keep ((IQ.getElem?_lt hjp).symm.trans hx) hpx]; exact f4
        · rw [fpre_succ_none (by simp [hUl]; omega)]; exact f4
      · by_cases hjp : j < q.part
        · rw [show j + 1 - q.part = 0 by omega]
          rw [show j - q.part = 0 by omega] at f5
          exact f5
        · have hxC : q.C[j - q.part]? = some x := by
            rw [← IQ.getElem?_ge, show j - q.part + q.part = j by omega]; exact hx
          rw [show j + 1 - q.part = (j - q.part) + 1 by omega, fpre_succ_keep hxC hpx]
          exact f5

theorem popDuplicates_abs {q : IQ} (hinv : q.Inv) (hb : q.entries.length ≤ usizeMax) :
    ∃ q', q.popDuplicates = .ok (q.abs.popDuplicates.1, q') ∧ q'.Inv ∧
      q'.entries.length ≤ q.entries.length ∧ q'.abs.Equiv q.abs.popDuplicates.2 := by
  simp only [IQ.popDuplicates, Queue.popDuplicates, IQ.abs_all]
  cases h : maxIdx q.entries with
  | none =>
    have : maxLoc q.entries = none := by rw [maxIdx_none.mp h]; rfl
    simp only [this]
    exact ⟨q, rfl, hinv, Nat.le_refl _, Queue.Equiv.refl _⟩
  | some im =>
    obtain ⟨i, m⟩ := im
    simp only [maxIdx_maxLoc h]
    obtain ⟨q', f1, f2, f3, f4, f5⟩ := popDupLoop_spec m q.entries.length q 0 hinv (Nat.le_refl _)
      (by omega)
    simp only [f1, List.take_length, Nat.zero_add]
    refine ⟨q', rfl, f2, f3, ?_, ?_⟩
    · rw [fpre_ge (by rw [IQ.U_length hinv]; exact hinv)] at f4; exact f4
    · rw [fpre_ge (Nat.le_of_eq (IQ.C_length q))] at f5; exact f5

/-! ### the two loops of `drain_above` -/

theorem IQ.mem_U_getElem? {q : IQ} (hinv : q.Inv) {x : Loc} (hx : x ∈ q.U) :
    ∃ k, k < q.part ∧ q.entries[k]? = some x := by
  obtain ⟨k, hk⟩ := List.getElem?_of_mem hx
  have : k < q.part := by
    have : k < q.U.length := by grind
    rwa [IQ.U_length hinv] at this
  exact ⟨k, this, (IQ.getElem?_lt this).trans hk⟩

theorem IQ.mem_C_getElem? {q : IQ} {x : Loc} (hx : x ∈ q.C) :
    ∃ k, q.part ≤ k ∧ q.entries[k]? = some x := by
  obtain ⟨k, hk⟩ := List.getElem?_of_mem hx
  exact ⟨k + q.part, by omega, (IQ.getElem?_ge k).trans hk⟩

theorem drainLoopU_spec (thr : Nat) : ∀ (fuel i : Nat) (q : IQ) (em : List Loc), q.Inv →
    i ≤ q.part → q.part - i ≤ fuel → q.entries.length ≤ usizeMax →
    (∀ k x, k < i → q.entries[k]? = some x → x.mc ≤ thr) →
    ∃ em' q', IQ.drainLoopU thr fuel i q em = .ok (em ++ em', q') ∧ q'.Inv ∧
      q'.entries.length ≤ q.entries.length ∧ (em' ++ q'.U).Perm q.U ∧
      (∀ x ∈ em', x.mc > thr) ∧ (∀ x ∈ q'.U, x.mc ≤ thr) ∧ q'.C.Perm q.C := by
  intro fuel
  induction fuel with
  | zero =>
    intro i q em hinv hi hf _ hpre
    have : ¬ i < q.part := by omega
    refine ⟨[], q, by simp [IQ.drainLoopU, this], hinv, Nat.le_refl _, by simp, by simp, ?_,
      List.Perm.refl _⟩
    intro x hx
    obtain ⟨k, hk1, hk2⟩ := IQ.mem_U_getElem? hinv hx
    exact hpre k x (by omega) hk2
  | succ fuel ih =>
    intro i q em hinv hi hf hb hpre
    have hpart : q.part ≤ q.entries.length := hinv
    by_cases hip : i < q.part
    · have hx : q.entries[i]? = some (q.entries[i]'(by omega)) := by grind
      generalize q.entries[i]'(by omega) = x at hx
      simp only [IQ.drainLoopU, hip, if_true, hx]
      by_cases hxt : x.mc > thr
      · simp only [hxt, if_true]
        obtain ⟨q1, e1, e2, e3, e4, e5, e6, e7⟩ := removeUncovered_spec hinv hip hx
        simp only [e1]
        obtain ⟨em1, q', f1, f2, f3, f4, f5, f6, f7⟩ := ih i q1 (em ++ [x]) e4 (by omega) (by omega)
          (by omega) (fun k y hk hy => hpre k y hk ((e7 k hk).symm.trans hy))
        refine ⟨x :: em1, q', by rw [f1]; simp, f2, by omega, ?_, ?_, f6, f7.trans e6⟩
        · exact ((f4.cons x).trans (List.perm_append_singleton _ _).symm).trans e5
        · intro y hy
          rcases List.mem_cons.mp hy with rfl | hy
          · exact hxt
          · exact f5 y hy
      · simp only [hxt, if_false, checkedAdd_ok (show i + 1 ≤ usizeMax by omega)]
        obtain ⟨em1, q', f1, f2, f3, f4, f5, f6, f7⟩ := ih (i + 1) q em hinv (by omega) (by omega) hb
          (fun k y hk hy => by
            by_cases hki : k < i
            · exact hpre k y hki hy
            · have : k = i := by omega
              subst this; rw [hx] at hy; cases hy; omega)
        exact ⟨em1, q', f1, f2, f3, f4, f5, f6, f7⟩
    · refine ⟨[], q, by simp [IQ.drainLoopU, hip], hinv, Nat.le_refl _, by simp, by simp, ?_,
        List.Perm.refl _⟩
      intro x hx
      obtain ⟨k, hk1, hk2⟩ := IQ.mem_U_getElem? hinv hx
      exact hpre k x (by omega) hk2

theorem drainLoopC_spec (thr : Nat) : ∀ (fuel i : Nat) (q : IQ), q.Inv →
    q.part ≤ i → i ≤ q.entries.length → q.entries.length - i ≤ fuel →
    q.entries.length ≤ usizeMax →
    (∀ k x, q.part ≤ k → k < i → q.entries[k]? = some x → x.mc ≤ thr) →
    ∃ q' rm, IQ.drainLoopC thr fuel i q = .ok q' ∧ q'.Inv ∧
      q'.entries.length ≤ q.entries.length ∧ q'.U = q.U ∧ (rm ++ q'.C).Perm q.C ∧
      (∀ x ∈ rm, x.mc > thr) ∧ (∀ x ∈ q'.C, x.mc ≤ thr) := by
  intro fuel
  induction fuel with
  | zero =>
    intro i q hinv hi hil hf _ hpre
    have : ¬ i < q.entries.length := by omega
    refine ⟨q, [], by simp [IQ.drainLoopC, this], hinv, Nat.le_refl _, rfl, by simp, by simp, ?_⟩
    intro x hx
    obtain ⟨k, hk1, hk2⟩ := IQ.mem_C_getElem? hx
    exact hpre k x hk1 (by have : k < q.entries.length := by grind
                           omega) hk2
  | succ fuel ih =>
    intro i q hinv hi hil hf hb hpre
    by_cases hip : i < q.entries.length
    · have hx : q.entries[i]? = some (q.entries[i]'(by omega)) := by grind
      generalize q.entries[i]'(by omega) = x at hx
      simp only [IQ.drainLoopC, hip, if_true, hx]
      by_cases hxt : x.mc > thr
      · simp only [hxt, if_true]
        obtain ⟨es, e1, e2, e3, e4, e5, e7⟩ := covRemove_spec hinv hi hx
        simp only [e1]
        obtain ⟨q', rm, f1, f2, f3, f4, f5, f6, f7⟩ := ih i ⟨es, q.part⟩ e3 hi
          (by simp only; omega) (by simp only; omega) (by simp only; omega)
          (fun k y hk1 hk2 hy => hpre k y hk1 hk2 ((e7 k hk2).symm.trans hy))
        refine ⟨q', x :: rm, f1, f2, by simp only at f3; omega, f4.trans e4, ?_, ?_, f7⟩
        · exact (f5.cons x).trans e5
        · intro y hy
          rcases List.mem_cons.mp hy with rfl | hy
          · exact hxt
          · exact f6 y hy
      · simp only [hxt, if_false, checkedAdd_ok (show i + 1 ≤ usizeMax by omega)]
        exact ih (i + 1) q hinv (by omega) (by omega) (by omega) hb
          (fun k y hk1 hk2 hy => by
            by_cases hki : k < i
            · exact hpre k y hk1 hki hy
            · have : k = i := by omega
              subst this; rw [hx] at hy; cases hy; omega)
    · refine ⟨q, [], by simp [IQ.drainLoopC, hip], hinv, Nat.le_refl _, rfl, by simp, by simp, ?_⟩
      intro x hx
      obtain ⟨k, hk1, hk2⟩ := IQ.mem_C_getElem? hx
      exact hpre k x hk1 (by have : k < q.entries.length := by grind
                             omega) hk2

theorem split_perm {p : Loc → Bool} {a b l : List Loc} (h : (a ++ b).Perm l)
    (ha : ∀ x ∈ a, p x = true) (hb : ∀ x ∈ b, p x = false) :
    a.Perm (l.filter p) ∧ b.Perm (l.filter (fun x => !p x)) := by
  constructor
  · have := h.filter p
    rw [List.filter_append, List.filter_eq_self.mpr ha,
      List.filter_eq_nil_iff.mpr (by intro x hx; simp [hb x hx]), List.append_nil] at this
    exact this
  · have := h.filter (fun x => !p x)
    rw [List.filter_append, List.filter_eq_self (l := b) |>.mpr (by intro x hx; simp [hb x hx]),
      List.filter_eq_nil_iff (l := a) |>.mpr (by intro x hx; simp [ha x hx]), List.nil_append] at this
    exact this

theorem drainAbove_abs {q : IQ} (hinv : q.Inv) (hb : q.entries.length ≤ usizeMax) (thr : Nat) :
    ∃ em q', q.drainAbove thr = .ok (em, q') ∧ q'.Inv ∧ q'.entries.length ≤ q.entries.length ∧
      em.Perm (q.abs.drainAbove thr).1 ∧ q'.abs.Equiv (q.abs.drainAbove thr).2 := by
  obtain ⟨em, q1, e1, e2, e3, e4, e5, e6, e7⟩ := drainLoopU_spec thr q.entries.length 0 q [] hinv
    (Nat.zero_le _) (by have : q.part ≤ q.entries.length := hinv
                        omega) hb (fun k x hk _ => absurd hk (Nat.not_lt_zero _))
  obtain ⟨q2, rm, f1, f2, f3, f4, f5, f6, f7⟩ := drainLoopC_spec thr q1.entries.length q1.part q1 e2
    (Nat.le_refl _) e2 (by omega) (by omega) (fun k x h1 h2 _ => by omega)
  simp only [List.nil_append] at e1
  refine ⟨em, q2, by simp only [IQ.drainAbove, e1, f1], f2, by omega, ?_, ?_, ?_⟩
  · exact (split_perm (p := fun x => decide (x.mc > thr)) e4 (by simpa using e5)
      (by simpa using e6)).1
  · simp only [IQ.abs, Queue.drainAbove, f4]
    exact (split_perm (p := fun x => decide (x.mc > thr)) e4 (by simpa using e5)
      (by simpa using e6)).2
  · simp only [IQ.abs, Queue.drainAbove]
    have := (split_perm (p := fun x => decide (x.mc > thr)) f5 (by simpa using f6)
      (by simpa using f7)).2
    exact this.trans (e7.filter _)

/-! ### the two-list operations only depend on the two multisets (given one entry per segment
where "first entry of a segment" matters) -/

theorem seg_inj {l : List Loc} (hn : (segs l).Nodup) {a b : Loc} (ha : a ∈ l) (hb : b ∈ l)
    (h : a.seg = b.seg) : a = b := by
  induction l with
  | nil => simp at ha
  | cons y ys ih =>
    rw [segs_cons, List.nodup_cons] at hn
    rcases List.mem_cons.mp ha with rfl | ha' <;> rcases List.mem_cons.mp hb with rfl | hb'
    · rfl
    · exact absurd (List.mem_map.mpr ⟨b, hb', h.symm⟩) hn.1
    · exact absurd (List.mem_map.mpr ⟨a, ha', h⟩) hn.1
    · exact ih hn.2 ha' hb'

theorem find_perm {s : Nat} {l1 l2 : List Loc} (h : l1.Perm l2) (hn : (segs l1).Nodup) :
    l1.find? (sameSeg s) = l2.find? (sameSeg s) := by
  cases h1 : l1.find? (sameSeg s) with
  | none =>
    have := find_none_iff.mp h1
    rw [eq_comm, find_none_iff]
    intro hm; exact this ((h.map _).mem_iff.mpr hm)
  | some e =>
    obtain ⟨hes, hem⟩ := find_some_seg h1
    cases h2 : l2.find? (sameSeg s) with
    | none =>
      have := find_none_iff.mp h2
      exact absurd (List.mem_map.mpr ⟨e, h.mem_iff.mp hem, hes⟩) this
    | some e' =>
      obtain ⟨hes', hem'⟩ := find_some_seg h2
      rw [seg_inj hn hem (h.mem_iff.mpr hem') (hes.trans hes'.symm)]

theorem eraseFirst_eq_filter {s : Nat} {l : List Loc} (hn : (segs l).Nodup) :
    eraseFirst (sameSeg s) l = l.filter (fun x => !sameSeg s x) := by
  induction l with
  | nil => rfl
  | cons y ys ih =>
    rw [segs_cons, List.nodup_cons] at hn
    by_cases hy : sameSeg s y = true
    · simp only [eraseFirst, hy, if_true, List.filter_cons, Bool.not_true, Bool.false_eq_true,
        if_false]
      rw [eq_comm, List.filter_eq_self]
      intro x hx
      have : x.seg ≠ s := by
        intro hxs
        have hys : y.seg = s := by simpa [sameSeg] using hy
        exact hn.1 (List.mem_map.mpr ⟨x, hx, hxs.trans hys.symm⟩)
      simpa [sameSeg] using this
    · simp only [eraseFirst, hy, Bool.false_eq_true, if_false, List.filter_cons, Bool.not_false,
        if_true, ih hn.2]

theorem updFirst_eq_map {s : Nat} (f : Loc → Loc) {l : List Loc} (hn : (segs l).Nodup) :
    updFirst (sameSeg s) f l = l.map (fun x => if sameSeg s x then f x else x) := by
  induction l with
  | nil => rfl
  | cons y ys ih =>
    rw [segs_cons, List.nodup_cons] at hn
    by_cases hy : sameSeg s y = true
    · simp only [updFirst, hy, if_true, List.map_cons]
      congr 1
      rw [eq_comm]
      conv => rhs; rw [← List.map_id ys]
      apply List.map_congr_left
      intro x hx
      have : x.seg ≠ s := by
        intro hxs
        have hys : y.seg = s := by simpa [sameSeg] using hy
        exact hn.1 (List.mem_map.mpr ⟨x, hx, hxs.trans hys.symm⟩)
      have : sameSeg s x = false := by simpa [sameSeg] using this
      simp [this]
    · simp only [updFirst, hy, Bool.false_eq_true, if_false, List.map_cons, ih hn.2]

theorem nodup_segs_perm {l1 l2 : List Loc} (h : l1.Perm l2) (hn : (segs l1).Nodup) :
    (segs l2).Nodup := (h.map _).nodup_iff.mp hn

theorem eraseFirst_perm_congr {s : Nat} {l1 l2 : List Loc} (h : l1.Perm l2)
    (hn : (segs l1).Nodup) : (eraseFirst (sameSeg s) l1).Perm (eraseFirst (sameSeg s) l2) := by
  rw [eraseFirst_eq_filter hn, eraseFirst_eq_filter (nodup_segs_perm h hn)]
  exact h.filter _

theorem updFirst_perm_congr {s : Nat} (f : Loc → Loc) {l1 l2 : List Loc} (h : l1.Perm l2)
    (hn : (segs l1).Nodup) : (updFirst (sameSeg s) f l1).Perm (updFirst (sameSeg s) f l2) := by
  rw [updFirst_eq_map f hn, updFirst_eq_map f (nodup_segs_perm h hn)]
  exact h.map _

theorem maxLoc_perm {l1 l2 : List Loc} (h : l1.Perm l2) : maxLoc l1 = maxLoc l2 := by
  cases h1 : maxLoc l1 with
  | none =>
    have := maxLoc_none.mp h1; subst this
    have := h.symm.eq_nil; subst this; rfl
  | some m1 =>
    cases h2 : maxLoc l2 with
    | none =>
      have := maxLoc_none.mp h2; subst this
      have := h.eq_nil; subst this
      simp [maxLoc] at h1
    | some m2 =>
      have a1 := maxLoc_mem h1
      have a2 := maxLoc_mem h2
      rw [Loc.ble_antisymm (maxLoc_ge h2 m1 (h.mem_iff.mp a1)) (maxLoc_ge h1 m2 (h.mem_iff.mpr a2))]

theorem Queue.Equiv.all {a b : Queue} (h : a.Equiv b) : a.all.Perm b.all := h.1.append h.2

theorem pushCovered_equiv {a b : Queue} (h : a.Equiv b) (hu : (segs a.unc).Nodup)
    (hc : (segs a.cov).Nodup) (loc : Loc) (c : Bool) :
    (a.pushCovered loc c).Equiv (b.pushCovered loc c) := by
  have e1 := find_perm (s := loc.seg) h.1 hu
  have e2 := find_perm (s := loc.seg) h.2 hc
  have p1 := eraseFirst_perm_congr (s := loc.seg) h.1 hu
  have p2 := eraseFirst_perm_congr (s := loc.seg) h.2 hc
  have p3 := updFirst_perm_congr (s := loc.seg) (fun x => ⟨loc.mc, x.seg⟩) h.1 hu
  have p4 := updFirst_perm_congr (s := loc.seg) (fun x => ⟨loc.mc, x.seg⟩) h.2 hc
  unfold Queue.pushCovered
  rw [← e1, ← e2]
  cases a.unc.find? (sameSeg loc.seg) with
  | some e =>
    simp only
    split
    · split
      · exact ⟨p1, h.2.append_right _⟩
      · exact ⟨p3, h.2⟩
    · split
      · split
        · exact ⟨p1, h.2.append_right _⟩
        · exact h
      · exact h
  | none =>
    simp only
    cases a.cov.find? (sameSeg loc.seg) with
    | some e =>
      simp only
      split
      · split
        · exact ⟨h.1, p4⟩
        · exact ⟨h.1.append_right _, p2⟩
      · exact h
    | none =>
      simp only
      split
      · exact ⟨h.1, h.2.append_right _⟩
      · exact ⟨h.1.append_right _, h.2⟩

theorem coverUpTo_equiv {a b : Queue} (h : a.Equiv b) (hu : (segs a.unc).Nodup)
    (s cmc lmc : Nat) : (a.coverUpTo s cmc lmc).Equiv (b.coverUpTo s cmc lmc) := by
  have e1 := find_perm (s := s) h.1 hu
  have p1 := eraseFirst_perm_congr (s := s) h.1 hu
  have p3 := updFirst_perm_congr (s := s) (fun x => ⟨cmc + 1, x.seg⟩) h.1 hu
  unfold Queue.coverUpTo
  rw [← e1]
  cases a.unc.find? (sameSeg s) with
  | none => exact h
  | some e =>
    simp only
    split
    · exact ⟨p1, h.2.append_right _⟩
    · split
      · exact ⟨p3, h.2⟩
      · exact h

theorem popCovered_equiv {a b : Queue} (h : a.Equiv b) :
    a.popCovered.1 = b.popCovered.1 ∧ a.popCovered.2.Equiv b.popCovered.2 := by
  have hm := maxLoc_perm h.all
  unfold Queue.popCovered
  rw [← hm]
  cases maxLoc a.all with
  | none => exact ⟨rfl, h⟩
  | some m =>
    have : a.cov.contains m = b.cov.contains m := by
      simp only [List.contains_eq_mem, h.2.mem_iff]
    simp only
    rw [← this]
    split
    · exact ⟨rfl, h.1, h.2.erase m⟩
    · exact ⟨rfl, h.1.erase m, h.2⟩

theorem pop_equiv {a b : Queue} (h : a.Equiv b) :
    a.pop.1 = b.pop.1 ∧ a.pop.2.Equiv b.pop.2 := by
  obtain ⟨h1, h2⟩ := popCovered_equiv h
  simp only [Queue.pop]
  exact ⟨by rw [h1], h2⟩

theorem peek_equiv {a b : Queue} (h : a.Equiv b) : a.peek = b.peek := maxLoc_perm h.all

theorem popDuplicates_equiv {a b : Queue} (h : a.Equiv b) :
    a.popDuplicates.1 = b.popDuplicates.1 ∧ a.popDuplicates.2.Equiv b.popDuplicates.2 := by
  have hm := maxLoc_perm h.all
  unfold Queue.popDuplicates
  rw [← hm]
  cases maxLoc a.all with
  | none => exact ⟨rfl, h⟩
  | some m =>
    simp only
    exact ⟨by rw [h.all.count_eq m], h.1.filter _, h.2.filter _⟩

theorem drainAbove_equiv {a b : Queue} (h : a.Equiv b) (thr : Nat) :
    (a.drainAbove thr).1.Perm (b.drainAbove thr).1 ∧
    (a.drainAbove thr).2.Equiv (b.drainAbove thr).2 :=
  ⟨h.1.filter _, h.1.filter _, h.2.filter _⟩

theorem drainAll_equiv {a b : Queue} (h : a.Equiv b) :
    a.drainAll.1.Perm b.drainAll.1 ∧ a.drainAll.2 = b.drainAll.2 := ⟨h.1, rfl⟩

theorem allCovered_equiv {a b : Queue} (h : a.Equiv b) : a.allCovered = b.allCovered := by
  simp only [Queue.allCovered, h.1.isEmpty_eq]

theorem isEmpty_equiv {a b : Queue} (h : a.Equiv b) : a.isEmpty = b.isEmpty := by
  simp only [Queue.isEmpty, h.all.isEmpty_eq]

end AranyaV.Queue
