import AranyaV.Model.QueueIdx
import AranyaV.Proofs.Queue
/-! Mechanism lemmas for the index-level traversal queue (`Model/QueueIdx.lean`): what the swaps
across the partition boundary do to the two regions `U = entries[..part]`, `C = entries[part..]`. -/
namespace AranyaV.Queue

theorem lswap_getElem? {l l' : List Loc} {i j : Nat} (h : lswap l i j = .ok l') (k : Nat) :
    l'[k]? = if k = j then l[i]? else if k = i then l[j]? else l[k]? := by
  unfold lswap at h
  split at h
  · cases h; grind
  · cases h

theorem lswap_length {l l' : List Loc} {i j : Nat} (h : lswap l i j = .ok l') :
    l'.length = l.length := by
  unfold lswap at h
  split at h
  · cases h; grind
  · cases h

theorem lswap_perm {l l' : List Loc} {i j : Nat} (h : lswap l i j = .ok l') : l'.Perm l := by
  unfold lswap at h
  split at h
  · cases h
    rw [List.perm_iff_count]
    intro x
    grind
  · cases h

theorem lswap_ok {l : List Loc} {i j : Nat} (hi : i < l.length) (hj : j < l.length) :
    ∃ l', lswap l i j = .ok l' := by
  simp [lswap, hi, hj]

theorem swapRemove_spec {l : List Loc} {i : Nat} {x : Loc} (hx : l[i]? = some x) :
    ∃ r, swapRemove l i = .ok (x, r) ∧ lswap l i (l.length - 1) = .ok (r ++ [x]) ∧
      r.length = l.length - 1 := by
  have hi : i < l.length := by grind
  have hl : l.getLast? = some (l[l.length - 1]'(by omega)) := by
    rw [List.getLast?_eq_getElem?]; grind
  refine ⟨(l.set i (l[l.length - 1]'(by omega))).dropLast, ?_, ?_, ?_⟩
  · simp [swapRemove, hx, hl]
  · have : l[l.length - 1]? = some (l[l.length - 1]'(by omega)) := by grind
    simp only [lswap, hx, this]
    congr 1
    apply List.ext_getElem?
    intro k
    grind
  · grind

theorem perm_take_of_drop_eq {l l' : List Loc} {k : Nat} (h : l'.Perm l)
    (hd : l'.drop k = l.drop k) : (l'.take k).Perm (l.take k) := by
  rw [← List.take_append_drop k l', ← List.take_append_drop k l, hd] at h
  exact (List.perm_append_right_iff _).mp h

theorem perm_drop_of_take_eq {l l' : List Loc} {k : Nat} (h : l'.Perm l)
    (hd : l'.take k = l.take k) : (l'.drop k).Perm (l.drop k) := by
  rw [← List.take_append_drop k l', ← List.take_append_drop k l, hd] at h
  exact (List.perm_append_left_iff _).mp h


/-! ### the partition view -/

def IQ.Inv (q : IQ) : Prop := q.part ≤ q.entries.length
def IQ.U (q : IQ) : List Loc := q.entries.take q.part
def IQ.C (q : IQ) : List Loc := q.entries.drop q.part

theorem checkedSub_ok {a b : Nat} (h : b ≤ a) : checkedSub a b = .ok (a - b) := by simp [checkedSub, h]
theorem checkedAdd_ok {m a b : Nat} (h : a + b ≤ m) : checkedAdd m a b = .ok (a + b) := by
  simp [checkedAdd, h]

theorem moveToCovered_spec {q : IQ} {i : Nat} {x : Loc} (hinv : q.Inv) (hi : i < q.part)
    (hx : q.entries[i]? = some x) :
    ∃ q', q.moveToCovered i = .ok q' ∧ q'.part = q.part - 1 ∧
      q'.entries.length = q.entries.length ∧ (q'.U ++ [x]).Perm q.U ∧ q'.C = x :: q.C ∧
      ∀ k, k < i → q'.entries[k]? = q.entries[k]? := by
  unfold IQ.Inv at hinv
  obtain ⟨es, hes⟩ := lswap_ok (l := q.entries) (i := i) (j := q.part - 1) (by omega) (by omega)
  have hg := lswap_getElem? hes
  have hlen := lswap_length hes
  have hp := lswap_perm hes
  refine ⟨⟨es, q.part - 1⟩, ?_, rfl, hlen, ?_, ?_, ?_⟩
  · simp [IQ.moveToCovered, checkedSub_ok (show 1 ≤ q.part by omega), hes]
  · have hd : es.drop q.part = q.entries.drop q.part := by
      apply List.ext_getElem?; intro k; grind
    have ht := perm_take_of_drop_eq hp hd
    have : es.take q.part = es.take (q.part - 1) ++ [x] := by
      have : q.part = (q.part - 1) + 1 := by omega
      rw [this, List.take_add_one]; grind
    simp only [IQ.U]; rw [← this]; exact ht
  · simp only [IQ.C]
    have hd : es.drop q.part = q.entries.drop q.part := by
      apply List.ext_getElem?; intro k; grind
    rw [← hd]
    apply List.ext_getElem?; intro k; grind
  · intro k hk; grind

theorem moveToUncovered_spec {q : IQ} {i : Nat} {x : Loc} (hinv : q.Inv) (hi : q.part ≤ i)
    (hx : q.entries[i]? = some x) (hb : q.entries.length ≤ usizeMax) :
    ∃ q', q.moveToUncovered i = .ok q' ∧ q'.part = q.part + 1 ∧
      q'.entries.length = q.entries.length ∧ q'.U = q.U ++ [x] ∧ (x :: q'.C).Perm q.C ∧
      ∀ k, k < q.part → q'.entries[k]? = q.entries[k]? := by
  unfold IQ.Inv at hinv
  have hi2 : i < q.entries.length := by grind
  obtain ⟨es, hes⟩ := lswap_ok (l := q.entries) (i := i) (j := q.part) (by omega) (by omega)
  have hg := lswap_getElem? hes
  have hlen := lswap_length hes
  have hp := lswap_perm hes
  refine ⟨⟨es, q.part + 1⟩, ?_, rfl, hlen, ?_, ?_, ?_⟩
  · simp [IQ.moveToUncovered, checkedAdd_ok (show q.part + 1 ≤ usizeMax by omega), hes]
  · simp only [IQ.U]
    apply List.ext_getElem?; intro k; grind
  · have ht : es.take q.part = q.entries.take q.part := by
      apply List.ext_getElem?; intro k; grind
    have hd := perm_drop_of_take_eq hp ht
    have : es.drop q.part = x :: es.drop (q.part + 1) := by
      apply List.ext_getElem?; intro k; grind
    simp only [IQ.C]; rw [← this]; exact hd
  · intro k hk; grind

theorem covRemove_spec {q : IQ} {i : Nat} {x : Loc} (hinv : q.Inv) (hi : q.part ≤ i)
    (hx : q.entries[i]? = some x) :
    ∃ es, swapRemove q.entries i = .ok (x, es) ∧ es.length = q.entries.length - 1 ∧
      IQ.Inv ⟨es, q.part⟩ ∧ IQ.U ⟨es, q.part⟩ = q.U ∧ (x :: IQ.C ⟨es, q.part⟩).Perm q.C ∧
      ∀ k, k < i → es[k]? = q.entries[k]? := by
  unfold IQ.Inv at hinv
  have hi2 : i < q.entries.length := by grind
  obtain ⟨es, hes, hsw, hlen⟩ := swapRemove_spec hx
  have hg := lswap_getElem? hsw
  have hp := lswap_perm hsw
  have hk : ∀ k, k < q.entries.length - 1 → es[k]? = (es ++ [x])[k]? := by
    intro k hk; rw [List.getElem?_append_left (by omega)]
  refine ⟨es, hes, hlen, ?_, ?_, ?_, ?_⟩
  · simp only [IQ.Inv]; omega
  · simp only [IQ.U]
    apply List.ext_getElem?; intro k
    by_cases hkp : k < q.part
    · simp only [List.getElem?_take, hkp, if_true]
      rw [hk k (by omega), hg]; grind
    · simp [List.getElem?_take, hkp]
  · have ht : (es ++ [x]).take q.part = q.entries.take q.part := by
      apply List.ext_getElem?; intro k
      by_cases hkp : k < q.part
      · simp only [List.getElem?_take, hkp, if_true]
        rw [hg]; grind
      · simp [List.getElem?_take, hkp]
    have hd := perm_drop_of_take_eq hp ht
    rw [List.drop_append_of_le_length (by omega)] at hd
    simp only [IQ.C]
    exact (List.perm_append_singleton x _).symm.trans hd
  · intro k hk'
    rw [hk k (by omega), hg]; grind

theorem removeUncovered_spec {q : IQ} {i : Nat} {x : Loc} (hinv : q.Inv) (hi : i < q.part)
    (hx : q.entries[i]? = some x) :
    ∃ q', q.removeUncovered i = .ok (x, q') ∧ q'.part = q.part - 1 ∧
      q'.entries.length = q.entries.length - 1 ∧ q'.Inv ∧ (q'.U ++ [x]).Perm q.U ∧
      q'.C.Perm q.C ∧ ∀ k, k < i → q'.entries[k]? = q.entries[k]? := by
  obtain ⟨q1, h1, hp1, hl1, hu1, hc1, hpre1⟩ := moveToCovered_spec hinv hi hx
  have hinv1 : q1.Inv := by unfold IQ.Inv at *; omega
  have hx1 : q1.entries[q1.part]? = some x := by
    have : q1.C[0]? = some x := by rw [hc1]; rfl
    simpa [IQ.C] using this
  obtain ⟨es, h2, hl2, hinv2, hu2, hc2, hpre2⟩ := covRemove_spec hinv1 (Nat.le_refl _) hx1
  refine ⟨⟨es, q1.part⟩, ?_, hp1, by simp only; omega, hinv2, ?_, ?_, ?_⟩
  · simp [IQ.removeUncovered, h1, h2]
  · rw [hu2]; exact hu1
  · rw [hc1] at hc2; exact hc2.cons_inv
  · intro k hk
    rw [hpre2 k (by omega), hpre1 k hk]

end AranyaV.Queue
