import AranyaV.Proofs.BraidKey
/-!
# Proofs.BraidInv — the invariant of `braidLoop`

`Inv g R s`: the processed set is descendant-closed inside the region `R`, the available set is
*exactly* the set of unprocessed region commands all of whose region-children are processed,
`out` is the processed list with merges filtered out (both are in removal order, newest first),
older removals are never ancestors of newer ones, the available set holds at most one finalize
and (for rooted graphs) no finalize is ever removed.  `braidLoop_spec` runs the induction over
the fuel and returns the invariant at the final state.
-/
namespace AranyaV.Spec
open AranyaV.Gen

def isMergeId (g : Graph) (i : Nat) : Bool :=
  match g.find? i with
  | some c => isMerge c
  | none => false

/-- a region: known ids, closed under parents -/
structure Region (g : Graph) (R : List Nat) : Prop where
  sub : ∀ x ∈ R, x ∈ ids g
  up : ∀ x ∈ R, ∀ a, Par g a x → a ∈ R

theorem Region.reach {g : Graph} {R : List Nat} (hR : Region g R) {a x : Nat} (hx : x ∈ R)
    (hr : Reach g a x) : a ∈ R := by
  induction hr with
  | refl => exact hx
  | tail _ hp ih => exact ih (hR.up _ hx _ hp)

theorem region_ancSelfAll {g : Graph} (h : WF g) {hs : List Nat} (hh : ∀ x ∈ hs, x ∈ ids g) :
    Region g (ancSelfAll g hs) := by
  constructor
  · intro x hx
    obtain ⟨b, hb, hr⟩ := (mem_ancSelfAll h hs x).mp hx
    exact hr.mem_ids h (hh b hb)
  · intro x hx a hp
    obtain ⟨b, hb, hr⟩ := (mem_ancSelfAll h hs x).mp hx
    exact (mem_ancSelfAll h hs a).mpr ⟨b, hb, Reach.head hp hr⟩

/-- one init command, and only it has init priority / no parents -/
structure Rooted (g : Graph) : Prop where
  initRoot : ∀ c ∈ g, c.prio = Priority.init → c.parents = []
  oneRoot : ∀ c ∈ g, ∀ d ∈ g, c.parents = [] → d.parents = [] → c.id = d.id

theorem exists_root {g : Graph} (h : WF g) : ∀ x ∈ ids g, ∃ r ∈ g, r.parents = [] ∧ Reach g r.id x := by
  induction h with
  | nil => intro x hx; simp [ids] at hx
  | @snoc g c hw h1 h2 h3 h4 ih =>
    intro x hx
    simp only [ids, List.map_append, List.map_cons, List.map_nil, List.mem_append, List.mem_singleton] at hx
    rcases hx with hx | rfl
    · obtain ⟨r, hr, hp, hre⟩ := ih x hx
      exact ⟨r, by simp [hr], hp, hre.mono⟩
    · cases hps : c.parents with
      | nil => exact ⟨c, by simp, hps, Reach.refl _⟩
      | cons p ps =>
        have hp : p ∈ c.parents := by simp [hps]
        obtain ⟨r, hr, hrp, hre⟩ := ih p (h2 p hp)
        exact ⟨r, by simp [hr], hrp, Reach.tail hre.mono ⟨c, by simp, rfl, hp⟩⟩

theorem root_reach {g : Graph} (h : WF g) (hr : Rooted g) {r : Cmd} (hrg : r ∈ g) (hrp : r.parents = [])
    {x : Nat} (hx : x ∈ ids g) : Reach g r.id x := by
  obtain ⟨r', hr', hp', hre⟩ := exists_root h x hx
  rw [hr.oneRoot r hrg r' hr' hrp hp']; exact hre

structure Inv (g : Graph) (R : List Nat) (s : BState) : Prop where
  pSub : ∀ x ∈ s.processed, x ∈ R
  pNodup : s.processed.Nodup
  aNodup : s.avail.Nodup
  aIff : ∀ x, x ∈ s.avail ↔ x ∈ R ∧ x ∉ s.processed ∧ ∀ y ∈ R, Par g x y → y ∈ s.processed
  closed : ∀ x ∈ s.processed, ∀ y ∈ R, Par g x y → y ∈ s.processed
  outEq : s.out = s.processed.filter (fun i => !isMergeId g i)
  order : s.processed.Pairwise (fun x y => ¬ Reach g y x)
  oneFin : OneFin g s.avail
  noFinP : Rooted g → ∀ x ∈ s.processed, isFinalize g x = false
  aNe : s.avail ≠ []

theorem Inv.closed_reach {g : Graph} {R : List Nat} {s : BState} (hR : Region g R) (hi : Inv g R s)
    {x y : Nat} (hx : x ∈ s.processed) (hr : Reach g x y) (hy : y ∈ R) : y ∈ s.processed := by
  induction hr with
  | refl => exact hx
  | tail _ hp ih => exact hi.closed _ (ih (hR.up _ hy _ hp)) _ hy hp

/-- the state after removing `c`, and the parents that became available -/
def nextState (g : Graph) (R : List Nat) (s : BState) (c : Cmd) : BState × List Nat :=
  let avail := s.avail.erase c.id
  let processed := c.id :: s.processed
  let out := if isMerge c then s.out else c.id :: s.out
  let ready := c.parents.filter (fun p =>
    !avail.contains p &&
    ((children g p).filter (R.contains ·)).all (processed.contains ·))
  ({ processed := processed, avail := avail, out := out }, ready)

theorem braidLoop_one (g : Graph) (R : List Nat) (fuel : Nat) (s : BState) (x : Nat) (h : s.avail = [x]) :
    braidLoop g R (fuel + 1) s = .ok (x, s.out) := by
  rw [braidLoop]; simp [h]

theorem braidLoop_succ (g : Graph) (R : List Nat) (fuel : Nat) (s : BState) (hA : ∀ x, s.avail ≠ [x])
    (c : Cmd) (hm : minAvail g s.avail = some c) :
    braidLoop g R (fuel + 1) s =
      match addAvail g (nextState g R s c).1.avail (nextState g R s c).2.eraseDups with
      | .error e => .error e
      | .ok a => braidLoop g R fuel { (nextState g R s c).1 with avail := a } := by
  rw [braidLoop]
  split
  · rename_i x hx; exact absurd hx (hA x)
  · simp only [hm, nextState]
    rfl

theorem par_cmd {g : Graph} (hw : WF g) {c : Cmd} (hc : c ∈ g) {x : Nat} : Par g x c.id ↔ x ∈ c.parents := by
  constructor
  · rintro ⟨d, hd, e, hp⟩
    rw [← hw.id_inj hd hc e]; exact hp
  · intro hp; exact ⟨c, hc, rfl, hp⟩

theorem isMergeId_cmd {g : Graph} (hw : WF g) {c : Cmd} (hc : c ∈ g) : isMergeId g c.id = isMerge c := by
  have : g.find? c.id = some c := (find?_eq_some hw).mpr ⟨hc, rfl⟩
  simp [isMergeId, this]

theorem step_inv {g : Graph} {R : List Nat} {s : BState} (hw : WF g) (hR : Region g R) (hi : Inv g R s)
    (c : Cmd) (hcg : c ∈ g) (hcA : c.id ∈ s.avail)
    (hmin : ∀ d ∈ g, d.id ∈ s.avail → d.id ≠ c.id → keyLt c d = true)
    (h2 : ∃ d ∈ s.avail, d ≠ c.id)
    (a : List Nat) (ha : addAvail g (nextState g R s c).1.avail (nextState g R s c).2.eraseDups = .ok a) :
    Inv g R { (nextState g R s c).1 with avail := a } := by
  obtain ⟨hcR, hcP, hcCh⟩ := (hi.aIff c.id).mp hcA
  -- membership in A' = A.erase c
  have hA' : ∀ x, x ∈ s.avail.erase c.id ↔ x ∈ s.avail ∧ x ≠ c.id := by
    intro x; rw [hi.aNodup.mem_erase_iff]; exact And.comm
  -- the ready list
  have hreadyNodup : (nextState g R s c).2.Nodup := (hw.parents_nodup hcg).sublist List.filter_sublist
  have hready : ∀ x, x ∈ (nextState g R s c).2 ↔
      x ∈ c.parents ∧ x ∉ s.avail.erase c.id ∧ ∀ y ∈ R, Par g x y → y ∈ c.id :: s.processed := by
    intro x
    simp only [nextState, List.mem_filter, Bool.and_eq_true, Bool.not_eq_true', List.all_eq_true,
      List.contains_eq_mem, decide_eq_true_eq, decide_eq_false_iff_not, mem_children]
    constructor
    · rintro ⟨h1, h2, h3⟩; exact ⟨h1, h2, fun y hy hp => h3 y ⟨hp, hy⟩⟩
    · rintro ⟨h1, h2, h3⟩; exact ⟨h1, h2, fun y hy => h3 y hy.2 hy.1⟩
  rw [eraseDups_of_nodup _ hreadyNodup] at ha
  obtain ⟨ea, hone⟩ := addAvail_ok _ _ _ ha
  have hA'eq : (nextState g R s c).1.avail = s.avail.erase c.id := rfl
  rw [hA'eq] at ea hone
  -- parents of c are unprocessed region members different from c
  have hpar : ∀ x ∈ c.parents, x ∈ R ∧ x ∉ s.processed ∧ x ≠ c.id := by
    intro x hx
    have hp : Par g x c.id := (par_cmd hw hcg).mpr hx
    refine ⟨hR.up _ hcR _ hp, ?_, hp.ne hw⟩
    intro hxP; exact hcP (hi.closed x hxP c.id hcR hp)
  -- the characterisation of the new available set
  have haIff : ∀ x, x ∈ a ↔ x ∈ R ∧ x ∉ c.id :: s.processed ∧ ∀ y ∈ R, Par g x y → y ∈ c.id :: s.processed := by
    intro x
    rw [ea, List.mem_append, hA', hready]
    constructor
    · rintro (⟨hxA, hne⟩ | ⟨hxp, _, hch⟩)
      · obtain ⟨h1, h2, h3⟩ := (hi.aIff x).mp hxA
        refine ⟨h1, ?_, fun y hy hp => List.mem_cons_of_mem _ (h3 y hy hp)⟩
        simp only [List.mem_cons, not_or]; exact ⟨hne, h2⟩
      · obtain ⟨h1, h2, h3⟩ := hpar x hxp
        refine ⟨h1, ?_, hch⟩
        simp only [List.mem_cons, not_or]; exact ⟨h3, h2⟩
    · rintro ⟨hxR, hxP, hch⟩
      simp only [List.mem_cons, not_or] at hxP
      by_cases hall : ∀ y ∈ R, Par g x y → y ∈ s.processed
      · left; exact ⟨(hi.aIff x).mpr ⟨hxR, hxP.2, hall⟩, hxP.1⟩
      · right
        have : ∃ y, y ∈ R ∧ Par g x y ∧ y ∉ s.processed := by
          apply Classical.byContradiction
          intro hno
          apply hall
          intro y hy hp
          apply Classical.byContradiction
          intro hyP
          exact hno ⟨y, hy, hp, hyP⟩
        obtain ⟨y, hy, hp, hyP⟩ := this
        have hyc : y = c.id := by
          have := hch y hy hp
          simp only [List.mem_cons] at this
          rcases this with e | e
          · exact e
          · exact absurd e hyP
        subst hyc
        refine ⟨(par_cmd hw hcg).mp hp, ?_, hch⟩
        intro hxA'
        have hxA := ((hA' x).mp hxA').1
        exact hall ((hi.aIff x).mp hxA).2.2
  have hclosed : ∀ x ∈ c.id :: s.processed, ∀ y ∈ R, Par g x y → y ∈ c.id :: s.processed := by
    intro x hx y hy hp
    simp only [List.mem_cons] at hx
    rcases hx with rfl | hx
    · exact List.mem_cons_of_mem _ (hcCh y hy hp)
    · exact List.mem_cons_of_mem _ (hi.closed x hx y hy hp)
  refine
    { pSub := ?_, pNodup := ?_, aNodup := ?_, aIff := haIff, closed := hclosed, outEq := ?_,
      order := ?_, oneFin := ?_, noFinP := ?_, aNe := ?_ }
  · intro x hx
    simp only [nextState, List.mem_cons] at hx
    rcases hx with rfl | hx
    · exact hcR
    · exact hi.pSub x hx
  · simp only [nextState, List.nodup_cons]; exact ⟨hcP, hi.pNodup⟩
  · show a.Nodup
    rw [ea, List.nodup_append]
    refine ⟨hi.aNodup.erase _, hreadyNodup, ?_⟩
    intro x hx y hy e
    subst e
    exact ((hready x).mp hy).2.1 hx
  · simp only [nextState, List.filter_cons, isMergeId_cmd hw hcg]
    cases hm : isMerge c <;> simp [hi.outEq]
  · simp only [nextState, List.pairwise_cons]
    refine ⟨?_, hi.order⟩
    intro y hy hr
    exact hcP (hi.closed_reach hR hy hr hcR)
  · exact hone (fun x hx y hy => hi.oneFin x ((hA' x).mp hx).1 y ((hA' y).mp hy).1)
  · intro hroot x hx
    simp only [nextState, List.mem_cons] at hx
    rcases hx with rfl | hx
    · -- the removed command is not a finalize: it would have to be the lone strand
      cases hf : isFinalize g c.id with
      | false => rfl
      | true =>
        exfalso
        obtain ⟨d', hd'A, hd'ne⟩ := h2
        obtain ⟨hd'R, _, hd'Ch⟩ := (hi.aIff d').mp hd'A
        obtain ⟨d, hdg, rfl⟩ := mem_ids.mp (hR.sub d' hd'R)
        have hk := hmin d hdg hd'A hd'ne
        have hcp : c.prio = Priority.finalize := (isFinalize_iff hw hcg).mp hf
        rcases keyLt_finalize hk hcp with hinit | hfin
        · have hreach : Reach g d.id c.id := root_reach hw hroot hdg (hroot.initRoot d hdg hinit) (hR.sub _ hcR)
          rcases hreach.cases_head with e | ⟨m, hpm, hrm⟩
          · exact hd'ne e
          · have hmR : m ∈ R := hR.reach hcR hrm
            have hmP : m ∈ s.processed := hd'Ch m hmR hpm
            exact hcP (hi.closed_reach hR hmP hrm hcR)
        · have : isFinalize g d.id = true := (isFinalize_iff hw hdg).mpr hfin
          exact hd'ne (hi.oneFin d.id hd'A c.id hcA this hf)
    · exact hi.noFinP hroot x hx
  · show a ≠ []
    obtain ⟨d', hd'A, hd'ne⟩ := h2
    intro e
    have : d' ∈ a := by rw [ea]; exact List.mem_append_left _ ((hA' d').mpr ⟨hd'A, hd'ne⟩)
    rw [e] at this; simp at this

/-- a list that is neither empty nor a singleton has an element different from any given one -/
theorem exists_ne_of_not_single {A : List Nat} (hnd : A.Nodup) (hne : A ≠ []) (h1 : ∀ x, A ≠ [x]) (c : Nat) :
    ∃ d ∈ A, d ≠ c := by
  match A, hnd, hne, h1 with
  | [x], _, _, h1 => exact absurd rfl (h1 x)
  | x :: y :: zs, hnd, _, _ =>
    by_cases e : x = c
    · refine ⟨y, by simp, ?_⟩
      intro e2
      rw [List.nodup_cons] at hnd
      apply hnd.1; rw [e, ← e2]; simp
    · exact ⟨x, by simp, e⟩

/-- The run of `braidLoop` from a state satisfying the invariant: it ends in a state satisfying the
invariant whose available set is the singleton start; or it reports `parallelFinalize` and then
two distinct finalizes of the region are simultaneously available (hence incomparable); it never
reports `malformed`. -/
theorem braidLoop_spec {g : Graph} {R : List Nat} (hw : WF g) (hR : Region g R) :
    ∀ (fuel : Nat) (s : BState), Inv g R s → g.length < fuel + s.processed.length →
    match braidLoop g R fuel s with
    | .ok (x, o) => ∃ s', Inv g R s' ∧ s'.avail = [x] ∧ s'.out = o ∧ (∃ l, s'.processed = l ++ s.processed)
    | .error .parallelFinalize =>
        ∃ f1 ∈ R, ∃ f2 ∈ R, f1 ≠ f2 ∧ isFinalize g f1 = true ∧ isFinalize g f2 = true ∧
          ¬ Reach g f1 f2 ∧ ¬ Reach g f2 f1
    | .error .malformed => False := by
  intro fuel
  induction fuel with
  | zero =>
    intro s hi hf
    exfalso
    have : s.processed.length ≤ (ids g).length :=
      hi.pNodup.length_le_of_subset (fun x hx => hR.sub x (hi.pSub x hx))
    simp [ids] at this
    omega
  | succ fuel ih =>
    intro s hi hf
    by_cases h1 : ∃ x, s.avail = [x]
    · obtain ⟨x, hx⟩ := h1
      rw [braidLoop_one g R fuel s x hx]
      exact ⟨s, hi, hx, rfl, [], rfl⟩
    · have h1' : ∀ x, s.avail ≠ [x] := fun x hx => h1 ⟨x, hx⟩
      have hAsub : ∀ x ∈ s.avail, x ∈ ids g := fun x hx => hR.sub x ((hi.aIff x).mp hx).1
      obtain ⟨c, hm, hcg, hcA, hmin⟩ := minAvail_spec hw s.avail hi.aNe hAsub
      rw [braidLoop_succ g R fuel s h1' c hm]
      have h2 := exists_ne_of_not_single hi.aNodup hi.aNe h1' c.id
      cases ha : addAvail g (nextState g R s c).1.avail (nextState g R s c).2.eraseDups with
      | ok a =>
        have hi' := step_inv hw hR hi c hcg hcA hmin h2 a ha
        have := ih { (nextState g R s c).1 with avail := a } hi' (by simp [nextState]; omega)
        simp only
        revert this
        cases braidLoop g R fuel { (nextState g R s c).1 with avail := a } with
        | ok r =>
          obtain ⟨x, o⟩ := r
          rintro ⟨s', h1, h2, h3, l, h4⟩
          exact ⟨s', h1, h2, h3, l ++ [c.id], by simp [h4, nextState]⟩
        | error e => cases e <;> exact id
      | error e =>
        simp only
        -- a second finalize entered the available set
        obtain ⟨hcR, hcP, hcCh⟩ := (hi.aIff c.id).mp hcA
        have hreadyNodup : (nextState g R s c).2.Nodup := (hw.parents_nodup hcg).sublist List.filter_sublist
        rw [eraseDups_of_nodup _ hreadyNodup] at ha
        -- every member of A' ++ ready is an unprocessed region member all of whose region
        -- children are in c :: P
        have hmem : ∀ x ∈ (nextState g R s c).1.avail ++ (nextState g R s c).2,
            x ∈ R ∧ x ∉ c.id :: s.processed ∧ ∀ y ∈ R, Par g x y → y ∈ c.id :: s.processed := by
          intro x hx
          simp only [List.mem_append] at hx
          rcases hx with hx | hx
          · have hx' : x ∈ s.avail ∧ x ≠ c.id := by
              have : x ∈ s.avail.erase c.id := hx
              rw [hi.aNodup.mem_erase_iff] at this; exact ⟨this.2, this.1⟩
            obtain ⟨h1, h2, h3⟩ := (hi.aIff x).mp hx'.1
            refine ⟨h1, ?_, fun y hy hp => List.mem_cons_of_mem _ (h3 y hy hp)⟩
            simp only [List.mem_cons, not_or]; exact ⟨hx'.2, h2⟩
          · simp only [nextState, List.mem_filter, Bool.and_eq_true, Bool.not_eq_true', List.all_eq_true,
              List.contains_eq_mem, decide_eq_true_eq, decide_eq_false_iff_not, mem_children] at hx
            obtain ⟨hxp, _, hch⟩ := hx
            have hp : Par g x c.id := (par_cmd hw hcg).mpr hxp
            refine ⟨hR.up _ hcR _ hp, ?_, fun y hy hpy => hch y ⟨hpy, hy⟩⟩
            simp only [List.mem_cons, not_or]
            refine ⟨hp.ne hw, ?_⟩
            intro hxP; exact hcP (hi.closed x hxP c.id hcR hp)
        have hnd : ((nextState g R s c).1.avail ++ (nextState g R s c).2).Nodup := by
          rw [List.nodup_append]
          refine ⟨hi.aNodup.erase _, hreadyNodup, ?_⟩
          intro x hx y hy e
          subst e
          simp only [nextState, List.mem_filter, Bool.and_eq_true, Bool.not_eq_true',
            List.contains_eq_mem, decide_eq_false_iff_not] at hy
          exact hy.2.1 hx
        obtain ⟨ee, f1, hf1, f2, hf2, hne, hfin1, hfin2⟩ := addAvail_err _ _ e hnd ha
        subst ee
        simp only
        -- two members of the (would-be) available set are incomparable
        have hincomp : ∀ u ∈ (nextState g R s c).1.avail ++ (nextState g R s c).2,
            ∀ v ∈ (nextState g R s c).1.avail ++ (nextState g R s c).2, u ≠ v → ¬ Reach g u v := by
          intro u hu v hv huv hr
          obtain ⟨huR, huP, huCh⟩ := hmem u hu
          obtain ⟨hvR, hvP, _⟩ := hmem v hv
          rcases hr.cases_head with e | ⟨m, hpm, hrm⟩
          · exact huv e
          · have hmR : m ∈ R := hR.reach hvR hrm
            have hmP := huCh m hmR hpm
            -- c :: P is descendant closed in R
            have hcl : ∀ x ∈ c.id :: s.processed, ∀ y, Reach g x y → y ∈ R → y ∈ c.id :: s.processed := by
              intro x hx y hxy
              induction hxy with
              | refl => intro _; exact hx
              | tail _ hp ih2 =>
                intro hyR
                have hm' := ih2 (hR.up _ hyR _ hp)
                simp only [List.mem_cons] at hm'
                rcases hm' with rfl | hm'
                · exact List.mem_cons_of_mem _ (hcCh _ hyR hp)
                · exact List.mem_cons_of_mem _ (hi.closed _ hm' _ hyR hp)
            exact hvP (hcl m hmP v hrm hvR)
        exact ⟨f1, (hmem f1 hf1).1, f2, (hmem f2 hf2).1, hne, hfin1, hfin2,
          hincomp f1 hf1 f2 hf2 hne, hincomp f2 hf2 f1 hf1 (Ne.symm hne)⟩

end AranyaV.Spec
