import AranyaV.Proofs.CompileTargets
/-!
C24 `resolve_total`: the function labels referenced by compiled code are exactly the non-builtin
call targets of the source (`callees`).
-/
namespace AranyaV.Lang
open AranyaV.Gen.Lang

mutual
/-- user functions called (syntactically) by an expression -/
def calleesE : Expr → List Nat
  | .unit | .int _ | .str _ | .bool _ | .none | .todo | .var _ | .enumRef _ _ _ => []
  | .some e | .ok e | .err e | .not e | .ret e => calleesE e
  | .is e _ | .dot e _ | .cast e _ | .substruct e _ => calleesE e
  | .and a b | .or a b | .coalesce a b => calleesE a ++ calleesE b
  | .eq a b | .ne a b | .gt a b | .lt a b | .ge a b | .le a b => calleesE a ++ calleesE b
  | .ite c t f => calleesE c ++ calleesE t ++ calleesE f
  | .call f args => (if isBuiltin f then [] else [f]) ++ calleesArgs args
  | .ffi _ _ _ args => calleesArgs args
  | .struct _ fields _ => calleesFields fields
  | .block ss e => calleesSs ss ++ calleesE e
  | .mtch scrut arms => calleesE scrut ++ calleesArmsE arms
def calleesArgs : List Expr → List Nat
  | [] => []
  | e :: es => calleesE e ++ calleesArgs es
def calleesFields : List (Nat × Expr) → List Nat
  | [] => []
  | (_, e) :: rest => calleesE e ++ calleesFields rest
def calleesPat : Pat → List Nat
  | .default => []
  | .values vs => calleesArgs vs
def calleesArmsE : List (Pat × Expr) → List Nat
  | [] => []
  | (p, e) :: rest => calleesPat p ++ calleesE e ++ calleesArmsE rest
def calleesArmsS : List (Pat × List Stmt) → List Nat
  | [] => []
  | (p, ss) :: rest => calleesPat p ++ calleesSs ss ++ calleesArmsS rest
def calleesS : Stmt → List Nat
  | .let_ _ e => calleesE e
  | .check c els => calleesE c ++ calleesE els
  | .ifS brs _ els => calleesBrs brs ++ calleesSs els
  | .ret e => calleesE e
  | .dassert e => calleesE e
  | .mtch scrut arms => calleesE scrut ++ calleesArmsS arms
def calleesSs : List Stmt → List Nat
  | [] => []
  | s :: ss => calleesS s ++ calleesSs ss
def calleesBrs : List (Expr × List Stmt) → List Nat
  | [] => []
  | (c, ss) :: rest => calleesE c ++ calleesSs ss ++ calleesBrs rest
end

/-- every `fn` label referenced by `code` is one of `fs` -/
def FnIn (fs : List Nat) (code : List Instr) : Prop := TgtsP (fun l => ∀ f, l = Label.fn f → f ∈ fs) code

theorem FnIn.sub {fs gs code} (h : FnIn fs code) (hs : ∀ f ∈ fs, f ∈ gs) : FnIn gs code :=
  TgtsP.mono h (fun _ hl f hf => hs f (hl f hf))


def labelFns : Label → List Nat
  | .fn f => [f]
  | .anon _ => []

macro "fn_tg" : tactic => `(tactic| (
  unfold FnIn
  try simp only [tgtsP_append, tgtsP_cons, tgtsP_nil, and_true, true_and, List.cons_append, List.nil_append]
  repeat' apply And.intro
  all_goals first
    | (apply FnIn.sub; assumption; intro f hf
       simp only [calleesE, calleesArgs, calleesFields, calleesPat, calleesArmsE, calleesArmsS, calleesS, calleesSs, calleesBrs, labelFns,
         List.mem_append, List.mem_cons, List.not_mem_nil, or_false, false_or, or_assoc, List.nil_append, List.append_nil] at hf ⊢
       first | orfind hf | (rcases hf with h | h <;> first | orfind h | (rcases h with h | h <;> orfind h)))
    | (intro l hl; simp [instrLabel, br, jmp] at hl; done)
    | (intro l hl f hf; simp only [instrLabel, br, jmp, Option.some.injEq] at hl; subst hl; cases hf; done)
    | (intro l hl f hf; simp only [instrLabel, br, jmp, Option.some.injEq] at hl; subst hl; subst hf; simp [labelFns]; done)
    | exact tgtsP_nil))

theorem calls_all (sd : Defs) :
    (∀ wp c e, FnIn (calleesE e) (compileExpr sd wp c e).code) ∧
    (∀ (wp c : Nat) (end_ : Label) (ls : List Label) (arms : List (Pat × Expr)), FnIn (labelFns end_ ++ calleesArmsE arms) (compileArmsE sd wp c end_ ls arms).code) ∧
    (∀ (wp c : Nat) (arms : List (Pat × Expr)), FnIn (calleesArmsE arms) (compileTestsE sd wp c arms).1.code) ∧
    (∀ (wp c : Nat) (arm : Label) (vs : List Expr), FnIn (labelFns arm ++ calleesArgs vs) (compilePatVals sd wp c arm vs).code) ∧
    (∀ wp c ss, FnIn (calleesSs ss) (compileStmts sd wp c ss).code) ∧
    (∀ wp c s, FnIn (calleesS s) (compileStmt sd wp c s).code) ∧
    (∀ wp c end_ brs, FnIn (labelFns end_ ++ calleesBrs brs) (compileBranches sd wp c end_ brs).code) ∧
    (∀ (wp c : Nat) (end_ : Label) (ls : List Label) (arms : List (Pat × List Stmt)), FnIn (labelFns end_ ++ calleesArmsS arms) (compileArmsS sd wp c end_ ls arms).code) ∧
    (∀ (wp c : Nat) (arms : List (Pat × List Stmt)), FnIn (calleesArmsS arms) (compileTestsS sd wp c arms).1.code) ∧
    (∀ wp c es, FnIn (calleesArgs es) (compileArgs sd wp c es).code) ∧
    (∀ wp c fs, FnIn (calleesFields fs) (compileFields sd wp c fs).code) := by
  apply compileExpr.mutual_induct sd
  all_goals (try dsimp only)
  case case12 =>
    intro wp c f args i hi ih
    simp only [compileExpr, hi]
    unfold FnIn; rw [tgtsP_append]
    refine ⟨FnIn.sub ih (by intro g hg; simp only [calleesE, List.mem_append]; exact Or.inr hg), ⟨?_⟩⟩
    intro j hj l hl; simp only [List.mem_singleton] at hj; subst hj; rw [(builtin_noLabel hi).1] at hl; cases hl
  case case13 =>
    intro wp c f args hi ih
    have hb : isBuiltin f = false := by
      match f, hi with
      | 0, hi => simp [builtinInstr] at hi
      | 1, hi => simp [builtinInstr] at hi
      | 2, hi => simp [builtinInstr] at hi
      | 3, hi => simp [builtinInstr] at hi
      | n + 4, _ => simp [isBuiltin, builtinInstr]
    simp only [compileExpr, hi]
    unfold FnIn; rw [tgtsP_append]
    refine ⟨FnIn.sub ih (by intro g hg; simp only [calleesE, List.mem_append]; exact Or.inr hg), ⟨?_⟩⟩
    intro j hj l hl g hg; simp only [List.mem_singleton] at hj; subst hj
    simp only [instrLabel, Option.some.injEq] at hl; subst hl; cases hg
    simp [calleesE, hb]
  case case30 =>
    intro wp c e s ih
    cases s <;> simp only [compileExpr, if_true, Bool.false_eq_true, if_false] <;> fn_tg
  case case32 =>
    intro wp c e sub ih
    simp only [compileExpr]
    have hI : ∀ (ks : List Nat) P, TgtsP P (ks.map fun k => (Instruction.Identifier k : Instr)) := by
      intro ks P; refine ⟨?_⟩; intro j hj l hl
      obtain ⟨k, _, rfl⟩ := List.mem_map.mp hj; simp [instrLabel] at hl
    unfold FnIn
    by_cases hz : (Defs.fields sd sub).length = 0
    · simp only [hz, if_true, tgtsP_append, tgtsP_cons, tgtsP_nil, and_true, List.cons_append]
      exact ⟨by intro l hl; simp [instrLabel] at hl, ⟨FnIn.sub ih (by intro g hg; simpa [calleesE] using hg), hI _ _⟩, by intro l hl; simp [instrLabel] at hl⟩
    · simp only [hz, if_false, tgtsP_append, tgtsP_cons, tgtsP_nil, and_true, List.cons_append]
      exact ⟨by intro l hl; simp [instrLabel] at hl, ⟨FnIn.sub ih (by intro g hg; simpa [calleesE] using hg), hI _ _⟩, by intro l hl; simp [instrLabel] at hl,
        by intro l hl; simp [instrLabel] at hl⟩
  case case38 =>
    intro wp c brs hasElse els ihB ihS
    cases hasElse <;> simp only [compileStmt, if_true, Bool.false_eq_true, if_false, List.append_nil] <;> fn_tg
  case case44 => intro wp c arm e es w hw ih; simp only [compilePatVals, hw]; fn_tg
  case case45 => intro wp c arm e es hw ihE ihR; simp only [compilePatVals, hw]; fn_tg
  case case50 =>
    intro wp c end_ l ls pat body rest ihB ihR
    cases pat with
    | default => simp only [compileArmsE] at ihB ihR ⊢; fn_tg
    | values vs =>
      cases hf : firstBinding vs with
      | none => simp only [compileArmsE, hf] at ihB ihR ⊢; fn_tg
      | some wx => obtain ⟨w, x⟩ := wx; simp only [compileArmsE, hf] at ihB ihR ⊢; fn_tg
  case case55 =>
    intro wp c end_ l ls pat body rest ihB ihR
    cases pat with
    | default => simp only [compileArmsS] at ihB ihR ⊢; fn_tg
    | values vs =>
      cases hf : firstBinding vs with
      | none => simp only [compileArmsS, hf] at ihB ihR ⊢; fn_tg
      | some wx => obtain ⟨w, x⟩ := wx; simp only [compileArmsS, hf] at ihB ihR ⊢; fn_tg
  all_goals intros
  all_goals (try simp only [compileExpr, compileArgs, compileFields, compileStmt, compileStmts, compileBranches, compilePatVals, compileTestsE, compileTestsS, compileArmsE, compileArmsS])
  all_goals (try fn_tg)


/-- all user functions called anywhere in the program -/
def calleesFuns : List FunDef → List Nat
  | [] => []
  | fd :: rest => calleesSs fd.body ++ calleesFuns rest

theorem fun_fnIn (sd : Defs) (wp c : Nat) (fd : FunDef) : FnIn (calleesSs fd.body) (compileFun sd wp c fd).code := by
  simp only [compileFun]
  unfold FnIn
  simp only [tgtsP_append, tgtsP_cons, tgtsP_nil, and_true]
  refine ⟨⟨⟨⟨?_⟩, ?_⟩, (calls_all sd).2.2.2.2.1 _ _ _⟩, ?_⟩
  · intro j hj l hl
    obtain ⟨k, _, rfl⟩ := List.mem_map.mp hj; simp [instrLabel] at hl
  · intro l hl; simp [instrLabel] at hl
  · intro l hl; simp [instrLabel] at hl

theorem funs_fnIn (sd : Defs) : ∀ (funs : List FunDef) (wp c : Nat), FnIn (calleesFuns funs) (compileFuns sd wp c funs).code
  | [], wp, c => by simp only [compileFuns]; exact tgtsP_nil
  | fd :: rest, wp, c => by
    simp only [compileFuns, calleesFuns]
    unfold FnIn; rw [tgtsP_append]
    exact ⟨FnIn.sub (fun_fnIn sd wp c fd) (fun f hf => List.mem_append.mpr (Or.inl hf)),
      FnIn.sub (funs_fnIn sd rest _ _) (fun f hf => List.mem_append.mpr (Or.inr hf))⟩

/-- every called user function is declared -/
def CallsDeclared (funs : List FunDef) : Prop := ∀ f ∈ calleesFuns funs, ∃ fd ∈ funs, fd.name = f

theorem resolve_total_calls (sd : Defs) (funs : List FunDef) (hn : (funs.map (·.name)).Nodup)
    (hc : CallsDeclared funs) :
    ∃ cp, compileProgram sd funs = some cp ∧
      (∀ i ∈ cp.prog, ∀ n, instrRes i = some n → n < cp.prog.length) := by
  apply resolve_total_core sd funs hn
  intro i hi f hf
  simp only [compileUnresolved, List.mem_cons] at hi
  rcases hi with rfl | hi
  · simp [instrLabel] at hf
  · exact hc f ((funs_fnIn sd funs 1 0).h i hi _ hf f rfl)

end AranyaV.Lang
