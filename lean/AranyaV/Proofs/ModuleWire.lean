import AranyaV.Model.ModuleWire
import AranyaV.Proofs.Wire
/-!
Generic theorems about the schema-directed postcard model of `Model/ModuleWire.lean`:
round trip (`dec_enc`) for every schema and every well-formed value, and its corollaries.
The varint / zig-zag / bytes lemmas are builder-B's (`Proofs/Wire.lean`).
-/
namespace AranyaV.ModuleWire
open AranyaV.Wire

theorem decU64_enc (n : Nat) (hn : n < 2 ^ 64) (rest : Bytes) :
    decU 64 (varintEnc 64 n ++ rest) = .ok (n, rest) := by
  unfold decU; rw [varint64_rt n hn rest]

theorem decU32_enc (n : Nat) (hn : n < 2 ^ 32) (rest : Bytes) :
    decU 32 (varintEnc 32 n ++ rest) = .ok (n, rest) := by
  unfold decU; rw [varint32_rt n hn rest]

theorem decElems_enc (f : Bytes → Res) (P : Val → Bool)
    (hf : ∀ v rest, P v = true → f (enc v ++ rest) = .ok (v, rest)) :
    ∀ (vs : List Val) (rest : Bytes), vs.all P = true →
      decElems f vs.length (encList vs ++ rest) = .ok (vs, rest) := by
  intro vs
  induction vs with
  | nil => intro rest _; simp [decElems, encList]
  | cons v vs ih =>
    intro rest hall
    simp only [List.all_cons, Bool.and_eq_true] at hall
    simp only [List.length_cons, decElems, encList, List.append_assoc, hf v _ hall.1]
    rw [ih rest hall.2]

mutual
/-- **`dec_enc`**: decoding the encoding of a well-formed value, followed by anything, returns the
value and exactly what followed — for every schema -/
theorem dec_enc : (s : Sch) → ∀ (v : Val) (rest : Bytes), wf s v = true →
    dec s (enc v ++ rest) = .ok (v, rest)
  | .u, v, rest, h => by
    cases v <;> simp [wf] at h
    simp [dec, enc, decU64_enc _ h]
  | .nz, v, rest, h => by
    cases v <;> simp [wf] at h
    rename_i n
    have : ¬ n = 0 := by omega
    simp [dec, enc, decU64_enc _ h.2, this]
  | .i64, v, rest, h => by
    cases v <;> simp [wf] at h
    simp [dec, enc, i64_rt h]
  | .bool, v, rest, h => by
    cases v <;> simp [wf] at h
    rename_i b
    cases b <;> simp [dec, enc, boolEnc]
  | .str k, v, rest, h => by
    cases v <;> simp [wf] at h
    rename_i s
    simp only [dec, enc, bytesEnc, List.append_assoc, decU64_enc _ h.2, takeN_append]
    simp [h.1]
  | .opt s, v, rest, h => by
    cases v with
    | none => simp [dec, enc]
    | some w =>
      simp only [wf] at h
      simp [dec, enc, dec_enc s w rest h]
    | _ => simp [wf] at h
  | .seq s, v, rest, h => by
    cases v <;> simp [wf] at h
    rename_i vs
    have hE := decElems_enc (dec s) (fun v => wf s v) (fun v rest hv => dec_enc s v rest hv)
      vs rest (by simpa using h.2)
    simp only [dec, enc, List.append_assoc, decU64_enc _ h.1, hE]
  | .map e, v, rest, h => by
    cases v <;> simp [wf] at h
    rename_i vs
    have hE := decElems_enc (dec e) (fun v => wf e v) (fun v rest hv => dec_enc e v rest hv)
      vs rest (by simpa using h.1.2)
    simp only [dec, enc, List.append_assoc, decU64_enc _ h.1.1, hE]
    simp [h.2]
  | .tup ss, v, rest, h => by
    cases v <;> simp [wf] at h
    rename_i vs
    simp only [dec, enc]
    rw [decTuple_enc ss vs rest h]
  | .enum ss, v, rest, h => by
    cases v <;> simp [wf] at h
    rename_i i p
    simp only [dec, enc, List.append_assoc, decU32_enc _ h.1, decVariant_enc ss i p rest h.2]
  | .fail, v, rest, h => by simp [wf] at h
theorem decTuple_enc : (ss : List Sch) → ∀ (vs : List Val) (rest : Bytes),
    wfTuple ss vs = true → decTuple ss (encList vs ++ rest) = .ok (vs, rest)
  | [], vs, rest, h => by
    cases vs <;> simp [wfTuple] at h
    simp [decTuple, encList]
  | s :: ss, vs, rest, h => by
    cases vs with
    | nil => simp [wfTuple] at h
    | cons v vs =>
      simp only [wfTuple, Bool.and_eq_true] at h
      simp only [decTuple, encList, List.append_assoc, dec_enc s v _ h.1,
        decTuple_enc ss vs rest h.2]
theorem decVariant_enc : (ss : List Sch) → ∀ (i : Nat) (v : Val) (rest : Bytes),
    wfVariant ss i v = true → decVariant ss i (enc v ++ rest) = .ok (v, rest)
  | [], i, v, rest, h => by simp [wfVariant] at h
  | s :: ss, 0, v, rest, h => by
    simp only [wfVariant] at h
    simp only [decVariant]
    exact dec_enc s v rest h
  | s :: ss, i + 1, v, rest, h => by
    simp only [wfVariant] at h
    simp only [decVariant]
    exact decVariant_enc ss i v rest h
end

/-- `from_bytes (to_allocvec v) = Ok v` -/
theorem fromBytes_enc (s : Sch) (v : Val) (h : wf s v = true) : fromBytes s (enc v) = .ok v := by
  have := dec_enc s v [] h
  simp only [List.append_nil] at this
  simp [fromBytes, this]

/-- the encoding is injective on the well-formed values of a schema: two different modules never
serialize to the same bytes -/
theorem enc_inj (s : Sch) (v w : Val) (hv : wf s v = true) (hw : wf s w = true)
    (h : enc v = enc w) : v = w := by
  have a := fromBytes_enc s v hv
  rw [h, fromBytes_enc s w hw] at a
  injection a with a
  exact a.symm

/-- prefix-freeness: a well-formed encoding followed by other bytes still decodes to the same
value (no value's encoding is a proper prefix of another's) -/
theorem enc_prefix_free (s : Sch) (v w : Val) (r1 r2 : Bytes) (hv : wf s v = true) (hw : wf s w = true)
    (h : enc v ++ r1 = enc w ++ r2) : v = w ∧ r1 = r2 := by
  have a := dec_enc s v r1 hv
  rw [h, dec_enc s w r2 hw] at a
  injection a with a
  injection a with a b
  exact ⟨a.symm, b.symm⟩

end AranyaV.ModuleWire
