import AranyaV.Model.Trx
import AranyaV.Proofs.BraidGraph
/-!
# Proofs.Trx — helper lemmas for the transaction model (C06–C10)

Tips of a graph (`IsTip`), how they change when a command or a chain of commands is appended,
the sorted key list (`hsPush`), and the invariants `StoreInv` / `TrxInv` with their
preservation lemmas for every arm of `add_commands`, `flush`, `commit` and `action`.
-/
namespace AranyaV.Trx
open AranyaV.Spec AranyaV.Gen

/-! ## sorted key lists -/

theorem mem_hsPush {i a : Nat} {l : List Nat} : a ∈ hsPush l i ↔ a = i ∨ a ∈ l := by
  induction l with
  | nil => simp [hsPush]
  | cons x xs ih =>
    simp only [hsPush]
    split
    · simp
    · split
      · rename_i h; subst h; simp
      · simp [ih]; grind

theorem hsPush_sorted {i : Nat} {l : List Nat} (h : l.Pairwise (· < ·)) :
    (hsPush l i).Pairwise (· < ·) := by
  induction l with
  | nil => simp [hsPush]
  | cons x xs ih =>
    simp only [hsPush]
    have hx := List.pairwise_cons.mp h
    split
    · rename_i hlt
      refine List.pairwise_cons.mpr ⟨?_, h⟩
      intro a ha
      rcases List.mem_cons.mp ha with rfl | ha
      · exact hlt
      · exact Nat.lt_trans hlt (hx.1 a ha)
    · split
      · exact h
      · rename_i h1 h2
        refine List.pairwise_cons.mpr ⟨?_, ih hx.2⟩
        intro a ha
        rcases mem_hsPush.mp ha with rfl | ha
        · omega
        · exact hx.1 a ha

theorem sorted_nodup {l : List Nat} (h : l.Pairwise (· < ·)) : l.Nodup :=
  h.imp (fun h => Nat.ne_of_lt h)

theorem erase_sorted {l : List Nat} (i : Nat) (h : l.Pairwise (· < ·)) : (l.erase i).Pairwise (· < ·) :=
  h.sublist List.erase_sublist

theorem foldl_erase_sorted (b l : List Nat) (h : l.Pairwise (· < ·)) :
    (b.foldl (fun h i => h.erase i) l).Pairwise (· < ·) := by
  induction b generalizing l with
  | nil => simpa
  | cons x xs ih => exact ih _ (erase_sorted x h)

theorem mem_foldl_erase (b l : List Nat) (h : l.Pairwise (· < ·)) (a : Nat) :
    a ∈ b.foldl (fun h i => h.erase i) l ↔ a ∈ l ∧ a ∉ b := by
  induction b generalizing l with
  | nil => simp
  | cons x xs ih =>
    simp only [List.foldl_cons]
    rw [ih _ (erase_sorted x h), (sorted_nodup h).mem_erase_iff]
    simp only [List.mem_cons, not_or]
    grind

/-- two strictly ascending lists with the same members are equal -/
theorem sorted_ext : ∀ {l₁ l₂ : List Nat}, l₁.Pairwise (· < ·) → l₂.Pairwise (· < ·) →
    (∀ a, a ∈ l₁ ↔ a ∈ l₂) → l₁ = l₂
  | [], [], _, _, _ => rfl
  | [], y :: ys, _, _, h => by have := (h y).mpr (by simp); simp at this
  | x :: xs, [], _, _, h => by have := (h x).mp (by simp); simp at this
  | x :: xs, y :: ys, h1, h2, h => by
    have hx := List.pairwise_cons.mp h1
    have hy := List.pairwise_cons.mp h2
    have hxy : x = y := by
      have a1 := (h x).mp (by simp)
      have a2 := (h y).mpr (by simp)
      rcases List.mem_cons.mp a1 with e | e
      · exact e
      · rcases List.mem_cons.mp a2 with e' | e'
        · exact e'.symm
        · have := hy.1 x e; have := hx.1 y e'; omega
    subst hxy
    congr 1
    apply sorted_ext hx.2 hy.2
    intro a
    constructor
    · intro ha
      rcases List.mem_cons.mp ((h a).mp (List.mem_cons_of_mem _ ha)) with e | e
      · subst e; have := hx.1 a ha; omega
      · exact e
    · intro ha
      rcases List.mem_cons.mp ((h a).mpr (List.mem_cons_of_mem _ ha)) with e | e
      · subst e; have := hy.1 a ha; omega
      · exact e

/-- pushing the keys of a sorted map into an empty `HeadSet` reproduces the key list -/
theorem foldl_hsPush_sorted (acc l : List Nat) (h : (acc ++ l).Pairwise (· < ·)) :
    l.foldl hsPush acc = acc ++ l := by
  induction l generalizing acc with
  | nil => simp
  | cons x xs ih =>
    simp only [List.foldl_cons]
    have hs : hsPush acc x = acc ++ [x] := by
      have hacc : ∀ a ∈ acc, a < x := by
        intro a ha
        have := List.pairwise_append.mp h
        exact this.2.2 a ha x (by simp)
      clear h ih
      induction acc with
      | nil => simp [hsPush]
      | cons y ys ih2 =>
        have hy := hacc y (by simp)
        simp only [hsPush]
        rw [if_neg (by omega), if_neg (by omega), ih2 (fun a ha => hacc a (List.mem_cons_of_mem _ ha))]
        simp
    rw [hs, ih (acc ++ [x]) (by simpa using h)]
    simp

theorem mem_foldl_hsPush (acc l : List Nat) (a : Nat) :
    a ∈ l.foldl hsPush acc ↔ a ∈ acc ∨ a ∈ l := by
  induction l generalizing acc with
  | nil => simp
  | cons x xs ih => simp only [List.foldl_cons, ih, mem_hsPush, List.mem_cons]; grind

theorem foldl_hsPush_pairwise (acc l : List Nat) (h : acc.Pairwise (· < ·)) :
    (l.foldl hsPush acc).Pairwise (· < ·) := by
  induction l generalizing acc with
  | nil => simpa
  | cons x xs ih => exact ih _ (hsPush_sorted h)

/-! ## tips -/

/-- `i` is a command of `g` that no command of `g` names as a parent -/
def IsTip (g : Graph) (i : Nat) : Prop := i ∈ ids g ∧ ∀ c ∈ g, i ∉ c.parents

theorem mem_frontier {g : Graph} {i : Nat} : i ∈ frontier g ↔ IsTip g i := by
  unfold frontier IsTip
  rw [mem_foldl_hsPush]
  simp only [List.not_mem_nil, false_or, List.mem_map, List.mem_filter, List.isEmpty_iff, ids]
  constructor
  · rintro ⟨c, ⟨hc, he⟩, rfl⟩
    refine ⟨⟨c, hc, rfl⟩, ?_⟩
    intro d hd hp
    have : d.id ∈ children g c.id := by
      simp only [children, List.mem_map, List.mem_filter]
      exact ⟨d, ⟨hd, by simpa using hp⟩, rfl⟩
    rw [he] at this; simp at this
  · rintro ⟨⟨c, hc, rfl⟩, h⟩
    refine ⟨c, ⟨hc, ?_⟩, rfl⟩
    simp only [children]
    rw [List.map_eq_nil_iff, List.filter_eq_nil_iff]
    intro d hd
    simpa using h d hd

theorem frontier_strict (g : Graph) : (frontier g).Pairwise (· < ·) :=
  foldl_hsPush_pairwise _ _ (by simp)

/-- a strictly ascending list whose members are the tips is the `frontier` -/
theorem eq_frontier {g : Graph} {l : List Nat} (hs : l.Pairwise (· < ·))
    (hm : ∀ i, i ∈ l ↔ IsTip g i) : l = frontier g :=
  sorted_ext hs (frontier_strict g) (fun a => by rw [hm, mem_frontier])

theorem ids_append (a b : Graph) : ids (a ++ b) = ids a ++ ids b := by simp [ids]

theorem wf_prefix_aux : ∀ (n : Nat) (a b : Graph), b.length = n → WF (a ++ b) → WF a
  | 0, a, b, hn, h => by
    have : b = [] := List.eq_nil_of_length_eq_zero hn
    subst this; simpa using h
  | n + 1, a, b, hn, h => by
    rcases List.eq_nil_or_concat b with rfl | ⟨b', c, rfl⟩
    · simp at hn
    · rw [List.concat_eq_append, ← List.append_assoc] at h
      exact wf_prefix_aux n a b' (by simpa using hn) h.snoc_inv.1

theorem wf_prefix {a b : Graph} (h : WF (a ++ b)) : WF a := wf_prefix_aux _ a b rfl h

theorem isTip_snoc {g : Graph} {c : Cmd} (h : WF (g ++ [c])) (i : Nat) :
    IsTip (g ++ [c]) i ↔ i = c.id ∨ (IsTip g i ∧ i ∉ c.parents) := by
  obtain ⟨hw, h1, h2⟩ := h.snoc_inv
  unfold IsTip
  rw [ids_append]
  simp only [List.mem_append, List.mem_singleton]
  have hc1 : ∀ j, j ∈ ids [c] ↔ j = c.id := by intro j; simp [ids]
  rw [hc1]
  constructor
  · rintro ⟨hi | hi, hn⟩
    · right
      exact ⟨⟨hi, fun d hd => hn d (Or.inl hd)⟩, hn c (Or.inr rfl)⟩
    · left; exact hi
  · rintro (rfl | ⟨⟨hi, hn⟩, hc⟩)
    · refine ⟨Or.inr rfl, ?_⟩
      rintro d (hd | rfl) hp
      · exact h1 (hw.parents_mem hd hp)
      · exact h1 (h2 _ hp)
    · refine ⟨Or.inl hi, ?_⟩
      rintro d (hd | rfl)
      · exact hn d hd
      · exact hc

/-- commands `cs` form a chain on `base`: the first extends `base`, each next one its predecessor -/
def Chain : List Nat → Graph → Prop
  | _, [] => True
  | base, c :: cs => c.parents = base ∧ Chain [c.id] cs

theorem chain_snoc {base : List Nat} {cs : Graph} {l c : Cmd} (h : Chain base (cs ++ [l]))
    (hc : c.parents = [l.id]) : Chain base (cs ++ [l] ++ [c]) := by
  induction cs generalizing base with
  | nil => simp only [List.nil_append, List.cons_append, Chain] at h ⊢; exact ⟨h.1, hc, trivial⟩
  | cons x xs ih =>
    simp only [List.cons_append, Chain] at h ⊢
    exact ⟨h.1, by simpa using ih h.2⟩

/-- appending a chain on `base` retires the tips in `base` and makes its last command a tip -/
theorem isTip_chain {g cs : Graph} {base : List Nat} {l : Cmd} (hw : WF (g ++ cs))
    (hc : Chain base cs) (hl : cs.getLast? = some l) (i : Nat) :
    IsTip (g ++ cs) i ↔ i = l.id ∨ (IsTip g i ∧ i ∉ base) := by
  induction cs generalizing g base with
  | nil => simp at hl
  | cons c rest ih =>
    cases rest with
    | nil =>
      simp only [List.getLast?_singleton, Option.some.injEq] at hl
      subst hl
      rw [isTip_snoc hw, hc.1]
    | cons c' rest' =>
      have hw' : WF ((g ++ [c]) ++ (c' :: rest')) := by simpa using hw
      have hl' : (c' :: rest').getLast? = some l := by
        rw [List.getLast?_cons_cons] at hl; exact hl
      have := ih hw' hc.2 hl'
      rw [show g ++ c :: c' :: rest' = (g ++ [c]) ++ (c' :: rest') by simp, this, isTip_snoc (wf_prefix hw'), hc.1]
      have hcid : c.id ∉ ids g := (wf_prefix hw').snoc_inv.2.1
      constructor
      · rintro (h | ⟨h | ⟨h, hb⟩, hn⟩)
        · exact Or.inl h
        · simp at hn; exact absurd h hn
        · exact Or.inr ⟨h, hb⟩
      · rintro (h | ⟨h, hb⟩)
        · exact Or.inl h
        · refine Or.inr ⟨Or.inr ⟨h, hb⟩, ?_⟩
          simp only [List.mem_singleton]
          rintro rfl
          exact hcid h.1

theorem IsTip.mem {g : Graph} {i : Nat} (h : IsTip g i) : i ∈ ids g := h.1

/-! ## stored command lists -/

@[simp] theorem cmds_append (a b : List SCmd) : cmds (a ++ b) = cmds a ++ cmds b := by simp [cmds]
@[simp] theorem cmds_nil : cmds [] = [] := rfl
@[simp] theorem cmds_cons (a : SCmd) (b : List SCmd) : cmds (a :: b) = a.cmd :: cmds b := rfl

theorem hasId_iff {l : List SCmd} {i : Nat} : hasId l i = true ↔ i ∈ ids (cmds l) := by
  simp [hasId, ids, cmds]

theorem hasId_false_iff {l : List SCmd} {i : Nat} : hasId l i = false ↔ i ∉ ids (cmds l) := by
  rw [← hasId_iff]; simp

theorem stateOf_some_mem {l : List SCmd} {i : Nat} {s : Facts} (h : stateOf l i = some s) :
    i ∈ ids (cmds l) := by
  simp only [stateOf, Option.map_eq_some_iff] at h
  obtain ⟨x, hx, _⟩ := h
  have := List.find?_some hx
  have hm := List.mem_of_find?_eq_some hx
  simp only [ids, cmds, List.map_map, List.mem_map]
  exact ⟨x, hm, by simpa using this⟩

theorem stateOf_none_iff {l : List SCmd} {i : Nat} : stateOf l i = none ↔ i ∉ ids (cmds l) := by
  simp only [stateOf, Option.map_eq_none_iff, List.find?_eq_none, ids, cmds, List.map_map, List.mem_map]
  constructor
  · rintro h ⟨x, hx, e⟩; exact h x hx (by simpa using e)
  · rintro h x hx e; exact h ⟨x, hx, by simpa using e⟩

theorem storedState_some_mem {st : Store} {t : Trx} {i : Nat} {s : Facts}
    (h : storedState st t i = some s) : i ∈ ids (cmds (st.graph ++ t.written)) := by
  unfold storedState at h
  rw [cmds_append, ids_append, List.mem_append]
  split at h
  · rename_i s' hs; exact Or.inl (stateOf_some_mem hs)
  · exact Or.inr (stateOf_some_mem h)

theorem storedState_none {st : Store} {t : Trx} {i : Nat}
    (h : storedState st t i = none) : i ∉ ids (cmds (st.graph ++ t.written)) := by
  unfold storedState at h
  rw [cmds_append, ids_append, List.mem_append]
  split at h
  · simp at h
  · rename_i hs
    rw [stateOf_none_iff] at hs h
    exact fun hh => hh.elim hs h

theorem locate_iff {st : Store} {t : Trx} {i : Nat} :
    locate st t i = true ↔ i ∈ ids (cmds (st.graph ++ t.written)) := by
  simp only [locate, Bool.or_eq_true, hasId_iff, cmds_append, ids_append, List.mem_append]

/-! ## invariants -/

def inflight (t : Trx) : List SCmd :=
  match t.persp with
  | some p => p.cmds
  | none => []

/-- the committed store: a well-formed graph whose head set is exactly its frontier -/
structure StoreInv (st : Store) : Prop where
  wf : WF (cmds st.graph)
  heads : ∀ i, i ∈ st.heads ↔ IsTip (cmds st.graph) i
  sorted : st.heads.Pairwise (· < ·)

/-- shape of the in-flight perspective between two calls -/
def PerspOK (t : Trx) : Prop :=
  match t.persp with
  | none => t.phead = none ∧ t.pbase = []
  | some p => ∃ last, p.cmds.getLast? = some last ∧ t.phead = some last.cmd.id ∧
      Chain p.prior (cmds p.cmds) ∧ p.facts = last.st ∧
      (∀ i ∈ t.pbase, i ∈ p.prior) ∧ (∀ i ∈ p.prior, i ∉ t.heads)

/-- a transaction that has read the current head set: `heads ∪ pbase` is the frontier of what is
committed or written, the whole view is well formed, the perspective is a chain on its prior -/
structure TrxInv (st : Store) (t : Trx) : Prop where
  wf : WF (cmds (st.graph ++ t.written ++ inflight t))
  heads : ∀ i, (i ∈ t.heads ∨ i ∈ t.pbase) ↔ IsTip (cmds (st.graph ++ t.written)) i
  sorted : t.heads.Pairwise (· < ·)
  persp : PerspOK t

theorem PerspOK.flushErr {t : Trx} (h : PerspOK t) : flushErr t = false := by
  unfold PerspOK at h
  unfold Trx.flushErr
  split
  · rename_i p hp
    rw [hp] at h
    obtain ⟨last, hl, _⟩ := h
    cases hc : p.cmds with
    | nil => rw [hc] at hl; simp at hl
    | cons a b => rfl
  · rfl

theorem getLast?_cmds {l : List SCmd} {x : SCmd} (h : l.getLast? = some x) :
    (cmds l).getLast? = some x.cmd := by
  obtain ⟨ys, rfl⟩ := List.getLast?_eq_some_iff.mp h
  simp

/-- `flush` keeps the invariant and leaves no perspective in flight -/
theorem flushT_inv {st : Store} {t : Trx} (h : TrxInv st t) :
    TrxInv st (flushT t) ∧ (flushT t).persp = none ∧ (flushT t).phead = none ∧ (flushT t).pbase = [] ∧
      (flushT t).written = t.written ++ inflight t ∧ (flushT t).offset = t.offset := by
  have hp := h.persp
  unfold PerspOK at hp
  cases hpe : t.persp with
  | none =>
    rw [hpe] at hp
    have : flushT t = t := by simp [flushT, hpe]
    rw [this]
    exact ⟨h, hpe, hp.1, hp.2, by simp [inflight, hpe], rfl⟩
  | some p =>
    rw [hpe] at hp
    obtain ⟨last, hl, hph, hch, hf, hpa, hpb⟩ := hp
    have hfl : flushT t = { t with persp := none, phead := none, pbase := [], written := t.written ++ p.cmds, heads := hsPush t.heads last.cmd.id } := by
      simp [flushT, hpe, hl]
    rw [hfl]
    have hw := h.wf
    simp only [inflight, hpe] at hw
    refine ⟨⟨?_, ?_, ?_, ?_⟩, rfl, rfl, rfl, by simp [inflight, hpe], rfl⟩
    · simpa [inflight, List.append_assoc] using hw
    · intro i
      simp only [List.not_mem_nil, or_false]
      have hw' : WF (cmds (st.graph ++ t.written) ++ cmds p.cmds) := by simpa using hw
      have := isTip_chain hw' hch (getLast?_cmds hl) i
      rw [show cmds (st.graph ++ (t.written ++ p.cmds)) = cmds (st.graph ++ t.written) ++ cmds p.cmds by simp,
        this, mem_hsPush, ← h.heads]
      constructor
      · rintro (e | e)
        · exact Or.inl e
        · exact Or.inr ⟨Or.inl e, fun hh => hpb i hh e⟩
      · rintro (e | ⟨e | e, hn⟩)
        · exact Or.inl e
        · exact Or.inr e
        · exact absurd (hpa i e) hn
    · exact hsPush_sorted h.sorted
    · simp [PerspOK]

theorem chain_snoc' {base : List Nat} {cs : Graph} {c : Cmd} (h : Chain base cs)
    (hc : c.parents = (match cs.getLast? with | none => base | some l => [l.id])) :
    Chain base (cs ++ [c]) := by
  induction cs generalizing base with
  | nil => simp only [List.getLast?_nil] at hc; simp [Chain, hc]
  | cons x xs ih =>
    simp only [List.cons_append, Chain] at h ⊢
    refine ⟨h.1, ih h.2 ?_⟩
    cases xs with
    | nil => simpa using hc
    | cons y ys => rw [List.getLast?_cons_cons] at hc; exact hc

end AranyaV.Trx
