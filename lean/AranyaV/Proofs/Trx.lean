import AranyaV.Model.Trx
import AranyaV.Proofs.BraidGraph
/-!
# Proofs.Trx — helper lemmas for the transaction model (C06–C10)

Tips of a graph (`IsTip`), how they change when a command or a chain of commands is appended,
the sorted key list (`hsPush`), and the invariants `StoreInv` / `TrxInv` with their
preservation lemmas for every arm of `add_commands`, `flush`, `commit` and `action`.
-/
namespace AranyaV.Trx
open AranyaV.Spec AranyaV.Gen

/-! ## sorted key lists -/

theorem mem_hsPush {i a : Nat} {l : List Nat} : a ∈ hsPush l i ↔ a = i ∨ a ∈ l := by
  induction l with
  | nil => simp [hsPush]
  | cons x xs ih =>
    simp only [hsPush]
    split
    · simp
    · split
      · rename_i h; subst h; simp
      · simp [ih]; grind

theorem hsPush_sorted {i : Nat} {l : List Nat} (h : l.Pairwise (· < ·)) :
    (hsPush l i).Pairwise (· < ·) := by
  induction l with
  | nil => simp [hsPush]
  | cons x xs ih =>
    simp only [hsPush]
    have hx := List.pairwise_cons.mp h
    split
    · rename_i hlt
      refine List.pairwise_cons.mpr ⟨?_, h⟩
      intro a ha
      rcases List.mem_cons.mp ha with rfl | ha
      · exact hlt
      · exact Nat.lt_trans hlt (hx.1 a ha)
    · split
      · exact h
      · rename_i h1 h2
        refine List.pairwise_cons.mpr ⟨?_, ih hx.2⟩
        intro a ha
        rcases mem_hsPush.mp ha with rfl | ha
        · omega
        · exact hx.1 a ha

theorem sorted_nodup {l : List Nat} (h : l.Pairwise (· < ·)) : l.Nodup :=
  h.imp (fun h => Nat.ne_of_lt h)

theorem erase_sorted {l : List Nat} (i : Nat) (h : l.Pairwise (· < ·)) : (l.erase i).Pairwise (· < ·) :=
  h.sublist List.erase_sublist

theorem foldl_erase_sorted (b l : List Nat) (h : l.Pairwise (· < ·)) :
    (b.foldl (fun h i => h.erase i) l).Pairwise (· < ·) := by
  induction b generalizing l with
  | nil => simpa
  | cons x xs ih => exact ih _ (erase_sorted x h)

theorem mem_foldl_erase (b l : List Nat) (h : l.Pairwise (· < ·)) (a : Nat) :
    a ∈ b.foldl (fun h i => h.erase i) l ↔ a ∈ l ∧ a ∉ b := by
  induction b generalizing l with
  | nil => simp
  | cons x xs ih =>
    simp only [List.foldl_cons]
    rw [ih _ (erase_sorted x h), (sorted_nodup h).mem_erase_iff]
    simp only [List.mem_cons, not_or]
    grind

/-- two strictly ascending lists with the same members are equal -/
theorem sorted_ext : ∀ {l₁ l₂ : List Nat}, l₁.Pairwise (· < ·) → l₂.Pairwise (· < ·) →
    (∀ a, a ∈ l₁ ↔ a ∈ l₂) → l₁ = l₂
  | [], [], _, _, _ => rfl
  | [], y :: ys, _, _, h => by have := (h y).mpr (by simp); simp at this
  | x :: xs, [], _, _, h => by have := (h x).mp (by simp); simp at this
  | x :: xs, y :: ys, h1, h2, h => by
    have hx := List.pairwise_cons.mp h1
    have hy := List.pairwise_cons.mp h2
    have hxy : x = y := by
      have a1 := (h x).mp (by simp)
      have a2 := (h y).mpr (by simp)
      rcases List.mem_cons.mp a1 with e | e
      · exact e
      · rcases List.mem_cons.mp a2 with e' | e'
        · exact e'.symm
        · have := hy.1 x e; have := hx.1 y e'; omega
    subst hxy
    congr 1
    apply sorted_ext hx.2 hy.2
    intro a
    constructor
    · intro ha
      rcases List.mem_cons.mp ((h a).mp (List.mem_cons_of_mem _ ha)) with e | e
      · subst e; have := hx.1 a ha; omega
      · exact e
    · intro ha
      rcases List.mem_cons.mp ((h a).mpr (List.mem_cons_of_mem _ ha)) with e | e
      · subst e; have := hy.1 a ha; omega
      · exact e

/-- pushing the keys of a sorted map into an empty `HeadSet` reproduces the key list -/
theorem foldl_hsPush_sorted (acc l : List Nat) (h : (acc ++ l).Pairwise (· < ·)) :
    l.foldl hsPush acc = acc ++ l := by
  induction l generalizing acc with
  | nil => simp
  | cons x xs ih =>
    simp only [List.foldl_cons]
    have hs : hsPush acc x = acc ++ [x] := by
      have hacc : ∀ a ∈ acc, a < x := by
        intro a ha
        have := List.pairwise_append.mp h
        exact this.2.2 a ha x (by simp)
      clear h ih
      induction acc with
      | nil => simp [hsPush]
      | cons y ys ih2 =>
        have hy := hacc y (by simp)
        simp only [hsPush]
        rw [if_neg (by omega), if_neg (by omega), ih2 (fun a ha => hacc a (List.mem_cons_of_mem _ ha))]
        simp
    rw [hs, ih (acc ++ [x]) (by simpa using h)]
    simp

theorem mem_foldl_hsPush (acc l : List Nat) (a : Nat) :
    a ∈ l.foldl hsPush acc ↔ a ∈ acc ∨ a ∈ l := by
  induction l generalizing acc with
  | nil => simp
  | cons x xs ih => simp only [List.foldl_cons, ih, mem_hsPush, List.mem_cons]; grind

theorem foldl_hsPush_pairwise (acc l : List Nat) (h : acc.Pairwise (· < ·)) :
    (l.foldl hsPush acc).Pairwise (· < ·) := by
  induction l generalizing acc with
  | nil => simpa
  | cons x xs ih => exact ih _ (hsPush_sorted h)

/-! ## tips -/

/-- `i` is a command of `g` that no command of `g` names as a parent -/
def IsTip (g : Graph) (i : Nat) : Prop := i ∈ ids g ∧ ∀ c ∈ g, i ∉ c.parents

theorem mem_frontier {g : Graph} {i : Nat} : i ∈ frontier g ↔ IsTip g i := by
  unfold frontier IsTip
  rw [mem_foldl_hsPush]
  simp only [List.not_mem_nil, false_or, List.mem_map, List.mem_filter, List.isEmpty_iff, ids]
  constructor
  · rintro ⟨c, ⟨hc, he⟩, rfl⟩
    refine ⟨⟨c, hc, rfl⟩, ?_⟩
    intro d hd hp
    have : d.id ∈ children g c.id := by
      simp only [children, List.mem_map, List.mem_filter]
      exact ⟨d, ⟨hd, by simpa using hp⟩, rfl⟩
    rw [he] at this; simp at this
  · rintro ⟨⟨c, hc, rfl⟩, h⟩
    refine ⟨c, ⟨hc, ?_⟩, rfl⟩
    simp only [children]
    rw [List.map_eq_nil_iff, List.filter_eq_nil_iff]
    intro d hd
    simpa using h d hd

theorem frontier_strict (g : Graph) : (frontier g).Pairwise (· < ·) :=
  foldl_hsPush_pairwise _ _ (by simp)

/-- a strictly ascending list whose members are the tips is the `frontier` -/
theorem eq_frontier {g : Graph} {l : List Nat} (hs : l.Pairwise (· < ·))
    (hm : ∀ i, i ∈ l ↔ IsTip g i) : l = frontier g :=
  sorted_ext hs (frontier_strict g) (fun a => by rw [hm, mem_frontier])

theorem ids_append (a b : Graph) : ids (a ++ b) = ids a ++ ids b := by simp [ids]

theorem wf_prefix_aux : ∀ (n : Nat) (a b : Graph), b.length = n → WF (a ++ b) → WF a
  | 0, a, b, hn, h => by
    have : b = [] := List.eq_nil_of_length_eq_zero hn
    subst this; simpa using h
  | n + 1, a, b, hn, h => by
    rcases List.eq_nil_or_concat b with rfl | ⟨b', c, rfl⟩
    · simp at hn
    · rw [List.concat_eq_append, ← List.append_assoc] at h
      exact wf_prefix_aux n a b' (by simpa using hn) h.snoc_inv.1

theorem wf_prefix {a b : Graph} (h : WF (a ++ b)) : WF a := wf_prefix_aux _ a b rfl h

theorem isTip_snoc {g : Graph} {c : Cmd} (h : WF (g ++ [c])) (i : Nat) :
    IsTip (g ++ [c]) i ↔ i = c.id ∨ (IsTip g i ∧ i ∉ c.parents) := by
  obtain ⟨hw, h1, h2⟩ := h.snoc_inv
  unfold IsTip
  rw [ids_append]
  simp only [List.mem_append, List.mem_singleton]
  have hc1 : ∀ j, j ∈ ids [c] ↔ j = c.id := by intro j; simp [ids]
  rw [hc1]
  constructor
  · rintro ⟨hi | hi, hn⟩
    · right
      exact ⟨⟨hi, fun d hd => hn d (Or.inl hd)⟩, hn c (Or.inr rfl)⟩
    · left; exact hi
  · rintro (rfl | ⟨⟨hi, hn⟩, hc⟩)
    · refine ⟨Or.inr rfl, ?_⟩
      rintro d (hd | rfl) hp
      · exact h1 (hw.parents_mem hd hp)
      · exact h1 (h2 _ hp)
    · refine ⟨Or.inl hi, ?_⟩
      rintro d (hd | rfl)
      · exact hn d hd
      · exact hc

/-- commands `cs` form a chain on `base`: the first extends `base`, each next one its predecessor -/
def Chain : List Nat → Graph → Prop
  | _, [] => True
  | base, c :: cs => c.parents = base ∧ Chain [c.id] cs

theorem chain_snoc {base : List Nat} {cs : Graph} {l c : Cmd} (h : Chain base (cs ++ [l]))
    (hc : c.parents = [l.id]) : Chain base (cs ++ [l] ++ [c]) := by
  induction cs generalizing base with
  | nil => simp only [List.nil_append, List.cons_append, Chain] at h ⊢; exact ⟨h.1, hc, trivial⟩
  | cons x xs ih =>
    simp only [List.cons_append, Chain] at h ⊢
    exact ⟨h.1, by simpa using ih h.2⟩

/-- appending a chain on `base` retires the tips in `base` and makes its last command a tip -/
theorem isTip_chain {g cs : Graph} {base : List Nat} {l : Cmd} (hw : WF (g ++ cs))
    (hc : Chain base cs) (hl : cs.getLast? = some l) (i : Nat) :
    IsTip (g ++ cs) i ↔ i = l.id ∨ (IsTip g i ∧ i ∉ base) := by
  induction cs generalizing g base with
  | nil => simp at hl
  | cons c rest ih =>
    cases rest with
    | nil =>
      simp only [List.getLast?_singleton, Option.some.injEq] at hl
      subst hl
      rw [isTip_snoc hw, hc.1]
    | cons c' rest' =>
      have hw' : WF ((g ++ [c]) ++ (c' :: rest')) := by simpa using hw
      have hl' : (c' :: rest').getLast? = some l := by
        rw [List.getLast?_cons_cons] at hl; exact hl
      have := ih hw' hc.2 hl'
      rw [show g ++ c :: c' :: rest' = (g ++ [c]) ++ (c' :: rest') by simp, this, isTip_snoc (wf_prefix hw'), hc.1]
      have hcid : c.id ∉ ids g := (wf_prefix hw').snoc_inv.2.1
      constructor
      · rintro (h | ⟨h | ⟨h, hb⟩, hn⟩)
        · exact Or.inl h
        · simp at hn; exact absurd h hn
        · exact Or.inr ⟨h, hb⟩
      · rintro (h | ⟨h, hb⟩)
        · exact Or.inl h
        · refine Or.inr ⟨Or.inr ⟨h, hb⟩, ?_⟩
          simp only [List.mem_singleton]
          rintro rfl
          exact hcid h.1

theorem IsTip.mem {g : Graph} {i : Nat} (h : IsTip g i) : i ∈ ids g := h.1

/-! ## stored command lists -/

@[simp] theorem cmds_append (a b : List SCmd) : cmds (a ++ b) = cmds a ++ cmds b := by simp [cmds]
@[simp] theorem cmds_nil : cmds [] = [] := rfl
@[simp] theorem cmds_cons (a : SCmd) (b : List SCmd) : cmds (a :: b) = a.cmd :: cmds b := rfl

theorem hasId_iff {l : List SCmd} {i : Nat} : hasId l i = true ↔ i ∈ ids (cmds l) := by
  simp [hasId, ids, cmds]

theorem hasId_false_iff {l : List SCmd} {i : Nat} : hasId l i = false ↔ i ∉ ids (cmds l) := by
  rw [← hasId_iff]; simp

theorem stateOf_some_mem {l : List SCmd} {i : Nat} {s : Facts} (h : stateOf l i = some s) :
    i ∈ ids (cmds l) := by
  simp only [stateOf, Option.map_eq_some_iff] at h
  obtain ⟨x, hx, _⟩ := h
  have := List.find?_some hx
  have hm := List.mem_of_find?_eq_some hx
  simp only [ids, cmds, List.map_map, List.mem_map]
  exact ⟨x, hm, by simpa using this⟩

theorem stateOf_none_iff {l : List SCmd} {i : Nat} : stateOf l i = none ↔ i ∉ ids (cmds l) := by
  simp only [stateOf, Option.map_eq_none_iff, List.find?_eq_none, ids, cmds, List.map_map, List.mem_map]
  constructor
  · rintro h ⟨x, hx, e⟩; exact h x hx (by simpa using e)
  · rintro h x hx e; exact h ⟨x, hx, by simpa using e⟩

theorem storedState_some_mem {st : Store} {t : Trx} {i : Nat} {s : Facts}
    (h : storedState st t i = some s) : i ∈ ids (cmds (st.graph ++ t.written)) := by
  unfold storedState at h
  rw [cmds_append, ids_append, List.mem_append]
  split at h
  · rename_i s' hs; exact Or.inl (stateOf_some_mem hs)
  · exact Or.inr (stateOf_some_mem h)

theorem storedState_none {st : Store} {t : Trx} {i : Nat}
    (h : storedState st t i = none) : i ∉ ids (cmds (st.graph ++ t.written)) := by
  unfold storedState at h
  rw [cmds_append, ids_append, List.mem_append]
  split at h
  · simp at h
  · rename_i hs
    rw [stateOf_none_iff] at hs h
    exact fun hh => hh.elim hs h

theorem locate_iff {st : Store} {t : Trx} {i : Nat} :
    locate st t i = true ↔ i ∈ ids (cmds (st.graph ++ t.written)) := by
  simp only [locate, Bool.or_eq_true, hasId_iff, cmds_append, ids_append, List.mem_append]

/-! ## invariants -/

def inflight (t : Trx) : List SCmd :=
  match t.persp with
  | some p => p.cmds
  | none => []

/-- the committed store: a well-formed graph whose head set is exactly its frontier -/
structure StoreInv (st : Store) : Prop where
  wf : WF (cmds st.graph)
  heads : ∀ i, i ∈ st.heads ↔ IsTip (cmds st.graph) i
  sorted : st.heads.Pairwise (· < ·)
  nonempty : st.graph ≠ []

/-- shape of the in-flight perspective between two calls -/
def PerspOK (t : Trx) : Prop :=
  match t.persp with
  | none => t.phead = none ∧ t.pbase = []
  | some p => ∃ last, p.cmds.getLast? = some last ∧ t.phead = some last.cmd.id ∧
      Chain p.prior (cmds p.cmds) ∧ p.facts = last.st ∧
      (∀ i ∈ t.pbase, i ∈ p.prior) ∧ (∀ i ∈ p.prior, i ∉ t.heads)

/-- a transaction that has read the current head set: `heads ∪ pbase` is the frontier of what is
committed or written, the whole view is well formed, the perspective is a chain on its prior -/
structure TrxInv (st : Store) (t : Trx) : Prop where
  wf : WF (cmds (st.graph ++ t.written ++ inflight t))
  heads : ∀ i, (i ∈ t.heads ∨ i ∈ t.pbase) ↔ IsTip (cmds (st.graph ++ t.written)) i
  sorted : t.heads.Pairwise (· < ·)
  persp : PerspOK t

theorem PerspOK.flushErr {t : Trx} (h : PerspOK t) : flushErr t = false := by
  unfold PerspOK at h
  unfold Trx.flushErr
  split
  · rename_i p hp
    rw [hp] at h
    obtain ⟨last, hl, _⟩ := h
    cases hc : p.cmds with
    | nil => rw [hc] at hl; simp at hl
    | cons a b => rfl
  · rfl

theorem getLast?_cmds {l : List SCmd} {x : SCmd} (h : l.getLast? = some x) :
    (cmds l).getLast? = some x.cmd := by
  obtain ⟨ys, rfl⟩ := List.getLast?_eq_some_iff.mp h
  simp

/-- `flush` keeps the invariant and leaves no perspective in flight -/
theorem flushT_inv {st : Store} {t : Trx} (h : TrxInv st t) :
    TrxInv st (flushT t) ∧ (flushT t).persp = none ∧ (flushT t).phead = none ∧ (flushT t).pbase = [] ∧
      (flushT t).written = t.written ++ inflight t ∧ (flushT t).offset = t.offset := by
  have hp := h.persp
  unfold PerspOK at hp
  cases hpe : t.persp with
  | none =>
    rw [hpe] at hp
    have : flushT t = t := by simp [flushT, hpe]
    rw [this]
    exact ⟨h, hpe, hp.1, hp.2, by simp [inflight, hpe], rfl⟩
  | some p =>
    rw [hpe] at hp
    obtain ⟨last, hl, hph, hch, hf, hpa, hpb⟩ := hp
    have hfl : flushT t = { t with persp := none, phead := none, pbase := [], written := t.written ++ p.cmds, heads := hsPush t.heads last.cmd.id } := by
      simp [flushT, hpe, hl]
    rw [hfl]
    have hw := h.wf
    simp only [inflight, hpe] at hw
    refine ⟨⟨?_, ?_, ?_, ?_⟩, rfl, rfl, rfl, by simp [inflight, hpe], rfl⟩
    · simpa [inflight, List.append_assoc] using hw
    · intro i
      simp only [List.not_mem_nil, or_false]
      have hw' : WF (cmds (st.graph ++ t.written) ++ cmds p.cmds) := by simpa using hw
      have := isTip_chain hw' hch (getLast?_cmds hl) i
      rw [show cmds (st.graph ++ (t.written ++ p.cmds)) = cmds (st.graph ++ t.written) ++ cmds p.cmds by simp,
        this, mem_hsPush, ← h.heads]
      constructor
      · rintro (e | e)
        · exact Or.inl e
        · exact Or.inr ⟨Or.inl e, fun hh => hpb i hh e⟩
      · rintro (e | ⟨e | e, hn⟩)
        · exact Or.inl e
        · exact Or.inr e
        · exact absurd (hpa i e) hn
    · exact hsPush_sorted h.sorted
    · simp [PerspOK]

theorem chain_snoc' {base : List Nat} {cs : Graph} {c : Cmd} (h : Chain base cs)
    (hc : c.parents = (match cs.getLast? with | none => base | some l => [l.id])) :
    Chain base (cs ++ [c]) := by
  induction cs generalizing base with
  | nil => simp only [List.getLast?_nil] at hc; simp [Chain, hc]
  | cons x xs ih =>
    simp only [List.cons_append, Chain] at h ⊢
    refine ⟨h.1, ih h.2 ?_⟩
    cases xs with
    | nil => simpa using hc
    | cons y ys => rw [List.getLast?_cons_cons] at hc; exact hc

/-! ## what the transaction has accepted, and the view it works on -/

def accepted (t : Trx) : List SCmd := t.written ++ inflight t
def view (st : Store) (t : Trx) : List SCmd := st.graph ++ t.written ++ inflight t

theorem view_eq (st : Store) (t : Trx) : view st t = st.graph ++ accepted t := by
  simp [view, accepted]

theorem stateOf_cons (x : SCmd) (l : List SCmd) (i : Nat) :
    stateOf (x :: l) i = if x.cmd.id = i then some x.st else stateOf l i := by
  simp only [stateOf, List.find?_cons]
  by_cases h : x.cmd.id = i
  · simp [h]
  · have : (x.cmd.id == i) = false := by simpa using h
    simp [this, h]

theorem stateOf_append (a b : List SCmd) (i : Nat) :
    stateOf (a ++ b) i = match stateOf a i with
      | some s => some s
      | none => stateOf b i := by
  induction a with
  | nil => simp [stateOf]
  | cons x xs ih =>
    simp only [List.cons_append, stateOf_cons]
    by_cases h : x.cmd.id = i <;> simp [h, ih]

theorem stateOf_mem {l : List SCmd} (hn : (ids (cmds l)).Nodup) {x : SCmd} (hx : x ∈ l) :
    stateOf l x.cmd.id = some x.st := by
  induction l with
  | nil => simp at hx
  | cons y ys ih =>
    rw [stateOf_cons]
    have hn' : y.cmd.id ∉ ids (cmds ys) ∧ (ids (cmds ys)).Nodup := by
      simpa [ids, cmds] using hn
    rcases List.mem_cons.mp hx with rfl | hx
    · simp
    · have : y.cmd.id ≠ x.cmd.id := by
        intro e
        apply hn'.1
        rw [e]
        simp only [ids, cmds, List.map_map, List.mem_map]
        exact ⟨x, hx, rfl⟩
      simp [this, ih hn'.2 hx]

theorem storedState_eq (st : Store) (t : Trx) (i : Nat) :
    storedState st t i = stateOf (st.graph ++ t.written) i := by
  rw [stateOf_append]; rfl

theorem restore_heads {hs : List Nat} (h : hs.Pairwise (· < ·)) (p : Nat) :
    (if hs.contains p then [p] else []).foldl hsPush (hs.erase p) = hs := by
  apply sorted_ext (foldl_hsPush_pairwise _ _ (erase_sorted p h)) h
  intro a
  rw [mem_foldl_hsPush, (sorted_nodup h).mem_erase_iff]
  by_cases hp : p ∈ hs
  · simp [hp]; grind
  · have : hs.contains p = false := by simpa using hp
    simp [this]; grind

theorem restore_heads2 {hs : List Nat} (h : hs.Pairwise (· < ·)) (l r : Nat) (a : Nat) :
    (a ∈ (hs.erase l).erase r ∨ a ∈ [l, r].filter (hs.contains ·)) ↔ a ∈ hs := by
  rw [(sorted_nodup (erase_sorted l h)).mem_erase_iff, (sorted_nodup h).mem_erase_iff]
  simp only [List.mem_filter, List.mem_cons, List.not_mem_nil, or_false, List.contains_iff_mem]
  grind

theorem TrxInv.view_flush {st : Store} {t : Trx} (h : TrxInv st t) :
    view st (flushT t) = view st t ∧ accepted (flushT t) = accepted t := by
  obtain ⟨_, hp, _, _, hw, _⟩ := flushT_inv h
  simp [view, accepted, inflight, hp, hw, List.append_assoc]

theorem TrxInv.nodup {st : Store} {t : Trx} (h : TrxInv st t) : (ids (cmds (view st t))).Nodup :=
  h.wf.nodup

/-- `add_single` on a transaction satisfying the invariant, for a command `c` whose only parent
is `p` and whose id is not in the view: the invariant is kept and the outcome is decided by the
fact state stored at `p` — missing → `NoSuchParent`; rule accepts → `c` is appended to the accepted
commands with the rule's facts and the sink window is committed; rule rejects → nothing but a
possible `flush` happened and the sink window is rolled back. -/
theorem addSingle_spec {st : Store} {t : Trx} (sink : List SinkEv) {c : Cmd} {p : Nat}
    (h : TrxInv st t) (hc : c.parents = [p]) (hfresh : c.id ∉ ids (cmds (view st t))) :
    TrxInv st (addSingle st t sink c p).1 ∧ (addSingle st t sink c p).1.offset = t.offset ∧
    (match stateOf (view st t) p with
     | none => (addSingle st t sink c p) = (flushT t, sink, some .noSuchParent)
     | some s =>
       if (rule c s).2.1 = true then
         (addSingle st t sink c p).2.2 = none ∧
         accepted (addSingle st t sink c p).1 = accepted t ++ [⟨c, (rule c s).1⟩] ∧
         (addSingle st t sink c p).2.1 = sink ++ ([SinkEv.begin] ++ consumes c.id (rule c s).2.2) ++ [SinkEv.commit]
       else
         (addSingle st t sink c p).2.2 = some .rejected ∧
         ((addSingle st t sink c p).1 = t ∨ (addSingle st t sink c p).1 = flushT t) ∧
         (addSingle st t sink c p).2.1 = sink ++ ([SinkEv.begin] ++ consumes c.id (rule c s).2.2) ++ [SinkEv.rollback]) := by
  have hpo := h.persp
  unfold PerspOK at hpo
  by_cases hph : t.phead = some p
  · -- the command extends the in-flight perspective
    cases hpe : t.persp with
    | none => rw [hpe] at hpo; rw [hpo.1] at hph; cases hph
    | some ps =>
      rw [hpe] at hpo
      obtain ⟨last, hl, hph', hch, hf, hpa, hpb⟩ := hpo
      have hlp : last.cmd.id = p := by rw [hph'] at hph; exact Option.some.inj hph
      have hadd : addSingle st t sink c p = evalSingle t ps false sink c := by
        simp [addSingle, hph, hpe]
      rw [hadd]
      obtain ⟨ys, hys⟩ := List.getLast?_eq_some_iff.mp hl
      have hview : view st t = st.graph ++ t.written ++ ps.cmds := by simp [view, inflight, hpe]
      have hst : stateOf (view st t) p = some last.st := by
        rw [← hlp]
        apply stateOf_mem h.nodup
        rw [hview, hys]; simp
      rw [hst]
      simp only
      rw [← hf]
      unfold evalSingle
      by_cases hr : (rule c ps.facts).2.1 = true
      · simp only [hr, if_true]
        refine ⟨⟨?_, ?_, h.sorted, ?_⟩, ?_⟩
        rotate_left 3
        · simp [accepted, inflight, hpe, List.append_assoc]
        · -- well-formedness of the extended view
          have : cmds (st.graph ++ t.written ++ (ps.cmds ++ [⟨c, (rule c ps.facts).1⟩])) = cmds (view st t) ++ [c] := by
            rw [hview]; simp
          simp only [inflight]
          rw [this]
          refine WF.snoc h.wf hfresh ?_ (by simp [hc]) (by simp [hc])
          intro q hq
          rw [hc] at hq
          have : q = last.cmd.id := by rw [hlp]; simpa using hq
          subst this
          rw [hview, hys]
          simp [ids, cmds]
        · exact h.heads
        · simp only [PerspOK]
          refine ⟨⟨c, (rule c ps.facts).1⟩, by simp, rfl, ?_, rfl, hpa, hpb⟩
          simp only [cmds_append, cmds_cons, cmds_nil]
          apply chain_snoc' hch
          rw [getLast?_cmds hl, hc]
          simp [hlp]
      · simp only [hr]
        refine ⟨h, ?_⟩
        simp [List.append_assoc]
  · -- a new perspective is opened on `p`
    obtain ⟨h1, hp1, hph1, hpb1, hw1, ho1⟩ := flushT_inv h
    obtain ⟨hv1, ha1⟩ := h.view_flush
    have hview1 : view st (flushT t) = st.graph ++ (flushT t).written := by simp [view, inflight, hp1]
    have hss : storedState st (flushT t) p = stateOf (view st t) p := by
      rw [storedState_eq, ← hview1, hv1]
    cases hs : stateOf (view st t) p with
    | none =>
      have hadd : addSingle st t sink c p = (flushT t, sink, some .noSuchParent) := by
        simp [addSingle, hph, h.persp.flushErr, hss, hs]
      rw [hadd]
      exact ⟨h1, ho1, rfl⟩
    | some s =>
      have hadd : addSingle st t sink c p =
          evalSingle { flushT t with persp := some { prior := [p], cmds := [], facts := s }, phead := some p, heads := (flushT t).heads.erase p, pbase := if (flushT t).heads.contains p then [p] else [] }
            { prior := [p], cmds := [], facts := s } true sink c := by
        simp [addSingle, hph, h.persp.flushErr, hss, hs]
      rw [hadd]
      unfold evalSingle
      simp only
      have hpin : p ∈ ids (cmds (st.graph ++ (flushT t).written)) := by
        rw [← hview1, hv1]
        exact stateOf_some_mem hs
      by_cases hr : (rule c s).2.1 = true
      · simp only [hr, if_true]
        refine ⟨⟨?_, ?_, erase_sorted p h1.sorted, ?_⟩, ho1, ?_⟩
        rotate_left 3
        · simp [accepted, inflight, hw1, List.append_assoc]
        · simp only [inflight, List.nil_append]
          have : cmds (st.graph ++ (flushT t).written ++ [⟨c, (rule c s).1⟩]) = cmds (view st t) ++ [c] := by
            rw [← hv1, hview1]; simp
          rw [this]
          refine WF.snoc h.wf hfresh ?_ (by simp [hc]) (by simp [hc])
          intro q hq
          rw [hc] at hq
          have : q = p := by simpa using hq
          subst this
          rw [← hv1, hview1]; exact hpin
        · intro i
          simp only
          rw [← h1.heads i, hpb1, (sorted_nodup h1.sorted).mem_erase_iff]
          by_cases hp : p ∈ (flushT t).heads
          · simp [hp]; grind
          · have : (flushT t).heads.contains p = false := by simpa using hp
            simp [this]; grind
        · simp only [PerspOK, List.nil_append]
          refine ⟨⟨c, (rule c s).1⟩, by simp, rfl, by simp [Chain, hc], rfl, ?_, ?_⟩
          · intro i hi
            by_cases hp : (flushT t).heads.contains p = true <;> simp_all
          · intro i hi
            have : i = p := by simpa using hi
            subst this
            rw [(sorted_nodup h1.sorted).mem_erase_iff]
            simp
      · simp only [hr]
        have hback : ({ flushT t with persp := none, phead := none, heads := (if (flushT t).heads.contains p then [p] else []).foldl hsPush ((flushT t).heads.erase p), pbase := [] } : Trx) = flushT t := by
          rw [restore_heads h1.sorted]
          cases hft : flushT t
          rw [hft] at hp1 hph1 hpb1
          simp only at hp1 hph1 hpb1
          subst hp1 hph1 hpb1
          rfl
        simp only [Bool.false_eq_true, if_false, if_true]
        rw [hback]
        refine ⟨h1, ho1, ?_⟩
        simp [List.append_assoc]

theorem viewOf_eq {st : Store} {t : Trx} (hn : (ids (cmds (st.graph ++ t.written))).Nodup) :
    viewOf st t = st.graph ++ t.written := by
  unfold viewOf
  congr 1
  rw [List.filter_eq_self]
  intro x hx
  simp only [Bool.not_eq_eq_eq_not, Bool.not_true, hasId_false_iff]
  intro hm
  rw [cmds_append, ids_append] at hn
  have := (List.nodup_append.mp hn).2.2 x.cmd.id hm x.cmd.id (by
    simp only [ids, cmds, List.map_map, List.mem_map]; exact ⟨x, hx, rfl⟩)
  exact this rfl

/-- `add_merge` on a transaction satisfying the invariant, for a merge command `c` of `l` and `r`
whose id is not in the view -/
theorem addMerge_spec {st : Store} {t : Trx} (sink : List SinkEv) {c : Cmd} {l r : Nat}
    (h : TrxInv st t) (hc : c.parents = [l, r]) (hfresh : c.id ∉ ids (cmds (view st t))) :
    TrxInv st (addMerge st t sink c l r).1 ∧ (addMerge st t sink c l r).1.offset = t.offset ∧
    (if l ∉ ids (cmds (view st t)) ∨ r ∉ ids (cmds (view st t)) then
       addMerge st t sink c l r = (flushT t, sink, some .noSuchParent)
     else if l = r then addMerge st t sink c l r = (flushT t, sink, some .malformed)
     else match braidFacts (view st t) [l, r] with
       | .error e => addMerge st t sink c l r = (flushT t, sink, some e)
       | .ok (s, fx) =>
         (addMerge st t sink c l r).2.2 = none ∧
         accepted (addMerge st t sink c l r).1 = accepted t ++ [⟨c, s⟩] ∧
         (addMerge st t sink c l r).2.1 = sink ++ braidEvs fx) := by
  obtain ⟨h1, hp1, hph1, hpb1, hw1, ho1⟩ := flushT_inv h
  obtain ⟨hv1, ha1⟩ := h.view_flush
  have hview1 : view st (flushT t) = st.graph ++ (flushT t).written := by simp [view, inflight, hp1]
  have hnd : (ids (cmds (st.graph ++ (flushT t).written))).Nodup := by
    rw [← hview1, hv1]; exact h.nodup
  have hvo : viewOf st (flushT t) = view st t := by rw [viewOf_eq hnd, ← hview1, hv1]
  have hloc : ∀ i, locate st (flushT t) i = true ↔ i ∈ ids (cmds (view st t)) := by
    intro i; rw [locate_iff, ← hview1, hv1]
  have hfe := h.persp.flushErr
  by_cases hl : l ∈ ids (cmds (view st t))
  case neg =>
    have : locate st (flushT t) l = false := by
      cases hb : locate st (flushT t) l with
      | false => rfl
      | true => exact absurd ((hloc l).mp hb) hl
    have hadd : addMerge st t sink c l r = (flushT t, sink, some .noSuchParent) := by
      simp [addMerge, hfe, this]
    rw [hadd]
    refine ⟨h1, ho1, ?_⟩
    simp [hl]
  by_cases hr : r ∈ ids (cmds (view st t))
  case neg =>
    have h1l : locate st (flushT t) l = true := (hloc l).mpr hl
    have : locate st (flushT t) r = false := by
      cases hb : locate st (flushT t) r with
      | false => rfl
      | true => exact absurd ((hloc r).mp hb) hr
    have hadd : addMerge st t sink c l r = (flushT t, sink, some .noSuchParent) := by
      simp [addMerge, hfe, this, h1l]
    rw [hadd]
    refine ⟨h1, ho1, ?_⟩
    simp [hr]
  have h1l : locate st (flushT t) l = true := (hloc l).mpr hl
  have h1r : locate st (flushT t) r = true := (hloc r).mpr hr
  by_cases hlr : l = r
  · have hadd : addMerge st t sink c l r = (flushT t, sink, some .malformed) := by
      simp [addMerge, hfe, h1r, hlr]
    rw [hadd]
    refine ⟨h1, ho1, ?_⟩
    simp [hl, hr, hlr]
  simp only [hl, hr, not_true_eq_false, or_self, if_false, hlr]
  cases hb : braidFacts (view st t) [l, r] with
  | error e =>
    have hadd : addMerge st t sink c l r = (flushT t, sink, some e) := by
      simp [addMerge, hfe, h1l, h1r, hlr, hvo, hb]
    rw [hadd]
    exact ⟨h1, ho1, rfl⟩
  | ok sf =>
    obtain ⟨s, fx⟩ := sf
    have hadd : addMerge st t sink c l r =
        ({ flushT t with persp := some { prior := [l, r], cmds := [⟨c, s⟩], facts := s }, phead := some c.id, heads := ((flushT t).heads.erase l).erase r, pbase := [l, r].filter ((flushT t).heads.contains ·) }, sink ++ braidEvs fx, none) := by
      simp [addMerge, hfe, h1l, h1r, hlr, hvo, hb]
    rw [hadd]
    refine ⟨⟨?_, ?_, erase_sorted r (erase_sorted l h1.sorted), ?_⟩, ho1, rfl, ?_, rfl⟩
    · simp only [inflight]
      have : cmds (st.graph ++ (flushT t).written ++ [⟨c, s⟩]) = cmds (view st t) ++ [c] := by
        rw [← hv1, hview1]; simp
      rw [this]
      refine WF.snoc h.wf hfresh ?_ (by simp [hc]) (by simp [hc, hlr])
      intro q hq
      rw [hc] at hq
      simp only [List.mem_cons, List.not_mem_nil, or_false] at hq
      rcases hq with rfl | rfl
      · exact hl
      · exact hr
    · intro i
      simp only
      rw [restore_heads2 h1.sorted, ← h1.heads i, hpb1]
      simp
    · simp only [PerspOK]
      refine ⟨⟨c, s⟩, by simp, rfl, by simp [Chain, hc], rfl, ?_, ?_⟩
      · intro i hi
        simp only [List.mem_filter] at hi
        exact hi.1
      · intro i hi
        rw [(sorted_nodup (erase_sorted l h1.sorted)).mem_erase_iff, (sorted_nodup h1.sorted).mem_erase_iff]
        simp only [List.mem_cons, List.not_mem_nil, or_false] at hi
        grind
    · simp [accepted, inflight, hw1, List.append_assoc]

/-! ## reference semantics of delivery (no perspectives, no tips, no flushes) -/

/-- deliver one command to a graph of stored commands: duplicates and a repeated init are
skipped; a command is appended — with the facts its rule (or, for a merge, the braid) produces
on the state stored at its parent — iff its parents are present and the rule accepts -/
def refAdd (gid : Nat) (g : List SCmd) (i : In) : List SCmd × Option Err :=
  if hasId g i.cmd.id then (g, none)
  else
    match i.cmd.parents with
    | [] => if i.cmd.id = gid then (g, none) else (g, some .initError)
    | [p] =>
      match stateOf g p with
      | none => (g, some .noSuchParent)
      | some s =>
        if (rule i.cmd s).2.1 = true then (g ++ [⟨i.cmd, (rule i.cmd s).1⟩], none) else (g, some .rejected)
    | [l, r] =>
      if l ∉ ids (cmds g) ∨ r ∉ ids (cmds g) then (g, some .noSuchParent)
      else if l = r then (g, some .malformed)
      else
        match braidFacts g [l, r] with
        | .error e => (g, some e)
        | .ok (s, _) => (g ++ [⟨i.cmd, s⟩], none)
    | _ => (g, some .malformed)

/-- deliver a batch: stop at the first refused command; count the commands that were appended -/
def refBatch (gid : Nat) : List SCmd → List In → Nat → List SCmd × Except Err Nat
  | g, [], n => (g, .ok n)
  | g, i :: rest, n =>
    match refAdd gid g i with
    | (g', none) => refBatch gid g' rest (n + (g'.length - g.length))
    | (g', some e) => (g', .error e)

theorem dup_iff {st : Store} {t : Trx} (i : Nat) :
    (perspIncludes t i || locate st t i) = hasId (view st t) i := by
  simp only [perspIncludes, locate, view, inflight, hasId, List.any_append]
  cases t.persp <;> simp [Bool.or_comm]

/-- the loop of `add_commands` refines the reference delivery of the batch to the view -/
theorem addLoop_refines (gid : Nat) {st : Store} (batch : List In) :
    ∀ {t : Trx} (sink : List SinkEv) (n : Nat), TrxInv st t →
    TrxInv st (addLoop gid st t sink batch n).1 ∧ (addLoop gid st t sink batch n).1.offset = t.offset ∧
    view st (addLoop gid st t sink batch n).1 = (refBatch gid (view st t) batch n).1 ∧
    (addLoop gid st t sink batch n).2.2 = (refBatch gid (view st t) batch n).2 := by
  induction batch with
  | nil => intro t sink n h; exact ⟨h, rfl, rfl, rfl⟩
  | cons i rest ih =>
    intro t sink n h
    unfold addLoop refBatch refAdd
    rw [dup_iff]
    cases hd : hasId (view st t) i.cmd.id with
    | true => simpa using ih sink n h
    | false =>
      have hfresh : i.cmd.id ∉ ids (cmds (view st t)) := hasId_false_iff.mp hd
      simp only [Bool.false_eq_true, if_false]
      match hpar : i.cmd.parents with
      | [] =>
        by_cases hg : i.cmd.id = gid
        · simpa [hg] using ih sink n h
        · simp only [hg, if_false]; exact ⟨h, (by first | rfl | trivial), (by first | rfl | trivial), (by first | rfl | trivial)⟩
      | [p] =>
        obtain ⟨hinv, hoff, hsp⟩ := addSingle_spec sink h hpar hfresh
        simp only
        cases hs : stateOf (view st t) p with
        | none =>
          rw [hs] at hsp
          simp only at hsp
          rw [hsp]
          simp only
          exact ⟨(flushT_inv h).1, (flushT_inv h).2.2.2.2.2, h.view_flush.1, (by first | rfl | trivial)⟩
        | some s =>
          rw [hs] at hsp
          simp only at hsp
          by_cases hr : (rule i.cmd s).2.1 = true
          · simp only [hr, if_true] at hsp ⊢
            obtain ⟨he, hacc, _⟩ := hsp
            rcases hres : addSingle st t sink i.cmd p with ⟨t', sink', e⟩
            rw [hres] at he hacc hinv hoff
            simp only at he hacc hinv hoff
            subst he
            simp only
            have hv' : view st t' = view st t ++ [⟨i.cmd, (rule i.cmd s).1⟩] := by
              rw [view_eq, hacc, view_eq]; simp
            have := ih sink' (n + 1) hinv
            rw [hv'] at this
            refine ⟨this.1, by rw [this.2.1, hoff], ?_, ?_⟩
            · rw [this.2.2.1]; simp
            · rw [this.2.2.2]; simp
          · simp only [hr] at hsp ⊢
            obtain ⟨he, hcase, _⟩ := hsp
            rcases hres : addSingle st t sink i.cmd p with ⟨t', sink', e⟩
            rw [hres] at he hcase hinv hoff
            simp only at he hcase hinv hoff
            subst he
            simp only [Bool.false_eq_true, if_false]
            refine ⟨hinv, hoff, ?_, (by first | rfl | trivial)⟩
            rcases hcase with rfl | rfl
            · rfl
            · exact h.view_flush.1
      | [l, r] =>
        obtain ⟨hinv, hoff, hsp⟩ := addMerge_spec sink h hpar hfresh
        simp only
        by_cases hlr : l ∉ ids (cmds (view st t)) ∨ r ∉ ids (cmds (view st t))
        · simp only [hlr, if_true] at hsp ⊢
          rw [hsp]
          exact ⟨(flushT_inv h).1, (flushT_inv h).2.2.2.2.2, h.view_flush.1, rfl⟩
        · simp only [hlr, if_false] at hsp ⊢
          by_cases heq : l = r
          · simp only [heq, if_true] at hsp ⊢
            rw [hsp]
            exact ⟨(flushT_inv h).1, (flushT_inv h).2.2.2.2.2, h.view_flush.1, rfl⟩
          · simp only [heq, if_false] at hsp ⊢
            cases hb : braidFacts (view st t) [l, r] with
            | error e =>
              rw [hb] at hsp
              simp only at hsp
              rw [hsp]
              exact ⟨(flushT_inv h).1, (flushT_inv h).2.2.2.2.2, h.view_flush.1, rfl⟩
            | ok sf =>
              obtain ⟨s, fx⟩ := sf
              rw [hb] at hsp
              simp only at hsp
              obtain ⟨he, hacc, _⟩ := hsp
              rcases hres : addMerge st t sink i.cmd l r with ⟨t', sink', e⟩
              rw [hres] at he hacc hinv hoff
              simp only at he hacc hinv hoff
              subst he
              simp only
              have hv' : view st t' = view st t ++ [⟨i.cmd, s⟩] := by
                rw [view_eq, hacc, view_eq]; simp
              have := ih sink' (n + 1) hinv
              rw [hv'] at this
              refine ⟨this.1, by rw [this.2.1, hoff], ?_, ?_⟩
              · rw [this.2.2.1]; simp
              · rw [this.2.2.2]; simp
      | _ :: _ :: _ :: _ => exact ⟨h, rfl, rfl, rfl⟩

/-! ## `original_heads_offset` is written once -/

theorem flushT_offset (t : Trx) : (flushT t).offset = t.offset := by
  unfold flushT; split
  · rfl
  · split <;> rfl

theorem evalSingle_offset (t : Trx) (ps : Persp) (f : Bool) (sink : List SinkEv) (c : Cmd) :
    (evalSingle t ps f sink c).1.offset = t.offset := by
  unfold evalSingle
  simp only
  split
  · rfl
  · split <;> rfl

theorem addSingle_offset (st : Store) (t : Trx) (sink : List SinkEv) (c : Cmd) (p : Nat) :
    (addSingle st t sink c p).1.offset = t.offset := by
  unfold addSingle
  split
  · split
    · rfl
    · exact evalSingle_offset _ _ _ _ _
  · split
    · exact flushT_offset t
    · simp only
      split
      · exact flushT_offset t
      · rw [evalSingle_offset]; exact flushT_offset t

theorem addMerge_offset (st : Store) (t : Trx) (sink : List SinkEv) (c : Cmd) (l r : Nat) :
    (addMerge st t sink c l r).1.offset = t.offset := by
  unfold addMerge
  split
  · exact flushT_offset t
  · simp only
    split
    · exact flushT_offset t
    · split
      · exact flushT_offset t
      · split
        · exact flushT_offset t
        · split
          · exact flushT_offset t
          · exact flushT_offset t

theorem addLoop_offset (gid : Nat) (st : Store) (batch : List In) :
    ∀ (t : Trx) (sink : List SinkEv) (n : Nat), (addLoop gid st t sink batch n).1.offset = t.offset := by
  induction batch with
  | nil => intro t sink n; rfl
  | cons i rest ih =>
    intro t sink n
    unfold addLoop
    split
    · exact ih _ _ _
    · split
      · split
        · exact ih _ _ _
        · rfl
      · rename_i p _
        have := addSingle_offset st t sink i.cmd p
        split
        · rename_i t' sink' heq
          rw [ih]; rw [heq] at this; exact this
        · rename_i t' sink' e heq
          rw [heq] at this; exact this
      · rename_i l r _
        have := addMerge_offset st t sink i.cmd l r
        split
        · rename_i t' sink' heq
          rw [ih]; rw [heq] at this; exact this
        · rename_i t' sink' e heq
          rw [heq] at this; exact this
      · rfl

/-! ## first use of a transaction -/

theorem snapshot_inv {st : Store} (hs : StoreInv st) :
    TrxInv st (snapshot st {}) ∧ (snapshot st {}).offset = some st.stamp ∧ view st (snapshot st {}) = st.graph := by
  have hh : st.heads.foldl hsPush [] = st.heads := by
    simpa using foldl_hsPush_sorted [] st.heads (by simpa using hs.sorted)
  have : snapshot st {} = { heads := st.heads, offset := some st.stamp } := by
    simp [snapshot, hh]
  rw [this]
  refine ⟨⟨?_, ?_, hs.sorted, ?_⟩, rfl, ?_⟩
  · simpa [inflight] using hs.wf
  · intro i; simpa using hs.heads i
  · simp [PerspOK]
  · simp [view, inflight]

theorem snapshot_some {st : Store} {t : Trx} {o : Nat} (h : t.offset = some o) : snapshot st t = t := by
  simp [snapshot, h]

end AranyaV.Trx
