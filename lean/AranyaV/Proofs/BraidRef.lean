import AranyaV.Proofs.BraidInv
/-!
# Proofs.BraidRef — what `refBraid` returns

From the invariant of `Proofs.BraidInv`: the initial state satisfies it for an antichain of heads;
at the end the unprocessed part of the region is exactly the start's ancestors-or-self;
`refBraid` never reports `malformed`.
-/
namespace AranyaV.Spec
open AranyaV.Gen

/-- no head is a proper ancestor of another head -/
def Antichain (g : Graph) (hs : List Nat) : Prop := ∀ a ∈ hs, ∀ b ∈ hs, anc g a b = false

/-- a legal head set: non-empty, duplicate free, known ids, pairwise incomparable -/
structure Heads (g : Graph) (hs : List Nat) : Prop where
  ne : hs ≠ []
  nodup : hs.Nodup
  sub : ∀ x ∈ hs, x ∈ ids g
  anti : Antichain g hs

theorem Antichain.not_reach {g : Graph} (hw : WF g) {hs : List Nat} (h : Antichain g hs) {a b : Nat}
    (ha : a ∈ hs) (hb : b ∈ hs) (hne : a ≠ b) : ¬ Reach g a b := by
  intro hr
  have := h a ha b hb
  have h2 := (anc_iff hw a b).mpr ⟨hne, hr⟩
  rw [this] at h2; cases h2

theorem init_inv {g : Graph} (hw : WF g) {hs : List Nat} (hh : Heads g hs) (a : List Nat)
    (ha : addAvail g [] hs = .ok a) :
    Inv g (ancSelfAll g hs) { processed := [], avail := a, out := [] } := by
  obtain ⟨ea, hone⟩ := addAvail_ok _ _ _ ha
  simp only [List.nil_append] at ea
  subst ea
  have hR := region_ancSelfAll hw hh.sub
  refine
    { pSub := by simp, pNodup := by simp, aNodup := hh.nodup, aIff := ?_, closed := by simp,
      outEq := by simp, order := by simp, oneFin := hone (by intro x hx; simp at hx),
      noFinP := by simp, aNe := hh.ne }
  intro x
  simp only [List.not_mem_nil, not_false_eq_true, true_and]
  constructor
  · intro hx
    refine ⟨(mem_ancSelfAll hw _ _).mpr ⟨x, hx, Reach.refl _⟩, ?_⟩
    intro y hy hp
    exfalso
    obtain ⟨b, hb, hr⟩ := (mem_ancSelfAll hw _ _).mp hy
    have hxb : Reach g x b := Reach.head hp hr
    by_cases e : x = b
    · subst e; exact hp.not_reach_back hw hr
    · exact hh.anti.not_reach hw hx hb e hxb
  · rintro ⟨hx, hch⟩
    obtain ⟨b, hb, hr⟩ := (mem_ancSelfAll hw _ _).mp hx
    rcases hr.cases_head with e | ⟨m, hpm, hrm⟩
    · subst e; exact hb
    · exact absurd (hch m ((mem_ancSelfAll hw _ _).mpr ⟨b, hb, hrm⟩) hpm) (by simp)

/-- the specification of `refBraid` in terms of the invariant -/
theorem refBraid_spec {g : Graph} (hw : WF g) {hs : List Nat} (hh : Heads g hs) :
    match refBraid g hs with
    | .ok (x, o) => ∃ s', Inv g (ancSelfAll g hs) s' ∧ s'.avail = [x] ∧ s'.out = o
    | .error .parallelFinalize =>
        ∃ f1 ∈ ancSelfAll g hs, ∃ f2 ∈ ancSelfAll g hs, f1 ≠ f2 ∧ isFinalize g f1 = true ∧
          isFinalize g f2 = true ∧ ¬ Reach g f1 f2 ∧ ¬ Reach g f2 f1
    | .error .malformed => False := by
  unfold refBraid
  cases ha : addAvail g [] hs with
  | error e =>
    simp only
    obtain ⟨ee, f1, hf1, f2, hf2, hne, hfin1, hfin2⟩ := addAvail_err _ _ e (by simpa using hh.nodup) ha
    subst ee
    simp only [List.nil_append] at hf1 hf2
    exact ⟨f1, (mem_ancSelfAll hw _ _).mpr ⟨f1, hf1, Reach.refl _⟩, f2,
      (mem_ancSelfAll hw _ _).mpr ⟨f2, hf2, Reach.refl _⟩, hne, hfin1, hfin2,
      hh.anti.not_reach hw hf1 hf2 hne, hh.anti.not_reach hw hf2 hf1 (Ne.symm hne)⟩
  | ok a =>
    simp only
    have hi := init_inv hw hh a ha
    have := braidLoop_spec hw (region_ancSelfAll hw hh.sub) (g.length + 1) _ hi (by simp)
    revert this
    cases braidLoop g (ancSelfAll g hs) (g.length + 1) { processed := [], avail := a, out := [] } with
    | ok r =>
      obtain ⟨x, o⟩ := r
      rintro ⟨s', h1, h2, h3, _⟩
      exact ⟨s', h1, h2, h3⟩
    | error e => cases e <;> exact id

/-! ## position in the listing (a well-founded measure for walks towards the heads) -/

theorem Par.idx_lt {g : Graph} (hw : WF g) {a b : Nat} (hp : Par g a b) :
    (ids g).idxOf a < (ids g).idxOf b := by
  induction hw with
  | nil => obtain ⟨d, hd, _⟩ := hp; simp at hd
  | @snoc g c hw h1 h2 h3 h4 ih =>
    have hwf : WF (g ++ [c]) := WF.snoc hw h1 h2 h3 h4
    have hids : ids (g ++ [c]) = ids g ++ [c.id] := by simp [ids]
    rw [hids, List.idxOf_append, List.idxOf_append]
    rcases hp.snoc_cases hwf with ⟨_, hp'⟩ | ⟨e, hm⟩
    · obtain ⟨ha, hb⟩ := hp'.mem_ids hw
      simp only [ha, hb, if_true]
      exact ih hp'
    · subst e
      have ha := h2 _ hm
      simp only [ha, h1, if_true, if_false, List.idxOf_cons_self, Nat.zero_add]
      simpa [ids] using List.idxOf_lt_length_of_mem ha

/-- at the end every unprocessed region command is an ancestor-or-self of the start -/
theorem final_unprocessed {g : Graph} {R : List Nat} {s : BState} (hw : WF g) (hR : Region g R)
    (hi : Inv g R s) {x : Nat} (hx : s.avail = [x]) :
    ∀ u ∈ R, u ∉ s.processed → Reach g u x := by
  have key : ∀ n u, g.length - (ids g).idxOf u ≤ n → u ∈ R → u ∉ s.processed → Reach g u x := by
    intro n
    induction n with
    | zero =>
      intro u hn huR _
      have := List.idxOf_lt_length_of_mem (hR.sub u huR)
      simp [ids] at this hn
      omega
    | succ n ih =>
      intro u hn huR huP
      by_cases e : u = x
      · subst e; exact Reach.refl _
      · have huA : u ∉ s.avail := by rw [hx]; simpa using e
        have : ∃ y, y ∈ R ∧ Par g u y ∧ y ∉ s.processed := by
          apply Classical.byContradiction
          intro hno
          apply huA
          refine (hi.aIff u).mpr ⟨huR, huP, ?_⟩
          intro y hy hp
          apply Classical.byContradiction
          intro hyP
          exact hno ⟨y, hy, hp, hyP⟩
        obtain ⟨y, hyR, hp, hyP⟩ := this
        have hlt := hp.idx_lt hw
        have hylt := List.idxOf_lt_length_of_mem (hR.sub y hyR)
        simp [ids] at hylt
        exact Reach.head hp (ih y (by omega) hyR hyP)
  intro u
  exact key _ u (Nat.le_refl _)

/-- the start and its ancestors are in the region and unprocessed -/
theorem final_start_anc {g : Graph} {R : List Nat} {s : BState} (hR : Region g R)
    (hi : Inv g R s) {x : Nat} (hx : s.avail = [x]) {u : Nat} (hr : Reach g u x) :
    u ∈ R ∧ u ∉ s.processed := by
  have hxA : x ∈ s.avail := by rw [hx]; simp
  obtain ⟨hxR, hxP, _⟩ := (hi.aIff x).mp hxA
  exact ⟨hR.reach hxR hr, fun huP => hxP (hi.closed_reach hR huP hr hxR)⟩

/-- processed = region minus the start's ancestors-or-self -/
theorem final_processed_iff {g : Graph} {R : List Nat} {s : BState} (hw : WF g) (hR : Region g R)
    (hi : Inv g R s) {x : Nat} (hx : s.avail = [x]) (u : Nat) :
    u ∈ s.processed ↔ u ∈ R ∧ ¬ Reach g u x := by
  constructor
  · intro hu
    exact ⟨hi.pSub u hu, fun hr => (final_start_anc hR hi hx hr).2 hu⟩
  · rintro ⟨huR, hnr⟩
    apply Classical.byContradiction
    intro huP
    exact hnr (final_unprocessed hw hR hi hx u huR huP)

theorem ancSelfAll_nodup {g : Graph} (h : WF g) : ∀ hs : List Nat, hs.Nodup → (ancSelfAll g hs).Nodup := by
  induction h with
  | nil => intro hs hnd; simpa [ancSelfAll] using hnd
  | @snoc g c hw h1 h2 h3 h4 ih =>
    intro hs hnd
    rw [ancSelfAll_snoc]
    apply ih
    split
    · rw [List.nodup_append]
      refine ⟨hnd, h4.sublist List.filter_sublist, ?_⟩
      intro a ha b hb e
      subst e
      simp only [List.mem_filter, Bool.not_eq_true', List.contains_eq_mem, decide_eq_false_iff_not] at hb
      exact hb.2 ha
    · exact hnd

end AranyaV.Spec
