import AranyaV.Proofs.CompileStmt
/-!
C22: user function calls — the callee's prologue (`Def` of the parameters last-to-first,
`SaveSP`), its body, `RestoreSP; Return`, and the call instruction itself.
-/
namespace AranyaV.Lang
open AranyaV.Gen.Lang
variable (S : Sim)

/-- a run of `Def` instructions binds the values on top of the stack, first instruction first -/
theorem defs_run {m : Machine} {labels : List (Label × Nat)} :
    ∀ (xs : List (Nat × Val)) (σ : List Val) (envA envB : Env) (frs : List Env) (Kc : List Nat) (pc : Nat) (lg : Log),
      CodeAt labels m.prog pc (xs.map fun x => Instruction.Def x.1) →
      bindParams m.p envA xs = some envB →
      Steps m ⟨xs.map (·.2) ++ σ, envA :: frs, Kc, pc, lg⟩ ⟨σ, envB :: frs, Kc, pc + xs.length, lg⟩
  | [], σ, envA, envB, frs, Kc, pc, lg, _, hb => by
    simp only [bindParams, Option.some.injEq] at hb
    subst hb
    exact Steps.refl _
  | (x, v) :: xs, σ, envA, envB, frs, Kc, pc, lg, hc, hb => by
    simp only [List.map_cons, codeAt_cons, res] at hc
    simp only [bindParams] at hb
    cases h1 : bindVar m.p envA x v with
    | none => rw [h1] at hb; cases hb
    | some env1 =>
      rw [h1] at hb
      have ih := defs_run xs σ env1 envB frs Kc (pc + 1) lg hc.2 hb
      refine (Steps.one (step_def hc.1 h1)).trans ?_
      have : pc + ((x, v) :: xs).length = pc + 1 + xs.length := by simp only [List.length_cons]; omega
      rw [this]
      exact ih

theorem zip_rev_fst {α β} : ∀ (as : List α) (bs : List β), as.length = bs.length →
    ((as.zip bs).reverse.map (·.1)) = as.reverse := by
  intro as bs h
  rw [List.map_reverse, List.map_fst_zip (by omega)]
theorem zip_rev_snd {α β} : ∀ (as : List α) (bs : List β), as.length = bs.length →
    ((as.zip bs).reverse.map (·.2)) = bs.reverse := by
  intro as bs h
  rw [List.map_reverse, List.map_snd_zip (by omega)]

theorem bodySim_succ {n : Nat} (hP : ProgOk S) (ihSs : StmtsSim S n) : BodySim S (n + 1) := by
  intro f vs log σ frs Kc entry hentry
  simp only [evalCall]
  cases hfd : S.m.p.funDef f with
  | none => trivial
  | some fd =>
    dsimp only
    by_cases hlen : fd.params.length ≠ vs.length
    · simp only [hlen, not_false_eq_true, if_true, BodyOutcome, ne_eq]
    · simp only [hlen, if_false]
      have hlen' : fd.params.length = vs.length := by omega
      obtain ⟨wp, c, hl, hcode, hdefs⟩ := hP.funs f fd hfd
      rw [hentry] at hl
      cases hl
      cases hbp : bindParams S.m.p [[]] ((fd.params.map (·.1)).zip vs).reverse with
      | none => trivial
      | some envF =>
        dsimp only
        -- code layout of the function
        have hpro : (((fd.params.map (·.1)).zip vs).reverse.map fun x => (Instruction.Def x.1 : Instr)) =
            (fd.params.reverse.map fun x => (Instruction.Def x.1 : Instr)) := by
          have h0 := zip_rev_fst (fd.params.map (·.1)) vs (by simpa using hlen')
          have h2 : (((fd.params.map (·.1)).zip vs).reverse.map fun x => (Instruction.Def x.1 : Instr)) =
              ((((fd.params.map (·.1)).zip vs).reverse.map (·.1)).map fun x => (Instruction.Def x : Instr)) := by
            simp
          rw [h2, h0]
          simp [List.map_reverse]
        have hplen : (fd.params.reverse.map fun x => (Instruction.Def x.1 : Instr)).length = fd.params.length := by simp
        simp only [compileFun, defsOk_cons, List.length_append, List.length_singleton, hplen] at hdefs
        have hcode' : CodeAt S.labels S.m.prog entry
            ((fd.params.reverse.map fun x => (Instruction.Def x.1 : Instr)) ++ [Instruction.SaveSP] ++
              (compileStmts S.m.p.structs (entry + (fd.params.length + 1)) c fd.body).code ++ [Instruction.Exit .Panic]) := by
          simpa [compileFun, List.append_assoc] using hcode
        rw [codeAt_append, codeAt_append, codeAt_append] at hcode'
        obtain ⟨⟨⟨hcD, hsave⟩, hcB⟩, hexit⟩ := hcode'
        simp only [codeAt_single, res, List.length_append, List.length_singleton, hplen] at hsave hexit hcB
        rw [← hpro] at hcD
        have hstack : vs.reverse = (((fd.params.map (·.1)).zip vs).reverse.map (·.2)) :=
          (zip_rev_snd (fd.params.map (·.1)) vs (by simpa using hlen')).symm
        have pre1 := defs_run (m := S.m) (labels := S.labels) (((fd.params.map (·.1)).zip vs).reverse) σ [[]] envF frs Kc entry log hcD hbp
        rw [← hstack] at pre1
        have hnum2 : (((fd.params.map (·.1)).zip vs).reverse).length = fd.params.length := by simp [hlen']
        rw [hnum2] at pre1
        have pre := pre1.trans (Steps.one (step_saveSP hsave))
        have e1 : entry + (fd.params.length + 1) = entry + fd.params.length + 1 := by omega
        rw [e1] at hcB hdefs hexit
        have hexit' : S.m.prog[entry + fd.params.length + 1 +
            (compileStmts S.m.p.structs (entry + fd.params.length + 1) c fd.body).code.length]? =
            some (Instruction.Exit ExitReason.Panic) := by
          rw [← hexit]; congr 1; omega
        have ihb := ihSs fd.body envF log (entry + fd.params.length + 1) c [] σ frs Kc (hP.sup f fd hfd) hcB hdefs.2
        simp only [stAt, List.nil_append] at ihb
        cases hrb : evalStmts S.m.p n envF log fd.body with
        | val env' l =>
          rw [hrb] at ihb; simp only [Outcome] at ihb
          simp only [BodyOutcome]
          exact ⟨_, ⟨_, pre.trans ihb, step_exit hexit'⟩, rfl⟩
        | ret v l =>
          rw [hrb] at ihb; simp only [Outcome] at ihb
          obtain ⟨envJ, pcR, hst, hret⟩ := ihb
          simp only [BodyOutcome]
          exact ⟨envJ, pcR, pre.trans hst, hret⟩
        | exit r l =>
          rw [hrb] at ihb; simp only [Outcome] at ihb
          obtain ⟨t, hex, hl⟩ := ihb
          exact ⟨t, hex.of_steps pre, hl⟩
        | ffiErr l =>
          rw [hrb] at ihb; simp only [Outcome] at ihb
          exact ErrorsWith.of_steps pre ihb
        | stuck => trivial
        | oof => trivial

theorem isBuiltin_false {f : Nat} (h : isBuiltin f = false) : (builtinInstr f : Option Instr) = none := by
  match f with
  | 0 => simp [isBuiltin, builtinInstr] at h
  | 1 => simp [isBuiltin, builtinInstr] at h
  | 2 => simp [isBuiltin, builtinInstr] at h
  | 3 => simp [isBuiltin, builtinInstr] at h
  | n + 4 => simp [builtinInstr]

theorem evalCall_not_ret (p : Program) (n f : Nat) (vs : List Val) (l : Log) (v : Val) (l' : Log) :
    evalCall p n f vs l ≠ .ret v l' := by
  cases n with
  | zero => simp [evalCall]
  | succ n =>
    simp only [evalCall]
    cases p.funDef f with
    | none => simp
    | some fd =>
      dsimp only
      split
      · simp
      · cases bindParams p [[]] ((fd.params.map (·.1)).zip vs).reverse with
        | none => simp
        | some env =>
          dsimp only
          cases evalStmts p n env l fd.body <;> simp

theorem sim_call {n : Nat} (hP : ProgOk S) (ihA : ArgsSim S n) (ihB : BodySim S n) (f : Nat) (args : List Expr)
    (hb : isBuiltin f = false) : ExprCase S (n + 1) (.call f args) := by
  intro env log wp c junk base fr K hsup hcode hdefs
  simp only [supE] at hsup
  have hi := isBuiltin_false hb
  simp only [compileExpr, hi] at hdefs hcode
  simp only [codeAt_append, codeAt_single] at hcode
  have iha := ihA args env log wp c junk base fr K hsup hcode.1 hdefs
  simp only [evalExpr, compileExpr, hi, hb, Bool.false_eq_true, if_false]
  cases hra : evalArgs S.m.p n env log args with
  | val vs l =>
    rw [hra] at iha; simp only [Outcome] at iha
    dsimp only
    cases n with
    | zero => simp [evalCall, Outcome]
    | succ n' =>
      cases hfd : S.m.p.funDef f with
      | none => simp [evalCall, hfd, Outcome]
      | some fd =>
        obtain ⟨entry, c', hl, _, _⟩ := hP.funs f fd hfd
        have hcall : S.m.prog[wp + (compileArgs S.m.p.structs wp c args).code.length]? =
            some (Instruction.Call (Target.Resolved entry)) := by
          have := hcode.2
          simpa [res, resT, hl] using this
        have ihb := ihB f vs l (junk ++ base) (env :: fr)
          ((wp + (compileArgs S.m.p.structs wp c args).code.length) :: base.length :: K) entry hl
        have pre : Steps S.m (stAt junk base env fr K wp log)
            ⟨vs.reverse ++ (junk ++ base), [[]] :: env :: fr,
              (wp + (compileArgs S.m.p.structs wp c args).code.length) :: base.length :: K, entry, l⟩ := by
          refine iha.trans ?_
          show Steps S.m ⟨(vs.reverse ++ junk) ++ base, _, _, _, _⟩ _
          rw [List.append_assoc]
          exact Steps.one (step_call hcall)
        cases hrc : evalCall S.m.p (n' + 1) f vs l with
        | val v l' =>
          rw [hrc] at ihb; simp only [BodyOutcome] at ihb
          obtain ⟨envJ, pcR, hst, hret⟩ := ihb
          simp only [Outcome]
          refine pre.trans (hst.trans ?_)
          normpc
          exact Steps.one (step_return hret)
        | ret v l' => exact absurd hrc (evalCall_not_ret _ _ _ _ _ _ _)
        | exit r l' =>
          rw [hrc] at ihb; simp only [BodyOutcome] at ihb
          obtain ⟨t, hex, hl'⟩ := ihb
          exact ⟨t, hex.of_steps pre, hl'⟩
        | ffiErr l' =>
          rw [hrc] at ihb; simp only [BodyOutcome] at ihb
          exact ErrorsWith.of_steps pre ihb
        | stuck => trivial
        | oof => trivial
  | _ => first | (rw [hra] at iha; exact iha) | trivial

theorem popN_append : ∀ (xs σ : List Val), popN xs.length (xs ++ σ) = some (xs, σ)
  | [], σ => by simp [popN]
  | x :: xs, σ => by simp [popN, popN_append xs σ]

theorem sim_ffi {n : Nat} (hP : ProgOk S) (ihA : ArgsSim S n) (mname fname : Nat) (ids : Option (Nat × Nat)) (args : List Expr) :
    ExprCase S (n + 1) (.ffi mname fname ids args) := by
  intro env log wp c junk base fr K hsup hcode hdefs
  simp only [supE] at hsup
  simp only [evalExpr]
  cases ids with
  | none => trivial
  | some mp =>
    obtain ⟨mi, pi⟩ := mp
    simp only [compileExpr] at hcode hdefs
    have hcode' : CodeAt S.labels S.m.prog wp ([Instruction.Meta (mname, fname)] ++ (compileArgs S.m.p.structs (wp + 1) c args).code ++
        [Instruction.ExtCall mi pi]) := by simpa using hcode
    simp only [codeAt_append, codeAt_single, res] at hcode'
    normpc at hcode'
    obtain ⟨⟨hmeta, hcA⟩, hext⟩ := hcode'
    have iha := ihA args env log (wp + 1) c junk base fr K hsup hcA hdefs
    have pre : Steps S.m (stAt junk base env fr K wp log) (stAt junk base env fr K (wp + 1) log) :=
      Steps.one (step_meta hmeta)
    dsimp only
    cases hra : evalArgs S.m.p n env log args with
    | val vs l =>
      rw [hra] at iha; simp only [Outcome] at iha
      dsimp only
      have hstep : ∀ r, S.m.p.ffi mi pi vs = r → (match r with | .bad => False | _ => True) →
          step S.m (stAt (vs.reverse ++ junk) base env fr K (wp + 1 + (compileArgs S.m.p.structs (wp + 1) c args).code.length) l) =
            (match r with
              | .ret v => .running (stAt (v :: junk) base env fr K (wp + 1 + (compileArgs S.m.p.structs (wp + 1) c args).code.length + 1) ((mi, pi, vs) :: l))
              | .fail => .error .ffi ((mi, pi, vs) :: l)
              | .bad => .error .invalidType l) := by
        intro r hr hnb
        have har := hP.ffi mi pi vs (by rw [hr]; exact hnb)
        have hpop : popN vs.length ((vs.reverse ++ junk) ++ base) = some (vs.reverse, junk ++ base) := by
          have := popN_append vs.reverse (junk ++ base)
          simpa [List.append_assoc] using this
        simp only [step, stAt, hext, har, hpop, List.reverse_reverse, hr]
        cases r <;> simp [VM.next]
      cases hr : S.m.p.ffi mi pi vs with
      | ret v =>
        simp only [Outcome]
        refine pre.trans (iha.trans ?_)
        have := hstep _ hr trivial
        refine Steps.cast_pc (Steps.one this) ?_
        simp only [compileExpr, List.length_cons, List.length_append, List.length_nil]; omega
      | fail =>
        simp only [Outcome]
        exact ⟨_, pre.trans iha, hstep _ hr trivial⟩
      | bad => trivial
    | _ => first | (rw [hra] at iha; exact Outcome.of_steps pre iha) | trivial

end AranyaV.Lang
