import AranyaV.Proofs.CompileStmt
/-!
C22: user function calls — the callee's prologue (`Def` of the parameters last-to-first,
`SaveSP`), its body, `RestoreSP; Return`, and the call instruction itself.
-/
namespace AranyaV.Lang
open AranyaV.Gen.Lang
variable (S : Sim)

/-- a run of `Def` instructions binds the values on top of the stack, first instruction first -/
theorem defs_run {m : Machine} {labels : List (Label × Nat)} :
    ∀ (xs : List (Nat × Val)) (σ : List Val) (envA envB : Env) (frs : List Env) (Kc : List Nat) (pc : Nat) (lg : Log),
      CodeAt labels m.prog pc (xs.map fun x => Instruction.Def x.1) →
      bindParams m.p envA xs = some envB →
      Steps m ⟨xs.map (·.2) ++ σ, envA :: frs, Kc, pc, lg⟩ ⟨σ, envB :: frs, Kc, pc + xs.length, lg⟩
  | [], σ, envA, envB, frs, Kc, pc, lg, _, hb => by
    simp only [bindParams, Option.some.injEq] at hb
    subst hb
    exact Steps.refl _
  | (x, v) :: xs, σ, envA, envB, frs, Kc, pc, lg, hc, hb => by
    simp only [List.map_cons, codeAt_cons, res] at hc
    simp only [bindParams] at hb
    cases h1 : bindVar m.p envA x v with
    | none => rw [h1] at hb; cases hb
    | some env1 =>
      rw [h1] at hb
      have ih := defs_run xs σ env1 envB frs Kc (pc + 1) lg hc.2 hb
      refine (Steps.one (step_def hc.1 h1)).trans ?_
      have : pc + ((x, v) :: xs).length = pc + 1 + xs.length := by simp only [List.length_cons]; omega
      rw [this]
      exact ih

theorem zip_rev_fst {α β} : ∀ (as : List α) (bs : List β), as.length = bs.length →
    ((as.zip bs).reverse.map (·.1)) = as.reverse := by
  intro as bs h
  rw [← List.map_reverse, List.map_fst_zip (by omega)]
theorem zip_rev_snd {α β} : ∀ (as : List α) (bs : List β), as.length = bs.length →
    ((as.zip bs).reverse.map (·.2)) = bs.reverse := by
  intro as bs h
  rw [← List.map_reverse, List.map_snd_zip (by omega)]

theorem bodySim_succ {n : Nat} (hP : ProgOk S) (ihSs : StmtsSim S n) : BodySim S (n + 1) := by
  intro f vs log σ frs Kc entry hentry
  simp only [evalCall]
  cases hfd : S.m.p.funDef f with
  | none => trivial
  | some fd =>
    dsimp only
    by_cases hlen : fd.params.length ≠ vs.length
    · simp only [hlen, if_true, BodyOutcome]
    · simp only [hlen, if_false]
      have hlen' : fd.params.length = vs.length := by omega
      obtain ⟨wp, c, hl, hcode, hdefs⟩ := hP.funs f fd hfd
      rw [hentry] at hl
      cases hl
      cases hbp : bindParams S.m.p [[]] ((fd.params.map (·.1)).zip vs).reverse with
      | none => trivial
      | some envF =>
        dsimp only
        -- code layout of the function
        simp only [compileFun, defsOk_cons] at hdefs
        have hcode' : CodeAt S.labels S.m.prog entry
            ((((fd.params.map (·.1)).zip vs).reverse.map fun x => Instruction.Def x.1) ++ [Instruction.SaveSP] ++
              (compileStmts S.m.p.structs (entry + (fd.params.length + 1)) c fd.body).code ++ [Instruction.Exit .Panic]) := by
          have h1 : (((fd.params.map (·.1)).zip vs).reverse.map fun x => Instruction.Def x.1) =
              (fd.params.reverse.map fun x => Instruction.Def x.1) := by
            have := zip_rev_fst (fd.params.map (·.1)) vs (by simpa using hlen')
            rw [show (((fd.params.map (·.1)).zip vs).reverse.map fun x => (Instruction.Def x.1 : Instr)) =
              ((((fd.params.map (·.1)).zip vs).reverse.map (·.1)).map fun x => (Instruction.Def x : Instr)) by simp, this]
            simp [List.map_reverse]
          rw [h1]
          simpa [compileFun, List.append_assoc] using hcode
        rw [codeAt_append, codeAt_append, codeAt_append] at hcode'
        obtain ⟨⟨⟨hcD, hsave⟩, hcB⟩, hexit⟩ := hcode'
        simp only [codeAt_single, res] at hsave hexit
        have hstack : vs.reverse = (((fd.params.map (·.1)).zip vs).reverse.map (·.2)) :=
          (zip_rev_snd (fd.params.map (·.1)) vs (by simpa using hlen')).symm
        have hnum : (((fd.params.map (·.1)).zip vs).reverse.map fun x => (Instruction.Def x.1 : Instr)).length = fd.params.length := by
          simp [hlen']
        rw [hnum] at hsave hcB hexit
        have pre1 := defs_run (m := S.m) (labels := S.labels) (((fd.params.map (·.1)).zip vs).reverse) σ [[]] envF frs Kc entry log hcD hbp
        rw [← hstack] at pre1
        have hnum2 : (((fd.params.map (·.1)).zip vs).reverse).length = fd.params.length := by simp [hlen']
        rw [hnum2] at pre1
        have pre := pre1.trans (Steps.one (step_saveSP hsave))
        have e1 : entry + (fd.params.length + 1) = entry + fd.params.length + 1 := by omega
        have e2 : (entry + fd.params.length + ([Instruction.SaveSP] : List Instr).length) = entry + fd.params.length + 1 := by simp
        rw [e2] at hcB hexit
        rw [e1] at hcB hexit hdefs
        have ihb := ihSs fd.body envF log (entry + fd.params.length + 1) c [] σ frs Kc (hP.sup f fd hfd) hcB hdefs.2
        simp only [stAt, List.nil_append] at ihb
        cases hrb : evalStmts S.m.p n envF log fd.body with
        | val env' l =>
          rw [hrb] at ihb; simp only [Outcome] at ihb
          simp only [BodyOutcome]
          exact ⟨_, ⟨_, pre.trans ihb, step_exit hexit⟩, rfl⟩
        | ret v l =>
          rw [hrb] at ihb; simp only [Outcome] at ihb
          obtain ⟨envJ, pcR, hst, hret⟩ := ihb
          simp only [BodyOutcome]
          exact ⟨envJ, pcR, pre.trans hst, hret⟩
        | exit r l =>
          rw [hrb] at ihb; simp only [Outcome] at ihb
          obtain ⟨t, hex, hl⟩ := ihb
          exact ⟨t, hex.of_steps pre, hl⟩
        | ffiErr l =>
          rw [hrb] at ihb; simp only [Outcome] at ihb
          exact ErrorsWith.of_steps pre ihb
        | stuck => trivial
        | oof => trivial

end AranyaV.Lang
