import AranyaV.Proofs.CompileMatch
/-!
C22: `substruct` — `StructNew sub; <source>; Identifier f₁ … fₙ; MStructGet n; MStructSet n`
(or `Pop` for a struct without fields).
-/
namespace AranyaV.Lang
open AranyaV.Gen.Lang
variable (S : Sim)

/-- `[v₁, f₁, v₂, f₂, …]` on top of `st`: what `MStructGet` leaves and `MStructSet` consumes -/
def pairsStack (kvs : List (Nat × Val)) (st : List Val) : List Val :=
  kvs.flatMap (fun kv => [kv.2, Val.ident kv.1]) ++ st

theorem popPairs_pairsStack : ∀ (kvs : List (Nat × Val)) (st : List Val),
    popPairs kvs.length (pairsStack kvs st) = .ok (kvs, st)
  | [], st => by simp [popPairs, pairsStack]
  | (k, v) :: rest, st => by
    have ih := popPairs_pairsStack rest st
    simp only [pairsStack, List.flatMap_cons, List.length_cons, List.cons_append, List.nil_append, popPairs] at ih ⊢
    rw [ih]

theorem popIdents_map : ∀ (ks : List Nat) (st : List Val),
    popIdents ks.length (ks.map Val.ident ++ st) = .ok (ks, st)
  | [], st => by simp [popIdents]
  | k :: ks, st => by simp [popIdents, popIdents_map ks st]

theorem getField_remove_ne : ∀ (fs : List (Nat × Val)) (k k' : Nat), k' ≠ k → getField (removeField fs k) k' = getField fs k'
  | [], _, _, _ => rfl
  | (a, v) :: rest, k, k', h => by
    simp only [removeField, getField]
    by_cases hk : k = a
    · subst hk
      simp [h]
    · simp only [hk, if_false, getField]
      by_cases hk' : k' = a
      · simp [hk']
      · simp [hk', getField_remove_ne rest k k' h]

/-- `MStructGet` on distinct names: the values are those of the original field map -/
theorem mget_spec : ∀ (kvsR : List (Nat × Val)) (fs : List (Nat × Val)) (st : List Val),
    (kvsR.map (·.1)).Nodup → (∀ kv ∈ kvsR, getField fs kv.1 = some kv.2) →
    mget (kvsR.map (·.1)) fs st = .ok (pairsStack kvsR.reverse st)
  | [], fs, st, _, _ => by simp [mget, pairsStack]
  | (k, v) :: rest, fs, st, hnd, hget => by
    simp only [List.map_cons, List.nodup_cons] at hnd
    have hk := hget (k, v) (List.mem_cons_self ..)
    simp only at hk
    simp only [List.map_cons, mget, hk]
    have ih := mget_spec rest (removeField fs k) (v :: Val.ident k :: st) hnd.2 (by
      intro kv hkv
      have hne : kv.1 ≠ k := fun e => hnd.1 (e ▸ List.mem_map.mpr ⟨kv, hkv, rfl⟩)
      rw [getField_remove_ne fs k kv.1 hne]
      exact hget kv (List.mem_cons_of_mem _ hkv))
    rw [ih]
    simp [pairsStack, List.flatMap_append]

theorem pickFields_spec : ∀ (fs : List (Nat × Val)) (d : List (Nat × Ty)) (kvs : List (Nat × Val)),
    pickFields fs d = some kvs →
    kvs.map (·.1) = d.map (·.1) ∧ (∀ kv ∈ kvs, getField fs kv.1 = some kv.2) ∧
    (∀ kv ∈ kvs, ∃ t, (kv.1, t) ∈ d ∧ kv.2.fitsType t = true)
  | fs, [], kvs, h => by simp [pickFields] at h; subst h; simp
  | fs, (k, t) :: rest, kvs, h => by
    simp only [pickFields] at h
    cases hg : getField fs k with
    | none => simp [hg] at h
    | some v =>
      cases hr : pickFields fs rest with
      | none => simp [hg, hr] at h
      | some acc =>
        simp only [hg, hr] at h
        by_cases hf : v.fitsType t = true
        · simp only [hf, if_true, Option.some.injEq] at h
          subst h
          obtain ⟨h1, h2, h3⟩ := pickFields_spec fs rest acc hr
          refine ⟨by simp [h1], ?_, ?_⟩
          · intro kv hkv
            rcases List.mem_cons.mp hkv with rfl | hkv
            · exact hg
            · exact h2 kv hkv
          · intro kv hkv
            rcases List.mem_cons.mp hkv with rfl | hkv
            · exact ⟨t, List.mem_cons_self .., hf⟩
            · obtain ⟨t', ht', hf'⟩ := h3 kv hkv
              exact ⟨t', List.mem_cons_of_mem _ ht', hf'⟩
        · simp [hf] at h

theorem find_of_nodup : ∀ (d : List (Nat × Ty)) (k : Nat) (t : Ty), (d.map (·.1)).Nodup → (k, t) ∈ d →
    d.find? (·.1 == k) = some (k, t)
  | [], _, _, _, h => by cases h
  | (a, ta) :: rest, k, t, hnd, h => by
    simp only [List.map_cons, List.nodup_cons] at hnd
    simp only [List.find?_cons]
    rcases List.mem_cons.mp h with heq | h'
    · cases heq; simp
    · have hne : (a == k) = false := by
        have : a ≠ k := fun e => hnd.1 (e ▸ List.mem_map.mpr ⟨(k, t), h', rfl⟩)
        simpa using this
      simp only [hne]
      exact find_of_nodup rest k t hnd.2 h'

theorem msetFields_spec (d : List (Nat × Ty)) (hnd : (d.map (·.1)).Nodup) : ∀ (kvs : List (Nat × Val)) (fs0 : List (Nat × Val)),
    (∀ kv ∈ kvs, ∃ t, (kv.1, t) ∈ d ∧ kv.2.fitsType t = true) →
    msetFields d kvs fs0 = .ok (kvs.foldl (fun acc kv => setField acc kv.1 kv.2) fs0)
  | [], fs0, _ => by simp [msetFields]
  | (k, v) :: rest, fs0, h => by
    obtain ⟨t, ht, hf⟩ := h (k, v) (List.mem_cons_self ..)
    simp only at ht hf
    simp only [msetFields, find_of_nodup d k t hnd ht, hf, if_true, List.foldl_cons]
    exact msetFields_spec d hnd rest _ (fun kv hkv => h kv (List.mem_cons_of_mem _ hkv))

/-- a run of `Identifier` instructions -/
theorem idents_run {m : Machine} {labels : List (Label × Nat)} :
    ∀ (ks : List Nat) (σ : List Val) (sc : List Env) (K : List Nat) (pc : Nat) (lg : Log),
      CodeAt labels m.prog pc (ks.map fun k => Instruction.Identifier k) →
      Steps m ⟨σ, sc, K, pc, lg⟩ ⟨ks.reverse.map Val.ident ++ σ, sc, K, pc + ks.length, lg⟩
  | [], σ, sc, K, pc, lg, _ => by simpa using Steps.refl _
  | k :: ks, σ, sc, K, pc, lg, hc => by
    simp only [List.map_cons, codeAt_cons, res] at hc
    have ih := idents_run ks (Val.ident k :: σ) sc K (pc + 1) lg hc.2
    refine (Steps.one (step_ident hc.1)).trans ?_
    have e : pc + (k :: ks).length = pc + 1 + ks.length := by simp only [List.length_cons]; omega
    rw [e]
    simpa [List.reverse_cons, List.map_append, List.append_assoc] using ih

theorem defs_fields_eq (p : Program) (sub : Nat) (d : List (Nat × Ty)) (h : p.structDef sub = some d) :
    Defs.fields p.structs sub = d.map (·.1) := by
  simp only [Program.structDef, Option.map_eq_some_iff] at h
  obtain ⟨x, hx, rfl⟩ := h
  simp [Defs.fields, hx]

theorem sim_substruct {n : Nat} (hP : ProgOk S) (ihE : ExprSim S n) (e : Expr) (sub : Nat) :
    ExprCase S (n + 1) (.substruct e sub) := by
  intro env log wp c junk base fr K hsup hcode hdefs
  simp only [supE] at hsup
  simp only [evalExpr]
  cases hd : S.m.p.structDef sub with
  | none => trivial
  | some d =>
    dsimp only
    have hnames := defs_fields_eq S.m.p sub d hd
    have hnd := hP.structs sub d hd
    simp only [compileExpr, hnames] at hcode hdefs
    have hcode' : CodeAt S.labels S.m.prog wp ([Instruction.StructNew sub] ++ (compileExpr S.m.p.structs (wp + 1) c e).code ++
        ((d.map (fun x : Nat × Ty => x.1)).map fun k => (Instruction.Identifier k : Instr)) ++
        (if (d.map (fun x : Nat × Ty => x.1)).length = 0 then [(Instruction.Pop : Instr)] else
          [Instruction.MStructGet (d.map (fun x : Nat × Ty => x.1)).length, Instruction.MStructSet (d.map (fun x : Nat × Ty => x.1)).length])) := by
      simpa [List.append_assoc] using hcode
    rw [codeAt_append, codeAt_append, codeAt_append] at hcode'
    obtain ⟨⟨⟨hnew, hcE⟩, hcI⟩, hcT⟩ := hcode'
    simp only [codeAt_single, res, List.length_singleton] at hnew hcE
    have ihe := ihE e env log (wp + 1) c (.struct sub [] :: junk) base fr K hsup hcE hdefs
    have pre : Steps S.m (stAt junk base env fr K wp log) (stAt (.struct sub [] :: junk) base env fr K (wp + 1) log) :=
      Steps.one (step_structNew hnew)
    cases hre : evalExpr S.m.p n env log e with
    | val v l =>
      rw [hre] at ihe; simp only [Outcome] at ihe
      cases v <;> simp only [Outcome] <;> try trivial
      rename_i sname fs
      cases hpick : pickFields fs d with
      | none => trivial
      | some kvs =>
        simp only [Outcome]
        obtain ⟨hk1, hk2, hk3⟩ := pickFields_spec fs d kvs hpick
        have e0 : wp + ([Instruction.StructNew sub] ++ (compileExpr S.m.p.structs (wp + 1) c e).code).length =
            wp + 1 + (compileExpr S.m.p.structs (wp + 1) c e).code.length := by
          simp only [List.length_append, List.length_singleton]; omega
        rw [e0] at hcI
        have hid := idents_run (m := S.m) (labels := S.labels) (d.map (·.1)) (.struct sname fs :: .struct sub [] :: (junk ++ base))
          (env :: fr) (base.length :: K) (wp + 1 + (compileExpr S.m.p.structs (wp + 1) c e).code.length) l hcI
        have e1 : wp + ([Instruction.StructNew sub] ++ (compileExpr S.m.p.structs (wp + 1) c e).code ++
            ((d.map (fun x : Nat × Ty => x.1)).map fun k => (Instruction.Identifier k : Instr))).length =
            wp + 1 + (compileExpr S.m.p.structs (wp + 1) c e).code.length + d.length := by
          simp only [List.length_append, List.length_singleton, List.length_map]; omega
        rw [e1] at hcT
        simp only [List.length_map] at hcT hid
        have pre2 := pre.trans (ihe.trans hid)
        by_cases hz : d.length = 0
        · -- no fields: `Pop`
          have hd0 : d = [] := List.eq_nil_of_length_eq_zero hz
          subst hd0
          simp only [List.length_nil, if_true, codeAt_single, res] at hcT
          simp only [pickFields, Option.some.injEq] at hpick
          subst hpick
          simp only [List.map_nil, List.reverse_nil, List.nil_append, List.length_nil, Nat.add_zero] at pre2
          refine pre2.trans ?_
          refine Steps.cast_pc (Steps.one (step_pop hcT)) ?_
          simp only [compileExpr, hnames, List.map_nil, List.length_nil, if_true, List.length_cons, List.length_append]; omega
        · simp only [hz, if_false, codeAt_cons, CodeAt.nil, and_true, res] at hcT
          -- `MStructGet`
          have hkr : (d.map (·.1)).reverse = kvs.reverse.map (·.1) := by rw [List.map_reverse, hk1]
          have hstack1 : (d.map (·.1)).reverse.map Val.ident ++ (.struct sname fs :: .struct sub [] :: (junk ++ base)) =
              (kvs.reverse.map (·.1)).map Val.ident ++ (.struct sname fs :: .struct sub [] :: (junk ++ base)) := by rw [hkr]
          have hpop := popIdents_map (kvs.reverse.map (·.1)) (.struct sname fs :: .struct sub [] :: (junk ++ base))
          have hlenk : (kvs.reverse.map (·.1)).length = d.length := by
            have := congrArg List.length hk1; simpa using this
          rw [hlenk] at hpop
          have hmget := mget_spec kvs.reverse fs (.struct sub [] :: (junk ++ base))
            (by rw [← hkr]; exact (List.reverse_perm _).nodup_iff.mpr hnd)
            (fun kv hkv => hk2 kv (List.mem_reverse.mp hkv))
          simp only [List.reverse_reverse] at hmget
          have hstepG : step S.m ⟨(d.map (·.1)).reverse.map Val.ident ++ (.struct sname fs :: .struct sub [] :: (junk ++ base)),
              env :: fr, base.length :: K, wp + 1 + (compileExpr S.m.p.structs (wp + 1) c e).code.length + d.length, l⟩ =
              .running ⟨pairsStack kvs (.struct sub [] :: (junk ++ base)), env :: fr, base.length :: K,
                wp + 1 + (compileExpr S.m.p.structs (wp + 1) c e).code.length + d.length + 1, l⟩ := by
            rw [hstack1]
            simp only [step, hcT.1, hpop, hmget, VM.next]
          -- `MStructSet`
          have hpp := popPairs_pairsStack kvs (.struct sub [] :: (junk ++ base))
          have hlenkv : kvs.length = d.length := by
            have := congrArg List.length hk1; simpa using this
          rw [hlenkv] at hpp
          have hms := msetFields_spec d hnd kvs [] hk3
          have hstepS : step S.m ⟨pairsStack kvs (.struct sub [] :: (junk ++ base)), env :: fr, base.length :: K,
                wp + 1 + (compileExpr S.m.p.structs (wp + 1) c e).code.length + d.length + 1, l⟩ =
              .running ⟨structOfPairs sub kvs :: (junk ++ base), env :: fr, base.length :: K,
                wp + 1 + (compileExpr S.m.p.structs (wp + 1) c e).code.length + d.length + 1 + 1, l⟩ := by
            simp only [step, hcT.2, hpp, hd, hms, VM.next, structOfPairs]
          refine pre2.trans ((Steps.one hstepG).trans ?_)
          refine Steps.cast_pc (Steps.one hstepS) ?_
          simp only [compileExpr, hnames, List.length_map, hz, if_false, List.length_cons, List.length_append, List.length_nil]; omega
    | _ => first | (rw [hre] at ihe; exact Outcome.of_steps pre ihe) | trivial

end AranyaV.Lang
