import AranyaV.Proofs.CompileLayout
/-!
C24 `resolve_total`: every label referenced by model-compiled code is defined (or is a function
label), every label address and every already-resolved target lies inside the code it belongs to.
-/
namespace AranyaV.Lang
open AranyaV.Gen.Lang

/-- the unresolved label an instruction carries, if any -/
def instrLabel : Instr → Option Label
  | .Branch (.Unresolved l) | .Jump (.Unresolved l) | .Call (.Unresolved l) | .Recall (.Unresolved l) => some l
  | _ => none

/-- the resolved target an instruction carries, if any -/
def instrRes : Instr → Option Nat
  | .Branch (.Resolved n) | .Jump (.Resolved n) | .Call (.Resolved n) | .Recall (.Resolved n) => some n
  | _ => none

def isFnLabel : Label → Prop
  | .fn _ => True
  | .anon _ => False

structure TgtsP (P : Label → Prop) (code : List Instr) : Prop where
  h : ∀ i ∈ code, ∀ l, instrLabel i = some l → P l
structure ResIn (lo hi : Nat) (code : List Instr) : Prop where
  h : ∀ i ∈ code, ∀ n, instrRes i = some n → lo ≤ n ∧ n ≤ hi
structure AddrsIn (lo hi : Nat) (defs : List (Label × Nat)) : Prop where
  h : ∀ q ∈ defs, lo ≤ q.2 ∧ q.2 ≤ hi

theorem tgtsP_nil {P} : TgtsP P [] := ⟨by simp⟩
theorem tgtsP_append {P a b} : TgtsP P (a ++ b) ↔ TgtsP P a ∧ TgtsP P b :=
  ⟨fun h => ⟨⟨fun i hi => h.h i (List.mem_append.mpr (Or.inl hi))⟩, ⟨fun i hi => h.h i (List.mem_append.mpr (Or.inr hi))⟩⟩,
   fun h => ⟨fun i hi => (List.mem_append.mp hi).elim (h.1.h i) (h.2.h i)⟩⟩
theorem tgtsP_cons {P i r} : TgtsP P (i :: r) ↔ (∀ l, instrLabel i = some l → P l) ∧ TgtsP P r :=
  ⟨fun h => ⟨h.h i (List.mem_cons_self ..), ⟨fun j hj => h.h j (List.mem_cons_of_mem _ hj)⟩⟩,
   fun h => ⟨fun j hj => (List.mem_cons.mp hj).elim (fun e => e ▸ h.1) (h.2.h j)⟩⟩
theorem TgtsP.mono {P Q code} (h : TgtsP P code) (hpq : ∀ l, P l → Q l) : TgtsP Q code :=
  ⟨fun i hi l hl => hpq l (h.h i hi l hl)⟩

theorem resIn_nil {lo hi} : ResIn lo hi [] := ⟨by simp⟩
theorem resIn_append {lo hi a b} : ResIn lo hi (a ++ b) ↔ ResIn lo hi a ∧ ResIn lo hi b :=
  ⟨fun h => ⟨⟨fun i hi => h.h i (List.mem_append.mpr (Or.inl hi))⟩, ⟨fun i hi => h.h i (List.mem_append.mpr (Or.inr hi))⟩⟩,
   fun h => ⟨fun i hi => (List.mem_append.mp hi).elim (h.1.h i) (h.2.h i)⟩⟩
theorem resIn_cons {lo hi i r} : ResIn lo hi (i :: r) ↔ (∀ n, instrRes i = some n → lo ≤ n ∧ n ≤ hi) ∧ ResIn lo hi r :=
  ⟨fun h => ⟨h.h i (List.mem_cons_self ..), ⟨fun j hj => h.h j (List.mem_cons_of_mem _ hj)⟩⟩,
   fun h => ⟨fun j hj => (List.mem_cons.mp hj).elim (fun e => e ▸ h.1) (h.2.h j)⟩⟩
theorem ResIn.mono {lo hi lo' hi' code} (h : ResIn lo hi code) (h1 : lo' ≤ lo) (h2 : hi ≤ hi') : ResIn lo' hi' code :=
  ⟨fun i hi n hn => ⟨Nat.le_trans h1 (h.h i hi n hn).1, Nat.le_trans (h.h i hi n hn).2 h2⟩⟩

theorem addrsIn_nil {lo hi} : AddrsIn lo hi [] := ⟨by simp⟩
theorem addrsIn_append {lo hi a b} : AddrsIn lo hi (a ++ b) ↔ AddrsIn lo hi a ∧ AddrsIn lo hi b :=
  ⟨fun h => ⟨⟨fun i hi => h.h i (List.mem_append.mpr (Or.inl hi))⟩, ⟨fun i hi => h.h i (List.mem_append.mpr (Or.inr hi))⟩⟩,
   fun h => ⟨fun i hi => (List.mem_append.mp hi).elim (h.1.h i) (h.2.h i)⟩⟩
theorem addrsIn_cons {lo hi q r} : AddrsIn lo hi (q :: r) ↔ (lo ≤ q.2 ∧ q.2 ≤ hi) ∧ AddrsIn lo hi r :=
  ⟨fun h => ⟨h.h q (List.mem_cons_self ..), ⟨fun j hj => h.h j (List.mem_cons_of_mem _ hj)⟩⟩,
   fun h => ⟨fun j hj => (List.mem_cons.mp hj).elim (fun e => e ▸ h.1) (h.2.h j)⟩⟩
theorem AddrsIn.mono {lo hi lo' hi' d} (h : AddrsIn lo hi d) (h1 : lo' ≤ lo) (h2 : hi ≤ hi') : AddrsIn lo' hi' d :=
  ⟨fun q hq => ⟨Nat.le_trans h1 (h.h q hq).1, Nat.le_trans (h.h q hq).2 h2⟩⟩

/-- layout facts of one compiled fragment placed at `wp`; `ext` are labels it may reference but
does not define itself (arm labels for the test phase, the end label for arms and `if` chains) -/
structure Lay (ext : List Label) (wp : Nat) (o : Out) : Prop where
  tg : TgtsP (fun l => isFnLabel l ∨ l ∈ ext ∨ l ∈ o.defs.map (·.1)) o.code
  rs : ResIn wp (wp + o.code.length) o.code
  ad : AddrsIn wp (wp + o.code.length) o.defs

theorem Lay.tg' {ext wp o Q} (h : Lay ext wp o)
    (hq : ∀ l, (isFnLabel l ∨ l ∈ ext ∨ l ∈ o.defs.map (·.1)) → Q l) : TgtsP Q o.code := h.tg.mono hq
theorem Lay.rs' {ext wp o lo hi} (h : Lay ext wp o) (h1 : lo ≤ wp) (h2 : wp + o.code.length ≤ hi) : ResIn lo hi o.code :=
  h.rs.mono h1 h2
theorem Lay.ad' {ext wp o lo hi} (h : Lay ext wp o) (h1 : lo ≤ wp) (h2 : wp + o.code.length ≤ hi) : AddrsIn lo hi o.defs :=
  h.ad.mono h1 h2

macro "orfind" h:ident : tactic => `(tactic| first
  | exact $h
  | exact Or.inl $h
  | exact Or.inr $h
  | exact Or.inr (Or.inl $h)
  | exact Or.inr (Or.inr $h)
  | exact Or.inr (Or.inr (Or.inl $h))
  | exact Or.inr (Or.inr (Or.inr $h))
  | exact Or.inr (Or.inr (Or.inr (Or.inl $h)))
  | exact Or.inr (Or.inr (Or.inr (Or.inr $h)))
  | exact Or.inr (Or.inr (Or.inr (Or.inr (Or.inl $h))))
  | exact Or.inr (Or.inr (Or.inr (Or.inr (Or.inr $h))))
  | exact Or.inr (Or.inr (Or.inr (Or.inr (Or.inr (Or.inl $h)))))
  | exact Or.inr (Or.inr (Or.inr (Or.inr (Or.inr (Or.inr $h)))))
  | exact Or.inr (Or.inr (Or.inr (Or.inr (Or.inr (Or.inr (Or.inl $h))))))
  | exact Or.inr (Or.inr (Or.inr (Or.inr (Or.inr (Or.inr (Or.inr $h)))))))

macro "lay_tg" : tactic => `(tactic| (
  try simp only [tgtsP_append, tgtsP_cons, tgtsP_nil, and_true, true_and, List.cons_append, List.nil_append]
  repeat' apply And.intro
  all_goals first
    | (apply Lay.tg'; assumption; intro l hl
       simp only [List.map_append, List.map_cons, List.map_nil, List.mem_append, List.mem_cons, List.not_mem_nil, or_false, false_or, or_assoc] at hl ⊢
       first
         | orfind hl
         | (rcases hl with h | h <;> first | orfind h | (rcases h with h | h <;> first | orfind h | (rcases h with h | h <;> orfind h))))
    | (intro l hl; simp [instrLabel, br, jmp] at hl; done)
    | (intro l hl; simp only [instrLabel, br, jmp, Option.some.injEq] at hl; subst hl
       simp only [List.map_append, List.map_cons, List.map_nil, List.mem_append, List.mem_cons, List.not_mem_nil, true_or, or_true, isFnLabel])
    | exact tgtsP_nil))

macro "lay_rs" : tactic => `(tactic| (
  try simp only [resIn_append, resIn_cons, resIn_nil, and_true, true_and, List.cons_append, List.nil_append]
  repeat' apply And.intro
  all_goals first
    | (apply Lay.rs'; assumption
       all_goals ((try simp only [List.length_append, List.length_cons, List.length_nil]); omega))
    | (intro n hn; simp [instrRes, br, jmp] at hn; done)
    | (intro n hn; simp only [instrRes, Option.some.injEq] at hn; subst hn
       (try simp only [List.length_append, List.length_cons, List.length_nil]); omega)
    | exact resIn_nil))

macro "lay_ad" : tactic => `(tactic| (
  try simp only [addrsIn_append, addrsIn_cons, addrsIn_nil, and_true, true_and, List.cons_append, List.nil_append]
  repeat' apply And.intro
  all_goals first
    | (apply Lay.ad'; assumption
       all_goals ((try simp only [List.length_append, List.length_cons, List.length_nil]); omega))
    | ((try simp only [List.length_append, List.length_cons, List.length_nil]); omega)
    | exact addrsIn_nil))

macro "lay" : tactic => `(tactic| (refine ⟨?_, ?_, ?_⟩ <;> dsimp only <;> first | lay_tg | lay_rs | lay_ad))


theorem builtin_noLabel {f : Nat} {i : Instr} (hi : (builtinInstr f : Option Instr) = some i) :
    instrLabel i = none ∧ instrRes i = none := by
  match f with
  | 0 => simp [builtinInstr] at hi; subst hi; exact ⟨rfl, rfl⟩
  | 1 => simp [builtinInstr] at hi; subst hi; exact ⟨rfl, rfl⟩
  | 2 => simp [builtinInstr] at hi; subst hi; exact ⟨rfl, rfl⟩
  | 3 => simp [builtinInstr] at hi; subst hi; exact ⟨rfl, rfl⟩
  | n + 4 => simp [builtinInstr] at hi

theorem lay_all (sd : Defs) :
    (∀ wp c e, Lay [] wp (compileExpr sd wp c e)) ∧
    (∀ (wp c : Nat) (end_ : Label) (ls : List Label) (arms : List (Pat × Expr)), Lay [end_] wp (compileArmsE sd wp c end_ ls arms)) ∧
    (∀ (wp c : Nat) (arms : List (Pat × Expr)), Lay (compileTestsE sd wp c arms).2 wp (compileTestsE sd wp c arms).1) ∧
    (∀ (wp c : Nat) (arm : Label) (vs : List Expr), Lay [arm] wp (compilePatVals sd wp c arm vs)) ∧
    (∀ wp c ss, Lay [] wp (compileStmts sd wp c ss)) ∧
    (∀ wp c s, Lay [] wp (compileStmt sd wp c s)) ∧
    (∀ wp c end_ brs, Lay [end_] wp (compileBranches sd wp c end_ brs)) ∧
    (∀ (wp c : Nat) (end_ : Label) (ls : List Label) (arms : List (Pat × List Stmt)), Lay [end_] wp (compileArmsS sd wp c end_ ls arms)) ∧
    (∀ (wp c : Nat) (arms : List (Pat × List Stmt)), Lay (compileTestsS sd wp c arms).2 wp (compileTestsS sd wp c arms).1) ∧
    (∀ wp c es, Lay [] wp (compileArgs sd wp c es)) ∧
    (∀ wp c fs, Lay [] wp (compileFields sd wp c fs)) := by
  apply compileExpr.mutual_induct sd
  all_goals (try dsimp only)
  case case12 =>
    intro wp c f args i hi ih
    obtain ⟨h1, h2⟩ := builtin_noLabel hi
    simp only [compileExpr, hi]
    refine ⟨?_, ?_, ?_⟩ <;> dsimp only
    · rw [tgtsP_append]
      exact ⟨ih.tg' (fun l h => h), ⟨by intro j hj l hl; simp only [List.mem_singleton] at hj; subst hj; rw [h1] at hl; cases hl⟩⟩
    · rw [resIn_append]
      exact ⟨ih.rs' (Nat.le_refl _) (by simp only [List.length_append]; omega),
        ⟨by intro j hj n hn; simp only [List.mem_singleton] at hj; subst hj; rw [h2] at hn; cases hn⟩⟩
    · exact ih.ad' (Nat.le_refl _) (by simp only [List.length_append]; omega)
  case case13 => intro wp c f args hi ih; simp only [compileExpr, hi]; lay
  case case30 =>
    intro wp c e s ih
    cases s <;> simp only [compileExpr, if_true, Bool.false_eq_true, if_false] <;> lay
  case case32 =>
    intro wp c e sub ih
    simp only [compileExpr]
    have hI : ∀ (ks : List Nat) P, TgtsP P (ks.map fun k => (Instruction.Identifier k : Instr)) := by
      intro ks P; refine ⟨?_⟩; intro j hj l hl
      obtain ⟨k, _, rfl⟩ := List.mem_map.mp hj; simp [instrLabel] at hl
    have hR : ∀ (ks : List Nat) lo hi, ResIn lo hi (ks.map fun k => (Instruction.Identifier k : Instr)) := by
      intro ks lo hi; refine ⟨?_⟩; intro j hj n hn
      obtain ⟨k, _, rfl⟩ := List.mem_map.mp hj; simp [instrRes] at hn
    by_cases hz : (Defs.fields sd sub).length = 0
    · simp only [hz, if_true]
      refine ⟨?_, ?_, ?_⟩ <;> dsimp only
      · simp only [tgtsP_append, tgtsP_cons, tgtsP_nil, and_true, List.cons_append]
        refine ⟨by intro l hl; simp [instrLabel] at hl, ⟨ih.tg' (fun l h => h), hI _ _⟩, by intro l hl; simp [instrLabel] at hl⟩
      · simp only [resIn_append, resIn_cons, resIn_nil, and_true, List.cons_append]
        refine ⟨by intro n hn; simp [instrRes] at hn, ⟨ih.rs' (by omega) (by simp only [List.length_append, List.length_cons]; omega), hR _ _ _⟩,
          by intro n hn; simp [instrRes] at hn⟩
      · exact ih.ad' (by omega) (by simp only [List.length_append, List.length_cons]; omega)
    · simp only [hz, if_false]
      refine ⟨?_, ?_, ?_⟩ <;> dsimp only
      · simp only [tgtsP_append, tgtsP_cons, tgtsP_nil, and_true, List.cons_append]
        refine ⟨by intro l hl; simp [instrLabel] at hl, ⟨ih.tg' (fun l h => h), hI _ _⟩, by intro l hl; simp [instrLabel] at hl,
          by intro l hl; simp [instrLabel] at hl⟩
      · simp only [resIn_append, resIn_cons, resIn_nil, and_true, List.cons_append]
        refine ⟨by intro n hn; simp [instrRes] at hn, ⟨ih.rs' (by omega) (by simp only [List.length_append, List.length_cons]; omega), hR _ _ _⟩,
          by intro n hn; simp [instrRes] at hn, by intro n hn; simp [instrRes] at hn⟩
      · exact ih.ad' (by omega) (by simp only [List.length_append, List.length_cons]; omega)
  case case34 =>
    intro wp c scrut arms ihS ihT ihA
    obtain ⟨bd, addrs, _, hk, hp⟩ := (good_all sd).2.1 (wp + (compileExpr sd wp c scrut).code.length +
      (compileTestsE sd (wp + (compileExpr sd wp c scrut).code.length) ((compileExpr sd wp c scrut).c + 1) arms).1.code.length)
      (compileTestsE sd (wp + (compileExpr sd wp c scrut).code.length) ((compileExpr sd wp c scrut).c + 1) arms).1.c
      (Label.anon (compileExpr sd wp c scrut).c)
      (compileTestsE sd (wp + (compileExpr sd wp c scrut).code.length) ((compileExpr sd wp c scrut).c + 1) arms).2 arms
    have hsub : ∀ l ∈ (compileTestsE sd (wp + (compileExpr sd wp c scrut).code.length) ((compileExpr sd wp c scrut).c + 1) arms).2,
        l ∈ (compileArmsE sd (wp + (compileExpr sd wp c scrut).code.length +
          (compileTestsE sd (wp + (compileExpr sd wp c scrut).code.length) ((compileExpr sd wp c scrut).c + 1) arms).1.code.length)
          (compileTestsE sd (wp + (compileExpr sd wp c scrut).code.length) ((compileExpr sd wp c scrut).c + 1) arms).1.c
          (Label.anon (compileExpr sd wp c scrut).c)
          (compileTestsE sd (wp + (compileExpr sd wp c scrut).code.length) ((compileExpr sd wp c scrut).c + 1) arms).2 arms).defs.map (·.1) := by
      intro l hl
      rw [(hp.map _).mem_iff, List.map_append, List.mem_append, hk, List.take_of_length_le (Nat.le_of_eq (testsE_len sd arms _ _))]
      exact Or.inl hl
    simp only [compileExpr]
    refine ⟨?_, ?_, ?_⟩ <;> dsimp only
    · simp only [tgtsP_append]
      refine ⟨⟨ihS.tg' ?_, ihT.tg' ?_⟩, ihA.tg' ?_⟩
      all_goals (intro l hl; simp only [List.map_append, List.map_cons, List.map_nil, List.mem_append, List.mem_cons, List.not_mem_nil, or_false, false_or, or_assoc] at hl ⊢)
      · rcases hl with h | h <;> orfind h
      · rcases hl with h | h | h
        · orfind h
        · have h' := hsub l h; orfind h'
        · orfind h
      · rcases hl with h | h | h <;> orfind h
    · lay_rs
    · lay_ad
  case case37 =>
    intro wp c scrut arms ihS ihT ihA
    obtain ⟨bd, addrs, _, hk, hp⟩ := (good_all sd).2.2.2.2.2.2.2.1 (wp + (compileExpr sd wp c scrut).code.length +
      (compileTestsS sd (wp + (compileExpr sd wp c scrut).code.length) ((compileExpr sd wp c scrut).c + 1) arms).1.code.length)
      (compileTestsS sd (wp + (compileExpr sd wp c scrut).code.length) ((compileExpr sd wp c scrut).c + 1) arms).1.c
      (Label.anon (compileExpr sd wp c scrut).c)
      (compileTestsS sd (wp + (compileExpr sd wp c scrut).code.length) ((compileExpr sd wp c scrut).c + 1) arms).2 arms
    have hsub : ∀ l ∈ (compileTestsS sd (wp + (compileExpr sd wp c scrut).code.length) ((compileExpr sd wp c scrut).c + 1) arms).2,
        l ∈ (compileArmsS sd (wp + (compileExpr sd wp c scrut).code.length +
          (compileTestsS sd (wp + (compileExpr sd wp c scrut).code.length) ((compileExpr sd wp c scrut).c + 1) arms).1.code.length)
          (compileTestsS sd (wp + (compileExpr sd wp c scrut).code.length) ((compileExpr sd wp c scrut).c + 1) arms).1.c
          (Label.anon (compileExpr sd wp c scrut).c)
          (compileTestsS sd (wp + (compileExpr sd wp c scrut).code.length) ((compileExpr sd wp c scrut).c + 1) arms).2 arms).defs.map (·.1) := by
      intro l hl
      rw [(hp.map _).mem_iff, List.map_append, List.mem_append, hk, List.take_of_length_le (Nat.le_of_eq (testsS_len sd arms _ _))]
      exact Or.inl hl
    simp only [compileStmt]
    refine ⟨?_, ?_, ?_⟩ <;> dsimp only
    · simp only [tgtsP_append]
      refine ⟨⟨ihS.tg' ?_, ihT.tg' ?_⟩, ihA.tg' ?_⟩
      all_goals (intro l hl; simp only [List.map_append, List.map_cons, List.map_nil, List.mem_append, List.mem_cons, List.not_mem_nil, or_false, false_or, or_assoc] at hl ⊢)
      · rcases hl with h | h <;> orfind h
      · rcases hl with h | h | h
        · orfind h
        · have h' := hsub l h; orfind h'
        · orfind h
      · rcases hl with h | h | h <;> orfind h
    · lay_rs
    · lay_ad
  case case38 =>
    intro wp c brs hasElse els ihB ihS
    cases hasElse <;> simp only [compileStmt, if_true, Bool.false_eq_true, if_false, List.append_nil, List.length_nil, Nat.add_zero] <;> lay
  case case44 => intro wp c arm e es w hw ih; simp only [compilePatVals, hw]; lay
  case case45 => intro wp c arm e es hw ihE ihR; simp only [compilePatVals, hw]; lay
  case case50 =>
    intro wp c end_ l ls pat body rest ihB ihR
    cases pat with
    | default => simp only [compileArmsE] at ihB ihR ⊢; lay
    | values vs =>
      cases hf : firstBinding vs with
      | none => simp only [compileArmsE, hf] at ihB ihR ⊢; lay
      | some wx => obtain ⟨w, x⟩ := wx; simp only [compileArmsE, hf] at ihB ihR ⊢; lay
  case case55 =>
    intro wp c end_ l ls pat body rest ihB ihR
    cases pat with
    | default => simp only [compileArmsS] at ihB ihR ⊢; lay
    | values vs =>
      cases hf : firstBinding vs with
      | none => simp only [compileArmsS, hf] at ihB ihR ⊢; lay
      | some wx => obtain ⟨w, x⟩ := wx; simp only [compileArmsS, hf] at ihB ihR ⊢; lay
  all_goals intros
  all_goals (try simp only [compileExpr, compileArgs, compileFields, compileStmt, compileStmts, compileBranches, compilePatVals, compileTestsE, compileTestsS, compileArmsE, compileArmsS])
  all_goals (try lay)

/-! ### whole functions and programs -/

/-- strict variant for complete functions: every address and resolved target lies strictly inside -/
structure LayLt (wp : Nat) (o : Out) : Prop where
  tg : TgtsP (fun l => isFnLabel l ∨ l ∈ o.defs.map (·.1)) o.code
  rs : ∀ i ∈ o.code, ∀ n, instrRes i = some n → n < wp + o.code.length
  ad : ∀ q ∈ o.defs, q.2 < wp + o.code.length

theorem fun_layLt (sd : Defs) (wp c : Nat) (fd : FunDef) : LayLt wp (compileFun sd wp c fd) := by
  have hB := (lay_all sd).2.2.2.2.1 (wp + ((fd.params.reverse.map fun (x : Nat × Ty) => (Instruction.Def x.1 : Instr)) ++ [Instruction.SaveSP]).length) c fd.body
  have hpro : ∀ i ∈ ((fd.params.reverse.map fun (x : Nat × Ty) => (Instruction.Def x.1 : Instr)) ++ [Instruction.SaveSP]),
      instrLabel i = none ∧ instrRes i = none := by
    intro i hi
    rcases List.mem_append.mp hi with h | h
    · obtain ⟨x, _, rfl⟩ := List.mem_map.mp h; exact ⟨rfl, rfl⟩
    · simp only [List.mem_singleton] at h; subst h; exact ⟨rfl, rfl⟩
  refine ⟨⟨?_⟩, ?_, ?_⟩
  · intro i hi l hl
    simp only [compileFun, List.mem_append, List.mem_singleton] at hi
    rcases hi with (h | h) | h
    · rw [(hpro i (by simpa using h)).1] at hl; cases hl
    · have := hB.tg.h i h l hl
      simp only [compileFun, List.map_cons, List.mem_cons]
      rcases this with h1 | h1 | h1
      · exact Or.inl h1
      · cases h1
      · exact Or.inr (Or.inr h1)
    · subst h; cases hl
  · intro i hi n hn
    simp only [compileFun, List.mem_append, List.mem_singleton] at hi
    rcases hi with (h | h) | h
    · rw [(hpro i (by simpa using h)).2] at hn; cases hn
    · have := (hB.rs.h i h n hn).2
      simp only [compileFun, List.length_append, List.length_singleton] at this ⊢
      omega
    · subst h; cases hn
  · intro q hq
    simp only [compileFun, List.mem_cons] at hq
    rcases hq with rfl | h
    · simp only [compileFun, List.length_append, List.length_singleton]; omega
    · have := (hB.ad.h q h).2
      simp only [compileFun, List.length_append, List.length_singleton] at this ⊢
      omega

theorem funs_layLt (sd : Defs) : ∀ (funs : List FunDef) (wp c : Nat), LayLt wp (compileFuns sd wp c funs)
  | [], wp, c => ⟨⟨by simp [compileFuns]⟩, by simp [compileFuns], by simp [compileFuns]⟩
  | fd :: rest, wp, c => by
    have hF := fun_layLt sd wp c fd
    have hR := funs_layLt sd rest (wp + (compileFun sd wp c fd).code.length) (compileFun sd wp c fd).c
    refine ⟨⟨?_⟩, ?_, ?_⟩
    · intro i hi l hl
      simp only [compileFuns, List.mem_append] at hi
      simp only [compileFuns, List.map_append, List.mem_append]
      rcases hi with h | h
      · rcases hF.tg.h i h l hl with h1 | h1
        · exact Or.inl h1
        · exact Or.inr (Or.inl h1)
      · rcases hR.tg.h i h l hl with h1 | h1
        · exact Or.inl h1
        · exact Or.inr (Or.inr h1)
    · intro i hi n hn
      simp only [compileFuns, List.mem_append] at hi
      simp only [compileFuns, List.length_append]
      rcases hi with h | h
      · have := hF.rs i h n hn; omega
      · have := hR.rs i h n hn; omega
    · intro q hq
      simp only [compileFuns, List.mem_append] at hq
      simp only [compileFuns, List.length_append]
      rcases hq with h | h
      · have := hF.ad q h; omega
      · have := hR.ad q h; omega

theorem lookup_isSome_of_mem : ∀ {labels : List (Label × Nat)} {l : Label}, l ∈ labels.map (·.1) →
    ∃ a, lookupLabel labels l = some a ∧ (l, a) ∈ labels
  | [], l, h => by simp at h
  | (k, a) :: rest, l, h => by
    simp only [lookupLabel, List.find?_cons]
    by_cases hk : k = l
    · subst hk; exact ⟨a, by simp, List.mem_cons_self ..⟩
    · have hne : (k == l) = false := by simpa using hk
      simp only [hne]
      simp only [List.map_cons, List.mem_cons] at h
      rcases h with h | h
      · exact absurd h.symm hk
      · obtain ⟨a', h1, h2⟩ := lookup_isSome_of_mem h
        exact ⟨a', by simpa [lookupLabel] using h1, List.mem_cons_of_mem _ h2⟩

theorem resolveTargets_some {labels : List (Label × Nat)} : ∀ (code : List Instr),
    (∀ i ∈ code, ∀ l, instrLabel i = some l → l ∈ labels.map (·.1)) →
    ∃ prog, resolveTargets labels code = some prog
  | [], _ => ⟨[], rfl⟩
  | i :: is, h => by
    obtain ⟨prog, hp⟩ := resolveTargets_some is (fun j hj => h j (List.mem_cons_of_mem _ hj))
    have hi : ∃ i', resolveInstr labels i = some i' := by
      have h0 := h i (List.mem_cons_self ..)
      cases i <;> try exact ⟨_, rfl⟩
      all_goals
        rename_i t
        cases t with
        | Resolved n => exact ⟨_, rfl⟩
        | Unresolved l =>
          obtain ⟨a, ha, _⟩ := lookup_isSome_of_mem (h0 l rfl)
          simp [resolveInstr, resolveTarget, ha]
    obtain ⟨i', hi'⟩ := hi
    exact ⟨i' :: prog, by simp [resolveTargets, hi', hp]⟩

theorem fn_label_mem (sd : Defs) : ∀ (funs : List FunDef) (wp c : Nat) (fd : FunDef), fd ∈ funs →
    Label.fn fd.name ∈ (compileFuns sd wp c funs).defs.map (·.1)
  | [], _, _, _, h => by cases h
  | g :: rest, wp, c, fd, h => by
    simp only [compileFuns, List.map_append, List.mem_append]
    rcases List.mem_cons.mp h with rfl | h'
    · exact Or.inl (by simp [compileFun])
    · exact Or.inr (fn_label_mem sd rest _ _ fd h')

theorem instrRes_res {labels : List (Label × Nat)} {i : Instr} {n : Nat} (h : instrRes (res labels i) = some n) :
    instrRes i = some n ∨ ∃ l, instrLabel i = some l ∧ lookupLabel labels l = some n := by
  cases i <;> try (exact Or.inl h)
  all_goals
    rename_i t
    cases t with
    | Resolved m => exact Or.inl h
    | Unresolved l =>
      right
      refine ⟨l, rfl, ?_⟩
      simp only [res, resT] at h
      cases hl : lookupLabel labels l with
      | none => rw [hl] at h; simp [instrRes] at h
      | some a => rw [hl] at h; simp only [instrRes, Option.some.injEq] at h; rw [h]

theorem lookup_mem {labels : List (Label × Nat)} {l : Label} {a : Nat} (h : lookupLabel labels l = some a) : (l, a) ∈ labels := by
  simp only [lookupLabel, Option.map_eq_some_iff] at h
  obtain ⟨q, hq, rfl⟩ := h
  have h1 := List.mem_of_find?_eq_some hq
  have h2 := List.find?_some hq
  have : q.1 = l := by simpa using h2
  rw [← this]; exact h1

/-- **resolve_total**: for model-compiled code with distinct function names in which every `Call`
names a defined function (lowering only admits calls to declared functions), `compileProgram`
succeeds: no duplicate label, every referenced label is defined; afterwards no instruction carries
an unresolved target and every target is a valid program address. -/
theorem resolve_total_core (sd : Defs) (funs : List FunDef) (hn : (funs.map (·.name)).Nodup)
    (hcalls : ∀ i ∈ (compileUnresolved sd funs).code, ∀ f, instrLabel i = some (.fn f) → ∃ fd ∈ funs, fd.name = f) :
    ∃ cp, compileProgram sd funs = some cp ∧
      (∀ i ∈ cp.prog, ∀ n, instrRes i = some n → n < cp.prog.length) := by
  have hL := funs_layLt sd funs 1 0
  have hdist := labels_never_collide sd funs hn
  have hmem : ∀ i ∈ (compileUnresolved sd funs).code, ∀ l, instrLabel i = some l →
      l ∈ (compileUnresolved sd funs).defs.map (·.1) := by
    intro i hi l hl
    have hi' : i ∈ (compileFuns sd 1 0 funs).code := by
      simp only [compileUnresolved, List.mem_cons] at hi
      rcases hi with rfl | h
      · cases hl
      · exact h
    rcases hL.tg.h i hi' l hl with h1 | h1
    · cases l with
      | anon k => cases h1
      | fn f =>
        obtain ⟨fd, hfd, rfl⟩ := hcalls i hi f hl
        exact fn_label_mem sd funs 1 0 fd hfd
    · exact h1
  obtain ⟨prog, hp⟩ := resolveTargets_some (labels := (compileUnresolved sd funs).defs) _ hmem
  refine ⟨⟨prog, (compileUnresolved sd funs).defs⟩, by simp [compileProgram, hdist, hp], ?_⟩
  have hprog := resolveTargets_eq hp
  intro i' hi' n hn'
  simp only at hi' ⊢
  rw [hprog] at hi' ⊢
  obtain ⟨i, hi, rfl⟩ := List.mem_map.mp hi'
  simp only [List.length_map]
  have hlen : (compileUnresolved sd funs).code.length = 1 + (compileFuns sd 1 0 funs).code.length := by
    simp [compileUnresolved]; omega
  have hiF : i = Instruction.Exit ExitReason.Panic ∨ i ∈ (compileFuns sd 1 0 funs).code := by
    simpa [compileUnresolved] using hi
  rcases instrRes_res hn' with h | ⟨l, hl, hlk⟩
  · rcases hiF with rfl | h'
    · cases h
    · have := hL.rs i h' n h; omega
  · have hq := lookup_mem hlk
    have := hL.ad (l, n) (by simpa [compileUnresolved] using hq)
    simp only at this
    omega

end AranyaV.Lang
