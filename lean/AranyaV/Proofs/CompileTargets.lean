import AranyaV.Proofs.CompileLayout
/-!
C24 `resolve_total`: every label referenced by model-compiled code is defined (or is a function
label), every label address and every already-resolved target lies inside the code it belongs to.
-/
namespace AranyaV.Lang
open AranyaV.Gen.Lang

/-- the unresolved label an instruction carries, if any -/
def instrLabel : Instr → Option Label
  | .Branch (.Unresolved l) | .Jump (.Unresolved l) | .Call (.Unresolved l) | .Recall (.Unresolved l) => some l
  | _ => none

/-- the resolved target an instruction carries, if any -/
def instrRes : Instr → Option Nat
  | .Branch (.Resolved n) | .Jump (.Resolved n) | .Call (.Resolved n) | .Recall (.Resolved n) => some n
  | _ => none

def isFnLabel : Label → Prop
  | .fn _ => True
  | .anon _ => False

structure TgtsP (P : Label → Prop) (code : List Instr) : Prop where
  h : ∀ i ∈ code, ∀ l, instrLabel i = some l → P l
structure ResIn (lo hi : Nat) (code : List Instr) : Prop where
  h : ∀ i ∈ code, ∀ n, instrRes i = some n → lo ≤ n ∧ n ≤ hi
structure AddrsIn (lo hi : Nat) (defs : List (Label × Nat)) : Prop where
  h : ∀ q ∈ defs, lo ≤ q.2 ∧ q.2 ≤ hi

theorem tgtsP_nil {P} : TgtsP P [] := ⟨by simp⟩
theorem tgtsP_append {P a b} : TgtsP P (a ++ b) ↔ TgtsP P a ∧ TgtsP P b :=
  ⟨fun h => ⟨⟨fun i hi => h.h i (List.mem_append.mpr (Or.inl hi))⟩, ⟨fun i hi => h.h i (List.mem_append.mpr (Or.inr hi))⟩⟩,
   fun h => ⟨fun i hi => (List.mem_append.mp hi).elim (h.1.h i) (h.2.h i)⟩⟩
theorem tgtsP_cons {P i r} : TgtsP P (i :: r) ↔ (∀ l, instrLabel i = some l → P l) ∧ TgtsP P r :=
  ⟨fun h => ⟨h.h i (List.mem_cons_self ..), ⟨fun j hj => h.h j (List.mem_cons_of_mem _ hj)⟩⟩,
   fun h => ⟨fun j hj => (List.mem_cons.mp hj).elim (fun e => e ▸ h.1) (h.2.h j)⟩⟩
theorem TgtsP.mono {P Q code} (h : TgtsP P code) (hpq : ∀ l, P l → Q l) : TgtsP Q code :=
  ⟨fun i hi l hl => hpq l (h.h i hi l hl)⟩

theorem resIn_nil {lo hi} : ResIn lo hi [] := ⟨by simp⟩
theorem resIn_append {lo hi a b} : ResIn lo hi (a ++ b) ↔ ResIn lo hi a ∧ ResIn lo hi b :=
  ⟨fun h => ⟨⟨fun i hi => h.h i (List.mem_append.mpr (Or.inl hi))⟩, ⟨fun i hi => h.h i (List.mem_append.mpr (Or.inr hi))⟩⟩,
   fun h => ⟨fun i hi => (List.mem_append.mp hi).elim (h.1.h i) (h.2.h i)⟩⟩
theorem resIn_cons {lo hi i r} : ResIn lo hi (i :: r) ↔ (∀ n, instrRes i = some n → lo ≤ n ∧ n ≤ hi) ∧ ResIn lo hi r :=
  ⟨fun h => ⟨h.h i (List.mem_cons_self ..), ⟨fun j hj => h.h j (List.mem_cons_of_mem _ hj)⟩⟩,
   fun h => ⟨fun j hj => (List.mem_cons.mp hj).elim (fun e => e ▸ h.1) (h.2.h j)⟩⟩
theorem ResIn.mono {lo hi lo' hi' code} (h : ResIn lo hi code) (h1 : lo' ≤ lo) (h2 : hi ≤ hi') : ResIn lo' hi' code :=
  ⟨fun i hi n hn => ⟨Nat.le_trans h1 (h.h i hi n hn).1, Nat.le_trans (h.h i hi n hn).2 h2⟩⟩

theorem addrsIn_nil {lo hi} : AddrsIn lo hi [] := ⟨by simp⟩
theorem addrsIn_append {lo hi a b} : AddrsIn lo hi (a ++ b) ↔ AddrsIn lo hi a ∧ AddrsIn lo hi b :=
  ⟨fun h => ⟨⟨fun i hi => h.h i (List.mem_append.mpr (Or.inl hi))⟩, ⟨fun i hi => h.h i (List.mem_append.mpr (Or.inr hi))⟩⟩,
   fun h => ⟨fun i hi => (List.mem_append.mp hi).elim (h.1.h i) (h.2.h i)⟩⟩
theorem addrsIn_cons {lo hi q r} : AddrsIn lo hi (q :: r) ↔ (lo ≤ q.2 ∧ q.2 ≤ hi) ∧ AddrsIn lo hi r :=
  ⟨fun h => ⟨h.h q (List.mem_cons_self ..), ⟨fun j hj => h.h j (List.mem_cons_of_mem _ hj)⟩⟩,
   fun h => ⟨fun j hj => (List.mem_cons.mp hj).elim (fun e => e ▸ h.1) (h.2.h j)⟩⟩
theorem AddrsIn.mono {lo hi lo' hi' d} (h : AddrsIn lo hi d) (h1 : lo' ≤ lo) (h2 : hi ≤ hi') : AddrsIn lo' hi' d :=
  ⟨fun q hq => ⟨Nat.le_trans h1 (h.h q hq).1, Nat.le_trans (h.h q hq).2 h2⟩⟩

/-- layout facts of one compiled fragment placed at `wp`; `ext` are labels it may reference but
does not define itself (arm labels for the test phase, the end label for arms and `if` chains) -/
structure Lay (ext : List Label) (wp : Nat) (o : Out) : Prop where
  tg : TgtsP (fun l => isFnLabel l ∨ l ∈ ext ∨ l ∈ o.defs.map (·.1)) o.code
  rs : ResIn wp (wp + o.code.length) o.code
  ad : AddrsIn wp (wp + o.code.length) o.defs

theorem Lay.tg' {ext wp o Q} (h : Lay ext wp o)
    (hq : ∀ l, (isFnLabel l ∨ l ∈ ext ∨ l ∈ o.defs.map (·.1)) → Q l) : TgtsP Q o.code := h.tg.mono hq
theorem Lay.rs' {ext wp o lo hi} (h : Lay ext wp o) (h1 : lo ≤ wp) (h2 : wp + o.code.length ≤ hi) : ResIn lo hi o.code :=
  h.rs.mono h1 h2
theorem Lay.ad' {ext wp o lo hi} (h : Lay ext wp o) (h1 : lo ≤ wp) (h2 : wp + o.code.length ≤ hi) : AddrsIn lo hi o.defs :=
  h.ad.mono h1 h2

end AranyaV.Lang
