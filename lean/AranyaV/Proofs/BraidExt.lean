import AranyaV.Proofs.BraidRef
/-!
# Proofs.BraidExt — the braid only looks at the ancestors of the heads

`refBraid (g ++ ext) hs = refBraid g hs`: commands appended to a graph (which cannot be ancestors
of commands already there) do not change the braid of heads of the old graph.  Ingredients:
a congruence of `braidLoop` *relative to the region* (the loop only ever touches ids of the
region), the fact that the region of old heads is the same in the extended graph, and stability of
every non-`malformed` result under additional fuel.
-/
namespace AranyaV.Spec
open AranyaV.Gen

/-! ## congruence relative to a region -/

theorem minAvail_mem {g : Graph} : ∀ (A : List Nat) (c : Cmd), minAvail g A = some c → ∃ x ∈ A, g.find? x = some c := by
  intro A
  induction A with
  | nil => intro c h; simp [minAvail] at h
  | cons x xs ih =>
    intro c h
    simp only [minAvail] at h
    cases hfx : g.find? x with
    | none =>
      rw [hfx] at h
      obtain ⟨y, hy, hyc⟩ := ih c h
      exact ⟨y, by simp [hy], hyc⟩
    | some cx =>
      rw [hfx] at h
      cases hm : minAvail g xs with
      | none =>
        rw [hm] at h
        simp only [Option.some.injEq] at h
        subst h
        exact ⟨x, by simp, hfx⟩
      | some m =>
        rw [hm] at h
        simp only at h
        by_cases hk : keyLt cx m = true
        · simp only [hk, if_true, Option.some.injEq] at h
          subst h; exact ⟨x, by simp, hfx⟩
        · simp only [hk, Bool.false_eq_true, if_false, Option.some.injEq] at h
          subst h
          obtain ⟨y, hy, hyc⟩ := ih m hm
          exact ⟨y, by simp [hy], hyc⟩

theorem minAvail_congr_on {g g' : Graph} {R : List Nat} (hf : ∀ i ∈ R, g.find? i = g'.find? i) :
    ∀ A : List Nat, (∀ x ∈ A, x ∈ R) → minAvail g A = minAvail g' A := by
  intro A
  induction A with
  | nil => intro _; rfl
  | cons x xs ih =>
    intro hA
    simp only [minAvail]
    rw [hf x (hA x (by simp)), ih (fun y hy => hA y (by simp [hy]))]

theorem isFinalize_congr_on {g g' : Graph} {R : List Nat} (hf : ∀ i ∈ R, g.find? i = g'.find? i)
    {x : Nat} (hx : x ∈ R) : isFinalize g x = isFinalize g' x := by
  simp only [isFinalize, hf x hx]

theorem addAvail_congr_on {g g' : Graph} {R : List Nat} (hf : ∀ i ∈ R, g.find? i = g'.find? i) :
    ∀ (xs A : List Nat), (∀ x ∈ xs, x ∈ R) → (∀ x ∈ A, x ∈ R) → addAvail g A xs = addAvail g' A xs := by
  intro xs
  induction xs with
  | nil => intro A _ _; rfl
  | cons x xs ih =>
    intro A hxs hA
    simp only [addAvail]
    have hx : x ∈ R := hxs x (by simp)
    have hany : A.any (isFinalize g) = A.any (isFinalize g') := by
      rw [Bool.eq_iff_iff]
      simp only [List.any_eq_true]
      constructor
      · rintro ⟨y, hy, h⟩; exact ⟨y, hy, by rw [← isFinalize_congr_on hf (hA y hy)]; exact h⟩
      · rintro ⟨y, hy, h⟩; exact ⟨y, hy, by rw [isFinalize_congr_on hf (hA y hy)]; exact h⟩
    rw [isFinalize_congr_on hf hx, hany]
    rw [ih (A ++ [x]) (fun y hy => hxs y (by simp [hy]))
      (fun y hy => by
        simp only [List.mem_append, List.mem_singleton] at hy
        rcases hy with hy | rfl
        · exact hA y hy
        · exact hx)]

theorem braidLoop_congr_on {g g' : Graph} {R R' : List Nat} (hR : ∀ x, x ∈ R ↔ x ∈ R')
    (hf : ∀ i ∈ R, g.find? i = g'.find? i)
    (hc : ∀ p ∈ R, ∀ y, (y ∈ children g p ∧ y ∈ R) ↔ (y ∈ children g' p ∧ y ∈ R))
    (hup : ∀ i ∈ R, ∀ c, g.find? i = some c → ∀ p ∈ c.parents, p ∈ R) :
    ∀ (fuel : Nat) (s : BState), (∀ x ∈ s.avail, x ∈ R) → braidLoop g R fuel s = braidLoop g' R' fuel s := by
  intro fuel
  induction fuel with
  | zero => intro s _; rfl
  | succ n ih =>
    intro s hA
    rw [braidLoop, braidLoop, ← minAvail_congr_on hf s.avail hA]
    split
    · rfl
    · cases hm : minAvail g s.avail with
      | none => rfl
      | some c =>
        simp only
        obtain ⟨x, hxA, hxc⟩ := minAvail_mem s.avail c hm
        have hpar : ∀ p ∈ c.parents, p ∈ R := hup x (hA x hxA) c hxc
        -- the ready lists agree
        have hready : c.parents.filter (fun p => !(s.avail.erase c.id).contains p &&
              ((children g p).filter (R.contains ·)).all ((c.id :: s.processed).contains ·)) =
            c.parents.filter (fun p => !(s.avail.erase c.id).contains p &&
              ((children g' p).filter (R'.contains ·)).all ((c.id :: s.processed).contains ·)) := by
          apply List.filter_congr
          intro p hp
          congr 1
          rw [Bool.eq_iff_iff]
          simp only [List.all_eq_true, List.mem_filter, List.contains_eq_mem, decide_eq_true_eq]
          constructor
          · intro h y hy
            have := (hc p (hpar p hp) y).mpr ⟨hy.1, (hR y).mpr hy.2⟩
            exact h y ⟨this.1, this.2⟩
          · intro h y hy
            have := (hc p (hpar p hp) y).mp ⟨hy.1, hy.2⟩
            exact h y ⟨this.1, (hR y).mp this.2⟩
        rw [← hready]
        have hA' : ∀ y ∈ s.avail.erase c.id, y ∈ R := fun y hy => hA y (List.mem_of_mem_erase hy)
        have hrd : ∀ y ∈ (c.parents.filter (fun p => !(s.avail.erase c.id).contains p &&
              ((children g p).filter (R.contains ·)).all ((c.id :: s.processed).contains ·))).eraseDups, y ∈ R := by
          intro y hy
          have hy' := List.mem_eraseDups.mp hy
          exact hpar y (List.mem_filter.mp hy').1
        rw [← addAvail_congr_on hf _ _ hrd hA']
        cases ha : addAvail g (s.avail.erase c.id) _ with
        | error e => rfl
        | ok a =>
          simp only
          apply ih
          intro y hy
          obtain ⟨ea, _⟩ := addAvail_ok _ _ _ ha
          simp only at hy
          rw [ea, List.mem_append] at hy
          rcases hy with hy | hy
          · exact hA' y hy
          · exact hrd y hy

/-! ## more fuel does not change a result -/

theorem braidLoop_unfold (g : Graph) (R : List Nat) (n : Nat) (s : BState) :
    braidLoop g R (n + 1) s =
      match s.avail with
      | [x] => .ok (x, s.out)
      | _ =>
        match minAvail g s.avail with
        | none => .error .malformed
        | some c =>
          match addAvail g (s.avail.erase c.id)
            (c.parents.filter (fun p => !(s.avail.erase c.id).contains p &&
              ((children g p).filter (R.contains ·)).all ((c.id :: s.processed).contains ·))).eraseDups with
          | .error e => .error e
          | .ok avail' => braidLoop g R n
              { processed := c.id :: s.processed, avail := avail',
                out := if isMerge c then s.out else c.id :: s.out } := by
  rw [braidLoop]
  rfl

theorem braidLoop_fuel_succ {g : Graph} {R : List Nat} : ∀ (fuel : Nat) (s : BState) (r : Except BraidErr (Nat × List Nat)),
    braidLoop g R fuel s = r → r ≠ .error .malformed → braidLoop g R (fuel + 1) s = r := by
  intro fuel
  induction fuel with
  | zero => intro s r h hr; simp only [braidLoop] at h; exact absurd h.symm hr
  | succ n ih =>
    intro s r h hr
    rw [braidLoop_unfold] at h ⊢
    split
    · rename_i x hx
      simp only [hx] at h
      exact h
    · rename_i hns
      split at h
      · rename_i x hx; exact absurd hx (hns x)
      · cases hm : minAvail g s.avail with
        | none => rw [hm] at h; exact h
        | some c =>
          rw [hm] at h
          simp only at h ⊢
          cases ha : addAvail g (s.avail.erase c.id)
            (c.parents.filter (fun p => !(s.avail.erase c.id).contains p &&
              ((children g p).filter (R.contains ·)).all ((c.id :: s.processed).contains ·))).eraseDups with
          | error e => rw [ha] at h; exact h
          | ok a =>
            rw [ha] at h
            simp only at h ⊢
            exact ih _ r h hr

theorem braidLoop_fuel_add {g : Graph} {R : List Nat} (fuel : Nat) (s : BState)
    (r : Except BraidErr (Nat × List Nat)) (h : braidLoop g R fuel s = r) (hr : r ≠ .error .malformed) :
    ∀ k, braidLoop g R (fuel + k) s = r := by
  intro k
  induction k with
  | zero => exact h
  | succ k ih => exact braidLoop_fuel_succ (fuel + k) s r ih hr

/-! ## the region of old heads in an extended graph -/

theorem reach_ext {g : Graph} : ∀ (ext : Graph), WF (g ++ ext) → ∀ {x b : Nat}, b ∈ ids g →
    (Reach (g ++ ext) x b ↔ Reach g x b) := by
  intro ext
  induction h : ext.length generalizing ext with
  | zero =>
    have : ext = [] := List.length_eq_zero_iff.mp h
    subst this
    intro _ x b _
    simp
  | succ n ih =>
    intro hw x b hb
    obtain ⟨init, last, rfl⟩ : ∃ init last, ext = init ++ [last] := by
      rcases List.eq_nil_or_concat ext with h0 | ⟨i, l, hl⟩
      · subst h0; simp at h
      · exact ⟨i, l, by simpa using hl⟩
    have hlen : init.length = n := by simp at h; omega
    have hw' : WF ((g ++ init) ++ [last]) := by simpa [List.append_assoc] using hw
    have hwi : WF (g ++ init) := hw'.snoc_inv.1
    have hne : b ≠ last.id := by
      intro e
      apply hw'.snoc_inv.2.1
      rw [← e]
      simp only [ids, List.map_append, List.mem_append]
      exact Or.inl hb
    rw [← List.append_assoc]
    constructor
    · intro hr
      exact (ih init hlen hwi hb).mp (hr.snoc_ne hw' hne)
    · intro hr
      exact ((ih init hlen hwi hb).mpr hr).mono

theorem find?_ext {g : Graph} (ext : Graph) {i : Nat} (hi : i ∈ ids g) :
    Graph.find? (g ++ ext) i = Graph.find? g i := by
  obtain ⟨c, hc⟩ := find?_isSome hi
  unfold Graph.find? at *
  rw [List.find?_append, hc]
  rfl

/-- **The braid only looks at the ancestors of the heads**: appending commands to the graph does
not change the braid of old heads. -/
theorem refBraid_ext {g ext : Graph} (hw : WF g) (hw' : WF (g ++ ext)) {hs : List Nat} (hh : Heads g hs) :
    refBraid (g ++ ext) hs = refBraid g hs := by
  have hR := region_ancSelfAll hw hh.sub
  have hRset : ∀ x, x ∈ ancSelfAll g hs ↔ x ∈ ancSelfAll (g ++ ext) hs := by
    intro x
    rw [mem_ancSelfAll hw, mem_ancSelfAll hw']
    constructor
    · rintro ⟨b, hb, hr⟩; exact ⟨b, hb, (reach_ext ext hw' (hh.sub b hb)).mpr hr⟩
    · rintro ⟨b, hb, hr⟩; exact ⟨b, hb, (reach_ext ext hw' (hh.sub b hb)).mp hr⟩
  have hf : ∀ i ∈ ancSelfAll g hs, g.find? i = (g ++ ext).find? i :=
    fun i hi => (find?_ext ext (hR.sub i hi)).symm
  have hc : ∀ p ∈ ancSelfAll g hs, ∀ y, (y ∈ children g p ∧ y ∈ ancSelfAll g hs) ↔
      (y ∈ children (g ++ ext) p ∧ y ∈ ancSelfAll g hs) := by
    intro p _ y
    rw [mem_children, mem_children]
    constructor
    · rintro ⟨⟨d, hd, h1, h2⟩, hy⟩
      exact ⟨⟨d, by simp [hd], h1, h2⟩, hy⟩
    · rintro ⟨⟨d, hd, h1, h2⟩, hy⟩
      refine ⟨?_, hy⟩
      -- the command with id y is a command of g
      obtain ⟨d', hd', hd'id⟩ := mem_ids.mp (hR.sub y hy)
      have : d = d' := hw'.id_inj hd (by simp [hd']) (by rw [h1, hd'id])
      subst this
      exact ⟨d, hd', h1, h2⟩
  have hup : ∀ i ∈ ancSelfAll g hs, ∀ c, g.find? i = some c → ∀ p ∈ c.parents, p ∈ ancSelfAll g hs := by
    intro i hi c hfc p hp
    obtain ⟨hcg, hcid⟩ := (find?_eq_some hw).mp hfc
    exact hR.up i hi p ⟨c, hcg, hcid, hp⟩
  have hhs : ∀ x ∈ hs, x ∈ ancSelfAll g hs :=
    fun x hx => (mem_ancSelfAll hw hs x).mpr ⟨x, hx, Reach.refl _⟩
  unfold refBraid
  rw [← addAvail_congr_on hf hs [] hhs (by simp)]
  cases ha : addAvail g [] hs with
  | error e => rfl
  | ok a =>
    simp only
    obtain ⟨ea, _⟩ := addAvail_ok _ _ _ ha
    simp only [List.nil_append] at ea
    have ea' : hs = a := ea.symm
    subst ea'
    -- the result on g is not `malformed`
    have hres : braidLoop g (ancSelfAll g hs) (g.length + 1) { processed := [], avail := hs, out := [] }
        ≠ .error .malformed := by
      have := refBraid_spec hw hh
      unfold refBraid at this
      rw [ha] at this
      simp only at this
      intro e
      rw [e] at this
      exact this
    have h1 := braidLoop_congr_on hRset hf hc hup (g.length + 1) { processed := [], avail := hs, out := [] } hhs
    have h2 := braidLoop_fuel_add (g.length + 1) _ _ h1.symm hres ext.length
    have hlen : (g ++ ext).length + 1 = g.length + 1 + ext.length := by simp; omega
    rw [hlen, h2]

end AranyaV.Spec
