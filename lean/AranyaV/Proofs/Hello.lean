import AranyaV.Spec.Hello
namespace AranyaV.Spec.Hello
open AranyaV.Spec

theorem Sub.trans {a b c : HTerm} (h1 : Sub a b) (h2 : Sub b c) : Sub a c := by
  induction h2 with
  | refl => exact h1
  | left _ ih => exact .left ih
  | right _ ih => exact .right ih

/-- every queue element is a subterm of the fold result -/
theorem foldPairs_sub (fuel : Nat) (q : List HTerm) (t : HTerm) (h : foldPairs fuel q = some t) :
    ∀ x ∈ q, Sub x t := by
  induction fuel generalizing q with
  | zero =>
    match q, h with
    | [x], h => simp [foldPairs] at h; subst h; intro y hy; simp at hy; subst hy; exact .refl _
    | [], h => simp [foldPairs] at h
    | _ :: _ :: _, h => simp [foldPairs] at h
  | succ n ih =>
    match q, h with
    | [], h => simp [foldPairs] at h
    | [x], h => simp [foldPairs] at h; subst h; intro y hy; simp at hy; subst hy; exact .refl _
    | l :: r :: rest, h =>
      simp only [foldPairs] at h
      have := ih _ h
      intro y hy
      simp only [List.mem_cons] at hy
      rcases hy with rfl | rfl | hy
      · exact Sub.trans (.left (.refl _)) (this (.merge y r) (by simp))
      · exact Sub.trans (.right (.refl _)) (this (.merge l y) (by simp))
      · exact this y (by simp [hy])

/-- subterms are ancestors-or-self (a merge id determines its parents) -/
theorem Sub.ancSelf (par : Nat → List Id) {s t : HTerm} (h : Sub s t) : AncSelf par s t := by
  induction h with
  | refl => exact .refl _
  | left _ ih => exact .step (p := _) (by simp [parents]) ih
  | right _ ih => exact .step (p := _) (by simp [parents]) ih

theorem closed_ancSelf {par : Nat → List Id} {has : Id → Bool} (hc : Closed par has)
    {x y : Id} (ha : AncSelf par x y) (hy : has y = true) : has x = true := by
  induction ha with
  | refl => exact hy
  | step hp _ ih => exact ih (hc _ hy _ hp)

/-- the fold is injective on queues of equal length -/
theorem foldPairs_inj (fuel : Nat) (q q' : List HTerm) (hl : q.length = q'.length)
    (hf : q.length ≤ fuel + 1) (t : HTerm)
    (h : foldPairs fuel q = some t) (h' : foldPairs fuel q' = some t) : q = q' := by
  induction fuel generalizing q q' with
  | zero =>
    match q, q', hl, hf with
    | [x], [y], _, _ => simp [foldPairs] at h h'; rw [h, h']
    | [], [], _, _ => rfl
    | _ :: _ :: _, _, _, hf => simp at hf
  | succ n ih =>
    match q, q', hl, hf with
    | [], [], _, _ => rfl
    | [x], [y], _, _ => simp [foldPairs] at h h'; rw [h, h']
    | l :: r :: rest, l' :: r' :: rest', hl, hf =>
      simp only [foldPairs] at h h'
      have := ih (rest ++ [.merge l r]) (rest' ++ [.merge l' r']) (by simp at hl ⊢; omega)
        (by simp at hf ⊢; omega) h h'
      have hlen : rest.length = rest'.length := by simp at hl; omega
      have h1 := List.append_inj this hlen
      simp at h1
      obtain ⟨e1, e2, e3⟩ := h1
      subst e1 e2 e3; rfl

end AranyaV.Spec.Hello
