import AranyaV.Model.FramingSeal
/-! Fixed-width records (`#[repr(C)]` structs of byte arrays) are injective in their fields. -/
namespace AranyaV.Framing

/-- fields of fixed widths concatenate injectively (with any remainder) -/
theorem flatten_fixed_inj {α : Type} (layout : List (α × Nat)) {g g' : α → Bytes} :
    ∀ {r r' : Bytes}, LayoutOk layout g → LayoutOk layout g' →
    (layout.map fun p => g p.1).flatten ++ r = (layout.map fun p => g' p.1).flatten ++ r' →
    (∀ p ∈ layout, g p.1 = g' p.1) ∧ r = r' := by
  induction layout with
  | nil =>
    intro r r' _ _ h
    exact ⟨fun _ hp => (by cases hp), (by simpa using h)⟩
  | cons p l ih =>
    intro r r' hg hg' h
    simp only [List.map_cons, List.flatten_cons, List.append_assoc] at h
    have hl : (g p.1).length = (g' p.1).length := by
      rw [hg p (by simp), hg' p (by simp)]
    obtain ⟨h1, h2⟩ := List.append_inj h hl
    obtain ⟨h3, h4⟩ := ih (fun q hq => hg q (by simp [hq])) (fun q hq => hg' q (by simp [hq])) h2
    refine ⟨?_, h4⟩
    intro q hq
    rcases List.mem_cons.mp hq with rfl | hq
    · exact h1
    · exact h3 q hq

/-- **Fixed-width records are injective**: `domain ‖ fields ‖ rest` determines every field and the
rest, for all contents of the declared widths. -/
theorem fixedLayout_inj {α : Type} {domain : Bytes} {layout : List (α × Nat)} {g g' : α → Bytes}
    {r r' : Bytes} (hg : LayoutOk layout g) (hg' : LayoutOk layout g')
    (h : fixedLayout domain layout g ++ r = fixedLayout domain layout g' ++ r') :
    (∀ p ∈ layout, g p.1 = g' p.1) ∧ r = r' := by
  unfold fixedLayout at h
  simp only [List.append_assoc, List.append_cancel_left_eq] at h
  exact flatten_fixed_inj layout hg hg' h

end AranyaV.Framing
