import AranyaV.Proofs.Segments
/-! Soundness of the skip lists computed by `build_skip_list` / `walk_collecting_skips` when a
segment is written (C11 `skip_sound`). -/
namespace AranyaV.Segments
open AranyaV.Queue

/-- `k` is a command location on the "spine" below `w`: an ancestor-or-self of `w` such that
everything below `w` at or below `k`'s max cut is an ancestor-or-self of `k` -/
def DomW (s : Store) (w k : Loc) : Prop :=
  s.valid k = true ∧ AncS s k w ∧ ∀ x, AncS s x w → x.mc ≤ k.mc → AncS s x k

/-- the recorded last common ancestor `c` of a merge of `l` and `r` is a common ancestor-or-self
that does not cut into a branch -/
def Dom (s : Store) (c l r : Loc) : Prop :=
  s.valid c = true ∧ AncS s c l ∧ AncS s c r ∧
    ∀ x, (AncS s x l ∨ AncS s x r) → x.mc ≤ c.mc → AncS s x c

theorem domW_refl {s : Store} {w : Loc} (h : s.valid w = true) : DomW s w w :=
  ⟨h, AncS.refl w, fun _ hx _ => hx⟩

theorem firstLoc_valid {s : Store} {c : Loc} {g : Seg} (hg : s.seg? c.seg = some g)
    (hc : s.valid c = true) : s.valid g.firstLoc = true ∧ AncS s g.firstLoc c ∧ g.first ≤ c.mc ∧
      s.parents g.firstLoc = g.prior.toList := by
  obtain ⟨g', hg', h1, h2⟩ := valid_iff.mp hc
  rw [hg] at hg'; cases hg'
  have hgi := seg?_idx hg
  have hfl : s.seg? g.firstLoc.seg = some g := by simpa [Seg.firstLoc, hgi] using hg
  have hv : s.valid g.firstLoc = true :=
    valid_of_seg (l := g.firstLoc) hfl (by simp [Seg.firstLoc]) (by simp [Seg.firstLoc]; omega)
  exact ⟨hv, chain_loc hv hc (by simp [Seg.firstLoc, hgi]) (by simpa [Seg.firstLoc] using h1), h1,
    parents_first (l := g.firstLoc) hfl rfl (by omega)⟩

/-- the first command of the current segment is on the spine -/
theorem domW_first {s : Store} (hp : PriorsOK s) {w c : Loc} {g : Seg} (hg : s.seg? c.seg = some g)
    (h : DomW s w c) : DomW s w g.firstLoc := by
  obtain ⟨hv, hfc, hle, hpar⟩ := firstLoc_valid hg h.1
  refine ⟨hv, hfc.trans h.2.1, ?_⟩
  intro x hxw hxm
  simp only [Seg.firstLoc] at hxm
  have hxc := h.2.2 x hxw (by omega)
  rcases descent hxc g hg hle with ⟨hs, h1, _⟩ | ⟨p, hpm, hxp⟩
  · have : x = g.firstLoc := by
      have := seg?_idx hg
      cases x; simp [Seg.firstLoc] at *; omega
    rw [this]; exact AncS.refl _
  · exact AncS.step hxp (by rw [hpar]; exact hpm)

/-- a skip entry of a spine segment is on the spine -/
theorem domW_skip {s : Store} (hwf : WF s) {w c k : Loc} {g : Seg} (hg : s.seg? c.seg = some g)
    (h : DomW s w c) (hk : k ∈ g.skips) : DomW s w k := by
  have hf := domW_first hwf.priors hg h
  have hks := hwf.skips _ g hg k hk
  refine ⟨hks.1, hks.2.1.ancS.trans hf.2.1, ?_⟩
  intro x hxw hxm
  have hkm := hks.2.1.mc_lt hwf.priors
  simp only [Seg.firstLoc] at hkm
  have hxf := hf.2.2 x hxw (by simp only [Seg.firstLoc]; omega)
  rcases hxf.eq_or_anc with he | ha
  · subst he; simp only [Seg.firstLoc] at hxm; omega
  · exact hks.2.2 x ha hxm

/-- the single prior of a spine segment is on the spine -/
theorem domW_prior {s : Store} (hwf : WF s) {w c p : Loc} {g : Seg} (hg : s.seg? c.seg = some g)
    (h : DomW s w c) (hpr : g.prior = .single p) : DomW s w p := by
  have hf := domW_first hwf.priors hg h
  obtain ⟨_, _, _, hpar⟩ := firstLoc_valid hg h.1
  have hpp : p ∈ s.parents g.firstLoc := by rw [hpar, hpr]; simp [Prior.toList]
  have hpv := hwf.priors _ g hg p (by rw [hpr]; simp [Prior.toList])
  refine ⟨hpv.1, (AncS.step (AncS.refl p) hpp).trans hf.2.1, ?_⟩
  intro x hxw hxm
  have hxf := hf.2.2 x hxw (by simp only [Seg.firstLoc]; omega)
  rcases hxf.eq_or_anc with he | ⟨m, hm, hxm'⟩
  · subst he; simp only [Seg.firstLoc] at hxm; omega
  · rw [hpar, hpr] at hm
    simp [Prior.toList] at hm; subst hm; exact hxm'

/-! ### list plumbing -/

theorem minByMc_mem {l : List Loc} {k : Loc} (h : minByMc l = some k) : k ∈ l := by
  induction l generalizing k with
  | nil => simp [minByMc] at h
  | cons x xs ih =>
    simp only [minByMc] at h
    cases hm : minByMc xs with
    | none => simp [hm] at h; simp [h]
    | some m =>
      simp only [hm] at h
      split at h
      · simp at h; subst h; exact List.mem_cons_of_mem _ (ih hm)
      · simp at h; simp [h]

theorem popReached_mem (segMin : Nat) (fl : Loc) (ts : List Nat) (acc : List Loc) :
    ∀ x ∈ (popReached segMin fl ts acc).2, x ∈ acc ∨ x = fl := by
  induction ts generalizing acc with
  | nil => intro x hx; exact Or.inl hx
  | cons t ts ih =>
    intro x hx
    simp only [popReached] at hx
    split at hx
    · rcases ih _ x hx with h | h
      · rcases List.mem_append.mp h with h | h
        · exact Or.inl h
        · simp at h; exact Or.inr h
      · exact Or.inr h
    · exact Or.inl hx

theorem mem_insertByMc {x y : Loc} {l : List Loc} (h : y ∈ insertByMc x l) : y = x ∨ y ∈ l := by
  induction l with
  | nil => simp [insertByMc] at h; exact Or.inl h
  | cons z zs ih =>
    simp only [insertByMc] at h
    split at h
    · rcases List.mem_cons.mp h with h | h
      · exact Or.inl h
      · exact Or.inr h
    · rcases List.mem_cons.mp h with h | h
      · exact Or.inr (by simp [h])
      · rcases ih h with h | h
        · exact Or.inl h
        · exact Or.inr (List.mem_cons_of_mem _ h)

theorem mem_foldl_insert {y : Loc} (l : List Loc) :
    ∀ acc, y ∈ l.foldl (fun acc x => insertByMc x acc) acc → y ∈ acc ∨ y ∈ l := by
  induction l with
  | nil => intro acc h; exact Or.inl h
  | cons x xs ih =>
    intro acc h
    simp only [List.foldl_cons] at h
    rcases ih _ h with h | h
    · rcases mem_insertByMc h with h | h
      · exact Or.inr (by simp [h])
      · exact Or.inl h
    · exact Or.inr (List.mem_cons_of_mem _ h)

theorem mem_sortByMc {y : Loc} {l : List Loc} (h : y ∈ sortByMc l) : y ∈ l := by
  rcases mem_foldl_insert l [] h with h | h
  · simp at h
  · exact h

theorem mem_dedup {y : Loc} : ∀ {l : List Loc}, y ∈ dedup l → y ∈ l
  | [], h => by simp [dedup] at h
  | [x], h => by simpa [dedup] using h
  | x :: z :: zs, h => by
    simp only [dedup] at h
    split at h
    · exact List.mem_cons_of_mem _ (mem_dedup h)
    · rcases List.mem_cons.mp h with h | h
      · simp [h]
      · exact List.mem_cons_of_mem _ (mem_dedup h)

/-! ### the walk -/

theorem walk_sound {s : Store} (hwf : WF s) (w : Loc) :
    ∀ f c ts acc, DomW s w c → (∀ k ∈ acc, DomW s w k) →
      ∀ r, walkCollectingSkips s f c ts acc = .ok r → ∀ k ∈ r, DomW s w k := by
  intro f
  induction f with
  | zero => intro c ts acc _ _ r h; simp [walkCollectingSkips] at h
  | succ f ih =>
    intro c ts acc hc hacc r h
    unfold walkCollectingSkips at h
    cases hg : s.seg? c.seg with
    | none => simp [hg] at h
    | some g =>
      simp only [hg] at h
      have hfl := domW_first hwf.priors hg hc
      have hacc' : ∀ k ∈ (popReached g.first g.firstLoc ts acc).2, DomW s w k := by
        intro k hk
        rcases popReached_mem _ _ _ _ k hk with h1 | h1
        · exact hacc k h1
        · rw [h1]; exact hfl
      revert h hacc'
      cases popReached g.first g.firstLoc ts acc with
      | mk ts' acc' =>
        intro h hacc'
        cases ts' with
        | nil => simp at h; subst h; exact hacc'
        | cons nt ts'' =>
          simp only at h
          cases hm : minByMc (g.skips.filter (fun k => decide (nt ≤ k.mc ∧ k.mc < c.mc))) with
          | some k =>
            simp only [hm] at h
            have hk : k ∈ g.skips := (List.mem_filter.mp (minByMc_mem hm)).1
            exact ih k _ _ (domW_skip hwf hg hc hk) hacc' r h
          | none =>
            simp only [hm] at h
            cases hpr : g.prior with
            | none => simp [hpr] at h; subst h; exact hacc'
            | merge l r' => simp [hpr] at h; subst h; exact hacc'
            | single p =>
              simp only [hpr] at h
              split at h
              · exact ih p _ _ (domW_prior hwf hg hc hpr) hacc' r h
              · simp at h; subst h; exact hacc'

/-- every entry of a skip list computed by `build_skip_list` lies on the spine below the walk
start (the single prior, or the recorded last common ancestor of a merge) -/
theorem build_sound {s : Store} (hwf : WF s) (prior : Prior) (lca : Option Loc) (n : Nat)
    (hprior : ∀ p ∈ prior.toList, s.valid p = true)
    (hlca : ∀ l r, prior = .merge l r → ∃ c, lca = some c ∧ s.valid c = true)
    {skips : List Loc} (h : buildSkipList s prior lca n = .ok skips) :
    ∀ k ∈ skips,
      match prior with
      | .none => False
      | .single p => DomW s p k
      | .merge _ _ => ∃ c, lca = some c ∧ DomW s c k := by
  -- the common part
  have go : ∀ (w : Loc) (lc : Option Loc), s.valid w = true → (∀ c, lc = some c → c = w) →
      ∀ skips, (match hasNearbyRichAnchor s AranyaV.Gen.minSkipGap w with
        | .error e => .error e
        | .ok rich =>
          if rich ∨ n < AranyaV.Gen.minSkipGap then .ok lc.toList
          else
            match skipTargetBoundaries n with
            | .error e => .error e
            | .ok targets =>
              match walkCollectingSkips s (w.mc + 1) w targets.reverse [] with
              | .error e => .error e
              | .ok skips =>
                let skips := match lc with
                  | some l => if skips.contains l then skips else skips ++ [l]
                  | none => skips
                .ok (dedup (sortByMc skips))) = Except.ok skips → ∀ k ∈ skips, DomW s w k := by
    intro w lc hw hlc skips h k hk
    cases hr : hasNearbyRichAnchor s AranyaV.Gen.minSkipGap w with
    | error e => simp [hr] at h
    | ok rich =>
      simp only [hr] at h
      split at h
      · simp at h; subst h
        cases lc with
        | none => simp at hk
        | some c => simp at hk; subst hk; rw [hlc _ rfl]; exact domW_refl hw
      · cases hb : skipTargetBoundaries n with
        | error e => simp [hb] at h
        | ok targets =>
          simp only [hb] at h
          cases hwk : walkCollectingSkips s (w.mc + 1) w targets.reverse [] with
          | error e => simp [hwk] at h
          | ok sk =>
            simp only [hwk] at h
            have hsk := walk_sound hwf w _ _ _ _ (domW_refl hw) (by simp) sk hwk
            simp at h; subst h
            have hk' := mem_sortByMc (mem_dedup hk)
            cases lc with
            | none => exact hsk k hk'
            | some c =>
              simp only at hk'
              split at hk'
              · exact hsk k hk'
              · rcases List.mem_append.mp hk' with h1 | h1
                · exact hsk k h1
                · simp at h1; subst h1; rw [hlc _ rfl]; exact domW_refl hw
  intro k hk
  unfold buildSkipList at h
  cases prior with
  | none => simp at h; subst h; simp at hk
  | single p =>
    simp only at h ⊢
    exact go p none (hprior p (by simp [Prior.toList])) (by simp) skips h k hk
  | merge l r =>
    obtain ⟨c, hc, hcv⟩ := hlca l r rfl
    subst hc
    simp only at h ⊢
    exact ⟨c, rfl, go c (some c) hcv (by simp) skips h k hk⟩

/-! ### appending a segment -/

theorem seg?_append_old {s : Store} {g' : Seg} {i : Nat} {g : Seg} (h : s.seg? i = some g) :
    (Store.mk (s.segs ++ [g'])).seg? i = some g := by
  unfold Store.seg? at *
  rw [List.find?_append, h]; rfl

theorem seg?_append_ne {s : Store} {g' : Seg} {i : Nat} (h : g'.idx ≠ i) :
    (Store.mk (s.segs ++ [g'])).seg? i = s.seg? i := by
  unfold Store.seg?
  rw [List.find?_append]
  cases s.segs.find? (fun g => g.idx == i) with
  | some g => rfl
  | none => simp [h]

theorem seg?_append_new {s : Store} {g' : Seg} (h : s.seg? g'.idx = none) :
    (Store.mk (s.segs ++ [g'])).seg? g'.idx = some g' := by
  unfold Store.seg? at *
  rw [List.find?_append, h]; simp

theorem parents_append {s : Store} {g' : Seg} {l : Loc} (h : g'.idx ≠ l.seg) :
    (Store.mk (s.segs ++ [g'])).parents l = s.parents l := by
  unfold Store.parents
  rw [seg?_append_ne h]

theorem valid_append {s : Store} {g' : Seg} {l : Loc} (h : s.valid l = true) :
    (Store.mk (s.segs ++ [g'])).valid l = true := by
  obtain ⟨g, hg, h1, h2⟩ := valid_iff.mp h
  exact valid_of_seg (seg?_append_old hg) h1 h2

theorem ancS_append {s : Store} {g' : Seg} {a b : Loc} (h : AncS s a b) :
    AncS (Store.mk (s.segs ++ [g'])) a b := by
  induction h with
  | refl => exact AncS.refl _
  | step _ hm ih =>
    refine AncS.step ih ?_
    obtain ⟨g, hg, h1, h2, _⟩ := mem_parents hm
    unfold Store.parents at hm ⊢
    rw [seg?_append_old hg]
    rw [hg] at hm
    exact hm

theorem ancS_of_append {s : Store} (hp : PriorsOK s) {g' : Seg} (hf : s.seg? g'.idx = none) {a b : Loc}
    (h : AncS (Store.mk (s.segs ++ [g'])) a b) : s.valid b = true → AncS s a b := by
  induction h with
  | refl => intro _; exact AncS.refl _
  | step hxm hm ih =>
    rename_i m b
    intro hb
    obtain ⟨g, hg, _, _⟩ := valid_iff.mp hb
    have hne : g'.idx ≠ b.seg := by
      intro he; rw [← he, hf] at hg; cases hg
    rw [parents_append hne] at hm
    exact AncS.step (ih (parent_valid hp hm).1) hm

/-! ### the construction never takes an error branch -/

/-- every merge segment carries a non-empty skip list (its last entry is the recorded ancestor) -/
def MergeSkips (s : Store) : Prop :=
  ∀ i g, s.seg? i = some g → ∀ l r, g.prior = .merge l r → g.skips ≠ []

theorem rich_total {s : Store} (hwf : WF s) (hm : MergeSkips s) :
    ∀ k w, s.valid w = true → ∃ b, hasNearbyRichAnchor s k w = .ok b := by
  intro k
  induction k with
  | zero => intro w _; exact ⟨false, rfl⟩
  | succ k ih =>
    intro w hw
    obtain ⟨g, hg, _, _⟩ := valid_iff.mp hw
    unfold hasNearbyRichAnchor
    rw [hg]
    simp only
    by_cases hr : g.skips.length > 1
    · exact ⟨true, by simp [hr]⟩
    · simp only [hr, if_false]
      cases hp : g.prior with
      | none => exact ⟨false, rfl⟩
      | single p =>
        simp only
        exact ih p (hwf.priors _ g hg p (by rw [hp]; simp [Prior.toList])).1
      | merge l r =>
        simp only
        have hne := hm _ g hg l r hp
        cases hl : g.skips.getLast? with
        | none => exact absurd (List.getLast?_eq_none_iff.mp hl) hne
        | some c =>
          simp only
          have hc : c ∈ g.skips := List.mem_of_getLast? hl
          exact ih c (hwf.skips _ g hg c hc).1

theorem walk_total {s : Store} (hwf : WF s) :
    ∀ f c ts acc, s.valid c = true → c.mc < f → ∃ r, walkCollectingSkips s f c ts acc = .ok r := by
  intro f
  induction f with
  | zero => intro c ts acc _ h; omega
  | succ f ih =>
    intro c ts acc hc hf
    obtain ⟨g, hg, hg1, _⟩ := valid_iff.mp hc
    unfold walkCollectingSkips
    rw [hg]
    simp only
    cases popReached g.first g.firstLoc ts acc with
    | mk ts' acc' =>
      cases ts' with
      | nil => exact ⟨acc', rfl⟩
      | cons nt ts'' =>
        simp only
        cases hm : minByMc (g.skips.filter (fun k => decide (nt ≤ k.mc ∧ k.mc < c.mc))) with
        | some k =>
          simp only
          have hk := List.mem_filter.mp (minByMc_mem hm)
          have hlt : k.mc < c.mc := by have := hk.2; simp at this; exact this.2
          exact ih k _ _ (hwf.skips _ g hg k hk.1).1 (by omega)
        | none =>
          simp only
          cases hp : g.prior with
          | none => exact ⟨acc', rfl⟩
          | merge l r => exact ⟨acc', rfl⟩
          | single p =>
            simp only
            have hpv := hwf.priors _ g hg p (by rw [hp]; simp [Prior.toList])
            split
            · exact ih p _ _ hpv.1 (by omega)
            · exact ⟨acc', rfl⟩

theorem length_insertByMc (x : Loc) (l : List Loc) : (insertByMc x l).length = l.length + 1 := by
  induction l with
  | nil => rfl
  | cons y ys ih => simp only [insertByMc]; split <;> simp [ih]

theorem sortByMc_ne_nil {l : List Loc} (h : l ≠ []) : sortByMc l ≠ [] := by
  have key : ∀ (l acc : List Loc),
      (l.foldl (fun acc x => insertByMc x acc) acc).length = acc.length + l.length := by
    intro l
    induction l with
    | nil => intro acc; simp
    | cons x xs ih => intro acc; simp only [List.foldl_cons, ih, length_insertByMc, List.length_cons]; omega
  intro hs
  have := key l []
  unfold sortByMc at hs
  rw [hs] at this
  simp at this
  exact h (List.eq_nil_of_length_eq_zero this.symm)

theorem dedup_ne_nil : ∀ {l : List Loc}, l ≠ [] → dedup l ≠ []
  | [], h => absurd rfl h
  | [x], _ => by simp [dedup]
  | x :: y :: ys, _ => by
    simp only [dedup]
    split
    · exact dedup_ne_nil (by simp)
    · simp

/-- on a well-formed store whose merge segments all carry their recorded ancestor, `build_skip_list`
takes none of its error branches (no `bug`, no missing segment; the fuel of the model's loops is
never exhausted), and a merge gets a non-empty skip list again -/
theorem build_total {s : Store} (hwf : WF s) (hm : MergeSkips s) (prior : Prior) (lca : Option Loc)
    (n : Nat) (hprior : ∀ p ∈ prior.toList, s.valid p = true)
    (hlca : ∀ l r, prior = .merge l r → ∃ c, lca = some c ∧ s.valid c = true)
    (hb : ∀ n, ∃ l, skipTargetBoundaries n = .ok l) :
    ∃ skips, buildSkipList s prior lca n = .ok skips ∧ (∀ l r, prior = .merge l r → skips ≠ []) := by
  have go : ∀ (w : Loc) (lc : Option Loc), s.valid w = true →
      ∃ skips, (match hasNearbyRichAnchor s AranyaV.Gen.minSkipGap w with
        | .error e => .error e
        | .ok rich =>
          if rich ∨ n < AranyaV.Gen.minSkipGap then .ok lc.toList
          else
            match skipTargetBoundaries n with
            | .error e => .error e
            | .ok targets =>
              match walkCollectingSkips s (w.mc + 1) w targets.reverse [] with
              | .error e => .error e
              | .ok skips =>
                let skips := match lc with
                  | some l => if skips.contains l then skips else skips ++ [l]
                  | none => skips
                .ok (dedup (sortByMc skips))) = Except.ok skips ∧ (lc ≠ none → skips ≠ []) := by
    intro w lc hw
    obtain ⟨rich, hr⟩ := rich_total hwf hm AranyaV.Gen.minSkipGap w hw
    rw [hr]
    simp only
    by_cases hc : rich = true ∨ n < AranyaV.Gen.minSkipGap
    · refine ⟨lc.toList, by simp [hc], ?_⟩
      intro h; cases lc with
      | none => exact absurd rfl h
      | some c => simp
    · simp only [hc, if_false]
      obtain ⟨targets, ht⟩ := hb n
      rw [ht]
      simp only
      obtain ⟨sk, hsk⟩ := walk_total hwf (w.mc + 1) w targets.reverse [] hw (by omega)
      rw [hsk]
      simp only
      refine ⟨_, rfl, ?_⟩
      intro h
      cases lc with
      | none => exact absurd rfl h
      | some c =>
        simp only
        apply dedup_ne_nil
        apply sortByMc_ne_nil
        split
        · rename_i hcn
          intro he; rw [he] at hcn; simp at hcn
        · simp
  unfold buildSkipList
  cases prior with
  | none => exact ⟨[], rfl, by intro l r h; cases h⟩
  | single p =>
    obtain ⟨sk, h1, _⟩ := go p none (hprior p (by simp [Prior.toList]))
    exact ⟨sk, h1, by intro l r h; cases h⟩
  | merge l r =>
    obtain ⟨c, hc, hcv⟩ := hlca l r rfl
    subst hc
    obtain ⟨sk, h1, h2⟩ := go c (some c) hcv
    exact ⟨sk, h1, fun _ _ _ => h2 (by simp)⟩

end AranyaV.Segments
