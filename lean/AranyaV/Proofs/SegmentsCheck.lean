import AranyaV.Proofs.Segments
/-! A computable sufficient check for well-formedness of a concrete store (used for the
non-vacuity examples of C11/C20: `WF ex := checkWF_sound (by decide)`). -/
namespace AranyaV.Segments
open AranyaV.Queue

/-- ancestor-or-self, computed with fuel (enough: the max cut of `b`) -/
def ancSF (s : Store) (a : Loc) : Nat → Loc → Bool
  | 0, b => a == b
  | n + 1, b => a == b || (s.parents b).any (fun p => ancSF s a n p)

def ancSB (s : Store) (a b : Loc) : Bool := ancSF s a b.mc b

/-- proper ancestor, computed -/
def ancB (s : Store) (a b : Loc) : Bool := (s.parents b).any (fun m => ancSB s a m)

theorem ancSF_sound {s : Store} {a : Loc} : ∀ n b, ancSF s a n b = true → AncS s a b := by
  intro n
  induction n with
  | zero => intro b h; simp [ancSF] at h; subst h; exact AncS.refl _
  | succ n ih =>
    intro b h
    simp only [ancSF, Bool.or_eq_true, beq_iff_eq, List.any_eq_true] at h
    rcases h with rfl | ⟨p, hp, h⟩
    · exact AncS.refl _
    · exact AncS.step (ih p h) hp

theorem ancSF_complete {s : Store} (hp : PriorsOK s) {a : Loc} :
    ∀ n b, AncS s a b → b.mc ≤ n → ancSF s a n b = true := by
  intro n
  induction n with
  | zero =>
    intro b h hb
    cases h with
    | refl => simp [ancSF]
    | step _ hm => have := (parent_valid hp hm).2.2; omega
  | succ n ih =>
    intro b h hb
    cases h with
    | refl => simp [ancSF]
    | step h' hm =>
      have := (parent_valid hp hm).2.2
      simp only [ancSF, Bool.or_eq_true, List.any_eq_true]
      exact Or.inr ⟨_, hm, ih _ h' (by omega)⟩

theorem ancSB_iff {s : Store} (hp : PriorsOK s) {a b : Loc} : ancSB s a b = true ↔ AncS s a b :=
  ⟨ancSF_sound _ _, fun h => ancSF_complete hp _ _ h (Nat.le_refl _)⟩

theorem ancB_iff {s : Store} (hp : PriorsOK s) {a b : Loc} : ancB s a b = true ↔ Anc s a b := by
  unfold ancB Anc
  simp only [List.any_eq_true, ancSB_iff hp]

def checkPriors (s : Store) : Bool :=
  s.segs.all (fun g => g.prior.toList.all (fun p => s.valid p && decide (p.mc < g.first)))

def checkSkips (s : Store) : Bool :=
  s.segs.all (fun g => g.skips.all (fun k =>
    s.valid k && ancB s k g.firstLoc &&
      s.allLocs.all (fun x => !(ancB s x g.firstLoc && decide (x.mc ≤ k.mc)) || ancSB s x k)))

def checkWF (s : Store) : Bool := checkPriors s && checkSkips s

theorem valid_mem_allLocs {s : Store} {l : Loc} (h : s.valid l = true) : l ∈ s.allLocs := by
  obtain ⟨g, hg, h1, h2⟩ := valid_iff.mp h
  unfold Store.allLocs
  rw [List.mem_flatMap]
  refine ⟨g, seg?_mem hg, ?_⟩
  unfold Seg.locs
  rw [List.mem_map]
  refine ⟨l.mc - g.first, by simp; omega, ?_⟩
  have := seg?_idx hg
  cases l; simp at *; omega

theorem checkWF_sound {s : Store} (h : checkWF s = true) : WF s := by
  simp only [checkWF, Bool.and_eq_true] at h
  obtain ⟨h1, h2⟩ := h
  have hp : PriorsOK s := by
    intro i g hg p hpm
    simp only [checkPriors, List.all_eq_true, Bool.and_eq_true, decide_eq_true_eq] at h1
    exact h1 g (seg?_mem hg) p hpm
  refine ⟨hp, ?_⟩
  intro i g hg k hk
  simp only [checkSkips, List.all_eq_true, Bool.and_eq_true, Bool.or_eq_true, Bool.not_eq_true',
    decide_eq_true_eq] at h2
  obtain ⟨⟨hv, ha⟩, hall⟩ := h2 g (seg?_mem hg) k hk
  refine ⟨hv, (ancB_iff hp).mp ha, ?_⟩
  intro x hx hxm
  have hxv := hx.valid hp
  rcases hall x (valid_mem_allLocs hxv) with h | h
  · rw [Bool.eq_false_iff] at h
    exact absurd (by simp only [Bool.and_eq_true, decide_eq_true_eq]; exact ⟨(ancB_iff hp).mpr hx, hxm⟩) h
  · exact (ancSB_iff hp).mp h

/-- unique addresses, computed -/
def checkUnique (s : Store) : Bool :=
  s.allLocs.all (fun x => s.allLocs.all (fun y =>
    !(s.cmdAt x == s.cmdAt y && x.mc == y.mc) || x == y))

theorem checkUnique_sound {s : Store} (h : checkUnique s = true) : UniqueAddr s := by
  intro x y c hx hy hm
  simp only [checkUnique, List.all_eq_true, Bool.or_eq_true, Bool.not_eq_true', beq_iff_eq] at h
  have hxv : s.valid x = true := by simp [Store.valid, hx]
  have hyv : s.valid y = true := by simp [Store.valid, hy]
  rcases h x (valid_mem_allLocs hxv) y (valid_mem_allLocs hyv) with h | h
  · rw [Bool.eq_false_iff] at h
    exact absurd (by simp [hx, hy, hm]) h
  · exact h

end AranyaV.Segments
