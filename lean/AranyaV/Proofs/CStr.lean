import AranyaV.Model.CStr
/-! Helper lemmas for C47 (`CStrWriter`). -/
namespace AranyaV.CStr

theorem take_app_len {α} (l1 l2 : List α) (n : Nat) (h : l1.length = n) :
    (l1 ++ l2).take n = l1 := by
  subst h; simp

theorem drop_app_len {α} (l1 l2 : List α) (n k : Nat) (h : l1.length = n) :
    (l1 ++ l2).drop (n + k) = l2.drop k := by
  subst h; simp

theorem set_eq (l : List UInt8) (a : Nat) (b : UInt8) (h : a < l.length) :
    l.set a b = l.take a ++ b :: l.drop (a + 1) := by
  simp [List.set_eq_take_append_cons_drop, h]

theorem copyAt_fields (w : W) (a : Nat) (src : List UInt8) :
    (copyAt w a src).base = w.base ∧ (copyAt w a src).len = w.len ∧
    (copyAt w a src).nw = w.nw ∧ (copyAt w a src).panicked = w.panicked := by
  induction src generalizing w a with
  | nil => simp [copyAt]
  | cons b bs ih => simp [copyAt, ih, store]

/-- `copy_from_slice` overwrites exactly `[a, a + src.length)` with `src` -/
theorem copyAt_mem (w : W) (a : Nat) (src : List UInt8) (h : a + src.length ≤ w.mem.length) :
    (copyAt w a src).mem = w.mem.take a ++ src ++ w.mem.drop (a + src.length) := by
  induction src generalizing w a with
  | nil => simp [copyAt]
  | cons b bs ih =>
    simp only [copyAt, List.length_cons] at h ⊢
    have hlt : a < w.mem.length := by omega
    rw [ih]
    · simp only [store, set_eq _ _ _ hlt]
      have hl : (List.take a w.mem).length = a := by simp; omega
      have h1 : (List.take a w.mem ++ b :: List.drop (a + 1) w.mem).take (a + 1)
          = List.take a w.mem ++ [b] := by
        rw [List.take_append, hl, List.take_of_length_le (by omega)]; simp
      have h2 : (List.take a w.mem ++ b :: List.drop (a + 1) w.mem).drop (a + 1 + bs.length)
          = List.drop (a + (bs.length + 1)) w.mem := by
        rw [List.drop_append, hl, List.drop_of_length_le (by omega)]
        have : a + 1 + bs.length - a = bs.length + 1 := by omega
        simp [this, List.drop_drop]; congr 1; omega
      rw [h1, h2]; simp
    · simp [store]; omega

theorem copyAt_trace (w : W) (a : Nat) (src : List UInt8) :
    ∀ x ∈ (copyAt w a src).trace, x ∈ w.trace ∨ (a ≤ x ∧ x < a + src.length) := by
  induction src generalizing w a with
  | nil => intro x hx; left; simpa [copyAt] using hx
  | cons b bs ih =>
    intro x hx
    simp only [copyAt] at hx
    rcases ih _ _ x hx with h | h
    · simp only [store, List.mem_cons] at h
      rcases h with h | h
      · right; simp; omega
      · left; exact h
    · right; simp; omega

/-! ## Frame: nothing outside `[base, base+len)` is ever stored to -/

structure Frame (mem : List UInt8) (base len : Nat) (w : W) : Prop where
  hbase : w.base = base
  hlen : w.len = len
  hlength : w.mem.length = mem.length
  hpre : w.mem.take base = mem.take base
  hpost : w.mem.drop (base + len) = mem.drop (base + len)
  htrace : ∀ a ∈ w.trace, base ≤ a ∧ a < base + len

theorem Frame.new (mem : List UInt8) (base len : Nat) : Frame mem base len (W.new mem base len) :=
  ⟨rfl, rfl, rfl, rfl, rfl, by simp [W.new]⟩

theorem Frame.store {mem base len w} (f : Frame mem base len w) (a : Nat) (b : UInt8)
    (h1 : base ≤ a) (h2 : a < base + len) : Frame mem base len (store w a b) := by
  refine ⟨f.hbase, f.hlen, ?_, ?_, ?_, ?_⟩
  · simp [AranyaV.CStr.store, f.hlength]
  · simp only [AranyaV.CStr.store]; rw [List.take_set_of_le h1]; exact f.hpre
  · simp only [AranyaV.CStr.store]; rw [List.drop_set_of_lt h2]; exact f.hpost
  · intro x hx
    simp only [AranyaV.CStr.store, List.mem_cons] at hx
    rcases hx with rfl | hx
    · exact ⟨h1, h2⟩
    · exact f.htrace x hx

theorem Frame.copyAt {mem base len w} (f : Frame mem base len w) (a : Nat) (src : List UInt8)
    (h1 : base ≤ a) (h2 : a + src.length ≤ base + len) :
    Frame mem base len (copyAt w a src) := by
  induction src generalizing w a with
  | nil => simpa [AranyaV.CStr.copyAt] using f
  | cons b bs ih =>
    simp only [AranyaV.CStr.copyAt]
    simp only [List.length_cons] at h2
    exact ih (f.store a b h1 (by omega)) (a + 1) (by omega) (by omega)

theorem Frame.setNw {mem base len w} (f : Frame mem base len w) (n : Nat) :
    Frame mem base len { w with nw := n } := ⟨f.hbase, f.hlen, f.hlength, f.hpre, f.hpost, f.htrace⟩

theorem Frame.setPanicked {mem base len w} (f : Frame mem base len w) (p : Bool) :
    Frame mem base len { w with panicked := p } :=
  ⟨f.hbase, f.hlen, f.hlength, f.hpre, f.hpost, f.htrace⟩

theorem Frame.write {mem base len w} (umax : Nat) (f : Frame mem base len w) (src : List UInt8) :
    Frame mem base len (w.write umax src) := by
  unfold W.write
  split; · exact f
  split; · exact f
  simp only
  split; · exact f.setNw _
  split
  · rename_i hfit
    split
    · exact f.setPanicked _
    · rename_i hne
      have hlen := f.hlen
      have hb := f.hbase
      have hf : Frame mem base len (AranyaV.CStr.copyAt w (w.base + w.nw) src) :=
        f.copyAt _ _ (by omega) (by omega)
      exact ⟨(copyAt_fields _ _ _).1.trans hb, (copyAt_fields _ _ _).2.1.trans hlen,
        hf.hlength, hf.hpre, hf.hpost, hf.htrace⟩
  · exact f.setNw _

theorem Frame.writeAll {mem base len w} (umax : Nat) (f : Frame mem base len w)
    (frags : List (List UInt8)) : Frame mem base len (w.writeAll umax frags) := by
  unfold W.writeAll
  induction frags generalizing w with
  | nil => exact f
  | cons s ss ih => exact ih (f.write umax s)

theorem Frame.finish {mem base len w} (umax : Nat) (f : Frame mem base len w) :
    Frame mem base len (w.finish umax).2 := by
  unfold W.finish
  split; · exact f
  simp only
  split
  · rename_i h
    have hb := f.hbase
    have hl := f.hlen
    exact (f.store (w.base + min w.nw w.len) 0 (by omega) (by omega)).setNw _
  · exact f.setNw _

theorem Frame.run (umax : Nat) (mem : List UInt8) (base len : Nat) (frags : List (List UInt8))
    (fails : Bool) : Frame mem base len (run umax mem base len frags fails).2 := by
  have f := (Frame.new mem base len).writeAll umax frags
  unfold AranyaV.CStr.run
  simp only
  split; · exact f
  split; · exact f
  exact f.finish umax

/-! ## Functional invariant of the fragment loop -/

structure Inv (umax : Nat) (mem : List UInt8) (base len : Nat) (w : W) (tot : Nat)
    (cat : List UInt8) : Prop where
  hbase : w.base = base
  hlen : w.len = len
  hlength : w.mem.length = mem.length
  hnw : w.nw = min tot umax
  hpan : w.panicked = false
  hcat : cat.length = tot
  hmem : tot + 1 ≤ len → w.mem = mem.take base ++ cat ++ mem.drop (base + tot)

theorem Inv.new (umax : Nat) (mem : List UInt8) (base len : Nat) :
    Inv umax mem base len (W.new mem base len) 0 [] :=
  ⟨rfl, rfl, rfl, by simp [W.new], rfl, rfl, by intro _; simp [W.new]⟩

theorem Inv.write {umax mem base len w tot cat} (i : Inv umax mem base len w tot cat)
    (hmax : len ≤ umax) (hin : base + len ≤ mem.length) (src : List UInt8) :
    Inv umax mem base len (w.write umax src) (tot + src.length) (cat ++ src) := by
  have ⟨hbase, hlen, hlength, hnw, hpan, hcat, hmem⟩ := i
  unfold W.write
  simp only [hpan, Bool.false_eq_true, if_false]
  by_cases he : src.isEmpty = true
  · have : src = [] := by simpa using he
    subst this
    simpa using i
  · simp only [he, Bool.false_eq_true, if_false]
    have hpos : 0 < src.length := by
      cases src with
      | nil => simp at he
      | cons _ _ => simp
    have hend : satAdd umax w.nw src.length = min (tot + src.length) umax := by
      simp only [satAdd, hnw]; omega
    by_cases h0 : w.len = 0
    · simp only [h0, if_true]
      refine ⟨hbase, by show (0 : Nat) = len; omega, hlength, hend, by simp [hpan], by simp [hcat], ?_⟩
      intro h; omega
    · simp only [h0, if_false]
      by_cases hfit : w.nw ≤ satAdd umax w.nw src.length ∧ satAdd umax w.nw src.length ≤ w.len - 1
      · simp only [hfit, and_self, if_true]
        have hle : tot + src.length ≤ len - 1 := by
          rw [hend, hlen] at hfit; omega
        have hnw' : w.nw = tot := by omega
        have hend' : satAdd umax w.nw src.length = tot + src.length := by omega
        have hno : ¬ (satAdd umax w.nw src.length - w.nw ≠ src.length) := by omega
        simp only [hno, if_false]
        have hf := copyAt_fields w (w.base + w.nw) src
        refine ⟨hf.1.trans hbase, hf.2.1.trans hlen, ?_, hend, hf.2.2.2.trans hpan,
          by simp [hcat], ?_⟩
        · have := copyAt_mem w (w.base + w.nw) src (by omega)
          simp only [this, List.length_append, List.length_take, List.length_drop]; omega
        · intro _
          have hm := hmem (by omega)
          have := copyAt_mem w (w.base + w.nw) src (by omega)
          simp only [this]
          rw [hbase, hnw', hm]
          have hl1 : (List.take base mem ++ cat).length = base + tot := by
            simp [hcat]; omega
          have e1 : List.take (base + tot) (List.take base mem ++ cat ++ List.drop (base + tot) mem)
              = List.take base mem ++ cat := by
            rw [List.take_append, hl1]; simp
            rw [List.take_of_length_le (by omega)]
          have e2 : List.drop (base + tot + src.length)
                (List.take base mem ++ cat ++ List.drop (base + tot) mem)
              = List.drop (base + (tot + src.length)) mem := by
            rw [List.drop_append, hl1, List.drop_of_length_le (by omega)]
            have : base + tot + src.length - (base + tot) = src.length := by omega
            simp [this, List.drop_drop]; congr 1; omega
          rw [e1, e2]; simp
      · simp only [hfit, if_false]
        refine ⟨hbase, hlen, hlength, hend, by simp [hpan], by simp [hcat], ?_⟩
        intro h
        exfalso; apply hfit
        rw [hend, hlen, hnw]; omega

theorem Inv.writeAll {umax mem base len w tot cat} (i : Inv umax mem base len w tot cat)
    (hmax : len ≤ umax) (hin : base + len ≤ mem.length) (frags : List (List UInt8)) :
    Inv umax mem base len (w.writeAll umax frags) (tot + total frags) (cat ++ frags.flatten) := by
  unfold W.writeAll
  induction frags generalizing w tot cat with
  | nil => simpa [total] using i
  | cons s ss ih =>
    have := ih (i.write hmax hin s)
    simpa [total, Nat.add_assoc] using this

/-- `finish` when everything fitted: NUL at `base + tot`, `Ok`, `nw = tot + 1` -/
theorem Inv.finish_fit {umax mem base len w tot cat} (i : Inv umax mem base len w tot cat)
    (hmax : len < umax) (hin : base + len ≤ mem.length) (hfit : tot + 1 ≤ len) :
    (w.finish umax).1 = .ok ∧
    (w.finish umax).2.mem = mem.take base ++ cat ++ 0 :: mem.drop (base + tot + 1) ∧
    (w.finish umax).2.nw = tot + 1 := by
  have ⟨hbase, hlen, hlength, hnw, hpan, hcat, hmem⟩ := i
  have hm := hmem hfit
  obtain ⟨wmem, wbase, wlen, wnw, wtrace, wpan⟩ := w
  simp only at hbase hlen hlength hnw hpan hm
  subst hbase hlen hpan
  have hnw' : wnw = tot := by omega
  subst hnw'
  have hidx : min wnw wlen = wnw := by omega
  have hlt : wnw < wlen := by omega
  have hsat : satAdd umax wnw 1 = wnw + 1 := by simp only [satAdd]; omega
  simp only [W.finish, Bool.false_eq_true, if_false, hidx, hlt, if_true, store, hsat]
  refine ⟨by simp; omega, ?_, trivial⟩
  have hl1 : (List.take wbase mem ++ cat).length = wbase + wnw := by
    rw [List.length_append, hcat, List.length_take]; omega
  have hl2 : wbase + wnw < wmem.length := by omega
  rw [set_eq _ _ _ hl2, hm]
  rw [take_app_len _ _ _ hl1, drop_app_len _ _ _ 1 hl1, List.drop_drop]

/-- `finish` when something did not fit: nothing stored, `BufferTooSmall`, `nw = tot + 1`
(saturating) -/
theorem Inv.finish_small {umax mem base len w tot cat} (i : Inv umax mem base len w tot cat)
    (hmax : len < umax) (hsmall : ¬ tot + 1 ≤ len) :
    (w.finish umax).1 = .tooSmall ∧
    (w.finish umax).2.mem = w.mem ∧
    (w.finish umax).2.nw = min (tot + 1) umax := by
  have ⟨hbase, hlen, hlength, hnw, hpan, hcat, hmem⟩ := i
  obtain ⟨wmem, wbase, wlen, wnw, wtrace, wpan⟩ := w
  simp only at hbase hlen hlength hnw hpan
  subst hbase hlen hpan
  have hidx : ¬ (min wnw wlen < wlen) := by omega
  have hsat : satAdd umax wnw 1 = min (tot + 1) umax := by simp only [satAdd]; omega
  have hno : ¬ (min (tot + 1) umax ≤ wlen) := by omega
  simp [W.finish, hidx, hsat, hno]

end AranyaV.CStr
