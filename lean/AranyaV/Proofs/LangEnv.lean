import AranyaV.Spec.Lang
/-!
Statements only extend the innermost block scope: the enclosing scopes of an environment are
untouched by `evalStmts`, and nested blocks (`if` branches, `match` arms) leave no trace.
-/
namespace AranyaV.Lang
open AranyaV.Gen.Lang

theorem bindVar_tail {p : Program} {b0 : List (Nat × Val)} {env env' : Env} {x v}
    (h : bindVar p (b0 :: env) x v = some env') : env' = ((x, v) :: b0) :: env := by
  unfold bindVar at h
  split at h
  · cases h
  · split at h
    · cases h
    · simpa using h.symm

theorem bindArm_tail {p : Program} {b0 : List (Nat × Val)} {env env' : Env} {v pat}
    (h : bindArm p (b0 :: env) v pat = some env') : ∃ b, env' = b :: env := by
  cases pat with
  | default => simp [bindArm] at h; exact ⟨b0, h.symm⟩
  | values vs =>
    simp only [bindArm] at h
    split at h
    · exact ⟨b0, by simpa using h.symm⟩
    · split at h
      · exact ⟨_, bindVar_tail h⟩
      · cases h

variable (p : Program)

def EnvTailS (n : Nat) : Prop :=
  ∀ b0 env log ss env' l, evalStmts p n (b0 :: env) log ss = .val env' l → ∃ b, env' = b :: env
def EnvTail1 (n : Nat) : Prop :=
  ∀ b0 env log s env' l, evalStmt p n (b0 :: env) log s = .val env' l → ∃ b, env' = b :: env
def EnvScoped (n : Nat) : Prop :=
  ∀ env log ss env' l, evalScoped p n env log ss = .val env' l → env' = env
def EnvBr (n : Nat) : Prop :=
  ∀ env log brs hasElse els env' l, evalBranches p n env log brs hasElse els = .val env' l → env' = env

theorem envTail_all : ∀ n, EnvTailS p n ∧ EnvTail1 p n ∧ EnvScoped p n ∧ EnvBr p n
  | 0 => by
    refine ⟨?_, ?_, ?_, ?_⟩
    · intro b0 env log ss env' l h; simp [evalStmts] at h
    · intro b0 env log s env' l h; simp [evalStmt] at h
    · intro env log ss env' l h; simp [evalScoped] at h
    · intro env log brs hasElse els env' l h; simp [evalBranches] at h
  | n + 1 => by
    obtain ⟨ihS, ih1, ihSc, ihBr⟩ := envTail_all n
    refine ⟨?_, ?_, ?_, ?_⟩
    · intro b0 env log ss env' l h
      cases ss with
      | nil => simp [evalStmts] at h; exact ⟨b0, h.1.symm⟩
      | cons s ss =>
        simp only [evalStmts] at h
        cases hs : evalStmt p n (b0 :: env) log s with
        | val e1 l1 =>
          rw [hs] at h
          obtain ⟨b1, rfl⟩ := ih1 b0 env log s e1 l1 hs
          exact ihS b1 env l1 ss env' l h
        | _ => rw [hs] at h; cases h
    · intro b0 env log s env' l h
      cases s with
      | let_ x e =>
        simp only [evalStmt] at h
        cases he : evalExpr p n (b0 :: env) log e with
        | val v l1 =>
          rw [he] at h; dsimp only at h
          cases hb : bindVar p (b0 :: env) x v with
          | none => rw [hb] at h; cases h
          | some e2 =>
            rw [hb] at h; cases h
            exact ⟨_, bindVar_tail hb⟩
        | _ => rw [he] at h; cases h
      | check c els =>
        simp only [evalStmt] at h
        cases he : evalExpr p n (b0 :: env) log c with
        | val v l1 =>
          rw [he] at h
          cases v <;> try (cases h)
          rename_i bv
          cases bv with
          | true => cases h; exact ⟨b0, rfl⟩
          | false =>
            dsimp only at h
            cases he2 : evalExpr p n (b0 :: env) l1 els <;> rw [he2] at h <;> cases h
        | _ => rw [he] at h; cases h
      | mtch scrut arms =>
        simp only [evalStmt] at h
        cases he : evalExpr p n (b0 :: env) log scrut with
        | val v l1 =>
          rw [he] at h; dsimp only at h
          cases hsel : selectArm p n (b0 :: env) l1 v (arms.map (·.1)) 0 with
          | val k l2 =>
            rw [hsel] at h; dsimp only at h
            cases harm : arms[k]? with
            | none => rw [harm] at h; cases h
            | some arm =>
              obtain ⟨pat, body⟩ := arm
              rw [harm] at h; dsimp only at h
              cases hb : bindArm p ([] :: b0 :: env) v pat with
              | none => rw [hb] at h; cases h
              | some e1 =>
                rw [hb] at h; dsimp only at h
                obtain ⟨b1, rfl⟩ := bindArm_tail hb
                cases hbody : evalStmts p n (b1 :: b0 :: env) l2 body with
                | val e2 l3 =>
                  rw [hbody] at h
                  obtain ⟨b2, rfl⟩ := ihS b1 (b0 :: env) l2 body e2 l3 hbody
                  cases h
                  exact ⟨b0, rfl⟩
                | _ => rw [hbody] at h; cases h
          | _ => rw [hsel] at h; cases h
        | _ => rw [he] at h; cases h
      | ifS brs hasElse els =>
        simp only [evalStmt] at h
        exact ⟨b0, ihBr (b0 :: env) log brs hasElse els env' l h⟩
      | ret e =>
        simp only [evalStmt] at h
        cases he : evalExpr p n (b0 :: env) log e <;> rw [he] at h <;> cases h
      | dassert e =>
        simp only [evalStmt] at h
        cases he : evalExpr p n (b0 :: env) log e with
        | val v l1 =>
          rw [he] at h
          cases v <;> try (cases h)
          rename_i bv
          cases bv with
          | true => cases h; exact ⟨b0, rfl⟩
          | false => cases h
        | _ => rw [he] at h; cases h
    · intro env log ss env' l h
      simp only [evalScoped] at h
      cases hs : evalStmts p n ([] :: env) log ss with
      | val e1 l1 =>
        rw [hs] at h
        obtain ⟨b, rfl⟩ := ihS [] env log ss e1 l1 hs
        cases h; rfl
      | _ => rw [hs] at h; cases h
    · intro env log brs hasElse els env' l h
      cases brs with
      | nil =>
        simp only [evalBranches] at h
        cases hasElse with
        | true => simp only [if_true] at h; exact ihSc env log els env' l h
        | false => simp at h; exact h.1.symm
      | cons br brs =>
        obtain ⟨c, ss⟩ := br
        simp only [evalBranches] at h
        cases he : evalExpr p n env log c with
        | val v l1 =>
          rw [he] at h
          cases v <;> try (cases h)
          rename_i bv
          cases bv with
          | true => exact ihSc env l1 ss env' l h
          | false => exact ihBr env l1 brs hasElse els env' l h
        | _ => rw [he] at h; cases h

end AranyaV.Lang
