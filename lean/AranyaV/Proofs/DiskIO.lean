import AranyaV.Proofs.DiskBounded
/-!
I/O errors anywhere (C15): the generalised crash invariant `GQ`.

Compared with `Quiet` it allows root bytes of a commit *attempt* to be pending (`pa`): every
pending write is a data write at or beyond the durable frontier, or a leading part of the length
prefix / body of the attempted root written into the slot `next`.  A barrier may make such an
attempt durable although its commit reported (or will report) an error, so the slot `next` may
hold an *attempted root* (`atts`) that is newer than the committed one.  `open` on any crash image
returns the committed root, a durable attempt, or the pending attempt.

The analysis is done on annotated op streams (`AOp`): real I/O calls plus ghost steps (`advance`:
the write frontier moves past a completely written item).  `Conf` is the protocol-conformance
predicate; `gq_conf` shows that a conforming stream preserves `GQ`; both are prefix-closed, which
gives every crash point inside a call for free.
-/
namespace AranyaV.Disk
open AranyaV.Wire

/-- `p` writes a leading part of the length prefix or of the body of `a` into slot `s` -/
def SubRoot (s : Nat) (a : Root) (p : Write) : Prop :=
  (p.off = s ∧ ∃ k, p.bytes = (be32Enc (encBody a).length).take k) ∨
  (p.off = s + 4 ∧ ∃ k, p.bytes = (encBody a).take k)

/-- byte `i` of `img` is a byte of the record `a` written at slot `s` -/
def RootByte (s : Nat) (a : Root) (img : Img) (i : Nat) : Prop :=
  (s ≤ i ∧ i - s < 4 ∧ img i = (be32Enc (encBody a).length).getD (i - s) 0) ∨
  (s + 4 ≤ i ∧ i - (s + 4) < (encBody a).length ∧ img i = (encBody a).getD (i - (s + 4)) 0)

/-- **The checksum hypothesis, pointwise form.**  Any image that is byte-wise either `old` or the
new record written at `slot` validates there only as the new record or as what validated before.
(The mask form `TornOK` is the special case of images produced by two masked writes.) -/
def TornOKp (ck : Checksum) (old : Img) (slot : Nat) (a : Root) : Prop :=
  ∀ img : Img, (∀ i, img i = old i ∨ RootByte slot a img i) →
    ∀ r', loadValid ck img slot = some r' → r' = a ∨ loadValid ck old slot = some r'

theorem TornOKp.mask {ck : Checksum} {old : Img} {s : Nat} {a : Root} (h : TornOKp ck old s a) :
    TornOK ck old s a := by
  intro m1 m2 r' hr
  refine h _ ?_ r' hr
  intro i
  rcases applyMasked_cases (applyMasked old ⟨s, be32Enc (encBody a).length⟩ m1)
      ⟨s + lenPrefixLen, encBody a⟩ m2 i with h2 | ⟨hc, h2⟩
  · rcases applyMasked_cases old ⟨s, be32Enc (encBody a).length⟩ m1 i with h1 | ⟨hc1, h1⟩
    · left; rw [h2, h1]
    · right; left
      unfold covers at hc1; simp only [be32Enc_length] at hc1
      exact ⟨hc1.1, hc1.2, by rw [h2, h1]⟩
  · right; right
    unfold covers at hc; simp only [lenPrefixLen] at hc
    exact ⟨hc.1, hc.2, by rw [h2]; rfl⟩

/-! ## pointwise descriptions of crash images and of the live view -/

theorem crashGo_cases : ∀ (ws : List Write) (m : Img) (χ : List (List Bool)) (i : Nat),
    crashGo m ws χ i = m i ∨ ∃ p ∈ ws, covers p i ∧ crashGo m ws χ i = p.bytes.getD (i - p.off) 0 := by
  intro ws
  induction ws with
  | nil => intro m χ i; left; rfl
  | cons w ws ih =>
    intro m χ i
    cases χ with
    | nil => left; rfl
    | cons k ks =>
      simp only [crashGo]
      rcases ih (applyMasked m w k) ks i with h | ⟨p, hp, hc, h⟩
      · rcases applyMasked_cases m w k i with h' | ⟨hc', h'⟩
        · left; rw [h, h']
        · right; exact ⟨w, List.mem_cons_self, hc', by rw [h, h']⟩
      · right; exact ⟨p, List.mem_cons_of_mem _ hp, hc, h⟩

theorem applyAll_cases : ∀ (ws : List Write) (m : Img) (i : Nat),
    applyAll m ws i = m i ∨ ∃ p ∈ ws, covers p i ∧ applyAll m ws i = p.bytes.getD (i - p.off) 0 := by
  intro ws
  induction ws with
  | nil => intro m i; left; rfl
  | cons w ws ih =>
    intro m i
    simp only [applyAll]
    rcases ih (applyFull m w) i with h | ⟨p, hp, hc, h⟩
    · by_cases hc' : covers w i
      · right; exact ⟨w, List.mem_cons_self, hc', by rw [h, applyFull_covers hc']⟩
      · left; rw [h, applyFull_not_covers hc']
    · right; exact ⟨p, List.mem_cons_of_mem _ hp, hc, h⟩

/-! ## ghost state and invariant -/

/-- ghost state of the protocol -/
structure G where
  /-- root of the last commit whose final barrier returned -/
  done : Option Root
  /-- slot the next root write goes to -/
  next : Nat
  /-- the writer's in-memory generation -/
  gen : Nat
  /-- durable frontier: everything appended below it is on the medium -/
  D : Nat
  /-- write frontier -/
  free : Nat
  recs : List Rec
  /-- attempted roots that may be durable in slot `next` -/
  atts : List Root
  /-- attempted root with bytes still pending -/
  pa : Option Root

/-- candidates newer than the committed root -/
def G.newer (g : G) (r : Root) : Prop := r ∈ g.atts ∨ g.pa = some r

structure GQ (L : Layout) (ck : Checksum) (d : Disk) (g : G) : Prop where
  next_slot : g.next = L.rootA ∨ g.next = L.rootB
  lenA : lenOK d.durable L.rootA
  lenB : lenOK d.durable L.rootB
  cur : loadValid ck d.durable (L.other g.next) = g.done
  nxt : ∀ r', loadValid ck d.durable g.next = some r' →
    (∃ r, g.done = some r ∧ r'.gen < r.gen) ∨ r' ∈ g.atts
  newer_ok : ∀ a, g.newer a → (∀ r, g.done = some r → r.gen < a.gen) ∧ a.gen ≤ g.gen ∧
    (L.freeStart : Int) ≤ a.free ∧ a.free ≤ (g.D : Int)
  done_ok : ∀ r, g.done = some r → r.gen ≤ g.gen ∧ (L.freeStart : Int) ≤ r.free ∧ r.free ≤ (g.D : Int)
  pa_gen : ∀ a, g.pa = some a → a.gen = g.gen
  pend : ∀ p ∈ d.pending, (L.freeStart ≤ p.off ∧ g.D ≤ p.off) ∨ ∃ a, g.pa = some a ∧ SubRoot g.next a p
  torn : ∀ a, g.pa = some a → TornOKp ck d.durable g.next a
  D_le : g.D ≤ g.free
  fs : L.freeStart ≤ g.free
  recs_ok : ∀ rec ∈ g.recs, L.freeStart ≤ rec.off ∧ rec.end_ ≤ g.free ∧ agreeRec d.view rec ∧
    (rec.end_ ≤ g.D → agreeRec d.durable rec)

/-- `img` is, byte-wise, the durable image or a byte some pending write put there -/
def Mixed (d : Disk) (img : Img) : Prop :=
  ∀ i, img i = d.durable i ∨ ∃ p ∈ d.pending, covers p i ∧ img i = p.bytes.getD (i - p.off) 0

theorem mixed_crash (d : Disk) (χ : List (List Bool)) : Mixed d (d.crash χ) :=
  fun i => crashGo_cases d.pending d.durable χ i

theorem mixed_view (d : Disk) : Mixed d d.view := fun i => applyAll_cases d.pending d.durable i

theorem subRoot_covers {s : Nat} {a : Root} {p : Write} (h : SubRoot s a p) {i : Nat} (hc : covers p i) :
    s ≤ i ∧ i < s + rootMax ∧
    ((s ≤ i ∧ i - s < 4 ∧ p.bytes.getD (i - p.off) 0 = (be32Enc (encBody a).length).getD (i - s) 0) ∨
     (s + 4 ≤ i ∧ i - (s + 4) < (encBody a).length ∧
       p.bytes.getD (i - p.off) 0 = (encBody a).getD (i - (s + 4)) 0)) := by
  have hlen := encBody_length_le a
  unfold covers at hc
  unfold rootMax; unfold bodyMax at hlen
  rcases h with ⟨ho, k, hb⟩ | ⟨ho, k, hb⟩
  · have hl : p.bytes.length ≤ 4 := by rw [hb, List.length_take, be32Enc_length]; omega
    refine ⟨by omega, by omega, Or.inl ⟨by omega, by omega, ?_⟩⟩
    rw [ho, hb]
    have hk : i - s < k := by rw [hb, List.length_take] at hc; omega
    simp [List.getD_eq_getElem?_getD, List.getElem?_take, hk]
  · have hl : p.bytes.length ≤ (encBody a).length := by rw [hb, List.length_take]; omega
    refine ⟨by omega, by omega, Or.inr ⟨by omega, by omega, ?_⟩⟩
    rw [ho, hb]
    have hk : i - (s + 4) < k := by rw [hb, List.length_take] at hc; omega
    simp [List.getD_eq_getElem?_getD, List.getElem?_take, hk]

section
variable {L : Layout} {ck : Checksum} {d : Disk} {g : G}

/-- outside the slot `next`, below `FREE_START` or below the durable frontier, a mixed image is
the durable image -/
theorem GQ.mixed_low (hL : L.OK) (q : GQ L ck d g) {img : Img} (hm : Mixed d img) {i : Nat}
    (hi : i < L.freeStart ∨ i < g.D) (hout : i < g.next ∨ g.next + rootMax ≤ i) : img i = d.durable i := by
  rcases hm i with h | ⟨p, hp, hc, _⟩
  · exact h
  · rcases q.pend p hp with hd | ⟨a, _, hs⟩
    · unfold covers at hc; omega
    · have := subRoot_covers hs hc; omega

/-- inside the slot `next` it is byte-wise durable or a byte of the pending attempt -/
theorem GQ.mixed_next (hL : L.OK) (q : GQ L ck d g) {img : Img} (hm : Mixed d img) (i : Nat)
    (hi : i < L.freeStart) :
    img i = d.durable i ∨ ∃ a, g.pa = some a ∧ RootByte g.next a img i := by
  rcases hm i with h | ⟨p, hp, hc, h⟩
  · exact Or.inl h
  · rcases q.pend p hp with hd | ⟨a, ha, hs⟩
    · unfold covers at hc; omega
    · right
      refine ⟨a, ha, ?_⟩
      rcases (subRoot_covers hs hc).2.2 with ⟨h1, h2, h3⟩ | ⟨h1, h2, h3⟩
      · exact Or.inl ⟨h1, h2, by rw [h, h3]⟩
      · exact Or.inr ⟨h1, h2, by rw [h, h3]⟩

theorem next_lt {L : Layout} (hL : L.OK) {s : Nat} (hs : s = L.rootA ∨ s = L.rootB) :
    s + rootMax ≤ L.freeStart := by
  have := hL.a_b; have := hL.b_free
  rcases hs with rfl | rfl <;> omega

/-- short length prefix of slot `next` in a mixed image -/
theorem GQ.mixed_lenNext (hL : L.OK) (q : GQ L ck d g) {img : Img} (hm : Mixed d img) :
    lenOK img g.next := by
  have hold : lenOK d.durable g.next := by
    rcases q.next_slot with h | h <;> rw [h]
    · exact q.lenA
    · exact q.lenB
  have hfs := next_lt hL q.next_slot
  unfold lenOK lenAt rootMax at *
  have key : ∀ j, j < 4 → (img (g.next + j)).toNat = (d.durable (g.next + j)).toNat ∨
      ∃ a, (img (g.next + j)).toNat = ((be32Enc (encBody a).length).getD j 0).toNat := by
    intro j hj
    rcases q.mixed_next hL hm (g.next + j) (by omega) with h | ⟨a, _, hb⟩
    · left; rw [h]
    · right
      refine ⟨a, ?_⟩
      rcases hb with ⟨_, _, h3⟩ | ⟨h1, _, _⟩
      · rw [h3, Nat.add_sub_cancel_left]
      · omega
  have e : ∀ (a : Root), ((be32Enc (encBody a).length).getD 0 0).toNat = 0 ∧
      ((be32Enc (encBody a).length).getD 1 0).toNat = 0 ∧
      ((be32Enc (encBody a).length).getD 2 0).toNat = 0 ∧
      ((be32Enc (encBody a).length).getD 3 0).toNat ≤ 52 := by
    intro a
    have hl := encBody_length_le a
    unfold bodyMax at hl
    simp only [be32Enc, List.getD_eq_getElem?_getD, List.getElem?_cons_zero, List.getElem?_cons_succ,
      Option.getD_some]
    refine ⟨?_, ?_, ?_, ?_⟩ <;> rw [toNat_ofNat_lt (Nat.mod_lt _ (by decide))] <;> omega
  have k0 := key 0 (by omega); have k1 := key 1 (by omega)
  have k2 := key 2 (by omega); have k3 := key 3 (by omega)
  simp only [Nat.add_zero] at k0
  have a0 : (img g.next).toNat = 0 := by
    rcases k0 with h | ⟨a, h⟩
    · rw [h]; omega
    · rw [h]; exact (e a).1
  have a1 : (img (g.next + 1)).toNat = 0 := by
    rcases k1 with h | ⟨a, h⟩
    · rw [h]; omega
    · rw [h]; exact (e a).2.1
  have a2 : (img (g.next + 2)).toNat = 0 := by
    rcases k2 with h | ⟨a, h⟩
    · rw [h]; omega
    · rw [h]; exact (e a).2.2.1
  have a3 : (img (g.next + 3)).toNat ≤ 52 := by
    rcases k3 with h | ⟨a, h⟩
    · rw [h]; omega
    · rw [h]; exact (e a).2.2.2
  rw [a0, a1, a2]
  simp only [Nat.zero_mul, Nat.zero_add]
  exact Nat.add_le_add_left a3 4

/-- the slots of a mixed image -/
theorem GQ.mixed_slots (hL : L.OK) (q : GQ L ck d g) {img : Img} (hm : Mixed d img) :
    loadValid ck img (L.other g.next) = g.done ∧ lenOK img L.rootA ∧ lenOK img L.rootB ∧
    (∀ r', loadValid ck img g.next = some r' →
      (∃ r, g.done = some r ∧ r'.gen < r.gen) ∨ g.newer r') := by
  have hos := Layout.other_slot hL q.next_slot
  have holen : lenOK d.durable (L.other g.next) := by
    rcases hos with h | h <;> rw [h]
    · exact q.lenA
    · exact q.lenB
  have hother := slot_congr ck (img' := img) holen (fun i hi => by
    have hd := other_disjoint hL q.next_slot hi
    have := next_lt hL hos
    exact (q.mixed_low hL hm (Or.inl (by omega)) hd).symm)
  have hlenNext := q.mixed_lenNext hL hm
  have hlenS : ∀ s, s = L.rootA ∨ s = L.rootB → lenOK img s := by
    intro s hs
    by_cases hsn : s = g.next
    · subst hsn; exact hlenNext
    · have : s = L.other g.next := by
        rcases hs with rfl | rfl <;> rcases q.next_slot with h | h
        · exact absurd h.symm hsn
        · rw [h, Layout.other_B hL]
        · rw [h, L.other_A]
        · exact absurd h.symm hsn
      subst this; exact hother.2
  refine ⟨hother.1.symm.trans q.cur, hlenS _ (Or.inl rfl), hlenS _ (Or.inr rfl), ?_⟩
  intro r' hr'
  have hfs := next_lt hL q.next_slot
  cases hpa : g.pa with
  | none =>
    -- no attempt pending: the slot is the durable one
    have heq : loadValid ck img g.next = loadValid ck d.durable g.next := by
      have hold : lenOK d.durable g.next := by
        rcases q.next_slot with h | h <;> rw [h]
        · exact q.lenA
        · exact q.lenB
      refine (slot_congr ck hold (fun i hi => ?_)).1.symm
      rcases q.mixed_next hL hm (g.next + i) (by omega) with h | ⟨a, ha, _⟩
      · exact h.symm
      · rw [hpa] at ha; cases ha
    rw [heq] at hr'
    rcases q.nxt r' hr' with h | h
    · exact Or.inl h
    · exact Or.inr (Or.inl h)
  | some a =>
    -- build the pointwise mix restricted to the slot: outside it keep the durable image
    let img2 : Img := fun i => if g.next ≤ i ∧ i < g.next + rootMax then img i else d.durable i
    have hl2 : lenOK img2 g.next := by
      have := (slot_congr ck (img' := img2) hlenNext (fun i hi => by
        show img (g.next + i) = img2 (g.next + i)
        simp only [img2]; rw [if_pos ⟨by omega, by omega⟩])).2
      exact this
    have he : loadValid ck img g.next = loadValid ck img2 g.next :=
      (slot_congr ck hlenNext (fun i hi => by
        show img (g.next + i) = img2 (g.next + i)
        simp only [img2]; rw [if_pos ⟨by omega, by omega⟩])).1
    rw [he] at hr'
    have hpt : ∀ i, img2 i = d.durable i ∨ RootByte g.next a img2 i := by
      intro i
      by_cases hin : g.next ≤ i ∧ i < g.next + rootMax
      · have hi2 : img2 i = img i := by simp only [img2]; rw [if_pos hin]
        rcases q.mixed_next hL hm i (by omega) with h | ⟨a', ha', hb⟩
        · left; rw [hi2, h]
        · rw [hpa] at ha'; cases ha'
          right
          rcases hb with ⟨h1, h2, h3⟩ | ⟨h1, h2, h3⟩
          · exact Or.inl ⟨h1, h2, by rw [hi2, h3]⟩
          · exact Or.inr ⟨h1, h2, by rw [hi2, h3]⟩
      · left; simp only [img2]; rw [if_neg hin]
    rcases q.torn a hpa img2 hpt r' hr' with h | h
    · exact Or.inr (Or.inr (by rw [h]; exact hpa))
    · rcases q.nxt r' h with h' | h'
      · exact Or.inl h'
      · exact Or.inr (Or.inl h')

/-- items below the durable frontier are intact in a mixed image -/
theorem GQ.mixed_intact (hL : L.OK) (q : GQ L ck d g) {img : Img} (hm : Mixed d img) {rec : Rec}
    (hr : rec ∈ g.recs) (hD : rec.end_ ≤ g.D) : agreeRec img rec := by
  obtain ⟨hoff, _, _, hdur⟩ := q.recs_ok rec hr
  have hfs := next_lt hL q.next_slot
  exact agreeRec_congr (fun i h1 h2 => q.mixed_low hL hm (Or.inr (by omega)) (Or.inr (by omega))) (hdur hD)

/-- **what `open` returns on any crash image**: the committed root, or an attempted root that is
newer; every item below the recovered frontier is intact -/
theorem GQ.safe (hL : L.OK) (q : GQ L ck d g) (χ : List (List Bool)) :
    (Writer.open L ck (d.crash χ) = none → g.done = none) ∧
    ∀ w, Writer.open L ck (d.crash χ) = some w →
      (some w.root = g.done ∨ g.newer w.root) ∧
      (∀ rec ∈ g.recs, (rec.end_ : Int) ≤ w.root.free → agreeRec (d.crash χ) rec) ∧
      w.root.free ≤ (g.free : Int) ∧ (L.freeStart : Int) ≤ w.root.free ∧
      (w.nextRoot = g.next ∨ w.nextRoot = L.other g.next) ∧
      (∀ r', loadValid ck (d.crash χ) w.nextRoot = some r' → r'.gen < w.root.gen) ∧
      loadValid ck (d.crash χ) (L.other w.nextRoot) = some w.root ∧
      lenOK (d.crash χ) L.rootA ∧ lenOK (d.crash χ) L.rootB := by
  have hm := mixed_crash d χ
  obtain ⟨hcur, hlA, hlB, hnx⟩ := q.mixed_slots hL hm
  have hDle := q.D_le
  have hcases : (Writer.open L ck (d.crash χ) = g.done.map (fun r => mkW r g.next) ∧
        ∀ r', loadValid ck (d.crash χ) g.next = some r' → ∃ r, g.done = some r ∧ r'.gen < r.gen) ∨
      ∃ r', g.newer r' ∧ Writer.open L ck (d.crash χ) = some (mkW r' (L.other g.next)) ∧
        loadValid ck (d.crash χ) g.next = some r' := by
    rcases Option.eq_none_or_eq_some (loadValid ck (d.crash χ) g.next) with hx | ⟨r', hx⟩
    · left
      have hv : ∀ r', loadValid ck (d.crash χ) g.next = some r' → ∃ r, g.done = some r ∧ r'.gen < r.gen :=
        fun r' h => by rw [hx] at h; cases h
      exact ⟨open_of_slots hL ck q.next_slot hcur hv, hv⟩
    · rcases hnx r' hx with hold | hnew
      · left
        have hv : ∀ r'', loadValid ck (d.crash χ) g.next = some r'' → ∃ r, g.done = some r ∧ r''.gen < r.gen :=
          fun r'' h => by rw [hx] at h; cases h; exact hold
        exact ⟨open_of_slots hL ck q.next_slot hcur hv, hv⟩
      · right
        refine ⟨r', hnew, ?_, hx⟩
        have hn' := Layout.other_slot hL q.next_slot
        have h1 : loadValid ck (d.crash χ) (L.other (L.other g.next)) = some r' := by
          rw [Layout.other_other hL q.next_slot]; exact hx
        have h2 : ∀ r'', loadValid ck (d.crash χ) (L.other g.next) = some r'' →
            ∃ r, some r' = some r ∧ r''.gen < r.gen := by
          intro r'' h
          rw [hcur] at h
          exact ⟨r', rfl, (q.newer_ok r' hnew).1 r'' h⟩
        have := open_of_slots hL ck hn' h1 h2
        simpa using this
  have hint : ∀ (r : Root), r.free ≤ (g.D : Int) → ∀ rec ∈ g.recs, (rec.end_ : Int) ≤ r.free →
      agreeRec (d.crash χ) rec := fun r hr rec hrec hle => q.mixed_intact hL hm hrec (by omega)
  rcases hcases with ⟨ho, hold⟩ | ⟨r', hnew, ho, hx⟩
  · rw [ho]
    cases hd : g.done with
    | none => exact ⟨fun _ => rfl, fun w h => by cases h⟩
    | some r =>
      refine ⟨fun h => (by cases h), ?_⟩
      intro w hw
      simp only [Option.map_some, Option.some.injEq] at hw
      subst hw
      have hdo := q.done_ok r hd
      refine ⟨Or.inl rfl, hint r hdo.2.2, by simp only [mkW]; omega, hdo.2.1, Or.inl rfl, ?_, ?_, hlA, hlB⟩
      · intro r' hr'
        obtain ⟨r0, h0, hlt⟩ := hold r' hr'
        rw [hd] at h0; cases h0; exact hlt
      · show loadValid ck (d.crash χ) (L.other g.next) = some r
        rw [hcur, hd]
  · rw [ho]
    refine ⟨fun h => (by cases h), ?_⟩
    intro w hw
    simp only [Option.some.injEq] at hw
    subst hw
    have hno := q.newer_ok r' hnew
    refine ⟨Or.inr hnew, hint r' hno.2.2.2, by simp only [mkW]; omega, hno.2.2.1, Or.inr rfl, ?_, ?_, hlA, hlB⟩
    · intro r'' hr''
      have h2 : loadValid ck (d.crash χ) (L.other g.next) = some r'' := hr''
      rw [hcur] at h2
      exact hno.1 r'' h2
    · show loadValid ck (d.crash χ) (L.other (L.other g.next)) = some r'
      rw [Layout.other_other hL q.next_slot]; exact hx

end

end AranyaV.Disk
