import AranyaV.Proofs.TypeBase
namespace AranyaV.Lang
open AranyaV.Gen.Lang

/-! ## the fragment covered by `typecheck_sound_partial` -/
mutual
def fragE : Expr → Bool
  | .unit | .int _ | .str _ | .bool _ | .none | .todo | .var _ | .enumRef _ _ _ => true
  | .some e | .ok e | .err e | .not e | .ret e => fragE e
  | .is e _ => fragE e
  | .and a b | .or a b | .coalesce a b => fragE a && fragE b
  | .eq a b | .ne a b | .gt a b | .lt a b | .ge a b | .le a b => fragE a && fragE b
  | .ite c t f => fragE c && fragE t && fragE f
  | .call _ args => fragArgs args
  | .block ss e => fragSs ss && fragE e
  | .ffi _ _ _ _ | .struct _ _ _ | .dot _ _ | .cast _ _ | .substruct _ _ | .mtch _ _ => false
def fragArgs : List Expr → Bool
  | [] => true
  | e :: es => fragE e && fragArgs es
def fragS : Stmt → Bool
  | .let_ _ e => fragE e
  | .check c els => fragE c && fragE els
  | .ifS brs _ els => fragBrs brs && fragSs els
  | .ret e => fragE e
  | .dassert e => fragE e
  | .mtch _ _ => false
def fragSs : List Stmt → Bool
  | [] => true
  | s :: ss => fragS s && fragSs ss
def fragBrs : List (Expr × List Stmt) → Bool
  | [] => true
  | (c, ss) :: rest => fragE c && fragSs ss && fragBrs rest
end

def LCtx.withRet (cx : LCtx) (rt : Ty) : LCtx := { cx with retTy := rt }

/-- outcome predicate: never stuck; values satisfy `P`, early returns satisfy `Q` -/
def ROk {α : Type} (P : α → Prop) (Q : Val → Prop) : Res α → Prop
  | .val a _ => P a
  | .ret v _ => Q v
  | .stuck => False
  | _ => True

def ArgsFit : List Val → List Ty → Prop
  | [], [] => True
  | v :: vs, t :: ts => v.fitsType t = true ∧ ArgsFit vs ts
  | _, _ => False

/-- a lowered function of the fragment -/
def FunOk (cx : LCtx) (fd : FunDef) : Prop :=
  fd.ret.neverFree = true ∧ (∀ q ∈ fd.params, q.2.neverFree = true) ∧
  ∃ sc0 body0 sc1,
    fd.params.reverse.foldl (fun acc (q : Nat × Ty) => acc.bind (fun s => scopeAdd cx s q.1 q.2)) (some [[]]) = some sc0 ∧
    lowerStmts (cx.withRet fd.ret) sc0 body0 = some (fd.body, sc1) ∧ fragSs body0 = true

structure Ctx (cx : LCtx) (p : Program) : Prop where
  hg : cx.globals = []
  hpg : p.globals = []
  hbuiltin : ∀ f, isBuiltin f = true → cx.sigs.find? (·.1 == f) = builtinSigs.find? (·.1 == f)
  hcall : ∀ f g params rt, isBuiltin f = false → cx.sigs.find? (·.1 == f) = some (g, params, rt) →
    ∃ fd, p.funDef f = some fd ∧ fd.params = params ∧ fd.ret = rt ∧ FunOk cx fd

abbrev FitV (t : Ty) : Val → Prop := fun v => v.fitsType t = true

structure Snd (cx : LCtx) (p : Program) (n : Nat) : Prop where
  e : ∀ rt sc e e' t env log, fragE e = true → lowerExpr (cx.withRet rt) sc e = some (e', t) → rt.neverFree = true →
    EnvOk sc env → ROk (FitV t) (FitV rt) (evalExpr p n env log e')
  args : ∀ rt sc pts es es' env log, fragArgs es = true → pts.length = es.length →
    lowerArgs (cx.withRet rt) sc pts es = some es' → (∀ t ∈ pts, t.neverFree = true) → rt.neverFree = true →
    EnvOk sc env → ROk (fun vs => ArgsFit vs pts) (FitV rt) (evalArgs p n env log es')
  ss : ∀ rt sc ss ss' sc' env log, fragSs ss = true → lowerStmts (cx.withRet rt) sc ss = some (ss', sc') → rt.neverFree = true →
    EnvOk sc env → ROk (fun env' => EnvOk sc' env') (FitV rt) (evalStmts p n env log ss')
  s : ∀ rt sc s s' sc' env log, fragS s = true → lowerStmt (cx.withRet rt) sc s = some (s', sc') → rt.neverFree = true →
    EnvOk sc env → ROk (fun env' => EnvOk sc' env') (FitV rt) (evalStmt p n env log s')
  scp : ∀ rt sc ss ss' sc' env log, fragSs ss = true → lowerStmts (cx.withRet rt) ([] :: sc) ss = some (ss', sc') → rt.neverFree = true →
    EnvOk sc env → ROk (fun env' => EnvOk sc env') (FitV rt) (evalScoped p n env log ss')
  br : ∀ rt sc brs brs' (hasElse : Bool) els els' env log, fragBrs brs = true → fragSs els = true →
    lowerBranches (cx.withRet rt) sc brs = some brs' →
    (hasElse = true → ∃ scE, lowerStmts (cx.withRet rt) ([] :: sc) els = some (els', scE)) → rt.neverFree = true →
    EnvOk sc env → ROk (fun env' => EnvOk sc env') (FitV rt) (evalBranches p n env log brs' hasElse els')
  call : ∀ f fd vs log, p.funDef f = some fd → FunOk cx fd → ArgsFit vs (fd.params.map (·.2)) →
    ROk (FitV fd.ret) (fun _ => False) (evalCall p n f vs log)

theorem snd_zero (cx : LCtx) (p : Program) : Snd cx p 0 := by
  constructor <;> intros <;> simp [evalExpr, evalArgs, evalStmts, evalStmt, evalScoped, evalBranches, evalCall, ROk]

end AranyaV.Lang
